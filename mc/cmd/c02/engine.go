package main

import (
	"fmt"
	"math"
	"sort"
	"strings"

	ad "github.com/pbenner/autodiff"
	"verif/mc/vf"
)

// Case is a replayable single case of any of the sub-checks.
type Case struct {
	Kind  string     `json:"kind"` // op | vec | cmp | conv
	Op    string     `json:"op"`
	Recv  string     `json:"receiver,omitempty"`
	Kinds []string   `json:"operand_types,omitempty"`
	Vals  []string   `json:"values,omitempty"`
	Param float64    `json:"param,omitempty"`
	Vecs  [][]string `json:"vectors,omitempty"` // vector / matrix data (row major)
	Rows  int        `json:"rows,omitempty"`
	Cols  int        `json:"cols,omitempty"`
	Eps   float64    `json:"epsilon,omitempty"`
	Tgt   string     `json:"target_type,omitempty"`
	Alias int        `json:"receiver_is_operand,omitempty"` // 1: r is operand a, 2: r is operand b (in-place form)
}

func (cs Case) describe() string {
	switch cs.Kind {
	case "op":
		args := ""
		for i := range cs.Kinds {
			if i > 0 {
				args += ", "
			}
			args += cs.Kinds[i] + "(" + cs.Vals[i] + ")"
		}
		if cs.Param != 0 || cs.Op == "BesselI" || cs.Op == "LogBesselI" {
			args = fmt.Sprintf("%v; %s", cs.Param, args)
		}
		return fmt.Sprintf("%s.%s(%s)", cs.Recv, cs.Op, args)
	case "vec":
		args := ""
		for i := range cs.Kinds {
			if i > 0 {
				args += ", "
			}
			args += fmt.Sprintf("%s%v", cs.Kinds[i], cs.Vecs[i])
		}
		if cs.Rows > 0 {
			args += fmt.Sprintf(" as %dx%d matrix", cs.Rows, cs.Cols)
		}
		if cs.Param != 0 {
			args += fmt.Sprintf(", alpha=%v", cs.Param)
		}
		return fmt.Sprintf("%s.%s(%s)", cs.Recv, cs.Op, args)
	case "cmp":
		if cs.Op == "Sign" {
			return fmt.Sprintf("%s(%s).Sign()", cs.Recv, cs.Vals[0])
		}
		e := ""
		if cs.Op == "Equals" {
			e = fmt.Sprintf(", %v", cs.Eps)
		}
		return fmt.Sprintf("%s(%s).%s(%s(%s)%s)", cs.Recv, cs.Vals[0], cs.Op, cs.Kinds[0], cs.Vals[1], e)
	case "convpair":
		if cs.Recv == "" {
			return fmt.Sprintf("%s(%sType, %s) then %s(%sType, %s)", cs.Op, cs.Tgt, cs.Vals[0], cs.Op, cs.Tgt, cs.Vals[1])
		}
		return fmt.Sprintf("%s(%s).%s(%sType) then %s(%s).%s(%sType)", cs.Recv, cs.Vals[0], cs.Op, cs.Tgt, cs.Recv, cs.Vals[1], cs.Op, cs.Tgt)
	case "conv":
		if cs.Recv == "" {
			return fmt.Sprintf("%s(%sType, %s)", cs.Op, cs.Tgt, cs.Vals[0])
		}
		return fmt.Sprintf("%s(%s).%s(%sType)", cs.Recv, cs.Vals[0], cs.Op, cs.Tgt)
	}
	return cs.Op
}

// Expect is what the reference demands of the receiver after the call.
type Expect struct {
	Skip    string // non-empty: case lies outside what the property defines (reason)
	PanicOK bool   // Go integer arithmetic panics here (division by zero)
	Int     bool
	ILo     int64
	IHi     int64
	F       float64
	Tol     float64
	TolX    float64 // tolerance of the cross-type comparison
}

func finite(f float64) bool { return !math.IsNaN(f) && !math.IsInf(f, 0) }

const tolK = 64

// tolF: tolerance of a float comparison, derived on the reference side only:
// storage rounding of the result plus the effect of perturbing every operand by one
// storage unit (conditioning).
func tolF(op *OpDef, x, y, p, ref, u float64) (tol, tolx float64) {
	if !finite(ref) {
		return 0, 0
	}
	d := 0.0
	try := func(xp, yp float64) {
		r, ok := op.Ref(xp, yp, p)
		if ok && finite(r) {
			d = math.Max(d, math.Abs(r-ref))
		}
	}
	if finite(x) && x != 0 {
		try(x*(1+2*u), y)
		try(x*(1-2*u), y)
	}
	if op.Arity == 2 && finite(y) && y != 0 {
		try(x, y*(1+2*u))
		try(x, y*(1-2*u))
	}
	tolx = tolK * (u*math.Abs(ref) + d)
	tol = tolx + op.Special*(math.Abs(ref)+1)
	return
}

func goIntOp(name string, k Kind, a, b int64) (r int64, panics bool) {
	lo, _ := k.intRange()
	switch name {
	case "Neg":
		return k.wrap(-a), false
	case "Add":
		return k.wrap(a + b), false
	case "Sub":
		return k.wrap(a - b), false
	case "Mul":
		return k.wrap(a * b), false
	case "Div":
		if b == 0 {
			return 0, true
		}
		if a == lo && b == -1 {
			return lo, false
		}
		return k.wrap(a / b), false
	}
	panic("goIntOp " + name)
}

func expectOp(op *OpDef, rt *TypeDesc, kinds []*TypeDesc, vals []*V, p float64) Expect {
	k := rt.K
	var x, y float64
	x = vals[0].float()
	if op.Arity == 2 {
		y = vals[1].float()
	}
	if op.MaxAbs > 0 && !math.IsNaN(x) && math.Abs(x) > op.MaxAbs {
		return Expect{Skip: "argument of a package-special function beyond the C02 lattice (accuracy over the whole domain is C13)"}
	}
	if !k.Float {
		lo, hi := k.intRange()
		switch op.Cat {
		case catRing, catOrder:
			var iv [2]int64
			for i := range vals {
				v, ok := intView(k, kinds[i], vals[i])
				if !ok {
					return Expect{Skip: "float->int conversion of the operand is implementation-defined"}
				}
				iv[i] = v
			}
			if op.Cat == catOrder {
				r := iv[0]
				if (op.Name == "Min" && iv[1] < r) || (op.Name == "Max" && iv[1] > r) {
					r = iv[1]
				}
				return Expect{Int: true, ILo: r, IHi: r}
			}
			r, pn := goIntOp(op.Name, k, iv[0], iv[1])
			if pn {
				return Expect{PanicOK: true}
			}
			return Expect{Int: true, ILo: r, IHi: r}
		case catAbs:
			if !exactIn(k, vals[0]) {
				return Expect{Skip: "operand not representable in the receiver's type"}
			}
			v, _ := intView(k, kinds[0], vals[0])
			if v == lo {
				return Expect{Skip: "|min| overflows"}
			}
			if v < 0 {
				v = -v
			}
			return Expect{Int: true, ILo: v, IHi: v}
		}
		for i := range vals {
			if i == 1 && op.FreeExp {
				continue
			}
			if !exactIn(k, vals[i]) {
				return Expect{Skip: "operand not representable in the receiver's type"}
			}
		}
		ref, ok := op.Ref(x, y, p)
		if !ok {
			return Expect{Skip: "outside the domain of the operation"}
		}
		if !finite(ref) {
			return Expect{Skip: "non-finite result in integer storage"}
		}
		tol, _ := tolF(op, x, y, p, ref, Kind{true, 64}.u())
		if ref-tol-1 <= float64(lo) || ref+tol+1 >= float64(hi) {
			return Expect{Skip: "result outside the receiver's range"}
		}
		if op.Cat == catMulti {
			for _, f := range []func(x, y, p float64) []float64{op.Inter, op.InterInt} {
				if f == nil {
					continue
				}
				for _, v := range f(x, y, p) {
					if !finite(v) || v <= float64(lo) || v >= float64(hi) {
						return Expect{Skip: "an intermediate of the documented formula is outside the receiver's range"}
					}
				}
			}
			return Expect{Int: true, ILo: int64(math.Floor(ref-1-tol)) + 1, IHi: int64(math.Ceil(ref+1+tol)) - 1}
		}
		return Expect{Int: true, ILo: int64(math.Trunc(ref - tol)), IHi: int64(math.Trunc(ref + tol))}
	}
	// float storage
	switch op.Cat {
	case catOrder:
		var fv [2]float64
		for i := range vals {
			f := vals[i].float()
			if k.Bits == 32 {
				g, ok := f32View(kinds[i], vals[i])
				if !ok {
					return Expect{Skip: "float64->float32 overflow of the operand"}
				}
				f = g
			}
			if math.IsNaN(f) {
				return Expect{Skip: "NaN is unordered"}
			}
			fv[i] = f
		}
		r := fv[0]
		if (op.Name == "Min" && fv[1] < r) || (op.Name == "Max" && fv[1] > r) {
			r = fv[1]
		}
		// exact in the receiver's view; the cross-type comparison allows the storage rounding
		return Expect{F: r, TolX: tolK*k.u()*math.Abs(r) + 16*k.denorm()}
	case catRing:
		if k.Bits == 32 {
			for i := range vals {
				if _, ok := f32View(kinds[i], vals[i]); !ok {
					return Expect{Skip: "float64->float32 overflow of the operand"}
				}
			}
		}
	default:
		for i := range vals {
			if !exactIn(k, vals[i]) {
				return Expect{Skip: "operand not representable in the receiver's type"}
			}
		}
	}
	ref, ok := op.Ref(x, y, p)
	if !ok {
		return Expect{Skip: "outside the domain of the operation"}
	}
	if op.Inter != nil {
		for _, v := range op.Inter(x, y, p) {
			if math.IsNaN(v) || math.Abs(v) > k.maxFloat() {
				return Expect{Skip: "an intermediate of the documented formula overflows the storage"}
			}
		}
	}
	if finite(ref) && math.Abs(ref) > k.maxFloat() {
		return Expect{Skip: "result overflows the storage"}
	}
	tol, tolx := tolF(op, x, y, p, ref, k.u())
	fl := 16 * k.denorm()
	return Expect{F: ref, Tol: tol + fl, TolX: tolx + fl}
}

// Obs is what the implementation did.
type Obs struct {
	Panic string
	NoOp  bool // method not available
	S     Stored
}

func buildOperands(kinds []*TypeDesc, vals []*V) []ad.ConstScalar {
	n := 0
	for _, kd := range kinds {
		if kd.Tracked {
			n++
		}
	}
	out := make([]ad.ConstScalar, len(kinds))
	pos := 0
	for i, kd := range kinds {
		out[i] = kd.mk(vals[i], pos, n)
		if kd.Tracked {
			pos++
		}
	}
	return out
}

func runOp(op *OpDef, rt *TypeDesc, kinds []*TypeDesc, vals []*V, p float64) (o Obs) {
	return runOpAlias(op, rt, kinds, vals, p, 0)
}

// runOpAlias: alias 0 = fresh receiver; 1/2 = the receiver IS operand a/b (r.Op(r, b),
// r.Op(a, r)) -- the method still names the same function.
func runOpAlias(op *OpDef, rt *TypeDesc, kinds []*TypeDesc, vals []*V, p float64, alias int) (o Obs) {
	ops := buildOperands(kinds, vals)
	r := rt.newRecv()
	if alias > 0 {
		rr, ok := ops[alias-1].(ad.Scalar)
		if !ok {
			o.NoOp = true
			return
		}
		r = rr
	}
	t := rt.newRecv()
	var a, b ad.ConstScalar
	a = ops[0]
	if len(ops) > 1 {
		b = ops[1]
	}
	defer func() {
		if e := recover(); e != nil {
			o.Panic = fmt.Sprint(e)
		}
	}()
	if !op.Call(r, a, b, p, t) {
		o.NoOp = true
		return
	}
	o.S = readStored(rt.K, r)
	return
}

// judge compares observation and expectation; what=="" means agreement.
func judge(e Expect, o Obs) (what, msg string) {
	if o.Panic != "" {
		if e.PanicOK {
			return "", ""
		}
		return "panic", "panics: " + o.Panic
	}
	if e.PanicOK {
		return "", "" // an implementation that does not panic on x/0 is not judged
	}
	if e.Int {
		if o.S.I < e.ILo || o.S.I > e.IHi {
			if e.ILo == e.IHi {
				return "value", fmt.Sprintf("got %d, expected %d", o.S.I, e.ILo)
			}
			return "value", fmt.Sprintf("got %d, expected within [%d,%d]", o.S.I, e.ILo, e.IHi)
		}
		return "", ""
	}
	return judgeF(o.S.F, e.F, e.Tol, "expected")
}

func judgeF(got, ref, tol float64, word string) (what, msg string) {
	switch {
	case math.IsNaN(ref):
		if !math.IsNaN(got) {
			return "class", fmt.Sprintf("got %v, %s NaN", got, word)
		}
	case math.IsInf(ref, 0):
		if got != ref {
			return "class", fmt.Sprintf("got %v, %s %v", got, word, ref)
		}
	case !finite(got):
		return "class", fmt.Sprintf("got %v, %s %v", got, word, ref)
	case !(math.Abs(got-ref) <= tol):
		return "value", fmt.Sprintf("got %v, %s %v (tolerance %.3g)", got, word, ref, tol)
	}
	return "", ""
}

/* aggregation of raw failures into structural keys --------------------------------- */

type failAgg struct {
	opnd, val, mag map[string]bool
	rank           int64
	cs             Case
	msg            string
	n              int64
}

type unitAgg struct {
	head        string // "Op|recv=T"
	opndLabel   string
	checkedOpnd map[string]bool
	checkedVal  map[string]bool
	fails       map[string]*failAgg
	zeroSeen    map[string]int64 // vector units: compared cases per zero pattern of the operand data
}

func newUnitAgg(head string) *unitAgg {
	return &unitAgg{head: head, opndLabel: "opnd", checkedOpnd: map[string]bool{}, checkedVal: map[string]bool{}, fails: map[string]*failAgg{}}
}

func (u *unitAgg) checked(opnd []string, val string) {
	for _, o := range opnd {
		u.checkedOpnd[o] = true
	}
	u.checkedVal[val] = true
}

func (u *unitAgg) fail(what string, opnd []string, val, mag string, rank int64, cs Case, msg string) {
	f := u.fails[what]
	if f == nil {
		f = &failAgg{opnd: map[string]bool{}, val: map[string]bool{}, mag: map[string]bool{}, rank: math.MaxInt64}
		u.fails[what] = f
	}
	for _, o := range opnd {
		f.opnd[o] = true
	}
	f.val[val] = true
	if mag != "" {
		f.mag[mag] = true
	}
	f.n++
	if rank < f.rank {
		f.rank, f.cs, f.msg = rank, cs, msg
	}
}

func setLabel(fail, checked map[string]bool) string {
	if checked != nil && len(fail) == len(checked) && len(checked) > 1 {
		return "all"
	}
	ks := make([]string, 0, len(fail))
	for k := range fail {
		ks = append(ks, k)
	}
	sort.Strings(ks)
	if len(ks) > 5 {
		return "many"
	}
	return strings.Join(ks, "+")
}

func (u *unitAgg) key(what string, f *failAgg, single bool) string {
	co, cv := u.checkedOpnd, u.checkedVal
	if single {
		co, cv = nil, nil
	}
	val := setLabel(f.val, cv)
	if len(f.mag) == 1 && val != "all" {
		for m := range f.mag {
			val += "." + m
		}
	}
	return fmt.Sprintf("%s|%s=%s|val=%s|%s", u.head, u.opndLabel, setLabel(f.opnd, co), val, what)
}

func (u *unitAgg) flush(c *vf.Ctx, single bool) {
	for what, f := range u.fails {
		c.Violate(u.key(what, f, single), fmt.Sprintf("%s: %s (%d failing cases under this key)", f.cs.describe(), f.msg, f.n), f.rank, f.cs)
	}
}

/* scalar operation units -------------------------------------------------------- */

type opUnit struct {
	op *OpDef
	rt *TypeDesc
}

func valuesFor(op *OpDef, thorough bool) (a, b []*V) {
	if op.Arity == 1 {
		return append(append([]*V{}, latticeG...), latticeU...), nil
	}
	g := latticeG
	if thorough {
		g = append(append([]*V{}, latticeG...), latticeU...)
	}
	return g, g
}

func kindNames(ks []*TypeDesc) []string {
	out := make([]string, len(ks))
	for i, k := range ks {
		out[i] = k.Name
	}
	return out
}
func valNames(vs []*V) []string {
	out := make([]string, len(vs))
	for i, v := range vs {
		out[i] = v.Name
	}
	return out
}

type baseKey struct {
	p    float64
	a, b *V
}

// runOneOp runs one (op, receiver, operand kinds, values) case and feeds the aggregator.
func runOneOp(c *vf.Ctx, u *unitAgg, base map[baseKey]*Obs, op *OpDef, rt *TypeDesc, kinds []*TypeDesc, vals []*V, p float64, rank int64) {
	e := expectOp(op, rt, kinds, vals, p)
	if e.Skip != "" {
		c.Count("excluded: "+e.Skip, 1)
		return
	}
	cs := Case{Kind: "op", Op: op.Name, Recv: rt.Name, Kinds: kindNames(kinds), Vals: valNames(vals), Param: p}
	c.Guard(op.Name+"|recv="+rt.Name, rank, cs)
	o := runOp(op, rt, kinds, vals, p)
	c.Eval(1)
	if o.NoOp {
		c.Count("method not available: "+op.Name+" on "+rt.Name, 1)
		return
	}
	if !e.PanicOK {
		c.Nontrivial(1) // the reference defines the answer and it is compared
	}
	opnd := make([]string, len(kinds))
	for i, kd := range kinds {
		opnd[i] = kd.Class
	}
	x := vals[0].float()
	var val, mag string
	if op.Arity == 1 {
		val, mag = signClass(x), magClass(x)
	} else {
		val = relClass(vals[0], vals[1])
	}
	u.checked(opnd, val)
	what, msg := judge(e, o)
	if what != "" {
		u.fail(what, opnd, val, mag, rank, cs, msg)
		c.Outcome("fail:" + what)
		return
	}
	// in-place forms: the receiver is itself the operand (same concrete mutable type)
	for al := 1; al <= len(kinds); al++ {
		if kinds[al-1].Name != rt.Name || kinds[al-1].Const {
			continue
		}
		oa := runOpAlias(op, rt, kinds, vals, p, al)
		if oa.NoOp {
			continue
		}
		c.Eval(1)
		c.Count("in-place forms (receiver is an operand)", 1)
		if w, m := judge(e, oa); w != "" {
			csa := cs
			csa.Alias = al
			u.fail("inplace-"+w, opnd, val, mag, rank, csa, fmt.Sprintf("receiver is operand %d: %s", al, m))
			c.Outcome("fail:inplace")
			return
		}
	}
	switch {
	case e.PanicOK:
		if o.Panic != "" {
			c.Outcome("ok:int-division-by-zero-panics")
		} else {
			c.Outcome("ok:int-division-by-zero-returns")
		}
	case e.Int:
		c.Outcome("ok:int")
	case math.IsNaN(e.F):
		c.Outcome("ok:nan")
	case math.IsInf(e.F, 0):
		c.Outcome("ok:inf")
	default:
		c.Outcome("ok:finite")
	}
	// equal operands give equal values: compare with the Float64 receiver fed ConstFloat64 operands
	if !rt.K.Float || e.PanicOK || base == nil {
		return
	}
	bk := baseKey{p: p, a: vals[0]}
	if len(vals) > 1 {
		bk.b = vals[1]
	}
	bo, ok := base[bk]
	if !ok {
		f64, cf := typeByName["Float64"], typeByName["ConstFloat64"]
		bkinds := []*TypeDesc{cf, cf}[:len(vals)]
		holdable := true
		for _, v := range vals {
			holdable = holdable && cf.holds(v)
		}
		if holdable && expectOp(op, f64, bkinds, vals, p).Skip == "" {
			r := runOp(op, f64, bkinds, vals, p)
			if r.Panic == "" && !r.NoOp {
				bo = &r
			}
		}
		base[bk] = bo
	}
	if bo == nil {
		return
	}
	c.Count("cross-type comparisons", 1)
	if w, m := judgeF(o.S.F, bo.S.F, e.TolX, "Float64 receiver with ConstFloat64 operands gives"); w != "" {
		u.fail("xtype-"+w, opnd, val, mag, rank, cs, m)
		c.Outcome("fail:xtype")
	}
}

func runOpUnit(c *vf.Ctx, un opUnit) {
	op, rt := un.op, un.rt
	u := newUnitAgg(op.Name + "|recv=" + rt.Name)
	base := map[baseKey]*Obs{}
	va, vb := valuesFor(op, c.Thorough())
	params := op.Params
	if params == nil {
		params = []float64{0}
	}
	var rank int64
	for _, p := range params {
		for ia, a := range va {
			if op.Arity == 1 {
				for ik, ka := range operandKinds {
					rank = int64(ia)*1000 + int64(ik)
					if !ka.holds(a) {
						continue
					}
					runOneOp(c, u, base, op, rt, []*TypeDesc{ka}, []*V{a}, p, rank)
				}
				continue
			}
			for ib, b := range vb {
				for ika, ka := range operandKinds {
					if !ka.holds(a) {
						continue
					}
					for ikb, kb := range operandKinds {
						if !kb.holds(b) {
							continue
						}
						rank = (int64(ia+ib)*100+int64(ib))*1000 + int64(ika*20+ikb)
						runOneOp(c, u, base, op, rt, []*TypeDesc{ka, kb}, []*V{a, b}, p, rank)
					}
				}
			}
		}
	}
	u.flush(c, false)
}

func replayOp(c *vf.Ctx, cs Case) {
	op, rt := opByName[cs.Op], typeByName[cs.Recv]
	if op == nil || rt == nil || len(cs.Kinds) != op.Arity || len(cs.Vals) != op.Arity {
		c.HarnessError("replay: malformed op case")
		return
	}
	var kinds []*TypeDesc
	var vals []*V
	for i := range cs.Kinds {
		kd, v := typeByName[cs.Kinds[i]], lookupV(cs.Vals[i])
		if kd == nil || v == nil || !kd.holds(v) {
			c.HarnessError("replay: unknown operand type or value")
			return
		}
		kinds, vals = append(kinds, kd), append(vals, v)
	}
	u := newUnitAgg(op.Name + "|recv=" + rt.Name)
	runOneOp(c, u, map[baseKey]*Obs{}, op, rt, kinds, vals, cs.Param, 0)
	u.flush(c, true)
}
