// C02: every scalar type computes the mathematical function its method names.
// Exhaustive product op x receiver type x operand type(s) x value lattice, against
// independent float64 reference formulas converted by Go's numeric conversion.
package main

import (
	"encoding/json"

	"verif/mc/vf"
)

type unit struct {
	op   *opUnit
	vec  *vecUnit
	cmp  *cmpUnit
	conv *convUnit
}

func units() []unit {
	var us []unit
	// heavy units (binary operations) first so that index-mod-n sharding spreads them
	for _, pass := range []int{2, 1} {
		for _, op := range scalarOps {
			if op.Arity != pass {
				continue
			}
			for _, rt := range mutableTypes {
				us = append(us, unit{op: &opUnit{op, rt}})
			}
		}
		if pass == 2 {
			for _, op := range cmpOps {
				if op == "Sign" {
					continue
				}
				for _, rt := range allTypes {
					us = append(us, unit{cmp: &cmpUnit{op, rt}})
				}
			}
			for _, op := range vecOps {
				for _, rt := range mutableTypes {
					us = append(us, unit{vec: &vecUnit{op, rt}})
				}
			}
		}
	}
	for _, rt := range allTypes {
		us = append(us, unit{cmp: &cmpUnit{"Sign", rt}})
	}
	for _, m := range convMethods {
		switch m {
		case "ConvertConstScalar":
			for _, s := range allTypes {
				us = append(us, unit{conv: &convUnit{m, s}})
			}
		case "ConvertScalar":
			for _, s := range allTypes {
				if !s.Const {
					us = append(us, unit{conv: &convUnit{m, s}})
				}
			}
		case "ConvertMagicScalar":
			for _, s := range allTypes {
				if s.Magic {
					us = append(us, unit{conv: &convUnit{m, s}})
				}
			}
		default:
			us = append(us, unit{conv: &convUnit{m, nil}})
		}
	}
	return us
}

func run(c *vf.Ctx) {
	if c.Shard == 0 {
		for _, b := range selfTest() {
			c.HarnessError("reference self-test: " + b)
		}
	}
	for i, u := range units() {
		if !c.Mine(int64(i)) {
			continue
		}
		switch {
		case u.op != nil:
			runOpUnit(c, *u.op)
		case u.vec != nil:
			runVecUnit(c, *u.vec)
		case u.cmp != nil:
			runCmpUnit(c, *u.cmp)
		case u.conv != nil:
			runConvUnit(c, *u.conv)
		}
	}
	if c.Shard == 0 {
		c.Sample(Case{Kind: "op", Op: "Add", Recv: "Int8", Kinds: []string{"ConstInt64", "Float64"}, Vals: []string{"32767", "0.5"}})
		c.Sample(Case{Kind: "op", Op: "Log1pExp", Recv: "Real32", Kinds: []string{"Real64'"}, Vals: []string{"33.25"}})
		c.Sample(Case{Kind: "vec", Op: "SmoothMax", Recv: "Float32", Kinds: []string{"SparseConstInt16"}, Vecs: [][]string{{"7", "-8"}}, Param: 2})
		c.Sample(Case{Kind: "conv", Op: "ConvertConstScalar", Recv: "Int64", Tgt: "ConstFloat32", Vals: []string{"9223372036854775807"}})
	}
}

func replay(c *vf.Ctx, raw json.RawMessage) {
	var cs Case
	if err := json.Unmarshal(raw, &cs); err != nil {
		c.HarnessError(err.Error())
		return
	}
	switch cs.Kind {
	case "op":
		replayOp(c, cs)
	case "vec":
		replayVec(c, cs)
	case "cmp":
		replayCmp(c, cs)
	case "conv", "convpair":
		replayConv(c, cs)
	default:
		c.HarnessError("replay: unknown case kind " + cs.Kind)
	}
}

func main() {
	vf.Main(vf.Spec{
		ID:    "C02",
		Level: "exploration",
		Rule: "exhaustive product: every Scalar operation x 9 mutable receiver types x 18 operand kinds per operand (16 scalar types + Real32/Real64 with derivative tracking on; all pairs for binary operations) x " +
			"a value lattice (0, +-0.5, +-1, 2, 3, 7, -8, 100, -0.0, min/max of every storage type, +-Inf, NaN; branch points of the piecewise functions for unary operations) restricted to the values the operand type holds exactly; " +
			"vector/matrix operations over all vectors of length<=2 (length 3 over 5 values) plus every zero pattern (each non-empty set of positions exactly +0 / -0: leading, trailing, interleaved, all-zero; lengths 1..4, 2x2 matrices, pairs of patterns for VdotV) from 9 dense and 7 sparse-const container types, every receiver type compared on every pattern class (else harness error); comparisons on all 16(+2) receiver types; all conversion/constructor methods x source type x 16 target types. " +
			"A case is evaluated when the library call was made; it counts as non-trivial when the property defines the answer for it (reference inside the operation's domain, operand representable in the receiver's type where the property reads operands through it, no implementation-defined float->int or overflowing conversion) so that the result was actually compared; all enumerated cases are distinct tuples",
		Assume: []string{
			"math.* of the Go standard library is the float64 reference for elementary functions; special functions (LogErfc, GammaP, BesselI, LogBesselI, Mlgamma) use the harness's own series/continued-fraction/asymptotic formulas, validated at start-up against closed forms, and a 1e-9 relative gate (accuracy is C13's subject)",
			"integer receivers: ring operations are Go integer arithmetic on the operands read through the receiver-width getter; elementary functions must equal T(f(x)); operations documented as compositions of exp/log steps (Logistic, Sigmoid, Log1pExp, LogAdd, LogSub, SmoothMax) are accepted within one unit of the storage type and only where every intermediate of the documented formula fits the storage type",
			"operands that are not exactly representable in the receiver's storage type are used only for ring operations, Min/Max and Greater/Smaller (where the property fixes the reading through the receiver's type)",
			"results or intermediates that overflow the storage type, and float->int conversions of NaN/out-of-range values, are implementation-defined in Go and excluded",
			"x/0 on integer receivers: Go panics; an implementation is not judged there",
			"a conversion/constructor asked for a type that cannot implement the requested interface (Const* as Scalar, non-magic as MagicScalar) may fail loudly",
			"LogSmoothMax needs -Inf in the storage type and non-negative data: float receivers, x_i>=0 (an entry that is exactly zero is inside the domain: it adds 0 to the weighted sum and e^0=1 to the normaliser); negative entries are outside",
		},
		Run:    run,
		Replay: replay,
	})
}
