package main

import (
	"math"
	"strconv"
)

// V is one lattice value: either an exact integer or a float64.
type V struct {
	Name  string
	IsInt bool
	I     int64
	F     float64 // for IsInt: float64(I) (possibly rounded)
}

func (v *V) float() float64 { return v.F }

func iv(i int64) *V { return &V{Name: strconv.FormatInt(i, 10), IsInt: true, I: i, F: float64(i)} }
func fv(name string, f float64) *V {
	return &V{Name: name, F: f}
}

var valueByName = map[string]*V{}

func reg(vs []*V) []*V {
	for _, v := range vs {
		if o, ok := valueByName[v.Name]; ok {
			_ = o
			continue
		}
		valueByName[v.Name] = v
	}
	// return canonical pointers
	out := make([]*V, len(vs))
	for i, v := range vs {
		out[i] = valueByName[v.Name]
	}
	return out
}

// lookupV resolves a value name of a replay artefact (any integer literal or
// dyadic float literal is accepted, so artefacts survive lattice changes).
func lookupV(name string) *V {
	if v, ok := valueByName[name]; ok {
		return v
	}
	if i, err := strconv.ParseInt(name, 10, 64); err == nil {
		return iv(i)
	}
	if f, err := strconv.ParseFloat(name, 64); err == nil {
		return fv(name, f)
	}
	return nil
}

// The general lattice G (simplest first): small values, type extremes, IEEE specials.
var latticeG = reg([]*V{
	iv(0), iv(1), iv(-1), iv(2), fv("0.5", 0.5), fv("-0.5", -0.5), iv(3), iv(7), iv(-8), iv(100),
	fv("-0.0", math.Copysign(0, -1)),
	iv(math.MaxInt8), iv(math.MinInt8), iv(math.MaxInt16), iv(math.MinInt16),
	iv(math.MaxInt32), iv(math.MinInt32), iv(math.MaxInt64), iv(math.MinInt64),
	fv("maxf32", math.MaxFloat32), fv("-maxf32", -math.MaxFloat32),
	fv("maxf64", math.MaxFloat64), fv("-maxf64", -math.MaxFloat64),
	fv("+Inf", math.Inf(1)), fv("-Inf", math.Inf(-1)), fv("NaN", math.NaN()),
	// integers just beside a float32 rounding midpoint that float64 cannot hold: converting
	// through float64 first rounds twice (2^60+2^36+1 -> 2^60 instead of 2^60+2^37)
	iv(1<<60 + 1<<36 + 1), iv(-(1<<60 + 1<<36 + 1)), iv(1<<60 + 3<<36 - 1),
})

// Wide magnitudes for vector / matrix data: products and sums of these leave every narrower
// integer type (12*11 > int8, 300*200 > int16, 50000^2 > int32, 2^32*2^32 > int64), so that
// an accumulator or scratch of the wrong width shows.
var latticeW = reg([]*V{iv(12), iv(11), iv(300), iv(-200), iv(50000), iv(1 << 32)})

// Extra points for unary operations: documented/classical branch points of the
// piecewise functions (log1pexp -37/18/33.3, logerfc 0.157/8, lgamma sign changes),
// and a few more ordinary values.
var latticeU = reg([]*V{
	iv(4), iv(-2), iv(-3), iv(10), fv("0.25", 0.25), fv("1.5", 1.5), fv("2.5", 2.5), fv("-1.5", -1.5), fv("-2.5", -2.5),
	fv("0.125", 0.125), fv("-0.125", -0.125), iv(8), iv(9),
	iv(18), iv(19), iv(20), iv(25), iv(33), fv("33.25", 33.25), fv("33.5", 33.5), iv(34), iv(40),
	iv(-36), iv(-37), iv(-38), iv(-40), iv(-100),
})

// Extra points for binary operations in the thorough tier.
var latticeB = reg([]*V{iv(4), iv(-2), fv("0.25", 0.25), fv("1.5", 1.5), iv(20), iv(-40), iv(10)})

// Extra points for comparisons: neighbours of the type extremes and the first integers
// that float32 / float64 cannot represent (a comparison routed through a narrower or a
// floating-point getter confuses them with their neighbours).
var latticeC = reg([]*V{
	iv(math.MaxInt8 - 1), iv(math.MaxInt16 - 1), iv(math.MaxInt32 - 1), iv(math.MaxInt64 - 1), iv(math.MinInt64 + 1),
	iv(1 << 24), iv(1<<24 + 1), iv(1 << 53), iv(1<<53 + 1),
})

// small alphabets for vector / matrix data
var latticeS = reg([]*V{iv(0), iv(1), iv(-1), iv(2), fv("0.5", 0.5), fv("-0.5", -0.5), iv(3), iv(7), iv(-8)})
var latticeS5 = latticeS[:5]
var latticeSpec = reg([]*V{fv("+Inf", math.Inf(1)), fv("-Inf", math.Inf(-1)), fv("NaN", math.NaN())})

// sign class of a float value (violation keys)
func signClass(f float64) string {
	switch {
	case math.IsNaN(f):
		return "nan"
	case math.IsInf(f, 1):
		return "+inf"
	case math.IsInf(f, -1):
		return "-inf"
	case f == 0:
		return "zero"
	case f < 0:
		return "neg"
	}
	return "pos"
}

func magClass(f float64) string {
	a := math.Abs(f)
	switch {
	case math.IsNaN(f) || math.IsInf(f, 0) || a == 0:
		return ""
	case a < 1:
		return "<1"
	case a < 16:
		return "1-16"
	case a < 64:
		return "16-64"
	case a < 32768:
		return "64-2^15"
	}
	return ">=2^15"
}

func isSpecial(f float64) bool { return math.IsNaN(f) || math.IsInf(f, 0) }

// relation class of an operand pair (violation keys of binary operations)
func relClass(a, b *V) string {
	x, y := a.F, b.F
	var r string
	switch {
	case math.IsNaN(x) || math.IsNaN(y):
		return "nan"
	case a.IsInt && b.IsInt && a.I < b.I:
		r = "lt"
	case a.IsInt && b.IsInt && a.I > b.I:
		r = "gt"
	case a.IsInt && b.IsInt:
		r = "eq"
	case x < y:
		r = "lt"
	case x > y:
		r = "gt"
	default:
		r = "eq"
	}
	if isSpecial(x) || isSpecial(y) {
		r += "/inf"
	} else if x == 0 || y == 0 {
		r += "/zero"
	}
	return r
}
