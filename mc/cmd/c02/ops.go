package main

import (
	"math"

	ad "github.com/pbenner/autodiff"
)

// operation categories (how the reference on integer receivers is formed)
const (
	catRing  = iota // Neg Add Sub Mul Div: Go integer arithmetic on the operands read through the receiver-width getter
	catOrder        // Min Max: numeric order of the operands as represented in the receiver's type
	catAbs          // Abs
	catElem         // one named real function: T(f(x))
	catMulti        // documented as a composition of exp/log steps (Logistic, Sigmoid, Log1pExp, LogAdd, LogSub):
	//                 integer storage is accepted within one unit of f
)

type OpDef struct {
	Name    string
	Arity   int
	Params  []float64 // plain float64/int parameter of the method (Mlgamma k, GammaP a, BesselI nu)
	Cat     int
	Special float64 // extra tolerance for functions of package special (identity of the function, not its accuracy, is checked here)
	MaxAbs  float64 // package special functions: operands of larger magnitude (and +-Inf) are left to C13
	FreeExp bool    // second operand is a real exponent: not read through the receiver's type
	Call    func(r ad.Scalar, a, b ad.ConstScalar, p float64, tmp ad.Scalar) bool
	// Ref: the named function in float64; ok=false outside the domain where the operation defines a result
	Ref func(x, y, p float64) (float64, bool)
	// Inter: magnitudes every evaluation of the documented formula passes through (overflow exclusion)
	Inter func(x, y, p float64) []float64
	// InterInt: the same, but relevant for integer storage only
	InterInt func(x, y, p float64) []float64
}

type logBesselIer interface {
	LogBesselI(float64, ad.ConstScalar) ad.Scalar
}

func un(f func(float64) float64) func(x, y, p float64) (float64, bool) {
	return func(x, y, p float64) (float64, bool) { return f(x), true }
}

func notInf(f func(float64) float64) func(x, y, p float64) (float64, bool) {
	return func(x, y, p float64) (float64, bool) { return f(x), !math.IsInf(x, 0) }
}

func isNegIntOrZero(x float64) bool { return x <= 0 && x == math.Trunc(x) }

var scalarOps = []*OpDef{
	{Name: "Neg", Arity: 1, Cat: catRing,
		Call: func(r ad.Scalar, a, b ad.ConstScalar, p float64, t ad.Scalar) bool { r.Neg(a); return true },
		Ref:  un(func(x float64) float64 { return -x })},
	{Name: "Add", Arity: 2, Cat: catRing,
		Call: func(r ad.Scalar, a, b ad.ConstScalar, p float64, t ad.Scalar) bool { r.Add(a, b); return true },
		Ref:  func(x, y, p float64) (float64, bool) { return x + y, true }},
	{Name: "Sub", Arity: 2, Cat: catRing,
		Call: func(r ad.Scalar, a, b ad.ConstScalar, p float64, t ad.Scalar) bool { r.Sub(a, b); return true },
		Ref:  func(x, y, p float64) (float64, bool) { return x - y, true }},
	{Name: "Mul", Arity: 2, Cat: catRing,
		Call: func(r ad.Scalar, a, b ad.ConstScalar, p float64, t ad.Scalar) bool { r.Mul(a, b); return true },
		Ref:  func(x, y, p float64) (float64, bool) { return x * y, true }},
	{Name: "Div", Arity: 2, Cat: catRing,
		Call: func(r ad.Scalar, a, b ad.ConstScalar, p float64, t ad.Scalar) bool { r.Div(a, b); return true },
		Ref:  func(x, y, p float64) (float64, bool) { return x / y, true }},
	{Name: "Min", Arity: 2, Cat: catOrder,
		Call: func(r ad.Scalar, a, b ad.ConstScalar, p float64, t ad.Scalar) bool { r.Min(a, b); return true },
		Ref:  func(x, y, p float64) (float64, bool) { return math.Min(x, y), !math.IsNaN(x) && !math.IsNaN(y) }},
	{Name: "Max", Arity: 2, Cat: catOrder,
		Call: func(r ad.Scalar, a, b ad.ConstScalar, p float64, t ad.Scalar) bool { r.Max(a, b); return true },
		Ref:  func(x, y, p float64) (float64, bool) { return math.Max(x, y), !math.IsNaN(x) && !math.IsNaN(y) }},
	{Name: "Abs", Arity: 1, Cat: catAbs,
		Call: func(r ad.Scalar, a, b ad.ConstScalar, p float64, t ad.Scalar) bool { r.Abs(a); return true },
		Ref:  un(math.Abs)},
	{Name: "Pow", Arity: 2, Cat: catElem, FreeExp: true,
		Call: func(r ad.Scalar, a, b ad.ConstScalar, p float64, t ad.Scalar) bool { r.Pow(a, b); return true },
		Ref: func(x, y, p float64) (float64, bool) {
			if math.IsNaN(x) || math.IsNaN(y) {
				// IEEE conventions pow(1,NaN)=pow(NaN,0)=1 are not mathematics
				return nan, x != 1 && y != 0
			}
			switch {
			case x > 0:
				if (x == 1 && math.IsInf(y, 0)) || (math.IsInf(x, 1) && y == 0) {
					return 0, false
				}
			case x == 0:
				if !(y > 0) || math.Signbit(x) {
					return 0, false
				}
			default: // x<0
				if math.IsInf(x, 0) || math.IsInf(y, 0) || y != math.Trunc(y) {
					return 0, false
				}
			}
			return math.Pow(x, y), true
		}},
	{Name: "Sqrt", Arity: 1, Cat: catElem,
		Call: func(r ad.Scalar, a, b ad.ConstScalar, p float64, t ad.Scalar) bool { r.Sqrt(a); return true },
		Ref:  func(x, y, p float64) (float64, bool) { return math.Sqrt(x), !(x < 0) }},
	{Name: "Exp", Arity: 1, Cat: catElem,
		Call: func(r ad.Scalar, a, b ad.ConstScalar, p float64, t ad.Scalar) bool { r.Exp(a); return true },
		Ref:  un(math.Exp)},
	{Name: "Log", Arity: 1, Cat: catElem,
		Call: func(r ad.Scalar, a, b ad.ConstScalar, p float64, t ad.Scalar) bool { r.Log(a); return true },
		Ref:  func(x, y, p float64) (float64, bool) { return math.Log(x), !(x < 0) }},
	{Name: "Log1p", Arity: 1, Cat: catElem,
		Call: func(r ad.Scalar, a, b ad.ConstScalar, p float64, t ad.Scalar) bool { r.Log1p(a); return true },
		Ref:  func(x, y, p float64) (float64, bool) { return math.Log1p(x), !(x < -1) }},
	{Name: "Sin", Arity: 1, Cat: catElem,
		Call: func(r ad.Scalar, a, b ad.ConstScalar, p float64, t ad.Scalar) bool { r.Sin(a); return true },
		Ref:  notInf(math.Sin)},
	{Name: "Cos", Arity: 1, Cat: catElem,
		Call: func(r ad.Scalar, a, b ad.ConstScalar, p float64, t ad.Scalar) bool { r.Cos(a); return true },
		Ref:  notInf(math.Cos)},
	{Name: "Tan", Arity: 1, Cat: catElem,
		Call: func(r ad.Scalar, a, b ad.ConstScalar, p float64, t ad.Scalar) bool { r.Tan(a); return true },
		Ref:  notInf(math.Tan)},
	{Name: "Sinh", Arity: 1, Cat: catElem,
		Call: func(r ad.Scalar, a, b ad.ConstScalar, p float64, t ad.Scalar) bool { r.Sinh(a); return true },
		Ref:  un(math.Sinh)},
	{Name: "Cosh", Arity: 1, Cat: catElem,
		Call: func(r ad.Scalar, a, b ad.ConstScalar, p float64, t ad.Scalar) bool { r.Cosh(a); return true },
		Ref:  un(math.Cosh)},
	{Name: "Tanh", Arity: 1, Cat: catElem,
		Call: func(r ad.Scalar, a, b ad.ConstScalar, p float64, t ad.Scalar) bool { r.Tanh(a); return true },
		Ref:  un(math.Tanh)},
	{Name: "Erf", Arity: 1, Cat: catElem,
		Call: func(r ad.Scalar, a, b ad.ConstScalar, p float64, t ad.Scalar) bool { r.Erf(a); return true },
		Ref:  un(math.Erf)},
	{Name: "Erfc", Arity: 1, Cat: catElem,
		Call: func(r ad.Scalar, a, b ad.ConstScalar, p float64, t ad.Scalar) bool { r.Erfc(a); return true },
		Ref:  un(math.Erfc)},
	{Name: "LogErfc", Arity: 1, Cat: catElem, Special: 1e-9, MaxAbs: 127,
		Call: func(r ad.Scalar, a, b ad.ConstScalar, p float64, t ad.Scalar) bool { r.LogErfc(a); return true },
		Ref:  un(refLogErfc)},
	{Name: "Gamma", Arity: 1, Cat: catElem,
		Call: func(r ad.Scalar, a, b ad.ConstScalar, p float64, t ad.Scalar) bool { r.Gamma(a); return true },
		Ref: func(x, y, p float64) (float64, bool) {
			return math.Gamma(x), !isNegIntOrZero(x) && !math.IsInf(x, -1)
		}},
	{Name: "Lgamma", Arity: 1, Cat: catElem,
		Call: func(r ad.Scalar, a, b ad.ConstScalar, p float64, t ad.Scalar) bool { r.Lgamma(a); return true },
		Ref: func(x, y, p float64) (float64, bool) {
			v, pos := refLgamma(x)
			return v, pos && !isNegIntOrZero(x) && !math.IsInf(x, -1)
		}},
	{Name: "Mlgamma", Arity: 1, Cat: catElem, Params: []float64{1, 2, 3}, Special: 1e-12, MaxAbs: 127,
		Call: func(r ad.Scalar, a, b ad.ConstScalar, p float64, t ad.Scalar) bool { r.Mlgamma(a, int(p)); return true },
		Ref: func(x, y, p float64) (float64, bool) {
			return refMlgamma(x, int(p)), math.IsNaN(x) || x > (p-1)/2
		}},
	{Name: "GammaP", Arity: 1, Cat: catElem, Params: []float64{0.5, 1, 2.5}, Special: 1e-9, MaxAbs: 127,
		Call: func(r ad.Scalar, a, b ad.ConstScalar, p float64, t ad.Scalar) bool { r.GammaP(p, a); return true },
		Ref:  func(x, y, p float64) (float64, bool) { return refGammaP(p, x), !(x < 0) }},
	{Name: "BesselI", Arity: 1, Cat: catElem, Params: []float64{0, 0.5, 1, 2.5}, Special: 1e-9, MaxAbs: 127,
		Call: func(r ad.Scalar, a, b ad.ConstScalar, p float64, t ad.Scalar) bool { r.BesselI(p, a); return true },
		Ref:  func(x, y, p float64) (float64, bool) { return refBesselI(p, x), !(x < 0) && !(x > 600) }},
	{Name: "LogBesselI", Arity: 1, Cat: catElem, Params: []float64{0, 0.5, 1, 2.5}, Special: 1e-9, MaxAbs: 127,
		Call: func(r ad.Scalar, a, b ad.ConstScalar, p float64, t ad.Scalar) bool {
			l, ok := r.(logBesselIer)
			if !ok {
				return false
			}
			l.LogBesselI(p, a)
			return true
		},
		Ref: func(x, y, p float64) (float64, bool) { return refLogBesselI(p, x), !(x < 0) }},
	{Name: "Log1pExp", Arity: 1, Cat: catMulti,
		Call: func(r ad.Scalar, a, b ad.ConstScalar, p float64, t ad.Scalar) bool { r.Log1pExp(a); return true },
		Ref:  un(refLog1pExp),
		// integer storage only: e^|x| must fit (whichever of e^x, e^-x an evaluation uses)
		InterInt: func(x, y, p float64) []float64 { return []float64{math.Exp(math.Abs(x)) + 1} }},
	{Name: "Logistic", Arity: 1, Cat: catMulti,
		Call: func(r ad.Scalar, a, b ad.ConstScalar, p float64, t ad.Scalar) bool { r.Logistic(a); return true },
		Ref:  un(refLogistic),
		// "standard logistic function": the plain formula 1/(1+e^-x)
		Inter: func(x, y, p float64) []float64 { return []float64{-x, math.Exp(-x) + 1} }},
	{Name: "Sigmoid", Arity: 1, Cat: catMulti,
		Call: func(r ad.Scalar, a, b ad.ConstScalar, p float64, t ad.Scalar) bool { r.Sigmoid(a, t); return true },
		Ref:  un(refLogistic),
		// "numerically stable sigmoid": only e^-|x| is formed
		InterInt: func(x, y, p float64) []float64 { return []float64{-x} }},
	{Name: "LogAdd", Arity: 2, Cat: catMulti,
		Call: func(r ad.Scalar, a, b ad.ConstScalar, p float64, t ad.Scalar) bool { r.LogAdd(a, b, t); return true },
		Ref:  func(x, y, p float64) (float64, bool) { return refLogAdd(x, y), true },
		Inter: func(x, y, p float64) []float64 {
			if isSpecial(x) || isSpecial(y) {
				return nil
			}
			return []float64{x - y}
		}},
	{Name: "LogSub", Arity: 2, Cat: catMulti,
		Call: func(r ad.Scalar, a, b ad.ConstScalar, p float64, t ad.Scalar) bool { r.LogSub(a, b, t); return true },
		Ref: func(x, y, p float64) (float64, bool) {
			ok := math.IsNaN(x) || math.IsNaN(y) || (x >= y && !(math.IsInf(x, 1) && math.IsInf(y, 1)))
			return refLogSub(x, y), ok
		},
		Inter: func(x, y, p float64) []float64 {
			if isSpecial(x) || isSpecial(y) {
				return nil
			}
			return []float64{x - y}
		}},
}

var opByName = map[string]*OpDef{}

func init() {
	for _, o := range scalarOps {
		opByName[o.Name] = o
	}
}
