package main

// Harness-side reference: textbook log-densities, exact weighted maximum-likelihood
// estimates (within the configured bounds) and admissible boxes. Nothing here calls the
// library.

import "math"

const log2pi = 1.8378770664093454835606594728112

func xlogy(x, y float64) float64 {
	if x == 0 {
		return 0
	}
	return x * math.Log(y)
}

func lgamma(x float64) float64 { v, _ := math.Lgamma(x); return v }

func normalLog(x, mu, sg float64) float64 {
	z := (x - mu) / sg
	return -math.Log(sg) - 0.5*log2pi - 0.5*z*z
}

func poissonLog(x, l float64) float64 {
	if x < 0 || x != math.Floor(x) {
		return math.Inf(-1)
	}
	return xlogy(x, l) - l - lgamma(x+1)
}

// logf: log-density of ONE observation x under family with parameters th
func logf(family string, conf, th, x []float64) float64 {
	switch family {
	case "normal":
		return normalLog(x[0], th[0], th[1])
	case "exponential":
		if x[0] < 0 {
			return math.Inf(-1)
		}
		return math.Log(th[0]) - th[0]*x[0]
	case "poisson":
		return poissonLog(x[0], th[0])
	case "geometric":
		return math.Log(th[0]) + xlogy(x[0], 1-th[0])
	case "categorical":
		return math.Log(th[int(x[0])])
	case "negbin":
		r, p := conf[0], th[0]
		return lgamma(r+x[0]) - lgamma(x[0]+1) - lgamma(r) + xlogy(x[0], p) + r*math.Log(1-p)
	case "vnormal":
		m1, m2, a, b, c := th[0], th[1], th[2], th[3], th[4] // Sigma = [[a,b],[b,c]]
		det := a*c - b*b
		if !(det > 0 && a > 0) {
			return math.NaN()
		}
		d1, d2 := x[0]-m1, x[1]-m2
		q := (c*d1*d1 - 2*b*d1*d2 + a*d2*d2) / det
		return -log2pi - 0.5*math.Log(det) - 0.5*q
	case "scalarid": // normal on x[0], poisson on x[1]
		return normalLog(x[0], th[0], th[1]) + poissonLog(x[1], th[2])
	case "scalariid": // iid normal on all entries
		s := 0.0
		for _, v := range x {
			s += normalLog(v, th[0], th[1])
		}
		return s
	}
	panic("logf: unknown family " + family)
}

func wloglik(family string, conf, th []float64, X [][]float64, w []float64) float64 {
	s := 0.0
	for k, x := range X {
		l := logf(family, conf, th, x)
		if w[k] == 0 {
			continue
		}
		s += w[k] * l
	}
	return s
}

func wmean(X [][]float64, w []float64, j int) (float64, float64) {
	sw, sx := 0.0, 0.0
	for k, x := range X {
		sw += w[k]
		sx += w[k] * x[j]
	}
	return sx / sw, sw
}

func wvar(X [][]float64, w []float64, i, j int, mi, mj float64) float64 {
	sw, s := 0.0, 0.0
	for k, x := range X {
		sw += w[k]
		s += w[k] * (x[i] - mi) * (x[j] - mj)
	}
	return s / sw
}

// mle: exact weighted maximum-likelihood parameters within the configured bounds.
// status "ok": th is the (constrained) maximiser; "constrained": the bound is active in a
// way for which no closed form is used (only the perturbation test applies);
// "boundary:*": the supremum is not attained at admissible parameters (the library may
// fail loudly).
func mle(family string, conf []float64, X [][]float64, w []float64) ([]float64, string) {
	switch family {
	case "normal":
		mu, _ := wmean(X, w, 0)
		sg := math.Sqrt(wvar(X, w, 0, 0, mu, mu))
		if sg < conf[0] {
			sg = conf[0]
		}
		return []float64{mu, sg}, "ok"
	case "exponential":
		mu, _ := wmean(X, w, 0)
		l := conf[0]
		if mu > 0 && 1/mu < l {
			l = 1 / mu
		}
		return []float64{l}, "ok"
	case "poisson":
		mu, _ := wmean(X, w, 0)
		if mu == 0 {
			return nil, "boundary:lambda=0"
		}
		return []float64{mu}, "ok"
	case "geometric":
		mu, _ := wmean(X, w, 0)
		return []float64{1 / (1 + mu)}, "ok"
	case "categorical":
		k := int(conf[0])
		th := make([]float64, k)
		sw := 0.0
		for i, x := range X {
			th[int(x[0])] += w[i]
			sw += w[i]
		}
		for i := range th {
			th[i] /= sw
		}
		return th, "ok"
	case "negbin":
		mu, _ := wmean(X, w, 0)
		return []float64{mu / (conf[0] + mu)}, "ok"
	case "vnormal":
		m1, _ := wmean(X, w, 0)
		m2, _ := wmean(X, w, 1)
		a, b, c := wvar(X, w, 0, 0, m1, m1), wvar(X, w, 0, 1, m1, m2), wvar(X, w, 1, 1, m2, m2)
		st := "ok"
		// a singular sample covariance means the likelihood is unbounded (also inside the box
		// diag >= sigmaMin: the off-diagonal element can approach the singular limit)
		if !(a*c-b*b > 1e-9*a*c) {
			return nil, "boundary:singular-covariance"
		}
		if a < conf[0] || c < conf[0] {
			st = "constrained"
			a, c = math.Max(a, conf[0]), math.Max(c, conf[0])
		}
		return []float64{m1, m2, a, b, c}, st
	case "scalarid":
		mu, _ := wmean(X, w, 0)
		sg := math.Sqrt(wvar(X, w, 0, 0, mu, mu))
		if sg < conf[0] {
			sg = conf[0]
		}
		l, _ := wmean(X, w, 1)
		if l == 0 {
			return nil, "boundary:lambda=0"
		}
		return []float64{mu, sg, l}, "ok"
	case "scalariid":
		// every entry of observation k carries weight w[k]
		sw, sx := 0.0, 0.0
		for k, x := range X {
			for _, v := range x {
				sw += w[k]
				sx += w[k] * v
			}
		}
		mu := sx / sw
		s2 := 0.0
		for k, x := range X {
			for _, v := range x {
				s2 += w[k] * (v - mu) * (v - mu)
			}
		}
		sg := math.Sqrt(s2 / sw)
		if sg < conf[0] {
			sg = conf[0]
		}
		return []float64{mu, sg}, "ok"
	}
	panic("mle: unknown family " + family)
}

// neighbours: admissible perturbations th +- delta e_i projected to the box of the family
func neighbours(family string, conf, th []float64, delta float64) [][]float64 {
	var out [][]float64
	add := func(t []float64) { out = append(out, t) }
	cp := func() []float64 { return append([]float64{}, th...) }
	clip := func(v, lo, hi float64) float64 { return math.Min(math.Max(v, lo), hi) }
	switch family {
	case "categorical":
		for i := range th {
			for j := range th {
				if i == j || th[j] == 0 {
					continue
				}
				d := math.Min(delta, th[j])
				t := cp()
				t[i] += d
				t[j] -= d
				add(t)
			}
		}
		return out
	}
	for i := range th {
		for _, s := range []float64{-1, 1} {
			t := cp()
			t[i] += s * delta
			switch family {
			case "normal", "scalariid":
				t[1] = math.Max(t[1], conf[0])
			case "scalarid":
				t[1] = math.Max(t[1], conf[0])
				if t[2] <= 0 {
					continue
				}
			case "exponential":
				t[0] = math.Min(t[0], conf[0])
				if t[0] <= 0 {
					continue
				}
			case "poisson":
				if t[0] <= 0 {
					continue
				}
			case "geometric":
				t[0] = clip(t[0], 0, 1)
				if t[0] <= 0 {
					continue
				}
			case "negbin":
				t[0] = clip(t[0], 0, 1)
				if t[0] >= 1 {
					continue
				}
			case "vnormal":
				t[2], t[4] = math.Max(t[2], conf[0]), math.Max(t[4], conf[0])
				if !(t[2]*t[4]-t[3]*t[3] > 0) {
					continue
				}
			}
			add(t)
		}
	}
	return out
}
