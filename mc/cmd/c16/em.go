package main

// EM trajectories (scalar / vector mixtures, HMMs, mixture-inside-HMM); sequential pool unless
// the case carries a PoolSpec (pool.go).
//
// Which hook call carries which model (from emAlgorithm / baumWelchAlgorithm and the
// estimators' Swap/Step):  per iteration k = 0,1,..  the driver does
//     Swap()            (model1,model2,model3) := (model3,model1,model2); model2 is now theta_k
//     EvaluateLogPdf()  emission log-densities of theta_k on the data
//     L := Step()       E-step with theta_k (returns log p(data | theta_k)), M-step for
//                       weights / pi / transitions written into model1
//     Emissions()       M-step of the emission distributions into model1  (= theta_{k+1})
//     hook(GetBasic*() = model1, k+1, L, L - L_previous)
// and before the loop hook(model1 = theta_0, 0, NaN, NaN).  Hence hook call i >= 1 carries
// the NEW model theta_i together with the log-likelihood of the PREVIOUS model theta_{i-1}
// (the model that iteration's E-step used).  The harness snapshots the model inside the
// hook (the object is recycled two iterations later) and demands
//     reported L_i == harness log-likelihood of theta_{i-1}            (i >= 1)
//     L_{i+1} >= L_i - 1e-9 |L_i|  for all consecutive reports, and
//     harness log-likelihood of the final theta_K >= L_K - 1e-9 |L_K|.

import (
	"fmt"
	"math"
	"os"
	"strings"

	ad "github.com/pbenner/autodiff"
	st "github.com/pbenner/autodiff/statistics"
	"github.com/pbenner/autodiff/statistics/generic"
	sd "github.com/pbenner/autodiff/statistics/scalarDistribution"
	se "github.com/pbenner/autodiff/statistics/scalarEstimator"
	vd "github.com/pbenner/autodiff/statistics/vectorDistribution"
	ve "github.com/pbenner/autodiff/statistics/vectorEstimator"

	"github.com/pbenner/threadpool"

	"verif/mc/vf"
)

// Emis: a (possibly nested) emission / mixture density in harness form
type Emis struct {
	Family string    `json:"family"` // normal | poisson | categorical | mixture | product | vnormal
	P      []float64 `json:"p,omitempty"`
	W      []float64 `json:"w,omitempty"`
	Sub    []Emis    `json:"sub,omitempty"`
}

func logsumexp(v []float64) float64 {
	m := math.Inf(-1)
	for _, x := range v {
		if x > m {
			m = x
		}
	}
	if math.IsInf(m, -1) {
		return m
	}
	s := 0.0
	for _, x := range v {
		s += math.Exp(x - m)
	}
	return m + math.Log(s)
}

func (e Emis) logd(x []float64) float64 {
	switch e.Family {
	case "normal":
		return normalLog(x[0], e.P[0], e.P[1])
	case "poisson":
		return poissonLog(x[0], e.P[0])
	case "categorical":
		return math.Log(e.P[int(x[0])])
	case "geometric": // p (1-p)^k on k = 0,1,2,...
		return logf("geometric", nil, e.P, x)
	case "negbinomial": // P = [r, p]: Gamma(r+k)/(k! Gamma(r)) p^k (1-p)^r, r fixed
		return logf("negbin", e.P[:1], e.P[1:], x)
	case "vnormal":
		return logf("vnormal", nil, e.P, x)
	case "product":
		s := 0.0
		for i, f := range e.Sub {
			s += f.logd(x[i : i+1])
		}
		return s
	case "iid": // every entry of x (any length) from the same scalar density
		s := 0.0
		for i := range x {
			s += e.Sub[0].logd(x[i : i+1])
		}
		return s
	case "vectorid": // x = flattened matrix, one row per sub-density
		s, d := 0.0, len(x)/len(e.Sub)
		for i, f := range e.Sub {
			s += f.logd(x[i*d : (i+1)*d])
		}
		return s
	case "mixture":
		t := make([]float64, len(e.Sub))
		for j, f := range e.Sub {
			t[j] = math.Log(e.W[j]) + f.logd(x)
		}
		return logsumexp(t)
	}
	panic("logd: unknown family " + e.Family)
}

type HmmPar struct {
	Pi    []float64   `json:"pi"`
	Tr    [][]float64 `json:"tr"`
	Map   []int       `json:"state_map,omitempty"`
	Start []int       `json:"start_states,omitempty"`
	Final []int       `json:"final_states,omitempty"`
	E     []Emis      `json:"emissions"`
}

type EMCase struct {
	Kind     string        `json:"kind"` // smix | vmix | hmm | dmix (scalarEstimator.DiscreteMixtureEstimator) | mhmm | mmix (matrixEstimator)
	Label    string        `json:"label"`
	Route    string        `json:"route,omitempty"`    // dmix: setdata+estimate (summarised data set) | estimateondata | plain (MixtureEstimator)
	DataSet  string        `json:"data_set,omitempty"` // hmm: "" = HmmEstimator (HmmStdDataSet) | summarized (NewHmmSummarizedDataSet + generic.BaumWelchAlgorithm)
	SigmaMin float64       `json:"sigma_min,omitempty"`
	Mix      *Emis         `json:"initial_mixture,omitempty"`
	Hmm      *HmmPar       `json:"initial_hmm,omitempty"`
	Data     [][][]float64 `json:"data"` // records -> observations -> coordinates
	MaxSteps int           `json:"max_steps,omitempty"`
	Threads  int           `json:"threads,omitempty"` // >1 only for the loud-failure check of inadmissible starts
	// option lattice (emopts.go): OptimizeEmissions=false / OptimizeTransitions=false (HMMs) resp. OptimizeWeights=false (mixtures)
	FreezeEmissions bool `json:"optimize_emissions_false,omitempty"`
	FreezeSecond    bool `json:"optimize_transitions_or_weights_false,omitempty"`
	// thread pool of 2..3 threads with a job -> thread assignment forced by the harness (pool.go)
	Pool *PoolSpec `json:"pool,omitempty"`

	s     *sched    // scheduler of the running case
	stats poolStats // what the scheduler measured
}

func (cs *EMCase) maxSteps() int {
	if cs.MaxSteps > 0 {
		return cs.MaxSteps
	}
	return emMaxSteps
}

/* harness log-likelihoods
 * -------------------------------------------------------------------------- */

func mixLoglik(m Emis, data [][][]float64) float64 {
	s := 0.0
	for _, rec := range data {
		for _, x := range rec {
			s += m.logd(x)
		}
	}
	return s
}

func inSet(s []int, i int) bool {
	for _, v := range s {
		if v == i {
			return true
		}
	}
	return false
}

// brute force over all hidden paths; semantics as the library DEFINES it: pi restricted to
// the start states and renormalised, the last transition restricted to the final-state
// columns with rows renormalised
func hmmLoglik(h HmmPar, data [][][]float64) float64 {
	m := len(h.Pi)
	pi := make([]float64, m)
	ps := 0.0
	for i := range pi {
		if h.Start == nil || inSet(h.Start, i) {
			pi[i] = h.Pi[i]
		}
		ps += pi[i]
	}
	tr := make([][]float64, m)
	tf := make([][]float64, m)
	for i := 0; i < m; i++ {
		tr[i], tf[i] = make([]float64, m), make([]float64, m)
		rs, fs := 0.0, 0.0
		for j := 0; j < m; j++ {
			rs += h.Tr[i][j]
			if h.Final == nil || inSet(h.Final, j) {
				fs += h.Tr[i][j]
			}
		}
		for j := 0; j < m; j++ {
			tr[i][j] = h.Tr[i][j] / rs
			if h.Final == nil || inSet(h.Final, j) {
				tf[i][j] = h.Tr[i][j] / fs
			}
		}
	}
	total := 0.0
	for _, rec := range data {
		n := len(rec)
		e := make([][]float64, n)
		for k := range rec {
			e[k] = make([]float64, m)
			for i := 0; i < m; i++ {
				c := i
				if h.Map != nil {
					c = h.Map[i]
				}
				e[k][i] = math.Exp(h.E[c].logd(rec[k]))
			}
		}
		np := 1
		for k := 0; k < n; k++ {
			np *= m
		}
		sum := 0.0
		y := make([]int, n)
		for p := 0; p < np; p++ {
			q := p
			for k := 0; k < n; k++ {
				y[k] = q % m
				q /= m
			}
			pr := pi[y[0]] / ps * e[0][y[0]]
			for k := 1; k < n; k++ {
				t := tr
				if k == n-1 {
					t = tf
				}
				pr *= t[y[k-1]][y[k]] * e[k][y[k]]
			}
			sum += pr
		}
		total += math.Log(sum)
	}
	return total
}

// admissible: the documented semantics is defined (see C15): some start state has mass and
// every row has mass on the final states; otherwise the library substitutes self-loops and
// the final-state restriction silently stops being one.
func admissible(h HmmPar) bool {
	ps := 0.0
	for i, p := range h.Pi {
		if h.Start == nil || inSet(h.Start, i) {
			ps += p
		}
	}
	if !(ps > 0) {
		return false
	}
	for i := range h.Tr {
		fs := 0.0
		for j, p := range h.Tr[i] {
			if h.Final == nil || inSet(h.Final, j) {
				fs += p
			}
		}
		if fs == 0 {
			return false
		}
	}
	return true
}

/* snapshots of library models
 * -------------------------------------------------------------------------- */

func vecf(v ad.Vector) []float64 {
	r := make([]float64, v.Dim())
	for i := range r {
		r[i] = v.At(i).GetFloat64()
	}
	return r
}

func expv(v []float64) []float64 {
	r := make([]float64, len(v))
	for i := range r {
		r[i] = math.Exp(v[i])
	}
	return r
}

func snapScalar(d st.ScalarPdf) Emis {
	switch x := d.(type) {
	case *sd.NormalDistribution:
		return Emis{Family: "normal", P: []float64{x.Mu.GetFloat64(), x.Sigma.GetFloat64()}}
	case *sd.PoissonDistribution:
		return Emis{Family: "poisson", P: []float64{x.Lambda.GetFloat64()}}
	case *sd.CategoricalDistribution:
		return Emis{Family: "categorical", P: expv(vecf(x.Theta))}
	case *sd.GeometricDistribution:
		return Emis{Family: "geometric", P: vecf(x.GetParameters())}
	case *sd.NegativeBinomialDistribution:
		return Emis{Family: "negbinomial", P: []float64{x.R.GetFloat64(), x.P.GetFloat64()}}
	case *sd.Mixture:
		e := Emis{Family: "mixture", W: expv(vecf(x.LogWeights))}
		for _, c := range x.Edist {
			e.Sub = append(e.Sub, snapScalar(c))
		}
		return e
	}
	panic(fmt.Sprintf("harness: cannot snapshot %T", d))
}

func snapVector(d st.VectorPdf) Emis {
	switch x := d.(type) {
	case *vd.ScalarId:
		e := Emis{Family: "product"}
		for _, c := range x.Distributions {
			e.Sub = append(e.Sub, snapScalar(c))
		}
		return e
	case *vd.ScalarIid:
		return Emis{Family: "iid", Sub: []Emis{snapScalar(x.Distribution)}}
	case *vd.NormalDistribution:
		return Emis{Family: "vnormal", P: []float64{x.Mu.At(0).GetFloat64(), x.Mu.At(1).GetFloat64(), x.Sigma.At(0, 0).GetFloat64(), x.Sigma.At(0, 1).GetFloat64(), x.Sigma.At(1, 1).GetFloat64()}}
	case *vd.Mixture:
		e := Emis{Family: "mixture", W: expv(vecf(x.LogWeights))}
		for _, c := range x.Edist {
			e.Sub = append(e.Sub, snapVector(c))
		}
		return e
	}
	panic(fmt.Sprintf("harness: cannot snapshot %T", d))
}

func snapHmm(x *vd.Hmm, h *HmmPar) HmmPar {
	m := len(h.Pi)
	s := HmmPar{Pi: expv(vecf(x.Pi)), Map: append([]int{}, x.StateMap...), Start: h.Start, Final: h.Final}
	for a := 0; a < m; a++ {
		row := make([]float64, m)
		for c := 0; c < m; c++ {
			row[c] = math.Exp(x.Tr.At(a, c).GetFloat64())
		}
		s.Tr = append(s.Tr, row)
	}
	for _, e := range x.Edist {
		s.E = append(s.E, snapScalar(e))
	}
	return s
}

/* estimators from harness models
 * -------------------------------------------------------------------------- */

func mkScalarEst(e Emis, smin float64) (st.ScalarEstimator, error) {
	switch e.Family {
	case "normal":
		return se.NewNormalEstimator(e.P[0], e.P[1], smin)
	case "poisson":
		return se.NewPoissonEstimator(e.P[0])
	case "categorical":
		return se.NewCategoricalEstimator(append([]float64{}, e.P...))
	case "geometric":
		return se.NewGeometricEstimator(e.P[0])
	case "negbinomial":
		return se.NewNegativeBinomialEstimator(e.P[0], e.P[1])
	case "mixture":
		subs := make([]st.ScalarEstimator, len(e.Sub))
		for i, s := range e.Sub {
			x, err := mkScalarEst(s, smin)
			if err != nil {
				return nil, err
			}
			subs[i] = x
		}
		return se.NewMixtureEstimator(append([]float64{}, e.W...), subs, 1e-10, 1)
	}
	return nil, fmt.Errorf("harness: no scalar estimator for %s", e.Family)
}

func mkVectorEst(e Emis, smin float64) (st.VectorEstimator, error) {
	switch e.Family {
	case "product":
		subs := make([]st.ScalarEstimator, len(e.Sub))
		for i, s := range e.Sub {
			x, err := mkScalarEst(s, smin)
			if err != nil {
				return nil, err
			}
			subs[i] = x
		}
		return ve.NewScalarId(subs...)
	case "iid":
		x, err := mkScalarEst(e.Sub[0], smin)
		if err != nil {
			return nil, err
		}
		return ve.NewScalarIid(x, -1)
	case "vnormal":
		return ve.NewNormalEstimator([]float64{e.P[0], e.P[1]}, []float64{e.P[2], e.P[3], e.P[3], e.P[4]}, smin)
	}
	return nil, fmt.Errorf("harness: no vector estimator for %s", e.Family)
}

/* one trajectory
 * -------------------------------------------------------------------------- */

type step struct {
	i     int
	L     float64
	mix   Emis
	hmm   HmmPar
	panic string
}

const (
	emEps      = 1e-10
	emMaxSteps = 200
)

func runTrajectory(cs *EMCase) (tr []step, err error) {
	err = guard(func() error {
		switch cs.Kind {
		case "smix":
			if cs.Pool != nil && cs.Pool.Assign != nil {
				return runAssignedScalarMixture(cs, &tr)
			}
			subs := make([]st.ScalarEstimator, len(cs.Mix.Sub))
			for i, s := range cs.Mix.Sub {
				x, err := mkScalarEst(s, cs.SigmaMin)
				if err != nil {
					return fmt.Errorf("harness-construct: %v", err)
				}
				subs[i] = x
			}
			hook := generic.EmHook{Value: func(m generic.BasicMixture, i int, L, eps float64) {
				tr = append(tr, step{i: i, L: L, mix: snapScalar(m.(*sd.Mixture))})
			}}
			est, err := se.NewMixtureEstimator(append([]float64{}, cs.Mix.W...), subs, emEps, emMaxSteps, hook)
			if err != nil {
				return fmt.Errorf("harness-construct: %v", err)
			}
			est.OptimizeEmissions = !cs.FreezeEmissions
			est.OptimizeWeights = !cs.FreezeSecond
			x := ad.NullDenseFloat64Vector(len(cs.Data[0]))
			for k, v := range cs.Data[0] {
				x.At(k).SetFloat64(v[0])
			}
			return cs.runOn(func(p threadpool.ThreadPool) error { return est.EstimateOnData(x, nil, p) })
		case "vmix":
			subs := make([]st.VectorEstimator, len(cs.Mix.Sub))
			for i, s := range cs.Mix.Sub {
				x, err := mkVectorEstN(s, cs.SigmaMin)
				if err != nil {
					return fmt.Errorf("harness-construct: %v", err)
				}
				subs[i] = x
			}
			hook := generic.EmHook{Value: func(m generic.BasicMixture, i int, L, eps float64) {
				tr = append(tr, step{i: i, L: L, mix: snapVector(m.(*vd.Mixture))})
			}}
			est, err := ve.NewMixtureEstimator(append([]float64{}, cs.Mix.W...), subs, emEps, emMaxSteps, hook)
			if err != nil {
				return fmt.Errorf("harness-construct: %v", err)
			}
			est.OptimizeEmissions = !cs.FreezeEmissions
			est.OptimizeWeights = !cs.FreezeSecond
			xs := make([]ad.ConstVector, len(cs.Data[0]))
			for k, v := range cs.Data[0] {
				xs[k] = ad.NewDenseFloat64Vector(append([]float64{}, v...))
			}
			return cs.runOn(func(p threadpool.ThreadPool) error { return est.EstimateOnData(xs, nil, p) })
		case "dmix":
			return runDiscreteMixture(cs, &tr)
		case "mhmm":
			return runMatrixHmm(cs, &tr)
		case "mmix":
			return runMatrixMixture(cs, &tr)
		case "hmm":
			if cs.DataSet == "summarized" || (cs.Pool != nil && cs.Pool.Assign != nil) {
				return runSummarizedHmm(cs, &tr)
			}
			h := cs.Hmm
			m := len(h.Pi)
			pi := ad.NewDenseFloat64Vector(append([]float64{}, h.Pi...))
			tm := ad.NullDenseFloat64Matrix(m, m)
			for i := 0; i < m; i++ {
				for j := 0; j < m; j++ {
					tm.At(i, j).SetFloat64(h.Tr[i][j])
				}
			}
			ests := make([]st.ScalarEstimator, len(h.E))
			for i, s := range h.E {
				x, err := mkScalarEst(s, cs.SigmaMin)
				if err != nil {
					return fmt.Errorf("harness-construct: %v", err)
				}
				ests[i] = x
			}
			hook := generic.BaumWelchHook{Value: func(b generic.BasicHmm, i int, L, eps float64) {
				tr = append(tr, step{i: i, L: L, hmm: snapHmm(b.(*vd.Hmm), h)})
			}}
			est, err := ve.NewHmmEstimator(pi, tm, h.Map, h.Start, h.Final, ests, emEps, cs.maxSteps(), hook)
			if err != nil {
				return fmt.Errorf("harness-construct: %v", err)
			}
			est.OptimizeEmissions = !cs.FreezeEmissions
			est.OptimizeTransitions = !cs.FreezeSecond
			xs := make([]ad.ConstVector, len(cs.Data))
			for r, rec := range cs.Data {
				v := ad.NullDenseFloat64Vector(len(rec))
				for k := range rec {
					v.At(k).SetFloat64(rec[k][0])
				}
				xs[r] = v
			}
			if cs.Threads > 1 {
				return est.EstimateOnData(xs, nil, threadpool.New(cs.Threads, 10))
			}
			return cs.runOn(func(p threadpool.ThreadPool) error { return est.EstimateOnData(xs, nil, p) })
		}
		return fmt.Errorf("harness: unknown kind %s", cs.Kind)
	})
	return
}

func (cs *EMCase) loglik(s step) float64 {
	if cs.isHmm() {
		return hmmLoglik(s.hmm, cs.Data)
	}
	return mixLoglik(s.mix, cs.Data)
}

func runEMCase(c *vf.Ctx, cs *EMCase, idx int64) {
	nobs := 0
	for _, r := range cs.Data {
		nobs += len(r)
	}
	rk := int64(nobs)<<44 | int64(len(cs.Data))<<40 | idx&(1<<40-1)
	key := func(q, wh string) string {
		return fmt.Sprintf("em[%s]|sigmaMin=%v|%s|%s", cs.Label, cs.SigmaMin, q, wh)
	}
	viol := func(q, wh, msg string) {
		pool := ""
		if cs.Pool != nil {
			pool = fmt.Sprintf(" pool=%+v", *cs.Pool)
		}
		c.Violate(key(q, wh), fmt.Sprintf("EM %s: %s [data=%v%s]", cs.Label, msg, cs.Data, pool), rk, AnyCase{EM: cs})
	}
	c.Eval(1)
	tr, err := runTrajectory(cs)
	if cs.Pool != nil {
		c.Count("em_pool_runs", 1)
		if cs.Pool.Assign != nil {
			c.Count("em_pool_assigned_e_steps", cs.stats.eSteps)
			c.Count("em_pool_assigned_e_steps_thread0_without_job", cs.stats.thread0Idle)
			c.Count("em_pool_assigned_e_steps_split_over_threads", cs.stats.split)
		} else if cs.Pool.Caller != 0 {
			c.Count("em_pool_runs_thread0_never_used", 1)
		}
	}
	if (cs.Kind == "dmix" && cs.Route == routeSummarised) || (cs.Kind == "hmm" && cs.DataSet == "summarized") {
		// differential: the run on the summarised data set against the standard estimator on the same (expanded) data
		diffAgainstStandard(c, cs, tr, err, viol)
	}
	if cs.isHmm() && math.IsInf(hmmLoglik(*cs.Hmm, cs.Data), -1) {
		// inadmissible start: the data has probability zero under the initial model. There is
		// no likelihood to improve; the only demand is a loud failure.
		switch {
		case err == nil:
			viol("zero-likelihood-start", "no-error", fmt.Sprintf("the data has probability 0 under the initial model %+v; the estimator returns nil (no error) after %d hook calls", *cs.Hmm, len(tr)))
		case errKind(err) == "panic":
			viol("zero-likelihood-start", "panic", err.Error())
		default:
			c.Outcome("em:" + cs.Label + ":loud-failure")
		}
		return
	}
	if err != nil && strings.HasPrefix(err.Error(), jobErrorLost) {
		c.Outcome("em:" + cs.Label + ":loud-failure-of-a-job-under-a-forced-assignment")
		c.Count("em_pool_runs_not_judged_job_error", 1)
		return
	}
	if err != nil {
		switch {
		case len(err.Error()) >= 7 && err.Error()[:7] == "harness":
			c.HarnessError(err.Error())
		case errKind(err) == "panic":
			viol("run", "panic", err.Error())
		default:
			if os.Getenv("C16_DEBUG") != "" && len(tr) > 0 {
				fmt.Fprintf(os.Stderr, "LOUD %s: %v\n", cs.Label, err)
				for _, s := range tr {
					fmt.Fprintf(os.Stderr, "   %d L=%v %s\n", s.i, s.L, describe(cs, s))
				}
			}
			c.Outcome("em:" + cs.Label + ":loud-failure:" + errClass(err))
			c.Count("em_loud_failures", 1)
		}
		// the steps recorded before the failure are still checked below
	}
	if len(tr) < 2 {
		if err == nil {
			viol("hook", "not-called", fmt.Sprintf("%d hook calls for a successful run", len(tr)))
		}
		return
	}
	c.Count("em_steps", int64(len(tr)-1))
	for i, s := range tr {
		if s.i != i {
			viol("hook", "iteration-number", fmt.Sprintf("hook call %d carries iteration number %d", i, s.i))
			return
		}
	}
	if cs.FreezeEmissions || cs.FreezeSecond {
		for i := 1; i < len(tr); i++ {
			if blk := frozenMoved(cs, tr[0], tr[i]); blk != "" {
				viol("not-optimised-block", blk+"-changed", fmt.Sprintf("the %s are not optimised but differ at hook call %d from the initial model: %s -> %s", blk, i, describe(cs, tr[0]), describe(cs, tr[i])))
				return
			}
		}
	}
	moved := false
	left := func(s step) bool {
		if cs.isHmm() && !admissible(s.hmm) {
			c.Outcome("em:" + cs.Label + ":left-admissible-region(row without mass on the final states)")
			c.Count("em_trajectories_left_admissible_region", 1)
			return true
		}
		return false
	}
	for i := 1; i < len(tr); i++ {
		if left(tr[i-1]) {
			return
		}
		L := tr[i].L
		if math.IsNaN(L) || math.IsInf(L, 0) {
			viol("reported-likelihood", "not-finite", fmt.Sprintf("iteration %d reports log-likelihood %v (model before: %+v)", i, L, describe(cs, tr[i-1])))
			return
		}
		want := cs.loglik(tr[i-1])
		if !(math.Abs(L-want) <= 1e-9*math.Max(1, math.Abs(want))) {
			viol("reported-likelihood", "differs-from-model-likelihood", fmt.Sprintf("iteration %d reports %.15g; the model its E-step used has log-likelihood %.15g: %s", i, L, want, describe(cs, tr[i-1])))
			return
		}
		if !cs.isHmm() && !cs.FreezeSecond {
			// exact M-step of the weights: the mean responsibilities under the model of the E-step
			if ref := mstepWeights(tr[i-1].mix, cs.Data); ref != nil {
				for j := range ref {
					if j >= len(tr[i].mix.W) || !(math.Abs(tr[i].mix.W[j]-ref[j]) <= 1e-9) {
						viol("m-step", "weights-are-not-the-mean-responsibilities", fmt.Sprintf("iteration %d: weights %v, mean responsibilities under the previous model %v; models %s -> %s", i, tr[i].mix.W, ref, describe(cs, tr[i-1]), describe(cs, tr[i])))
						return
					}
				}
				c.Count("em_weight_m_steps_checked", 1)
			}
		}
		if i >= 2 {
			if !(L >= tr[i-1].L-1e-9*math.Max(1e-3, math.Abs(tr[i-1].L))) {
				viol("monotonicity", "decrease", fmt.Sprintf("log-likelihood %.15g at iteration %d after %.15g at iteration %d; models %s -> %s", L, i, tr[i-1].L, i-1, describe(cs, tr[i-2]), describe(cs, tr[i-1])))
				return
			}
			if L > tr[i-1].L {
				moved = true
			}
		}
	}
	last := tr[len(tr)-1]
	if left(last) {
		return
	}
	Lf := cs.loglik(last)
	if math.IsNaN(Lf) || !(Lf >= last.L-1e-9*math.Max(1e-3, math.Abs(last.L))) {
		viol("monotonicity", "decrease-in-last-step", fmt.Sprintf("the returned model has log-likelihood %.15g, the previous iterate %.15g; models %s -> %s", Lf, last.L, describe(cs, tr[len(tr)-2]), describe(cs, last)))
		return
	}
	if Lf > last.L {
		moved = true
	}
	if moved {
		c.Nontrivial(1)
	}
	switch n := len(tr) - 1; {
	case err != nil:
	case n >= emMaxSteps:
		c.Outcome("em:" + cs.Label + ":max-steps")
	case n <= 3:
		c.Outcome("em:" + cs.Label + ":converged<=3")
	case n <= 20:
		c.Outcome("em:" + cs.Label + ":converged<=20")
	default:
		c.Outcome("em:" + cs.Label + ":converged>20")
	}
	if idx%501 == 3 && moved {
		c.Sample(cs)
	}
}

// errClass: the error message without numbers (keeps the outcome classes few)
func errClass(err error) string {
	var sb []rune
	for _, r := range err.Error() {
		if (r >= '0' && r <= '9') || r == '.' || r == '-' || r == '+' {
			continue
		}
		sb = append(sb, r)
	}
	if len(sb) > 80 {
		sb = sb[:80]
	}
	return string(sb)
}

func describe(cs *EMCase, s step) string {
	if cs.isHmm() {
		return fmt.Sprintf("%+v", s.hmm)
	}
	return fmt.Sprintf("%+v", s.mix)
}

/* enumeration
 * -------------------------------------------------------------------------- */

// multisets of size n over {0..k-1} as ascending tuples
func multisets(n, k int) [][]int {
	var out [][]int
	for _, t := range tuples(n, k) {
		ok := true
		for i := 1; i < n; i++ {
			if t[i] < t[i-1] {
				ok = false
			}
		}
		if ok {
			out = append(out, t)
		}
	}
	return out
}

func weightLattice(k int) [][]float64 {
	if k == 2 {
		return [][]float64{{0.5, 0.5}, {0.25, 0.75}, {0.75, 0.25}}
	}
	return [][]float64{{0.25, 0.25, 0.5}, {0.25, 0.5, 0.25}, {0.5, 0.25, 0.25}}
}

var catLattice = [][]float64{{0.5, 0.25, 0.25}, {0.25, 0.5, 0.25}, {0.25, 0.25, 0.5}}

// all component tuples: k components, each from opts
func compTuples(k int, opts []Emis) [][]Emis {
	var out [][]Emis
	for _, t := range tuples(k, len(opts)) {
		r := make([]Emis, k)
		for i, v := range t {
			r[i] = opts[v]
		}
		out = append(out, r)
	}
	return out
}

func runEM(c *vf.Ctx, thorough bool) {
	var idx int64
	only := os.Getenv("C16_ONLY")
	each := func(cs EMCase) {
		idx++
		if only != "" && !strings.Contains(cs.Label, only) {
			return
		}
		if c.Mine(idx) {
			c.Guard("em:"+cs.Label, idx, AnyCase{EM: &cs})
			runEMCase(c, &cs, idx)
		}
	}
	nmax := 4
	if thorough {
		nmax = 5
	}
	scalarData := func(alph []float64, nmax int) [][][][]float64 {
		var out [][][][]float64
		for n := 1; n <= nmax; n++ {
			for _, t := range multisets(n, len(alph)) {
				rec := make([][]float64, n)
				for k, v := range t {
					rec[k] = []float64{alph[v]}
				}
				out = append(out, [][][]float64{rec})
			}
		}
		return out
	}
	// ---- scalar mixtures
	var normalOpts, poissonOpts, catOpts []Emis
	for _, mu := range []float64{0, 1.5, 3} {
		for _, sg := range []float64{0.5, 1, 2} {
			normalOpts = append(normalOpts, Emis{Family: "normal", P: []float64{mu, sg}})
		}
	}
	for _, l := range []float64{0.5, 1.5, 3} {
		poissonOpts = append(poissonOpts, Emis{Family: "poisson", P: []float64{l}})
	}
	for _, th := range catLattice {
		catOpts = append(catOpts, Emis{Family: "categorical", P: th})
	}
	ks := []int{2}
	if thorough {
		ks = []int{2, 3}
	}
	for _, k := range ks {
		type fam struct {
			name  string
			opts  []Emis
			alph  []float64
			smins []float64
		}
		for _, f := range []fam{
			{"normal", normalOpts, []float64{0, 1, 3}, []float64{1e-8, 0.5}},
			{"poisson", poissonOpts, []float64{0, 1, 3}, []float64{0}},
			{"categorical", catOpts, []float64{0, 1, 2}, []float64{0}},
		} {
			data := scalarData(f.alph, 5)
			for _, smin := range f.smins {
				for _, w := range weightLattice(k) {
					for _, comps := range compTuples(k, f.opts) {
						for _, d := range data {
							each(EMCase{Kind: "smix", Label: fmt.Sprintf("scalar-mixture,%s,k=%d", f.name, k), SigmaMin: smin, Mix: &Emis{Family: "mixture", W: w, Sub: comps}, Data: d})
						}
					}
				}
			}
		}
	}
	// ---- vector mixtures: products of independent normals / normal x poisson, bivariate normal
	pts := [][]float64{{0, 0}, {1, 3}, {3, 1}}
	var vdata [][][][]float64
	for n := 1; n <= nmax-1; n++ {
		for _, t := range multisets(n, len(pts)) {
			rec := make([][]float64, n)
			for k, v := range t {
				rec[k] = pts[v]
			}
			vdata = append(vdata, [][][]float64{rec})
		}
	}
	var prodOpts, mixedOpts []Emis
	for _, mu := range [][]float64{{0, 0}, {1.5, 1.5}, {3, 0}} {
		for _, sg := range []float64{0.5, 1, 2} {
			prodOpts = append(prodOpts, Emis{Family: "product", Sub: []Emis{{Family: "normal", P: []float64{mu[0], sg}}, {Family: "normal", P: []float64{mu[1], sg}}}})
		}
		for _, l := range []float64{0.5, 1.5, 3} {
			mixedOpts = append(mixedOpts, Emis{Family: "product", Sub: []Emis{{Family: "normal", P: []float64{mu[0], 1}}, {Family: "poisson", P: []float64{l}}}})
		}
	}
	for _, v := range []struct {
		name  string
		opts  []Emis
		smins []float64
	}{{"product-normal", prodOpts, []float64{1e-8, 0.5}}, {"product-normal-poisson", mixedOpts, []float64{0.5}}} {
		for _, smin := range v.smins {
			for _, w := range weightLattice(2) {
				for _, comps := range compTuples(2, v.opts) {
					for _, d := range vdata {
						each(EMCase{Kind: "vmix", Label: "vector-mixture," + v.name + ",k=2", SigmaMin: smin, Mix: &Emis{Family: "mixture", W: w, Sub: comps}, Data: d})
					}
				}
			}
		}
	}
	// ---- HMMs, m=2, categorical emissions over 3 symbols
	rows := [][]float64{{0.5, 0.5}, {0.25, 0.75}, {0.75, 0.25}}
	var seqData [][][][]float64
	for n := 1; n <= nmax; n++ {
		for _, t := range tuples(n, 3) {
			rec := make([][]float64, n)
			for k, v := range t {
				rec[k] = []float64{float64(v)}
			}
			seqData = append(seqData, [][][]float64{rec})
		}
	}
	// thorough: the unrestricted HMM also on all sequences of length 6
	var longData [][][][]float64
	if thorough {
		for _, t := range tuples(6, 3) {
			rec := make([][]float64, 6)
			for k, v := range t {
				rec[k] = []float64{float64(v)}
			}
			longData = append(longData, [][][]float64{rec})
		}
	}
	// data sets of two sequences (each of length 1..2, thorough 1..3)
	var short [][][]float64
	pairLen := 2
	if thorough {
		pairLen = 3
	}
	for n := 1; n <= pairLen; n++ {
		for _, t := range tuples(n, 3) {
			rec := make([][]float64, n)
			for k, v := range t {
				rec[k] = []float64{float64(v)}
			}
			short = append(short, rec)
		}
	}
	var pairData [][][][]float64
	for _, a := range short {
		for _, b := range short {
			pairData = append(pairData, [][][]float64{a, b})
		}
	}
	restr := []struct {
		name         string
		start, final []int
	}{{"free", nil, nil}, {"start0-final0", []int{0}, []int{0}}, {"final1", nil, []int{1}}, {"start0", []int{0}, nil}}
	for ri, rs := range restr {
		for _, pi := range rows {
			for _, r0 := range rows {
				for _, r1 := range rows {
					for _, es := range compTuples(2, catOpts) {
						h := HmmPar{Pi: pi, Tr: [][]float64{r0, r1}, Start: rs.start, Final: rs.final, E: es}
						ds := seqData
						if ri == 0 {
							ds = append(append(append([][][][]float64{}, seqData...), longData...), pairData...)
						}
						for _, d := range ds {
							hh := h
							each(EMCase{Kind: "hmm", Label: "hmm,m=2,categorical," + rs.name, Hmm: &hh, Data: d})
						}
					}
				}
			}
		}
	}
	// shared emission class (state map {0,0} / {1,0}) with free transitions
	for _, mp := range [][]int{{0, 0}, {1, 0}} {
		for _, r0 := range rows {
			for _, r1 := range rows {
				nc := 1
				if mp[0] == 1 {
					nc = 2
				}
				for _, es := range compTuples(nc, catOpts) {
					for _, d := range seqData {
						if len(d[0]) > 4 {
							continue
						}
						h := HmmPar{Pi: []float64{0.25, 0.75}, Tr: [][]float64{r0, r1}, Map: mp, E: es}
						each(EMCase{Kind: "hmm", Label: fmt.Sprintf("hmm,m=2,categorical,map=%v", mp), Hmm: &h, Data: d})
					}
				}
			}
		}
	}
	// ---- inadmissible start (deterministic HMMs under which some sequences are impossible
	// although every symbol can be emitted by some state): must fail loudly
	det := [][]float64{{1, 0}, {0, 1}}
	for _, pi := range det {
		for _, r0 := range det {
			for _, r1 := range det {
				for _, d := range seqData {
					if len(d[0]) < 2 || len(d[0]) > 3 {
						continue
					}
					two := true
					for _, x := range d[0] {
						if x[0] > 1 {
							two = false
						}
					}
					if !two {
						continue
					}
					h := HmmPar{Pi: pi, Tr: [][]float64{r0, r1}, E: []Emis{{Family: "categorical", P: []float64{1, 0, 0}}, {Family: "categorical", P: []float64{0, 1, 0}}}}
					if !math.IsInf(hmmLoglik(h, d), -1) {
						continue
					}
					each(EMCase{Kind: "hmm", Label: "hmm,m=2,categorical,zero-likelihood-start", Hmm: &h, Data: d, MaxSteps: 3})
					each(EMCase{Kind: "hmm", Label: "hmm,m=2,categorical,zero-likelihood-start,2-threads", Hmm: &h, Data: d, MaxSteps: 3, Threads: 2})
				}
			}
		}
	}
	// ---- nested: every state emits from a 2-component mixture of categoricals; one
	// configuration of the inner mixtures, small lattice on the outer transitions
	inner0 := Emis{Family: "mixture", W: []float64{0.5, 0.5}, Sub: []Emis{catOpts[0], catOpts[1]}}
	inner1 := Emis{Family: "mixture", W: []float64{0.25, 0.75}, Sub: []Emis{catOpts[2], catOpts[0]}}
	for _, r0 := range rows {
		for _, r1 := range rows {
			for _, d := range seqData {
				h := HmmPar{Pi: []float64{0.5, 0.5}, Tr: [][]float64{r0, r1}, E: []Emis{inner0, inner1}}
				each(EMCase{Kind: "hmm", Label: "hmm,m=2,nested-mixture-of-categoricals", Hmm: &h, Data: d})
			}
		}
	}
	// nested with normal components (bounded M-step inside the inner mixture)
	n0 := Emis{Family: "mixture", W: []float64{0.5, 0.5}, Sub: []Emis{{Family: "normal", P: []float64{0, 1}}, {Family: "normal", P: []float64{2, 1}}}}
	n1 := Emis{Family: "mixture", W: []float64{0.25, 0.75}, Sub: []Emis{{Family: "normal", P: []float64{1, 0.5}}, {Family: "normal", P: []float64{1, 2}}}}
	for _, r0 := range rows {
		for _, d := range seqData {
			if len(d[0]) < 2 {
				continue
			}
			h := HmmPar{Pi: []float64{0.5, 0.5}, Tr: [][]float64{r0, {0.25, 0.75}}, E: []Emis{n0, n1}}
			each(EMCase{Kind: "hmm", Label: "hmm,m=2,nested-mixture-of-normals", SigmaMin: 0.5, Hmm: &h, Data: d})
		}
	}
	// ---- summarised data sets (discrete.go)
	enumSummarised(thorough, each, poissonOpts, catOpts, rows, seqData, pairData)
	// ---- matrixEstimator instantiations and the option lattice (emopts.go)
	enumMatrixAndOptions(thorough, each, normalOpts, poissonOpts, catOpts, prodOpts, mixedOpts, rows, seqData, pairData)
	// ---- ScalarIid components on observations of different lengths; pools of 2..3 threads (pool.go)
	enumRagged(thorough, each, normalOpts, poissonOpts)
	enumPools(thorough, each, normalOpts, poissonOpts, catOpts, prodOpts, mixedOpts, rows, seqData, pairData)
}
