package main

// Summarised data sets (one entry per DISTINCT observation plus a count / an index map).
//
// Public entry points of the library that construct a summarised data set:
//   * scalarEstimator.NewMixtureSummarizedDataSet  <- (*DiscreteMixtureEstimator).SetData only.
//     (*DiscreteMixtureEstimator).EstimateOnData is promoted from the embedded MixtureEstimator
//     and calls (*MixtureEstimator).SetData, i.e. it does NOT summarise.  Both routes are driven.
//   * vectorEstimator.NewHmmSummarizedDataSet      <- no estimator of the library calls it; it is
//     reachable only as an exported constructor whose result satisfies generic.HmmDataSet.  It is
//     driven here through the exported generic.BaumWelchAlgorithm / (*generic.Hmm).BaumWelchStep
//     with a core that repeats vectorEstimator.HmmEstimator's Swap / Step / Emissions verbatim.
//
// Oracles: the EM oracle of em.go (reported likelihood = harness log-likelihood of the E-step's
// model on the EXPANDED data, monotone at every step, final estimate) and the differential
// "run on the summarised data set == run of the standard estimator on the expanded data set"
// (same initialisation): iterate i of the two runs must agree within 1e-9 whenever iterate i-1
// agreed within 1e-12 (the two runs round differently, and EM may amplify a rounding difference
// slowly near a saddle point; a jump from <=1e-12 to >1e-9 within ONE step is not rounding).

import (
	"fmt"
	"math"

	ad "github.com/pbenner/autodiff"
	st "github.com/pbenner/autodiff/statistics"
	"github.com/pbenner/autodiff/statistics/generic"
	sd "github.com/pbenner/autodiff/statistics/scalarDistribution"
	se "github.com/pbenner/autodiff/statistics/scalarEstimator"
	vd "github.com/pbenner/autodiff/statistics/vectorDistribution"
	ve "github.com/pbenner/autodiff/statistics/vectorEstimator"
	"github.com/pbenner/threadpool"

	"verif/mc/vf"
)

const (
	routeSummarised = "setdata+estimate"
	routeOnData     = "estimateondata"
	routePlain      = "plain"
)

/* DiscreteMixtureEstimator
 * -------------------------------------------------------------------------- */

func runDiscreteMixture(cs *EMCase, tr *[]step) error {
	subs := make([]st.ScalarEstimator, len(cs.Mix.Sub))
	for i, s := range cs.Mix.Sub {
		x, err := mkScalarEst(s, cs.SigmaMin)
		if err != nil {
			return fmt.Errorf("harness-construct: %v", err)
		}
		subs[i] = x
	}
	hook := generic.EmHook{Value: func(m generic.BasicMixture, i int, L, eps float64) {
		*tr = append(*tr, step{i: i, L: L, mix: snapScalar(m.(*sd.Mixture))})
	}}
	x := ad.NullDenseFloat64Vector(len(cs.Data[0]))
	for k, v := range cs.Data[0] {
		x.At(k).SetFloat64(v[0])
	}
	w := append([]float64{}, cs.Mix.W...)
	switch cs.Route {
	case routeSummarised:
		est, err := se.NewDiscreteMixtureEstimator(w, subs, emEps, emMaxSteps, hook)
		if err != nil {
			return fmt.Errorf("harness-construct: %v", err)
		}
		if err := est.SetData(x, x.Dim()); err != nil {
			return err
		}
		return cs.runOn(func(p threadpool.ThreadPool) error { return est.Estimate(nil, p) })
	case routeOnData:
		est, err := se.NewDiscreteMixtureEstimator(w, subs, emEps, emMaxSteps, hook)
		if err != nil {
			return fmt.Errorf("harness-construct: %v", err)
		}
		return cs.runOn(func(p threadpool.ThreadPool) error { return est.EstimateOnData(x, nil, p) })
	case routePlain:
		est, err := se.NewMixtureEstimator(w, subs, emEps, emMaxSteps, hook)
		if err != nil {
			return fmt.Errorf("harness-construct: %v", err)
		}
		return cs.runOn(func(p threadpool.ThreadPool) error { return est.EstimateOnData(x, nil, p) })
	}
	return fmt.Errorf("harness: unknown route %q", cs.Route)
}

/* Baum-Welch on a HmmSummarizedDataSet
 * -------------------------------------------------------------------------- */

// sumHmmCore repeats vectorEstimator.HmmEstimator's Baum-Welch interface (hmm.go: Swap,
// EvaluateLogPdf, Step, Emissions) over a ve.HmmDataSet chosen by the harness.
type sumHmmCore struct {
	hmm1, hmm2, hmm3 *vd.Hmm
	data             ve.HmmDataSet
	ests             []st.ScalarEstimator
	// pools with assigned E-step jobs (pool.go)
	s      *sched
	assign [][]int
	step   int
}

func (o *sumHmmCore) GetBasicHmm() generic.BasicHmm { return o.hmm1 }
func (o *sumHmmCore) EvaluateLogPdf(p threadpool.ThreadPool) error {
	return o.data.EvaluateLogPdf(o.hmm2.Edist, p)
}
func (o *sumHmmCore) Swap() { o.hmm1, o.hmm2, o.hmm3 = o.hmm3, o.hmm1, o.hmm2 }
func (o *sumHmmCore) Step(meta ad.ConstVector, tmp []generic.BaumWelchTmp, p threadpool.ThreadPool) (float64, error) {
	if o.s != nil && len(o.assign) > 0 {
		o.s.arm(p, o.assign[o.step%len(o.assign)])
		o.step++
		defer o.s.disarm()
	}
	return o.hmm1.Hmm.BaumWelchStep(&o.hmm1.Hmm, &o.hmm2.Hmm, o.data, meta, tmp, p)
}
func (o *sumHmmCore) Emissions(gamma []ad.DenseFloat64Vector, p threadpool.ThreadPool) error {
	for c := range o.hmm1.Edist {
		p1 := o.hmm1.Edist[c].GetParameters()
		p2 := o.hmm2.Edist[c].GetParameters()
		for j := 0; j < p1.Dim(); j++ {
			p1.At(j).Set(p2.At(j))
		}
		if err := o.ests[c].SetParameters(p1); err != nil {
			return err
		}
		if err := o.ests[c].Estimate(gamma[c], p); err != nil {
			return err
		}
		if err := o.hmm1.Edist[c].SetParameters(o.ests[c].GetParameters()); err != nil {
			return err
		}
	}
	return nil
}

func runSummarizedHmm(cs *EMCase, tr *[]step) error {
	h := cs.Hmm
	m := len(h.Pi)
	pi := ad.NewDenseFloat64Vector(append([]float64{}, h.Pi...))
	tm := ad.NullDenseFloat64Matrix(m, m)
	for i := 0; i < m; i++ {
		for j := 0; j < m; j++ {
			tm.At(i, j).SetFloat64(h.Tr[i][j])
		}
	}
	ests := make([]st.ScalarEstimator, len(h.E))
	for i, s := range h.E {
		x, err := mkScalarEst(s, cs.SigmaMin)
		if err != nil {
			return fmt.Errorf("harness-construct: %v", err)
		}
		ests[i] = x
	}
	// as NewHmmEstimator
	hmm, err := vd.NewHmm(pi, tm, h.Map, nil)
	if err != nil {
		return fmt.Errorf("harness-construct: %v", err)
	}
	if err := hmm.SetStartStates(h.Start); err != nil {
		return fmt.Errorf("harness-construct: %v", err)
	}
	if err := hmm.SetFinalStates(h.Final); err != nil {
		return fmt.Errorf("harness-construct: %v", err)
	}
	if len(ests) != hmm.NEDists() {
		return fmt.Errorf("harness-construct: %d estimators for %d emission classes", len(ests), hmm.NEDists())
	}
	core := &sumHmmCore{ests: ests}
	// as (*HmmEstimator).SetData, with the summarised data set
	xs := make([]ad.Vector, len(cs.Data))
	nobs := 0
	for r, rec := range cs.Data {
		v := ad.NullDenseFloat64Vector(len(rec))
		for k := range rec {
			v.At(k).SetFloat64(rec[k][0])
		}
		xs[r] = v
		nobs += len(rec)
	}
	var data ve.HmmDataSet
	if cs.DataSet == "summarized" {
		d, err := ve.NewHmmSummarizedDataSet(ad.Float64Type, xs, hmm.NEDists())
		if err != nil {
			return err
		}
		if d.GetN() != nobs {
			return fmt.Errorf("HmmSummarizedDataSet.GetN() = %d for %d observations", d.GetN(), nobs)
		}
		data = d
	} else {
		// as (*HmmEstimator).SetData
		cxs := make([]ad.ConstVector, len(xs))
		for i := range xs {
			cxs[i] = xs[i]
		}
		d, err := ve.NewHmmStdDataSet(ad.Float64Type, cxs, hmm.NEDists())
		if err != nil {
			return err
		}
		data = d
	}
	for i, e := range ests {
		if err := e.SetData(data.GetMappedData(), len(xs)); err != nil {
			return err
		}
		d, err := e.GetEstimate()
		if err != nil {
			return err
		}
		hmm.Edist[i] = d.CloneScalarPdf()
	}
	core.hmm1, core.hmm2, core.hmm3 = hmm.Clone(), hmm.Clone(), hmm.Clone()
	core.data = data
	nData := 0
	for i := 0; i < data.GetNRecords(); i++ {
		if n := data.GetRecord(i).GetN(); n > nData {
			nData = n
		}
	}
	hook := generic.BaumWelchHook{Value: func(b generic.BasicHmm, i int, L, eps float64) {
		*tr = append(*tr, step{i: i, L: L, hmm: snapHmm(b.(*vd.Hmm), h)})
	}}
	return cs.runOn(func(p threadpool.ThreadPool) error {
		if cs.Pool != nil && cs.Pool.Assign != nil {
			core.data = &gatedHmmData{HmmDataSet: data, s: cs.s}
			core.s, core.assign = cs.s, cs.Pool.Assign
		}
		return generic.BaumWelchAlgorithm(core, nil, data.GetNRecords(), nData, data.GetNMapped(), hmm.NStates(), hmm.NEDists(), emEps, cs.maxSteps(), p, hook,
			generic.BaumWelchOptimizeEmissions{Value: !cs.FreezeEmissions}, generic.BaumWelchOptimizeTransitions{Value: !cs.FreezeSecond})
	})
}

/* differential: summarised run against the standard estimator
 * -------------------------------------------------------------------------- */

func emisDist(a, b Emis) float64 {
	if a.Family != b.Family || len(a.P) != len(b.P) || len(a.W) != len(b.W) || len(a.Sub) != len(b.Sub) {
		return math.Inf(1)
	}
	d := 0.0
	upd := func(x, y float64) {
		switch {
		case x == y || (math.IsNaN(x) && math.IsNaN(y)):
		case math.IsNaN(x) || math.IsNaN(y):
			d = math.Inf(1)
		default:
			d = math.Max(d, math.Abs(x-y)/math.Max(1, math.Abs(y)))
		}
	}
	for i := range a.P {
		upd(a.P[i], b.P[i])
	}
	for i := range a.W {
		upd(a.W[i], b.W[i])
	}
	for i := range a.Sub {
		d = math.Max(d, emisDist(a.Sub[i], b.Sub[i]))
	}
	return d
}

func stepDist(cs *EMCase, a, b step, withL bool) float64 {
	d := 0.0
	if cs.Kind == "hmm" {
		x, y := a.hmm, b.hmm
		if len(x.Pi) != len(y.Pi) || len(x.E) != len(y.E) {
			return math.Inf(1)
		}
		d = emisDist(Emis{P: x.Pi}, Emis{P: y.Pi})
		for i := range x.Tr {
			d = math.Max(d, emisDist(Emis{P: x.Tr[i]}, Emis{P: y.Tr[i]}))
		}
		for i := range x.E {
			d = math.Max(d, emisDist(x.E[i], y.E[i]))
		}
	} else {
		d = emisDist(a.mix, b.mix)
	}
	if withL {
		d = math.Max(d, emisDist(Emis{P: []float64{a.L}}, Emis{P: []float64{b.L}}))
	}
	return d
}

func hasRepeat(data [][][]float64) bool {
	seen := map[float64]bool{}
	for _, rec := range data {
		for _, x := range rec {
			if seen[x[0]] {
				return true
			}
			seen[x[0]] = true
		}
	}
	return false
}

func diffAgainstStandard(c *vf.Ctx, cs *EMCase, trS []step, errS error, viol func(q, wh, msg string)) {
	if errS != nil && len(errS.Error()) >= 7 && errS.Error()[:7] == "harness" {
		return // reported by the caller
	}
	std := *cs
	if cs.Kind == "dmix" {
		std.Route = routePlain
	} else {
		std.DataSet = ""
	}
	trP, errP := runTrajectory(&std)
	c.Eval(1)
	if errP != nil && len(errP.Error()) >= 7 && errP.Error()[:7] == "harness" {
		c.HarnessError(errP.Error())
		return
	}
	if (errS == nil) != (errP == nil) {
		viol("differential", "one-run-fails", fmt.Sprintf("on the summarised data set: %d hook calls, error %v; standard estimator on the same data: %d hook calls, error %v", len(trS), errS, len(trP), errP))
		return
	}
	n := len(trS)
	if len(trP) < n {
		n = len(trP)
	}
	prev := 0.0
	for i := 0; i < n; i++ {
		d := stepDist(cs, trS[i], trP[i], i >= 1)
		if !(d <= 1e-9) {
			if prev <= 1e-12 {
				before := "(initial model)"
				if i > 0 {
					before = describe(cs, trS[i-1])
				}
				viol("differential", "trajectory-differs", fmt.Sprintf("hook call %d: summarised data set gives L=%.15g %s, the standard estimator on the expanded data L=%.15g %s (relative difference %.3g); both runs agreed within %.3g at call %d: %s",
					i, trS[i].L, describe(cs, trS[i]), trP[i].L, describe(cs, trP[i]), d, prev, i-1, before))
				return
			}
			c.Count("differential_slow_divergence_undecided", 1)
			c.Outcome("differential:" + cs.Label + ":slow-divergence")
			return
		}
		prev = d
	}
	if len(trS) != len(trP) {
		c.Count("differential_runs_of_different_length", 1)
	}
	c.Count("differential_steps_compared", int64(n))
	if hasRepeat(cs.Data) && n >= 2 {
		c.Nontrivial(1)
		c.Count("differential_runs_with_repeated_observations", 1)
	}
	c.Outcome("differential:" + cs.Label + ":agree")
}

/* enumeration
 * -------------------------------------------------------------------------- */

func enumSummarised(thorough bool, each func(EMCase), poissonOpts, catOpts []Emis, rows [][]float64, seqData, pairData [][][][]float64) {
	var geoOpts, nbOpts []Emis
	for _, p := range []float64{0.5, 0.25, 0.75} {
		geoOpts = append(geoOpts, Emis{Family: "geometric", P: []float64{p}})
	}
	for _, rp := range [][]float64{{1, 0.5}, {2, 0.25}, {2, 0.75}} {
		nbOpts = append(nbOpts, Emis{Family: "negbinomial", P: rp})
	}
	nmax := 5
	ks := []int{2}
	if thorough {
		nmax = 6
		ks = []int{2, 3}
	}
	type fam struct {
		name string
		opts []Emis
		alph []float64
	}
	fams := []fam{
		{"poisson", poissonOpts, []float64{0, 1, 3}},
		{"categorical", catOpts, []float64{0, 1, 2}},
		{"geometric", geoOpts, []float64{0, 1, 3}},
		{"negbinomial", nbOpts, []float64{0, 1, 3}},
	}
	for _, k := range ks {
		for _, f := range fams {
			// all multisets (repeated values included) of 1..nmax observations
			var data [][][][]float64
			for n := 1; n <= nmax; n++ {
				for _, t := range multisets(n, len(f.alph)) {
					rec := make([][]float64, n)
					for i, v := range t {
						rec[i] = []float64{f.alph[v]}
					}
					data = append(data, [][][]float64{rec})
				}
			}
			for _, w := range weightLattice(k) {
				for _, comps := range compTuples(k, f.opts) {
					for _, route := range []string{routeSummarised, routeOnData} {
						for _, d := range data {
							each(EMCase{Kind: "dmix", Route: route, Label: fmt.Sprintf("discrete-mixture,%s,k=%d,%s", f.name, k, route), Mix: &Emis{Family: "mixture", W: w, Sub: comps}, Data: d})
						}
					}
				}
			}
		}
	}
	// ---- HmmSummarizedDataSet: m=2, categorical emissions over 3 symbols
	pis := [][]float64{{0.25, 0.75}}
	if thorough {
		pis = rows
	}
	var ds [][][][]float64
	for _, d := range seqData {
		if n := len(d[0]); n >= 2 && (n <= 4 || thorough) {
			ds = append(ds, d)
		}
	}
	ds = append(ds, pairData...)
	restr := []struct {
		name         string
		start, final []int
	}{{"free", nil, nil}, {"start0-final0", []int{0}, []int{0}}}
	for ri, rs := range restr {
		if ri > 0 && !thorough {
			break
		}
		for _, pi := range pis {
			for _, r0 := range rows {
				for _, r1 := range rows {
					for _, es := range compTuples(2, catOpts) {
						for _, d := range ds {
							if ri > 0 && len(d) > 1 {
								continue
							}
							h := HmmPar{Pi: pi, Tr: [][]float64{r0, r1}, Start: rs.start, Final: rs.final, E: es}
							each(EMCase{Kind: "hmm", DataSet: "summarized", Label: "hmm,m=2,categorical," + rs.name + ",summarized-data-set", Hmm: &h, Data: d})
						}
					}
				}
			}
		}
	}
}
