package main

// Numeric estimator (scalarEstimator/numeric.go): it maximises (1/n) sum_k w_k log f(x_k)
// with the library's own optimisers and stops when the gradient norm of that objective is
// below Epsilon.  The estimator has no explicit "converged" flag; the harness decides
// convergence by running the same case with iteration budget B and 2B: identical results
// mean the stop was not caused by the budget, i.e. the estimator claims a stationary
// point.  Oracle: analytic gradient of the harness's own weighted log-likelihood, scaled
// like the objective, has norm <= 10*Epsilon at the estimate.

import (
	"fmt"
	"math"

	ad "github.com/pbenner/autodiff"
	st "github.com/pbenner/autodiff/statistics"
	sd "github.com/pbenner/autodiff/statistics/scalarDistribution"
	se "github.com/pbenner/autodiff/statistics/scalarEstimator"

	"verif/mc/vf"
)

type NumCase struct {
	Family string    `json:"family"` // normal | gamma | exponential | poisson
	Method string    `json:"method"` // newton | bfgs
	Init   []float64 `json:"initial_parameters"`
	X      []float64 `json:"data"`
	G      []int     `json:"log_weight_index"`
}

func digamma(x float64) float64 {
	r := 0.0
	for x < 6 {
		r -= 1 / x
		x++
	}
	f := 1 / (x * x)
	return r + math.Log(x) - 0.5/x - f*(1.0/12-f*(1.0/120-f*(1.0/252-f*(1.0/240-f*(1.0/132)))))
}

func numPdf(family string, th []float64) (st.ScalarPdf, error) {
	switch family {
	case "normal":
		return sd.NewNormalDistribution(ad.NewFloat64(th[0]), ad.NewFloat64(th[1]))
	case "gamma":
		return sd.NewGammaDistribution(ad.NewFloat64(th[0]), ad.NewFloat64(th[1]))
	case "exponential":
		return sd.NewExponentialDistribution(ad.NewFloat64(th[0]))
	case "poisson":
		return sd.NewPoissonDistribution(ad.NewFloat64(th[0]))
	}
	return nil, fmt.Errorf("harness: unknown family %s", family)
}

// gradient of sum_k w_k log f(x_k; th)
func numGrad(family string, th, x, w []float64) []float64 {
	g := make([]float64, len(th))
	for k := range x {
		switch family {
		case "normal":
			mu, s := th[0], th[1]
			g[0] += w[k] * (x[k] - mu) / (s * s)
			g[1] += w[k] * (-1/s + (x[k]-mu)*(x[k]-mu)/(s*s*s))
		case "gamma":
			a, b := th[0], th[1]
			g[0] += w[k] * (math.Log(b) - digamma(a) + math.Log(x[k]))
			g[1] += w[k] * (a/b - x[k])
		case "exponential":
			g[0] += w[k] * (1/th[0] - x[k])
		case "poisson":
			g[0] += w[k] * (x[k]/th[0] - 1)
		}
	}
	return g
}

func runNumeric(c *vf.Ctx, cs *NumCase, budget int) (th []float64, err error) {
	err = guard(func() error {
		d, err := numPdf(cs.Family, cs.Init)
		if err != nil {
			return fmt.Errorf("harness-construct: %v", err)
		}
		e, err := se.NewNumericEstimator(d)
		if err != nil {
			return err
		}
		e.Method = cs.Method
		e.MaxIterations = budget
		x := ad.NewDenseFloat64Vector(append([]float64{}, cs.X...))
		var gamma ad.ConstVector
		if cs.G != nil {
			g := ad.NullDenseFloat64Vector(len(cs.G))
			for i, gi := range cs.G {
				g.At(i).SetFloat64(gammaAlph[gi])
			}
			gamma = g
		}
		if err := e.EstimateOnData(x, gamma, pool1); err != nil {
			return err
		}
		r, err := e.GetEstimate()
		if err != nil {
			return err
		}
		p := r.GetParameters()
		th = make([]float64, p.Dim())
		for i := range th {
			th[i] = p.At(i).GetFloat64()
		}
		return nil
	})
	return
}

func runNumCase(c *vf.Ctx, cs *NumCase, idx int64) {
	const eps = 1e-8
	const budget = 20
	rk := int64(len(cs.X))<<40 | idx&(1<<40-1)
	key := func(q, wh string) string {
		return fmt.Sprintf("numeric[%s,%s]|%s|%s", cs.Family, cs.Method, q, wh)
	}
	c.Eval(1)
	a, errA := runNumeric(c, cs, budget)
	if errA != nil {
		if errKind(errA) == "panic" {
			c.Violate(key("estimate", "panic"), fmt.Sprintf("numeric estimator panics: %v [init=%v data=%v weights=%v]", errA, cs.Init, cs.X, cs.G), rk, AnyCase{Num: cs})
		} else {
			c.Outcome("numeric:" + cs.Family + ":loud-failure")
		}
		return
	}
	b, errB := runNumeric(c, cs, 2*budget)
	same := errB == nil && len(a) == len(b)
	for i := range a {
		if same && a[i] != b[i] {
			same = false
		}
	}
	if !same {
		c.Outcome("numeric:" + cs.Family + ":budget-exhausted(no convergence claimed)")
		return
	}
	c.Nontrivial(1)
	w := make([]float64, len(cs.X))
	for i := range w {
		w[i] = 1
		if cs.G != nil {
			w[i] = []float64{1, 0.5, 0.25}[cs.G[i]]
		}
	}
	g := numGrad(cs.Family, a, cs.X, w)
	nrm := 0.0
	for _, v := range g {
		nrm += v * v
	}
	nrm = math.Sqrt(nrm) / float64(len(cs.X))
	if !(nrm <= 10*eps) {
		c.Violate(key("stationarity", "gradient-not-small"), fmt.Sprintf("estimator stopped (not by its iteration budget) at %v where the gradient of the mean weighted log-likelihood has norm %.3g (> 10*Epsilon=1e-7) [init=%v data=%v weights=%v]", a, nrm, cs.Init, cs.X, cs.G), rk, AnyCase{Num: cs})
		c.Outcome("numeric:" + cs.Family + ":not-stationary")
		return
	}
	c.Outcome("numeric:" + cs.Family + ":stationary")
}

func runNumericSweep(c *vf.Ctx, nmax int) {
	var idx int64
	type fam struct {
		name  string
		alph  []float64
		inits [][]float64
	}
	fams := []fam{
		{"normal", []float64{-1, 0, 0.5, 2}, [][]float64{{0, 1}, {1, 2}}},
		{"gamma", []float64{0.5, 1, 2, 4}, [][]float64{{1, 1}, {2, 0.5}}},
		{"exponential", []float64{0.5, 1, 2, 4}, [][]float64{{1}, {0.25}}},
		{"poisson", []float64{0, 1, 2, 5}, [][]float64{{1}, {3}}},
	}
	for _, f := range fams {
		for _, method := range []string{"newton", "bfgs"} {
			for _, init := range f.inits {
				for n := 1; n <= nmax; n++ {
					gs := [][]int{nil}
					if n <= 3 {
						gs = append(gs, tuples(n, 3)...)
					}
					for _, xi := range tuples(n, len(f.alph)) {
						// data sets as multisets (the objective is symmetric): ascending index tuples only
						asc := true
						for k := 1; k < n; k++ {
							if xi[k] < xi[k-1] {
								asc = false
							}
						}
						if !asc {
							continue
						}
						x := make([]float64, n)
						for k, v := range xi {
							x[k] = f.alph[v]
						}
						for _, g := range gs {
							idx++
							if !c.Mine(idx) {
								continue
							}
							cs := NumCase{Family: f.name, Method: method, Init: init, X: x, G: g}
							c.Guard("numeric", idx, AnyCase{Num: &cs})
							runNumCase(c, &cs, idx)
						}
					}
				}
			}
		}
	}
}
