package main

// Closed-form estimators: every data set x log-weight vector x configured bound, through
// Estimate (EstimateOnData) and through the batch interface (Initialize / NewObservation /
// GetEstimate).  Oracles: (1) the harness's exact weighted MLE within the bounds,
// (2) reference-free perturbation test with the harness's own log-likelihood.

import (
	"fmt"
	"math"
	"strings"

	ad "github.com/pbenner/autodiff"
	st "github.com/pbenner/autodiff/statistics"
	se "github.com/pbenner/autodiff/statistics/scalarEstimator"
	vd "github.com/pbenner/autodiff/statistics/vectorDistribution"
	ve "github.com/pbenner/autodiff/statistics/vectorEstimator"
	"github.com/pbenner/threadpool"

	"verif/mc/vf"
)

var gammaAlph = []float64{0, math.Log(0.5), math.Log(0.25)}

type EstCase struct {
	Family  string      `json:"family"`
	Variant string      `json:"variant"` // estimate | batch
	Conf    []float64   `json:"config"`  // normal: [sigmaMin]; exponential: [lambdaMax]; negbin: [r]; categorical: [K]; scalariid: [sigmaMin, n]
	X       [][]float64 `json:"data"`
	G       []int       `json:"log_weight_index"` // indexes into {0, log 1/2, log 1/4}; null = no weights (gamma nil)
	// common offset added to every log-weight (shift-invariance family; 0 = the plain cases)
	Shift float64 `json:"log_weight_shift,omitempty"`
	// the estimator runs as thread Pool.Caller of a pool of Pool.Threads threads (pool.go); all other
	// threads execute nothing, so every job of the estimator is executed by the calling thread
	Pool *PoolSpec `json:"pool,omitempty"`
}

func guard(f func() error) (err error) {
	defer func() {
		if r := recover(); r != nil {
			err = fmt.Errorf("PANIC: %v", r)
		}
	}()
	return f()
}

func errKind(e error) string {
	if strings.HasPrefix(e.Error(), "PANIC") {
		return "panic"
	}
	return "error"
}

var pool1 = threadpool.ThreadPool{}

func scalarEst(family string, conf []float64) (st.ScalarEstimator, st.ScalarBatchEstimator, error) {
	switch family {
	case "normal":
		e, err := se.NewNormalEstimator(0.25, 1.5, conf[0])
		return e, e, err
	case "exponential":
		e, err := se.NewExponentialEstimator(1.5, conf[0])
		return e, e, err
	case "poisson":
		e, err := se.NewPoissonEstimator(1.5)
		return e, e, err
	case "geometric":
		e, err := se.NewGeometricEstimator(0.3)
		return e, e, err
	case "categorical":
		th := make([]float64, int(conf[0]))
		for i := range th {
			th[i] = 1 / conf[0]
		}
		e, err := se.NewCategoricalEstimator(th)
		return e, e, err
	case "negbin":
		e, err := se.NewNegativeBinomialEstimator(conf[0], 0.3)
		return e, e, err
	}
	return nil, nil, fmt.Errorf("harness: unknown scalar family %s", family)
}

func pdfParams(family string, d interface{}) ([]float64, error) {
	vec := func(v ad.Vector) []float64 {
		r := make([]float64, v.Dim())
		for i := range r {
			r[i] = v.At(i).GetFloat64()
		}
		return r
	}
	switch family {
	case "normal", "exponential", "poisson", "geometric":
		return vec(d.(st.ScalarPdf).GetParameters()), nil
	case "categorical":
		r := vec(d.(st.ScalarPdf).GetParameters())
		for i := range r {
			r[i] = math.Exp(r[i])
		}
		return r, nil
	case "negbin":
		return vec(d.(st.ScalarPdf).GetParameters())[1:], nil
	case "vnormal":
		n := d.(*vd.NormalDistribution)
		return []float64{n.Mu.At(0).GetFloat64(), n.Mu.At(1).GetFloat64(), n.Sigma.At(0, 0).GetFloat64(), n.Sigma.At(0, 1).GetFloat64(), n.Sigma.At(1, 1).GetFloat64(), n.Sigma.At(1, 0).GetFloat64()}, nil
	case "scalarid":
		s := d.(*vd.ScalarId)
		return append(vec(s.Distributions[0].GetParameters()), vec(s.Distributions[1].GetParameters())...), nil
	case "scalariid":
		s := d.(*vd.ScalarIid)
		return vec(s.Distribution.GetParameters()), nil
	}
	return nil, fmt.Errorf("harness: unknown family %s", family)
}

func (cs *EstCase) weights() (ad.ConstVector, []float64) {
	w := make([]float64, len(cs.X))
	if cs.G == nil {
		for i := range w {
			w[i] = 1
		}
		return nil, w
	}
	g := ad.NullDenseFloat64Vector(len(cs.G))
	for i, gi := range cs.G {
		g.At(i).SetFloat64(gammaAlph[gi] + cs.Shift)
		if i < len(w) {
			w[i] = []float64{1, 0.5, 0.25}[gi]
		}
	}
	return g, w
}

// libEstimate runs the library and returns the estimated parameters
func libEstimate(cs *EstCase) (th []float64, err error) {
	err = guard(func() error {
		if cs.Pool != nil && cs.Pool.Obs != nil {
			return libEstimateSplit(cs, &th)
		}
		return runOnPool(cs.Pool, nil, func(p threadpool.ThreadPool) error { return libEstimateOn(cs, p, &th) })
	})
	return
}

// libEstimateOn: the estimator of the case with pool value p (executed by the thread p belongs to)
func libEstimateOn(cs *EstCase, p threadpool.ThreadPool, thp *[]float64) (err error) {
	{
		th := *thp
		defer func() { *thp = th }()
		gamma, _ := cs.weights()
		gk := func(k int) ad.ConstScalar {
			if gamma == nil {
				return nil
			}
			return ad.ConstFloat64(gamma.ConstAt(k).GetFloat64())
		}
		switch cs.Family {
		case "normal", "exponential", "poisson", "geometric", "categorical", "negbin":
			e, b, err := scalarEst(cs.Family, cs.Conf)
			if err != nil {
				return fmt.Errorf("harness-construct: %v", err)
			}
			x := ad.NullDenseFloat64Vector(len(cs.X))
			for k := range cs.X {
				x.At(k).SetFloat64(cs.X[k][0])
			}
			var d st.ScalarPdf
			if cs.Variant == "batch" {
				if err := b.Initialize(p); err != nil {
					return err
				}
				for k := range cs.X {
					if err := b.NewObservation(ad.ConstFloat64(cs.X[k][0]), gk(k), p); err != nil {
						return err
					}
				}
				if d, err = b.GetEstimate(); err != nil {
					return err
				}
			} else {
				if err := e.EstimateOnData(x, gamma, p); err != nil {
					return err
				}
				if d, err = e.GetEstimate(); err != nil {
					return err
				}
			}
			th, err = pdfParams(cs.Family, d)
			return err
		}
		// vector families
		xs := make([]ad.ConstVector, len(cs.X))
		for k := range cs.X {
			xs[k] = ad.NewDenseFloat64Vector(append([]float64{}, cs.X[k]...))
		}
		var e st.VectorEstimator
		var b st.VectorBatchEstimator
		switch cs.Family {
		case "vnormal":
			n, err := ve.NewNormalEstimator([]float64{0, 0}, []float64{1, 0, 0, 1}, cs.Conf[0])
			if err != nil {
				return fmt.Errorf("harness-construct: %v", err)
			}
			e, b = n, n
		case "scalarid":
			e1, _, err := scalarEst("normal", cs.Conf)
			if err != nil {
				return err
			}
			e2, _, err := scalarEst("poisson", nil)
			if err != nil {
				return err
			}
			if cs.Variant == "batch" {
				bb, err := ve.NewScalarBatchId(e1.(st.ScalarBatchEstimator), e2.(st.ScalarBatchEstimator))
				if err != nil {
					return err
				}
				b = bb
			} else {
				ee, err := ve.NewScalarId(e1, e2)
				if err != nil {
					return err
				}
				e = ee
			}
		case "scalariid":
			e1, _, err := scalarEst("normal", cs.Conf)
			if err != nil {
				return err
			}
			ee, err := ve.NewScalarIid(e1, int(cs.Conf[1]))
			if err != nil {
				return err
			}
			e = ee
		default:
			return fmt.Errorf("harness: unknown family %s", cs.Family)
		}
		var d st.VectorPdf
		var err error
		if cs.Variant == "batch" {
			if err := b.Initialize(p); err != nil {
				return err
			}
			for k := range xs {
				if err := b.NewObservation(xs[k], gk(k), p); err != nil {
					return err
				}
			}
			if d, err = b.GetEstimate(); err != nil {
				return err
			}
		} else {
			if err := e.EstimateOnData(xs, gamma, p); err != nil {
				return err
			}
			if d, err = e.GetEstimate(); err != nil {
				return err
			}
		}
		th, err = pdfParams(cs.Family, d)
		return err
	}
}

// libEstimateSplit: batch interface, NewObservation for position k executed by thread Pool.Obs[k]
func libEstimateSplit(cs *EstCase, thp *[]float64) error {
	if cs.Variant != "batch" || len(cs.Pool.Obs) != len(cs.X) {
		return fmt.Errorf("harness: observation->thread assignment needs the batch interface and one thread per observation")
	}
	gamma, _ := cs.weights()
	gk := func(k int) ad.ConstScalar {
		if gamma == nil {
			return nil
		}
		return ad.ConstFloat64(gamma.ConstAt(k).GetFloat64())
	}
	switch cs.Family {
	case "normal", "exponential", "poisson", "geometric", "categorical", "negbin":
		_, b, err := scalarEst(cs.Family, cs.Conf)
		if err != nil {
			return fmt.Errorf("harness-construct: %v", err)
		}
		return runSplit(cs.Pool, b.Initialize,
			func(k int, p threadpool.ThreadPool) error {
				return b.NewObservation(ad.ConstFloat64(cs.X[k][0]), gk(k), p)
			},
			func() error {
				d, err := b.GetEstimate()
				if err != nil {
					return err
				}
				*thp, err = pdfParams(cs.Family, d)
				return err
			})
	}
	var b st.VectorBatchEstimator
	switch cs.Family {
	case "vnormal":
		n, err := ve.NewNormalEstimator([]float64{0, 0}, []float64{1, 0, 0, 1}, cs.Conf[0])
		if err != nil {
			return fmt.Errorf("harness-construct: %v", err)
		}
		b = n
	case "scalarid":
		e1, _, err := scalarEst("normal", cs.Conf)
		if err != nil {
			return err
		}
		e2, _, err := scalarEst("poisson", nil)
		if err != nil {
			return err
		}
		bb, err := ve.NewScalarBatchId(e1.(st.ScalarBatchEstimator), e2.(st.ScalarBatchEstimator))
		if err != nil {
			return err
		}
		b = bb
	default:
		return fmt.Errorf("harness: family %s has no batch interface", cs.Family)
	}
	return runSplit(cs.Pool, b.Initialize,
		func(k int, p threadpool.ThreadPool) error {
			return b.NewObservation(ad.NewDenseFloat64Vector(append([]float64{}, cs.X[k]...)), gk(k), p)
		},
		func() error {
			d, err := b.GetEstimate()
			if err != nil {
				return err
			}
			*thp, err = pdfParams(cs.Family, d)
			return err
		})
}

func ekey(cs *EstCase, quantity, wh string) string {
	g := "weights=nil"
	if cs.G != nil {
		g = "weights=uniform"
		for _, v := range cs.G {
			if v != cs.G[0] {
				g = "weights=mixed"
			}
		}
	}
	conf := cs.Conf
	if cs.Family == "scalariid" {
		conf = conf[:1] // the dimension is part of the witness, not of the signature
		if len(cs.X) > 1 {
			g += ",lengths=" + lengthProfile(cs.X)
		}
	}
	variant := cs.Variant
	if cs.Pool != nil {
		variant += cs.Pool.label()
	}
	return fmt.Sprintf("%s.%s|conf=%v,%s|%s|%s", cs.Family, variant, conf, g, quantity, wh)
}

// lengthProfile classifies the lengths of the observations of a data set:
// equal | increasing | decreasing (weakly monotone, not all equal) | mixed
func lengthProfile(X [][]float64) string {
	up, down := true, true
	for i := 1; i < len(X); i++ {
		if len(X[i]) < len(X[i-1]) {
			up = false
		}
		if len(X[i]) > len(X[i-1]) {
			down = false
		}
	}
	switch {
	case up && down:
		return "equal"
	case up:
		return "increasing"
	case down:
		return "decreasing"
	}
	return "mixed"
}

func runEstCase(c *vf.Ctx, cs *EstCase, idx int64) {
	rk := int64(len(cs.X))<<40 | idx&(1<<40-1)
	if cs.G != nil {
		rk |= 1 << 50
	}
	viol := func(quantity, wh, msg string) {
		c.Violate(ekey(cs, quantity, wh), fmt.Sprintf("%s %s estimator: %s [data=%v log-weights=%v conf=%v]", cs.Family, cs.Variant, msg, cs.X, cs.gammaValues(), cs.Conf), rk, AnyCase{Est: cs})
	}
	_, w := cs.weights()
	ref, status := mle(cs.Family, cs.Conf, cs.X, w)
	c.Eval(1)
	distinct := false
	for _, x := range cs.X {
		if fmt.Sprint(x) != fmt.Sprint(cs.X[0]) {
			distinct = true
		}
	}
	if distinct {
		c.Nontrivial(1)
	}
	if cs.Pool != nil && cs.Pool.Obs != nil {
		c.Count("closed_form_cases_observations_split_over_threads", 1)
	}
	th, err := libEstimate(cs)
	if err != nil {
		switch {
		case strings.HasPrefix(err.Error(), "harness"):
			c.HarnessError(err.Error())
		case errKind(err) == "panic":
			viol("estimate", "panic", err.Error())
		case strings.HasPrefix(status, "boundary"):
			c.Outcome(cs.Family + ":loud-failure:" + status)
		default:
			viol("estimate", "error-on-regular-data", "the weighted MLE exists ("+fmt.Sprint(ref)+") but the estimator fails: "+err.Error())
		}
		return
	}
	for _, v := range th {
		if math.IsNaN(v) || math.IsInf(v, 0) {
			viol("estimate", "not-finite", fmt.Sprintf("estimated parameters %v", th))
			return
		}
	}
	if cs.Family == "vnormal" {
		if !(math.Abs(th[3]-th[5]) <= 1e-12*math.Max(1, math.Abs(th[3]))) {
			viol("estimate", "asymmetric-covariance", fmt.Sprintf("estimated covariance has Sigma01=%v Sigma10=%v", th[3], th[5]))
		}
		th = th[:5]
	}
	if strings.HasPrefix(status, "boundary") {
		// no admissible maximiser exists: nothing to compare with; the box is still respected?
		c.Outcome(cs.Family + ":estimate-on-" + status)
		return
	}
	// ---- (1) against the exact MLE
	if status == "ok" {
		for i := range ref {
			if !(math.Abs(th[i]-ref[i]) <= 1e-9*math.Max(1, math.Abs(ref[i]))) {
				viol("mle", fmt.Sprintf("param%d", i), fmt.Sprintf("estimate %v, exact weighted MLE within the bounds %v", th, ref))
				break
			}
		}
	}
	// ---- (2) perturbation test
	L0 := wloglik(cs.Family, cs.Conf, th, cs.X, w)
	if math.IsNaN(L0) || math.IsInf(L0, -1) {
		viol("loglik-at-estimate", "not-finite", fmt.Sprintf("weighted log-likelihood at the estimate %v is %v", th, L0))
		return
	}
	bad := false
	for _, delta := range []float64{1e-3, 1e-2} {
		for _, t := range neighbours(cs.Family, cs.Conf, th, delta) {
			L1 := wloglik(cs.Family, cs.Conf, t, cs.X, w)
			if L1 > L0+1e-12*math.Max(1, math.Abs(L0)) && !bad {
				bad = true
				viol("perturbation", status, fmt.Sprintf("log-likelihood %.15g at the estimate %v, but %.15g at the admissible point %v", L0, th, L1, t))
			}
		}
	}
	c.Outcome(cs.Family + ":" + status)
	if idx%1009 == 7 && distinct {
		c.Sample(cs)
	}
}

func (cs *EstCase) gammaValues() interface{} {
	if cs.G == nil {
		return nil
	}
	r := make([]float64, len(cs.G))
	for i, g := range cs.G {
		r[i] = gammaAlph[g] + cs.Shift
	}
	return r
}

/* enumeration
 * -------------------------------------------------------------------------- */

func tuples(n, k int) [][]int {
	out := [][]int{{}}
	for i := 0; i < n; i++ {
		var nx [][]int
		for _, t := range out {
			for v := 0; v < k; v++ {
				nx = append(nx, append(append([]int{}, t...), v))
			}
		}
		out = nx
	}
	return out
}

type famSpec struct {
	family string
	confs  [][]float64
	alph   [][]float64 // observation alphabet
	batch  bool
}

func closedFamilies() []famSpec {
	s := func(vs ...float64) [][]float64 {
		r := make([][]float64, len(vs))
		for i, v := range vs {
			r[i] = []float64{v}
		}
		return r
	}
	return []famSpec{
		{"normal", [][]float64{{1e-8}, {0.5}}, s(-1, 0, 0.5, 2), true},
		{"exponential", [][]float64{{1e8}, {2}}, s(0, 0.5, 1, 4), true},
		{"poisson", [][]float64{nil}, s(0, 1, 2, 5), true},
		{"geometric", [][]float64{nil}, s(0, 1, 2, 5), true},
		{"categorical", [][]float64{{3}}, s(0, 1, 2), true},
		{"negbin", [][]float64{{1}, {2.5}}, s(0, 1, 2, 5), true},
		{"vnormal", [][]float64{{1e-8}, {0.5}}, [][]float64{{0, 0}, {1, 0}, {0, 1}, {2, 1}}, true},
		{"scalarid", [][]float64{{1e-8}, {0.5}}, [][]float64{{0, 0}, {2, 1}, {-1, 1}, {0.5, 3}}, true},
	}
}

func runClosed(c *vf.Ctx, nmax int) {
	var idx int64
	each := func(cs EstCase) {
		idx++
		if c.Mine(idx) {
			c.Guard("closed-form", idx, AnyCase{Est: &cs})
			runEstCase(c, &cs, idx)
		}
	}
	for _, f := range closedFamilies() {
		for _, conf := range f.confs {
			for n := 1; n <= nmax; n++ {
				gs := append([][]int{nil}, tuples(n, 3)...)
				for _, xi := range tuples(n, len(f.alph)) {
					X := make([][]float64, n)
					for k, v := range xi {
						X[k] = f.alph[v]
					}
					for _, g := range gs {
						each(EstCase{Family: f.family, Variant: "estimate", Conf: conf, X: X, G: g})
						if f.batch {
							each(EstCase{Family: f.family, Variant: "batch", Conf: conf, X: X, G: g})
						}
					}
				}
			}
		}
	}
	runShift(c, &idx)
	// pools of 2 and 3 threads, the estimator running as thread c = 0..T-1 (every job of the
	// estimator is executed by the calling thread; for c != 0 the accumulators of thread 0 stay
	// untouched): every family x every data set of size 1..3 x every weight vector
	for T := 2; T <= 3; T++ {
		for cl := 0; cl < T; cl++ {
			for _, f := range closedFamilies() {
				for _, conf := range f.confs {
					if f.family == "vnormal" && conf[0] > 1e-8 {
						// the active variance bound of the vector normal is an open finding of the
						// sequential cases already (covariances kept); nothing new to learn here
						continue
					}
					for n := 1; n <= 3; n++ {
						gs := append([][]int{nil}, tuples(n, 3)...)
						for _, xi := range tuples(n, len(f.alph)) {
							X := make([][]float64, n)
							for k, v := range xi {
								X[k] = f.alph[v]
							}
							for _, g := range gs {
								each(EstCase{Family: f.family, Variant: "estimate", Conf: conf, X: X, G: g, Pool: &PoolSpec{Threads: T, Caller: cl}})
								if f.batch {
									each(EstCase{Family: f.family, Variant: "batch", Conf: conf, X: X, G: g, Pool: &PoolSpec{Threads: T, Caller: cl}})
								}
							}
						}
					}
				}
			}
		}
	}
	// the observations SPLIT over the threads (batch interface; NewObservation for position i
	// with the pool value of thread a[i], pool.go runSplit): every assignment a of the positions
	// to the T threads that uses at least two threads, T = 2 (thorough also 3), data sets of
	// size 2..3 (thorough T=2 also 4) x every weight vector; calling thread 0 (thorough every thread)
	maxT := 2
	if nmax > 4 {
		maxT = 3
	}
	for T := 2; T <= maxT; T++ {
		nSplit := 3
		if nmax > 4 && T == 2 {
			nSplit = 4
		}
		callers := []int{0}
		if nmax > 4 {
			callers = callers[:0]
			for cl := 0; cl < T; cl++ {
				callers = append(callers, cl)
			}
		}
		for _, f := range closedFamilies() {
			if !f.batch {
				continue
			}
			for _, conf := range f.confs {
				if f.family == "vnormal" && conf[0] > 1e-8 {
					continue // as above
				}
				for n := 2; n <= nSplit; n++ {
					var splits [][]int
					for _, a := range tuples(n, T) {
						for _, t := range a {
							if t != a[0] {
								splits = append(splits, a)
								break
							}
						}
					}
					gs := append([][]int{nil}, tuples(n, 3)...)
					for _, xi := range tuples(n, len(f.alph)) {
						X := make([][]float64, n)
						for k, v := range xi {
							X[k] = f.alph[v]
						}
						for _, g := range gs {
							for _, a := range splits {
								for _, cl := range callers {
									each(EstCase{Family: f.family, Variant: "batch", Conf: conf, X: X, G: g, Pool: &PoolSpec{Threads: T, Caller: cl, Obs: a}})
								}
							}
						}
					}
				}
			}
		}
	}
	// ScalarIid: (a) one observation vector of dimension d, estimator dimension d,
	// (b) several vectors with estimator dimension -1 (variable), unweighted
	vals := []float64{-1, 0, 0.5, 2}
	for _, smin := range []float64{1e-8, 0.5} {
		for d := 1; d <= nmax; d++ {
			for _, xi := range tuples(d, len(vals)) {
				x := make([]float64, d)
				for k, v := range xi {
					x[k] = vals[v]
				}
				for _, g := range [][]int{nil, {0}, {1}} {
					each(EstCase{Family: "scalariid", Variant: "estimate", Conf: []float64{smin, float64(d)}, X: [][]float64{x}, G: g})
				}
			}
		}
		for n := 2; n <= 3; n++ {
			for _, xi := range tuples(n, len(vals)*len(vals)) {
				X := make([][]float64, n)
				for k, v := range xi {
					X[k] = []float64{vals[v/len(vals)], vals[v%len(vals)]}
				}
				each(EstCase{Family: "scalariid", Variant: "estimate", Conf: []float64{smin, -1}, X: X, G: nil})
			}
		}
		// (c) observations of DIFFERENT lengths (estimator dimension -1): every observation is
		// the prefix of length 1..3 of one of the template vectors, i.e. every length profile
		// (equal, increasing, decreasing, mixed) of 1..4 observations, crossed with every
		// log-weight vector ({nil} u {0,log 1/2,log 1/4}^n: nil, uniform and mixed weights)
		tmpl := raggedTemplates[:2]
		if nmax > 4 {
			tmpl = raggedTemplates
		}
		var obs [][]float64
		for _, t := range tmpl {
			for l := 1; l <= len(t); l++ {
				obs = append(obs, t[:l])
			}
		}
		for n := 1; n <= 4; n++ {
			gs := append([][]int{nil}, tuples(n, 3)...)
			for _, xi := range tuples(n, len(obs)) {
				X := make([][]float64, n)
				for k, v := range xi {
					X[k] = obs[v]
				}
				for _, g := range gs {
					each(EstCase{Family: "scalariid", Variant: "estimate", Conf: []float64{smin, -1}, X: X, G: g})
				}
			}
		}
	}
}

// template vectors of the ragged ScalarIid data sets (values of the family's 4-value alphabet)
var raggedTemplates = [][]float64{{-1, 0.5, 2}, {2, 0, 0}, {0.5, -1, -1}}

/* invariance under a common offset of the log-weights
 * -------------------------------------------------------------------------- */

// Log-weights are defined up to a common constant: the estimators work on the log scale
// (poisson, exponential, geometric, categorical, negative binomial accumulate with LogAdd;
// the normal estimators subtract the maximal log-weight in Estimate), and the callers inside
// the library hand over log-responsibilities of an E-step, which are of arbitrary common
// magnitude for a component far away from all observations (and get an outer
// log-responsibility added in nested EM).  Demanded for every weighted estimator, through
// Estimate/EstimateOnData and through the batch interface: the same data with every
// log-weight shifted by c gives the estimate of the unshifted weights within rounding.
var shiftLattice = []float64{-745, -700, -300, 300, 700}

func runShiftCase(c *vf.Ctx, cs *EstCase, idx int64) {
	rk := int64(len(cs.X))<<40 | idx&(1<<40-1)
	key := func(wh string) string {
		conf := cs.Conf
		if cs.Family == "scalariid" {
			conf = conf[:1]
		}
		return fmt.Sprintf("%s.%s|conf=%v|log-weight-shift=%+g|shift-invariance|%s", cs.Family, cs.Variant, conf, cs.Shift, wh)
	}
	viol := func(wh, msg string) {
		c.Violate(key(wh), fmt.Sprintf("%s %s estimator: %s [data=%v log-weights=%v conf=%v]", cs.Family, cs.Variant, msg, cs.X, cs.gammaValues(), cs.Conf), rk, AnyCase{Est: cs})
	}
	c.Eval(1)
	// data for which the weighted likelihood has no maximiser at admissible parameters
	// (all-zero Poisson data, singular sample covariance): what the estimator returns or
	// whether it fails there is decided by rounding, nothing to compare
	_, w := cs.weights()
	if _, status := mle(cs.Family, cs.Conf, cs.X, w); strings.HasPrefix(status, "boundary") {
		c.Outcome(cs.Family + ":shift:" + status)
		return
	}
	base := *cs
	base.Shift = 0
	th0, err0 := libEstimate(&base)
	th1, err1 := libEstimate(cs)
	for _, e := range []error{err0, err1} {
		if e != nil && strings.HasPrefix(e.Error(), "harness") {
			c.HarnessError(e.Error())
			return
		}
	}
	if err0 != nil {
		// no estimate for the unshifted weights (boundary data, or a finding of the plain cases)
		c.Outcome(cs.Family + ":shift:unshifted-fails")
		return
	}
	if err1 != nil {
		wh := "error"
		if errKind(err1) == "panic" {
			wh = "panic"
		}
		viol(wh, fmt.Sprintf("with every log-weight shifted by %+g the estimator fails (%v); unshifted it returns %v", cs.Shift, err1, th0))
		return
	}
	for i := range th0 {
		if i >= len(th1) || !(math.Abs(th1[i]-th0[i]) <= 1e-9*math.Max(1, math.Abs(th0[i]))) {
			viol("estimate-differs", fmt.Sprintf("with every log-weight shifted by %+g the estimate is %v; unshifted %v", cs.Shift, th1, th0))
			return
		}
	}
	distinct := false
	for _, x := range cs.X {
		if fmt.Sprint(x) != fmt.Sprint(cs.X[0]) {
			distinct = true
		}
	}
	if distinct {
		c.Nontrivial(1)
	}
	c.Outcome(cs.Family + ":shift:invariant")
}

func runShift(c *vf.Ctx, idx *int64) {
	each := func(cs EstCase) {
		*idx++
		if c.Mine(*idx) {
			c.Guard("closed-form-shift", *idx, AnyCase{Est: &cs})
			runShiftCase(c, &cs, *idx)
		}
	}
	for _, f := range closedFamilies() {
		for _, conf := range f.confs {
			for n := 1; n <= 3; n++ {
				for _, xi := range tuples(n, len(f.alph)) {
					X := make([][]float64, n)
					for k, v := range xi {
						X[k] = f.alph[v]
					}
					for _, g := range tuples(n, 3) {
						for _, sh := range shiftLattice {
							each(EstCase{Family: f.family, Variant: "estimate", Conf: conf, X: X, G: g, Shift: sh})
							if f.batch {
								each(EstCase{Family: f.family, Variant: "batch", Conf: conf, X: X, G: g, Shift: sh})
							}
						}
					}
				}
			}
		}
	}
	vals := []float64{-1, 0, 0.5, 2}
	for _, smin := range []float64{1e-8, 0.5} {
		for d := 1; d <= 3; d++ {
			for _, xi := range tuples(d, len(vals)) {
				x := make([]float64, d)
				for k, v := range xi {
					x[k] = vals[v]
				}
				for _, sh := range shiftLattice {
					each(EstCase{Family: "scalariid", Variant: "estimate", Conf: []float64{smin, float64(d)}, X: [][]float64{x}, G: []int{1}, Shift: sh})
				}
			}
		}
	}
}
