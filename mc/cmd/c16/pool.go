package main

// EM under thread pools of size 2 and 3 with a job -> thread assignment CHOSEN by the harness
// (added after the third seeded-change round).
//
// The harness is built against the real github.com/pbenner/threadpool (the controlled pool of
// C17 is overlaid for C17 only), so the assignment is forced through the real pool's own rules,
// without any timing:
//
//   - the T-1 worker goroutines of threadpool.New(T, 64) are occupied, one each, by a
//     long-lived "helper" job of the harness; a helper keeps the pool value ThreadPool{t}
//     it was started with and executes commands of the harness: run a function as thread t,
//     or serve jobs as thread t by calling Wait(g) (Wait makes the calling thread a worker:
//     it takes jobs from the FIFO queue while group g is unfinished).  Thread 0 is a
//     goroutine of the harness with the pool value returned by New.  A thread that is not
//     commanded takes no job, so at any moment the harness knows which single thread can
//     take the job at the head of the queue.
//   - mode "caller": the whole estimation runs as thread c (c = 0..T-1), all other threads
//     stay parked: every job of every phase (EvaluateLogPdf, E-step, M-step of the
//     components, nested estimators) is executed by thread c; for c != 0 thread 0, whose
//     accumulators several merge loops treat specially, never executes anything.
//   - mode "assigned": additionally every E-step (generic.Mixture.EmStep resp.
//     generic.Hmm.BaumWelchStep) gets a complete assignment a: job k -> thread a[k].  The
//     E-step is entered through a core that repeats the estimator's Swap/Step/Emissions
//     verbatim over a data set wrapper whose only addition is a gate at the first access of a
//     job to its data (LogPdf of the first observation of the chunk resp. GetRecord).  Before
//     the step the calling thread queues a blocker job for itself; it therefore parks as soon
//     as it enters the library's Wait, with all jobs of the step queued behind.  Then for
//     k = 0,1,..: thread a[k] is let go (helper: serve; caller: leave the blocker; a thread
//     held at the gate of its previous job: open that gate), takes job k - the head of the
//     queue - and is held at gate k.  Afterwards all gates are opened.  Every such execution
//     is one the real pool can produce.
//
// Library code runs only below harness frames (helper loops), so a panic inside a job is
// caught and reported for the running case.  A Wait issued by a helper clears the job group's
// error like every Wait does; an error returned by a job is therefore collected from the
// helpers' Wait calls as well and reported as the error of the run.

import (
	"fmt"
	"math"
	"sync"
	"sync/atomic"

	ad "github.com/pbenner/autodiff"
	st "github.com/pbenner/autodiff/statistics"
	"github.com/pbenner/autodiff/statistics/generic"
	sd "github.com/pbenner/autodiff/statistics/scalarDistribution"
	se "github.com/pbenner/autodiff/statistics/scalarEstimator"
	ve "github.com/pbenner/autodiff/statistics/vectorEstimator"
	"github.com/pbenner/threadpool"
)

type PoolSpec struct {
	Threads int `json:"threads"`
	Caller  int `json:"calling_thread"`
	// E-step number s (0,1,..) uses Assign[s % len(Assign)]: job k of that step is executed by
	// thread Assign[.][k]; nil: mode "caller" (every job on the calling thread)
	Assign [][]int `json:"e_step_job_to_thread,omitempty"`
	// closed-form estimators, batch interface: NewObservation for data position i is called with
	// the pool value of thread Obs[i] (Initialize and GetEstimate by the calling thread)
	Obs []int `json:"observation_to_thread,omitempty"`
}

func (ps *PoolSpec) label() string {
	if ps.Obs != nil {
		return fmt.Sprintf(",pool[threads=%d,observations-split-over-threads]", ps.Threads)
	}
	if ps.Assign == nil {
		return fmt.Sprintf(",pool[threads=%d,all-jobs-on-calling-thread]", ps.Threads)
	}
	return fmt.Sprintf(",pool[threads=%d,assigned-e-step-jobs]", ps.Threads)
}

/* scheduler
 * -------------------------------------------------------------------------- */

const jobErrorLost = "job error seen only by a helper thread: "

type cmdT struct {
	run   func(p threadpool.ThreadPool) error
	serve int // job group to serve (run == nil)
}

type helloT struct {
	id int
	p  threadpool.ThreadPool
}

type sched struct {
	T    int
	pool threadpool.ThreadPool
	cmd  []chan cmdT
	back chan int
	done chan error

	abortCh   chan struct{}
	abortOnce sync.Once
	mu        sync.Mutex
	panicMsg  string
	jobErr    error
	fail      string

	// current E-step
	armed    int32
	gateCh   chan int
	gateRel  []chan struct{}
	bcParked chan struct{}
	bcRel    chan struct{}
	dDone    chan struct{}

	// measured
	eSteps, eStepsThread0Idle, eStepsSplit int64
}

func newSched(T int) *sched {
	s := &sched{T: T, pool: threadpool.New(T, 64)}
	s.cmd = make([]chan cmdT, T)
	for t := range s.cmd {
		s.cmd[t] = make(chan cmdT, 1)
	}
	s.back = make(chan int, T)
	s.done = make(chan error, 1)
	s.abortCh = make(chan struct{})
	s.gateCh = make(chan int)
	hello := make(chan helloT, T)
	g := s.pool.NewJobGroup()
	for i := 1; i < T; i++ {
		s.pool.AddJob(g, func(p threadpool.ThreadPool, erf func() error) error {
			id := p.GetThreadId()
			hello <- helloT{id, p}
			s.helper(id, p)
			return nil
		})
	}
	seen := map[int]bool{}
	for i := 1; i < T; i++ {
		h := <-hello
		if h.id < 1 || h.id >= T || seen[h.id] {
			s.setFail(fmt.Sprintf("helper job started on thread %d twice or out of range", h.id))
		}
		seen[h.id] = true
	}
	go s.helper(0, s.pool)
	return s
}

func (s *sched) close() {
	for t := range s.cmd {
		close(s.cmd[t])
	}
	s.pool.Stop()
}

func (s *sched) setFail(msg string) {
	s.mu.Lock()
	if s.fail == "" {
		s.fail = msg
	}
	s.mu.Unlock()
}

func (s *sched) abort(panicMsg string) {
	s.mu.Lock()
	if panicMsg != "" && s.panicMsg == "" {
		s.panicMsg = panicMsg
	}
	s.mu.Unlock()
	s.abortOnce.Do(func() { close(s.abortCh) })
}

func (s *sched) aborted() bool {
	select {
	case <-s.abortCh:
		return true
	default:
		return false
	}
}

func (s *sched) protect(f func() error) (err error) {
	defer func() {
		if r := recover(); r != nil {
			err = fmt.Errorf("PANIC: %v", r)
			s.abort(err.Error())
		}
	}()
	return f()
}

func (s *sched) helper(t int, p threadpool.ThreadPool) {
	for c := range s.cmd[t] {
		if c.run != nil {
			s.done <- s.protect(func() error { return c.run(p) })
			continue
		}
		if err := s.protect(func() error { return p.Wait(c.serve) }); err != nil {
			s.mu.Lock()
			if s.jobErr == nil {
				s.jobErr = err
			}
			s.mu.Unlock()
		}
		s.back <- t
	}
}

// run executes f as thread c and returns its error (or the panic / job error observed on any thread)
func (s *sched) run(c int, f func(p threadpool.ThreadPool) error) error {
	s.cmd[c] <- cmdT{run: f}
	err := <-s.done
	s.mu.Lock()
	defer s.mu.Unlock()
	switch {
	case s.panicMsg != "":
		return fmt.Errorf("%s", s.panicMsg)
	case s.fail != "":
		return fmt.Errorf("harness: pool scheduler: %s", s.fail)
	case err == nil && s.jobErr != nil:
		// the error of a job reached a helper's Wait (which clears it) before the library's own
		// Wait read it: an artefact of the forced assignment; what the library computed
		// afterwards is meaningless
		return fmt.Errorf("%s%v", jobErrorLost, s.jobErr)
	}
	return err
}

// gate is called by the data set wrappers from inside job k of the current E-step
func (s *sched) gate(k int) {
	if s == nil || atomic.LoadInt32(&s.armed) == 0 {
		return
	}
	if k >= len(s.gateRel) {
		s.setFail(fmt.Sprintf("E-step job %d, but the assignment has %d jobs", k, len(s.gateRel)))
		s.abort("")
		return
	}
	select {
	case s.gateCh <- k:
	case <-s.abortCh:
		return
	}
	select {
	case <-s.gateRel[k]:
	case <-s.abortCh:
	}
}

// arm is called by the thread that is about to enter the E-step (pool value p)
func (s *sched) arm(p threadpool.ThreadPool, assign []int) {
	if s.aborted() {
		return
	}
	s.gateRel = make([]chan struct{}, len(assign))
	for k := range s.gateRel {
		s.gateRel[k] = make(chan struct{})
	}
	s.bcParked, s.bcRel, s.dDone = make(chan struct{}), make(chan struct{}), make(chan struct{})
	parked, rel := s.bcParked, s.bcRel
	gBc := p.NewJobGroup()
	p.AddJob(gBc, func(q threadpool.ThreadPool, erf func() error) error {
		select {
		case parked <- struct{}{}:
		case <-s.abortCh:
			return nil
		}
		select {
		case <-rel:
		case <-s.abortCh:
		}
		return nil
	})
	atomic.StoreInt32(&s.armed, 1)
	s.eSteps++
	idle0, split := true, false
	for _, t := range assign {
		if t == 0 {
			idle0 = false
		}
		if t != assign[0] {
			split = true
		}
	}
	if idle0 {
		s.eStepsThread0Idle++
	}
	if split {
		s.eStepsSplit++
	}
	// the library's next NewJobGroup() returns gBc+1 (no other thread is running)
	go s.direct(p.GetThreadId(), assign, gBc+1)
}

func (s *sched) disarm() {
	if atomic.LoadInt32(&s.armed) == 0 {
		return
	}
	select {
	case <-s.dDone:
	case <-s.abortCh:
	}
	atomic.StoreInt32(&s.armed, 0)
}

func (s *sched) direct(c int, a []int, gE int) {
	defer close(s.dDone)
	select {
	case <-s.bcParked:
	case <-s.abortCh:
		return
	}
	const idle, inBlocker = -1, -2
	state := make([]int, s.T)
	for t := range state {
		state[t] = idle
	}
	state[c] = inBlocker
	served := 0
	for k, t := range a {
		switch {
		case state[t] >= 0:
			close(s.gateRel[state[t]])
		case state[t] == inBlocker:
			close(s.bcRel)
		default:
			s.cmd[t] <- cmdT{serve: gE}
			served++
		}
		select {
		case got := <-s.gateCh:
			if got != k {
				s.setFail(fmt.Sprintf("E-step job %d was taken where job %d was expected", got, k))
				s.abort("")
				return
			}
		case <-s.back:
			s.setFail(fmt.Sprintf("a helper returned from Wait without taking E-step job %d", k))
			s.abort("")
			return
		case <-s.abortCh:
			return
		}
		state[t] = k
	}
	for t := range state {
		if state[t] >= 0 {
			close(s.gateRel[state[t]])
		}
	}
	if state[c] == inBlocker {
		close(s.bcRel)
	}
	for ; served > 0; served-- {
		select {
		case <-s.back:
		case <-s.abortCh:
			return
		}
	}
}

// rangeJobStarts: first indices of the jobs ThreadPool.AddRangeJob(0, n, ..) creates with T threads
func rangeJobStarts(T, n int) []int {
	if n <= 0 {
		return nil
	}
	m := T
	if m > n {
		m = n
	}
	var r []int
	for j := 0; j < n; j += n / m {
		r = append(r, j)
	}
	return r
}

/* running a case under a pool
 * -------------------------------------------------------------------------- */

type poolStats struct{ eSteps, thread0Idle, split int64 }

// runOnPool runs f with the sequential pool (ps == nil), or as thread ps.Caller of a pool of
// ps.Threads threads whose other threads execute nothing they are not told to
func runOnPool(ps *PoolSpec, use func(s *sched), f func(p threadpool.ThreadPool) error) error {
	if ps == nil || ps.Threads <= 1 {
		return f(pool1)
	}
	s := newSched(ps.Threads)
	defer s.close()
	if use != nil {
		use(s)
		defer use(nil)
	}
	return s.run(ps.Caller, f)
}

/* closed-form estimators: observations split over the threads
 * -------------------------------------------------------------------------- */

// The batch interface takes the pool value with every call, so an assignment of the observations
// to the threads needs no scheduling at all: NewObservation for position i is executed by thread
// Obs[i] with that thread's own pool value (the helper of thread t holds ThreadPool{t}), one call
// after the other.  This is the execution of a range job whose items went to these threads, with
// the items processed in the order of their positions.  Nothing is left behind in the pool, so one
// scheduler per pool size serves all such cases of a process (renewed after a panic).
var splitScheds = map[int]*sched{}

func runSplit(ps *PoolSpec, init func(p threadpool.ThreadPool) error, obs func(k int, p threadpool.ThreadPool) error, get func() error) error {
	s := splitScheds[ps.Threads]
	if s == nil {
		s = newSched(ps.Threads)
		splitScheds[ps.Threads] = s
	}
	err := func() error {
		if err := s.run(ps.Caller, init); err != nil {
			return err
		}
		for k, t := range ps.Obs {
			if t < 0 || t >= ps.Threads {
				return fmt.Errorf("harness: observation %d assigned to thread %d of %d", k, t, ps.Threads)
			}
			k := k
			if err := s.run(t, func(p threadpool.ThreadPool) error {
				if p.GetThreadId() != t || p.NumberOfThreads() != ps.Threads {
					return fmt.Errorf("harness: helper of thread %d holds the pool value of thread %d/%d", t, p.GetThreadId(), p.NumberOfThreads())
				}
				return obs(k, p)
			}); err != nil {
				return err
			}
		}
		return s.run(ps.Caller, func(threadpool.ThreadPool) error { return get() })
	}()
	s.mu.Lock()
	tainted := s.panicMsg != "" || s.fail != "" || s.jobErr != nil
	s.mu.Unlock()
	if tainted || s.aborted() {
		delete(splitScheds, ps.Threads)
		s.close()
	}
	return err
}

func (cs *EMCase) runOn(f func(p threadpool.ThreadPool) error) error {
	return runOnPool(cs.Pool, func(s *sched) {
		if s == nil {
			cs.stats = poolStats{cs.s.eSteps, cs.s.eStepsThread0Idle, cs.s.eStepsSplit}
		}
		cs.s = s
	}, f)
}

/* scalar mixture: core with a gated data set
 * -------------------------------------------------------------------------- */

type gatedMixData struct {
	se.MixtureDataSet
	s    *sched
	gate []int // observation index -> E-step job starting there, or -1
}

func (d *gatedMixData) LogPdf(r ad.Scalar, c, i int) error {
	if c == 0 && d.gate[i] >= 0 {
		d.s.gate(d.gate[i])
	}
	return d.MixtureDataSet.LogPdf(r, c, i)
}

// smixCore repeats scalarEstimator.MixtureEstimator's EM interface (mixture.go: Swap,
// EvaluateLogPdf, Step, Emissions) over a data set chosen by the harness
type smixCore struct {
	m1, m2, m3 *sd.Mixture
	data       *gatedMixData
	ests       []st.ScalarEstimator
	s          *sched
	assign     [][]int
	step       int
}

func (o *smixCore) GetBasicMixture() generic.BasicMixture { return o.m1 }
func (o *smixCore) EvaluateLogPdf(p threadpool.ThreadPool) error {
	return o.data.MixtureDataSet.EvaluateLogPdf(o.m2.Edist, p)
}
func (o *smixCore) Swap() { o.m1, o.m2, o.m3 = o.m3, o.m1, o.m2 }
func (o *smixCore) Emissions(gamma []ad.DenseFloat64Vector, p threadpool.ThreadPool) error {
	m1, m2 := o.m1, o.m2
	g := p.NewJobGroup()
	if err := p.AddRangeJob(0, m1.NComponents(), g, func(c int, p threadpool.ThreadPool, erf func() error) error {
		p1 := m1.Edist[c].GetParameters()
		p2 := m2.Edist[c].GetParameters()
		for j := 0; j < p1.Dim(); j++ {
			p1.At(j).Set(p2.At(j))
		}
		if err := o.ests[c].SetParameters(p1); err != nil {
			return err
		}
		if err := o.ests[c].Estimate(gamma[c], p); err != nil {
			return err
		}
		return m1.Edist[c].SetParameters(o.ests[c].GetParameters())
	}); err != nil {
		return err
	}
	return p.Wait(g)
}
func (o *smixCore) Step(meta ad.ConstVector, tmp []generic.EmTmp, p threadpool.ThreadPool) (float64, error) {
	if o.s != nil && len(o.assign) > 0 {
		o.s.arm(p, o.assign[o.step%len(o.assign)])
		o.step++
		defer o.s.disarm()
	}
	return o.m1.Mixture.EmStep(&o.m1.Mixture, &o.m2.Mixture, o.data, meta, tmp, p)
}

func runAssignedScalarMixture(cs *EMCase, tr *[]step) error {
	k := len(cs.Mix.Sub)
	ests := make([]st.ScalarEstimator, k)
	for i, s := range cs.Mix.Sub {
		x, err := mkScalarEst(s, cs.SigmaMin)
		if err != nil {
			return fmt.Errorf("harness-construct: %v", err)
		}
		ests[i] = x
	}
	// as NewMixtureEstimator
	m, err := sd.NewMixture(ad.NewDenseFloat64Vector(append([]float64{}, cs.Mix.W...)), nil)
	if err != nil {
		return fmt.Errorf("harness-construct: %v", err)
	}
	// as (*MixtureEstimator).SetData
	x := ad.NullDenseFloat64Vector(len(cs.Data[0]))
	for i, v := range cs.Data[0] {
		x.At(i).SetFloat64(v[0])
	}
	data, err := se.NewMixtureStdDataSet(m.ScalarType(), x, k)
	if err != nil {
		return err
	}
	for i, e := range ests {
		if err := e.SetData(data.GetData(), x.Dim()); err != nil {
			return err
		}
		d, err := e.GetEstimate()
		if err != nil {
			return err
		}
		m.Edist[i] = d.CloneScalarPdf()
	}
	hook := generic.EmHook{Value: func(m generic.BasicMixture, i int, L, eps float64) {
		*tr = append(*tr, step{i: i, L: L, mix: snapScalar(m.(*sd.Mixture))})
	}}
	return cs.runOn(func(p threadpool.ThreadPool) error {
		gd := &gatedMixData{MixtureDataSet: data, s: cs.s, gate: make([]int, x.Dim())}
		for i := range gd.gate {
			gd.gate[i] = -1
		}
		for j, l := range rangeJobStarts(cs.Pool.Threads, x.Dim()) {
			gd.gate[l] = j
		}
		core := &smixCore{m1: m.Clone(), m2: m.Clone(), m3: m.Clone(), data: gd, ests: ests, s: cs.s, assign: cs.Pool.Assign}
		return generic.EmAlgorithm(core, nil, data.GetN(), k, emEps, cs.maxSteps(), p, hook,
			generic.EmOptimizeEmissions{Value: !cs.FreezeEmissions}, generic.EmOptimizeWeights{Value: !cs.FreezeSecond})
	})
}

/* HMM: the core of discrete.go with a gated data set
 * -------------------------------------------------------------------------- */

type gatedHmmData struct {
	ve.HmmDataSet
	s *sched
}

func (d *gatedHmmData) GetRecord(i int) generic.HmmDataRecord {
	d.s.gate(i)
	return d.HmmDataSet.GetRecord(i)
}

/* exact M-step of the mixture weights
 * -------------------------------------------------------------------------- */

// mstepWeights: mean responsibilities of the components of m on the data (the maximiser of the
// expected complete-data log-likelihood in the weights)
func mstepWeights(m Emis, data [][][]float64) []float64 {
	w := make([]float64, len(m.Sub))
	n := 0
	t := make([]float64, len(m.Sub))
	for _, rec := range data {
		for _, x := range rec {
			for j, f := range m.Sub {
				t[j] = math.Log(m.W[j]) + f.logd(x)
			}
			z := logsumexp(t)
			if math.IsInf(z, -1) || math.IsNaN(z) {
				return nil // an impossible observation: no responsibilities
			}
			for j := range t {
				w[j] += math.Exp(t[j] - z)
			}
			n++
		}
	}
	for j := range w {
		w[j] /= float64(n)
	}
	return w
}

/* enumeration
 * -------------------------------------------------------------------------- */

// all assignments of J jobs to T threads, simplest first (all on thread 0 first)
func assignments(T, J int) [][]int { return tuples(J, T) }

func enumPools(thorough bool, each func(EMCase), normalOpts, poissonOpts, catOpts, prodOpts, mixedOpts []Emis, rows [][]float64, seqData, pairData [][][][]float64) {
	pick := func(o []Emis, idx ...int) []Emis {
		var r []Emis
		for _, i := range idx {
			r = append(r, o[i])
		}
		return r
	}
	multisetData := func(alph []float64, nmin, nmax int) [][][][]float64 {
		var out [][][][]float64
		for n := nmin; n <= nmax; n++ {
			for _, t := range multisets(n, len(alph)) {
				rec := make([][]float64, n)
				for k, v := range t {
					rec[k] = []float64{alph[v]}
				}
				out = append(out, [][][]float64{rec})
			}
		}
		return out
	}
	type pc struct{ T, c int }
	var callers []pc
	for T := 2; T <= 3; T++ {
		for c := 0; c < T; c++ {
			callers = append(callers, pc{T, c})
		}
	}
	geoOpts := []Emis{{Family: "geometric", P: []float64{0.5}}, {Family: "geometric", P: []float64{0.25}}}
	nbOpts := []Emis{{Family: "negbinomial", P: []float64{1, 0.5}}, {Family: "negbinomial", P: []float64{2, 0.25}}}

	// ---- mode "caller": the library's own estimators, everything on thread c
	for _, q := range callers {
		ps := func() *PoolSpec { return &PoolSpec{Threads: q.T, Caller: q.c} }
		// scalar mixtures
		for _, f := range []struct {
			name string
			opts []Emis
			alph []float64
			smin float64
		}{{"normal", pick(normalOpts, 0, 4, 8), []float64{0, 1, 3}, 0.5}, {"poisson", poissonOpts, []float64{0, 1, 3}, 0}, {"categorical", catOpts, []float64{0, 1, 2}, 0}} {
			for _, w := range weightLattice(2) {
				for _, comps := range compTuples(2, f.opts) {
					for _, d := range multisetData(f.alph, 1, 4) {
						cs := EMCase{Kind: "smix", SigmaMin: f.smin, Mix: &Emis{Family: "mixture", W: w, Sub: comps}, Data: d, Pool: ps()}
						cs.Label = fmt.Sprintf("scalar-mixture,%s,k=2", f.name) + cs.Pool.label()
						each(cs)
					}
				}
			}
		}
		// discrete mixtures over summarised data
		for _, f := range []struct {
			name string
			opts []Emis
		}{{"geometric", geoOpts}, {"negbinomial", nbOpts}} {
			for _, comps := range compTuples(2, f.opts) {
				for _, d := range multisetData([]float64{0, 1, 3}, 2, 4) {
					cs := EMCase{Kind: "dmix", Route: routeSummarised, Mix: &Emis{Family: "mixture", W: []float64{0.25, 0.75}, Sub: comps}, Data: d, Pool: ps()}
					cs.Label = fmt.Sprintf("discrete-mixture,%s,k=2,%s", f.name, cs.Route) + cs.Pool.label()
					each(cs)
				}
			}
		}
		// vector mixture (normal x poisson), nested scalar mixture, vector HMM, nested HMM, matrix HMM
		pts := [][]float64{{0, 0}, {1, 3}, {3, 1}}
		for _, comps := range compTuples(2, pick(mixedOpts, 0, 4, 8)) {
			for n := 2; n <= 3; n++ {
				for _, t := range multisets(n, len(pts)) {
					rec := make([][]float64, n)
					for k, v := range t {
						rec[k] = pts[v]
					}
					cs := EMCase{Kind: "vmix", SigmaMin: 0.5, Mix: &Emis{Family: "mixture", W: []float64{0.25, 0.75}, Sub: comps}, Data: [][][]float64{rec}, Pool: ps()}
					cs.Label = "vector-mixture,product-normal-poisson,k=2" + cs.Pool.label()
					each(cs)
				}
			}
		}
		sm := func(w []float64, a, b Emis) Emis { return Emis{Family: "mixture", W: w, Sub: []Emis{a, b}} }
		sInner := []Emis{sm([]float64{0.5, 0.5}, normalOpts[0], normalOpts[7]), sm([]float64{0.25, 0.75}, normalOpts[4], normalOpts[2])}
		for _, comps := range compTuples(2, sInner) {
			for _, d := range multisetData([]float64{0, 1, 3}, 2, 4) {
				cs := EMCase{Kind: "smix", SigmaMin: 0.5, Mix: &Emis{Family: "mixture", W: []float64{0.25, 0.75}, Sub: comps}, Data: d, Pool: ps()}
				cs.Label = "scalar-mixture,nested-mixture-of-normals,k=2" + cs.Pool.label()
				each(cs)
			}
		}
		var hdata [][][][]float64
		for _, d := range seqData {
			if n := len(d[0]); n >= 2 && n <= 3 {
				hdata = append(hdata, d)
			}
		}
		hdata = append(hdata, pairData...)
		for _, r0 := range rows {
			for _, es := range compTuples(2, catOpts[:2]) {
				for _, d := range hdata {
					h := HmmPar{Pi: []float64{0.25, 0.75}, Tr: [][]float64{r0, {0.25, 0.75}}, E: es}
					cs := EMCase{Kind: "hmm", Hmm: &h, Data: d, Pool: ps()}
					cs.Label = "hmm,m=2,categorical,free" + cs.Pool.label()
					each(cs)
				}
			}
		}
		inner0 := Emis{Family: "mixture", W: []float64{0.5, 0.5}, Sub: []Emis{catOpts[0], catOpts[1]}}
		inner1 := Emis{Family: "mixture", W: []float64{0.25, 0.75}, Sub: []Emis{catOpts[2], catOpts[0]}}
		for _, r0 := range rows {
			for _, d := range hdata {
				h := HmmPar{Pi: []float64{0.5, 0.5}, Tr: [][]float64{r0, {0.25, 0.75}}, E: []Emis{inner0, inner1}}
				cs := EMCase{Kind: "hmm", Hmm: &h, Data: d, Pool: ps()}
				cs.Label = "hmm,m=2,nested-mixture-of-categoricals" + cs.Pool.label()
				each(cs)
			}
		}
		for _, t := range append(tuples(2, len(pts)), tuples(3, len(pts))...) {
			rec := make([][]float64, len(t))
			for k, v := range t {
				rec[k] = pts[v]
			}
			for _, r0 := range rows {
				h := HmmPar{Pi: []float64{0.25, 0.75}, Tr: [][]float64{r0, {0.25, 0.75}}, E: []Emis{prodOpts[0], prodOpts[4]}}
				cs := EMCase{Kind: "mhmm", SigmaMin: 0.5, Hmm: &h, Data: [][][]float64{rec}, Pool: ps()}
				cs.Label = "matrix-hmm,m=2,product-normal" + cs.Pool.label()
				each(cs)
			}
		}
	}

	// ---- mode "assigned": every assignment of the E-step jobs to the threads
	// constant assignment (the same in every E-step) and alternating pairs (a, b, a, b, ..: a
	// thread that took part in one E-step and not in the next keeps what it accumulated)
	patterns := func(T, J int, pairs bool) [][][]int {
		as := assignments(T, J)
		var out [][][]int
		for _, a := range as {
			out = append(out, [][]int{a})
		}
		if pairs {
			for _, a := range as {
				for _, b := range as {
					if fmt.Sprint(a) != fmt.Sprint(b) {
						out = append(out, [][]int{a, b})
					}
				}
			}
		}
		return out
	}
	maxPairs := 9 // alternating pairs while T^J <= maxPairs
	if thorough {
		maxPairs = 27
	}
	pow := func(T, J int) int {
		r := 1
		for i := 0; i < J; i++ {
			r *= T
		}
		return r
	}
	for T := 2; T <= 3; T++ {
		cs0 := []int{0}
		if thorough {
			cs0 = []int{0, T - 1}
		}
		for _, c := range cs0 {
			for _, f := range []struct {
				name string
				opts []Emis
				alph []float64
				smin float64
			}{{"normal", pick(normalOpts, 0, 8), []float64{0, 1, 3}, 0.5}, {"categorical", catOpts[:2], []float64{0, 1, 2}, 0}} {
				for _, d := range multisetData(f.alph, 1, 4) {
					J := len(rangeJobStarts(T, len(d[0])))
					for _, pat := range patterns(T, J, pow(T, J) <= maxPairs) {
						for _, w := range weightLattice(2) {
							for _, comps := range compTuples(2, f.opts) {
								cs := EMCase{Kind: "smix", SigmaMin: f.smin, Mix: &Emis{Family: "mixture", W: w, Sub: comps}, Data: d, MaxSteps: 6,
									Pool: &PoolSpec{Threads: T, Caller: c, Assign: pat}}
								cs.Label = fmt.Sprintf("scalar-mixture,%s,k=2", f.name) + cs.Pool.label()
								each(cs)
							}
						}
					}
				}
			}
			// HMM: one job per sequence; data sets of two and three short sequences
			short := [][][]float64{{{0}}, {{1}}, {{0}, {1}}, {{1}, {0}}, {{2}, {0}}}
			var recsets [][][][]float64
			for _, a := range short {
				for _, b := range short {
					recsets = append(recsets, [][][]float64{a, b})
					if thorough {
						for _, e := range short[:3] {
							recsets = append(recsets, [][][]float64{a, b, e})
						}
					}
				}
			}
			for _, d := range recsets {
				J := len(d)
				for _, pat := range patterns(T, J, pow(T, J) <= maxPairs) {
					for _, r0 := range rows[:2] {
						for _, es := range compTuples(2, catOpts[:2]) {
							h := HmmPar{Pi: []float64{0.25, 0.75}, Tr: [][]float64{r0, {0.25, 0.75}}, E: es}
							cs := EMCase{Kind: "hmm", Hmm: &h, Data: d, MaxSteps: 6, Pool: &PoolSpec{Threads: T, Caller: c, Assign: pat}}
							cs.Label = "hmm,m=2,categorical,free" + cs.Pool.label()
							each(cs)
						}
					}
				}
			}
		}
	}
}

// EM over vectorEstimator.ScalarIid components on observations of different lengths
func enumRagged(thorough bool, each func(EMCase), normalOpts, poissonOpts []Emis) {
	iid := func(e Emis) Emis { return Emis{Family: "iid", Sub: []Emis{e}} }
	tmpl := [][]float64{{0, 1, 3}, {3, 0, 0}}
	var obs [][]float64
	for _, t := range tmpl {
		for l := 1; l <= len(t); l++ {
			obs = append(obs, t[:l])
		}
	}
	nmax := 3
	if thorough {
		nmax = 4
	}
	for _, f := range []struct {
		name string
		opts []Emis
		smin float64
	}{{"normal", []Emis{normalOpts[0], normalOpts[4], normalOpts[8]}, 0.5}, {"poisson", poissonOpts, 0}} {
		for _, w := range weightLattice(2) {
			for _, comps := range compTuples(2, f.opts) {
				for n := 1; n <= nmax; n++ {
					// sequences, not multisets: the order of the lengths matters
					for _, t := range tuples(n, len(obs)) {
						rec := make([][]float64, n)
						for k, v := range t {
							rec[k] = obs[v]
						}
						each(EMCase{Kind: "vmix", Label: "vector-mixture,iid-" + f.name + ",k=2,lengths=" + lengthProfile(rec), SigmaMin: f.smin,
							Mix: &Emis{Family: "mixture", W: w, Sub: []Emis{iid(comps[0]), iid(comps[1])}}, Data: [][][]float64{rec}})
					}
				}
			}
		}
	}
}
