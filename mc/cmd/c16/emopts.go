package main

// Added after the second seeded-change round:
//
//  (1) the matrixEstimator instantiations of the EM drivers (hand-written copies of the
//      vectorEstimator ones): matrixEstimator.HmmEstimator (records are n x d matrices, one
//      row per time step; emission estimators are VectorEstimators) with closed-form
//      emissions (vectorEstimator.ScalarId of normal / poisson estimators) and with NESTED
//      emissions (vectorEstimator.MixtureEstimator, one inner EM step per outer iteration),
//      and matrixEstimator.MixtureEstimator over matrixEstimator.VectorId components;
//  (2) the option lattice of the EM drivers: OptimizeEmissions x OptimizeTransitions (HMMs;
//      fields of the estimators, and generic.BaumWelchOptimize* arguments on the direct
//      generic.BaumWelchAlgorithm route) and OptimizeEmissions x OptimizeWeights (mixtures).
//      Partial optimisation is still (generalised) EM: same monotonicity / reported-likelihood
//      oracle, plus: the parameter block that is NOT optimised stays bitwise what it was at
//      hook call 0.

import (
	"fmt"
	"math"

	ad "github.com/pbenner/autodiff"
	st "github.com/pbenner/autodiff/statistics"
	"github.com/pbenner/autodiff/statistics/generic"
	md "github.com/pbenner/autodiff/statistics/matrixDistribution"
	me "github.com/pbenner/autodiff/statistics/matrixEstimator"
	ve "github.com/pbenner/autodiff/statistics/vectorEstimator"
	"github.com/pbenner/threadpool"
)

func (cs *EMCase) optLabel() string {
	if !cs.FreezeEmissions && !cs.FreezeSecond {
		return ""
	}
	b := func(frozen bool) int {
		if frozen {
			return 0
		}
		return 1
	}
	second := "weights"
	if cs.isHmm() {
		second = "transitions"
	}
	return fmt.Sprintf(",optimize[emissions=%d,%s=%d]", b(cs.FreezeEmissions), second, b(cs.FreezeSecond))
}

func (cs *EMCase) isHmm() bool { return cs.Kind == "hmm" || cs.Kind == "mhmm" }

/* harness <-> library for the vector / matrix families
 * -------------------------------------------------------------------------- */

// mkVectorEstN: as mkVectorEst, plus nested vector mixtures (one EM step per call)
func mkVectorEstN(e Emis, smin float64) (st.VectorEstimator, error) {
	if e.Family != "mixture" {
		return mkVectorEst(e, smin)
	}
	subs := make([]st.VectorEstimator, len(e.Sub))
	for i, s := range e.Sub {
		x, err := mkVectorEstN(s, smin)
		if err != nil {
			return nil, err
		}
		subs[i] = x
	}
	return ve.NewMixtureEstimator(append([]float64{}, e.W...), subs, 1e-10, 1)
}

func mkMatrixEst(e Emis, smin float64) (st.MatrixEstimator, error) {
	if e.Family != "vectorid" {
		return nil, fmt.Errorf("harness: no matrix estimator for %s", e.Family)
	}
	rows := make([]st.VectorEstimator, len(e.Sub))
	for i, s := range e.Sub {
		x, err := mkVectorEstN(s, smin)
		if err != nil {
			return nil, err
		}
		rows[i] = x
	}
	return me.NewVectorId(rows...)
}

func snapMatrix(d st.MatrixPdf) Emis {
	switch x := d.(type) {
	case *md.VectorId:
		e := Emis{Family: "vectorid"}
		for _, r := range x.Distributions {
			e.Sub = append(e.Sub, snapVector(r))
		}
		return e
	case *md.Mixture:
		e := Emis{Family: "mixture", W: expv(vecf(x.LogWeights))}
		for _, c := range x.Edist {
			e.Sub = append(e.Sub, snapMatrix(c))
		}
		return e
	}
	panic(fmt.Sprintf("harness: cannot snapshot %T", d))
}

func snapMHmm(x *md.Hmm, h *HmmPar) HmmPar {
	m := len(h.Pi)
	s := HmmPar{Pi: expv(vecf(x.Pi)), Map: append([]int{}, x.StateMap...), Start: h.Start, Final: h.Final}
	for a := 0; a < m; a++ {
		row := make([]float64, m)
		for c := 0; c < m; c++ {
			row[c] = math.Exp(x.Tr.At(a, c).GetFloat64())
		}
		s.Tr = append(s.Tr, row)
	}
	for _, e := range x.Edist {
		s.E = append(s.E, snapVector(e))
	}
	return s
}

func denseMatrix(rows [][]float64) ad.ConstMatrix {
	n, d := len(rows), len(rows[0])
	m := ad.NullDenseFloat64Matrix(n, d)
	for i := range rows {
		for j := range rows[i] {
			m.At(i, j).SetFloat64(rows[i][j])
		}
	}
	return m
}

func hmmArgs(h *HmmPar) (ad.Vector, ad.Matrix) {
	m := len(h.Pi)
	pi := ad.NewDenseFloat64Vector(append([]float64{}, h.Pi...))
	tm := ad.NullDenseFloat64Matrix(m, m)
	for i := 0; i < m; i++ {
		for j := 0; j < m; j++ {
			tm.At(i, j).SetFloat64(h.Tr[i][j])
		}
	}
	return pi, tm
}

// matrix HMM: cs.Data = records -> time steps -> d coordinates
func runMatrixHmm(cs *EMCase, tr *[]step) error {
	h := cs.Hmm
	pi, tm := hmmArgs(h)
	ests := make([]st.VectorEstimator, len(h.E))
	for i, s := range h.E {
		x, err := mkVectorEstN(s, cs.SigmaMin)
		if err != nil {
			return fmt.Errorf("harness-construct: %v", err)
		}
		ests[i] = x
	}
	hook := generic.BaumWelchHook{Value: func(b generic.BasicHmm, i int, L, eps float64) {
		*tr = append(*tr, step{i: i, L: L, hmm: snapMHmm(b.(*md.Hmm), h)})
	}}
	est, err := me.NewHmmEstimator(pi, tm, h.Map, h.Start, h.Final, ests, emEps, cs.maxSteps(), hook)
	if err != nil {
		return fmt.Errorf("harness-construct: %v", err)
	}
	est.OptimizeEmissions = !cs.FreezeEmissions
	est.OptimizeTransitions = !cs.FreezeSecond
	xs := make([]ad.ConstMatrix, len(cs.Data))
	for r, rec := range cs.Data {
		xs[r] = denseMatrix(rec)
	}
	return cs.runOn(func(p threadpool.ThreadPool) error { return est.EstimateOnData(xs, nil, p) })
}

// matrix mixture: cs.Data[0] = observations, each a flattened r x d matrix; cs.Rows = r
func runMatrixMixture(cs *EMCase, tr *[]step) error {
	subs := make([]st.MatrixEstimator, len(cs.Mix.Sub))
	for i, s := range cs.Mix.Sub {
		x, err := mkMatrixEst(s, cs.SigmaMin)
		if err != nil {
			return fmt.Errorf("harness-construct: %v", err)
		}
		subs[i] = x
	}
	hook := generic.EmHook{Value: func(m generic.BasicMixture, i int, L, eps float64) {
		*tr = append(*tr, step{i: i, L: L, mix: snapMatrix(m.(*md.Mixture))})
	}}
	est, err := me.NewMixtureEstimator(append([]float64{}, cs.Mix.W...), subs, emEps, emMaxSteps, hook)
	if err != nil {
		return fmt.Errorf("harness-construct: %v", err)
	}
	est.OptimizeEmissions = !cs.FreezeEmissions
	est.OptimizeWeights = !cs.FreezeSecond
	r := len(cs.Mix.Sub[0].Sub)
	xs := make([]ad.ConstMatrix, len(cs.Data[0]))
	for k, v := range cs.Data[0] {
		d := len(v) / r
		rows := make([][]float64, r)
		for i := range rows {
			rows[i] = v[i*d : (i+1)*d]
		}
		xs[k] = denseMatrix(rows)
	}
	return cs.runOn(func(p threadpool.ThreadPool) error { return est.EstimateOnData(xs, nil, p) })
}

/* the block that is not optimised must not move
 * -------------------------------------------------------------------------- */

func sameBitsF(a, b []float64) bool {
	if len(a) != len(b) {
		return false
	}
	for i := range a {
		if math.Float64bits(a[i]) != math.Float64bits(b[i]) {
			return false
		}
	}
	return true
}

func sameEmis(a, b Emis, withW bool) bool {
	if a.Family != b.Family || len(a.Sub) != len(b.Sub) || !sameBitsF(a.P, b.P) {
		return false
	}
	if withW && !sameBitsF(a.W, b.W) {
		return false
	}
	for i := range a.Sub {
		if !sameEmis(a.Sub[i], b.Sub[i], true) {
			return false
		}
	}
	return true
}

// frozenMoved: "" or which frozen block of s differs from the initial model s0
func frozenMoved(cs *EMCase, s0, s step) string {
	if cs.isHmm() {
		if cs.FreezeEmissions {
			for i := range s0.hmm.E {
				if i >= len(s.hmm.E) || !sameEmis(s0.hmm.E[i], s.hmm.E[i], true) {
					return "emissions"
				}
			}
		}
		if cs.FreezeSecond {
			for i := range s0.hmm.Tr {
				if i >= len(s.hmm.Tr) || !sameBitsF(s0.hmm.Tr[i], s.hmm.Tr[i]) {
					return "transitions"
				}
			}
		}
		return ""
	}
	if cs.FreezeEmissions && !sameEmis(Emis{Family: "x", Sub: s0.mix.Sub}, Emis{Family: "x", Sub: s.mix.Sub}, false) {
		return "emissions"
	}
	if cs.FreezeSecond && !sameBitsF(s0.mix.W, s.mix.W) {
		return "weights"
	}
	return ""
}

/* enumeration
 * -------------------------------------------------------------------------- */

func enumMatrixAndOptions(thorough bool, each func(EMCase), normalOpts, poissonOpts, catOpts, prodOpts, mixedOpts []Emis, rows [][]float64, seqData, pairData [][][][]float64) {
	pts := [][]float64{{0, 0}, {1, 3}, {3, 1}}
	nmax := 4
	if thorough {
		nmax = 5
	}
	// sequences of points (one record) of length 1..nmax, and pairs of short sequences
	var vseq [][][][]float64
	var vshort [][][]float64
	for n := 1; n <= nmax; n++ {
		for _, t := range tuples(n, len(pts)) {
			rec := make([][]float64, n)
			for k, v := range t {
				rec[k] = pts[v]
			}
			vseq = append(vseq, [][][]float64{rec})
			if n <= 2 {
				vshort = append(vshort, rec)
			}
		}
	}
	var vpairs [][][][]float64
	for _, a := range vshort {
		for _, b := range vshort {
			vpairs = append(vpairs, [][][]float64{a, b})
		}
	}
	pick := func(o []Emis, idx ...int) []Emis {
		var r []Emis
		for _, i := range idx {
			r = append(r, o[i])
		}
		return r
	}
	frozen := []struct{ e, s bool }{{false, false}, {true, false}, {false, true}, {true, true}}

	// ---- (1a) matrix HMM, m=2, closed-form emissions (ScalarId of two normals / normal x poisson)
	for _, fam := range []struct {
		name string
		opts []Emis
		smin float64
	}{{"product-normal", pick(prodOpts, 0, 1, 4, 8), 0.5}, {"product-normal-poisson", pick(mixedOpts, 0, 4, 8), 0.5}} {
		for _, r0 := range rows {
			for _, r1 := range rows {
				for _, es := range compTuples(2, fam.opts) {
					ds := vseq
					if r0[0] == 0.5 {
						ds = append(append([][][][]float64{}, vseq...), vpairs...)
					}
					for _, d := range ds {
						h := HmmPar{Pi: []float64{0.25, 0.75}, Tr: [][]float64{r0, r1}, E: es}
						each(EMCase{Kind: "mhmm", Label: "matrix-hmm,m=2," + fam.name, SigmaMin: fam.smin, Hmm: &h, Data: d})
					}
				}
			}
		}
	}
	// ---- (1b) matrix HMM, nested: every state emits from a 2-component vector mixture
	mixOf := func(w []float64, a, b Emis) Emis { return Emis{Family: "mixture", W: w, Sub: []Emis{a, b}} }
	inner := [][2]Emis{
		{mixOf([]float64{0.5, 0.5}, prodOpts[0], prodOpts[4]), mixOf([]float64{0.25, 0.75}, prodOpts[7], prodOpts[1])},
		{mixOf([]float64{0.75, 0.25}, prodOpts[2], prodOpts[6]), mixOf([]float64{0.5, 0.5}, prodOpts[3], prodOpts[1])},
		{mixOf([]float64{0.5, 0.5}, mixedOpts[0], mixedOpts[4]), mixOf([]float64{0.25, 0.75}, mixedOpts[8], mixedOpts[1])},
	}
	for ii, in := range inner {
		name := "nested-mixture-of-product-normals"
		if ii == 2 {
			name = "nested-mixture-of-product-normal-poisson"
		}
		for _, r0 := range rows {
			for _, r1 := range rows {
				ds := vseq
				if r0[0] == 0.5 {
					ds = append(append([][][][]float64{}, vseq...), vpairs...)
				}
				for _, d := range ds {
					if len(d) == 1 && len(d[0]) < 2 {
						continue
					}
					h := HmmPar{Pi: []float64{0.5, 0.5}, Tr: [][]float64{r0, r1}, E: []Emis{in[0], in[1]}}
					each(EMCase{Kind: "mhmm", Label: "matrix-hmm,m=2," + name, SigmaMin: 0.5, Hmm: &h, Data: d})
				}
			}
		}
	}
	// ---- (1c) matrix mixture, k=2, components VectorId(row 0, row 1) over 2x2 observations
	var mats [][]float64 // flattened 2x2 matrices with rows from pts
	for _, a := range pts {
		for _, b := range pts {
			mats = append(mats, []float64{a[0], a[1], b[0], b[1]})
		}
	}
	var mdata [][][][]float64
	for n := 1; n <= 3; n++ {
		for _, t := range multisets(n, len(mats)) {
			rec := make([][]float64, n)
			for k, v := range t {
				rec[k] = mats[v]
			}
			mdata = append(mdata, [][][]float64{rec})
		}
	}
	vid := func(a, b Emis) Emis { return Emis{Family: "vectorid", Sub: []Emis{a, b}} }
	midOpts := []Emis{vid(prodOpts[0], prodOpts[4]), vid(prodOpts[7], prodOpts[1]), vid(mixedOpts[0], prodOpts[5])}
	for _, w := range weightLattice(2) {
		for _, comps := range compTuples(2, midOpts) {
			for _, d := range mdata {
				each(EMCase{Kind: "mmix", Label: "matrix-mixture,vectorid,k=2", SigmaMin: 0.5, Mix: &Emis{Family: "mixture", W: w, Sub: comps}, Data: d})
			}
		}
	}
	// nested rows: each row estimator of the VectorId is itself a vector mixture
	nestOpts := []Emis{vid(inner[0][0], inner[0][1]), vid(inner[1][0], inner[1][1])}
	for _, w := range weightLattice(2) {
		for _, comps := range compTuples(2, nestOpts) {
			for _, d := range mdata {
				if len(d[0]) < 2 {
					continue
				}
				each(EMCase{Kind: "mmix", Label: "matrix-mixture,vectorid-of-nested-mixtures,k=2", SigmaMin: 0.5, Mix: &Emis{Family: "mixture", W: w, Sub: comps}, Data: d})
			}
		}
	}

	// ---- (1d) the other hand-written copies of the emission M-step with a nested estimator:
	// scalar mixture of scalar mixtures, vector mixture of vector mixtures
	sm := func(w []float64, a, b Emis) Emis { return Emis{Family: "mixture", W: w, Sub: []Emis{a, b}} }
	sInner := []Emis{
		sm([]float64{0.5, 0.5}, normalOpts[0], normalOpts[7]),
		sm([]float64{0.25, 0.75}, normalOpts[4], normalOpts[2]),
		sm([]float64{0.75, 0.25}, normalOpts[8], normalOpts[3]),
	}
	for _, w := range weightLattice(2) {
		for _, comps := range compTuples(2, sInner) {
			for n := 2; n <= 4; n++ {
				for _, t := range multisets(n, 3) {
					rec := make([][]float64, n)
					for k, v := range t {
						rec[k] = []float64{[]float64{0, 1, 3}[v]}
					}
					each(EMCase{Kind: "smix", Label: "scalar-mixture,nested-mixture-of-normals,k=2", SigmaMin: 0.5, Mix: &Emis{Family: "mixture", W: w, Sub: comps}, Data: [][][]float64{rec}})
				}
			}
		}
	}
	vInner := []Emis{inner[0][0], inner[0][1], inner[1][0]}
	for _, w := range weightLattice(2) {
		for _, comps := range compTuples(2, vInner) {
			for n := 2; n <= 4; n++ {
				for _, t := range multisets(n, len(pts)) {
					rec := make([][]float64, n)
					for k, v := range t {
						rec[k] = pts[v]
					}
					each(EMCase{Kind: "vmix", Label: "vector-mixture,nested-mixture-of-product-normals,k=2", SigmaMin: 0.5, Mix: &Emis{Family: "mixture", W: w, Sub: comps}, Data: [][][]float64{rec}})
				}
			}
		}
	}

	// ---- (2) option lattice
	for _, fz := range frozen[1:] {
		// vector HMM, categorical emissions
		var ds [][][][]float64
		for _, d := range seqData {
			if n := len(d[0]); n >= 2 && n <= 4 {
				ds = append(ds, d)
			}
		}
		ds = append(ds, pairData...)
		for _, r0 := range rows {
			for _, r1 := range rows {
				for _, es := range compTuples(2, catOpts) {
					for _, d := range ds {
						h := HmmPar{Pi: []float64{0.25, 0.75}, Tr: [][]float64{r0, r1}, E: es}
						cs := EMCase{Kind: "hmm", Hmm: &h, Data: d, FreezeEmissions: fz.e, FreezeSecond: fz.s}
						cs.Label = "hmm,m=2,categorical,free" + cs.optLabel()
						each(cs)
					}
				}
			}
		}
		// direct generic.BaumWelchAlgorithm route (options as arguments), summarised data set
		for _, r0 := range rows {
			for _, es := range compTuples(2, catOpts) {
				for _, d := range ds {
					if len(d) > 1 || len(d[0]) > 3 {
						continue
					}
					h := HmmPar{Pi: []float64{0.25, 0.75}, Tr: [][]float64{r0, {0.25, 0.75}}, E: es}
					cs := EMCase{Kind: "hmm", DataSet: "summarized", Hmm: &h, Data: d, FreezeEmissions: fz.e, FreezeSecond: fz.s}
					cs.Label = "hmm,m=2,categorical,free,summarized-data-set" + cs.optLabel()
					each(cs)
				}
			}
		}
		// matrix HMM, closed-form and nested emissions
		for _, r0 := range rows {
			for _, r1 := range rows {
				for _, d := range vseq {
					if len(d[0]) < 2 {
						continue
					}
					for ei, es := range [][]Emis{{prodOpts[0], prodOpts[4]}, {inner[0][0], inner[0][1]}} {
						h := HmmPar{Pi: []float64{0.5, 0.5}, Tr: [][]float64{r0, r1}, E: es}
						cs := EMCase{Kind: "mhmm", SigmaMin: 0.5, Hmm: &h, Data: d, FreezeEmissions: fz.e, FreezeSecond: fz.s}
						cs.Label = []string{"matrix-hmm,m=2,product-normal", "matrix-hmm,m=2,nested-mixture-of-product-normals"}[ei] + cs.optLabel()
						each(cs)
					}
				}
			}
		}
		// scalar mixtures
		for _, f := range []struct {
			name string
			opts []Emis
			alph []float64
			smin float64
		}{{"normal", pick(normalOpts, 0, 1, 4, 8), []float64{0, 1, 3}, 0.5}, {"poisson", poissonOpts, []float64{0, 1, 3}, 0}, {"categorical", catOpts, []float64{0, 1, 2}, 0}} {
			var data [][][][]float64
			for n := 1; n <= 4; n++ {
				for _, t := range multisets(n, len(f.alph)) {
					rec := make([][]float64, n)
					for k, v := range t {
						rec[k] = []float64{f.alph[v]}
					}
					data = append(data, [][][]float64{rec})
				}
			}
			for _, w := range weightLattice(2) {
				for _, comps := range compTuples(2, f.opts) {
					for _, d := range data {
						cs := EMCase{Kind: "smix", SigmaMin: f.smin, Mix: &Emis{Family: "mixture", W: w, Sub: comps}, Data: d, FreezeEmissions: fz.e, FreezeSecond: fz.s}
						cs.Label = fmt.Sprintf("scalar-mixture,%s,k=2", f.name) + cs.optLabel()
						each(cs)
					}
				}
			}
		}
		// vector and matrix mixtures
		var vdata [][][][]float64
		for n := 1; n <= 3; n++ {
			for _, t := range multisets(n, len(pts)) {
				rec := make([][]float64, n)
				for k, v := range t {
					rec[k] = pts[v]
				}
				vdata = append(vdata, [][][]float64{rec})
			}
		}
		for _, w := range weightLattice(2) {
			for _, comps := range compTuples(2, pick(prodOpts, 0, 4, 7)) {
				for _, d := range vdata {
					cs := EMCase{Kind: "vmix", SigmaMin: 0.5, Mix: &Emis{Family: "mixture", W: w, Sub: comps}, Data: d, FreezeEmissions: fz.e, FreezeSecond: fz.s}
					cs.Label = "vector-mixture,product-normal,k=2" + cs.optLabel()
					each(cs)
				}
			}
			for _, comps := range compTuples(2, midOpts[:2]) {
				for _, d := range mdata {
					if len(d[0]) > 2 {
						continue
					}
					cs := EMCase{Kind: "mmix", SigmaMin: 0.5, Mix: &Emis{Family: "mixture", W: w, Sub: comps}, Data: d, FreezeEmissions: fz.e, FreezeSecond: fz.s}
					cs.Label = "matrix-mixture,vectorid,k=2" + cs.optLabel()
					each(cs)
				}
			}
		}
	}
}
