// C16: estimators return likelihood maximisers; EM never decreases the likelihood.
//
// Bounded-exhaustive over data sets x log-weights x configured bounds (closed-form and
// numeric estimators) and over data sets x initial-parameter lattices (EM trajectories of
// mixtures, HMMs and a mixture nested in an HMM).  See closed.go, numeric.go, em.go,
// discrete.go, emopts.go and pool.go (thread pools with a forced job -> thread assignment).
package main

import (
	"encoding/json"
	"os"

	"verif/mc/vf"
)

type AnyCase struct {
	Est *EstCase `json:"closed_form,omitempty"`
	Num *NumCase `json:"numeric,omitempty"`
	EM  *EMCase  `json:"em,omitempty"`
}

func main() {
	vf.Main(vf.Spec{
		ID:    "C16",
		Level: "exploration",
		Rule: "closed-form estimators (scalar normal, exponential, poisson, geometric, categorical, negative binomial; vector normal, ScalarId, ScalarIid; Estimate and batch interface): ALL data sets of size 1..n over a 4-value alphabet per family x log-weights in {nil} u {0,log 1/2,log 1/4}^n x configured bounds; a case is non-trivial when the data set contains two different observations. " +
			"Numeric estimator: data multisets x weights x 2 starting points x {newton,bfgs}; non-trivial when the estimator stopped for a reason other than its iteration budget (it claims convergence). " +
			"EM: every data set (multisets for mixtures, sequences and pairs of sequences for HMMs) of <=4 (thorough 5) observations over a 3-value alphabet x every initial model of a 3-point lattice per parameter; every step of every trajectory is checked; a trajectory is non-trivial when the likelihood strictly increased in at least one step. " +
			"Summarised data sets: scalarEstimator.DiscreteMixtureEstimator (poisson, categorical, geometric, negative binomial with fixed r; k=2, thorough 3) x ALL multisets of 1..5 (thorough 6) observations over a 3-value alphabet (repeated values included) x the initial lattice, driven through SetData+Estimate (MixtureSummarizedDataSet) and through EstimateOnData (promoted: not summarised); " +
			"vectorEstimator.NewHmmSummarizedDataSet (no estimator of the library constructs it) through generic.BaumWelchAlgorithm with a core repeating HmmEstimator's steps; same EM oracle, plus the differential against the standard estimator on the expanded data, non-trivial when the data contain a repeated observation. " +
			"Shift invariance of log-weights: every closed-form family x every data set of size 1..3 x every weight vector in {0,log 1/2,log 1/4}^n x Estimate and batch interface x common offset c in {-745,-700,-300,+300,+700}: the estimate equals the one for c=0 within 1e-9 (data without an admissible maximiser excluded). " +
			"matrixEstimator: HmmEstimator (m=2; ScalarId emissions of normals / normal x poisson, and NESTED vector-mixture emissions) on all sequences of <=4 (thorough 5) points of a 3-point alphabet in R^2 and pairs of short sequences x transition lattice x emission lattice; MixtureEstimator over VectorId components (closed-form and nested rows) on all multisets of <=3 2x2 observations; nested scalar-in-scalar and vector-in-vector mixtures. " +
			"Option lattice: OptimizeEmissions x OptimizeTransitions for the vector HMM (estimator fields), the direct generic.BaumWelchAlgorithm route (arguments) and the matrix HMM; OptimizeEmissions x OptimizeWeights for scalar, vector and matrix mixtures; same EM oracle plus: the block that is not optimised is bitwise the initial one at every hook call. " +
			"Observations of different lengths: vectorEstimator.ScalarIid (dimension -1) on every data set of 1..4 observations, each the prefix of length 1..3 of one of 2 (thorough 3) template vectors (all length profiles: equal, increasing, decreasing, mixed) x {nil} u {0,log 1/2,log 1/4}^n x sigmaMin, exact weighted MLE + perturbation oracle; EM of vector mixtures with ScalarIid(normal) / ScalarIid(poisson) components on every SEQUENCE of <=3 (thorough 4) such observations x the initial lattice. " +
			"Mixture weights: at every step of every mixture trajectory with OptimizeWeights the new weights equal the mean responsibilities under the previous model (harness-computed) within 1e-9. " +
			"Thread pools of T=2,3 threads with the job->thread assignment fixed by the harness through the real pool's own rules (pool.go; no timing): (i) the estimator runs as thread c=0..T-1 and every job of every phase is executed by thread c (for c!=0 thread 0 never executes anything): every closed-form family (Estimate and batch) x data sets of size 1..3 x all weight vectors, and EM of scalar mixtures (normal, poisson, categorical, nested), discrete mixtures on summarised data, a vector mixture, vector HMMs (categorical, nested mixtures) and the matrix HMM over reduced initial lattices; (ii) scalar mixtures (normal, categorical; all multisets of 1..4 observations) and vector HMMs (data sets of 2, thorough 3, short sequences) with EVERY assignment of the E-step jobs (range chunks resp. one job per sequence) to the T threads, the same in every E-step, and - while T^jobs <= 9 (thorough 27) - every alternating pair of two different assignments (a thread that took part in one E-step and not in the next), 6 EM iterations, calling thread 0 (thorough also T-1); same EM oracle and weight oracle; (iii) the observations of a closed-form estimation SPLIT over the threads: every family with a batch interface (scalar normal, exponential, poisson, geometric, categorical, negative binomial; vector normal, ScalarBatchId) x every data set of size 2..3 (thorough: 4 for T=2) over the family's alphabet (zeros included) x {nil} u {0,log 1/2,log 1/4}^n x EVERY assignment of the data positions to the T=2 (thorough also 3) threads that uses at least two threads: Initialize(pool), NewObservation(x_i, gamma_i, pool value of thread a[i]) executed by thread a[i], GetEstimate; calling thread 0 (thorough every thread); same exact-MLE and perturbation oracle (it does not depend on the assignment)",
		Assume: []string{
			"thread pools: the sequential pool everywhere; pools of 2 and 3 threads only with a job->thread assignment chosen by the harness (all jobs on the calling thread, or every assignment of the E-step jobs). Each such execution is one the real pool can produce; interleavings inside jobs, data races and agreement between schedules are C17. The E-step assignment is forced through a core that repeats the estimator's Swap/Step/Emissions over a data set wrapper with a gate at a job's first data access (as the summarised-HMM route does). Closed-form estimators with the observations split over the threads are driven through the batch interface, which takes the pool value per call: the calls are made one after the other in the order of the data positions, each by the thread it is assigned to (the execution of a range job whose items went to these threads); the range jobs of Estimate itself are only run with all jobs on one thread",
			"exact M-step of the mixture weights = mean responsibilities under the previous model (the maximiser of the expected complete-data log-likelihood); demanded only when the weights are optimised and only for the outermost mixture",
			"EM monotonicity is demanded for component families whose M-step is the exact maximiser of the expected complete-data log-likelihood over the configured box: normal with sigma>=sigmaMin (clamping is the exact box-constrained maximiser, and every initial sigma of the lattice lies in the box), poisson, categorical, products of these, and one EM step of an inner mixture (generalised EM); numeric M-steps are only checked for stationarity of the stand-alone numeric estimator",
			"initial EM parameters are interior (positive weights, positive emission probabilities); starts under which the data has probability zero are only required to fail loudly",
			"estimators may fail loudly (error) when the likelihood has no maximiser at admissible parameters (all-zero Poisson data, singular sample covariance); this is counted, not reported",
			"bivariate normal with an active variance bound: only the reference-free perturbation test applies (no closed form assumed)",
			"differential summarised/standard: hook call i of the two runs must agree within 1e-9 (relative) whenever call i-1 agreed within 1e-12; a slow drift of rounding differences along a trajectory is counted, not reported",
			"negative binomial components: r is fixed by the estimator, the M-step over p is exact",
			"log-weights are defined up to a common constant (all estimators work on the log scale; EM hands over log-responsibilities of arbitrary common magnitude), for Estimate and for the batch interface alike; the numeric estimator is exempt (its absolute stopping tolerance refers to the weighted likelihood itself)",
			"with OptimizeEmissions/OptimizeTransitions/OptimizeWeights=false the remaining updates are still a (generalised) EM step; the start probabilities of an HMM are always optimised",
		},
		Run: func(c *vf.Ctx) {
			thorough := c.Thorough()
			n := 4
			if thorough {
				n = 5
			}
			// C16_ONLY (development aid, never set by ./check): "closed" | "numeric" | a substring of EM labels
			only := os.Getenv("C16_ONLY")
			if only == "" || only == "closed" {
				runClosed(c, n)
			}
			if only == "" || only == "numeric" {
				runNumericSweep(c, n)
			}
			if only != "closed" && only != "numeric" {
				runEM(c, thorough)
			}
		},
		Replay: func(c *vf.Ctx, raw json.RawMessage) {
			var ac AnyCase
			if err := json.Unmarshal(raw, &ac); err != nil {
				c.HarnessError(err.Error())
				return
			}
			switch {
			case ac.Est != nil && ac.Est.Shift != 0:
				runShiftCase(c, ac.Est, 0)
			case ac.Est != nil:
				runEstCase(c, ac.Est, 0)
			case ac.Num != nil:
				runNumCase(c, ac.Num, 0)
			case ac.EM != nil:
				runEMCase(c, ac.EM, 0)
			}
		},
	})
}
