package main

import (
	"bytes"
	"compress/gzip"
	"encoding/json"
	"fmt"
	"os"
	"strings"

	ad "github.com/pbenner/autodiff"
)

/* generic encode / decode through the three container codecs
 * -------------------------------------------------------------------------- */

type exporter interface{ Export(string) error }
type importer interface{ Import(string) error }

func gz(data []byte) []byte {
	var b bytes.Buffer
	w := gzip.NewWriter(&b)
	w.Write(data)
	w.Close()
	return b.Bytes()
}

// encodeObj returns the encoding (JSON bytes, or the bytes of the exported table file).
func encodeObj(x *X, obj any, codec string) (data []byte, err error, pc string) {
	switch codec {
	case "json":
		m, ok := obj.(json.Marshaler)
		if !ok {
			return nil, fmt.Errorf("no MarshalJSON"), ""
		}
		return safeMarshal(m)
	case "table", "gztable":
		e, ok := obj.(exporter)
		if !ok {
			return nil, fmt.Errorf("no Export"), ""
		}
		fn := x.tmpFile(".table")
		os.Remove(fn)
		pc = guard("Export", func() { err = e.Export(fn) })
		if pc != "" || err != nil {
			return nil, err, strings.TrimPrefix(pc, "panic in Export:")
		}
		data, err = os.ReadFile(fn)
		if err == nil && codec == "gztable" {
			data = gz(data)
		}
		return data, err, ""
	}
	return nil, fmt.Errorf("unknown codec"), ""
}

// decodeInto feeds bytes to the reader of recv. via selects the entry point for JSON.
func decodeInto(x *X, recv any, codec string, data []byte, via string) (err error, pc string) {
	switch codec {
	case "json":
		if via == "json.Unmarshal" {
			return safeJsonUnmarshal(data, recv)
		}
		u, ok := recv.(json.Unmarshaler)
		if !ok {
			return fmt.Errorf("no UnmarshalJSON"), ""
		}
		return safeUnmarshal(u, data)
	case "table", "gztable":
		im, ok := recv.(importer)
		if !ok {
			return fmt.Errorf("no Import"), ""
		}
		fn := x.tmpFile(".in")
		if e := os.WriteFile(fn, data, 0o644); e != nil {
			panic("scratch write failed: " + e.Error())
		}
		p := guard("Import", func() { err = im.Import(fn) })
		return err, strings.TrimPrefix(p, "panic in Import:")
	}
	return fmt.Errorf("unknown codec"), ""
}

func codecsOf(ct *contT) []string {
	if ct.ConstV {
		return []string{"json"}
	}
	return []string{"json", "table", "gztable"}
}

func dimClass(n int) string {
	if n == 0 {
		return "empty"
	}
	return "nonempty"
}

func patClass(ct *contT, v val, pat []int) string {
	z, d := 0, false
	for _, p := range pat {
		if patZero(ct.St, v, p) {
			z++
		}
		if p == 3 {
			d = true
		}
	}
	s := "mixed"
	switch {
	case len(pat) == 0:
		s = "empty"
	case z == len(pat):
		s = "all-zero"
	case z == 0:
		s = "no-zero"
	}
	if d && ct.St.Real {
		s += "+derivatives"
	}
	return s
}

func digitsOf(x, b, n int) []int {
	d := make([]int, n)
	for i := 0; i < n; i++ {
		d[i] = x % b
		x /= b
	}
	return d
}

func ipow(b, e int) int {
	r := 1
	for i := 0; i < e; i++ {
		r *= b
	}
	return r
}

// recvKindsFor: the previous states of the receiver a round-trip case is decoded into.
// "fresh" always; "used" (a 2x2 / 2-vector) for plain files and JSON (quick: objects of at
// most 4 elements); the other states (smaller, larger, same shape with junk, view) for
// plain files and JSON: quick for the lattice value 1 and objects of at most 4 elements,
// thorough for objects of at most 4 elements with every value and larger ones with the
// value 1 (the receiver's previous state interacts with the shape, not the values).
func recvKindsFor(tier, codec string, vi, size int) []string {
	k := []string{"fresh"}
	if codec == "gztable" {
		return k
	}
	thorough := tier == "thorough"
	if thorough || size <= 4 {
		k = append(k, "used")
	}
	if (thorough && (size <= 4 || vi == 1)) || (size <= 4 && vi == 1) {
		k = append(k, extraRecvKinds...)
	}
	return k
}

// batterySelected: after which round trips the use battery is run. What the battery can
// expose - scratch buffers, index structures, stale state of the receiver - depends on
// shape, zero pattern, storage family, codec and receiver state, not on the element value.
// quick: the lattice value 1; objects of more than 4 elements with the full, single-entry,
// diagonal and all-zero patterns only. thorough: every value for objects of at most 4
// elements; larger objects with every zero pattern for the value 1 and with the four
// patterns for the other values.
func batterySelected(tier string, cs *Case) bool {
	n := len(cs.Pat)
	if tier == "thorough" && (n <= 4 || cs.Val == 1) {
		return true
	}
	if cs.Val != 1 && tier != "thorough" {
		return false
	}
	if n <= 4 {
		return true
	}
	pi := 0
	for i, p := range cs.Pat {
		if p != 0 {
			pi |= 1 << i
		}
	}
	np := 1 << n
	return pi == np-1 || pi == 1 || pi == 0 || pi == 0x111&(np-1)
}

func recvRank(rv string) int64 {
	switch rv {
	case "fresh":
		return 0
	case "used":
		return 1
	case "smaller":
		return 2
	case "larger":
		return 3
	case "same":
		return 4
	}
	return 5
}

/* vector round trips
 * -------------------------------------------------------------------------- */

func regVectorRT() {
	blocks = append(blocks, &block{
		name: "vector-rt",
		class: func(cs *Case) string {
			return cs.Codec + "|" + contByName[cs.Type].fam() + "|round-trip"
		},
		enum: func(tier string, emit func(mk func() *Case)) {
			for _, ct := range contTypes {
				if ct.Matrix {
					continue
				}
				ct := ct
				lat := latticeOf(ct.St.Kind)
				for _, codec := range codecsOf(ct) {
					codec := codec
					for vi := range lat {
						vi := vi
						if codec == "gztable" && tier != "thorough" && vi > 2 {
							continue
						}
						alpha := []int{0, 1, 2}
						if ct.St.Real && !ct.Sparse && codec == "json" {
							alpha = []int{0, 1, 2, 3}
						}
						for n := 0; n <= 3; n++ {
							for pi := 0; pi < ipow(len(alpha), n); pi++ {
								pat := digitsOf(pi, len(alpha), n)
								for i := range pat {
									pat[i] = alpha[pat[i]]
								}
								for _, rv := range recvKindsFor(tier, codec, vi, n) {
									rv := rv
									emit(func() *Case {
										return &Case{Type: ct.Name, Codec: codec, Val: vi, ValName: lat[vi].Name, Dims: []int{n}, Pat: pat, Recv: rv, Rank: int64(n*1000+vi)*10 + recvRank(rv)}
									})
								}
							}
						}
					}
				}
			}
		},
		run: runVectorRT,
	})
}

func runVectorRT(x *X, cs *Case) {
	ct := contByName[cs.Type]
	v := latticeOf(ct.St.Kind)[cs.Val]
	var obj ad.ConstVector
	if pc := guard("build", func() { obj = buildVector(ct, v, cs.Pat) }); pc != "" {
		x.c.Outcome("vector-rt:cannot build object (" + pc + ")")
		return
	}
	var refTrace trace
	full := x.thorough()
	rtContainer(x, cs, ct, valClass(ct.St.Kind, v), patClass(ct, v, cs.Pat), obj, func(rd *contT, dec any) (string, string) {
		derivs := cs.Codec == "json" && !ct.Sparse && ct.St.Real
		return compareVectors(rd.St, obj, dec.(ad.ConstVector), derivs)
	}, func(rd *contT, dec any) (string, string, string) {
		d, ok := dec.(ad.Vector)
		if !ok {
			return "", "", ""
		}
		re := func(v ad.Vector) ad.Vector { return redecode(x, rd, cs.Codec, v).(ad.Vector) }
		mk := func() trace { return useVector(rd, buildVector(rd, v, cs.Pat).(ad.Vector), full, re) }
		if refTrace == nil {
			refTrace = mk()
		}
		return useVerdict(x, refTrace, useVector(rd, d, full, re), useTol(rd.St.Kind), mk)
	})
}

// redecode: a further round trip of obj through the codec of the case into a fresh
// receiver (panics if the encoder or the decoder fails: recorded by the battery step).
func redecode(x *X, rd *contT, codec string, obj any) any {
	enc, err, pc := encodeObj(x, obj, codec)
	if pc != "" {
		panic("encode: " + pc)
	}
	if err != nil {
		panic("encode: error")
	}
	recv := newReceiver(rd, likeOf(rd), "fresh", nil)
	if err, pc := decodeInto(x, recv, codec, enc, "method"); pc != "" {
		panic("decode: " + pc)
	} else if err != nil {
		panic("decode: error")
	}
	return derefReceiver(recv)
}

// rtContainer: encode obj, decode into the reader's receiver(s), compare.
func rtContainer(x *X, cs *Case, ct *contT, vc, pcl string, obj any, cmp func(rd *contT, dec any) (string, string), use func(rd *contT, dec any) (string, string, string)) {
	kpre := cs.Codec + "|" + ct.fam() + "|"
	kp := kpre + aspectFor("encode", vc, "", pcl) + "|"
	enc, err, pc := encodeObj(x, obj, cs.Codec)
	if pc != "" {
		x.violate(kp+"encode → panic:"+pc, fmt.Sprintf("encoding %s panics: %s", ct.Name, pc), cs)
		return
	}
	if err != nil {
		x.violate(kp+"encode → error", fmt.Sprintf("encoding a finite %s fails: %v", ct.Name, err), cs)
		return
	}
	x.nontrivial(fmt.Sprintf("%s|%s|%d|%v|%v|%d|%v|%s", cs.Type, cs.Codec, cs.Val, cs.Dims, cs.Pat, cs.Base, cs.Ops, cs.Recv))
	x.c.Outcome(cs.Block + ":encoded:" + cs.Codec)
	rd := readerOf(ct)
	vias := []string{"method"}
	if cs.Codec == "json" {
		vias = append(vias, "json.Unmarshal")
	}
	for _, via := range vias {
		recv := newReceiver(rd, likeOf(rd), cs.Recv, cs.Dims)
		err, pc := decodeInto(x, recv, cs.Codec, enc, via)
		k := kp
		if pc != "" {
			x.violate(k+"decode → panic:"+pc, fmt.Sprintf("%s reader (%s) panics on the writer's own output %s", rd.Name, via, show(enc)), cs)
			continue
		}
		if err != nil {
			x.violate(k+"decode → error", fmt.Sprintf("%s reader (%s) rejects the writer's own output %s: %v", rd.Name, via, show(enc), err), cs)
			continue
		}
		cls, detail := cmp(rd, derefReceiver(recv))
		if cls == "SKIP" {
			x.c.Outcome(cs.Block + ":skip:" + detail)
			continue
		}
		if cls != "" {
			rc := ""
			if strings.Contains(pcl, "derivatives") {
				rc = "elements with derivatives"
				pcl = strings.TrimSuffix(pcl, "+derivatives")
			}
			x.violate(kpre+aspectFor(cls, vc, rc, pcl)+recvFor(cls, cs.Recv)+"|"+cls+" lost", fmt.Sprintf("%s → %s → %s: %s", ct.Name, show(enc), rd.Name, detail), cs)
			continue
		}
		x.c.Outcome(cs.Block + ":equal:" + cs.Codec)
		if use != nil && batterySelected(x.tier, cs) {
			if step, ucls, detail := use(rd, derefReceiver(recv)); ucls != "" {
				x.violate(kpre+"any value|receiver="+cs.Recv+"|use of the restored object: "+step+" → "+ucls,
					fmt.Sprintf("%s → %s → %s (%s receiver, %s): the restored object reads equal to the original but does not behave like it in step `%s' of the use battery: %s", ct.Name, show(enc), rd.Name, cs.Recv, via, step, detail), cs)
				continue
			}
			x.c.Outcome(cs.Block + ":behaves like the original:" + cs.Codec)
		}
	}
	if cs.Val == 1 && cs.Recv == "fresh" && len(cs.Pat) >= 3 && cs.Pat[0] != 0 {
		x.c.Sample(map[string]any{"type": ct.Name, "codec": cs.Codec, "pattern": cs.Pat, "dims": cs.Dims, "ops": cs.Ops, "encoding": show(enc)})
	}
}

func show(b []byte) string {
	if len(b) >= 2 && b[0] == 31 && b[1] == 139 {
		return fmt.Sprintf("<gzip %d bytes>", len(b))
	}
	s := string(b)
	if len(s) > 400 {
		s = s[:400] + "…"
	}
	return fmt.Sprintf("%q", s)
}

/* matrix round trips
 * -------------------------------------------------------------------------- */

func regMatrixRT() {
	blocks = append(blocks, &block{
		name: "matrix-rt",
		class: func(cs *Case) string {
			return cs.Codec + "|" + contByName[cs.Type].fam() + "|round-trip"
		},
		enum: func(tier string, emit func(mk func() *Case)) {
			thorough := tier == "thorough"
			for _, ct := range contTypes {
				if !ct.Matrix {
					continue
				}
				ct := ct
				lat := latticeOf(ct.St.Kind)
				for _, codec := range codecsOf(ct) {
					codec := codec
					for vi := range lat {
						vi := vi
						if codec == "gztable" && !thorough && vi > 2 {
							continue
						}
						fills := []int{1}
						if ct.St.Real && !ct.Sparse && codec == "json" {
							fills = []int{1, 3}
						}
						for r := 0; r <= 3; r++ {
							for c := 0; c <= 3; c++ {
								np := ipow(2, r*c)
								for pi := 0; pi < np; pi++ {
									if !thorough && r*c > 4 && vi != 1 {
										// quick: beyond 2x2 every zero pattern only for the value 1;
										// other lattice values as full, diagonal-ish and single-entry matrices
										if !(pi == np-1 || pi == 1 || pi == 0x111&(np-1)) {
											continue
										}
									}
									if !thorough && codec == "gztable" && r*c > 4 && !(pi == np-1 || pi == 1) {
										continue
									}
									for _, fill := range fills {
										pat := digitsOf(pi, 2, r*c)
										for i := range pat {
											pat[i] *= fill
										}
										if fill == 3 && pi == 0 {
											continue
										}
										for _, rv := range recvKindsFor(tier, codec, vi, r*c) {
											rv := rv
											r, c := r, c
											emit(func() *Case {
												return &Case{Type: ct.Name, Codec: codec, Val: vi, ValName: lat[vi].Name, Dims: []int{r, c}, Pat: pat, Recv: rv, Rank: int64(r*c*1000+vi)*10 + recvRank(rv)}
											})
										}
									}
								}
							}
						}
					}
				}
			}
		},
		run: runMatrixRT,
	})
}

func runMatrixRT(x *X, cs *Case) {
	ct := contByName[cs.Type]
	v := latticeOf(ct.St.Kind)[cs.Val]
	var obj ad.Matrix
	if pc := guard("build", func() { obj = buildMatrix(ct, v, cs.Dims[0], cs.Dims[1], cs.Pat) }); pc != "" {
		x.c.Outcome("matrix-rt:cannot build object (" + pc + ")")
		return
	}
	var refTrace trace
	full := x.thorough()
	rtContainer(x, cs, ct, valClass(ct.St.Kind, v), patClass(ct, v, cs.Pat), obj, func(rd *contT, dec any) (string, string) {
		derivs := cs.Codec == "json" && !ct.Sparse && ct.St.Real
		lenient := cs.Codec != "json" && !ct.Sparse
		return compareMatrices(rd.St, obj, dec.(ad.ConstMatrix), derivs, lenient, readFull)
	}, func(rd *contT, dec any) (string, string, string) {
		d, ok := dec.(ad.Matrix)
		if !ok {
			return "", "", ""
		}
		if r, c := d.Dims(); r != cs.Dims[0] || c != cs.Dims[1] {
			return "", "", "" // headerless dense table: an empty matrix comes back without its dims
		}
		re := func(m ad.Matrix) ad.Matrix { return redecode(x, rd, cs.Codec, m).(ad.Matrix) }
		mk := func() trace { return useMatrix(rd, buildMatrix(rd, v, cs.Dims[0], cs.Dims[1], cs.Pat), full, re) }
		if refTrace == nil {
			refTrace = mk()
		}
		return useVerdict(x, refTrace, useMatrix(rd, d, full, re), useTol(rd.St.Kind), mk)
	})
}

/* views
 * -------------------------------------------------------------------------- */

var viewBases = [][]int{
	{1, 2, 3, 4, 5, 6, 7, 8, 9},
	{1, 0, 3, 0, 5, 0, 7, 0, 9},
	{0, 2, 0, 4, 0, 6, 0, 8, 0},
	{0, 0, 0, 0, 0, 0, 0, 0, 9},
}

func buildBase(ct *contT, bi int) ad.Matrix {
	m := ct.newMat(3, 3)
	for i := 0; i < 3; i++ {
		for j := 0; j < 3; j++ {
			if x := viewBases[bi][i*3+j]; x != 0 {
				m.At(i, j).SetInt64(int64(x))
			}
		}
	}
	return m
}

// enumOps: every op sequence (T | non-identity Slice) up to the given depth, driven by
// the dims the view has after each op.
func enumOps(rows, cols, depth int, prefix []viewOp, out *[][]viewOp) {
	if depth == 0 {
		return
	}
	try := func(op viewOp, r, c int) {
		seq := append(append([]viewOp{}, prefix...), op)
		*out = append(*out, seq)
		enumOps(r, c, depth-1, seq, out)
	}
	try(viewOp{T: true}, cols, rows)
	for r0 := 0; r0 <= rows; r0++ {
		for r1 := r0; r1 <= rows; r1++ {
			for c0 := 0; c0 <= cols; c0++ {
				for c1 := c0; c1 <= cols; c1++ {
					if r0 == 0 && r1 == rows && c0 == 0 && c1 == cols {
						continue
					}
					empty := r1 == r0 || c1 == c0
					if empty && (len(prefix) > 0 || r0 != 0 || c0 != 0) {
						continue // empty views only directly off the base, anchored at the origin
					}
					if empty {
						seq := append(append([]viewOp{}, prefix...), viewOp{R0: r0, R1: r1, C0: c0, C1: c1})
						*out = append(*out, seq)
						continue
					}
					try(viewOp{R0: r0, R1: r1, C0: c0, C1: c1}, r1-r0, c1-c0)
				}
			}
		}
	}
}

// opsClass: coarse class of a view (T only | Slice | empty Slice | T and Slice mixed, by
// which came first).
func opsClass(ops []viewOp) string {
	hasT, hasS, off, empty, first := false, false, false, false, ""
	for _, o := range ops {
		switch {
		case o.T:
			hasT = true
			if first == "" {
				first = "T"
			}
		default:
			hasS = true
			if first == "" {
				first = "Slice"
			}
			if o.R0 == o.R1 || o.C0 == o.C1 {
				empty = true
			}
			if o.R0 != 0 || o.C0 != 0 {
				off = true
			}
		}
	}
	switch {
	case empty:
		return "Slice(empty)"
	case hasT && hasS && first == "T":
		return "T·Slice"
	case hasT && hasS:
		return "Slice·T"
	case hasT:
		return "T"
	}
	_ = off
	return "Slice"
}

func regMatrixView() {
	blocks = append(blocks, &block{
		name: "matrix-view",
		class: func(cs *Case) string {
			return cs.Codec + "|" + contByName[cs.Type].fam() + "|view"
		},
		enum: func(tier string, emit func(mk func() *Case)) {
			depth, nb := 2, 2
			codecs := []string{"json", "table"}
			if tier == "thorough" {
				depth, nb = 3, 4
				codecs = []string{"json", "table", "gztable"}
			}
			var seqs [][]viewOp
			enumOps(3, 3, depth, nil, &seqs)
			for _, ct := range contTypes {
				if !ct.Matrix {
					continue
				}
				ct := ct
				for _, codec := range codecs {
					codec := codec
					for bi := 0; bi < nb; bi++ {
						bi := bi
						for si := range seqs {
							ops := seqs[si]
							emit(func() *Case {
								return &Case{Type: ct.Name, Codec: codec, Base: bi, Ops: ops, Recv: "fresh", Rank: int64(len(ops)*100 + bi)}
							})
						}
					}
				}
			}
		},
		run: runMatrixView,
	})
}

func applyOps(m ad.Matrix, ops []viewOp) ad.Matrix {
	for _, o := range ops {
		if o.T {
			m = m.T()
		} else {
			m = m.Slice(o.R0, o.R1, o.C0, o.C1)
		}
	}
	return m
}

func runMatrixView(x *X, cs *Case) {
	ct := contByName[cs.Type]
	var view ad.Matrix
	if pc := guard("view", func() { view = applyOps(buildBase(ct, cs.Base), cs.Ops) }); pc != "" {
		x.c.Outcome("matrix-view:view cannot be built (C10): " + opsClass(cs.Ops))
		return
	}
	rd, prob := fullReadMatrix(view, ct.St.Kind, readMinimal)
	if prob != "" {
		x.c.Outcome("matrix-view:view not readable (C10): " + opsClass(cs.Ops))
		return
	}
	// deep copy through the public element reads
	cp := ct.newMat(rd.rows, rd.cols)
	for i := 0; i < rd.rows; i++ {
		for j := 0; j < rd.cols; j++ {
			e := rd.elems[[2]int{i, j}]
			if ct.Sparse && isZeroScalar(e, ct.St.Kind) {
				continue
			}
			cp.At(i, j).Set(e)
		}
	}
	kp := cs.Codec + "|" + ct.fam() + "|view=" + opsClass(cs.Ops) + "|"
	encV, err, pc := encodeObj(x, view, cs.Codec)
	if pc != "" {
		x.violate(kp+"encode → panic:"+pc, fmt.Sprintf("encoding the view panics: %s", pc), cs)
		return
	}
	if err != nil {
		x.violate(kp+"encode → error", fmt.Sprintf("encoding the view fails: %v", err), cs)
		return
	}
	encC, err2, pc2 := encodeObj(x, cp, cs.Codec)
	if pc2 != "" || err2 != nil {
		x.c.Outcome("matrix-view:deep copy cannot be encoded")
		return
	}
	x.nontrivial(fmt.Sprintf("%s|%s|%d|%v", cs.Type, cs.Codec, cs.Base, cs.Ops))
	if !bytes.Equal(encV, encC) && cs.Codec != "gztable" {
		x.violate(kp+"encoding of the view differs from encoding of its deep copy",
			fmt.Sprintf("%s view %v of base %v (reads as %s): view encodes as %s, its deep copy as %s", ct.Name, cs.Ops, viewBases[cs.Base], describeM(rd), show(encV), show(encC)), cs)
		return
	}
	x.c.Outcome("matrix-view:same-encoding:" + cs.Codec)
	recv := newReceiver(ct, likeOf(ct), "fresh", nil)
	if err, pc := decodeInto(x, recv, cs.Codec, encV, "method"); pc != "" || err != nil {
		x.violate(kp+"decode → "+map[bool]string{true: "panic:" + pc, false: "error"}[pc != ""], fmt.Sprintf("reader fails on the encoding of a view %s: %v %s", show(encV), err, pc), cs)
		return
	}
	cls, detail := compareMatrices(ct.St, view, derefReceiver(recv).(ad.ConstMatrix), false, cs.Codec != "json" && !ct.Sparse, readMinimal)
	if cls != "" && cls != "SKIP" {
		x.violate(kp+cls+" lost", fmt.Sprintf("%s view %v → %s: %s", ct.Name, cs.Ops, show(encV), detail), cs)
		return
	}
	x.c.Outcome("matrix-view:equal:" + cs.Codec)
	if d, ok := derefReceiver(recv).(ad.Matrix); ok && (len(cs.Ops) == 1 || (x.thorough() && len(cs.Ops) == 2)) {
		if r, c := d.Dims(); r == rd.rows && c == rd.cols {
			re := func(m ad.Matrix) ad.Matrix { return redecode(x, ct, cs.Codec, m).(ad.Matrix) }
			if step, ucls, detail := useVerdict(x, useMatrix(ct, cp, x.thorough(), re), useMatrix(ct, d, x.thorough(), re), useTol(ct.St.Kind), nil); ucls != "" {
				x.violate(kp+"use of the restored object: "+step+" → "+ucls, fmt.Sprintf("%s view %v → %s: the restored object does not behave like a directly built copy of the view in step `%s': %s", ct.Name, cs.Ops, show(encV), step, detail), cs)
				return
			}
			x.c.Outcome("matrix-view:behaves like the original:" + cs.Codec)
		}
	}
	if len(cs.Ops) == 2 && cs.Ops[0].T && cs.Base == 0 {
		x.c.Sample(map[string]any{"type": ct.Name, "codec": cs.Codec, "ops": cs.Ops, "encoding": show(encV)})
	}
}

func describeM(rd mread) string {
	var sb strings.Builder
	fmt.Fprintf(&sb, "%dx%d[", rd.rows, rd.cols)
	for i := 0; i < rd.rows; i++ {
		if i > 0 {
			sb.WriteString(";")
		}
		for j := 0; j < rd.cols; j++ {
			if j > 0 {
				sb.WriteString(" ")
			}
			fmt.Fprintf(&sb, "%v", rd.elems[[2]int{i, j}].GetFloat64())
		}
	}
	sb.WriteString("]")
	return sb.String()
}

/* vector slices */

func regVectorView() {
	blocks = append(blocks, &block{
		name: "vector-view",
		class: func(cs *Case) string {
			return cs.Codec + "|" + contByName[cs.Type].fam() + "|view"
		},
		enum: func(tier string, emit func(mk func() *Case)) {
			type sl struct{ a, b int }
			var seqs [][]viewOp
			var rec func(n, depth int, prefix []viewOp)
			rec = func(n, depth int, prefix []viewOp) {
				if depth == 0 {
					return
				}
				for a := 0; a <= n; a++ {
					for b := a; b <= n; b++ {
						if a == 0 && b == n {
							continue
						}
						seq := append(append([]viewOp{}, prefix...), viewOp{R0: a, R1: b})
						seqs = append(seqs, seq)
						rec(b-a, depth-1, seq)
					}
				}
			}
			d := 2
			if tier == "thorough" {
				d = 3
			}
			rec(4, d, nil)
			for _, ct := range contTypes {
				if ct.Matrix || ct.ConstV {
					continue
				}
				ct := ct
				for _, codec := range []string{"json", "table"} {
					codec := codec
					for bi := 0; bi < 2; bi++ {
						bi := bi
						for si := range seqs {
							ops := seqs[si]
							emit(func() *Case {
								return &Case{Type: ct.Name, Codec: codec, Base: bi, Ops: ops, Recv: "fresh", Rank: int64(len(ops)*100 + bi)}
							})
						}
					}
				}
			}
		},
		run: runVectorView,
	})
}

var vecBases = [][]int{{1, 2, 3, 4}, {0, 2, 0, 4}}

func runVectorView(x *X, cs *Case) {
	ct := contByName[cs.Type]
	var view ad.Vector
	if pc := guard("view", func() {
		v := ct.newVec(4)
		for i, e := range vecBases[cs.Base] {
			if e != 0 {
				v.At(i).SetInt64(int64(e))
			}
		}
		for _, o := range cs.Ops {
			v = v.Slice(o.R0, o.R1)
		}
		view = v
	}); pc != "" {
		x.c.Outcome("vector-view:view cannot be built")
		return
	}
	rd, prob := fullReadVector(view, ct.St.Kind, readLight)
	if prob != "" {
		x.c.Outcome("vector-view:view not readable")
		return
	}
	cp := ct.newVec(rd.dim)
	for i := 0; i < rd.dim; i++ {
		if ct.Sparse && isZeroScalar(rd.elems[i], ct.St.Kind) {
			continue
		}
		cp.At(i).Set(rd.elems[i])
	}
	cls := "Slice"
	if len(cs.Ops) > 1 {
		cls = "Slice·Slice"
	}
	kp := cs.Codec + "|" + ct.fam() + "|view=" + cls + "|"
	encV, err, pc := encodeObj(x, view, cs.Codec)
	if pc != "" || err != nil {
		x.violate(kp+"encode → "+map[bool]string{true: "panic:" + pc, false: "error"}[pc != ""], fmt.Sprintf("encoding the slice fails: %v %s", err, pc), cs)
		return
	}
	encC, err2, pc2 := encodeObj(x, cp, cs.Codec)
	if pc2 != "" || err2 != nil {
		return
	}
	x.nontrivial(fmt.Sprintf("%s|%s|%d|%v", cs.Type, cs.Codec, cs.Base, cs.Ops))
	if !bytes.Equal(encV, encC) {
		x.violate(kp+"encoding of the view differs from encoding of its deep copy", fmt.Sprintf("%s slice %v: %s vs deep copy %s", ct.Name, cs.Ops, show(encV), show(encC)), cs)
		return
	}
	recv := newReceiver(ct, likeOf(ct), "fresh", nil)
	if err, pc := decodeInto(x, recv, cs.Codec, encV, "method"); pc != "" || err != nil {
		x.violate(kp+"decode → "+map[bool]string{true: "panic:" + pc, false: "error"}[pc != ""], fmt.Sprintf("reader fails on the encoding of a slice %s: %v %s", show(encV), err, pc), cs)
		return
	}
	c2, detail := compareVectors(ct.St, view, derefReceiver(recv).(ad.ConstVector), false)
	if c2 != "" && c2 != "SKIP" {
		x.violate(kp+c2+" lost", fmt.Sprintf("%s slice %v → %s: %s", ct.Name, cs.Ops, show(encV), detail), cs)
		return
	}
	x.c.Outcome("vector-view:equal:" + cs.Codec)
	if d, ok := derefReceiver(recv).(ad.Vector); ok && (len(cs.Ops) == 1 || (x.thorough() && len(cs.Ops) == 2)) {
		re := func(v ad.Vector) ad.Vector { return redecode(x, ct, cs.Codec, v).(ad.Vector) }
		if step, ucls, detail := useVerdict(x, useVector(ct, cp, x.thorough(), re), useVector(ct, d, x.thorough(), re), useTol(ct.St.Kind), nil); ucls != "" {
			x.violate(kp+"use of the restored object: "+step+" → "+ucls, fmt.Sprintf("%s slice %v → %s: the restored object does not behave like a directly built copy of the slice in step `%s': %s", ct.Name, cs.Ops, show(encV), step, detail), cs)
			return
		}
		x.c.Outcome("vector-view:behaves like the original:" + cs.Codec)
	}
}
