package main

import (
	"encoding/json"
	"fmt"
	"reflect"
	"strings"

	ad "github.com/pbenner/autodiff"
)

/* scalar JSON round trip
 * -------------------------------------------------------------------------- */

func valClass(k int, v val) string {
	if isIntKind(k) {
		switch {
		case v.I == 0:
			return "zero"
		case v.Name == "min" || v.Name == "max":
			return "type-" + v.Name
		case v.I > 1<<53 || v.I < -(1<<53):
			return ">2^53"
		}
		return "small"
	}
	switch v.Name {
	case "0":
		return "zero"
	case "-0":
		return "neg-zero"
	case "1", "-1":
		return "small"
	case "1/3", "0.1":
		return "fraction"
	case "maxfloat", "-maxfloat":
		return "maxfloat"
	case "2^53", "2^53+2", "2^24":
		return "big-integer"
	}
	return "subnormal"
}

func buildScalar(st *scalarT, v val, rs *realSpec) ad.ConstScalar {
	if st.Const {
		return st.mkConst(v)
	}
	s := ad.NullScalar(st.T)
	setVal(s, st.Kind, v)
	if st.Real && rs != nil {
		applyReal(s.(ad.MagicScalar), *rs)
	}
	return s
}

// dirty receiver: a scalar that was used before (value 7; Real: order 2, N=2, non-zero derivatives)
func dirtyScalar(st *scalarT) ad.Scalar {
	s := ad.NullScalar(st.T)
	s.SetInt64(7)
	if st.Real {
		m := s.(ad.MagicScalar)
		m.Alloc(2, 2)
		m.SetDerivative(0, 5)
		m.SetDerivative(1, 6)
		m.SetHessian(0, 0, 3)
		m.SetHessian(0, 1, 4)
		m.SetHessian(1, 0, 4)
		m.SetHessian(1, 1, 8)
	}
	return s
}

func safeMarshal(m json.Marshaler) (b []byte, err error, pc string) {
	defer func() {
		if r := recover(); r != nil {
			pc = panicClass(r)
		}
	}()
	b, err = m.MarshalJSON()
	return
}

func safeJsonMarshal(m any) (b []byte, err error, pc string) {
	defer func() {
		if r := recover(); r != nil {
			pc = panicClass(r)
		}
	}()
	b, err = json.Marshal(m)
	return
}

func safeUnmarshal(u json.Unmarshaler, data []byte) (err error, pc string) {
	defer func() {
		if r := recover(); r != nil {
			pc = panicClass(r)
		}
	}()
	err = u.UnmarshalJSON(data)
	return
}

func safeJsonUnmarshal(data []byte, p any) (err error, pc string) {
	defer func() {
		if r := recover(); r != nil {
			pc = panicClass(r)
		}
	}()
	err = json.Unmarshal(data, p)
	return
}

// compareScalar: is y observably equal to x (as far as the JSON format carries it)?
// Returns "" or (what-class, detail).
func compareScalar(st *scalarT, x, y ad.ConstScalar, carriesDerivs bool) (cls, detail string) {
	defer func() {
		if r := recover(); r != nil {
			cls, detail = "read-panics:"+panicClass(r), fmt.Sprintf("reading the decoded scalar panics: %v", r)
		}
	}()
	if a, b := bitsOf(x, st.Kind), bitsOf(y, st.Kind); a != b {
		return "value", fmt.Sprintf("value %s decoded as %s", a, b)
	}
	if !st.Real {
		return "", ""
	}
	n := x.GetN()
	has := false
	if carriesDerivs {
		for i := 0; i < n; i++ {
			if x.GetDerivative(i) != 0 {
				has = true
			}
			for j := 0; j < n; j++ {
				if x.GetHessian(i, j) != 0 {
					has = true
				}
			}
		}
	}
	if has {
		if y.GetN() != n {
			// still try to read what the original carried, to describe the loss
			return "N", fmt.Sprintf("N=%d (order %d) decoded as N=%d (order %d)", n, x.GetOrder(), y.GetN(), y.GetOrder())
		}
		for i := 0; i < n; i++ {
			if a, b := x.GetDerivative(i), y.GetDerivative(i); a != b {
				return "gradient", fmt.Sprintf("derivative %d: %v decoded as %v", i, a, b)
			}
		}
		for i := 0; i < n; i++ {
			for j := 0; j < n; j++ {
				if a, b := x.GetHessian(i, j), y.GetHessian(i, j); a != b {
					return "hessian", fmt.Sprintf("hessian (%d,%d): %v decoded as %v", i, j, a, b)
				}
			}
		}
		return "", ""
	}
	// nothing carried: the decoded scalar must not show derivatives of its own
	m := y.GetN()
	for i := 0; i < m; i++ {
		if d := y.GetDerivative(i); d != 0 {
			return "stale-derivative", fmt.Sprintf("original has no derivatives, decoded scalar reports derivative %d = %v (order %d, N=%d)", i, d, y.GetOrder(), m)
		}
		for j := 0; j < m; j++ {
			if h := y.GetHessian(i, j); h != 0 {
				return "stale-derivative", fmt.Sprintf("original has no derivatives, decoded scalar reports hessian (%d,%d) = %v", i, j, h)
			}
		}
	}
	return "", ""
}

// carriedSpec reduces the derivative part of a Real scalar to what the JSON format carries
// (see Assume): the gradient iff one of its entries is non-zero, the Hessian iff one of its
// entries is non-zero; order and N of all-zero derivative blocks are not part of the
// format. The use battery compares the restored scalar with the original in this form.
func carriedSpec(r *realSpec) *realSpec {
	if r == nil {
		return nil
	}
	g, h := false, false
	if r.Order >= 1 {
		for _, x := range r.Grad {
			g = g || x != 0
		}
	}
	if r.Order >= 2 {
		for _, x := range r.Hess {
			h = h || x != 0
		}
	}
	switch {
	case h:
		return &realSpec{Order: 2, N: r.N, Grad: r.Grad, Hess: r.Hess}
	case g:
		return &realSpec{Order: 1, N: r.N, Grad: r.Grad}
	}
	return &realSpec{}
}

func scalarFamily(st *scalarT) string {
	if st.Const {
		return "const-scalar<" + st.Name + ">"
	}
	return "scalar<" + st.Name + ">"
}

func regScalarBlocks() {
	blocks = append(blocks, &block{
		name: "scalar-json",
		class: func(cs *Case) string {
			return "json|" + scalarFamily(scalarByName[cs.Type]) + "|round-trip"
		},
		enum: func(tier string, emit func(mk func() *Case)) {
			specsFull := enumRealSpecs(2, tier == "thorough")
			for _, st := range scalarTypes {
				st := st
				lat := latticeOf(st.Kind)
				for vi := range lat {
					vi := vi
					specs := []realSpec{{}}
					if st.Real {
						specs = specsFull
					}
					for si := range specs {
						si := si
						recvs := []string{"fresh", "used"}
						if st.Const {
							recvs = []string{"fresh"}
						}
						for _, rv := range recvs {
							rv := rv
							emit(func() *Case {
								cs := &Case{Type: st.Name, Codec: "json", Val: vi, ValName: lat[vi].Name, Recv: rv, Rank: int64(vi*10 + si)}
								if st.Real {
									sp := specs[si]
									cs.Real = &sp
									cs.Rank = int64(sp.Order*1000 + sp.N*100 + vi)
								}
								return cs
							})
						}
					}
				}
			}
		},
		run: runScalarRT,
	})
}

func runScalarRT(x *X, cs *Case) {
	st := scalarByName[cs.Type]
	v := latticeOf(st.Kind)[cs.Val]
	obj := buildScalar(st, v, cs.Real)
	vc, rc := valClass(st.Kind, v), ""
	if cs.Real != nil {
		rc = cs.Real.class()
	}
	kpre := "json|" + scalarFamily(st) + "|"
	kp := kpre + aspectFor("encode", vc, rc, "") + "|"
	enc, err, pc := safeMarshal(obj)
	if pc != "" {
		x.violate(kp+"encode → panic:"+pc, fmt.Sprintf("MarshalJSON of %s(%s) panics", st.Name, v.Name), cs)
		return
	}
	if err != nil {
		x.violate(kp+"encode → error", fmt.Sprintf("MarshalJSON of finite %s(%s) fails: %v", st.Name, v.Name, err), cs)
		return
	}
	// json.Marshal must agree with the method
	if enc2, err2, pc2 := safeJsonMarshal(obj); pc2 != "" || err2 != nil || !jsonEqualBytes(enc, enc2) {
		x.violate(kp+"encode → json.Marshal differs from MarshalJSON", fmt.Sprintf("json.Marshal gives %q/%v/%s, MarshalJSON gives %q", enc2, err2, pc2, enc), cs)
		return
	}
	x.nontrivial(fmt.Sprintf("%s|%d|%v|%s", cs.Type, cs.Val, cs.Real, cs.Recv))
	x.c.Outcome("scalar-json:encoded")
	carries := true
	type target struct {
		name string
		st   *scalarT
		dec  func() (ad.ConstScalar, error, string)
	}
	targets := []target{}
	if st.Const {
		// the library has no reader for constant scalars; the same JSON is read into the
		// mutable sibling and (through reflection) into a value of the constant type itself
		sib := scalarByName[st.Sibling]
		targets = append(targets, target{"sibling:" + sib.Name, sib, func() (ad.ConstScalar, error, string) {
			r := ad.NullScalar(sib.T)
			err, pc := safeUnmarshal(r.(json.Unmarshaler), enc)
			return r, err, pc
		}})
		targets = append(targets, target{"json.Unmarshal(&" + st.Name + ")", st, func() (ad.ConstScalar, error, string) {
			p := st.newPtr()
			err, pc := safeJsonUnmarshal(enc, p)
			return st.deref(p), err, pc
		}})
	} else {
		mk := func() ad.Scalar {
			if cs.Recv == "used" {
				return dirtyScalar(st)
			}
			return ad.NullScalar(st.T)
		}
		targets = append(targets, target{"UnmarshalJSON", st, func() (ad.ConstScalar, error, string) {
			r := mk()
			err, pc := safeUnmarshal(r.(json.Unmarshaler), enc)
			return r, err, pc
		}})
		targets = append(targets, target{"json.Unmarshal", st, func() (ad.ConstScalar, error, string) {
			r := mk()
			p := reflect.New(reflect.TypeOf(r)) // &r with r of the concrete scalar type
			p.Elem().Set(reflect.ValueOf(r))
			err, pc := safeJsonUnmarshal(enc, p.Interface())
			return p.Elem().Interface().(ad.ConstScalar), err, pc
		}})
	}
	for _, t := range targets {
		y, err, pc := t.dec()
		k := kp
		if pc != "" {
			x.violate(k+"decode → panic:"+pc, fmt.Sprintf("%s of %q panics", t.name, enc), cs)
			continue
		}
		if err != nil {
			x.violate(k+"decode → error", fmt.Sprintf("%s rejects the writer's own output %q: %v", t.name, enc, err), cs)
			continue
		}
		if cls, detail := compareScalar(t.st, obj, y, carries); cls != "" {
			x.violate(kpre+aspectFor(cls, vc, rc, "")+recvFor(cls, cs.Recv)+"|"+cls+" lost", fmt.Sprintf("%s(%s) → %q → %s: %s", st.Name, v.Name, enc, t.name, detail), cs)
			continue
		}
		x.c.Outcome("scalar-json:equal")
		mk := func() trace { return useScalar(t.st, buildScalar(t.st, v, carriedSpec(cs.Real))) }
		if step, ucls, detail := useVerdict(x, mk(), useScalar(t.st, y), useTol(t.st.Kind), mk); ucls != "" {
			x.violate(kpre+"any value|receiver="+cs.Recv+"|use of the restored object: "+step+" → "+ucls,
				fmt.Sprintf("%s(%s) → %q → %s: the restored scalar reads equal to the original but does not behave like it in step `%s' of the use battery: %s", st.Name, v.Name, enc, t.name, step, detail), cs)
			continue
		}
		x.c.Outcome("scalar-json:behaves like the original")
	}
	if cs.Val == 1 && cs.Recv == "fresh" && (cs.Real == nil || cs.Real.Order == 2) {
		x.c.Sample(map[string]any{"type": st.Name, "value": v.Name, "real": cs.Real, "json": string(enc)})
	}
}

// aspectFor selects the part of the case description a violation class depends on, so
// that one defect maps to a handful of keys.
func aspectFor(cls, vc, rc, pc string) string {
	join := func(p ...string) string {
		o := []string{}
		for _, s := range p {
			if s != "" {
				o = append(o, s)
			}
		}
		return strings.Join(o, ",")
	}
	switch {
	case strings.Contains(cls, "stale-derivative"):
		return "any value"
	case strings.Contains(cls, "gradient"), strings.Contains(cls, "hessian"), strings.HasSuffix(cls, "N"), strings.Contains(cls, "read-panics"):
		if rc == "" {
			return join(pc)
		}
		return join(rc, pc)
	case strings.Contains(cls, "dimension"), strings.Contains(cls, "non-zero positions"):
		return join(pc)
	case strings.Contains(cls, "value"):
		return join(vc)
	}
	return join(vc, rc, pc)
}

func recvFor(cls, recv string) string {
	if strings.Contains(cls, "stale-derivative") {
		return ",receiver=" + recv
	}
	return ""
}

func jsonEqualBytes(a, b []byte) bool {
	var x, y any
	if json.Unmarshal(a, &x) != nil || json.Unmarshal(b, &y) != nil {
		return string(a) == string(b)
	}
	ca, _ := json.Marshal(x)
	cb, _ := json.Marshal(y)
	// numbers went through float64 here; fall back to byte comparison of compact forms
	if string(ca) == string(cb) {
		return compactJSON(a) == compactJSON(b)
	}
	return false
}
