package main

import (
	"bytes"
	"encoding/json"
	"fmt"
	"math"
	"os"
	"sort"
	"strings"

	ad "github.com/pbenner/autodiff"
	st "github.com/pbenner/autodiff/statistics"
	"github.com/pbenner/autodiff/statistics/generic"
	md "github.com/pbenner/autodiff/statistics/matrixDistribution"
	sd "github.com/pbenner/autodiff/statistics/scalarDistribution"
	vd "github.com/pbenner/autodiff/statistics/vectorDistribution"
)

/* catalogue of distribution instances
 * -------------------------------------------------------------------------- */

type distT struct {
	Name       string
	Kind       string // scalar | vector | matrix
	Registered bool   // reachable through Import{Scalar,Vector,Matrix}Pdf
	Rescaled   bool   // the config stores parameters on another scale (exp/log): compare with tolerance
	Nested     bool
	Build      func(t ad.ScalarType) (st.ConfigurableDistribution, error)
	Fresh      func() st.ConfigurableDistribution
}

var distTypes []*distT
var distByName = map[string]*distT{}

func sc(t ad.ScalarType, v float64) ad.Scalar { return ad.NewScalar(t, v) }
func vec(t ad.ScalarType, v ...float64) ad.Vector {
	return ad.AsDenseVector(t, ad.NewDenseFloat64Vector(v))
}
func mat(t ad.ScalarType, r, c int, v ...float64) ad.Matrix {
	return ad.AsDenseMatrix(t, ad.NewDenseFloat64Matrix(v, r, c))
}

func must[T any](v T, err error) T {
	if err != nil {
		panic(err)
	}
	return v
}

func sNormal(t ad.ScalarType, mu, sigma float64) st.ScalarPdf {
	return must(sd.NewNormalDistribution(sc(t, mu), sc(t, sigma)))
}
func sGamma(t ad.ScalarType, a, b float64) st.ScalarPdf {
	return must(sd.NewGammaDistribution(sc(t, a), sc(t, b)))
}
func sCat(t ad.ScalarType, p ...float64) st.ScalarPdf {
	return must(sd.NewCategoricalDistribution(vec(t, p...)))
}
func sMix(t ad.ScalarType) st.ScalarPdf {
	return must(sd.NewMixture(vec(t, 0.25, 0.75), []st.ScalarPdf{sNormal(t, 0.5, 2), sGamma(t, 2, 0.5)}))
}
func vNormal(t ad.ScalarType, shift float64) st.VectorPdf {
	return must(vd.NewNormalDistribution(vec(t, 1+shift, 2), mat(t, 2, 2, 2, 0.5, 0.5, 1)))
}
func vIid(t ad.ScalarType) st.VectorPdf { return must(vd.NewScalarIid(sNormal(t, 0.5, 2), 2)) }
func vId(t ad.ScalarType) st.VectorPdf {
	return must(vd.NewScalarId(sNormal(t, 0.5, 2), sGamma(t, 2, 0.5)))
}
func vMix(t ad.ScalarType) st.VectorPdf {
	return must(vd.NewMixture(vec(t, 0.25, 0.75), []st.VectorPdf{vNormal(t, 0), vNormal(t, 1)}))
}
func mVid(t ad.ScalarType) st.MatrixPdf { return must(md.NewVectorId(vNormal(t, 0), vNormal(t, 1))) }

func initDist() {
	add := func(d *distT) { distTypes = append(distTypes, d); distByName[d.Name] = d }
	type B = func(t ad.ScalarType) (st.ConfigurableDistribution, error)
	type C = st.ConfigurableDistribution
	S := func(name string, reg, resc bool, b B, f func() C) {
		add(&distT{Name: name, Kind: "scalar", Registered: reg, Rescaled: resc, Build: b, Fresh: f})
	}
	S("scalar:beta", true, false, func(t ad.ScalarType) (C, error) { return sd.NewBetaDistribution(sc(t, 2), sc(t, 3.5), false) }, func() C { return new(sd.BetaDistribution) })
	S("scalar:beta(log scale)", true, false, func(t ad.ScalarType) (C, error) { return sd.NewBetaDistribution(sc(t, 2), sc(t, 3.5), true) }, func() C { return new(sd.BetaDistribution) })
	S("scalar:binomial", true, true, func(t ad.ScalarType) (C, error) { return sd.NewBinomialDistribution(sc(t, 0.25), 5) }, func() C { return new(sd.BinomialDistribution) })
	S("scalar:categorical", true, true, func(t ad.ScalarType) (C, error) { return sd.NewCategoricalDistribution(vec(t, 0.25, 0.75)) }, func() C { return new(sd.CategoricalDistribution) })
	S("scalar:cauchy", true, false, func(t ad.ScalarType) (C, error) { return sd.NewCauchyDistribution(sc(t, 0.5), sc(t, 2)) }, func() C { return new(sd.CauchyDistribution) })
	S("scalar:chi-squared", false, false, func(t ad.ScalarType) (C, error) { return sd.NewChiSquaredDistribution(t, 3) }, func() C { return new(sd.ChiSquaredDistribution) })
	S("scalar:delta", true, false, func(t ad.ScalarType) (C, error) { return sd.NewDeltaDistribution(sc(t, 1.5)) }, func() C { return new(sd.DeltaDistribution) })
	S("scalar:exponential", true, true, func(t ad.ScalarType) (C, error) { return sd.NewExponentialDistribution(sc(t, 2)) }, func() C { return new(sd.ExponentialDistribution) })
	S("scalar:gamma", true, false, func(t ad.ScalarType) (C, error) { return sd.NewGammaDistribution(sc(t, 2), sc(t, 0.5)) }, func() C { return new(sd.GammaDistribution) })
	S("scalar:generalized gamma", true, false, func(t ad.ScalarType) (C, error) {
		return sd.NewGeneralizedGammaDistribution(sc(t, 1.5), sc(t, 2), sc(t, 0.5))
	}, func() C { return new(sd.GeneralizedGammaDistribution) })
	S("scalar:geometric", true, true, func(t ad.ScalarType) (C, error) { return sd.NewGeometricDistribution(sc(t, 0.25)) }, func() C { return new(sd.GeometricDistribution) })
	S("scalar:gev", true, false, func(t ad.ScalarType) (C, error) { return sd.NewGevDistribution(sc(t, 0.5), sc(t, 2), sc(t, 0.25)) }, func() C { return new(sd.GevDistribution) })
	S("scalar:laplace", true, false, func(t ad.ScalarType) (C, error) { return sd.NewLaplaceDistribution(sc(t, 0.5), sc(t, 2)) }, func() C { return new(sd.LaplaceDistribution) })
	S("scalar:negative binomial", true, true, func(t ad.ScalarType) (C, error) { return sd.NewNegativeBinomialDistribution(sc(t, 3), sc(t, 0.25)) }, func() C { return new(sd.NegativeBinomialDistribution) })
	S("scalar:normal", true, false, func(t ad.ScalarType) (C, error) { return sd.NewNormalDistribution(sc(t, 0.5), sc(t, 2)) }, func() C { return new(sd.NormalDistribution) })
	S("scalar:pareto", true, false, func(t ad.ScalarType) (C, error) { return sd.NewParetoDistribution(sc(t, 1.5), sc(t, 2)) }, func() C { return new(sd.ParetoDistribution) })
	S("scalar:generalized pareto", true, false, func(t ad.ScalarType) (C, error) { return sd.NewGParetoDistribution(sc(t, 0.5), sc(t, 2), sc(t, 0.25)) }, func() C { return new(sd.GParetoDistribution) })
	S("scalar:poisson", true, true, func(t ad.ScalarType) (C, error) { return sd.NewPoissonDistribution(sc(t, 2.5)) }, func() C { return new(sd.PoissonDistribution) })
	S("scalar:power law", true, false, func(t ad.ScalarType) (C, error) { return sd.NewPowerLawDistribution(sc(t, 2.5), sc(t, 1)) }, func() C { return new(sd.PowerLawDistribution) })
	S("scalar:pdf log transform(normal)", true, false, func(t ad.ScalarType) (C, error) { return sd.NewPdfLogTransform(sNormal(t, 0.5, 2), 0.5) }, func() C { return new(sd.PdfLogTransform) })
	S("scalar:pdf translation(gamma)", true, false, func(t ad.ScalarType) (C, error) { return sd.NewPdfTranslation(sGamma(t, 2, 0.5), 0.5) }, func() C { return new(sd.PdfTranslation) })
	S("scalar:mixture(normal,gamma)", true, true, func(t ad.ScalarType) (C, error) {
		return sd.NewMixture(vec(t, 0.25, 0.75), []st.ScalarPdf{sNormal(t, 0.5, 2), sGamma(t, 2, 0.5)})
	}, func() C { return new(sd.Mixture) })
	S("scalar:mixture(mixture,normal)", true, true, func(t ad.ScalarType) (C, error) {
		return sd.NewMixture(vec(t, 0.5, 0.5), []st.ScalarPdf{sMix(t), sNormal(t, -1, 1)})
	}, func() C { return new(sd.Mixture) })

	V := func(name string, reg, resc bool, b B, f func() C) {
		add(&distT{Name: name, Kind: "vector", Registered: reg, Rescaled: resc, Build: b, Fresh: f})
	}
	V("vector:normal", true, false, func(t ad.ScalarType) (C, error) {
		return vd.NewNormalDistribution(vec(t, 1, 2), mat(t, 2, 2, 2, 0.5, 0.5, 1))
	}, func() C { return new(vd.NormalDistribution) })
	V("vector:skew normal", true, false, func(t ad.ScalarType) (C, error) {
		return vd.NewSkewNormalDistribution(vec(t, 1, 2), mat(t, 2, 2, 2, 0.5, 0.5, 1), vec(t, 0.5, -1), vec(t, 1, 2))
	}, func() C { return new(vd.SkewNormalDistribution) })
	V("vector:t", false, false, func(t ad.ScalarType) (C, error) {
		return vd.NewTDistribution(sc(t, 3), vec(t, 1, 2), mat(t, 2, 2, 2, 0.5, 0.5, 1))
	}, func() C { return new(vd.TDistribution) })
	V("vector:logistic regression", false, false, func(t ad.ScalarType) (C, error) { return vd.NewLogisticRegression(vec(t, 0.5, -1, 2)) }, func() C { return new(vd.LogisticRegression) })
	V("vector:scalar id(normal,gamma)", true, false, func(t ad.ScalarType) (C, error) { return vd.NewScalarId(sNormal(t, 0.5, 2), sGamma(t, 2, 0.5)) }, func() C { return new(vd.ScalarId) })
	V("vector:scalar iid(normal)", true, false, func(t ad.ScalarType) (C, error) { return vd.NewScalarIid(sNormal(t, 0.5, 2), 3) }, func() C { return new(vd.ScalarIid) })
	V("vector:vector id(scalar iid,scalar id)", true, false, func(t ad.ScalarType) (C, error) { return vd.NewVectorId(vIid(t), vId(t)) }, func() C { return new(vd.VectorId) })
	V("vector:vector iid(normal)", true, false, func(t ad.ScalarType) (C, error) { return vd.NewVectorIid(vNormal(t, 0), 2) }, func() C { return new(vd.VectorIid) })
	V("vector:mixture(normal,normal)", true, true, func(t ad.ScalarType) (C, error) {
		return vd.NewMixture(vec(t, 0.25, 0.75), []st.VectorPdf{vNormal(t, 0), vNormal(t, 1)})
	}, func() C { return new(vd.Mixture) })
	V("vector:mixture(mixture,normal)", true, true, func(t ad.ScalarType) (C, error) {
		return vd.NewMixture(vec(t, 0.5, 0.5), []st.VectorPdf{vMix(t), vNormal(t, 2)})
	}, func() C { return new(vd.Mixture) })
	V("vector:hmm(categorical)", true, true, func(t ad.ScalarType) (C, error) {
		return vd.NewHmm(vec(t, 0.25, 0.75), mat(t, 2, 2, 0.5, 0.5, 0.25, 0.75), nil, []st.ScalarPdf{sCat(t, 0.25, 0.75), sCat(t, 0.5, 0.5)})
	}, func() C { return new(vd.Hmm) })
	V("vector:hmm(state map,start/final states)", true, true, func(t ad.ScalarType) (C, error) {
		h, err := vd.NewHmm(vec(t, 0.25, 0.25, 0.5), mat(t, 3, 3, 0.5, 0.25, 0.25, 0.25, 0.5, 0.25, 0.25, 0.25, 0.5), []int{0, 1, 0}, []st.ScalarPdf{sNormal(t, 0.5, 2), sNormal(t, -1, 1)})
		if err == nil {
			h.SetStartStates([]int{0, 1})
			h.SetFinalStates([]int{2})
		}
		return h, err
	}, func() C { return new(vd.Hmm) })
	V("vector:hmm(mixture,mixture)", true, true, func(t ad.ScalarType) (C, error) {
		return vd.NewHmm(vec(t, 0.25, 0.75), mat(t, 2, 2, 0.5, 0.5, 0.25, 0.75), nil, []st.ScalarPdf{sMix(t), sMix(t)})
	}, func() C { return new(vd.Hmm) })
	V("vector:constrained hmm", true, true, func(t ad.ScalarType) (C, error) {
		c1 := must(generic.NewEqualityConstraint([]int{0, 3, 1, 2, 1, 3}))
		c2 := must(generic.NewEqualityConstraint([]int{2, 1, 3, 0, 3, 1}))
		return vd.NewConstrainedHmm(vec(t, 1, 1, 1, 1), mat(t, 4, 4, 1, 2, 0, 4, 5, 6, 7, 8, 0, 4, 1, 2, 7, 8, 5, 6), nil,
			[]st.ScalarPdf{sCat(t, 0.25, 0.75), sCat(t, 0.5, 0.5), sCat(t, 0.25, 0.75), sCat(t, 0.5, 0.5)}, []generic.EqualityConstraint{c1, c2})
	}, func() C { return new(vd.Chmm) })
	V("vector:hierarchical hmm", true, true, func(t ad.ScalarType) (C, error) {
		tree := generic.NewHmmNode(generic.NewHmmLeaf(0, 2), generic.NewHmmLeaf(2, 4))
		return vd.NewHierarchicalHmm(vec(t, 1, 1, 1, 1), mat(t, 4, 4, 1, 2, 3, 4, 5, 6, 7, 8, 9, 10, 11, 12, 13, 14, 15, 16), nil,
			[]st.ScalarPdf{sCat(t, 0.25, 0.75), sCat(t, 0.5, 0.5), sCat(t, 0.25, 0.75), sCat(t, 0.5, 0.5)}, tree)
	}, func() C { return new(vd.Hhmm) })

	M := func(name string, reg, resc bool, b B, f func() C) {
		add(&distT{Name: name, Kind: "matrix", Registered: reg, Rescaled: resc, Build: b, Fresh: f})
	}
	M("matrix:vector id(normal,normal)", true, false, func(t ad.ScalarType) (C, error) { return md.NewVectorId(vNormal(t, 0), vNormal(t, 1)) }, func() C { return new(md.VectorId) })
	M("matrix:vector iid(normal)", true, false, func(t ad.ScalarType) (C, error) { return md.NewVectorIid(vNormal(t, 0), 2) }, func() C { return new(md.VectorIid) })
	M("matrix:mixture(vector id,vector id)", true, true, func(t ad.ScalarType) (C, error) {
		return md.NewMixture(vec(t, 0.25, 0.75), []st.MatrixPdf{mVid(t), mVid(t)})
	}, func() C { return new(md.Mixture) })
	M("matrix:hmm(normal,normal)", true, true, func(t ad.ScalarType) (C, error) {
		return md.NewHmm(vec(t, 0.25, 0.75), mat(t, 2, 2, 0.5, 0.5, 0.25, 0.75), nil, []st.VectorPdf{vNormal(t, 0), vNormal(t, 1)})
	}, func() C { return new(md.Hmm) })
	M("matrix:hmm(mixture,mixture)", true, true, func(t ad.ScalarType) (C, error) {
		return md.NewHmm(vec(t, 0.25, 0.75), mat(t, 2, 2, 0.5, 0.5, 0.25, 0.75), nil, []st.VectorPdf{vMix(t), vMix(t)})
	}, func() C { return new(md.Hmm) })
	M("matrix:shape hmm(vector id)", true, true, func(t ad.ScalarType) (C, error) {
		return md.NewShapeHmm(vec(t, 0.25, 0.75), mat(t, 2, 2, 0.5, 0.5, 0.25, 0.75), nil, []st.MatrixPdf{mVid(t), mVid(t)})
	}, func() C { return new(md.ShapeHmm) })
	M("matrix:hierarchical hmm", true, true, func(t ad.ScalarType) (C, error) {
		tree := generic.NewHmmNode(generic.NewHmmLeaf(0, 2), generic.NewHmmLeaf(2, 4))
		return md.NewHierarchicalHmm(vec(t, 1, 1, 1, 1), mat(t, 4, 4, 1, 2, 3, 4, 5, 6, 7, 8, 9, 10, 11, 12, 13, 14, 15, 16), nil,
			[]st.VectorPdf{vNormal(t, 0), vNormal(t, 1), vNormal(t, 2), vNormal(t, 3)}, tree)
	}, func() C { return new(md.Hhmm) })
	M("matrix:constrained hmm", false, true, func(t ad.ScalarType) (C, error) {
		c1 := must(generic.NewEqualityConstraint([]int{0, 3, 1, 2, 1, 3}))
		c2 := must(generic.NewEqualityConstraint([]int{2, 1, 3, 0, 3, 1}))
		return md.NewConstrainedHmm(vec(t, 1, 1, 1, 1), mat(t, 4, 4, 1, 2, 0, 4, 5, 6, 7, 8, 0, 4, 1, 2, 7, 8, 5, 6), nil,
			[]st.VectorPdf{vNormal(t, 0), vNormal(t, 1), vNormal(t, 2), vNormal(t, 3)}, []generic.EqualityConstraint{c1, c2})
	}, func() C { return new(md.Chmm) })
	M("matrix:inverse wishart", true, false, func(t ad.ScalarType) (C, error) {
		return md.NewInverseWishartDistribution(sc(t, 3), mat(t, 2, 2, 2, 0.5, 0.5, 1))
	}, func() C { return new(md.InverseWishartDistribution) })
	M("matrix:normal inverse wishart", false, false, func(t ad.ScalarType) (C, error) {
		return md.NewNormalIWishartDistribution(sc(t, 2), sc(t, 3), vec(t, 1, 2), mat(t, 2, 2, 2, 0.5, 0.5, 1))
	}, func() C { return new(md.NormalIWishartDistribution) })
	for _, d := range distTypes {
		d.Nested = strings.Contains(d.Name, "(") && !strings.Contains(d.Name, "log scale") && !strings.Contains(d.Name, "state map")
	}
}

var distScalarTypes = map[string]ad.ScalarType{}

func stByName(n string) ad.ScalarType {
	switch n {
	case "Real64":
		return ad.Real64Type
	case "Float32":
		return ad.Float32Type
	case "Real32":
		return ad.Real32Type
	}
	return ad.Float64Type
}

/* observation of a distribution
 * -------------------------------------------------------------------------- */

type probe struct {
	label  string
	status string // ok | error | panic
	value  float64
}

func canonConfig(cfg st.ConfigDistribution) (any, string) {
	var b []byte
	var err error
	if pc := guard("json.Marshal(config)", func() { b, err = json.Marshal(cfg) }); pc != "" {
		return nil, pc
	}
	if err != nil {
		// non-finite parameters cannot be written as JSON; the object itself was readable
		return map[string]any{"unencodable": err.Error()}, ""
	}
	var tree any
	json.Unmarshal(b, &tree)
	var canon func(n any, key string) any
	canon = func(n any, key string) any {
		switch t := n.(type) {
		case map[string]any:
			for k, v := range t {
				t[k] = canon(v, k)
			}
			return t
		case []any:
			for i := range t {
				t[i] = canon(t[i], "")
			}
			if key == "StartStates" || key == "FinalStates" {
				sort.Slice(t, func(i, j int) bool { return fmt.Sprint(t[i]) < fmt.Sprint(t[j]) })
			}
			return t
		}
		return n
	}
	return canon(tree, ""), ""
}

// diffTrees compares two JSON trees; numbers bitwise or within rel. tolerance.
func diffTrees(a, b any, tol float64, path string) string {
	switch x := a.(type) {
	case map[string]any:
		y, ok := b.(map[string]any)
		if !ok {
			return path + ": object vs " + fmt.Sprintf("%T", b)
		}
		ks := []string{}
		for k := range x {
			ks = append(ks, k)
		}
		for k := range y {
			if _, ok := x[k]; !ok {
				ks = append(ks, k)
			}
		}
		sort.Strings(ks)
		for _, k := range ks {
			if d := diffTrees(x[k], y[k], tol, path+"."+k); d != "" {
				return d
			}
		}
		return ""
	case []any:
		y, ok := b.([]any)
		if !ok {
			if b == nil && len(x) == 0 {
				return ""
			}
			return path + ": array vs " + fmt.Sprintf("%T", b)
		}
		if len(x) != len(y) {
			return fmt.Sprintf("%s: %d elements vs %d", path, len(x), len(y))
		}
		for i := range x {
			if d := diffTrees(x[i], y[i], tol, fmt.Sprintf("%s[%d]", path, i)); d != "" {
				return d
			}
		}
		return ""
	case float64:
		y, ok := b.(float64)
		if !ok {
			return fmt.Sprintf("%s: number %v vs %v", path, x, b)
		}
		if !closeEnough(x, y, tol) {
			return fmt.Sprintf("%s: %v vs %v", path, x, y)
		}
		return ""
	case nil:
		if y, ok := b.([]any); ok && len(y) == 0 {
			return ""
		}
		if b != nil {
			return fmt.Sprintf("%s: null vs %v", path, b)
		}
		return ""
	}
	if fmt.Sprint(a) != fmt.Sprint(b) {
		return fmt.Sprintf("%s: %v vs %v", path, a, b)
	}
	return ""
}

func closeEnough(x, y, tol float64) bool {
	if math.Float64bits(x) == math.Float64bits(y) || (math.IsNaN(x) && math.IsNaN(y)) {
		return true
	}
	if tol == 0 {
		return x == y && math.Signbit(x) == math.Signbit(y)
	}
	return math.Abs(x-y) <= tol*math.Max(1, math.Max(math.Abs(x), math.Abs(y)))
}

func constVec(n int, f func(i int) float64) ad.ConstVector {
	v := make([]float64, n)
	for i := range v {
		v[i] = f(i)
	}
	return ad.NewDenseFloat64Vector(v)
}

// probes evaluates LogPdf on a fixed set of points; zeroOnly restricts to the all-zero point.
func probes(d any, zeroOnly bool) []probe {
	out := []probe{}
	fills := []struct {
		name string
		f    func(i int) float64
	}{{"zeros", func(int) float64 { return 0 }}, {"ones", func(int) float64 { return 1 }}, {"halves", func(int) float64 { return 0.5 }}, {"alternating", func(i int) float64 { return float64(i % 2) }}, {"twos", func(int) float64 { return 2 }}}
	if zeroOnly {
		fills = fills[:1]
	}
	eval := func(label string, f func(r ad.Scalar) error, t ad.ScalarType) {
		p := probe{label: label}
		var err error
		r := ad.NullScalar(ad.Float64Type)
		if pc := guard("LogPdf", func() {
			r = ad.NullScalar(t)
			err = f(r)
		}); pc != "" {
			p.status = pc
		} else if err != nil {
			p.status = "error"
		} else {
			p.status, p.value = "ok", r.GetFloat64()
		}
		out = append(out, p)
	}
	dimOr := func(n int) []int {
		if n > 0 {
			return []int{n}
		}
		return []int{3, 2}
	}
	switch x := d.(type) {
	case st.ScalarPdf:
		var t ad.ScalarType
		if guard("ScalarType", func() { t = x.ScalarType() }) != "" || t == nil {
			return []probe{{label: "ScalarType", status: "panic in ScalarType"}}
		}
		for _, fl := range fills {
			fl := fl
			eval("x="+fl.name, func(r ad.Scalar) error { return x.LogPdf(r, ad.ConstFloat64(fl.f(1))) }, t)
		}
	case st.VectorPdf:
		var t ad.ScalarType
		n := 0
		if guard("ScalarType/Dim", func() { t = x.ScalarType(); n = x.Dim() }) != "" || t == nil {
			return []probe{{label: "ScalarType/Dim", status: "panic in ScalarType/Dim"}}
		}
		for _, nn := range dimOr(n) {
			for _, fl := range fills {
				fl, nn := fl, nn
				eval(fmt.Sprintf("x=%s(%d)", fl.name, nn), func(r ad.Scalar) error { return x.LogPdf(r, constVec(nn, fl.f)) }, t)
			}
		}
	case st.MatrixPdf:
		var t ad.ScalarType
		n, m := 0, 0
		if guard("ScalarType/Dims", func() { t = x.ScalarType(); n, m = x.Dims() }) != "" || t == nil {
			return []probe{{label: "ScalarType/Dims", status: "panic in ScalarType/Dims"}}
		}
		for _, a := range dimOr(n) {
			for _, b := range dimOr(m) {
				for _, sw := range []bool{false, true} {
					r0, c0 := a, b
					if sw {
						if n > 0 && m > 0 {
							continue
						}
						r0, c0 = b, a
					}
					for _, fl := range fills {
						fl := fl
						eval(fmt.Sprintf("x=%s(%dx%d)", fl.name, r0, c0), func(r ad.Scalar) error {
							return x.LogPdf(r, constVec(r0*c0, fl.f).AsConstMatrix(r0, c0))
						}, t)
					}
				}
			}
		}
	}
	return out
}

type distObs struct {
	config any
	params []float64
	stype  string
	probes []probe
}

func observeDist(d st.ConfigurableDistribution, zeroOnly bool) (o distObs, problem string) {
	if pc := guard("ExportConfig", func() {
		var p string
		o.config, p = canonConfig(d.ExportConfig())
		if p != "" {
			panic(p)
		}
	}); pc != "" {
		return o, pc
	}
	if bd, ok := d.(st.BasicDistribution); ok {
		if pc := guard("GetParameters", func() {
			p := bd.GetParameters()
			if p != nil {
				for i := 0; i < p.Dim(); i++ {
					o.params = append(o.params, p.ConstAt(i).GetFloat64())
				}
			}
		}); pc != "" {
			return o, pc
		}
		if pc := guard("ScalarType", func() { o.stype = fmt.Sprint(bd.ScalarType()) }); pc != "" {
			return o, pc
		}
	}
	if pc := guard("Clone", func() {
		switch x := d.(type) {
		case st.ScalarPdf:
			x.CloneScalarPdf()
		case st.VectorPdf:
			x.CloneVectorPdf()
		case st.MatrixPdf:
			x.CloneMatrixPdf()
		}
	}); pc != "" {
		return o, pc
	}
	o.probes = probes(d, zeroOnly)
	return o, ""
}

/* round trip
 * -------------------------------------------------------------------------- */

func distClass(d *distT) string { return "distribution<" + d.Name + ">" }

func regDist() {
	initDist()
	blocks = append(blocks, &block{
		name:  "config-rt",
		class: func(cs *Case) string { return "config|" + distClass(distByName[cs.Dist]) + "|round-trip" },
		enum: func(tier string, emit func(mk func() *Case)) {
			sts := []string{"Float64", "Real64"}
			if tier == "thorough" {
				sts = []string{"Float64", "Real64", "Float32", "Real32"}
			}
			for _, d := range distTypes {
				d := d
				for _, s := range sts {
					s := s
					emit(func() *Case { return &Case{Dist: d.Name, ST: s, Codec: "config", Rank: int64(len(d.Name))} })
				}
			}
		},
		run: runConfigRT,
	})
	blocks = append(blocks, &block{
		name:  "malformed-config",
		class: func(cs *Case) string { return "config|" + distClass(distByName[cs.Dist]) + "|malformed input" },
		enum: func(tier string, emit func(mk func() *Case)) {
			scratch, err := os.MkdirTemp(scratchRoot(), "c18-enum-")
			if err != nil {
				return
			}
			defer os.RemoveAll(scratch)
			kindSeen := map[string]bool{}
			for _, d := range distTypes {
				d := d
				var valid []byte
				if pc := guard("valid config", func() {
					obj, err := d.Build(ad.Float64Type)
					if err != nil {
						return
					}
					fn := scratch + "/valid.json"
					if st.ExportDistribution(fn, obj) == nil {
						valid, _ = os.ReadFile(fn)
					}
				}); pc != "" || len(valid) == 0 {
					continue
				}
				if bytes.Contains(valid, []byte("StartStates")) {
					// start/final state sets are written in map order: normalise, so that
					// every shard enumerates the same mutants
					var cfg st.ConfigDistribution
					if json.Unmarshal(valid, &cfg) == nil {
						if tree, p := canonConfig(cfg); p == "" {
							if b, err := json.MarshalIndent(tree, "", "  "); err == nil {
								valid = b
							}
						}
					}
				}
				compact := []byte(compactJSON(valid))
				seen := newSeen(valid, compact)
				readers := []string{"ImportDistribution"}
				if d.Registered {
					readers = append(readers, "Import"+strings.ToUpper(d.Kind[:1])+d.Kind[1:]+"Pdf")
				}
				putTo := func(rds []string) func(m mutant) {
					return func(m mutant) {
						for _, rd := range rds {
							rd := rd
							emit(func() *Case {
								cs := mutCase(rd, "config", "fresh", m)
								cs.Dist, cs.ST, cs.Type = d.Name, "Float64", ""
								return cs
							})
						}
					}
				}
				put := putTo(readers)
				ns := 2
				if !kindSeen[d.Kind] {
					ns, kindSeen[d.Kind] = 3, true
				}
				shortStrings(shortJSON, ns, seen, put)
				treeMutants(valid, seen, put)
				if tier == "thorough" {
					byteMutants(compact, jsonSubst, seen, put)
					if len(valid) <= 1500 {
						byteMutants(valid, jsonSubst, seen, put)
					} else {
						byteMutants(valid, nil, seen, put)
					}
				} else {
					// quick: byte-level mutants of the compact form through the most general
					// reader; substitutions only for small configs, truncation/deletion for all
					one := putTo(readers[len(readers)-1:])
					if len(compact) <= 250 {
						byteMutants(compact, jsonSubst, seen, one)
					} else {
						byteMutants(compact, nil, seen, one)
					}
				}
			}
		},
		run: runMalformedConfig,
	})
}

func importVia(reader, fn string, d *distT, t ad.ScalarType) (obj st.ConfigurableDistribution, err error, pc string) {
	pc = guard("Import", func() {
		switch reader {
		case "ImportDistribution":
			o := d.Fresh()
			err = st.ImportDistribution(fn, o, t)
			obj = o
		case "ImportScalarPdf":
			var o st.ScalarPdf
			o, err = st.ImportScalarPdf(fn, t)
			if o != nil {
				obj = o
			}
		case "ImportVectorPdf":
			var o st.VectorPdf
			o, err = st.ImportVectorPdf(fn, t)
			if o != nil {
				obj = o
			}
		case "ImportMatrixPdf":
			var o st.MatrixPdf
			o, err = st.ImportMatrixPdf(fn, t)
			if o != nil {
				obj = o
			}
		}
	})
	return
}

func runConfigRT(x *X, cs *Case) {
	d := distByName[cs.Dist]
	t := stByName(cs.ST)
	kp := "config|" + distClass(d) + "|"
	var obj st.ConfigurableDistribution
	var berr error
	if pc := guard("build", func() { obj, berr = d.Build(t) }); pc != "" || berr != nil || obj == nil {
		x.c.Outcome("config-rt:cannot build " + d.Name + " (" + pc + fmt.Sprint(berr) + ")")
		x.c.Note(fmt.Sprintf("distribution %s<%s> cannot be constructed: %v %s", d.Name, cs.ST, berr, pc))
		return
	}
	orig, prob := observeDist(obj, false)
	if prob != "" {
		x.c.Outcome("config-rt:original not observable: " + d.Name + ": " + prob)
		x.c.Note(fmt.Sprintf("distribution %s<%s> cannot be observed before encoding: %s", d.Name, cs.ST, prob))
		return
	}
	fn := x.tmpFile(".json")
	os.Remove(fn)
	var err error
	if pc := guard("ExportDistribution", func() { err = st.ExportDistribution(fn, obj) }); pc != "" {
		x.violate(kp+"encode → "+pc, fmt.Sprintf("ExportDistribution(%s<%s>) panics: %s", d.Name, cs.ST, pc), cs)
		return
	}
	if err != nil {
		x.violate(kp+"encode → error", fmt.Sprintf("ExportDistribution(%s<%s>) fails: %v", d.Name, cs.ST, err), cs)
		return
	}
	enc, _ := os.ReadFile(fn)
	x.nontrivial(cs.Dist + "|" + cs.ST)
	x.c.Outcome("config-rt:encoded")
	readers := []string{"ImportDistribution"}
	if d.Registered {
		readers = append(readers, "Import"+strings.ToUpper(d.Kind[:1])+d.Kind[1:]+"Pdf")
	}
	tol := 0.0
	if d.Rescaled {
		tol = 1e-12
	}
	if strings.Contains(d.Name, "constrained hmm") {
		// the constrained transition matrix is re-normalised by an iterative solver on import
		tol = 1e-8
	}
	for _, rd := range readers {
		dec, err, pc := importVia(rd, fn, d, t)
		k := kp
		if pc != "" {
			x.violate(k+"decode → "+pc, fmt.Sprintf("%s panics on the writer's own output %s", rd, show(enc)), cs)
			continue
		}
		if err != nil {
			x.violate(k+"decode → error", fmt.Sprintf("%s rejects the writer's own output %s: %v", rd, show(enc), err), cs)
			continue
		}
		got, prob := observeDist(dec, false)
		if prob != "" {
			x.violate(k+"decoded object "+problemClass(prob), fmt.Sprintf("%s of %s gives an object that cannot be read: %s", rd, show(enc), prob), cs)
			continue
		}
		if got.stype != orig.stype {
			x.violate(k+"scalar type lost", fmt.Sprintf("%s<%s> decoded with scalar type %s", d.Name, orig.stype, got.stype), cs)
			continue
		}
		if df := diffTrees(orig.config, got.config, tol, "$"); df != "" {
			x.violate(k+"configuration lost", fmt.Sprintf("%s<%s> → %s → %s: ExportConfig differs at %s", d.Name, cs.ST, show(enc), rd, df), cs)
			continue
		}
		if len(orig.params) != len(got.params) {
			x.violate(k+"parameters lost", fmt.Sprintf("%s<%s>: GetParameters has %d entries, decoded %d", d.Name, cs.ST, len(orig.params), len(got.params)), cs)
			continue
		}
		bad := ""
		for i := range orig.params {
			if !closeEnough(orig.params[i], got.params[i], tol) {
				bad = fmt.Sprintf("GetParameters()[%d]: %v decoded as %v", i, orig.params[i], got.params[i])
				break
			}
		}
		if bad != "" {
			x.violate(k+"parameters lost", fmt.Sprintf("%s<%s> → %s → %s: %s", d.Name, cs.ST, show(enc), rd, bad), cs)
			continue
		}
		ptol := 1e-9
		for i, p := range orig.probes {
			if i >= len(got.probes) || p.status != "ok" {
				continue
			}
			q := got.probes[i]
			if q.label != p.label {
				continue
			}
			if q.status != "ok" || !closeEnough(p.value, q.value, ptol) {
				bad = fmt.Sprintf("LogPdf(%s): %v (%s) decoded gives %v (%s)", p.label, p.value, p.status, q.value, q.status)
				break
			}
		}
		if bad != "" {
			x.violate(k+"density differs", fmt.Sprintf("%s<%s> → %s: %s", d.Name, cs.ST, rd, bad), cs)
			continue
		}
		// use of the restored object: a clone of it and the result of a second round trip
		// must be the same distribution again
		if c2, d2 := useDist(x, d, t, rd, obj, dec, orig); c2 != "" {
			x.violate(k+"use of the restored object: "+c2, fmt.Sprintf("%s<%s> → %s: %s", d.Name, cs.ST, rd, d2), cs)
			continue
		}
		nok := 0
		for _, p := range orig.probes {
			if p.status == "ok" {
				nok++
			}
		}
		if nok == 0 {
			x.c.Outcome("config-rt:equal (no density probe usable)")
		} else {
			x.c.Outcome("config-rt:equal")
		}
	}
	if cs.ST == "Float64" && d.Nested {
		x.c.Sample(map[string]any{"distribution": d.Name, "config": compactJSON(enc)})
	}
}

// useDist: the restored distribution as source of Clone and of a further round trip.
func cloneDist(dec st.ConfigurableDistribution) (cl st.ConfigurableDistribution, pc string) {
	pc = guard("Clone", func() {
		switch y := dec.(type) {
		case st.ScalarPdf:
			cl, _ = y.CloneScalarPdf().(st.ConfigurableDistribution)
		case st.VectorPdf:
			cl, _ = y.CloneVectorPdf().(st.ConfigurableDistribution)
		case st.MatrixPdf:
			cl, _ = y.CloneMatrixPdf().(st.ConfigurableDistribution)
		}
	})
	return
}

// The clone of the restored object is compared with the clone of the ORIGINAL (what Clone
// does to an object - e.g. the clone of a constrained HMM is a plain HMM - is not the
// codec's matter).
func useDist(x *X, d *distT, t ad.ScalarType, reader string, obj, dec st.ConfigurableDistribution, orig distObs) (cls, detail string) {
	if oc, pc := cloneDist(obj); pc == "" && oc != nil {
		if ocObs, prob := observeDist(oc, false); prob == "" {
			cl, pc := cloneDist(dec)
			if pc != "" || cl == nil {
				return "clone fails", "the original can be cloned, the restored object cannot: " + pc
			}
			got, prob := observeDist(cl, false)
			if prob != "" {
				return "clone " + problemClass(prob), "the clone of the restored object cannot be read: " + prob
			}
			if c, dt := compareDistObs(d, ocObs, got); c != "" {
				return "clone differs (" + c + ")", "the clone of the restored object differs from the clone of the original: " + dt
			}
		}
	}
	fn := x.tmpFile(".json")
	os.Remove(fn)
	var err error
	if pc := guard("ExportDistribution", func() { err = st.ExportDistribution(fn, dec) }); pc != "" || err != nil {
		return "second round trip: encode fails", fmt.Sprintf("ExportDistribution of the restored object fails: %v %s", err, pc)
	}
	dec2, err, pc := importVia(reader, fn, d, t)
	if pc != "" || err != nil || dec2 == nil {
		return "second round trip: decode fails", fmt.Sprintf("%s of the re-exported restored object fails: %v %s", reader, err, pc)
	}
	got, prob := observeDist(dec2, false)
	if prob != "" {
		return "second round trip " + problemClass(prob), prob
	}
	if c, dt := compareDistObs(d, orig, got); c != "" {
		return "second round trip differs (" + c + ")", "after a second round trip: " + dt
	}
	return "", ""
}

func runMalformedConfig(x *X, cs *Case) {
	d := distByName[cs.Dist]
	t := stByName(cs.ST)
	fn := x.tmpFile(".json")
	if e := os.WriteFile(fn, cs.Input, 0o644); e != nil {
		panic("scratch write failed: " + e.Error())
	}
	x.nontrivial(cs.Reader + "|" + cs.Dist + "|" + string(cs.Input))
	mc := cs.Mut
	if i := strings.IndexAny(mc, "@("); i >= 0 {
		mc = mc[:i]
	}
	if strings.HasPrefix(mc, "tree:") {
		mc = strings.Fields(mc)[0]
	}
	kp := "config|" + distClass(d) + "|malformed input|"
	dec, err, pc := importVia(cs.Reader, fn, d, t)
	if pc != "" {
		x.violate(kp+"decode → "+pc, fmt.Sprintf("%s given %s [%s]: %s", cs.Reader, show(cs.Input), cs.Mut, pc), cs)
		return
	}
	if err != nil {
		x.c.Outcome("malformed:config:" + mc + ":error")
		return
	}
	if dec == nil {
		x.violate(kp+"nil object without error", fmt.Sprintf("%s given %s returns (nil, nil)", cs.Reader, show(cs.Input)), cs)
		return
	}
	got, prob := observeDist(dec, true)
	if prob != "" {
		x.violate(kp+problemClass(prob), fmt.Sprintf("%s given %s [%s] returns an object whose read fails: %s", cs.Reader, show(cs.Input), cs.Mut, prob), cs)
		return
	}
	for _, p := range got.probes {
		if strings.HasPrefix(p.status, "panic") {
			// LogPdf at the origin panics on the accepted object: is that a property of
			// the family (then the valid instance panics too) or a corrupt object?
			if validZeroProbeOK(d, p.label) {
				x.violate(kp+"corrupt-object("+p.status+")", fmt.Sprintf("%s given %s [%s] returns an object on which LogPdf(%s) panics: %s", cs.Reader, show(cs.Input), cs.Mut, p.label, p.status), cs)
				return
			}
		}
	}
	x.c.Outcome("malformed:config:" + mc + ":accepted as a valid object")
}

var zeroProbeCache = map[string]map[string]bool{}

func validZeroProbeOK(d *distT, label string) bool {
	m, ok := zeroProbeCache[d.Name]
	if !ok {
		m = map[string]bool{}
		guard("valid probe", func() {
			obj, err := d.Build(ad.Float64Type)
			if err != nil {
				return
			}
			for _, p := range probes(obj, true) {
				m[p.label] = !strings.HasPrefix(p.status, "panic")
			}
		})
		zeroProbeCache[d.Name] = m
	}
	return m[label]
}

var _ = bytes.Equal
