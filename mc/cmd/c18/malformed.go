package main

import (
	"bytes"
	"encoding/json"
	"fmt"
	"strings"

	ad "github.com/pbenner/autodiff"
)

/* readers under malformed input
 * -------------------------------------------------------------------------- */

// representative valid objects, one per reader
func validScalar(st *scalarT) ad.Scalar {
	s := ad.NullScalar(st.T)
	if isIntKind(st.Kind) {
		s.SetInt64(-42)
	} else {
		s.SetFloat64(-2.5)
	}
	if st.Real {
		applyReal(s.(ad.MagicScalar), realSpec{Order: 2, N: 2, Grad: []int{1, 2}, Hess: []int{0, 1, 2, 0}})
	}
	return s
}

func validContainer(ct *contT) any {
	set := func(s ad.Scalar, v int64, derivs bool) {
		s.SetInt64(v)
		if derivs && ct.St.Real && !ct.Sparse {
			applyReal(s.(ad.MagicScalar), realSpec{Order: 2, N: 1, Grad: []int{1}, Hess: []int{1}})
		}
	}
	if ct.Matrix {
		m := ct.newMat(2, 2)
		set(m.At(0, 0), 1, true)
		set(m.At(1, 1), -2, false)
		if !ct.Sparse {
			set(m.At(1, 0), 30, false)
		}
		return m
	}
	v := ct.newVec(4)
	set(v.At(0), 1, true)
	set(v.At(2), -2, false)
	if !ct.Sparse {
		set(v.At(3), 30, false)
	}
	return v
}

func fullReadScalar(s ad.ConstScalar, k int) (problem string) {
	if pc := guard("read", func() {
		_ = bitsOf(s, k)
		n := s.GetN()
		if n < 0 {
			problem = "inconsistent:negative N"
			return
		}
		if n > 64 {
			n = 64
		}
		for i := 0; i < n; i++ {
			_ = s.GetDerivative(i)
			for j := 0; j < n; j++ {
				_ = s.GetHessian(i, j)
			}
		}
		_ = fmt.Sprint(s)
		s.MarshalJSON()
		s.CloneConstScalar()
	}); pc != "" {
		return pc
	}
	return problem
}

// feedReader gives data to the reader of `name` (a scalar or container type) and, if the
// reader accepts, reads the resulting object completely.
func feedReader(x *X, name, codec string, used bool, data []byte) (accepted bool, err error, bad string) {
	if st, ok := scalarByName[name]; ok {
		var r ad.Scalar
		if used {
			r = dirtyScalar(st)
		} else {
			r = ad.NullScalar(st.T)
		}
		err, pc := safeUnmarshal(r.(json.Unmarshaler), data)
		if pc != "" {
			return false, nil, "decode → panic:" + pc
		}
		if err != nil {
			return false, err, ""
		}
		if p := fullReadScalar(r, st.Kind); p != "" {
			return true, nil, problemClass(p)
		}
		return true, nil, ""
	}
	ct := contByName[name]
	recv := newReceiver(ct, likeOf(ct), recvKind(used), nil)
	err, pc := decodeInto(x, recv, codec, data, "method")
	if pc != "" {
		return false, nil, "decode → panic:" + pc
	}
	if err != nil {
		return false, err, ""
	}
	obj := derefReceiver(recv)
	var p string
	if ct.Matrix {
		_, p = fullReadMatrix(obj.(ad.ConstMatrix), ct.St.Kind, readFull)
	} else {
		_, p = fullReadVector(obj.(ad.ConstVector), ct.St.Kind, readFull)
	}
	if p != "" {
		return true, nil, problemClass(p)
	}
	return true, nil, ""
}

func famOfReader(name string) string {
	if st, ok := scalarByName[name]; ok {
		return scalarFamily(st)
	}
	return contByName[name].fam()
}

func runMalformed(x *X, cs *Case) {
	x.nontrivial(cs.Reader + "|" + cs.Codec + "|" + string(cs.Input))
	accepted, err, bad := feedReader(x, cs.Reader, cs.Codec, cs.Recv == "used", cs.Input)
	mc := cs.Mut
	if i := strings.IndexAny(mc, "@("); i >= 0 {
		mc = mc[:i]
	}
	if strings.HasPrefix(mc, "tree:") {
		mc = strings.Fields(mc)[0]
	}
	switch {
	case bad != "":
		x.violate(cs.Codec+"|"+famOfReader(cs.Reader)+"|malformed input|"+bad,
			fmt.Sprintf("%s reader given %s [%s]: %s", cs.Reader, show(cs.Input), cs.Mut, bad), cs)
	case accepted:
		x.c.Outcome("malformed:" + cs.Codec + ":" + mc + ":accepted as a valid object")
	default:
		_ = err
		x.c.Outcome("malformed:" + cs.Codec + ":" + mc + ":error")
	}
}

func mutCase(reader, codec, recv string, m mutant) *Case {
	cs := &Case{Reader: reader, Type: reader, Codec: codec, Recv: recv, Input: m.data, Mut: m.desc, Rank: m.rank*1000 + int64(len(m.data))}
	if len(m.data) < 2 || m.data[0] != 31 {
		cs.InputText = string(m.data)
	}
	return cs
}

func jsonReaders() []string {
	r := []string{}
	for _, st := range mutableTypes() {
		r = append(r, st.Name)
	}
	for _, ct := range contTypes {
		if !ct.ConstV {
			r = append(r, ct.Name)
		}
	}
	return r
}

func validJSONOf(name string) []byte {
	var b []byte
	if st, ok := scalarByName[name]; ok {
		b, _ = validScalar(st).MarshalJSON()
	} else {
		b, _ = validContainer(contByName[name]).(json.Marshaler).MarshalJSON()
	}
	return b
}

func regMalformedJSON() {
	blocks = append(blocks, &block{
		name:  "malformed-json",
		class: func(cs *Case) string { return "json|" + famOfReader(cs.Reader) + "|malformed input" },
		enum: func(tier string, emit func(mk func() *Case)) {
			for _, name := range jsonReaders() {
				name := name
				var valid []byte
				if pc := guard("valid", func() { valid = validJSONOf(name) }); pc != "" || valid == nil {
					continue
				}
				compact := []byte(compactJSON(valid))
				seen := newSeen(valid, compact)
				recvs := []string{"fresh"}
				if tier == "thorough" {
					recvs = []string{"fresh", "used"}
				}
				put := func(m mutant) {
					for _, rv := range recvs {
						rv := rv
						emit(func() *Case { return mutCase(name, "json", rv, m) })
					}
				}
				shortStrings(shortJSON, 3, seen, put)
				treeMutants(valid, seen, put)
				byteMutants(compact, jsonSubst, seen, put)
				byteMutants(valid, jsonSubst, seen, put)
			}
		},
		run: runMalformed,
	})
}

/* table files
 * -------------------------------------------------------------------------- */

func tableReaders() []*contT {
	r := []*contT{}
	for _, ct := range contTypes {
		if !ct.ConstV {
			r = append(r, ct)
		}
	}
	return r
}

// validTableOf: what Export writes for the representative object.
func validTableOf(ct *contT) string {
	switch {
	case ct.Matrix && ct.Sparse:
		return "2 2\n0 0 1\n1 1 -2\n"
	case ct.Matrix:
		return "1 0\n30 -2\n"
	case ct.Sparse:
		return "4\n0 1\n2 -2\n"
	}
	return "1\n0\n-2\n30\n\n"
}

func cross(sets ...[]string) [][]string {
	out := [][]string{{}}
	for _, s := range sets {
		next := [][]string{}
		for _, p := range out {
			for _, e := range s {
				next = append(next, append(append([]string{}, p...), e))
			}
		}
		out = next
	}
	return out
}

// tokenVariants: every ragged-row / non-numeric / negative or out-of-range index /
// duplicate index / wrong header variant of the 2x2 table (4-vector) of the reader.
func tokenVariants(ct *contT, thorough bool, seen *seenSet, emit func(m mutant)) {
	put := func(s, desc string) {
		if !seen.add([]byte(s)) {
			return
		}
		emit(mutant{[]byte(s), desc, 100})
	}
	cell := []string{"1", "-2.5", "x", "", "1 1", "1e999", "nan", "0x1p-2"}
	if thorough {
		cell = append(cell, "1,5", "--1", "1e-999")
	}
	switch {
	case !ct.Sparse && ct.Matrix:
		for _, c := range cross(cell, cell, cell, cell) {
			put(strings.TrimRight(c[0]+" "+c[1], " ")+"\n"+strings.TrimRight(c[2]+" "+c[3], " ")+"\n", "table-variant(dense 2x2 cells)")
		}
	case !ct.Sparse:
		for _, c := range cross(cell, cell, cell) {
			put(c[0]+"\n"+c[1]+"\n"+c[2]+"\n", "table-variant(dense 3-vector cells)")
		}
	case ct.Matrix:
		hdr := []string{"2 2", "2", "2 2 2", "-2 2", "2 -2", "0 0", "x 2", "2 x", "", "2.0 2", "99999999999999999999 2", "1 1"}
		idx := []string{"0", "1", "2", "-1", "x"}
		vs := []string{"1", "0", "x"}
		lines := []string{"0 0", "0 0 1 1", "0"}
		for _, c := range cross(idx, idx, vs) {
			lines = append(lines, c[0]+" "+c[1]+" "+c[2])
		}
		for _, h := range hdr {
			put(h+"\n", "table-variant(sparse header only)")
			for _, l1 := range lines {
				put(h+"\n"+l1+"\n", "table-variant(sparse header + 1 entry)")
				for _, l2 := range []string{"1 1 -2", l1, "0 0 3"} {
					put(h+"\n"+l1+"\n"+l2+"\n", "table-variant(sparse header + 2 entries)")
				}
			}
		}
	default:
		hdr := []string{"4", "", "4 4", "-4", "0", "x", "4.0", "1", "99999999999999999999"}
		idx := []string{"0", "3", "4", "-1", "x"}
		vs := []string{"1", "0", "x"}
		lines := []string{"0", "0 1 1"}
		for _, c := range cross(idx, vs) {
			lines = append(lines, c[0]+" "+c[1])
		}
		for _, h := range hdr {
			put(h+"\n", "table-variant(sparse header only)")
			for _, l1 := range lines {
				put(h+"\n"+l1+"\n", "table-variant(sparse header + 1 entry)")
				for _, l2 := range []string{"2 -2", l1, "0 3"} {
					put(h+"\n"+l1+"\n"+l2+"\n", "table-variant(sparse header + 2 entries)")
				}
			}
		}
	}
}

func gzVariants(valid string, seen *seenSet, emit func(m mutant)) {
	z := gz([]byte(valid))
	put := func(d []byte, desc string) {
		if !seen.add(d) {
			return
		}
		emit(mutant{append([]byte{}, d...), desc, 200})
	}
	for k := 1; k < len(z); k++ {
		put(z[:k], fmt.Sprintf("gzip-truncate@%d", k))
	}
	for k := 0; k < len(z); k++ {
		d := append([]byte{}, z...)
		d[k] ^= 0xff
		put(d, fmt.Sprintf("gzip-flip@%d", k))
		d = append([]byte{}, z...)
		d[k] ^= 0x01
		put(d, fmt.Sprintf("gzip-bit@%d", k))
	}
	put(append([]byte{31, 139}, valid...), "gzip-magic-then-text")
	put(bytes.Repeat([]byte{31, 139}, 2), "gzip-magic-twice")
	put(append(append([]byte{}, z...), z...), "gzip-two-members")
	put(append(append([]byte{}, z...), 'x'), "gzip-trailing-garbage")
}

func regMalformedTable() {
	blocks = append(blocks, &block{
		name:  "malformed-table",
		class: func(cs *Case) string { return "table|" + famOfReader(cs.Reader) + "|malformed input" },
		enum: func(tier string, emit func(mk func() *Case)) {
			for _, ct := range tableReaders() {
				ct := ct
				valid := validTableOf(ct)
				seen := newSeen([]byte(valid))
				put := func(m mutant) { emit(func() *Case { return mutCase(ct.Name, "table", "fresh", m) }) }
				shortStrings(shortTable, 4, seen, put)
				tokenVariants(ct, tier == "thorough", seen, put)
				byteMutants([]byte(valid), tableSubst, seen, put)
				gzVariants(valid, seen, put)
			}
		},
		run: runMalformed,
	})
}
