package main

import (
	"fmt"
	"math"
	"reflect"
	"strings"

	ad "github.com/pbenner/autodiff"
)

/* container type registry
 * -------------------------------------------------------------------------- */

type contT struct {
	Name   string
	Fam    string // dense-vector, sparse-vector, sparse-const-vector, dense-matrix, sparse-matrix
	St     *scalarT
	Matrix bool
	Sparse bool
	ConstV bool
	asCV   func(ad.ConstVector) ad.ConstVector
}

func (ct *contT) fam() string { return ct.Fam + "<" + ct.St.Name + ">" }

var contTypes []*contT
var contByName = map[string]*contT{}

func initContainers() {
	add := func(c *contT) { contTypes = append(contTypes, c); contByName[c.Name] = c }
	for _, st := range mutableTypes() {
		add(&contT{Name: "Dense" + st.Name + "Vector", Fam: "dense-vector", St: st})
	}
	for _, st := range mutableTypes() {
		add(&contT{Name: "Sparse" + st.Name + "Vector", Fam: "sparse-vector", St: st, Sparse: true})
	}
	cv := map[string]func(ad.ConstVector) ad.ConstVector{
		"Int8":    func(v ad.ConstVector) ad.ConstVector { return ad.AsSparseConstInt8Vector(v) },
		"Int16":   func(v ad.ConstVector) ad.ConstVector { return ad.AsSparseConstInt16Vector(v) },
		"Int32":   func(v ad.ConstVector) ad.ConstVector { return ad.AsSparseConstInt32Vector(v) },
		"Int64":   func(v ad.ConstVector) ad.ConstVector { return ad.AsSparseConstInt64Vector(v) },
		"Int":     func(v ad.ConstVector) ad.ConstVector { return ad.AsSparseConstIntVector(v) },
		"Float32": func(v ad.ConstVector) ad.ConstVector { return ad.AsSparseConstFloat32Vector(v) },
		"Float64": func(v ad.ConstVector) ad.ConstVector { return ad.AsSparseConstFloat64Vector(v) },
	}
	for _, st := range mutableTypes() {
		if f, ok := cv[st.Name]; ok {
			add(&contT{Name: "SparseConst" + st.Name + "Vector", Fam: "sparse-const-vector", St: st, Sparse: true, ConstV: true, asCV: f})
		}
	}
	for _, st := range mutableTypes() {
		add(&contT{Name: "Dense" + st.Name + "Matrix", Fam: "dense-matrix", St: st, Matrix: true})
	}
	for _, st := range mutableTypes() {
		add(&contT{Name: "Sparse" + st.Name + "Matrix", Fam: "sparse-matrix", St: st, Matrix: true, Sparse: true})
	}
}

func (ct *contT) newVec(n int) ad.Vector {
	if ct.Sparse {
		return ad.NullSparseVector(ct.St.T, n)
	}
	return ad.NullDenseVector(ct.St.T, n)
}

func (ct *contT) newMat(r, c int) ad.Matrix {
	if ct.Sparse {
		return ad.NullSparseMatrix(ct.St.T, r, c)
	}
	return ad.NullDenseMatrix(ct.St.T, r, c)
}

// element patterns: 0 = zero, 1 = lattice value, 2 = one, 3 = lattice value with derivatives (Real only)
var elemDerivSpec = realSpec{Order: 2, N: 2, Grad: []int{1, 0}, Hess: []int{0, 1, 2, 0}}

func fillElem(s ad.Scalar, st *scalarT, v val, p int) {
	switch p {
	case 1:
		setVal(s, st.Kind, v)
	case 2:
		s.SetInt64(1)
	case 3:
		setVal(s, st.Kind, v)
		if st.Real {
			applyReal(s.(ad.MagicScalar), elemDerivSpec)
		}
	}
}

func patZero(st *scalarT, v val, p int) bool {
	return p == 0 || ((p == 1 || p == 3) && v.zero(st.Kind))
}

// buildVector builds the vector of a case (nil view ops: the plain object).
func buildVector(ct *contT, v val, pat []int) ad.ConstVector {
	src := ct
	vec := src.newVec(len(pat))
	for i, p := range pat {
		if ct.Sparse && patZero(ct.St, v, p) {
			continue
		}
		fillElem(vec.At(i), ct.St, v, p)
	}
	if ct.ConstV {
		return ct.asCV(vec)
	}
	return vec
}

func buildMatrix(ct *contT, v val, r, c int, pat []int) ad.Matrix {
	m := ct.newMat(r, c)
	for i := 0; i < r; i++ {
		for j := 0; j < c; j++ {
			p := pat[i*c+j]
			if ct.Sparse && patZero(ct.St, v, p) {
				continue
			}
			fillElem(m.At(i, j), ct.St, v, p)
		}
	}
	return m
}

// receiver kinds: the state of the object a decoder is asked to overwrite
//
//	fresh   zero value of the type
//	used    previously used 2x2 matrix / 2-vector (some entries zero)
//	smaller 1x1 matrix / 1-vector
//	larger  4x4 matrix / 5-vector, every entry non-zero
//	same    the shape of the object that is decoded, every entry non-zero junk
//	view    a view: matrices the 2x2 block T().Slice(1,3,1,3) of a full 3x3 matrix (transposed, both offsets and both strides differ from a compact matrix),
//	        vectors the Slice(1,3) of a full 4-vector
var extraRecvKinds = []string{"smaller", "larger", "same", "view"}

func recvKind(used bool) string {
	if used {
		return "used"
	}
	return "fresh"
}

// newReceiver returns a pointer usable as json.Unmarshaler / importer for the type of
// `like` in the given previous state (dims: shape of the object to be decoded, for "same").
func newReceiver(ct *contT, like any, kind string, dims []int) any {
	t := reflect.TypeOf(like)
	r, c := 2, 2
	full := false
	switch kind {
	case "smaller":
		r, c = 1, 1
	case "larger":
		r, c, full = 4, 4, true
		if !ct.Matrix {
			r = 5
		}
	case "view":
		r, c, full = 3, 3, true
		if !ct.Matrix {
			r = 4
		}
	case "same":
		full = true
		if ct.Matrix && len(dims) == 2 {
			r, c = dims[0], dims[1]
		} else if !ct.Matrix && len(dims) >= 1 {
			r = dims[0]
		}
	}
	junkVec := func() ad.Vector {
		u := ct.newVec(r)
		for i := 0; i < r; i++ {
			u.At(i).SetInt64(int64(7 + i))
		}
		if ct.St.Real && !ct.Sparse && r > 0 && kind != "used" {
			u.At(r-1).(ad.MagicScalar).Alloc(1, 1)
			u.At(r-1).(ad.MagicScalar).SetDerivative(0, 5)
		}
		return u
	}
	if t.Kind() != reflect.Ptr { // dense vectors are slices
		p := reflect.New(t)
		if kind == "view" {
			if w := reflect.ValueOf(junkVec().Slice(1, 3)); w.Type() == t {
				p.Elem().Set(w)
			} else {
				p.Elem().Set(reflect.ValueOf(junkVec()))
			}
		} else if kind != "fresh" {
			p.Elem().Set(reflect.ValueOf(junkVec()))
		}
		return p.Interface()
	}
	if kind == "fresh" {
		return reflect.New(t.Elem()).Interface()
	}
	if ct.Matrix {
		u := ct.newMat(r, c)
		if kind == "used" {
			u.At(0, 0).SetInt64(7)
			u.At(1, 0).SetInt64(8)
			u.At(1, 1).SetInt64(9)
		} else {
			for i := 0; i < r; i++ {
				for j := 0; j < c; j++ {
					if full || i == j {
						u.At(i, j).SetInt64(int64(7 + i*c + j))
					}
				}
			}
		}
		if ct.St.Real && r > 0 && c > 0 {
			u.At(0, 0).(ad.MagicScalar).Alloc(1, 1)
			u.At(0, 0).(ad.MagicScalar).SetDerivative(0, 5)
		}
		if kind == "view" {
			// (views are C10's subject: if this one cannot be built or is not of the
			// reader's type, the underlying matrix is the receiver)
			var w ad.Matrix
			if guard("view", func() { w = u.T().Slice(1, 3, 1, 3) }) == "" && w != nil && reflect.TypeOf(w) == t {
				return w
			}
		}
		return u
	}
	u := junkVec()
	if kind == "view" {
		var w ad.Vector
		if guard("view", func() { w = u.Slice(1, 3) }) == "" && w != nil && reflect.TypeOf(w) == t {
			return w
		}
	}
	return u
}

func derefReceiver(p any) any {
	v := reflect.ValueOf(p)
	if v.Kind() == reflect.Ptr && v.Elem().Kind() == reflect.Slice {
		return v.Elem().Interface()
	}
	return p
}

// the reader type for a container type (constant sparse vectors have no reader of
// their own: the mutable sparse vector of the same element type reads their format)
func readerOf(ct *contT) *contT {
	if ct.ConstV {
		return contByName["Sparse"+ct.St.Name+"Vector"]
	}
	return ct
}

func likeOf(ct *contT) any {
	if ct.Matrix {
		return ct.newMat(0, 0)
	}
	return ct.newVec(0)
}

/* full reads
 * -------------------------------------------------------------------------- */

const readCap = 4096

type vread struct {
	dim   int
	elems map[int]ad.ConstScalar
	bits  map[int]string // exact value through the typed accessor of the element kind
	nz    []int
}

// read modes
const (
	readMinimal = iota // Dim/Dims, typed element reads, ConstAt (views: iterators are C10's subject)
	readLight          // + iterator
	readFull           // + String, Table, MarshalJSON, Clone, rows/columns
)

func vecBits(v ad.ConstVector, i, k int) string {
	switch {
	case isIntKind(k):
		return fmt.Sprintf("i%d", v.Int64At(i))
	case k == kFloat32:
		f := v.Float32At(i)
		return fmt.Sprintf("f32:%08x(%v)", math.Float32bits(f), f)
	}
	f := v.Float64At(i)
	return fmt.Sprintf("f64:%016x(%v)", math.Float64bits(f), f)
}

func matBits(m ad.ConstMatrix, i, j, k int) string {
	switch {
	case isIntKind(k):
		return fmt.Sprintf("i%d", m.Int64At(i, j))
	case k == kFloat32:
		f := m.Float32At(i, j)
		return fmt.Sprintf("f32:%08x(%v)", math.Float32bits(f), f)
	}
	f := m.Float64At(i, j)
	return fmt.Sprintf("f64:%016x(%v)", math.Float64bits(f), f)
}

func zeroBits(b string) bool {
	return b == "i0" || strings.HasPrefix(b, "f32:00000000(") || strings.HasPrefix(b, "f32:80000000(") || strings.HasPrefix(b, "f64:0000000000000000(") || strings.HasPrefix(b, "f64:8000000000000000(")
}

func guard(op string, f func()) (pc string) {
	defer func() {
		if r := recover(); r != nil {
			pc = "panic in " + op + ":" + panicClass(r)
		}
	}()
	f()
	return ""
}

// fullReadVector reads everything the public API shows; problem != "" if a read panics
// or the object is inconsistent with itself.
func fullReadVector(v ad.ConstVector, k int, mode int) (rd vread, problem string) {
	rd.elems = map[int]ad.ConstScalar{}
	rd.bits = map[int]string{}
	if pc := guard("Dim", func() { rd.dim = v.Dim() }); pc != "" {
		return rd, pc
	}
	if rd.dim < 0 {
		return rd, fmt.Sprintf("inconsistent:negative Dim")
	}
	idx := []int{}
	if rd.dim <= readCap {
		for i := 0; i < rd.dim; i++ {
			idx = append(idx, i)
		}
	} else {
		for i := 0; i < 64; i++ {
			idx = append(idx, i, rd.dim-1-i)
		}
	}
	for _, i := range idx {
		i := i
		if pc := guard("ConstAt", func() {
			s := v.ConstAt(i)
			_ = bitsOf(s, k)
			rd.elems[i] = s
		}); pc != "" {
			return rd, pc
		}
		if pc := guard("typed element read", func() { rd.bits[i] = vecBits(v, i, k) }); pc != "" {
			return rd, pc
		}
	}
	if mode == readMinimal {
		return rd, ""
	}
	last, steps := -1, 0
	bad := ""
	if pc := guard("ConstIterator", func() {
		for it := v.ConstIterator(); it.Ok(); it.Next() {
			steps++
			if steps > 3*readCap {
				bad = "inconsistent:iterator does not end"
				return
			}
			i := it.Index()
			if i < 0 || i >= rd.dim {
				bad = "inconsistent:iterator index outside [0,Dim)"
				return
			}
			if i <= last {
				bad = "inconsistent:iterator index not increasing"
				return
			}
			last = i
			s := it.GetConst()
			if !isZeroScalar(s, k) {
				rd.nz = append(rd.nz, i)
			}
			if b, ok := rd.bits[i]; ok && b != bitsOf(s, k) {
				bad = "inconsistent:iterator value differs from the element read"
				return
			}
		}
	}); pc != "" {
		return rd, pc
	}
	if bad != "" {
		return rd, bad
	}
	// every non-zero element must be visited by the iterator
	seen := map[int]bool{}
	for _, i := range rd.nz {
		seen[i] = true
	}
	for i, b := range rd.bits {
		if !zeroBits(b) && !seen[i] {
			return rd, "inconsistent:non-zero element not visited by the iterator"
		}
	}
	if mode != readFull || rd.dim > readCap {
		return rd, ""
	}
	if pc := guard("String", func() { _ = fmt.Sprint(v) }); pc != "" {
		return rd, pc
	}
	if pc := guard("Table", func() { _ = v.Table() }); pc != "" {
		return rd, pc
	}
	if pc := guard("MarshalJSON", func() { v.MarshalJSON() }); pc != "" {
		return rd, pc
	}
	if pc := guard("CloneConstVector", func() { v.CloneConstVector() }); pc != "" {
		return rd, pc
	}
	return rd, ""
}

type mread struct {
	rows, cols int
	bits       map[[2]int]string
	elems      map[[2]int]ad.ConstScalar
	nz         [][2]int
}

func fullReadMatrix(m ad.ConstMatrix, k int, mode int) (rd mread, problem string) {
	rd.elems = map[[2]int]ad.ConstScalar{}
	rd.bits = map[[2]int]string{}
	if pc := guard("Dims", func() { rd.rows, rd.cols = m.Dims() }); pc != "" {
		return rd, pc
	}
	if rd.rows < 0 || rd.cols < 0 {
		return rd, "inconsistent:negative Dims"
	}
	big := rd.rows > 64 || rd.cols > 64
	ri, ci := []int{}, []int{}
	for i := 0; i < rd.rows && i < 64; i++ {
		ri = append(ri, i)
	}
	for j := 0; j < rd.cols && j < 64; j++ {
		ci = append(ci, j)
	}
	if big {
		for i := 0; i < 8 && i < rd.rows; i++ {
			ri = append(ri, rd.rows-1-i)
		}
		for j := 0; j < 8 && j < rd.cols; j++ {
			ci = append(ci, rd.cols-1-j)
		}
	}
	for _, i := range ri {
		for _, j := range ci {
			i, j := i, j
			if pc := guard("ConstAt", func() {
				s := m.ConstAt(i, j)
				_ = bitsOf(s, k)
				rd.elems[[2]int{i, j}] = s
			}); pc != "" {
				return rd, pc
			}
			if pc := guard("typed element read", func() { rd.bits[[2]int{i, j}] = matBits(m, i, j, k) }); pc != "" {
				return rd, pc
			}
		}
	}
	if mode == readMinimal {
		return rd, ""
	}
	steps := 0
	bad := ""
	visited := map[[2]int]bool{}
	if pc := guard("ConstIterator", func() {
		for it := m.ConstIterator(); it.Ok(); it.Next() {
			steps++
			if steps > 3*readCap {
				bad = "inconsistent:iterator does not end"
				return
			}
			i, j := it.Index()
			if i < 0 || i >= rd.rows || j < 0 || j >= rd.cols {
				bad = "inconsistent:iterator index outside the matrix"
				return
			}
			if visited[[2]int{i, j}] {
				bad = "inconsistent:iterator visits a position twice"
				return
			}
			visited[[2]int{i, j}] = true
			s := it.GetConst()
			if !isZeroScalar(s, k) {
				rd.nz = append(rd.nz, [2]int{i, j})
			}
			if b, ok := rd.bits[[2]int{i, j}]; ok && b != bitsOf(s, k) {
				bad = "inconsistent:iterator value differs from the element read"
				return
			}
		}
	}); pc != "" {
		return rd, pc
	}
	if bad != "" {
		return rd, bad
	}
	for p, b := range rd.bits {
		if !zeroBits(b) && !visited[p] {
			return rd, "inconsistent:non-zero element not visited by the iterator"
		}
	}
	if pc := guard("AsConstVector", func() {
		if !big {
			if d := m.AsConstVector().Dim(); d != rd.rows*rd.cols {
				bad = "inconsistent:AsConstVector().Dim() != rows*cols"
			}
		}
	}); pc != "" {
		return rd, pc
	}
	if bad != "" {
		return rd, bad
	}
	if mode != readFull || big {
		return rd, ""
	}
	if pc := guard("String", func() { _ = fmt.Sprint(m) }); pc != "" {
		return rd, pc
	}
	if pc := guard("Table", func() { _ = m.Table() }); pc != "" {
		return rd, pc
	}
	if pc := guard("MarshalJSON", func() { m.MarshalJSON() }); pc != "" {
		return rd, pc
	}
	if pc := guard("CloneConstMatrix", func() { m.CloneConstMatrix() }); pc != "" {
		return rd, pc
	}
	if pc := guard("ConstRow/ConstCol", func() {
		if rd.rows*rd.cols == 0 {
			return // ConstRow of an n x 0 matrix panics in the library; not a codec matter
		}
		for i := 0; i < rd.rows; i++ {
			if m.ConstRow(i).Dim() != rd.cols {
				bad = "inconsistent:ConstRow has wrong length"
			}
		}
		for j := 0; j < rd.cols; j++ {
			if m.ConstCol(j).Dim() != rd.rows {
				bad = "inconsistent:ConstCol has wrong length"
			}
		}
	}); pc != "" {
		return rd, pc
	}
	return rd, bad
}

/* comparisons
 * -------------------------------------------------------------------------- */

func problemClass(p string) string {
	if strings.HasPrefix(p, "inconsistent:") {
		return "corrupt-object(" + strings.TrimPrefix(p, "inconsistent:") + ")"
	}
	return "corrupt-object(" + p + ")"
}

// compareVectors: is the decoded vector observably equal to the original?
func compareVectors(st *scalarT, a, b ad.ConstVector, derivs bool) (cls, detail string) {
	ra, pa := fullReadVector(a, st.Kind, readFull)
	if pa != "" {
		return "SKIP", "original itself is not readable: " + pa
	}
	rb, pb := fullReadVector(b, st.Kind, readFull)
	if pb != "" {
		return "decoded object " + problemClass(pb), pb
	}
	if ra.dim != rb.dim {
		return "dimension", fmt.Sprintf("Dim %d decoded as %d", ra.dim, rb.dim)
	}
	for i := 0; i < ra.dim; i++ {
		if ra.bits[i] != rb.bits[i] {
			return "element value", fmt.Sprintf("element %d: value %s decoded as %s", i, ra.bits[i], rb.bits[i])
		}
		if !st.Real {
			continue
		}
		if c, d := compareScalar(st, ra.elems[i], rb.elems[i], derivs); c != "" {
			return "element " + c, fmt.Sprintf("element %d: %s", i, d)
		}
	}
	if fmt.Sprint(ra.nz) != fmt.Sprint(rb.nz) {
		return "non-zero positions", fmt.Sprintf("non-zero positions %v decoded as %v", ra.nz, rb.nz)
	}
	return "", ""
}

func nzKey(nz [][2]int) string {
	m := map[[2]int]bool{}
	for _, p := range nz {
		m[p] = true
	}
	s := []string{}
	for i := 0; i < 64; i++ {
		for j := 0; j < 64; j++ {
			if m[[2]int{i, j}] {
				s = append(s, fmt.Sprintf("(%d,%d)", i, j))
			}
		}
	}
	return strings.Join(s, "")
}

func compareMatrices(st *scalarT, a, b ad.ConstMatrix, derivs, emptyLenient bool, origMode int) (cls, detail string) {
	ra, pa := fullReadMatrix(a, st.Kind, origMode)
	if pa != "" {
		return "SKIP", "original itself is not readable: " + pa
	}
	rb, pb := fullReadMatrix(b, st.Kind, readFull)
	if pb != "" {
		return "decoded object " + problemClass(pb), pb
	}
	if emptyLenient && ra.rows*ra.cols == 0 {
		if rb.rows*rb.cols != 0 {
			return "dimension", fmt.Sprintf("empty %dx%d decoded as %dx%d", ra.rows, ra.cols, rb.rows, rb.cols)
		}
		return "", ""
	}
	if ra.rows != rb.rows || ra.cols != rb.cols {
		return "dimension", fmt.Sprintf("%dx%d decoded as %dx%d", ra.rows, ra.cols, rb.rows, rb.cols)
	}
	for i := 0; i < ra.rows; i++ {
		for j := 0; j < ra.cols; j++ {
			if x, y := ra.bits[[2]int{i, j}], rb.bits[[2]int{i, j}]; x != y {
				return "element value", fmt.Sprintf("element (%d,%d): value %s decoded as %s", i, j, x, y)
			}
			if !st.Real {
				continue
			}
			if c, d := compareScalar(st, ra.elems[[2]int{i, j}], rb.elems[[2]int{i, j}], derivs); c != "" {
				return "element " + c, fmt.Sprintf("element (%d,%d): %s", i, j, d)
			}
		}
	}
	if origMode == readMinimal {
		// the original is a view: its non-zero positions are those of its element reads
		ra.nz = nil
		for p, b := range ra.bits {
			if !zeroBits(b) {
				ra.nz = append(ra.nz, p)
			}
		}
	}
	if x, y := nzKey(ra.nz), nzKey(rb.nz); x != y {
		return "non-zero positions", fmt.Sprintf("non-zero positions %s decoded as %s", x, y)
	}
	return "", ""
}
