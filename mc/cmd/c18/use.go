package main

import (
	"encoding/json"
	"fmt"
	"hash/fnv"
	"math"
	"reflect"
	"strings"

	ad "github.com/pbenner/autodiff"
)

/* use battery
 * --------------------------------------------------------------------------
 * "Reading it back yields an object observably equal to the original" is judged not only
 * by reading the restored object but by USING it: a fixed sequence of operations of the
 * public container/scalar API is applied to the restored object and, step by step, to a
 * reference object that was built directly (never serialised) with the same content.
 * The restored object takes every role: operand of arithmetic (M/V add, sub, mul, div with
 * matrices, vectors and scalars, MdotM, MdotV, VdotM, Outer - the generic methods and,
 * through reflection, their concrete-typed upper-case twins where the type has them),
 * source of Set/Clone/T/Slice/Row/Col/Diag/AsVector/AsMatrix, iteration (plain, From,
 * joint), reductions, a second round trip; then RECEIVER of the same operations (also in
 * place, also through a T() view and a clone), of Set/Swap/Permute/Tip/SetIdentity/
 * Reset/Append/Sort, and of a further decode. After every step the outcome (returns /
 * panics with which class) and everything the step shows (the result or the complete
 * content of the receiver: dims, values exactly, non-zero derivatives) is recorded.
 * The two traces must agree: integers exactly, floats bitwise or - the library's sparse
 * containers sum in map order - within a relative rounding tolerance.
 */

type obs struct {
	name string
	st   string // "ok" | "panic:<class>"
	I    []int64
	F    []float64
}

type trace []obs

type useCtx struct {
	k    int  // element kind
	real bool // elements carry derivatives
	tr   trace
}

func (u *useCtx) step(name string, f func(o *obs)) {
	o := obs{name: name, st: "ok"}
	func() {
		defer func() {
			if r := recover(); r != nil {
				o.st = "panic:" + panicClass(r)
			}
		}()
		f(&o)
	}()
	u.tr = append(u.tr, o)
}

const obsEnd = -7777

func (u *useCtx) scalar(o *obs, s ad.ConstScalar) {
	if s == nil {
		o.I = append(o.I, -9999)
		return
	}
	if isIntKind(u.k) {
		o.I = append(o.I, s.GetInt64())
	} else {
		o.F = append(o.F, s.GetFloat64())
	}
	if !u.real {
		return
	}
	n := s.GetN()
	if n > 8 {
		n = 8
	}
	for i := 0; i < n; i++ {
		if d := s.GetDerivative(i); d != 0 {
			o.I = append(o.I, int64(i))
			o.F = append(o.F, d)
		}
	}
	for i := 0; i < n; i++ {
		for j := 0; j < n; j++ {
			if h := s.GetHessian(i, j); h != 0 {
				o.I = append(o.I, int64(100+i*10+j))
				o.F = append(o.F, h)
			}
		}
	}
	o.I = append(o.I, obsEnd)
}

func (u *useCtx) vector(o *obs, v ad.ConstVector) {
	if v == nil || (reflect.ValueOf(v).Kind() == reflect.Ptr && reflect.ValueOf(v).IsNil()) {
		o.I = append(o.I, -9998)
		return
	}
	n := v.Dim()
	o.I = append(o.I, int64(n))
	if n > 64 {
		n = 64
	}
	for i := 0; i < n; i++ {
		switch {
		case u.real:
			u.scalar(o, v.ConstAt(i))
		case isIntKind(u.k):
			o.I = append(o.I, v.Int64At(i))
		default:
			o.F = append(o.F, v.Float64At(i))
		}
	}
}

func (u *useCtx) matrix(o *obs, m ad.ConstMatrix) {
	if m == nil || (reflect.ValueOf(m).Kind() == reflect.Ptr && reflect.ValueOf(m).IsNil()) {
		o.I = append(o.I, -9997)
		return
	}
	r, c := m.Dims()
	o.I = append(o.I, int64(r), int64(c))
	if r > 16 {
		r = 16
	}
	if c > 16 {
		c = 16
	}
	for i := 0; i < r; i++ {
		for j := 0; j < c; j++ {
			switch {
			case u.real:
				u.scalar(o, m.ConstAt(i, j))
			case isIntKind(u.k):
				o.I = append(o.I, m.Int64At(i, j))
			default:
				o.F = append(o.F, m.Float64At(i, j))
			}
		}
	}
}

func (o *obs) str(s string) {
	h := fnv.New64a()
	h.Write([]byte(s))
	o.I = append(o.I, int64(h.Sum64()>>1))
}

func (o *obs) flag(b bool) {
	if b {
		o.I = append(o.I, 1)
	} else {
		o.I = append(o.I, 0)
	}
}

func useTol(k int) float64 {
	if k == kFloat32 {
		return 1e-5
	}
	return 1e-12
}

func sameFloat(x, y, tol float64) bool {
	if math.Float64bits(x) == math.Float64bits(y) {
		return true
	}
	if math.IsNaN(x) || math.IsNaN(y) {
		return math.IsNaN(x) && math.IsNaN(y)
	}
	if math.IsInf(x, 0) || math.IsInf(y, 0) {
		return x == y
	}
	if x == 0 && y == 0 {
		return false // +0 against -0
	}
	return math.Abs(x-y) <= tol*math.Max(math.Abs(x), math.Abs(y))
}

// diffTrace returns the index of the first step whose record differs (-1: none) and a
// description of the difference.
func diffTrace(a, b trace, tol float64) (int, string) {
	for i := range a {
		if i >= len(b) {
			return i, "trace ends early"
		}
		x, y := a[i], b[i]
		if x.st != y.st {
			return i, fmt.Sprintf("with the original: %s; with the restored object: %s", x.st, y.st)
		}
		if len(x.I) != len(y.I) || len(x.F) != len(y.F) {
			return i, fmt.Sprintf("what the step shows has another structure (dims / number or positions of non-zero derivatives): original %v|%v, restored %v|%v", clipI(x.I), clipF(x.F), clipI(y.I), clipF(y.F))
		}
		for j := range x.I {
			if x.I[j] != y.I[j] {
				return i, fmt.Sprintf("integer observation %d: original %d, restored %d (original %v, restored %v)", j, x.I[j], y.I[j], clipI(x.I), clipI(y.I))
			}
		}
		for j := range x.F {
			if !sameFloat(x.F[j], y.F[j], tol) {
				return i, fmt.Sprintf("float observation %d: original %v, restored %v (original %v, restored %v)", j, x.F[j], y.F[j], clipF(x.F), clipF(y.F))
			}
		}
	}
	if len(b) > len(a) {
		return len(a), "trace is longer"
	}
	return -1, ""
}

func clipI(x []int64) []int64 {
	if len(x) > 24 {
		return x[:24]
	}
	return x
}

func clipF(x []float64) []float64 {
	if len(x) > 24 {
		return x[:24]
	}
	return x
}

/* helpers (operands in the other roles): small exact values, same element type
 * -------------------------------------------------------------------------- */

func (ct *contT) denseTwin() *contT {
	if ct.Matrix {
		return contByName["Dense"+ct.St.Name+"Matrix"]
	}
	return contByName["Dense"+ct.St.Name+"Vector"]
}

func helperMat(ct *contT, r, c int) ad.Matrix {
	m := ct.newMat(r, c)
	for i := 0; i < r; i++ {
		for j := 0; j < c; j++ {
			m.At(i, j).SetInt64(int64(1 + (i*c+j)%2))
		}
	}
	if ct.St.Real && r > 0 && c > 0 {
		e := m.At(r-1, c-1).(ad.MagicScalar)
		e.Alloc(2, 1)
		e.SetDerivative(1, 1)
	}
	return m
}

func helperVec(ct *contT, n int) ad.Vector {
	v := ct.newVec(n)
	for i := 0; i < n; i++ {
		v.At(i).SetInt64(int64(1 + i%2))
	}
	if ct.St.Real && n > 0 {
		e := v.At(0).(ad.MagicScalar)
		e.Alloc(2, 1)
		e.SetDerivative(0, 1)
	}
	return v
}

func helperScalar(st *scalarT) ad.Scalar {
	s := ad.NullScalar(st.T)
	s.SetInt64(2)
	return s
}

// callCaps calls the concrete-typed twin (upper-case name) of a generic method, if the
// receiver's type has one and the arguments have exactly the concrete types it wants.
func callCaps(recv any, name string, args ...any) (called bool) {
	m := reflect.ValueOf(recv).MethodByName(name)
	if !m.IsValid() {
		return false
	}
	t := m.Type()
	if t.NumIn() != len(args) || t.IsVariadic() {
		return false
	}
	in := make([]reflect.Value, len(args))
	for i, a := range args {
		v := reflect.ValueOf(a)
		if !v.IsValid() {
			return false
		}
		switch {
		case v.Type() == t.In(i):
		case v.Kind() == reflect.Ptr && v.Type().Elem() == t.In(i) && !v.IsNil():
			v = v.Elem()
		default:
			return false
		}
		in[i] = v
	}
	m.Call(in)
	return true
}

func revPerm(n int) []int {
	p := make([]int, n)
	for i := range p {
		p[i] = n - 1 - i
	}
	return p
}

/* matrices
 * -------------------------------------------------------------------------- */

// matrixVariant: the helper operands of a step are of the receiver's own container type
// (same=true: the specialised code paths) or of the dense/sparse twin with the same
// element type.
func otherFam(ct *contT) *contT {
	n := ct.Name
	if ct.Sparse {
		n = strings.Replace(n, "Sparse", "Dense", 1)
	} else {
		n = strings.Replace(n, "Dense", "Sparse", 1)
	}
	return contByName[n]
}

// useMatrix applies the battery to X (which it modifies) and returns the trace.
// redecode re-encodes X with the case's codec and decodes it into a fresh receiver.
func useMatrix(ct *contT, X ad.Matrix, full bool, redecode func(m ad.Matrix) ad.Matrix) trace {
	u := &useCtx{k: ct.St.Kind, real: ct.St.Real}
	vt := contByName[strings.Replace(ct.Name, "Matrix", "Vector", 1)]
	r, c := X.Dims()
	N := func(a, b int) ad.Matrix { return ct.newMat(a, b) }
	NV := func(n int) ad.Vector { return vt.newVec(n) }
	// helper operands (never receivers) are built once per trace
	hm, hvs := map[[2]int]ad.Matrix{}, map[int]ad.Vector{}
	H := func(a, b int) ad.Matrix {
		m, ok := hm[[2]int{a, b}]
		if !ok {
			m = helperMat(ct, a, b)
			hm[[2]int{a, b}] = m
		}
		return m
	}
	hv := func(n int) ad.Vector {
		v, ok := hvs[n]
		if !ok {
			v = helperVec(vt, n)
			hvs[n] = v
		}
		return v
	}
	s := helperScalar(ct.St)
	type bin struct {
		name string
		f    func(rc ad.Matrix, a, b ad.ConstMatrix) ad.Matrix
	}
	bins := []bin{
		{"MaddM", func(rc ad.Matrix, a, b ad.ConstMatrix) ad.Matrix { return rc.MaddM(a, b) }},
		{"MsubM", func(rc ad.Matrix, a, b ad.ConstMatrix) ad.Matrix { return rc.MsubM(a, b) }},
		{"MmulM", func(rc ad.Matrix, a, b ad.ConstMatrix) ad.Matrix { return rc.MmulM(a, b) }},
		{"MdivM", func(rc ad.Matrix, a, b ad.ConstMatrix) ad.Matrix { return rc.MdivM(a, b) }},
	}
	type sca struct {
		name string
		f    func(rc ad.Matrix, a ad.ConstMatrix, b ad.ConstScalar) ad.Matrix
	}
	scas := []sca{
		{"MaddS", func(rc ad.Matrix, a ad.ConstMatrix, b ad.ConstScalar) ad.Matrix { return rc.MaddS(a, b) }},
		{"MsubS", func(rc ad.Matrix, a ad.ConstMatrix, b ad.ConstScalar) ad.Matrix { return rc.MsubS(a, b) }},
		{"MmulS", func(rc ad.Matrix, a ad.ConstMatrix, b ad.ConstScalar) ad.Matrix { return rc.MmulS(a, b) }},
		{"MdivS", func(rc ad.Matrix, a ad.ConstMatrix, b ad.ConstScalar) ad.Matrix { return rc.MdivS(a, b) }},
	}
	/* the restored object as operand / source */
	for _, op := range bins {
		op := op
		u.step(op.name+"(X,H)", func(o *obs) { u.matrix(o, op.f(N(r, c), X, H(r, c))) })
		u.step(op.name+"(H,X)", func(o *obs) { u.matrix(o, op.f(N(r, c), H(r, c), X)) })
		if full {
			u.step(op.name+"(X,X)", func(o *obs) { u.matrix(o, op.f(N(r, c), X, X)) })
		}
		u.step(strings.ToUpper(op.name)+"(X,H)", func(o *obs) {
			R := N(r, c)
			o.flag(callCaps(R, strings.ToUpper(op.name), X, H(r, c)))
			u.matrix(o, R)
		})
	}
	for _, op := range scas {
		op := op
		u.step(op.name+"(X,s)", func(o *obs) { u.matrix(o, op.f(N(r, c), X, s)) })
		if full {
			u.step(strings.ToUpper(op.name)+"(X,s)", func(o *obs) {
				R := N(r, c)
				o.flag(callCaps(R, strings.ToUpper(op.name), X, s))
				u.matrix(o, R)
			})
		}
	}
	u.step("MdotM(X,H)", func(o *obs) { u.matrix(o, N(r, 2).MdotM(X, H(c, 2))) })
	u.step("MdotM(H,X)", func(o *obs) { u.matrix(o, N(2, c).MdotM(H(2, r), X)) })
	u.step("MdotM(X,X.T())", func(o *obs) { u.matrix(o, N(r, r).MdotM(X, X.T())) })
	u.step("MDOTM(X,H)", func(o *obs) {
		R := N(r, 2)
		o.flag(callCaps(R, "MDOTM", X, H(c, 2)))
		u.matrix(o, R)
	})
	u.step("MDOTM(H,X)", func(o *obs) {
		R := N(2, c)
		o.flag(callCaps(R, "MDOTM", H(2, r), X))
		u.matrix(o, R)
	})
	u.step("MdotV(X,v)", func(o *obs) { u.vector(o, NV(r).MdotV(X, hv(c))) })
	u.step("VdotM(v,X)", func(o *obs) { u.vector(o, NV(c).VdotM(hv(r), X)) })
	u.step("MDOTV(X,v)", func(o *obs) {
		R := NV(r)
		o.flag(callCaps(R, "MDOTV", X, hv(c)))
		u.vector(o, R)
	})
	u.step("VDOTM(v,X)", func(o *obs) {
		R := NV(c)
		o.flag(callCaps(R, "VDOTM", hv(r), X))
		u.vector(o, R)
	})
	if of := otherFam(ct); of != nil {
		// operand of a receiver of the other storage family
		u.step("other-family.MdotM(X,H)", func(o *obs) { u.matrix(o, of.newMat(r, 2).MdotM(X, H(c, 2))) })
		u.step("other-family.MaddM(X,H)", func(o *obs) { u.matrix(o, of.newMat(r, c).MaddM(X, H(r, c))) })
		u.step("other-family.Set(X)", func(o *obs) {
			R := of.newMat(r, c)
			R.Set(X)
			u.matrix(o, R)
		})
	}
	u.step("Set(X)", func(o *obs) {
		R := N(r, c)
		R.Set(X)
		u.matrix(o, R)
	})
	u.step("CloneMatrix", func(o *obs) { u.matrix(o, X.CloneMatrix()) })
	u.step("CloneMatrix as receiver of MdotM", func(o *obs) {
		Y := X.CloneMatrix()
		Y.MdotM(H(r, 2), H(2, c))
		u.matrix(o, Y)
	})
	u.step("CloneMatrix as receiver of MdotM in place", func(o *obs) {
		Y := X.CloneMatrix()
		Y.MdotM(Y, H(c, c))
		u.matrix(o, Y)
	})
	u.step("T()", func(o *obs) { u.matrix(o, X.T()) })
	u.step("Slice(all)", func(o *obs) { u.matrix(o, X.Slice(0, r, 0, c)) })
	u.step("Slice(lower right)", func(o *obs) { u.matrix(o, X.Slice(r/2, r, c/2, c)) })
	u.step("ConstSlice(upper left)", func(o *obs) { u.matrix(o, X.ConstSlice(0, (r+1)/2, 0, (c+1)/2)) })
	if r > 0 && c > 0 {
		u.step("Row(last)", func(o *obs) { u.vector(o, X.Row(r-1)) })
		u.step("Col(last)", func(o *obs) { u.vector(o, X.Col(c-1)) })
		u.step("ConstRow(0)", func(o *obs) { u.vector(o, X.ConstRow(0)) })
		u.step("ConstCol(0)", func(o *obs) { u.vector(o, X.ConstCol(0)) })
	}
	if r == c {
		u.step("Diag()", func(o *obs) { u.vector(o, X.Diag()) })
		u.step("Mtrace(X)", func(o *obs) { u.scalar(o, ad.NullScalar(ct.St.T).Mtrace(X)) })
	}
	u.step("AsVector()", func(o *obs) { u.vector(o, X.AsVector()) })
	u.step("AsConstVector()", func(o *obs) { u.vector(o, X.AsConstVector()) })
	u.step("ConstIterator", func(o *obs) {
		n := 0
		for it := X.ConstIterator(); it.Ok(); it.Next() {
			if n++; n > 400 {
				panic("iterator does not end")
			}
			i, j := it.Index()
			if e := it.GetConst(); !isZeroScalar(e, u.k) {
				o.I = append(o.I, int64(i), int64(j))
				u.scalar(o, e)
			}
		}
	})
	u.step("Iterator", func(o *obs) {
		n := 0
		for it := X.Iterator(); it.Ok(); it.Next() {
			if n++; n > 400 {
				panic("iterator does not end")
			}
			i, j := it.Index()
			if e := it.GetConst(); !isZeroScalar(e, u.k) {
				o.I = append(o.I, int64(i), int64(j))
				u.scalar(o, e)
			}
		}
	})
	if r > 0 && c > 0 {
		u.step("ConstIteratorFrom(last row)", func(o *obs) {
			n := 0
			for it := X.ConstIteratorFrom(r-1, 0); it.Ok(); it.Next() {
				if n++; n > 400 {
					panic("iterator does not end")
				}
				i, j := it.Index()
				if e := it.GetConst(); !isZeroScalar(e, u.k) {
					o.I = append(o.I, int64(i), int64(j))
					u.scalar(o, e)
				}
			}
		})
	}
	u.step("JointIterator(H)", func(o *obs) {
		n := 0
		for it := X.JointIterator(H(r, c)); it.Ok(); it.Next() {
			if n++; n > 400 {
				panic("iterator does not end")
			}
			i, j := it.Index()
			a, b := it.GetConst()
			o.I = append(o.I, int64(i), int64(j))
			if a != nil && !reflect.ValueOf(a).IsZero() {
				u.scalar(o, a)
			} else {
				o.I = append(o.I, -1)
			}
			if b != nil && !reflect.ValueOf(b).IsZero() {
				u.scalar(o, b)
			} else {
				o.I = append(o.I, -1)
			}
		}
	})
	u.step("Equals/IsSymmetric", func(o *obs) {
		o.flag(X.Equals(H(r, c), 0))
		o.flag(X.Equals(X.CloneMatrix(), 0))
		o.flag(X.IsSymmetric(0))
	})
	u.step("Table", func(o *obs) { o.str(X.Table()) })
	if !isIntKind(u.k) {
		u.step("Mnorm(X)", func(o *obs) { u.scalar(o, ad.NullScalar(ct.St.T).Mnorm(X)) })
	}
	if redecode != nil {
		u.step("second round trip", func(o *obs) { u.matrix(o, redecode(X)) })
	}
	/* the restored object as receiver */
	u.step("X.MdotM(A,B)", func(o *obs) { X.MdotM(H(r, 2), H(2, c)); u.matrix(o, X) })
	u.step("X.MdotM(X,S)", func(o *obs) { X.MdotM(X, H(c, c)); u.matrix(o, X) })
	u.step("X.MdotM(S,X)", func(o *obs) { X.MdotM(H(r, r), X); u.matrix(o, X) })
	u.step("X.MDOTM(A,B)", func(o *obs) { o.flag(callCaps(X, "MDOTM", H(r, 2), H(2, c))); u.matrix(o, X) })
	u.step("X.MDOTM(X,S)", func(o *obs) { o.flag(callCaps(X, "MDOTM", X, H(c, c))); u.matrix(o, X) })
	u.step("X.MDOTM(S,X)", func(o *obs) { o.flag(callCaps(X, "MDOTM", H(r, r), X)); u.matrix(o, X) })
	if r == c {
		u.step("X.MdotM(X,X)", func(o *obs) { X.Set(H(r, c)); X.MdotM(X, X); u.matrix(o, X) })
	}
	for _, op := range bins {
		op := op
		u.step("X."+op.name+"(X,H)", func(o *obs) { op.f(X, X, H(r, c)); u.matrix(o, X) })
		u.step("X."+op.name+"(H,X)", func(o *obs) { op.f(X, H(r, c), X); u.matrix(o, X) })
		u.step("X."+strings.ToUpper(op.name)+"(H,X)", func(o *obs) {
			o.flag(callCaps(X, strings.ToUpper(op.name), H(r, c), X))
			u.matrix(o, X)
		})
	}
	for _, op := range scas {
		op := op
		u.step("X."+op.name+"(X,s)", func(o *obs) { op.f(X, X, s); u.matrix(o, X) })
		if full {
			u.step("X."+strings.ToUpper(op.name)+"(X,s)", func(o *obs) {
				o.flag(callCaps(X, strings.ToUpper(op.name), X, s))
				u.matrix(o, X)
			})
		}
	}
	u.step("X.Outer(a,b)", func(o *obs) { X.Outer(hv(r), hv(c)); u.matrix(o, X) })
	u.step("X.OUTER(a,b)", func(o *obs) { o.flag(callCaps(X, "OUTER", hv(r), hv(c))); u.matrix(o, X) })
	u.step("X.T().MdotM(A,B)", func(o *obs) { X.T().MdotM(H(c, 2), H(2, r)); u.matrix(o, X) })
	u.step("X.T().MdotM(X.T(),S)", func(o *obs) { t := X.T(); t.MdotM(t, H(r, r)); u.matrix(o, X) })
	u.step("X.Slice(all).MdotM(A,B)", func(o *obs) { X.Slice(0, r, 0, c).MdotM(H(r, 2), H(2, c)); u.matrix(o, X) })
	u.step("X.Set(H)", func(o *obs) { X.Set(H(r, c)); u.matrix(o, X) })
	if r > 0 && c > 0 {
		u.step("X.At(0,0).Set(s)", func(o *obs) { X.At(0, 0).Set(s); u.matrix(o, X) })
		u.step("X.Row(0).Set(v)", func(o *obs) { X.Row(0).Set(hv(c)); u.matrix(o, X) })
		u.step("X.Swap/SwapRows/SwapColumns", func(o *obs) {
			X.Swap(0, 0, r-1, c-1)
			o.flag(X.SwapRows(0, r-1) == nil)
			o.flag(X.SwapColumns(0, c-1) == nil)
			u.matrix(o, X)
		})
	}
	u.step("X.PermuteRows/PermuteColumns", func(o *obs) {
		o.flag(X.PermuteRows(revPerm(r)) == nil)
		o.flag(X.PermuteColumns(revPerm(c)) == nil)
		u.matrix(o, X)
	})
	if r == c {
		u.step("X.SymmetricPermutation", func(o *obs) { o.flag(X.SymmetricPermutation(revPerm(r)) == nil); u.matrix(o, X) })
	}
	u.step("X.Tip()", func(o *obs) { X.Tip(); u.matrix(o, X) })
	u.step("X.MdotM(A,B) after Tip", func(o *obs) { X.MdotM(H(c, 2), H(2, r)); u.matrix(o, X) })
	u.step("X.MdotM(X,S) after Tip", func(o *obs) { X.MdotM(X, H(r, r)); u.matrix(o, X) })
	u.step("X.SetIdentity()", func(o *obs) { X.SetIdentity(); u.matrix(o, X) })
	u.step("X.Reset()", func(o *obs) { X.Reset(); u.matrix(o, X) })
	u.step("X.MaddM(H,H) after Reset", func(o *obs) { X.MaddM(H(c, r), H(c, r)); u.matrix(o, X) })
	if um, ok := X.(json.Unmarshaler); ok {
		for _, d := range [][2]int{{2, 3}, {1, 1}, {3, 2}} {
			d := d
			u.step(fmt.Sprintf("X.UnmarshalJSON(%dx%d), then receiver of MdotM", d[0], d[1]), func(o *obs) {
				enc, err := H(d[0], d[1]).MarshalJSON()
				if err != nil {
					panic(err)
				}
				o.flag(um.UnmarshalJSON(enc) == nil)
				u.matrix(o, X)
				X.MdotM(H(d[0], 2), H(2, d[1]))
				u.matrix(o, X)
				X.MdotM(X, H(d[1], d[1]))
				u.matrix(o, X)
			})
		}
	}
	return u.tr
}

/* vectors
 * -------------------------------------------------------------------------- */

func useVector(ct *contT, X ad.Vector, full bool, redecode func(v ad.Vector) ad.Vector) trace {
	u := &useCtx{k: ct.St.Kind, real: ct.St.Real}
	mt := contByName[strings.Replace(ct.Name, "Vector", "Matrix", 1)]
	n := X.Dim()
	NV := func(n int) ad.Vector { return ct.newVec(n) }
	N := func(a, b int) ad.Matrix { return mt.newMat(a, b) }
	hm, hvs := map[[2]int]ad.Matrix{}, map[int]ad.Vector{}
	H := func(a, b int) ad.Matrix {
		m, ok := hm[[2]int{a, b}]
		if !ok {
			m = helperMat(mt, a, b)
			hm[[2]int{a, b}] = m
		}
		return m
	}
	hv := func(n int) ad.Vector {
		v, ok := hvs[n]
		if !ok {
			v = helperVec(ct, n)
			hvs[n] = v
		}
		return v
	}
	s := helperScalar(ct.St)
	type bin struct {
		name string
		f    func(rc ad.Vector, a, b ad.ConstVector) ad.Vector
	}
	bins := []bin{
		{"VaddV", func(rc ad.Vector, a, b ad.ConstVector) ad.Vector { return rc.VaddV(a, b) }},
		{"VsubV", func(rc ad.Vector, a, b ad.ConstVector) ad.Vector { return rc.VsubV(a, b) }},
		{"VmulV", func(rc ad.Vector, a, b ad.ConstVector) ad.Vector { return rc.VmulV(a, b) }},
		{"VdivV", func(rc ad.Vector, a, b ad.ConstVector) ad.Vector { return rc.VdivV(a, b) }},
	}
	type sca struct {
		name string
		f    func(rc ad.Vector, a ad.ConstVector, b ad.ConstScalar) ad.Vector
	}
	scas := []sca{
		{"VaddS", func(rc ad.Vector, a ad.ConstVector, b ad.ConstScalar) ad.Vector { return rc.VaddS(a, b) }},
		{"VsubS", func(rc ad.Vector, a ad.ConstVector, b ad.ConstScalar) ad.Vector { return rc.VsubS(a, b) }},
		{"VmulS", func(rc ad.Vector, a ad.ConstVector, b ad.ConstScalar) ad.Vector { return rc.VmulS(a, b) }},
		{"VdivS", func(rc ad.Vector, a ad.ConstVector, b ad.ConstScalar) ad.Vector { return rc.VdivS(a, b) }},
	}
	iter := func(o *obs, it ad.VectorConstIterator) {
		k := 0
		for ; it.Ok(); it.Next() {
			if k++; k > 400 {
				panic("iterator does not end")
			}
			if e := it.GetConst(); !isZeroScalar(e, u.k) {
				o.I = append(o.I, int64(it.Index()))
				u.scalar(o, e)
			}
		}
	}
	/* operand / source */
	for _, op := range bins {
		op := op
		u.step(op.name+"(X,h)", func(o *obs) { u.vector(o, op.f(NV(n), X, hv(n))) })
		u.step(op.name+"(h,X)", func(o *obs) { u.vector(o, op.f(NV(n), hv(n), X)) })
		if full {
			u.step(op.name+"(X,X)", func(o *obs) { u.vector(o, op.f(NV(n), X, X)) })
		}
		u.step(strings.ToUpper(op.name)+"(X,h)", func(o *obs) {
			R := NV(n)
			o.flag(callCaps(R, strings.ToUpper(op.name), X, hv(n)))
			u.vector(o, R)
		})
	}
	for _, op := range scas {
		op := op
		u.step(op.name+"(X,s)", func(o *obs) { u.vector(o, op.f(NV(n), X, s)) })
		if full {
			u.step(strings.ToUpper(op.name)+"(X,s)", func(o *obs) {
				R := NV(n)
				o.flag(callCaps(R, strings.ToUpper(op.name), X, s))
				u.vector(o, R)
			})
		}
	}
	u.step("MdotV(H,X)", func(o *obs) { u.vector(o, NV(2).MdotV(H(2, n), X)) })
	u.step("VdotM(X,H)", func(o *obs) { u.vector(o, NV(2).VdotM(X, H(n, 2))) })
	u.step("MDOTV(H,X)", func(o *obs) {
		R := NV(2)
		o.flag(callCaps(R, "MDOTV", H(2, n), X))
		u.vector(o, R)
	})
	u.step("VDOTM(X,H)", func(o *obs) {
		R := NV(2)
		o.flag(callCaps(R, "VDOTM", X, H(n, 2)))
		u.vector(o, R)
	})
	u.step("Outer(X,h)", func(o *obs) { u.matrix(o, N(n, 2).Outer(X, hv(2))) })
	u.step("Outer(h,X)", func(o *obs) { u.matrix(o, N(2, n).Outer(hv(2), X)) })
	u.step("OUTER(X,h)", func(o *obs) {
		R := N(n, 2)
		o.flag(callCaps(R, "OUTER", X, hv(2)))
		u.matrix(o, R)
	})
	if of := otherFam(ct); of != nil {
		u.step("other-family.VaddV(X,h)", func(o *obs) { u.vector(o, of.newVec(n).VaddV(X, hv(n))) })
		u.step("other-family.Set(X)", func(o *obs) {
			R := of.newVec(n)
			R.Set(X)
			u.vector(o, R)
		})
	}
	u.step("Set(X)", func(o *obs) {
		R := NV(n)
		R.Set(X)
		u.vector(o, R)
	})
	u.step("CloneVector", func(o *obs) { u.vector(o, X.CloneVector()) })
	u.step("CloneVector as receiver of VaddV", func(o *obs) {
		Y := X.CloneVector()
		Y.VaddV(Y, hv(n))
		u.vector(o, Y)
	})
	u.step("Slice(all)", func(o *obs) { u.vector(o, X.Slice(0, n)) })
	u.step("Slice(upper half)", func(o *obs) { u.vector(o, X.Slice(n/2, n)) })
	u.step("ConstSlice(lower half)", func(o *obs) { u.vector(o, X.ConstSlice(0, (n+1)/2)) })
	u.step("AsMatrix(1,n)", func(o *obs) { u.matrix(o, X.AsMatrix(1, n)) })
	u.step("AsMatrix(n,1) as operand of MdotM", func(o *obs) { u.matrix(o, N(n, 2).MdotM(X.AsMatrix(n, 1), H(1, 2))) })
	u.step("AsConstMatrix(n,1)", func(o *obs) { u.matrix(o, X.AsConstMatrix(n, 1)) })
	u.step("ConstIterator", func(o *obs) { iter(o, X.ConstIterator()) })
	u.step("Iterator", func(o *obs) {
		k := 0
		for it := X.Iterator(); it.Ok(); it.Next() {
			if k++; k > 400 {
				panic("iterator does not end")
			}
			if e := it.GetConst(); !isZeroScalar(e, u.k) {
				o.I = append(o.I, int64(it.Index()))
				u.scalar(o, e)
			}
		}
	})
	if n > 0 {
		u.step("ConstIteratorFrom(last)", func(o *obs) { iter(o, X.ConstIteratorFrom(n-1)) })
	}
	joint := func(o *obs, idx int, a, b ad.ConstScalar) {
		o.I = append(o.I, int64(idx))
		for _, e := range []ad.ConstScalar{a, b} {
			if e != nil && !reflect.ValueOf(e).IsZero() {
				u.scalar(o, e)
			} else {
				o.I = append(o.I, -1)
			}
		}
	}
	u.step("ConstJointIterator(h)", func(o *obs) {
		k := 0
		for it := X.ConstJointIterator(hv(n)); it.Ok(); it.Next() {
			if k++; k > 400 {
				panic("iterator does not end")
			}
			a, b := it.GetConst()
			joint(o, it.Index(), a, b)
		}
	})
	u.step("JointIterator(h)", func(o *obs) {
		k := 0
		for it := X.JointIterator(hv(n)); it.Ok(); it.Next() {
			if k++; k > 400 {
				panic("iterator does not end")
			}
			a, b := it.GetConst()
			joint(o, it.Index(), a, b)
		}
	})
	u.step("Equals", func(o *obs) {
		o.flag(X.Equals(hv(n), 0))
		o.flag(X.Equals(X.CloneVector(), 0))
	})
	u.step("Table", func(o *obs) { o.str(X.Table()) })
	u.step("VdotV(X,h)", func(o *obs) { u.scalar(o, ad.NullScalar(ct.St.T).VdotV(X, hv(n))) })
	if !isIntKind(u.k) {
		u.step("Vnorm(X)", func(o *obs) { u.scalar(o, ad.NullScalar(ct.St.T).Vnorm(X)) })
		if n > 0 {
			u.step("Vmean(X)", func(o *obs) { u.scalar(o, ad.NullScalar(ct.St.T).Vmean(X)) })
		}
	}
	if redecode != nil {
		u.step("second round trip", func(o *obs) { u.vector(o, redecode(X)) })
	}
	/* receiver */
	for _, op := range bins {
		op := op
		u.step("X."+op.name+"(X,h)", func(o *obs) { op.f(X, X, hv(n)); u.vector(o, X) })
		u.step("X."+op.name+"(h,X)", func(o *obs) { op.f(X, hv(n), X); u.vector(o, X) })
		u.step("X."+strings.ToUpper(op.name)+"(h,X)", func(o *obs) {
			o.flag(callCaps(X, strings.ToUpper(op.name), hv(n), X))
			u.vector(o, X)
		})
	}
	for _, op := range scas {
		op := op
		u.step("X."+op.name+"(X,s)", func(o *obs) { op.f(X, X, s); u.vector(o, X) })
		if full {
			u.step("X."+strings.ToUpper(op.name)+"(X,s)", func(o *obs) {
				o.flag(callCaps(X, strings.ToUpper(op.name), X, s))
				u.vector(o, X)
			})
		}
	}
	u.step("X.MdotV(A,b)", func(o *obs) { X.MdotV(H(n, 2), hv(2)); u.vector(o, X) })
	u.step("X.VdotM(a,B)", func(o *obs) { X.VdotM(hv(2), H(2, n)); u.vector(o, X) })
	u.step("X.MDOTV(A,b)", func(o *obs) { o.flag(callCaps(X, "MDOTV", H(n, 2), hv(2))); u.vector(o, X) })
	u.step("X.VDOTM(a,B)", func(o *obs) { o.flag(callCaps(X, "VDOTM", hv(2), H(2, n))); u.vector(o, X) })
	u.step("X.Set(h)", func(o *obs) { X.Set(hv(n)); u.vector(o, X) })
	u.step("X.Slice(all).VaddV(h,h)", func(o *obs) { X.Slice(0, n).VaddV(hv(n), hv(n)); u.vector(o, X) })
	if n > 0 {
		u.step("X.At(0).Set(s)", func(o *obs) { X.At(0).Set(s); u.vector(o, X) })
		u.step("X.Swap(0,last)", func(o *obs) { X.Swap(0, n-1); u.vector(o, X) })
	}
	u.step("X.Permute(reverse)", func(o *obs) { o.flag(X.Permute(revPerm(n)) == nil); u.vector(o, X) })
	u.step("X.ReverseOrder()", func(o *obs) { X.ReverseOrder(); u.vector(o, X) })
	u.step("X.Sort(false)", func(o *obs) { X.Sort(false); u.vector(o, X) })
	u.step("X.Sort(true)", func(o *obs) { X.Sort(true); u.vector(o, X) })
	u.step("X.AppendScalar(s)", func(o *obs) {
		Y := X.AppendScalar(s.CloneScalar())
		u.vector(o, Y)
		u.vector(o, X)
	})
	u.step("X.AppendVector(h)", func(o *obs) {
		Y := X.AppendVector(hv(2))
		u.vector(o, Y)
		u.vector(o, X)
	})
	u.step("X.AsMatrix(n,1).MdotM(A,B)", func(o *obs) { X.AsMatrix(n, 1).MdotM(H(n, 2), H(2, 1)); u.vector(o, X) })
	u.step("X.Reset()", func(o *obs) { X.Reset(); u.vector(o, X) })
	u.step("X.VaddV(h,h) after Reset", func(o *obs) { X.VaddV(hv(n), hv(n)); u.vector(o, X) })
	if um, ok := X.(json.Unmarshaler); ok {
		for _, d := range []int{3, 1} {
			d := d
			u.step(fmt.Sprintf("X.UnmarshalJSON(%d-vector), then receiver of VaddV", d), func(o *obs) {
				enc, err := hv(d).MarshalJSON()
				if err != nil {
					panic(err)
				}
				o.flag(um.UnmarshalJSON(enc) == nil)
				u.vector(o, X)
				X.VaddV(X, hv(d))
				u.vector(o, X)
			})
		}
	}
	return u.tr
}

/* scalars
 * -------------------------------------------------------------------------- */

// useScalar: y is the restored (or reference) scalar. Constant scalars are operands only.
func useScalar(st *scalarT, y ad.ConstScalar) trace {
	u := &useCtx{k: st.Kind, real: st.Real}
	mst := st
	if st.Const {
		mst = scalarByName[st.Sibling]
	}
	R := func() ad.Scalar { return ad.NullScalar(mst.T) }
	s := helperScalar(mst)
	t := helperScalar(mst)
	if mst.Real {
		m := t.(ad.MagicScalar)
		m.Alloc(2, 2)
		m.SetDerivative(1, 1)
		m.SetHessian(0, 1, 1)
	}
	type bin struct {
		name string
		f    func(r ad.Scalar, a, b ad.ConstScalar) ad.Scalar
	}
	bins := []bin{
		{"Add", func(r ad.Scalar, a, b ad.ConstScalar) ad.Scalar { return r.Add(a, b) }},
		{"Sub", func(r ad.Scalar, a, b ad.ConstScalar) ad.Scalar { return r.Sub(a, b) }},
		{"Mul", func(r ad.Scalar, a, b ad.ConstScalar) ad.Scalar { return r.Mul(a, b) }},
		{"Div", func(r ad.Scalar, a, b ad.ConstScalar) ad.Scalar { return r.Div(a, b) }},
		{"Min", func(r ad.Scalar, a, b ad.ConstScalar) ad.Scalar { return r.Min(a, b) }},
		{"Max", func(r ad.Scalar, a, b ad.ConstScalar) ad.Scalar { return r.Max(a, b) }},
	}
	for _, op := range bins {
		op := op
		u.step(op.name+"(y,s)", func(o *obs) { u.scalar(o, op.f(R(), y, s)) })
		u.step(op.name+"(t,y)", func(o *obs) { u.scalar(o, op.f(R(), t, y)) })
		u.step(op.name+"(y,y)", func(o *obs) { u.scalar(o, op.f(R(), y, y)) })
	}
	u.step("Neg(y)", func(o *obs) { u.scalar(o, R().Neg(y)) })
	u.step("Abs(y)", func(o *obs) { u.scalar(o, R().Abs(y)) })
	u.step("Set(y)", func(o *obs) {
		r := R()
		r.Set(y)
		u.scalar(o, r)
	})
	u.step("CloneConstScalar", func(o *obs) { u.scalar(o, y.CloneConstScalar()) })
	u.step("ConvertConstScalar(sibling)", func(o *obs) { u.scalar(o, y.ConvertConstScalar(mst.T)) })
	u.step("Equals/Greater/Smaller/Sign", func(o *obs) {
		o.flag(y.Equals(s, 0))
		o.flag(y.Equals(y.CloneConstScalar(), 0))
		o.flag(y.Greater(s))
		o.flag(y.Smaller(s))
		o.I = append(o.I, int64(y.Sign()), int64(y.GetOrder()))
	})
	u.step("String", func(o *obs) { o.str(y.String()) })
	u.step("second round trip", func(o *obs) {
		enc, err := y.MarshalJSON()
		if err != nil {
			panic(err)
		}
		r := R()
		if err := r.(json.Unmarshaler).UnmarshalJSON(enc); err != nil {
			panic(err)
		}
		u.scalar(o, r)
	})
	if !isIntKind(st.Kind) {
		u.step("Exp(y)", func(o *obs) { u.scalar(o, R().Exp(y)) })
		u.step("Pow(y,s)", func(o *obs) { u.scalar(o, R().Pow(y, s)) })
	}
	u.step("element of a vector: VdotV", func(o *obs) {
		v := ad.NullDenseVector(mst.T, 2)
		v.At(0).Set(y)
		v.At(1).Set(y)
		u.scalar(o, R().VdotV(v, v))
	})
	x, ok := y.(ad.Scalar)
	if !ok || st.Const {
		return u.tr
	}
	/* receiver */
	for _, op := range bins {
		op := op
		u.step("y."+op.name+"(y,t)", func(o *obs) { op.f(x, x, t); u.scalar(o, x) })
		u.step("y."+op.name+"(s,y)", func(o *obs) { op.f(x, s, x); u.scalar(o, x) })
	}
	u.step("y.Neg(y)", func(o *obs) { x.Neg(x); u.scalar(o, x) })
	u.step("y.Set(t)", func(o *obs) { x.Set(t); u.scalar(o, x) })
	u.step("y.SetInt64(3)", func(o *obs) { x.SetInt64(3); u.scalar(o, x) })
	u.step("y.Mul(y,y)", func(o *obs) { x.Mul(x, x); u.scalar(o, x) })
	if m, ok := x.(ad.MagicScalar); ok && st.Real {
		u.step("y.SetVariable, y.Mul(y,y)", func(o *obs) {
			m.SetFloat64(3)
			o.flag(m.SetVariable(0, 2, 2) == nil)
			u.scalar(o, x)
			m.Mul(m, m)
			u.scalar(o, x)
		})
		u.step("y.ResetDerivatives()", func(o *obs) { m.ResetDerivatives(); u.scalar(o, x) })
	}
	u.step("y.Reset()", func(o *obs) { x.Reset(); u.scalar(o, x) })
	u.step("y.Add(s,t) after Reset", func(o *obs) { x.Add(s, t); u.scalar(o, x) })
	u.step("y.UnmarshalJSON(json of t)", func(o *obs) {
		enc, err := t.MarshalJSON()
		if err != nil {
			panic(err)
		}
		o.flag(x.(json.Unmarshaler).UnmarshalJSON(enc) == nil)
		u.scalar(o, x)
		x.Mul(x, s)
		u.scalar(o, x)
	})
	return u.tr
}

/* verdict
 * -------------------------------------------------------------------------- */

// useVerdict compares the trace of the restored object with the reference trace. mkRef
// produces the trace of one more, independently built reference object: a step on which
// two never-serialised objects disagree is a non-deterministic library operation, not a
// matter of the codec (reported as outcome, never as violation).
func useVerdict(x *X, ref, dec trace, tol float64, mkRef func() trace) (stepName, cls, detail string) {
	x.c.Count("use_battery_runs", 1)
	x.c.Count("use_battery_steps", int64(len(dec)))
	i, d := diffTrace(ref, dec, tol)
	if i < 0 {
		return "", "", ""
	}
	if mkRef != nil {
		if j, _ := diffTrace(ref, mkRef(), tol); j >= 0 && j <= i {
			x.c.Outcome("use-battery:step not deterministic on two directly built objects (ignored): " + ref[j].name)
			return "", "", ""
		}
	}
	name := "?"
	if i < len(ref) {
		name = ref[i].name
	} else if i < len(dec) {
		name = dec[i].name
	}
	cls = "result differs"
	if i < len(ref) && i < len(dec) && ref[i].st != dec[i].st {
		cls = "original: " + ref[i].st + ", restored: " + dec[i].st
	}
	return name, cls, d
}
