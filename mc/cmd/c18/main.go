// C18: serialisation round-trips every value; malformed input is answered with an error.
//
// Bounded-exhaustive codec check. Every case runs the real encoders/decoders of the
// library. Because a defective codec can die with an unrecoverable runtime error
// (stack overflow by unbounded recursion), each vf worker runs its share of the
// enumeration in a child process of the same binary and turns a fatal crash / hang of
// the child into a violation of the case that was executing (progress is published
// through a shared memory-mapped file), then resumes with that case class skipped.
package main

import (
	"bufio"
	"bytes"
	"encoding/binary"
	"encoding/json"
	"fmt"
	"os"
	"os/exec"
	"path/filepath"
	"regexp"
	"runtime/debug"
	"sort"
	"strings"
	"sync/atomic"
	"syscall"
	"time"

	"verif/mc/vf"
)

// Case is one executable case; it is also the replay artefact.
type Case struct {
	Block string `json:"block"`
	Type  string `json:"type,omitempty"`
	Codec string `json:"codec,omitempty"`
	// round-trip object
	Val     int       `json:"val"`
	ValName string    `json:"val_name,omitempty"`
	Real    *realSpec `json:"real,omitempty"`
	Dims    []int     `json:"dims,omitempty"`
	Pat     []int     `json:"pattern,omitempty"`
	Base    int       `json:"base,omitempty"`
	Ops     []viewOp  `json:"view_ops,omitempty"`
	Recv    string    `json:"receiver,omitempty"`
	// malformed input
	Input     []byte `json:"input,omitempty"`
	InputText string `json:"input_text,omitempty"`
	Mut       string `json:"mutation,omitempty"`
	Reader    string `json:"reader,omitempty"`
	Idx       []int  `json:"index_list,omitempty"` // sparse-index-lists: the index and value lists rendered into Input
	Vals      []int  `json:"value_list,omitempty"`
	// distributions
	Dist string `json:"distribution,omitempty"`
	ST   string `json:"scalar_type,omitempty"`
	Rank int64  `json:"rank"`
}

type viewOp struct {
	T  bool `json:"T,omitempty"`
	R0 int  `json:"r0"`
	R1 int  `json:"r1"`
	C0 int  `json:"c0"`
	C1 int  `json:"c1"`
}

// X is the per-block execution context inside the child process.
type X struct {
	c       *vf.Ctx
	tier    string
	scratch string
	seen    *seenSet // distinct non-trivial case signatures (per block, per shard)
	fileSeq int
}

func (x *X) thorough() bool { return x.tier == "thorough" }

func (x *X) nontrivial(sig string) {
	if x.seen.add([]byte(sig)) {
		x.c.Nontrivial(1)
	}
}

func (x *X) violate(key, what string, cs *Case) {
	x.c.Violate(key, what, cs.Rank, cs)
	x.c.Outcome("VIOLATION:" + key)
}

func (x *X) tmpFile(ext string) string {
	x.fileSeq++
	return filepath.Join(x.scratch, fmt.Sprintf("f%d%s", x.fileSeq%4, ext))
}

// block: one part of the enumeration.
type block struct {
	name  string
	enum  func(tier string, emit func(mk func() *Case))
	run   func(x *X, cs *Case)
	class func(cs *Case) string // isolation class (a fatal crash skips the rest of the class)
}

var blocks []*block

func blockByName(n string) *block {
	for _, b := range blocks {
		if b.name == n {
			return b
		}
	}
	return nil
}

/* child side
 * -------------------------------------------------------------------------- */

type childSpec struct {
	Tier     string   `json:"tier"`
	Shard    int      `json:"shard"`
	NShard   int      `json:"nshard"`
	Start    int      `json:"start"`
	Skip     []string `json:"skip"`
	Scratch  string   `json:"scratch"`
	Progress string   `json:"progress"`
	Only     string   `json:"only,omitempty"` // restrict to blocks with this name prefix (development)
}

type childLine struct {
	Block  int        `json:"block"`
	Done   bool       `json:"done,omitempty"`
	Result *vf.Result `json:"result,omitempty"`
}

var progressMem []byte
var progressBeat int64

func setProgress(block int, idx int64, phase uint32) {
	atomic.AddInt64(&progressBeat, 1)
	if progressMem != nil {
		binary.LittleEndian.PutUint32(progressMem[0:], uint32(block))
		binary.LittleEndian.PutUint64(progressMem[8:], uint64(idx))
		binary.LittleEndian.PutUint32(progressMem[4:], phase)
	}
}

const hangLimit = 180 * time.Second

func childMain(mode string) {
	debug.SetMaxStack(96 << 20) // unbounded recursion dies quickly instead of eating 1 GB
	switch mode {
	case "single":
		var cs Case
		if err := json.NewDecoder(os.Stdin).Decode(&cs); err != nil {
			fmt.Fprintln(os.Stderr, "C18-CHILD: bad case:", err)
			os.Exit(4)
		}
		b := blockByName(cs.Block)
		if b == nil {
			fmt.Fprintln(os.Stderr, "C18-CHILD: unknown block", cs.Block)
			os.Exit(4)
		}
		scratch, err := os.MkdirTemp(scratchRoot(), "c18-replay-")
		if err != nil {
			fmt.Fprintln(os.Stderr, "C18-CHILD:", err)
			os.Exit(4)
		}
		defer os.RemoveAll(scratch)
		ctx := vf.NewWorkerCtx("quick", 0, 1)
		x := &X{c: ctx, tier: "quick", scratch: scratch, seen: newSeen()}
		go func() { // hang watchdog for the single case
			time.Sleep(hangLimit)
			os.RemoveAll(scratch)
			fmt.Fprintln(os.Stderr, "C18-CHILD-HANG")
			os.Exit(3)
		}()
		runCaseGuarded(x, b, &cs)
		os.RemoveAll(scratch)
		json.NewEncoder(os.Stdout).Encode(childLine{Done: true, Result: ctx.Finish()})
		return
	}
	var sp childSpec
	if err := json.Unmarshal([]byte(os.Getenv("C18_SPEC")), &sp); err != nil {
		fmt.Fprintln(os.Stderr, "C18-CHILD: bad spec:", err)
		os.Exit(4)
	}
	if f, err := os.OpenFile(sp.Progress, os.O_RDWR|os.O_CREATE, 0o644); err == nil {
		f.Truncate(64)
		if m, err := syscall.Mmap(int(f.Fd()), 0, 64, syscall.PROT_READ|syscall.PROT_WRITE, syscall.MAP_SHARED); err == nil {
			progressMem = m
		}
		f.Close()
	}
	if progressMem == nil {
		fmt.Fprintln(os.Stderr, "C18-CHILD: cannot map progress file")
		os.Exit(4)
	}
	skip := map[string]bool{}
	for _, s := range sp.Skip {
		skip[s] = true
	}
	out := bufio.NewWriter(os.Stdout)
	enc := json.NewEncoder(out)
	// hang watchdog: a case that makes no progress for hangLimit ends the child with
	// phase=2 in the progress file; the parent reports the case as HANG.
	go func() {
		last, lastChange := int64(-1), time.Now()
		for {
			time.Sleep(2 * time.Second)
			b := atomic.LoadInt64(&progressBeat)
			if b != last {
				last, lastChange = b, time.Now()
				continue
			}
			if time.Since(lastChange) > hangLimit {
				binary.LittleEndian.PutUint32(progressMem[4:], 2)
				os.Exit(3)
			}
		}
	}()
	for bi := sp.Start; bi < len(blocks); bi++ {
		b := blocks[bi]
		if sp.Only != "" && !strings.HasPrefix(b.name, sp.Only) {
			continue
		}
		ctx := vf.NewWorkerCtx(sp.Tier, sp.Shard, sp.NShard)
		x := &X{c: ctx, tier: sp.Tier, scratch: sp.Scratch, seen: newSeen()}
		var idx int64
		b.enum(sp.Tier, func(mk func() *Case) {
			i := idx
			idx++
			if int(i%int64(sp.NShard)) != sp.Shard {
				return
			}
			cs := mk()
			if cs == nil {
				return
			}
			cs.Block = b.name
			if cl := b.class(cs); skip[cl] {
				ctx.Count("cases_skipped_after_fatal_crash_of_their_class", 1)
				ctx.Cap("after a fatal crash of the process the remaining cases of the crashing (codec, type) class were skipped")
				return
			}
			setProgress(bi, i, 1)
			runCaseGuarded(x, b, cs)
		})
		setProgress(bi, idx, 0)
		if sp.Shard == 0 {
			ctx.Count("cases_enumerated|"+b.name, idx)
		}
		enc.Encode(childLine{Block: bi, Result: ctx.Finish()})
		out.Flush()
	}
	enc.Encode(childLine{Done: true})
	out.Flush()
}

var digitsRe = regexp.MustCompile(`-?[0-9]+`)
var hexRe = regexp.MustCompile(`0x[0-9a-f]+`)

// panicClass normalises a panic value into a structural label.
func panicClass(r any) string {
	s := fmt.Sprint(r)
	if i := strings.IndexByte(s, '\n'); i >= 0 {
		s = s[:i]
	}
	s = hexRe.ReplaceAllString(s, "X")
	s = digitsRe.ReplaceAllString(s, "N")
	if len(s) > 90 {
		s = s[:90]
	}
	return s
}

// runCaseGuarded runs one case; a panic that escapes the block's own classification is a
// harness error (the blocks recover library panics themselves).
func runCaseGuarded(x *X, b *block, cs *Case) {
	defer func() {
		if r := recover(); r != nil {
			x.c.HarnessError(fmt.Sprintf("unclassified panic in block %s case %+v: %v\n%s", b.name, compactCase(cs), r, debug.Stack()))
		}
	}()
	x.c.Eval(1)
	b.run(x, cs)
}

func compactCase(cs *Case) string {
	b, _ := json.Marshal(cs)
	if len(b) > 600 {
		b = b[:600]
	}
	return string(b)
}

/* parent side
 * -------------------------------------------------------------------------- */

func scratchRoot() string {
	if d := os.Getenv("VERIF_SCRATCH"); d != "" {
		if st, err := os.Stat(d); err == nil && st.IsDir() {
			return d
		}
	}
	return "/var/tmp"
}

func mergeResult(c *vf.Ctx, r *vf.Result) {
	if r == nil {
		return
	}
	c.Eval(r.Evaluations)
	c.Nontrivial(r.Nontrivial)
	for k, v := range r.Counters {
		c.Count(k, v)
	}
	keys := make([]string, 0, len(r.Outcomes))
	for k := range r.Outcomes {
		keys = append(keys, k)
	}
	sort.Strings(keys)
	for _, k := range keys {
		c.Outcome(k)
		c.Count("outcome|"+k, r.Outcomes[k])
	}
	for _, s := range r.Samples {
		c.Sample(s)
	}
	for _, v := range r.Violations {
		c.Violate(v.Key, v.What, v.Rank, v.Case)
	}
	for _, s := range r.Capped {
		c.Cap(s)
	}
	for _, s := range r.HarnessErr {
		c.HarnessError(s)
	}
	for _, s := range r.Notes {
		c.Note(s)
	}
}

func crashKind(stderr string) (kind, line string) {
	for _, l := range strings.Split(stderr, "\n") {
		switch {
		case strings.Contains(l, "goroutine stack exceeds") || strings.Contains(l, "fatal error: stack overflow"):
			return "stack-overflow(unbounded recursion)", strings.TrimSpace(l)
		case strings.HasPrefix(l, "fatal error:"):
			return "fatal:" + panicClass(strings.TrimPrefix(l, "fatal error:")), strings.TrimSpace(l)
		case strings.HasPrefix(l, "panic:"):
			return "unrecovered-panic:" + panicClass(strings.TrimPrefix(l, "panic:")), strings.TrimSpace(l)
		}
	}
	return "", ""
}

func findCase(tier string, bi int, want int64) *Case {
	var found *Case
	var idx int64
	b := blocks[bi]
	b.enum(tier, func(mk func() *Case) {
		if idx == want {
			found = mk()
			if found != nil {
				found.Block = b.name
			}
		}
		idx++
	})
	return found
}

func parentRun(c *vf.Ctx) {
	scratch, err := os.MkdirTemp(scratchRoot(), fmt.Sprintf("c18-w%d-", c.Shard))
	if err != nil {
		c.HarnessError("cannot create scratch dir: " + err.Error())
		return
	}
	defer os.RemoveAll(scratch)
	self, _ := os.Executable()
	prog := filepath.Join(scratch, "progress")
	skip := []string{}
	start, crashes := 0, 0
	for start < len(blocks) {
		os.Remove(prog)
		sp := childSpec{Tier: c.Tier, Shard: c.Shard, NShard: c.NShard, Start: start, Skip: skip, Scratch: scratch, Progress: prog, Only: os.Getenv("C18_ONLY")}
		spj, _ := json.Marshal(sp)
		cmd := exec.Command(self)
		cmd.Env = append(os.Environ(), "C18_CHILD=run", "C18_SPEC="+string(spj))
		var eb bytes.Buffer
		cmd.Stderr = &eb
		so, err := cmd.StdoutPipe()
		if err != nil {
			c.HarnessError(err.Error())
			return
		}
		if err := cmd.Start(); err != nil {
			c.HarnessError(err.Error())
			return
		}
		done := false
		sc := bufio.NewScanner(so)
		sc.Buffer(make([]byte, 1<<20), 1<<28)
		for sc.Scan() {
			var l childLine
			if json.Unmarshal(sc.Bytes(), &l) != nil {
				continue
			}
			if l.Done {
				done = true
				continue
			}
			mergeResult(c, l.Result)
			start = l.Block + 1
			c.Guard("", 0, nil) // heartbeat
		}
		werr := cmd.Wait()
		if done && werr == nil {
			return
		}
		// the child died: which case was running?
		stderr := eb.String()
		pb, _ := os.ReadFile(prog)
		if len(pb) < 16 {
			c.HarnessError(fmt.Sprintf("child died without progress record (%v): %s", werr, tail(stderr, 1500)))
			return
		}
		bi := int(binary.LittleEndian.Uint32(pb[0:]))
		phase := binary.LittleEndian.Uint32(pb[4:])
		idx := int64(binary.LittleEndian.Uint64(pb[8:]))
		if bi >= len(blocks) || phase == 0 {
			c.HarnessError(fmt.Sprintf("child died outside a case (%v): %s", werr, tail(stderr, 1500)))
			return
		}
		cs := findCase(c.Tier, bi, idx)
		if cs == nil {
			c.HarnessError(fmt.Sprintf("cannot re-enumerate crashed case %d/%d", bi, idx))
			return
		}
		cl := blocks[bi].class(cs)
		if phase == 2 {
			c.Violate("HANG|"+cl, fmt.Sprintf("no return within %v (cases of this kind take microseconds)", hangLimit), cs.Rank, cs)
		} else {
			kind, line := crashKind(stderr)
			if kind == "" {
				c.HarnessError(fmt.Sprintf("child died (%v) in case %s without a Go runtime error: %s", werr, compactCase(cs), tail(stderr, 1500)))
				return
			}
			c.Violate(cl+" → fatal-crash:"+kind, "process dies (not recoverable by the caller): "+line, cs.Rank, cs)
		}
		c.Outcome("fatal:" + cl)
		skip = append(skip, cl)
		start = bi
		crashes++
		if crashes > 80 {
			c.HarnessError("more than 80 fatal crashes of the child; giving up")
			return
		}
	}
}

func tail(s string, n int) string {
	if len(s) > n {
		return s[len(s)-n:]
	}
	return s
}

// replayCase re-runs exactly one case in an isolated child.
func replayCase(c *vf.Ctx, raw json.RawMessage) {
	var cs Case
	if err := json.Unmarshal(raw, &cs); err != nil {
		c.HarnessError(err.Error())
		return
	}
	b := blockByName(cs.Block)
	if b == nil {
		c.HarnessError("unknown block " + cs.Block)
		return
	}
	self, _ := os.Executable()
	cmd := exec.Command(self)
	cmd.Env = append(os.Environ(), "C18_CHILD=single")
	cmd.Stdin = bytes.NewReader(raw)
	var ob, eb bytes.Buffer
	cmd.Stdout, cmd.Stderr = &ob, &eb
	err := cmd.Run()
	var l childLine
	lines := bytes.Split(bytes.TrimSpace(ob.Bytes()), []byte("\n"))
	if err == nil && len(lines) > 0 && json.Unmarshal(lines[len(lines)-1], &l) == nil && l.Done {
		mergeResult(c, l.Result)
		return
	}
	cl := b.class(&cs)
	if strings.Contains(eb.String(), "C18-CHILD-HANG") {
		c.Violate("HANG|"+cl, "no return", cs.Rank, &cs)
		return
	}
	if kind, line := crashKind(eb.String()); kind != "" {
		c.Violate(cl+" → fatal-crash:"+kind, "process dies: "+line, cs.Rank, &cs)
		return
	}
	c.HarnessError(fmt.Sprintf("replay child failed (%v): %s", err, tail(eb.String(), 1500)))
}

func setup() {
	initTypes()
	initContainers()
	regScalarBlocks()
	regVectorRT()
	regMatrixRT()
	regVectorView()
	regMatrixView()
	regMalformedJSON()
	regMalformedTable()
	regSparseIndexLists()
	regDist()
	regTextVariants()
}

func main() {
	setup()
	if m := os.Getenv("C18_CHILD"); m != "" {
		os.Unsetenv("C18_CHILD")
		childMain(m)
		return
	}
	vf.Main(vf.Spec{
		ID:    "C18",
		Level: "exploration",
		Rule: "bounded-exhaustive over (codec ∈ {JSON, table file, gzip table file, distribution config}) × (every scalar/vector/matrix type, every distribution family incl. nested) × " +
			"(value lattice per element type, Real derivative patterns order 0..2 × N 0..2, container dims 0..3 with every zero pattern, every Slice/T view of a 3×3 base up to the tier's op depth) for round trips; " +
			"for malformed input: per reader one valid encoding (writer's own output and its compact form), EVERY truncation, single-byte deletion and single-byte substitution over the JSON/table alphabet, every string of ≤3 symbols over a reduced alphabet, " +
			"every single-node structural mutation of the JSON tree, and every token-level variant (ragged/non-numeric/negative/out-of-range/duplicate index/wrong header) of 2×2 table files; " +
			"for every sparse reader (JSON and table file, 4-vectors and 2×2 matrices, all 9 element types) EVERY index list of length ≤4 over {-1,0,1,2,n-1,n} in every order (duplicates at every distance, out-of-range values at every position) with values from {0,1,2} (quick: length 4 for Float64/Real64/Int with values {0, 1|2}), which must be rejected iff an index is out of range or repeated and otherwise decode to exactly the described object. " +
			"Round trips are decoded into receivers in every previous state from {fresh zero value, used 2x2/2-vector, smaller (1x1/1), larger (4x4/5), same shape with junk, a transposed off-origin 2x2 view of a 3x3 matrix / Slice(1,3) of a 4-vector} (quick: the states beyond fresh/used for the value 1 and objects of ≤4 elements; gzip files: fresh only). " +
			"Equality of the restored object is judged by reading it AND by using it: after a round trip whose read comparison succeeded, a fixed battery of steps of the public API (matrices ~95, thorough ~105; vectors ~77/89; scalars 50, constant scalars 29) is applied to the restored object and, step by step, to a directly built (never serialised) object with the same content - the restored object as operand (M/V add, sub, mul, div with matrices, vectors, scalars; MdotM, MdotV, VdotM, Outer; generic methods and, by reflection, their concrete-typed upper-case twins; receivers of the own and of the other storage family), as source (Set, Clone, T, Slice, Row, Col, Diag, AsVector/AsMatrix, plain/From/joint iterators, Equals, Table, norms, a second round trip through the same codec) and as RECEIVER (the same operations, in place, through T()/Slice()/clone, Swap/Permute*/Tip/SetIdentity/Reset/Append*/Sort, and as receiver of a further UnmarshalJSON followed by MdotM) - every step must end the same way (returns / panics with the same class) and show the same dims, values and non-zero derivatives (integers exactly; floats bitwise or within 1e-12 (float32: 1e-5) relative, because the sparse containers sum in map order; a step on which two directly built objects disagree is ignored). " +
			"The battery runs after every scalar round trip, after container round trips of the lattice value 1 (quick; objects of >4 elements: full/single-entry/diagonal/zero patterns) resp. of every value for ≤4 elements and every zero pattern of the value 1 beyond (thorough), after view round trips of depth 1 (thorough: ≤2); restored distributions are cloned (compared with the clone of the original) and sent through a second round trip. " +
			"Text variants: for every reader the writer's output of (every lattice value × vectors of dim ≤3 / matrices up to 2x2 (thorough 3x3) with the quick/thorough zero patterns listed in variants.go; scalars with Real specs of N≤1; every distribution) is transformed into every byte-level variant from {final newline absent, exactly one final newline [strict: must be accepted]; CRLF line ends, trailing/leading blank or tab on every line, tabs or double blanks as separators, blank lines at the beginning/between/at the end, white-space-only last line, each also with the last line unterminated [lenient: an error is accepted]} × {plain, gzip (quick: gzip for the strict variants and CRLF-unterminated)} for table files and {compact, tab-indented, CRLF, surrounding white space, final newline, members sorted / reverse-sorted} [all strict] for JSON and configurations; whatever a reader accepts must be observably equal to the object that was written. " +
			"A round-trip case is non-trivial/distinct by (reader, codec, type, object description, receiver state) when the encoder produced bytes and the decoder was run on them; a malformed case is non-trivial/distinct by (reader, input bytes) when the bytes differ from every valid encoding used and the reader was run on them; a text variant by (reader, codec, bytes) when the bytes differ from the writer's output and the reader was run on them (evaluations count every decoder run, including the writer's own bytes as control).",
		Assume: []string{
			"only finite element values are serialised (NaN/Inf are outside the property)",
			"a Real scalar's JSON is meant to carry Value, the full gradient if any entry is non-zero and the full Hessian if any entry is non-zero (read off MarshalJSON); sparse Real containers and table files carry values only",
			"the dense table format has no header: matrices with a zero dimension are required to come back empty, not with their exact dims",
			"distribution parameters that the config format stores on another scale (exp/log) are compared with relative tolerance 1e-12, the constrained HMM (re-normalised by an iterative solver on import) with 1e-8; all others bitwise; densities with 1e-9",
			"scalar decoders are given a constructed receiver (NullScalar(t)) or a used one; containers the receiver states listed in the rule",
			"the use battery compares the restored object with the original reduced to what the format carries: order and N of all-zero derivative blocks of a Real scalar are not part of its JSON (previous assumption), so the reference scalar is built with the carried blocks only",
			"well-formed table text: a last line without newline (and exactly one final newline) must be accepted; for the other white-space variants (CRLF, trailing/leading blanks, tabs, blank lines) and for a zero-byte file in place of an empty dense object the format is not explicit - the reader may answer with an error, never with a different object or a panic",
			"what Clone does to a distribution (the clone of a constrained/hierarchical HMM is a plain HMM) is not the codec's matter: the clone of the restored object is compared with the clone of the original",
			"view construction (Slice/T) and element reads of views are C10's subject: a view that cannot be built or read through ConstAt is not used here",
		},
		Run:    parentRun,
		Replay: replayCase,
	})
}
