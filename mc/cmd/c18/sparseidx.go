package main

import (
	"fmt"
	"strconv"
	"strings"

	ad "github.com/pbenner/autodiff"
)

/* sparse readers under every short index list
 * --------------------------------------------------------------------------
 * Bounded-exhaustive family for the readers of the sparse formats (JSON and table
 * files, vectors of length 4 and 2x2 matrices): EVERY index list of length <= 4 over
 * {-1, 0, 1, 2, n-1, n} in every order - hence duplicates at every distance and
 * out-of-range values at every position - with values from {0, 1, 2}.
 *
 * Oracle: an index list is well formed iff every index lies in [0,n) and none occurs
 * twice. The reader must answer a malformed list with an error (no panic, no silent
 * acceptance of contradictory entries) and must accept a well-formed one, in any order,
 * yielding exactly the described object (and one whose complete read is coherent).
 */

const sparseIdxN = 4 // vector length; matrices are 2x2 (4 linear positions)

var sparseIdxAlphabet = []int{-1, 0, 1, 2, sparseIdxN - 1, sparseIdxN}

// defect flags of an index list
func idxListClass(idx []int) string {
	neg, big, adj, sep := false, false, false, false
	for i, k := range idx {
		if k < 0 {
			neg = true
		}
		if k >= sparseIdxN {
			big = true
		}
		for j := 0; j < i; j++ {
			if idx[j] == k {
				if j == i-1 {
					adj = true
				} else {
					sep = true
				}
			}
		}
	}
	var p []string
	if neg {
		p = append(p, "negative-index")
	}
	if big {
		p = append(p, "index>=n")
	}
	if adj {
		p = append(p, "adjacent-duplicate")
	}
	if sep {
		p = append(p, "separated-duplicate")
	}
	if len(p) == 0 {
		sorted := true
		for i := 1; i < len(idx); i++ {
			sorted = sorted && idx[i-1] < idx[i]
		}
		if sorted {
			return "valid-sorted"
		}
		return "valid-unsorted"
	}
	return strings.Join(p, "+")
}

func joinInts(xs []int, sep string) string {
	s := make([]string, len(xs))
	for i, x := range xs {
		s[i] = strconv.Itoa(x)
	}
	return strings.Join(s, sep)
}

// sparseIdxInput renders the index/value lists in the reader's format. Matrix table
// files address entries by (row, col): linear position k is (k/2, k%2), -1 is row -1 and
// n is row 2 of the 2x2 matrix.
func sparseIdxInput(ct *contT, codec string, idx, vals []int) []byte {
	var b strings.Builder
	switch {
	case codec == "json" && ct.Matrix:
		fmt.Fprintf(&b, `{"Index":[%s],"Value":[%s],"Rows":2,"Cols":2}`, joinInts(idx, ","), joinInts(vals, ","))
	case codec == "json":
		fmt.Fprintf(&b, `{"Index":[%s],"Value":[%s],"Length":%d}`, joinInts(idx, ","), joinInts(vals, ","), sparseIdxN)
	case ct.Matrix:
		b.WriteString("2 2\n")
		for i, k := range idx {
			r, c := k/2, k%2
			if k < 0 {
				r, c = -1, 0
			}
			fmt.Fprintf(&b, "%d %d %d\n", r, c, vals[i])
		}
	default:
		fmt.Fprintf(&b, "%d\n", sparseIdxN)
		for i, k := range idx {
			fmt.Fprintf(&b, "%d %d\n", k, vals[i])
		}
	}
	return []byte(b.String())
}

func runSparseIdx(x *X, cs *Case) {
	ct := contByName[cs.Reader]
	if ct == nil || len(cs.Idx) != len(cs.Vals) {
		x.c.HarnessError("bad sparse index case " + compactCase(cs))
		return
	}
	x.nontrivial(cs.Reader + "|" + cs.Codec + "|" + string(cs.Input))
	cls := idxListClass(cs.Idx)
	wellFormed := strings.HasPrefix(cls, "valid")
	key := func(what string) string {
		return cs.Codec + "|" + ct.fam() + "|sparse index list|" + cls + "|" + what
	}
	desc := fmt.Sprintf("%s reader given index list %v with values %v (%s): ", cs.Reader, cs.Idx, cs.Vals, show(cs.Input))
	recv := newReceiver(ct, likeOf(ct), recvKind(cs.Recv == "used"), nil)
	err, pc := decodeInto(x, recv, cs.Codec, cs.Input, "method")
	switch {
	case pc != "":
		x.violate(key("decode → panic:"+pc), desc+"the reader panics: "+pc, cs)
		return
	case err != nil && wellFormed:
		x.violate(key("rejected"), desc+"a well-formed list is rejected: "+err.Error(), cs)
		return
	case err != nil:
		x.c.Outcome("sparse-index:" + cs.Codec + ":" + cls + ":error")
		return
	case !wellFormed:
		x.violate(key("accepted"), desc+"malformed input is accepted without an error", cs)
		return
	}
	// accepted, well formed: the object must be the described one
	want := make([]float64, sparseIdxN)
	for i, k := range cs.Idx {
		want[k] = float64(cs.Vals[i])
	}
	obj := derefReceiver(recv)
	var p, diff string
	if ct.Matrix {
		m := obj.(ad.ConstMatrix)
		if _, p = fullReadMatrix(m, ct.St.Kind, readFull); p == "" {
			p = guard("read", func() {
				if r, c := m.Dims(); r != 2 || c != 2 {
					diff = fmt.Sprintf("Dims()=%dx%d, expected 2x2", r, c)
					return
				}
				for k, w := range want {
					if g := m.Float64At(k/2, k%2); g != w && diff == "" {
						diff = fmt.Sprintf("element (%d,%d) is %v, expected %v", k/2, k%2, g, w)
					}
				}
			})
		}
	} else {
		v := obj.(ad.ConstVector)
		if _, p = fullReadVector(v, ct.St.Kind, readFull); p == "" {
			p = guard("read", func() {
				if v.Dim() != sparseIdxN {
					diff = fmt.Sprintf("Dim()=%d, expected %d", v.Dim(), sparseIdxN)
					return
				}
				for k, w := range want {
					if g := v.Float64At(k); g != w && diff == "" {
						diff = fmt.Sprintf("element %d is %v, expected %v", k, g, w)
					}
				}
			})
		}
	}
	switch {
	case p != "":
		x.violate(key(problemClass(p)), desc+"accepted, but the object is not readable: "+p, cs)
	case diff != "":
		x.violate(key("wrong object"), desc+"accepted, but "+diff, cs)
	default:
		x.c.Outcome("sparse-index:" + cs.Codec + ":" + cls + ":decoded as described")
	}
}

// enumLists calls f with every list of length n over alphabet (f must copy).
func enumLists(alphabet []int, n int, f func([]int)) {
	cur := make([]int, n)
	var rec func(p int)
	rec = func(p int) {
		if p == n {
			f(cur)
			return
		}
		for _, a := range alphabet {
			cur[p] = a
			rec(p + 1)
		}
	}
	rec(0)
}

func regSparseIndexLists() {
	blocks = append(blocks, &block{
		name:  "sparse-index-lists",
		class: func(cs *Case) string { return cs.Codec + "|" + famOfReader(cs.Reader) + "|sparse index list" },
		enum: func(tier string, emit func(mk func() *Case)) {
			thorough := tier == "thorough"
			for _, ct := range tableReaders() {
				if !ct.Sparse {
					continue
				}
				ct := ct
				// quick: lists of length 4 for three element types, values {0, 1|2}
				main := ct.St.Name == "Float64" || ct.St.Name == "Real64" || ct.St.Name == "Int"
				for _, codec := range []string{"json", "table"} {
					codec := codec
					for n := 0; n <= 4; n++ {
						if n == 4 && !thorough && !main {
							continue
						}
						n := n
						var valLists [][]int
						if n < 4 || thorough {
							enumLists([]int{0, 1, 2}, n, func(v []int) { valLists = append(valLists, append([]int{}, v...)) })
						} else {
							for bits := 0; bits < 1<<n; bits++ {
								v := make([]int, n)
								for p := range v {
									if bits>>p&1 == 1 {
										v[p] = 1 + p%2
									}
								}
								valLists = append(valLists, v)
							}
						}
						enumLists(sparseIdxAlphabet, n, func(idx []int) {
							idx = append([]int{}, idx...)
							for _, vals := range valLists {
								vals := vals
								emit(func() *Case {
									nz := 0
									for _, v := range vals {
										nz += v
									}
									cs := &Case{Reader: ct.Name, Type: ct.Name, Codec: codec, Recv: "fresh", Idx: idx, Vals: vals,
										Mut: "index-list(" + idxListClass(idx) + ")", Rank: int64(n)*1000000 + int64(nz)*1000 + int64(len(ct.Name))}
									cs.Input = sparseIdxInput(ct, codec, idx, vals)
									cs.InputText = string(cs.Input)
									return cs
								})
							}
						})
					}
				}
			}
		},
		run: runSparseIdx,
	})
}
