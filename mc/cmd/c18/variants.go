package main

import (
	"bytes"
	"encoding/json"
	"fmt"
	"os"
	"sort"
	"strings"

	ad "github.com/pbenner/autodiff"
	st "github.com/pbenner/autodiff/statistics"
)

/* text variants: the readers must accept every well-formed serialisation
 * --------------------------------------------------------------------------
 * The round-trip blocks give the readers the writers' own bytes only. Here, for every
 * text format, the writer's output for an object is transformed into byte-level variants
 * that denote the same value, and every variant is given to the reader:
 *
 *   table files (plain and gzip-wrapped)
 *     strict   final newline absent (the last line is not terminated); exactly one final
 *              newline  -  a text file whose last line lacks the newline, or has one, is
 *              well formed beyond doubt (Table() itself returns such text)
 *     lenient  CRLF line ends (also with the last line unterminated); a trailing / leading
 *              blank or tab on every line; tabs or double blanks as separators; blank lines
 *              at the beginning, between the lines, at the end; a last line of white space
 *              only. The format is "white-space separated"; it does not say which white
 *              space, so the reader may answer with an error - but never with an object
 *              that differs from the one written, and never with a panic.
 *   JSON (scalars, vectors, matrices, distribution configurations): compact form, tab
 *     indentation, CRLF line ends, surrounding white space, a final newline, object members
 *     in sorted and in reverse-sorted order  -  all strict (RFC 8259: insignificant white
 *     space, unordered members).
 *
 * Oracle: strict variants must be accepted; whatever is accepted must be observably equal
 * to the original object (the same comparison as for the round trips).
 */

type textVariant struct {
	name   string
	group  string
	strict bool
	data   []byte
}

func splitBody(w string) (body string, lines []string) {
	body = strings.TrimRight(w, "\n")
	if body == "" {
		return "", nil
	}
	return body, strings.Split(body, "\n")
}

func mapLines(lines []string, f func(string) string) []string {
	out := make([]string, len(lines))
	for i, l := range lines {
		out[i] = f(l)
	}
	return out
}

// tableVariants: byte-level variants of a table file that denote the same value.
func tableVariants(w []byte, gzAll bool) []textVariant {
	body, lines := splitBody(string(w))
	vs := []textVariant{{"writer's output", "writer's output", true, w}}
	add := func(name, group string, strict bool, s string) {
		vs = append(vs, textVariant{name, group, strict, []byte(s)})
	}
	nl := func(l []string) string { return strings.Join(l, "\n") }
	// an object without any line (empty dense vector / matrix) becomes a zero-byte file:
	// not "a last line without newline" - lenient
	add("final newline absent", "final line unterminated", body != "", body)
	add("exactly one final newline", "single final newline", true, body+"\n")
	if lines != nil {
		add("CRLF line ends", "CRLF line ends", false, strings.Join(lines, "\r\n")+"\r\n")
		add("CRLF line ends, final line unterminated", "CRLF line ends", false, strings.Join(lines, "\r\n"))
		tb := mapLines(lines, func(l string) string { return l + " " })
		add("trailing blank on every line", "blanks at line ends", false, nl(tb)+"\n")
		add("trailing blank on every line, final line unterminated", "blanks at line ends", false, nl(tb))
		add("trailing tab on every line", "blanks at line ends", false, nl(mapLines(lines, func(l string) string { return l + "\t" }))+"\n")
		add("leading blank on every line", "blanks at line starts", false, nl(mapLines(lines, func(l string) string { return " " + l }))+"\n")
		add("leading tab on every line, final line unterminated", "blanks at line starts", false, nl(mapLines(lines, func(l string) string { return "\t" + l })))
		if strings.Contains(body, " ") {
			add("tabs as separators", "separator white space", false, nl(mapLines(lines, func(l string) string { return strings.ReplaceAll(l, " ", "\t") }))+"\n")
			add("double blanks as separators, final line unterminated", "separator white space", false, nl(mapLines(lines, func(l string) string { return strings.ReplaceAll(l, " ", "  ") })))
		}
		add("blank line at the beginning", "blank lines", false, "\n"+body+"\n")
		if len(lines) > 1 {
			add("blank lines between the lines", "blank lines", false, strings.Join(lines, "\n\n")+"\n")
		}
		add("white-space-only last line", "blank lines", false, body+"\n \n")
		add("white-space-only last line, unterminated", "blank lines", false, body+"\n\t")
	}
	add("extra blank line at the end", "blank lines", false, body+"\n\n")
	n := len(vs)
	for i := 0; i < n; i++ {
		v := vs[i]
		if gzAll || v.name == "final newline absent" || v.name == "exactly one final newline" || v.name == "CRLF line ends, final line unterminated" {
			vs = append(vs, textVariant{v.name + " (gzip)", v.group, v.strict, gz(v.data)})
		}
	}
	return vs
}

// renderJSON re-serialises a decoded document (numbers keep their literal text).
func renderJSON(n any, reverse bool) string {
	switch t := n.(type) {
	case map[string]any:
		ks := make([]string, 0, len(t))
		for k := range t {
			ks = append(ks, k)
		}
		sort.Strings(ks)
		if reverse {
			for i, j := 0, len(ks)-1; i < j; i, j = i+1, j-1 {
				ks[i], ks[j] = ks[j], ks[i]
			}
		}
		p := make([]string, 0, len(ks))
		for _, k := range ks {
			kb, _ := json.Marshal(k)
			p = append(p, string(kb)+":"+renderJSON(t[k], reverse))
		}
		return "{" + strings.Join(p, ",") + "}"
	case []any:
		p := make([]string, len(t))
		for i := range t {
			p[i] = renderJSON(t[i], reverse)
		}
		return "[" + strings.Join(p, ",") + "]"
	case json.Number:
		return t.String()
	}
	b, _ := json.Marshal(n)
	return string(b)
}

func jsonVariants(w []byte) []textVariant {
	vs := []textVariant{{"writer's output", "writer's output", true, w}}
	add := func(name, group string, s string) {
		vs = append(vs, textVariant{name, group, true, []byte(s)})
	}
	add("compact", "insignificant white space", compactJSON(w))
	var ind bytes.Buffer
	if json.Indent(&ind, w, "", "\t") == nil {
		add("tab indentation", "insignificant white space", ind.String())
		add("tab indentation, CRLF line ends", "insignificant white space", strings.ReplaceAll(ind.String(), "\n", "\r\n")+"\r\n")
	}
	add("CRLF line ends", "insignificant white space", strings.ReplaceAll(string(w), "\n", "\r\n"))
	add("surrounding white space", "insignificant white space", "\n \t"+string(w)+" \r\n")
	add("final newline", "insignificant white space", string(w)+"\n")
	var root any
	dec := json.NewDecoder(bytes.NewReader(w))
	dec.UseNumber()
	if dec.Decode(&root) == nil {
		add("members in sorted order", "member order", renderJSON(root, false))
		add("members in reverse-sorted order", "member order", renderJSON(root, true))
	}
	return vs
}

/* the block
 * -------------------------------------------------------------------------- */

func famOnly(name string) string {
	if s, ok := scalarByName[name]; ok {
		if s.Const {
			return "const-scalar"
		}
		if s.Real {
			return "real-scalar"
		}
		return "scalar"
	}
	return contByName[name].Fam
}

func regTextVariants() {
	blocks = append(blocks, &block{
		name: "text-variants",
		class: func(cs *Case) string {
			if cs.Dist != "" {
				return "config|" + distClass(distByName[cs.Dist]) + "|text variant"
			}
			return cs.Codec + "|" + famOfReader(cs.Type) + "|text variant"
		},
		enum: func(tier string, emit func(mk func() *Case)) {
			thorough := tier == "thorough"
			maxd := 2
			if thorough {
				maxd = 3
			}
			for _, ct := range contTypes {
				ct := ct
				lat := latticeOf(ct.St.Kind)
				codecs := []string{"table", "json"}
				if ct.ConstV {
					codecs = []string{"json"}
				}
				for _, codec := range codecs {
					codec := codec
					for vi := range lat {
						vi := vi
						put := func(dims, pat []int) {
							if !thorough && vi > 2 && len(pat) > 0 && pat[len(pat)-1] == 0 {
								// quick: the other lattice values only where the value is the
								// last entry of the text (every line of the formats ends with a
								// value; what follows the last one is what the variants change)
								return
							}
							emit(func() *Case {
								return &Case{Type: ct.Name, Codec: codec, Val: vi, ValName: lat[vi].Name, Dims: dims, Pat: pat, Recv: "fresh", Rank: int64(len(pat)*1000 + vi)}
							})
						}
						fill3 := ct.St.Real && !ct.Sparse && codec == "json"
						if !ct.Matrix {
							for n := 0; n <= 3; n++ {
								for pi := 0; pi < 1<<n; pi++ {
									if n == 3 && !thorough && !(pi == 7 || pi == 1 || pi == 4) {
										continue // quick: 3-vectors full, first-entry-only, last-entry-only
									}
									put([]int{n}, digitsOf(pi, 2, n))
								}
								if fill3 && n > 0 {
									p := make([]int, n)
									for i := range p {
										p[i] = 3
									}
									put([]int{n}, p)
								}
							}
							continue
						}
						for r := 0; r <= maxd; r++ {
							for c := 0; c <= maxd; c++ {
								if !thorough && r*c == 0 && r+c == 1 {
									continue // quick: empty matrices 0x0, 0x2, 2x0
								}
								for pi := 0; pi < 1<<(r*c); pi++ {
									if r*c > 4 && !(pi == 1<<(r*c)-1 || pi == 1 || pi == 1<<(r*c-1)) {
										continue
									}
									if !thorough && r*c == 4 && !(pi == 15 || pi == 1 || pi == 8 || pi == 9 || pi == 6 || pi == 0) {
										continue // quick: 2x2 full, first/last entry only, diagonal, anti-diagonal, zero
									}
									put([]int{r, c}, digitsOf(pi, 2, r*c))
								}
								if fill3 && r*c > 0 {
									p := make([]int, r*c)
									for i := range p {
										p[i] = 3
									}
									put([]int{r, c}, p)
								}
							}
						}
					}
				}
			}
			specs := enumRealSpecs(1, true)
			for _, s := range scalarTypes {
				s := s
				lat := latticeOf(s.Kind)
				for vi := range lat {
					vi := vi
					sp := []realSpec{{}}
					if s.Real {
						sp = specs
					}
					for si := range sp {
						si := si
						emit(func() *Case {
							cs := &Case{Type: s.Name, Codec: "json", Val: vi, ValName: lat[vi].Name, Recv: "fresh", Rank: int64(vi)}
							if s.Real {
								r := sp[si]
								cs.Real = &r
							}
							return cs
						})
					}
				}
			}
			for _, d := range distTypes {
				d := d
				emit(func() *Case { return &Case{Dist: d.Name, ST: "Float64", Codec: "config", Rank: int64(len(d.Name))} })
			}
		},
		run: runTextVariants,
	})
}

func runTextVariants(x *X, cs *Case) {
	switch {
	case cs.Dist != "":
		runConfigVariants(x, cs)
	case scalarByName[cs.Type] != nil:
		runScalarVariants(x, cs)
	default:
		runContainerVariants(x, cs)
	}
}

// verdictVariant turns the outcome of one variant into outcome / violation.
func verdictVariant(x *X, cs *Case, kpre, what string, v textVariant, w []byte, err error, pc, cls, detail string) {
	if !bytes.Equal(v.data, w) {
		x.nontrivial(what + "|" + cs.Codec + "|" + string(v.data))
	}
	key := kpre + "text variant: " + v.group + "|"
	desc := fmt.Sprintf("%s given %s [%s; the writer's own output is %s]: ", what, show(v.data), v.name, show(w))
	switch {
	case pc != "":
		x.violate(key+"decode → panic:"+pc, desc+"the reader panics: "+pc, cs)
	case err != nil && v.strict:
		x.violate(key+"rejected", desc+"a well-formed serialisation of the object is rejected: "+err.Error(), cs)
	case err != nil:
		x.c.Outcome("text-variants:" + cs.Codec + ":" + v.group + ":error (format not explicit about this white space)")
	case cls == "SKIP":
		x.c.Outcome("text-variants:skip:" + detail)
	case cls != "":
		x.violate(key+"accepted as a different object ("+cls+")", desc+"accepted without an error, but the object differs from the one that was written: "+detail, cs)
	default:
		x.c.Outcome("text-variants:" + cs.Codec + ":" + v.group + ":equal")
	}
}

// lightObs: dims, every element exactly (value; non-zero derivatives of Real elements) and
// the non-zero positions the iterator visits - compared bitwise. The complete comparison
// of the round-trip block is run only to describe a difference.
func lightObs(ct *contT, obj any) (tr trace) {
	u := &useCtx{k: ct.St.Kind, real: ct.St.Real}
	if ct.Matrix {
		m := obj.(ad.ConstMatrix)
		u.step("read", func(o *obs) { u.matrix(o, m) })
		u.step("iterate", func(o *obs) {
			n := 0
			for it := m.ConstIterator(); it.Ok(); it.Next() {
				if n++; n > 400 {
					panic("iterator does not end")
				}
				if e := it.GetConst(); !isZeroScalar(e, u.k) {
					i, j := it.Index()
					o.I = append(o.I, int64(i), int64(j))
				}
			}
		})
		return u.tr
	}
	v := obj.(ad.ConstVector)
	u.step("read", func(o *obs) { u.vector(o, v) })
	u.step("iterate", func(o *obs) {
		n := 0
		for it := v.ConstIterator(); it.Ok(); it.Next() {
			if n++; n > 400 {
				panic("iterator does not end")
			}
			if e := it.GetConst(); !isZeroScalar(e, u.k) {
				o.I = append(o.I, int64(it.Index()))
			}
		}
	})
	return u.tr
}

func runContainerVariants(x *X, cs *Case) {
	ct := contByName[cs.Type]
	v := latticeOf(ct.St.Kind)[cs.Val]
	var obj any
	if pc := guard("build", func() {
		if ct.Matrix {
			obj = buildMatrix(ct, v, cs.Dims[0], cs.Dims[1], cs.Pat)
		} else {
			obj = buildVector(ct, v, cs.Pat)
		}
	}); pc != "" {
		x.c.Outcome("text-variants:cannot build object")
		return
	}
	w, err, pc := encodeObj(x, obj, cs.Codec)
	if pc != "" || err != nil {
		x.c.Outcome("text-variants:cannot encode (reported by the round-trip block)")
		return
	}
	var vs []textVariant
	if cs.Codec == "json" {
		vs = jsonVariants(w)
	} else {
		vs = tableVariants(w, x.thorough())
	}
	rd := readerOf(ct)
	kpre := cs.Codec + "|" + ct.Fam + "|"
	seen := map[string]bool{}
	n := 0
	// the original's record; usable for the quick comparison if every step succeeded and
	// the format carries everything the record shows (the dims of an empty matrix are
	// not carried by the headerless dense table format: complete comparison there)
	origObs := lightObs(ct, obj)
	origOK := true
	for _, o := range origObs {
		origOK = origOK && o.st == "ok"
	}
	if ct.Matrix && !ct.Sparse && cs.Codec != "json" && cs.Dims[0]*cs.Dims[1] == 0 {
		origOK = false
	}
	for _, tv := range vs {
		if seen[string(tv.data)] {
			continue
		}
		seen[string(tv.data)] = true
		n++
		recv := newReceiver(rd, likeOf(rd), "fresh", nil)
		err, pc := decodeInto(x, recv, cs.Codec, tv.data, "method")
		cls, detail := "", ""
		if pc == "" && err == nil {
			if i, _ := diffTrace(origObs, lightObs(rd, derefReceiver(recv)), 0); i < 0 && origOK {
				verdictVariant(x, cs, kpre, rd.Name+" reader", tv, w, nil, "", "", "")
				continue
			}
			derivs := cs.Codec == "json" && !ct.Sparse && ct.St.Real
			if ct.Matrix {
				cls, detail = compareMatrices(rd.St, obj.(ad.ConstMatrix), derefReceiver(recv).(ad.ConstMatrix), derivs, cs.Codec != "json" && !ct.Sparse, readFull)
			} else {
				cls, detail = compareVectors(rd.St, obj.(ad.ConstVector), derefReceiver(recv).(ad.ConstVector), derivs)
			}
		}
		verdictVariant(x, cs, kpre, rd.Name+" reader", tv, w, err, pc, cls, detail)
	}
	x.c.Eval(int64(n - 1))
	x.c.Count("text_variants_decoded", int64(n))
}

func runScalarVariants(x *X, cs *Case) {
	s := scalarByName[cs.Type]
	v := latticeOf(s.Kind)[cs.Val]
	obj := buildScalar(s, v, cs.Real)
	w, err, pc := safeMarshal(obj)
	if pc != "" || err != nil {
		x.c.Outcome("text-variants:cannot encode (reported by the round-trip block)")
		return
	}
	rs := s
	if s.Const {
		rs = scalarByName[s.Sibling]
	}
	kpre := "json|" + famOnly(s.Name) + "|"
	seen := map[string]bool{}
	n := 0
	for _, tv := range jsonVariants(w) {
		if seen[string(tv.data)] {
			continue
		}
		seen[string(tv.data)] = true
		n++
		r := ad.NullScalar(rs.T)
		err, pc := safeUnmarshal(r.(json.Unmarshaler), tv.data)
		cls, detail := "", ""
		if pc == "" && err == nil {
			cls, detail = compareScalar(rs, obj, r, true)
		}
		verdictVariant(x, cs, kpre, rs.Name+".UnmarshalJSON", tv, w, err, pc, cls, detail)
	}
	x.c.Eval(int64(n - 1))
	x.c.Count("text_variants_decoded", int64(n))
}

// compareDistObs: the comparison of the config round trip (configuration tree,
// parameters, densities at the probe points).
func compareDistObs(d *distT, orig, got distObs) (cls, detail string) {
	tol := 0.0
	if d.Rescaled {
		tol = 1e-12
	}
	if strings.Contains(d.Name, "constrained hmm") {
		tol = 1e-8
	}
	if got.stype != orig.stype {
		return "scalar type", fmt.Sprintf("scalar type %s decoded as %s", orig.stype, got.stype)
	}
	if df := diffTrees(orig.config, got.config, tol, "$"); df != "" {
		return "configuration", "ExportConfig differs at " + df
	}
	if len(orig.params) != len(got.params) {
		return "parameters", fmt.Sprintf("GetParameters has %d entries, decoded %d", len(orig.params), len(got.params))
	}
	for i := range orig.params {
		if !closeEnough(orig.params[i], got.params[i], tol) {
			return "parameters", fmt.Sprintf("GetParameters()[%d]: %v decoded as %v", i, orig.params[i], got.params[i])
		}
	}
	for i, p := range orig.probes {
		if i >= len(got.probes) || p.status != "ok" {
			continue
		}
		q := got.probes[i]
		if q.label != p.label {
			continue
		}
		if q.status != "ok" || !closeEnough(p.value, q.value, 1e-9) {
			return "density", fmt.Sprintf("LogPdf(%s): %v (%s) decoded gives %v (%s)", p.label, p.value, p.status, q.value, q.status)
		}
	}
	return "", ""
}

func runConfigVariants(x *X, cs *Case) {
	d := distByName[cs.Dist]
	t := stByName(cs.ST)
	var obj st.ConfigurableDistribution
	var berr error
	if pc := guard("build", func() { obj, berr = d.Build(t) }); pc != "" || berr != nil || obj == nil {
		x.c.Outcome("text-variants:cannot build distribution")
		return
	}
	orig, prob := observeDist(obj, false)
	if prob != "" {
		x.c.Outcome("text-variants:original distribution not observable")
		return
	}
	fn := x.tmpFile(".json")
	os.Remove(fn)
	var err error
	if pc := guard("ExportDistribution", func() { err = st.ExportDistribution(fn, obj) }); pc != "" || err != nil {
		x.c.Outcome("text-variants:cannot encode (reported by the round-trip block)")
		return
	}
	w, _ := os.ReadFile(fn)
	readers := []string{"ImportDistribution"}
	if d.Registered {
		readers = append(readers, "Import"+strings.ToUpper(d.Kind[:1])+d.Kind[1:]+"Pdf")
	}
	kpre := "config|distribution<" + d.Kind + ">|"
	seen := map[string]bool{}
	n := 0
	for _, tv := range jsonVariants(w) {
		if seen[string(tv.data)] {
			continue
		}
		seen[string(tv.data)] = true
		for _, rd := range readers {
			n++
			fv := x.tmpFile(".json")
			if e := os.WriteFile(fv, tv.data, 0o644); e != nil {
				panic("scratch write failed: " + e.Error())
			}
			dec, err, pc := importVia(rd, fv, d, t)
			pc = strings.TrimPrefix(pc, "panic in Import:")
			cls, detail := "", ""
			if pc == "" && err == nil {
				if dec == nil {
					cls, detail = "nil object", "the reader returns (nil, nil)"
				} else if got, prob := observeDist(dec, false); prob != "" {
					cls, detail = "corrupt object", prob
				} else {
					cls, detail = compareDistObs(d, orig, got)
				}
			}
			verdictVariant(x, cs, kpre, rd+" of "+d.Name, tv, w, err, pc, cls, detail)
		}
	}
	x.c.Eval(int64(n - 1))
	x.c.Count("text_variants_decoded", int64(n))
}
