// C18 codec harness: type registry, value lattices, exact observation of scalars.
package main

import (
	"fmt"
	"math"
	"reflect"

	ad "github.com/pbenner/autodiff"
)

// element kinds
const (
	kInt8 = iota
	kInt16
	kInt32
	kInt64
	kInt
	kFloat32
	kFloat64
)

var kindNames = []string{"int8", "int16", "int32", "int64", "int", "float32", "float64"}

// val is one lattice value; integers are kept as int64, floats as float64
// (float32 lattice values are exactly representable in float32).
type val struct {
	I    int64
	F    float64
	Name string
}

func isIntKind(k int) bool { return k <= kInt }

func intLattice(min, max int64, wide bool) []val {
	l := []val{{I: 0, Name: "0"}, {I: 1, Name: "1"}, {I: -1, Name: "-1"}, {I: max, Name: "max"}, {I: min, Name: "min"}, {I: 100, Name: "100"}}
	if wide {
		l = append(l, val{I: 1<<53 + 1, Name: "2^53+1"}, val{I: -(1<<53 + 1), Name: "-(2^53+1)"})
	}
	return l
}

var f64Lattice = []val{
	{F: 0, Name: "0"}, {F: 1, Name: "1"}, {F: -1, Name: "-1"}, {F: math.Copysign(0, -1), Name: "-0"},
	{F: 1.0 / 3, Name: "1/3"}, {F: 0.1, Name: "0.1"}, {F: 1e-310, Name: "1e-310(subnormal)"}, {F: 5e-324, Name: "5e-324"},
	{F: math.MaxFloat64, Name: "maxfloat"}, {F: 1 << 53, Name: "2^53"}, {F: 9007199254740994, Name: "2^53+2"}, {F: -math.MaxFloat64, Name: "-maxfloat"},
}

var f32Lattice = []val{
	{F: 0, Name: "0"}, {F: 1, Name: "1"}, {F: -1, Name: "-1"}, {F: math.Copysign(0, -1), Name: "-0"},
	{F: float64(float32(1.0 / 3)), Name: "1/3"}, {F: float64(float32(0.1)), Name: "0.1"}, {F: float64(float32(1e-40)), Name: "1e-40(subnormal)"},
	{F: float64(math.SmallestNonzeroFloat32), Name: "1.4e-45"}, {F: float64(math.MaxFloat32), Name: "maxfloat"}, {F: 1 << 24, Name: "2^24"},
	{F: -float64(math.MaxFloat32), Name: "-maxfloat"},
}

func latticeOf(k int) []val {
	switch k {
	case kInt8:
		return intLattice(math.MinInt8, math.MaxInt8, false)
	case kInt16:
		return intLattice(math.MinInt16, math.MaxInt16, false)
	case kInt32:
		return intLattice(math.MinInt32, math.MaxInt32, false)
	case kInt64, kInt:
		return intLattice(math.MinInt64, math.MaxInt64, true)
	case kFloat32:
		return f32Lattice
	}
	return f64Lattice
}

func (v val) zero(k int) bool {
	if isIntKind(k) {
		return v.I == 0
	}
	return v.F == 0
}

// scalarT describes one of the 16 scalar types.
type scalarT struct {
	Name    string
	Kind    int
	Real    bool
	Const   bool
	T       ad.ScalarType // mutable types: registry type; const types: type of the mutable sibling
	Sibling string        // const types: name of the mutable type with the same element kind
	mkConst func(v val) ad.ConstScalar
	newPtr  func() any // const types: pointer to a fresh value for json.Unmarshal
	deref   func(p any) ad.ConstScalar
}

var scalarTypes []*scalarT
var scalarByName = map[string]*scalarT{}

func initTypes() {
	add := func(s *scalarT) { scalarTypes = append(scalarTypes, s); scalarByName[s.Name] = s }
	add(&scalarT{Name: "Int8", Kind: kInt8, T: ad.Int8Type})
	add(&scalarT{Name: "Int16", Kind: kInt16, T: ad.Int16Type})
	add(&scalarT{Name: "Int32", Kind: kInt32, T: ad.Int32Type})
	add(&scalarT{Name: "Int64", Kind: kInt64, T: ad.Int64Type})
	add(&scalarT{Name: "Int", Kind: kInt, T: ad.IntType})
	add(&scalarT{Name: "Float32", Kind: kFloat32, T: ad.Float32Type})
	add(&scalarT{Name: "Float64", Kind: kFloat64, T: ad.Float64Type})
	add(&scalarT{Name: "Real32", Kind: kFloat32, Real: true, T: ad.Real32Type})
	add(&scalarT{Name: "Real64", Kind: kFloat64, Real: true, T: ad.Real64Type})
	add(&scalarT{Name: "ConstInt8", Kind: kInt8, Const: true, T: ad.Int8Type, Sibling: "Int8",
		mkConst: func(v val) ad.ConstScalar { return ad.ConstInt8(v.I) }, newPtr: func() any { return new(ad.ConstInt8) }, deref: func(p any) ad.ConstScalar { return *p.(*ad.ConstInt8) }})
	add(&scalarT{Name: "ConstInt16", Kind: kInt16, Const: true, T: ad.Int16Type, Sibling: "Int16",
		mkConst: func(v val) ad.ConstScalar { return ad.ConstInt16(v.I) }, newPtr: func() any { return new(ad.ConstInt16) }, deref: func(p any) ad.ConstScalar { return *p.(*ad.ConstInt16) }})
	add(&scalarT{Name: "ConstInt32", Kind: kInt32, Const: true, T: ad.Int32Type, Sibling: "Int32",
		mkConst: func(v val) ad.ConstScalar { return ad.ConstInt32(v.I) }, newPtr: func() any { return new(ad.ConstInt32) }, deref: func(p any) ad.ConstScalar { return *p.(*ad.ConstInt32) }})
	add(&scalarT{Name: "ConstInt64", Kind: kInt64, Const: true, T: ad.Int64Type, Sibling: "Int64",
		mkConst: func(v val) ad.ConstScalar { return ad.ConstInt64(v.I) }, newPtr: func() any { return new(ad.ConstInt64) }, deref: func(p any) ad.ConstScalar { return *p.(*ad.ConstInt64) }})
	add(&scalarT{Name: "ConstInt", Kind: kInt, Const: true, T: ad.IntType, Sibling: "Int",
		mkConst: func(v val) ad.ConstScalar { return ad.ConstInt(v.I) }, newPtr: func() any { return new(ad.ConstInt) }, deref: func(p any) ad.ConstScalar { return *p.(*ad.ConstInt) }})
	add(&scalarT{Name: "ConstFloat32", Kind: kFloat32, Const: true, T: ad.Float32Type, Sibling: "Float32",
		mkConst: func(v val) ad.ConstScalar { return ad.ConstFloat32(v.F) }, newPtr: func() any { return new(ad.ConstFloat32) }, deref: func(p any) ad.ConstScalar { return *p.(*ad.ConstFloat32) }})
	add(&scalarT{Name: "ConstFloat64", Kind: kFloat64, Const: true, T: ad.Float64Type, Sibling: "Float64",
		mkConst: func(v val) ad.ConstScalar { return ad.ConstFloat64(v.F) }, newPtr: func() any { return new(ad.ConstFloat64) }, deref: func(p any) ad.ConstScalar { return *p.(*ad.ConstFloat64) }})
}

// mutable scalar types, in registry order
func mutableTypes() []*scalarT {
	r := []*scalarT{}
	for _, s := range scalarTypes {
		if !s.Const {
			r = append(r, s)
		}
	}
	return r
}

// setVal stores a lattice value exactly.
func setVal(s ad.Scalar, k int, v val) {
	if isIntKind(k) {
		s.SetInt64(v.I)
	} else {
		s.SetFloat64(v.F)
	}
}

// bitsOf reads a scalar exactly (by element kind) as a printable token.
func bitsOf(s ad.ConstScalar, k int) string {
	switch {
	case isIntKind(k):
		return fmt.Sprintf("i%d", s.GetInt64())
	case k == kFloat32:
		f := s.GetFloat32()
		return fmt.Sprintf("f32:%08x(%v)", math.Float32bits(f), f)
	}
	f := s.GetFloat64()
	return fmt.Sprintf("f64:%016x(%v)", math.Float64bits(f), f)
}

func isZeroScalar(s ad.ConstScalar, k int) bool {
	if isIntKind(k) {
		return s.GetInt64() == 0
	}
	return s.GetFloat64() == 0
}

func typeName(x any) string {
	t := reflect.TypeOf(x)
	if t == nil {
		return "nil"
	}
	for t.Kind() == reflect.Ptr {
		t = t.Elem()
	}
	return t.Name()
}

// derivative alphabets for Real scalars (index 0 = zero)
var gradAlpha = []float64{0, 1, float64(float32(1.0 / 3))}
var hessAlpha = []float64{0, 2, float64(float32(0.1))}

// realSpec describes the derivative part of a Real scalar.
type realSpec struct {
	Order int   `json:"order"`
	N     int   `json:"n"`
	Grad  []int `json:"grad,omitempty"` // indices into gradAlpha, len N
	Hess  []int `json:"hess,omitempty"` // indices into hessAlpha, len N*N
}

func (r realSpec) carries() bool {
	if r.Order >= 1 {
		for _, g := range r.Grad {
			if g != 0 {
				return true
			}
		}
	}
	if r.Order >= 2 {
		for _, h := range r.Hess {
			if h != 0 {
				return true
			}
		}
	}
	return false
}

func (r realSpec) class() string {
	g, h := "zero", "zero"
	for _, x := range r.Grad {
		if x != 0 {
			g = "nz"
		}
	}
	for _, x := range r.Hess {
		if x != 0 {
			h = "nz"
		}
	}
	if r.Order < 1 {
		g = "-"
	}
	if r.Order < 2 {
		h = "-"
	}
	nc := "N>0"
	if r.N == 0 {
		nc = "N=0"
	}
	return fmt.Sprintf("order=%d,%s,grad=%s,hess=%s", r.Order, nc, g, h)
}

func applyReal(m ad.MagicScalar, r realSpec) {
	m.Alloc(r.N, r.Order)
	if r.Order >= 1 {
		for i := 0; i < r.N && i < len(r.Grad); i++ {
			m.SetDerivative(i, gradAlpha[r.Grad[i]])
		}
	}
	if r.Order >= 2 {
		for i := 0; i < r.N; i++ {
			for j := 0; j < r.N; j++ {
				if i*r.N+j < len(r.Hess) {
					m.SetHessian(i, j, hessAlpha[r.Hess[i*r.N+j]])
				}
			}
		}
	}
}

// enumRealSpecs: all (order, N, gradient pattern, Hessian pattern) up to N<=maxN.
func enumRealSpecs(maxN int, full bool) []realSpec {
	out := []realSpec{}
	pow := func(b, e int) int {
		r := 1
		for i := 0; i < e; i++ {
			r *= b
		}
		return r
	}
	digits := func(x, b, n int) []int {
		d := make([]int, n)
		for i := 0; i < n; i++ {
			d[i] = x % b
			x /= b
		}
		return d
	}
	for order := 0; order <= 2; order++ {
		for n := 0; n <= maxN; n++ {
			if order == 0 {
				out = append(out, realSpec{Order: 0, N: n})
				continue
			}
			ng := pow(len(gradAlpha), n)
			for g := 0; g < ng; g++ {
				gd := digits(g, len(gradAlpha), n)
				if order == 1 {
					out = append(out, realSpec{Order: 1, N: n, Grad: gd})
					continue
				}
				hb := len(hessAlpha)
				if !full && n >= 2 {
					hb = 2 // quick: Hessian entries from {0, 2}
				}
				nh := pow(hb, n*n)
				for h := 0; h < nh; h++ {
					out = append(out, realSpec{Order: 2, N: n, Grad: gd, Hess: digits(h, hb, n*n)})
				}
			}
		}
	}
	return out
}
