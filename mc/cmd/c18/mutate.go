package main

import (
	"bytes"
	"crypto/md5"
	"encoding/json"
	"fmt"
	"sort"
	"strings"
)

func compactJSON(b []byte) string {
	var o bytes.Buffer
	if err := json.Compact(&o, b); err != nil {
		return string(b)
	}
	return o.String()
}

// the substitution alphabet of DESIGN §3 C18: `{}[],:"0-9.eE+-nulltruefalse ` as bytes, deduplicated
var jsonSubst = dedupBytes(`{}[],:"0123456789.eE+-nulltruefalse `)

// table files: digits, separators, sign, exponent, a letter
var tableSubst = dedupBytes("0123456789 \n\t-+.eEx")

func dedupBytes(s string) []byte {
	seen := map[byte]bool{}
	out := []byte{}
	for i := 0; i < len(s); i++ {
		if !seen[s[i]] {
			seen[s[i]] = true
			out = append(out, s[i])
		}
	}
	return out
}

// reduced symbol alphabet for the "all strings of length <= 3" enumeration
var shortJSON = []string{"{", "}", "[", "]", ",", ":", `"`, "0", "1", "-", ".", "e", "null", "true", " "}
var shortTable = []string{"0", "1", "2", "-", ".", "e", "x", " ", "\n"}

// seenSet deduplicates inputs by a 128-bit content hash (inputs can be many and long).
type seenSet struct{ m map[[16]byte]struct{} }

func newSeen(initial ...[]byte) *seenSet {
	s := &seenSet{m: map[[16]byte]struct{}{}}
	for _, b := range initial {
		s.add(b)
	}
	return s
}

// add reports whether b was new.
func (s *seenSet) add(b []byte) bool {
	h := md5.Sum(b)
	if _, ok := s.m[h]; ok {
		return false
	}
	s.m[h] = struct{}{}
	return true
}

type mutant struct {
	data []byte
	desc string
	rank int64
}

// byteMutants: every truncation, every single-byte deletion, every single-byte
// substitution from the alphabet; deduplicated by content, the valid encoding excluded.
func byteMutants(valid []byte, alpha []byte, seen *seenSet, emit func(m mutant)) {
	put := func(d []byte, desc string, rank int64) {
		if !seen.add(d) {
			return
		}
		emit(mutant{d, desc, rank})
	}
	n := len(valid)
	for k := 0; k < n; k++ {
		put(append([]byte{}, valid[:k]...), fmt.Sprintf("truncate@%d", k), 1000+int64(k))
	}
	for k := 0; k < n; k++ {
		d := append(append([]byte{}, valid[:k]...), valid[k+1:]...)
		put(d, fmt.Sprintf("delete@%d(%q)", k, valid[k]), 2000+int64(k))
	}
	for k := 0; k < n && len(alpha) > 0; k++ {
		for _, a := range alpha {
			if a == valid[k] {
				continue
			}
			d := append([]byte{}, valid...)
			d[k] = a
			put(d, fmt.Sprintf("subst@%d(%q→%q)", k, valid[k], a), 3000+int64(k))
		}
	}
}

func shortStrings(symbols []string, maxLen int, seen *seenSet, emit func(m mutant)) {
	var rec func(prefix string, l int)
	rec = func(prefix string, l int) {
		if l > 0 && seen.add([]byte(prefix)) {
			emit(mutant{[]byte(prefix), fmt.Sprintf("short-string(%d symbols)", l), int64(l)})
		}
		if l == maxLen {
			return
		}
		for _, s := range symbols {
			rec(prefix+s, l+1)
		}
	}
	if seen.add(nil) {
		emit(mutant{[]byte{}, "empty input", 0})
	}
	rec("", 0)
}

/* structural mutations of a JSON document
 * -------------------------------------------------------------------------- */

// replacement values tried at every node
var treeRepl = []string{`null`, `"x"`, `0`, `-1`, `1.5`, `1e999`, `true`, `[]`, `{}`, `[null]`, `[[1]]`, `99`}

// treeMutants: for every node of the JSON tree of `valid`: delete it (array element /
// object member), duplicate it (array element), and replace it by each value of treeRepl.
// Object members are visited in sorted key order, so the enumeration is deterministic.
func treeMutants(valid []byte, seen *seenSet, emit func(m mutant)) {
	var root any
	dec := json.NewDecoder(bytes.NewReader(valid))
	dec.UseNumber()
	if dec.Decode(&root) != nil {
		return
	}
	type edit struct {
		path []any // keys (string) / indices (int)
		kind string
		repl string
	}
	var paths [][]any
	var walk func(n any, path []any)
	walk = func(n any, path []any) {
		paths = append(paths, append([]any{}, path...))
		switch t := n.(type) {
		case map[string]any:
			ks := make([]string, 0, len(t))
			for k := range t {
				ks = append(ks, k)
			}
			sort.Strings(ks)
			for _, k := range ks {
				walk(t[k], append(path, k))
			}
		case []any:
			for i := range t {
				walk(t[i], append(path, i))
			}
		}
	}
	walk(root, nil)
	var render func(n any, path []any, e *edit, depth int) (string, bool) // (text, deleted)
	match := func(path []any, e *edit) bool {
		if len(path) != len(e.path) {
			return false
		}
		for i := range path {
			if path[i] != e.path[i] {
				return false
			}
		}
		return true
	}
	render = func(n any, path []any, e *edit, depth int) (string, bool) {
		if match(path, e) {
			switch e.kind {
			case "delete":
				return "", true
			case "replace":
				return e.repl, false
			}
		}
		switch t := n.(type) {
		case map[string]any:
			ks := make([]string, 0, len(t))
			for k := range t {
				ks = append(ks, k)
			}
			sort.Strings(ks)
			parts := []string{}
			for _, k := range ks {
				s, del := render(t[k], append(path, k), e, depth+1)
				if del {
					continue
				}
				kb, _ := json.Marshal(k)
				parts = append(parts, string(kb)+":"+s)
			}
			return "{" + strings.Join(parts, ",") + "}", false
		case []any:
			parts := []string{}
			for i := range t {
				p := append(path, i)
				s, del := render(t[i], p, e, depth+1)
				if del {
					continue
				}
				parts = append(parts, s)
				if e.kind == "duplicate" && match(p, e) {
					parts = append(parts, s)
				}
			}
			return "[" + strings.Join(parts, ",") + "]", false
		case json.Number:
			return t.String(), false
		default:
			b, _ := json.Marshal(t)
			return string(b), false
		}
	}
	pathStr := func(p []any) string {
		s := "$"
		for _, x := range p {
			switch t := x.(type) {
			case string:
				s += "." + t
			case int:
				s += fmt.Sprintf("[%d]", t)
			}
		}
		return s
	}
	put := func(s, desc string, rank int64) {
		if !seen.add([]byte(s)) {
			return
		}
		emit(mutant{[]byte(s), desc, rank})
	}
	for pi, p := range paths {
		if len(p) > 0 {
			e := &edit{path: p, kind: "delete"}
			s, _ := render(root, nil, e, 0)
			put(s, "tree:delete "+pathStr(p), 500+int64(pi))
			if _, isIdx := p[len(p)-1].(int); isIdx {
				e := &edit{path: p, kind: "duplicate"}
				s, _ := render(root, nil, e, 0)
				put(s, "tree:duplicate "+pathStr(p), 600+int64(pi))
			}
		}
		for _, r := range treeRepl {
			e := &edit{path: p, kind: "replace", repl: r}
			s, _ := render(root, nil, e, 0)
			put(s, "tree:replace "+pathStr(p)+" by "+r, 700+int64(pi))
		}
	}
}
