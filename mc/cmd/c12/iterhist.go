package main

import (
	"fmt"
	"strings"

	ad "github.com/pbenner/autodiff"
)

// Iterator clones after a HISTORY: between advancing an iterator and cloning it (and between
// cloning and walking) the container it runs over, the object owning the container's storage
// or the second operand of a joint iterator is mutated: a value is written to every position
// (absent positions of a sparse container: a new entry, the index tree is rebalanced), a zero
// is written to every position, a zero is written and the container is purged by a full
// const-iterator walk (entries leave the index tree), every pair of positions is swapped,
// rows/columns are swapped. The library supports writing to a container under a live iterator
// (Deleted flags, cached keys, joint iterators insert into their receiver), so the iterator
// carries state that is only consistent TOGETHER with the container's history; a clone has to
// carry exactly that state.
//
// Oracle (no model of iteration under mutation is needed): the real source iterator after the
// same history, in a second, identically built instance, is the reference. The clone must
// stand where its source stands and yield the sequence the source yields; walking one must
// not move the other.

type IMut struct {
	Tgt string `json:"target"` // recv: the container iterated over | parent: the object owning its storage | other: second operand of a joint iterator
	Op  string `json:"op"`     // set | zero | zeropurge | swap | swaprows | swapcols
	A   [4]int `json:"a"`
}

func (m IMut) String() string {
	switch m.Op {
	case "swap":
		return fmt.Sprintf("%s.%s%v", m.Tgt, m.Op, m.A)
	}
	return fmt.Sprintf("%s.%s(%d,%d)", m.Tgt, m.Op, m.A[0], m.A[1])
}

type IHCase struct {
	D     Desc   `json:"object"`
	Other string `json:"other,omitempty"` // storage class of the second operand (joint iterators)
	Kind  string `json:"iterator"`
	Via   string `json:"clone"`
	K     int    `json:"position"`
	Muts  []IMut `json:"mutations"`
	When  string `json:"when"` // before-clone | after-clone
	Key   string `json:"key"`
}

// which clone methods an iterator kind offers
var iterViasOf = map[string][]string{
	"Iterator":           {"CloneIterator", "CloneConstIterator", "Clone"},
	"ConstIterator":      {"CloneConstIterator", "Clone"},
	"IteratorFrom":       {"CloneIterator", "CloneConstIterator", "Clone"},
	"JointIterator":      {"CloneJointIterator", "CloneConstJointIterator", "Clone"},
	"ConstJointIterator": {"CloneConstJointIterator", "Clone"},
	"MagicIterator":      {"CloneMagicIterator", "CloneIterator", "CloneConstIterator", "Clone"},
}

func isJointKind(kind string) bool { return strings.Contains(kind, "Joint") }

// ihOther: the second operand of a joint iterator: non-zero at the odd positions and at the last one
func ihOther(o any, sto string) any {
	switch v := o.(type) {
	case ad.Vector:
		n := v.Dim()
		b := newVecT(sto, v.ElementType(), n)
		for i := 0; i < n; i++ {
			if i%2 == 1 || i == n-1 {
				b.At(i).SetFloat64(float64(1 + i%3))
			}
		}
		return b
	case ad.Matrix:
		n, m := v.Dims()
		var b ad.Matrix
		if sto == "dense" {
			b = ad.NullDenseMatrix(v.ElementType(), n, m)
		} else {
			b = ad.NullSparseMatrix(v.ElementType(), n, m)
		}
		for i := 0; i < n; i++ {
			for j := 0; j < m; j++ {
				if k := i*m + j; k%2 == 1 || k == n*m-1 {
					b.At(i, j).SetFloat64(float64(1 + k%3))
				}
			}
		}
		return b
	}
	return nil
}

func newVecT(sto string, T ad.ScalarType, n int) ad.Vector {
	if sto == "dense" {
		return ad.NullDenseVector(T, n)
	}
	return ad.NullSparseVector(T, n)
}

// makeIterOn: like makeIter, with the second operand supplied by the caller
func makeIterOn(o any, kind string, other any) any {
	switch v := o.(type) {
	case ad.Vector:
		switch kind {
		case "JointIterator":
			return v.JointIterator(other.(ad.ConstVector))
		case "ConstJointIterator":
			return v.ConstJointIterator(other.(ad.ConstVector))
		}
	case ad.Matrix:
		switch kind {
		case "JointIterator":
			return v.JointIterator(other.(ad.ConstMatrix))
		case "ConstJointIterator":
			return nil
		}
	}
	return makeIter(o, kind)
}

func purge(o any) {
	switch v := o.(type) {
	case ad.ConstVector:
		k := 0
		for it := v.ConstIterator(); it.Ok() && k < 1024; it.Next() {
			k++
		}
	case ad.ConstMatrix:
		k := 0
		for it := v.ConstIterator(); it.Ok() && k < 1024; it.Next() {
			k++
		}
	}
}

func applyIMut(m IMut, tgt any) {
	switch v := tgt.(type) {
	case ad.Vector:
		switch m.Op {
		case "set":
			v.At(m.A[0]).SetFloat64(9)
		case "zero":
			v.At(m.A[0]).SetFloat64(0)
		case "zeropurge":
			v.At(m.A[0]).SetFloat64(0)
			purge(v)
		case "swap":
			v.Swap(m.A[0], m.A[1])
		default:
			panic("unknown vector mutation " + m.Op)
		}
	case ad.Matrix:
		switch m.Op {
		case "set":
			v.At(m.A[0], m.A[1]).SetFloat64(9)
		case "zero":
			v.At(m.A[0], m.A[1]).SetFloat64(0)
		case "zeropurge":
			v.At(m.A[0], m.A[1]).SetFloat64(0)
			purge(v)
		case "swap":
			v.Swap(m.A[0], m.A[1], m.A[2], m.A[3])
		case "swaprows":
			v.SwapRows(m.A[0], m.A[1])
		case "swapcols":
			v.SwapColumns(m.A[0], m.A[1])
		default:
			panic("unknown matrix mutation " + m.Op)
		}
	default:
		panic(fmt.Sprintf("mutation target %T", tgt))
	}
}

// iMuts: the mutation alphabet on one target object
func iMuts(tgt string, o any) (L []IMut) {
	switch v := o.(type) {
	case ad.Vector:
		n := v.Dim()
		for _, op := range []string{"set", "zero", "zeropurge"} {
			for i := 0; i < n; i++ {
				L = append(L, IMut{Tgt: tgt, Op: op, A: [4]int{i}})
			}
		}
		for i := 0; i < n; i++ {
			for j := i + 1; j < n; j++ {
				L = append(L, IMut{Tgt: tgt, Op: "swap", A: [4]int{i, j}})
			}
		}
	case ad.Matrix:
		n, m := v.Dims()
		for _, op := range []string{"set", "zero", "zeropurge"} {
			for i := 0; i < n; i++ {
				for j := 0; j < m; j++ {
					L = append(L, IMut{Tgt: tgt, Op: op, A: [4]int{i, j}})
				}
			}
		}
		for k := 0; k < n*m; k++ {
			for l := k + 1; l < n*m; l++ {
				L = append(L, IMut{Tgt: tgt, Op: "swap", A: [4]int{k / m, k % m, l / m, l % m}})
			}
		}
		for i := 0; i < n; i++ {
			for j := i + 1; j < n; j++ {
				L = append(L, IMut{Tgt: tgt, Op: "swaprows", A: [4]int{i, j}})
			}
		}
		for i := 0; i < m; i++ {
			for j := i + 1; j < m; j++ {
				L = append(L, IMut{Tgt: tgt, Op: "swapcols", A: [4]int{i, j}})
			}
		}
	}
	return L
}

// ihMutLists: every single mutation on every admissible target (thorough=pairs: every ordered pair)
func ihMutLists(d Desc, kind string, pairs bool) [][]IMut {
	w := build(d)
	if w.err != "" {
		return nil
	}
	var single []IMut
	single = append(single, iMuts("recv", w.obj)...)
	if d.class() != "owning" {
		single = append(single, iMuts("parent", w.parent)...)
	}
	if isJointKind(kind) {
		single = append(single, iMuts("other", ihOther(w.obj, "sparse"))...)
	}
	var L [][]IMut
	for _, m := range single {
		L = append(L, []IMut{m})
	}
	if pairs {
		for _, m1 := range single {
			for _, m2 := range single {
				L = append(L, []IMut{m1, m2})
			}
		}
	}
	return L
}

// walkSafe: the remaining sequence; a panic of the iterator becomes part of the sequence
func walkSafe(it *itA, bound int) (seq []string) {
	defer func() {
		if r := recover(); r != nil {
			seq = append(seq, fmt.Sprint("PANIC:", r))
		}
	}()
	for k := 0; it.ok(); k++ {
		if k > bound {
			return append(seq, "NONTERM")
		}
		seq = append(seq, it.pos())
		it.next()
	}
	return seq
}

type ihWorld struct {
	w     world
	other any
	it    *itA
}

func (x *ihWorld) target(t string) any {
	switch t {
	case "recv":
		return x.w.obj
	case "parent":
		return x.w.parent
	}
	return x.other
}

// ihMake builds the container (and the second operand), creates the iterator and advances it K
// times; nil if that is not possible
func ihMake(d Desc, other, kind string, K int) *ihWorld {
	x := &ihWorld{w: build(d)}
	if x.w.err != "" {
		return nil
	}
	if isJointKind(kind) {
		x.other = ihOther(x.w.obj, other)
	}
	raw := makeIterOn(x.w.obj, kind, x.other)
	if raw == nil {
		return nil
	}
	if x.it = adapt(raw); x.it == nil {
		return nil
	}
	for k := 0; k < K; k++ {
		if !x.it.ok() {
			return nil
		}
		x.it.next()
	}
	return x
}

// ihReachable: the iterator of this kind can be advanced K times
func ihReachable(d Desc, other, kind string, K int) (ok bool) {
	try(func() { ok = ihMake(d, other, kind, K) != nil })
	return ok
}

// ihRef: what the SOURCE does after the history (no clone involved): the reference of all cases that
// differ in the clone method and in the place of the clone in the history only
type ihRef struct {
	want    string
	changed bool
}

func ihBound(d Desc) int { return 4*(d.N+d.R*d.C) + 16 }

func ihReference(cs IHCase) (ref *ihRef, perr string) {
	perr = try(func() {
		x := ihMake(cs.D, cs.Other, cs.Kind, cs.K)
		if x == nil {
			return
		}
		b0 := obsElems(x.w.parent)
		for _, m := range cs.Muts {
			applyIMut(m, x.target(m.Tgt))
		}
		changed := obsElems(x.w.parent) != b0
		for _, m := range cs.Muts {
			changed = changed || m.Tgt == "other"
		}
		ref = &ihRef{strings.Join(walkSafe(x.it, ihBound(cs.D)), ";"), changed}
	})
	return ref, perr
}

func runIHCase(cs IHCase) (fails []failure, outcome string) { return runIHCaseRef(cs, nil) }

func runIHCaseRef(cs IHCase, ref *ihRef) (fails []failure, outcome string) {
	d := cs.D
	bound := ihBound(d)
	mk := func() *ihWorld { return ihMake(d, cs.Other, cs.Kind, cs.K) }
	mutate := func(x *ihWorld) {
		for _, m := range cs.Muts {
			applyIMut(m, x.target(m.Tgt))
		}
	}
	key := func(what string) string {
		return fmt.Sprintf("iter-hist|%s|%s|%s|%s|%s|%s", d.Kind, d.Sto, cs.Kind, cs.Via, cs.When, what)
	}
	hist := func() string {
		var ms []string
		for _, m := range cs.Muts {
			ms = append(ms, m.String())
		}
		h := fmt.Sprintf("%s of %v", cs.Kind, d)
		if cs.Other != "" {
			h += " (second operand " + cs.Other + ")"
		}
		if cs.When == "before-clone" {
			return fmt.Sprintf("%s advanced %d times, then %s, then %s", h, cs.K, strings.Join(ms, ", "), cs.Via)
		}
		return fmt.Sprintf("%s advanced %d times, then %s, then %s", h, cs.K, cs.Via, strings.Join(ms, ", "))
	}
	// clone and mutation in the order of the history
	step := func(x *ihWorld) (c *itA) {
		if cs.When == "before-clone" {
			mutate(x)
			return x.it.clone(cs.Via)
		}
		c = x.it.clone(cs.Via)
		mutate(x)
		return c
	}
	var out []failure
	perr := try(func() {
		// reference: the source after the same history, never cloned
		if ref == nil {
			var e string
			if ref, e = ihReference(cs); e != "" {
				panic(e)
			}
			if ref == nil {
				outcome = "n/a"
				return
			}
		}
		want, changed := ref.want, ref.changed
		// (1) the clone stands where the source stands and yields what the source yields; walking it
		// does not move the source
		x := mk()
		var c *itA
		if e := try(func() { c = step(x) }); e != "" {
			out = append(out, failure{key("clone-panics"), fmt.Sprintf("%s panics: %s", hist(), e)})
			return
		}
		if c == nil {
			outcome = "n/a"
			return
		}
		okBefore := x.it.ok()
		posBefore := ""
		if okBefore {
			posBefore = x.it.pos()
		}
		if c.ok() != okBefore || (okBefore && c.pos() != posBefore) {
			cp := "exhausted"
			if c.ok() {
				cp = c.pos()
			}
			sp := "exhausted"
			if okBefore {
				sp = posBefore
			}
			out = append(out, failure{key("position"), fmt.Sprintf("%s: the clone stands at %s, its source at %s", hist(), cp, sp)})
		}
		if got := strings.Join(walkSafe(c, bound), ";"); got != want && len(out) == 0 {
			out = append(out, failure{key("sequence"), fmt.Sprintf("%s: the clone yields [%s], its source yields [%s]", hist(), got, want)})
		}
		if x.it.ok() != okBefore || (okBefore && x.it.pos() != posBefore) {
			out = append(out, failure{key("moves-original"), fmt.Sprintf("%s: walking the clone moved its source", hist())})
		} else if rest := strings.Join(walkSafe(x.it, bound), ";"); rest != want {
			out = append(out, failure{key("disturbs-original"), fmt.Sprintf("%s: after walking the clone the source yields [%s] instead of [%s]", hist(), rest, want)})
		}
		// (2) walking the source does not move the clone
		// (a clone that is wrong from the start is reported once, above)
		y := mk()
		c2 := step(y)
		walkSafe(y.it, bound)
		if got := strings.Join(walkSafe(c2, bound), ";"); got != want && len(out) == 0 {
			out = append(out, failure{key("clone-follows-original"), fmt.Sprintf("%s: after walking the source the clone yields [%s] instead of [%s]", hist(), got, want)})
		}
		switch {
		case strings.Contains(want, "PANIC:") || strings.Contains(want, "NONTERM"):
			outcome = "source-fails-after-history" // iteration under mutation itself: C11/C19
		case !changed:
			outcome = "ok:container-unchanged"
		case want == "":
			outcome = "ok:exhausted"
		default:
			outcome = "ok"
		}
	})
	if perr != "" {
		if d.class() == "owning" {
			return []failure{{key("panic"), fmt.Sprintf("%s panics: %s", hist(), perr)}}, "fail"
		}
		return nil, "panic-on-view"
	}
	if len(out) > 0 {
		return out, "fail"
	}
	return nil, outcome
}

// ihDescs: the containers of the history part. Sparse containers are built in ascending,
// descending and middle-out order of their positions (different index trees: right-heavy,
// left-heavy, balanced).
func ihDescs(thorough bool, emit func(Desc)) {
	popcount := func(m int) (c int) {
		for ; m != 0; m &= m - 1 {
			c++
		}
		return c
	}
	ords := func(sto string, entries int) []int {
		switch {
		case sto == "dense" || entries < 2:
			return []int{0}
		case entries < 5:
			return []int{0, 1} // (up to four entries middle-out gives the tree of the ascending order)
		}
		return []int{0, 1, 2}
	}
	wide := map[string]bool{"Float64": true, "Real64": true}
	if thorough {
		wide["Int16"] = true
	}
	for _, sto := range []string{"dense", "sparse"} {
		for _, typ := range typeNames {
			nmax := 4
			if sto == "dense" && !thorough {
				nmax = 3 // (no index tree: the smaller bound in the quick tier)
			}
			if sto == "sparse" && (thorough || wide[typ]) {
				nmax = 5
			}
			if sto == "sparse" && thorough && wide[typ] {
				nmax = 6
			}
			for n := 1; n <= nmax; n++ {
				for mask := 0; mask < 1<<n; mask++ {
					for _, ord := range ords(sto, popcount(mask)) {
						emit(Desc{Kind: "vector", Sto: sto, Typ: typ, N: n, Mask: mask, Ord: ord})
					}
					if n >= 3 && n <= 4 && (thorough || mask == bits(n) || mask == bits(n)&0b0101 || mask == bits(n)&0b1010) {
						emit(Desc{Kind: "vector", Sto: sto, Typ: typ, N: n, Mask: mask, Sl: []int{1, n}})
						if thorough {
							emit(Desc{Kind: "vector", Sto: sto, Typ: typ, N: n, Mask: mask, Sl: []int{0, n - 1}})
						}
					}
				}
			}
			shapes := [][2]int{{2, 2}}
			if thorough || sto == "sparse" {
				shapes = append(shapes, [2]int{1, 3})
			}
			if thorough {
				shapes = append(shapes, [2]int{1, 2}, [2]int{2, 1}, [2]int{3, 1})
			}
			if thorough || (sto == "sparse" && wide[typ]) {
				shapes = append(shapes, [2]int{2, 3})
			}
			for _, sh := range shapes {
				R, C := sh[0], sh[1]
				for mask := 0; mask < 1<<(R*C); mask++ {
					if R*C == 6 && !thorough && popcount(mask) != 4 && mask != bits(6) {
						continue
					}
					for _, ord := range ords(sto, popcount(mask)) {
						emit(Desc{Kind: "matrix", Sto: sto, Typ: typ, R: R, C: C, Mask: mask, Ord: ord})
					}
					if R*C == 6 && !thorough {
						continue
					}
					if (thorough && R*C < 6) || mask == bits(R*C) || mask == bits(R*C)&0b010110 || mask == bits(R*C)&0b101001 {
						emit(Desc{Kind: "matrix", Sto: sto, Typ: typ, R: R, C: C, Mask: mask, Path: []Step{{Op: "T"}}})
						if C >= 2 {
							emit(Desc{Kind: "matrix", Sto: sto, Typ: typ, R: R, C: C, Mask: mask, Path: []Step{{Op: "S", A: [4]int{0, R, 1, C}}}})
						}
					}
				}
			}
		}
	}
}

// IHUnit: all cases of one (container, iterator kind, second operand, position): the unit of work
type IHUnit struct {
	D     Desc
	Other string
	Kind  string
	K     int
	Muts  [][]IMut
	Vias  []string
	Whens []string
}

func enumIHUnits(d Desc, thorough bool, emit func(IHUnit)) {
	cells := d.N + d.R*d.C
	pairs := thorough && d.class() == "owning" && cells <= 4 && (d.Typ == "Float64" || d.Typ == "Real64")
	whens := []string{"before-clone"}
	if thorough {
		whens = append(whens, "after-clone")
	}
	for _, kind := range iterKinds {
		if kind == "MagicIterator" && !isReal(d.Typ) {
			continue
		}
		if kind == "ConstJointIterator" && d.Kind == "matrix" {
			continue
		}
		others := []string{""}
		if isJointKind(kind) {
			others = []string{"dense", "sparse"}
		}
		muts := ihMutLists(d, kind, pairs)
		for _, other := range others {
			for k := 0; k <= cells; k++ {
				emit(IHUnit{D: d, Other: other, Kind: kind, K: k, Muts: muts, Vias: iterViasOf[kind], Whens: whens})
			}
		}
	}
}

// enumIHCases enumerates the history cases of one container (the units, flattened)
func enumIHCases(d Desc, thorough bool, emit func(IHCase)) {
	cells := d.N + d.R*d.C
	pairs := thorough && d.class() == "owning" && cells <= 4 && (d.Typ == "Float64" || d.Typ == "Real64")
	whens := []string{"before-clone"}
	if thorough {
		whens = append(whens, "after-clone")
	}
	for _, kind := range iterKinds {
		if kind == "MagicIterator" && !isReal(d.Typ) {
			continue
		}
		if kind == "ConstJointIterator" && d.Kind == "matrix" {
			continue
		}
		others := []string{""}
		if isJointKind(kind) {
			others = []string{"dense", "sparse"}
		}
		muts := ihMutLists(d, kind, pairs)
		for _, other := range others {
			for k := 0; k <= cells; k++ {
				for _, ms := range muts {
					for _, via := range iterViasOf[kind] {
						for _, when := range whens {
							emit(IHCase{D: d, Other: other, Kind: kind, Via: via, K: k, Muts: ms, When: when})
						}
					}
				}
			}
		}
	}
}

// ---- the AVL tree iterator itself -----------------------------------------------------------

type AVMut struct {
	Op  string `json:"op"` // insert | delete
	Key int    `json:"key"`
}

type AVCase struct {
	Keys  []int   `json:"insertions"` // the tree: keys in insertion order
	Start int     `json:"start"`      // -1: Iterator(), otherwise IteratorFrom(Start)
	Safe  bool    `json:"safe,omitempty"`
	K     int     `json:"position"`
	Muts  []AVMut `json:"mutations"`
	When  string  `json:"when"`
	Key   string  `json:"key"`
}

func avlWalk(it *ad.AvlIterator, bound int) (seq []string) {
	defer func() {
		if r := recover(); r != nil {
			seq = append(seq, fmt.Sprint("PANIC:", r))
		}
	}()
	for k := 0; it.Ok(); k++ {
		if k > bound {
			return append(seq, "NONTERM")
		}
		seq = append(seq, fmt.Sprint(it.Get()))
		it.Next()
	}
	return seq
}

func runAVCase(cs AVCase) (fails []failure, outcome string) {
	bound := 2*len(cs.Keys) + 8
	type aw struct {
		t  *ad.AvlTree
		it *ad.AvlIterator
	}
	mk := func() *aw {
		t := ad.NewAvlTree()
		for _, k := range cs.Keys {
			t.Insert(k)
		}
		x := &aw{t: t}
		switch {
		case cs.Start < 0 && !cs.Safe:
			x.it = t.Iterator()
		case cs.Start < 0:
			x.it = t.SafeIterator()
		case !cs.Safe:
			x.it = t.IteratorFrom(cs.Start)
		default:
			x.it = t.SafeIteratorFrom(cs.Start)
		}
		for k := 0; k < cs.K; k++ {
			if !x.it.Ok() {
				return nil
			}
			x.it.Next()
		}
		return x
	}
	mutate := func(x *aw) {
		for _, m := range cs.Muts {
			if m.Op == "insert" {
				x.t.Insert(m.Key)
			} else {
				x.t.Delete(m.Key)
			}
		}
	}
	step := func(x *aw) *ad.AvlIterator {
		if cs.When == "before-clone" {
			mutate(x)
			c := x.it.Clone()
			return &c
		}
		c := x.it.Clone()
		mutate(x)
		return &c
	}
	kind := "Iterator"
	if cs.Start >= 0 {
		kind = "IteratorFrom"
	}
	if cs.Safe {
		kind = "Safe" + kind
	}
	key := func(what string) string { return fmt.Sprintf("iter-hist|avl|%s|Clone|%s|%s", kind, cs.When, what) }
	hist := fmt.Sprintf("AVL tree built by inserting %v, %s(%d) advanced %d times, mutations %v %s", cs.Keys, kind, cs.Start, cs.K, cs.Muts, cs.When)
	var out []failure
	perr := try(func() {
		ref := mk()
		if ref == nil {
			outcome = "n/a"
			return
		}
		mutate(ref)
		want := strings.Join(avlWalk(ref.it, bound), ";")
		x := mk()
		c := step(x)
		ok0, pos0 := x.it.Ok(), x.it.Get()
		if c.Ok() != ok0 || (ok0 && c.Get() != pos0) {
			out = append(out, failure{key("position"), fmt.Sprintf("%s: the clone stands at key %d (ok=%v), its source at key %d (ok=%v)", hist, c.Get(), c.Ok(), pos0, ok0)})
		}
		if got := strings.Join(avlWalk(c, bound), ";"); got != want && len(out) == 0 {
			out = append(out, failure{key("sequence"), fmt.Sprintf("%s: the clone yields [%s], its source yields [%s]", hist, got, want)})
		}
		if x.it.Ok() != ok0 || (ok0 && x.it.Get() != pos0) {
			out = append(out, failure{key("moves-original"), fmt.Sprintf("%s: walking the clone moved its source", hist)})
		} else if rest := strings.Join(avlWalk(x.it, bound), ";"); rest != want {
			out = append(out, failure{key("disturbs-original"), fmt.Sprintf("%s: after walking the clone the source yields [%s] instead of [%s]", hist, rest, want)})
		}
		y := mk()
		c2 := step(y)
		avlWalk(y.it, bound)
		if got := strings.Join(avlWalk(c2, bound), ";"); got != want && len(out) == 0 {
			out = append(out, failure{key("clone-follows-original"), fmt.Sprintf("%s: after walking the source the clone yields [%s] instead of [%s]", hist, got, want)})
		}
		switch {
		case strings.Contains(want, "PANIC:") || strings.Contains(want, "NONTERM"):
			outcome = "source-fails-after-history"
		case want == "":
			outcome = "ok:exhausted"
		default:
			outcome = "ok"
		}
	})
	if perr != "" {
		return []failure{{key("panic"), hist + " panics: " + perr}}, "fail"
	}
	if len(out) > 0 {
		return out, "fail"
	}
	return nil, outcome
}

// enumAVCases: every distinct tree (shape, balance factors and keys, as printed by String()) reachable by
// inserting up to maxKeys distinct keys of {0..U-1} in any order, and by one further deletion
func enumAVCases(thorough bool, emit func(AVCase), trees *int64) {
	U, maxKeys := 6, 5
	if thorough {
		U, maxKeys = 7, 6
	}
	seen := map[string]bool{}
	var seqs [][]int
	var rec func(cur []int, used int)
	rec = func(cur []int, used int) {
		t := ad.NewAvlTree()
		for _, k := range cur {
			t.Insert(k)
		}
		if s := t.String(); !seen[s] {
			seen[s] = true
			seqs = append(seqs, append([]int{}, cur...))
		}
		if len(cur) == maxKeys {
			return
		}
		for k := 0; k < U; k++ {
			if used&(1<<k) == 0 {
				rec(append(cur, k), used|1<<k)
			}
		}
	}
	rec(nil, 0)
	*trees = int64(len(seqs))
	whens := []string{"before-clone", "after-clone"}
	for _, keys := range seqs {
		present := 0
		for _, k := range keys {
			present |= 1 << k
		}
		var single []AVMut
		for k := 0; k < U; k++ {
			if present&(1<<k) == 0 {
				single = append(single, AVMut{"insert", k})
			} else {
				single = append(single, AVMut{"delete", k})
			}
		}
		var muts [][]AVMut
		for _, m := range single {
			muts = append(muts, []AVMut{m})
		}
		if thorough || len(keys) <= 4 {
			// every ordered pair on different keys
			for _, m1 := range single {
				for _, m2 := range single {
					if m1.Key != m2.Key {
						muts = append(muts, []AVMut{m1, m2})
					}
				}
			}
		}
		for start := -1; start < U; start++ {
			for _, safe := range []bool{false, true} {
				if safe && start >= 0 && !thorough {
					continue
				}
				for k := 0; k <= len(keys); k++ {
					for _, ms := range muts {
						for _, when := range whens {
							emit(AVCase{Keys: keys, Start: start, Safe: safe, K: k, Muts: ms, When: when})
						}
					}
				}
			}
		}
	}
}
