package main

import (
	"fmt"
	"strings"

	ad "github.com/pbenner/autodiff"
	"github.com/pbenner/autodiff/algorithm/backSubstitution"
	"github.com/pbenner/autodiff/algorithm/cholesky"
	"github.com/pbenner/autodiff/algorithm/determinant"
	"github.com/pbenner/autodiff/algorithm/eigensystem"
	"github.com/pbenner/autodiff/algorithm/gramSchmidt"
	"github.com/pbenner/autodiff/algorithm/hessenbergReduction"
	"github.com/pbenner/autodiff/algorithm/householderBidiagonalization"
	"github.com/pbenner/autodiff/algorithm/householderTridiagonalization"
	"github.com/pbenner/autodiff/algorithm/matrixInverse"
	"github.com/pbenner/autodiff/algorithm/newton"
	"github.com/pbenner/autodiff/algorithm/qrAlgorithm"
	"github.com/pbenner/autodiff/algorithm/svd"
)

// Two-call histories sharing ONE caller-supplied InSitu object. An InSitu object is how a
// caller recycles the work buffers of an algorithm; the library's own callers do exactly
// that (newton.getDirection -> qrAlgorithm / cholesky / matrixInverse, eigensystem ->
// qrAlgorithm, matrixInverse -> cholesky). A buffer that silently IS the caller's input
// (instead of a copy of it) is harmless within one call and overwrites that input in the
// next one. For every entry point with an InSitu type, every ordered pair of option sets,
// every flag combination of the InSitu object, buffers initially nil / initially allocated
// by the caller, and every ordered pair of different inputs of equal dimension:
//   - the input of the FIRST call (never handed over as a buffer) is unchanged after the
//     second call; so is the input of the second call;
//   - each call returns exactly what a call without InSitu returns for the same input;
//   - results of the first call that changed during the second call are counted as an outcome
//     class, not as a violation: the packages have no doc comment on the matter, the result
//     objects ARE the exported buffer fields (H, U, L, D, Id, Eigenvalues, X, ...) and every
//     caller inside the library consumes them before the next call.
// qrAlgorithm.InSitu.InitializeH == false means that the caller has filled H: the harness
// then does so (H.Set(a)) before the call whenever H exists.

type TCase struct {
	Algo  string `json:"algorithm"`
	Typ   string `json:"type"`
	In1   int    `json:"first_input"`
	In2   int    `json:"second_input"`
	Opt1  int    `json:"first_options"`
	Opt2  int    `json:"second_options"`
	Flags int    `json:"insitu_flags"`
	Mode  string `json:"buffers"` // nil | allocated
	Key   string `json:"key"`
}

type tcAlgo struct {
	name   string
	nOpts  int
	nFlags int
	modes  []string
	nIn    int
	dim    func(k int) int
	optStr func(opt int) string
	// input builds fresh input objects of the call (owning containers)
	input func(typ string, k, opt int) []any
	// newIS creates the InSitu object: empty (mode nil) or with the result/work matrices
	// allocated by the caller
	newIS func(mode string, flags int, T ad.ScalarType, n int) any
	// prep: what the contract of the InSitu flags asks of the caller before a call
	prep func(is any, in []any, flags int)
	// run: is == nil: call without InSitu
	run func(in []any, opt int, is any) ([]any, error)
	// badFirst: the inadmissible matrices of algoBadMats are first inputs as well (direct
	// methods only: the iterative ones need not terminate on them, which is C20's subject)
	badFirst bool
}

func triu(m ad.Matrix) ad.Matrix {
	n, _ := m.Dims()
	for i := 0; i < n; i++ {
		for j := 0; j < i; j++ {
			m.At(i, j).SetFloat64(0)
		}
	}
	return m
}

func tcMatInput(typ string, k, opt int) []any {
	m, _ := algoMatrix(typ, k, "owning")
	return []any{m}
}

func matDim(k int) int { return len(algoMatData(k)) }

func dm(T ad.ScalarType, n int) ad.Matrix { return ad.NullDenseMatrix(T, n, n) }

func bitStr(names ...string) func(int) string {
	return func(opt int) string {
		var s []string
		for i, n := range names {
			s = append(s, fmt.Sprintf("%s=%v", n, opt&(1<<i) != 0))
		}
		return strings.Join(s, ",")
	}
}

func res(xs ...any) []any { return xs }

// nilIface: a nil concrete pointer in an interface is not a nil result
func isNilResult(x any) bool {
	switch v := x.(type) {
	case nil:
		return true
	case ad.Matrix:
		return v == nil
	case ad.Vector:
		return v == nil
	case ad.Scalar:
		return v == nil
	}
	return false
}

var tcAlgos = []tcAlgo{
	{
		name: "qrAlgorithm", nOpts: 4, nFlags: 4, modes: []string{"nil", "allocated"}, nIn: len(algoMats), dim: matDim,
		optStr: bitStr("ComputeU", "Symmetric"), input: tcMatInput,
		newIS: func(mode string, flags int, T ad.ScalarType, n int) any {
			is := &qrAlgorithm.InSitu{InitializeH: flags&1 != 0, InitializeU: flags&2 != 0}
			if mode == "allocated" {
				is.H, is.U = dm(T, n), dm(T, n)
			}
			return is
		},
		prep: func(is any, in []any, flags int) {
			if q := is.(*qrAlgorithm.InSitu); !q.InitializeH && q.H != nil {
				q.H.Set(in[0].(ad.Matrix))
			}
		},
		run: func(in []any, opt int, is any) ([]any, error) {
			args := []interface{}{qrAlgorithm.ComputeU{Value: opt&1 != 0}, qrAlgorithm.Symmetric{Value: opt&2 != 0}, qrAlgorithm.Epsilon{Value: 1e-10}}
			if is != nil {
				args = append(args, is)
			}
			h, u, err := qrAlgorithm.Run(in[0].(ad.Matrix), args...)
			return res(h, u), err
		},
	},
	{
		name: "svd", nOpts: 4, nFlags: 1, modes: []string{"nil", "allocated"}, nIn: len(algoMats), dim: matDim,
		optStr: bitStr("ComputeU", "ComputeV"), input: tcMatInput,
		newIS: func(mode string, flags int, T ad.ScalarType, n int) any {
			is := &svd.InSitu{}
			if mode == "allocated" {
				is.A, is.U, is.V = dm(T, n), dm(T, n), dm(T, n)
			}
			return is
		},
		run: func(in []any, opt int, is any) ([]any, error) {
			args := []interface{}{svd.ComputeU{Value: opt&1 != 0}, svd.ComputeV{Value: opt&2 != 0}}
			if is != nil {
				args = append(args, is)
			}
			h, u, v, err := svd.Run(in[0].(ad.Matrix), args...)
			return res(h, u, v), err
		},
	},
	{
		name: "eigensystem", nOpts: 4, nFlags: 1, modes: []string{"nil", "allocated"}, nIn: len(algoMats), dim: matDim,
		optStr: bitStr("ComputeEigenvectors", "Symmetric"), input: tcMatInput,
		newIS: func(mode string, flags int, T ad.ScalarType, n int) any {
			is := &eigensystem.InSitu{}
			if mode == "allocated" {
				is.Eigenvalues, is.Eigenvectors = ad.NullDenseVector(T, n), dm(T, n)
			}
			return is
		},
		run: func(in []any, opt int, is any) ([]any, error) {
			args := []interface{}{eigensystem.ComputeEigenvectors{Value: opt&1 != 0}, eigensystem.Symmetric{Value: opt&2 != 0}}
			if is != nil {
				args = append(args, is)
			}
			e, v, err := eigensystem.Run(in[0].(ad.Matrix), args...)
			return res(e, v), err
		},
	},
	{
		badFirst: true,
		name:     "cholesky", nOpts: 3, nFlags: 1, modes: []string{"nil", "allocated"}, nIn: len(algoMats), dim: matDim,
		optStr: func(opt int) string { return []string{"-", "LDL", "LDL,ForcePD"}[opt] }, input: tcMatInput,
		newIS: func(mode string, flags int, T ad.ScalarType, n int) any {
			is := &cholesky.InSitu{}
			if mode == "allocated" {
				is.L, is.D = dm(T, n), dm(T, n)
			}
			return is
		},
		run: func(in []any, opt int, is any) ([]any, error) {
			var args []interface{}
			if opt >= 1 {
				args = append(args, cholesky.LDL{Value: true})
			}
			if opt >= 2 {
				args = append(args, cholesky.ForcePD{Value: true})
			}
			if is != nil {
				args = append(args, is)
			}
			l, d, err := cholesky.Run(in[0].(ad.Matrix), args...)
			return res(l, d), err
		},
	},
	{
		badFirst: true,
		name:     "matrixInverse", nOpts: 3, nFlags: 1, modes: []string{"nil", "allocated"}, nIn: len(algoMats), dim: matDim,
		optStr: func(opt int) string { return []string{"-", "PositiveDefinite", "UpperTriangular"}[opt] },
		input: func(typ string, k, opt int) []any {
			m, _ := algoMatrix(typ, k, "owning")
			if opt == 2 {
				triu(m)
			}
			return []any{m}
		},
		newIS: func(mode string, flags int, T ad.ScalarType, n int) any {
			is := &matrixInverse.InSitu{}
			if mode == "allocated" {
				is.Id, is.A, is.B = dm(T, n), dm(T, n), ad.NullDenseVector(T, n)
			}
			return is
		},
		run: func(in []any, opt int, is any) ([]any, error) {
			var args []interface{}
			switch opt {
			case 1:
				args = append(args, matrixInverse.PositiveDefinite{Value: true})
			case 2:
				args = append(args, matrixInverse.UpperTriangular{Value: true})
			}
			if is != nil {
				args = append(args, is)
			}
			x, err := matrixInverse.Run(in[0].(ad.Matrix), args...)
			return res(x), err
		},
	},
	{
		badFirst: true,
		name:     "determinant", nOpts: 3, nFlags: 1, modes: []string{"nil", "allocated"}, nIn: len(algoMats), dim: matDim,
		optStr: func(opt int) string { return []string{"-", "PositiveDefinite", "PositiveDefinite,LogScale"}[opt] }, input: tcMatInput,
		newIS: func(mode string, flags int, T ad.ScalarType, n int) any {
			is := &determinant.InSitu{}
			if mode == "allocated" {
				is.Cholesky.L = dm(T, n)
			}
			return is
		},
		run: func(in []any, opt int, is any) ([]any, error) {
			var args []interface{}
			if opt >= 1 {
				args = append(args, determinant.PositiveDefinite{Value: true})
			}
			if opt >= 2 {
				args = append(args, determinant.LogScale{Value: true})
			}
			if is != nil {
				args = append(args, is)
			}
			d, err := determinant.Run(in[0].(ad.Matrix), args...)
			return res(d), err
		},
	},
	{
		badFirst: true,
		name:     "hessenbergReduction", nOpts: 4, nFlags: 1, modes: []string{"nil", "allocated"}, nIn: len(algoMats), dim: matDim,
		optStr: bitStr("ComputeU", "SetZero"), input: tcMatInput,
		newIS: func(mode string, flags int, T ad.ScalarType, n int) any {
			is := &hessenbergReduction.InSitu{}
			if mode == "allocated" {
				is.H, is.U = dm(T, n), dm(T, n)
			}
			return is
		},
		run: func(in []any, opt int, is any) ([]any, error) {
			args := []interface{}{hessenbergReduction.ComputeU{Value: opt&1 != 0}, hessenbergReduction.SetZero{Value: opt&2 != 0}}
			if is != nil {
				args = append(args, is)
			}
			h, u, err := hessenbergReduction.Run(in[0].(ad.Matrix), args...)
			return res(h, u), err
		},
	},
	{
		badFirst: true,
		name:     "householderTridiagonalization", nOpts: 2, nFlags: 1, modes: []string{"nil", "allocated"}, nIn: len(algoMats), dim: matDim,
		optStr: bitStr("ComputeU"), input: tcMatInput,
		newIS: func(mode string, flags int, T ad.ScalarType, n int) any {
			is := &householderTridiagonalization.InSitu{}
			if mode == "allocated" {
				is.A, is.U = dm(T, n), dm(T, n)
			}
			return is
		},
		run: func(in []any, opt int, is any) ([]any, error) {
			args := []interface{}{householderTridiagonalization.ComputeU{Value: opt&1 != 0}}
			if is != nil {
				args = append(args, is)
			}
			a, u, err := householderTridiagonalization.Run(in[0].(ad.Matrix), args...)
			return res(a, u), err
		},
	},
	{
		badFirst: true,
		name:     "householderBidiagonalization", nOpts: 4, nFlags: 1, modes: []string{"nil", "allocated"}, nIn: len(algoMats), dim: matDim,
		optStr: bitStr("ComputeU", "ComputeV"), input: tcMatInput,
		newIS: func(mode string, flags int, T ad.ScalarType, n int) any {
			is := &householderBidiagonalization.InSitu{}
			if mode == "allocated" {
				is.A, is.U, is.V = dm(T, n), dm(T, n), dm(T, n)
			}
			return is
		},
		run: func(in []any, opt int, is any) ([]any, error) {
			args := []interface{}{householderBidiagonalization.ComputeU{Value: opt&1 != 0}, householderBidiagonalization.ComputeV{Value: opt&2 != 0}}
			if is != nil {
				args = append(args, is)
			}
			a, u, v, err := householderBidiagonalization.Run(in[0].(ad.Matrix), args...)
			return res(a, u, v), err
		},
	},
	{
		badFirst: true,
		name:     "backSubstitution", nOpts: 1, nFlags: 1, modes: []string{"nil", "allocated"}, nIn: len(algoMats), dim: matDim,
		optStr: func(int) string { return "-" },
		input: func(typ string, k, opt int) []any {
			m, _ := algoMatrix(typ, k, "owning")
			triu(m)
			n, _ := m.Dims()
			b := ad.NullDenseVector(scalarType(typ), n)
			for i := 0; i < n; i++ {
				b.At(i).SetFloat64(float64(i + 1 + k))
			}
			return []any{m, b}
		},
		newIS: func(mode string, flags int, T ad.ScalarType, n int) any {
			is := &backSubstitution.InSitu{}
			if mode == "allocated" {
				is.A, is.X = dm(T, n), ad.NullDenseVector(T, n)
			}
			return is
		},
		run: func(in []any, opt int, is any) ([]any, error) {
			var args []interface{}
			if is != nil {
				args = append(args, is)
			}
			x, err := backSubstitution.Run(in[0].(ad.Matrix), in[1].(ad.Vector), args...)
			return res(x), err
		},
	},
	{
		// InSitu is passed by value and holds the two result matrices only
		badFirst: true,
		name:     "gramSchmidt", nOpts: 1, nFlags: 1, modes: []string{"allocated"}, nIn: len(algoMats), dim: matDim,
		optStr: func(int) string { return "-" }, input: tcMatInput,
		newIS: func(mode string, flags int, T ad.ScalarType, n int) any {
			return &gramSchmidt.InSitu{Q: dm(T, n), R: dm(T, n)}
		},
		run: func(in []any, opt int, is any) ([]any, error) {
			var args []interface{}
			if is != nil {
				args = append(args, *is.(*gramSchmidt.InSitu))
			}
			q, r, err := gramSchmidt.Run(in[0].(ad.Matrix), args...)
			return res(q, r), err
		},
	},
	{
		// the optimizer's InSitu object nests those of qrAlgorithm, cholesky and matrixInverse
		name: "newton", nOpts: 9, nFlags: 1, modes: []string{"nil"}, nIn: len(algoX0), dim: func(int) int { return 2 },
		optStr: func(opt int) string {
			return []string{"RunRoot", "RunCrit", "RunMin"}[opt%3] + ",HessianModification=" + []string{"None", "LDL", "Eigenvalue"}[opt/3]
		},
		input: func(typ string, k, opt int) []any {
			x, _ := algoVector(typ, k, "owning")
			return []any{x}
		},
		newIS: func(mode string, flags int, T ad.ScalarType, n int) any { return &newton.InSitu{} },
		run: func(in []any, opt int, is any) ([]any, error) {
			args := []interface{}{newton.Epsilon{Value: 1e-8}, newton.MaxIterations{Value: 50},
				newton.HessianModification{Value: []string{"None", "LDL", "Eigenvalue"}[opt/3]}}
			if is != nil {
				args = append(args, is)
			}
			var x ad.Vector
			var err error
			switch opt % 3 {
			case 0:
				x, err = newton.RunRoot(gradientAsRoot, in[0].(ad.Vector), args...)
			case 1:
				x, err = newton.RunCrit(objective, in[0].(ad.Vector), args...)
			default:
				x, err = newton.RunMin(objective, in[0].(ad.Vector), args...)
			}
			return res(x), err
		},
	},
}

func findTcAlgo(name string) *tcAlgo {
	for i := range tcAlgos {
		if tcAlgos[i].name == name {
			return &tcAlgos[i]
		}
	}
	return nil
}

func obsList(xs []any) string {
	var sb strings.Builder
	for i, x := range xs {
		if i > 0 {
			sb.WriteString(" | ")
		}
		if isNilResult(x) {
			sb.WriteString("nil")
		} else {
			sb.WriteString(obs(x, true))
		}
	}
	return sb.String()
}

// callOutcome: one call, panics recovered
type callOut struct {
	res  string   // observation of the results right after the call
	comp []string // the same per result component
	objs []any
	err  string // error or panic text ("" = returned normally)
}

func tcCall(a *tcAlgo, in []any, opt int, is any) (o callOut) {
	var rs []any
	var err error
	perr := try(func() { rs, err = a.run(in, opt, is) })
	switch {
	case perr != "":
		o.err = "panic: " + perr
	case err != nil:
		o.err = "error: " + err.Error()
	default:
		o.objs = rs
		o.res = obsList(rs)
		for _, x := range rs {
			o.comp = append(o.comp, obsList([]any{x}))
		}
	}
	return o
}

// sameResults compares the results of a call with InSitu with those of the same call without.
// A component that the call without InSitu does not return (nil: its computation is switched
// off) may come back as the caller's own buffer when the caller allocated one.
func sameResults(with, without callOut) bool {
	if len(with.comp) != len(without.comp) {
		return false
	}
	for i := range with.comp {
		if without.comp[i] != "nil" && with.comp[i] != without.comp[i] {
			return false
		}
	}
	return true
}

func runTCase(cs TCase) (fails []failure, outcome string) {
	a := findTcAlgo(cs.Algo)
	if a == nil {
		return nil, "no-algorithm"
	}
	T := scalarType(cs.Typ)
	is := a.newIS(cs.Mode, cs.Flags, T, a.dim(cs.In1))
	in1 := a.input(cs.Typ, cs.In1, cs.Opt1)
	in2 := a.input(cs.Typ, cs.In2, cs.Opt2)
	b1, b2 := obsList(in1), obsList(in2)
	descr := func() string {
		return fmt.Sprintf("%s (%s) with one InSitu object (buffers initially %s, flags %d): call 1 on input %d with options {%s}, call 2 on input %d with options {%s}",
			cs.Algo, cs.Typ, cs.Mode, cs.Flags, cs.In1, a.optStr(cs.Opt1), cs.In2, a.optStr(cs.Opt2))
	}
	key := func(what string) string { return fmt.Sprintf("twocall|%s|buffers=%s|%s", cs.Algo, cs.Mode, what) }
	// reference: the same calls without InSitu, on fresh inputs
	f1 := tcCall(a, a.input(cs.Typ, cs.In1, cs.Opt1), cs.Opt1, nil)
	f2 := tcCall(a, a.input(cs.Typ, cs.In2, cs.Opt2), cs.Opt2, nil)

	// ---- call 1
	if a.prep != nil {
		a.prep(is, in1, cs.Flags)
	}
	c1 := tcCall(a, in1, cs.Opt1, is)
	if s := obsList(in1); s != b1 {
		fails = append(fails, failure{key("input-modified"), fmt.Sprintf("%s: call 1 changed its own input from %s to %s", descr(), b1, s)})
	}
	loud := c1.err != ""
	if c1.err == "" && f1.err == "" && !sameResults(c1, f1) {
		fails = append(fails, failure{key("result-differs-from-call-without-InSitu|call=1"),
			fmt.Sprintf("%s: call 1 returned %s, the same call without InSitu %s", descr(), c1.res, f1.res)})
	}
	// ---- call 2
	if a.prep != nil {
		a.prep(is, in2, cs.Flags)
	}
	c2 := tcCall(a, in2, cs.Opt2, is)
	if s := obsList(in1); s != b1 {
		fails = append(fails, failure{key("first-input-modified-by-second-call"),
			fmt.Sprintf("%s: the input of call 1 changed from %s to %s during call 2", descr(), b1, s)})
	}
	if s := obsList(in2); s != b2 {
		fails = append(fails, failure{key("input-modified"), fmt.Sprintf("%s: call 2 changed its own input from %s to %s", descr(), b2, s)})
	}
	loud = loud || c2.err != ""
	if c2.err == "" && f2.err == "" && !sameResults(c2, f2) {
		fails = append(fails, failure{key("result-differs-from-call-without-InSitu|call=2"),
			fmt.Sprintf("%s: call 2 returned %s, the same call without InSitu %s", descr(), c2.res, f2.res)})
	}
	if cs.In1 >= a.nIn && cs.In2 < a.nIn && c2.err != "" && f2.err == "" {
		// the second input is admissible and the call succeeds with fresh buffers: the failure
		// is what the first (failed / inadmissible) call left in the caller's InSitu object
		fails = append(fails, failure{key("second-call-fails-after-inadmissible-first-call"),
			fmt.Sprintf("%s: call 1 ended with {%s}; call 2 ended with {%s}, the same call without InSitu returns %s", descr(), c1.err, c2.err, f2.res)})
	}
	if (c1.err == "") != (f1.err == "") || (c2.err == "") != (f2.err == "") {
		// a loud failure that only occurs with / without the InSitu object is recorded as
		// an outcome class: the caller is told
		loud = true
	}
	if len(fails) > 0 {
		return fails, "fail"
	}
	switch {
	case loud:
		return nil, "loud-failure(error/panic):" + cs.Algo
	case c1.objs != nil && obsList(c1.objs) != c1.res:
		return nil, "ok(first-results-overwritten:results-alias-buffers)"
	}
	return nil, "ok(first-results-stable)"
}

func enumTCases(thorough bool, emit func(TCase)) {
	for ai := range tcAlgos {
		a := &tcAlgos[ai]
		typs := []string{"Float64", "Real64"}
		if thorough {
			typs = append(typs, "Float32", "Real32")
		}
		for _, typ := range typs {
			for _, mode := range a.modes {
				for flags := 0; flags < a.nFlags; flags++ {
					for o1 := 0; o1 < a.nOpts; o1++ {
						for o2 := 0; o2 < a.nOpts; o2++ {
							nFirst := a.nIn
							if a.badFirst {
								nFirst += len(algoBadMats)
							}
							for i := 0; i < nFirst; i++ {
								for j := 0; j < a.nIn; j++ {
									if i == j || a.dim(i) != a.dim(j) {
										continue
									}
									emit(TCase{Algo: a.name, Typ: typ, In1: i, In2: j, Opt1: o1, Opt2: o2, Flags: flags, Mode: mode})
								}
							}
						}
					}
				}
			}
		}
	}
}
