package main

import (
	"fmt"
	"strings"

	ad "github.com/pbenner/autodiff"
)

// Read-only operand check: every container/scalar operation snapshots all non-receiver
// operands (and the objects owning their storage) before the call and compares after.

type RCase struct {
	Op   string `json:"op"`
	Recv Desc   `json:"receiver"`
	Args []Desc `json:"operands"`
	Key  string `json:"key"`
}

func bits(n int) int { return 1<<n - 1 }

// operand configurations: owning and slice views, with and without zeros
func vecConfigs(typ string, n int, rich bool) []Desc {
	var L []Desc
	masks := []int{bits(n)}
	if n >= 2 {
		masks = append(masks, bits(n)&0b0101)
	}
	for _, sto := range []string{"dense", "sparse"} {
		for _, mk := range masks {
			L = append(L, Desc{Kind: "vector", Sto: sto, Typ: typ, N: n, Mask: mk})
			if isReal(typ) && mk == bits(n) {
				L = append(L, Desc{Kind: "vector", Sto: sto, Typ: typ, N: n, Mask: mk, Order: 2})
			}
			// slice of a longer vector, with a nonzero neighbour outside
			L = append(L, Desc{Kind: "vector", Sto: sto, Typ: typ, N: n + 1, Mask: mk<<1 | 1, Sl: []int{1, n + 1}})
			if rich {
				L = append(L, Desc{Kind: "vector", Sto: sto, Typ: typ, N: n + 1, Mask: mk | 1<<n, Sl: []int{0, n}})
			}
		}
		// zero-valued elements that carry derivative information only
		if isReal(typ) {
			mk := bits(n) & 0b0101
			if n == 1 {
				mk = 0
			}
			for dz := 1; dz <= 3; dz++ {
				L = append(L, Desc{Kind: "vector", Sto: sto, Typ: typ, N: n, Mask: mk, Dz: dz})
				L = append(L, Desc{Kind: "vector", Sto: sto, Typ: typ, N: n + 1, Mask: mk<<1 | 1, Dz: dz, Sl: []int{1, n + 1}})
			}
		}
	}
	return L
}

func matConfigs(typ string, r, c int, rich bool) []Desc {
	var L []Desc
	for _, sto := range []string{"dense", "sparse"} {
		full := bits(r * c)
		masks := []int{full}
		if r*c >= 2 {
			masks = append(masks, full&0b101101)
		}
		for _, mk := range masks {
			L = append(L, Desc{Kind: "matrix", Sto: sto, Typ: typ, R: r, C: c, Mask: mk})
			if isReal(typ) && mk == full {
				L = append(L, Desc{Kind: "matrix", Sto: sto, Typ: typ, R: r, C: c, Mask: mk, Order: 1})
			}
			// transposed view of a c x r base
			L = append(L, Desc{Kind: "matrix", Sto: sto, Typ: typ, R: c, C: r, Mask: mk, Path: []Step{{Op: "T"}}})
			if rich || mk == full {
				// slice of an (r+1)x(c+1) base whose other cells are nonzero
				big := bits((r + 1) * (c + 1))
				L = append(L, Desc{Kind: "matrix", Sto: sto, Typ: typ, R: r + 1, C: c + 1, Mask: big, Path: []Step{{Op: "S", A: [4]int{1, r + 1, 1, c + 1}}}})
				L = append(L, Desc{Kind: "matrix", Sto: sto, Typ: typ, R: c + 1, C: r + 1, Mask: big, Path: []Step{{Op: "S", A: [4]int{0, c, 0, r}}, {Op: "T"}}})
			}
		}
		// zero-valued elements that carry derivative information only
		if isReal(typ) {
			mk := full & 0b101101
			if r*c == 1 {
				mk = 0
			}
			for dz := 1; dz <= 3; dz++ {
				L = append(L, Desc{Kind: "matrix", Sto: sto, Typ: typ, R: r, C: c, Mask: mk, Dz: dz})
				L = append(L, Desc{Kind: "matrix", Sto: sto, Typ: typ, R: c, C: r, Mask: mk, Dz: dz, Path: []Step{{Op: "T"}}})
			}
		}
	}
	return L
}

func scalarConfigs(rich bool) []Desc {
	var L []Desc
	for _, t := range typeNames {
		L = append(L, Desc{Kind: "scalar", Sto: "-", Typ: t, Val: 2})
		if isReal(t) {
			L = append(L, Desc{Kind: "scalar", Sto: "-", Typ: t, Val: 2, Order: 1})
			L = append(L, Desc{Kind: "scalar", Sto: "-", Typ: t, Val: 2, Order: 2})
			for dz := 1; dz <= 3; dz++ {
				L = append(L, Desc{Kind: "scalar", Sto: "-", Typ: t, Val: 0, Dz: dz})
			}
		}
	}
	for _, t := range constTypeNames {
		L = append(L, Desc{Kind: "scalar", Sto: "-", Typ: t, Val: 2})
	}
	return L
}

// ---- the operations -----------------------------------------------------------------------

var vecBin = []string{"VaddV", "VsubV", "VmulV", "VdivV", "VADDV", "VSUBV", "VMULV", "VDIVV"}
var vecSca = []string{"VaddS", "VsubS", "VmulS", "VdivS", "VADDS", "VSUBS", "VMULS", "VDIVS"}
var matBin = []string{"MaddM", "MsubM", "MmulM", "MdivM", "MADDM", "MSUBM", "MMULM", "MDIVM"}
var matSca = []string{"MaddS", "MsubS", "MmulS", "MdivS", "MADDS", "MSUBS", "MMULS", "MDIVS"}

// scalar operations with scalar operands; arity = number of ConstScalar operands
var scalarOps = []struct {
	name  string
	arity int
}{
	{"Set", 1}, {"Min", 2}, {"Max", 2}, {"Abs", 1}, {"Neg", 1}, {"Add", 2}, {"Sub", 2}, {"Mul", 2}, {"Div", 2},
	{"LogAdd", 2}, {"LogSub", 2}, {"Log1pExp", 1}, {"Sigmoid", 1}, {"Pow", 2}, {"Sqrt", 1}, {"Sin", 1}, {"Sinh", 1},
	{"Cos", 1}, {"Cosh", 1}, {"Tan", 1}, {"Tanh", 1}, {"Exp", 1}, {"Log", 1}, {"Log1p", 1}, {"Logistic", 1}, {"Erf", 1},
	{"Erfc", 1}, {"LogErfc", 1}, {"Gamma", 1}, {"Lgamma", 1}, {"Mlgamma", 1}, {"GammaP", 1}, {"BesselI", 1},
	{"Equals", 1}, {"Greater", 1}, {"Smaller", 1},
}

func walkJoint(it interface {
	Ok() bool
	Next()
}) {
	for k := 0; it.Ok() && k < 64; k++ {
		it.Next()
	}
}

// runOp executes op with receiver r and operands a (all rebuilt objects)
func runOp(op string, r any, a []any) {
	if runFuncOp(op, r, a) {
		return
	}
	switch op {
	// ---- vectors
	case "VaddV":
		r.(ad.Vector).VaddV(a[0].(ad.ConstVector), a[1].(ad.ConstVector))
	case "VsubV":
		r.(ad.Vector).VsubV(a[0].(ad.ConstVector), a[1].(ad.ConstVector))
	case "VmulV":
		r.(ad.Vector).VmulV(a[0].(ad.ConstVector), a[1].(ad.ConstVector))
	case "VdivV":
		r.(ad.Vector).VdivV(a[0].(ad.ConstVector), a[1].(ad.ConstVector))
	case "VaddS":
		r.(ad.Vector).VaddS(a[0].(ad.ConstVector), a[1].(ad.ConstScalar))
	case "VsubS":
		r.(ad.Vector).VsubS(a[0].(ad.ConstVector), a[1].(ad.ConstScalar))
	case "VmulS":
		r.(ad.Vector).VmulS(a[0].(ad.ConstVector), a[1].(ad.ConstScalar))
	case "VdivS":
		r.(ad.Vector).VdivS(a[0].(ad.ConstVector), a[1].(ad.ConstScalar))
	case "MdotV":
		r.(ad.Vector).MdotV(a[0].(ad.ConstMatrix), a[1].(ad.ConstVector))
	case "VdotM":
		r.(ad.Vector).VdotM(a[0].(ad.ConstVector), a[1].(ad.ConstMatrix))
	case "Vector.Set":
		r.(ad.Vector).Set(a[0].(ad.ConstVector))
	case "Vector.Equals":
		r.(ad.ConstVector).Equals(a[0].(ad.ConstVector), 1e-8)
		a[0].(ad.ConstVector).Equals(r.(ad.ConstVector), 1e-8)
	case "Vector.AppendVector":
		r.(ad.Vector).AppendVector(a[0].(ad.Vector))
	case "Vector.AppendScalar":
		r.(ad.Vector).AppendScalar(a[0].(ad.Scalar))
	case "Vector.JointIterator":
		walkJoint(r.(ad.Vector).JointIterator(a[0].(ad.ConstVector)))
		walkJoint(r.(ad.Vector).ConstJointIterator(a[0].(ad.ConstVector)))
	// ---- scalar reductions over containers
	case "Vmean":
		r.(ad.Scalar).Vmean(a[0].(ad.ConstVector))
	case "VdotV":
		r.(ad.Scalar).VdotV(a[0].(ad.ConstVector), a[1].(ad.ConstVector))
	case "Vnorm":
		r.(ad.Scalar).Vnorm(a[0].(ad.ConstVector))
	case "Mnorm":
		r.(ad.Scalar).Mnorm(a[0].(ad.ConstMatrix))
	case "Mtrace":
		r.(ad.Scalar).Mtrace(a[0].(ad.ConstMatrix))
	case "SmoothMax":
		T := r.(ad.Scalar).Type()
		r.(ad.Scalar).SmoothMax(a[0].(ad.ConstVector), ad.ConstFloat64(2), [2]ad.Scalar{ad.NullScalar(T), ad.NullScalar(T)})
	case "LogSmoothMax":
		T := r.(ad.Scalar).Type()
		r.(ad.Scalar).LogSmoothMax(a[0].(ad.ConstVector), ad.ConstFloat64(2), [3]ad.Scalar{ad.NullScalar(T), ad.NullScalar(T), ad.NullScalar(T)})
	// ---- matrices
	case "MaddM":
		r.(ad.Matrix).MaddM(a[0].(ad.ConstMatrix), a[1].(ad.ConstMatrix))
	case "MsubM":
		r.(ad.Matrix).MsubM(a[0].(ad.ConstMatrix), a[1].(ad.ConstMatrix))
	case "MmulM":
		r.(ad.Matrix).MmulM(a[0].(ad.ConstMatrix), a[1].(ad.ConstMatrix))
	case "MdivM":
		r.(ad.Matrix).MdivM(a[0].(ad.ConstMatrix), a[1].(ad.ConstMatrix))
	case "MdotM":
		r.(ad.Matrix).MdotM(a[0].(ad.ConstMatrix), a[1].(ad.ConstMatrix))
	case "MaddS":
		r.(ad.Matrix).MaddS(a[0].(ad.ConstMatrix), a[1].(ad.ConstScalar))
	case "MsubS":
		r.(ad.Matrix).MsubS(a[0].(ad.ConstMatrix), a[1].(ad.ConstScalar))
	case "MmulS":
		r.(ad.Matrix).MmulS(a[0].(ad.ConstMatrix), a[1].(ad.ConstScalar))
	case "MdivS":
		r.(ad.Matrix).MdivS(a[0].(ad.ConstMatrix), a[1].(ad.ConstScalar))
	case "Outer":
		r.(ad.Matrix).Outer(a[0].(ad.ConstVector), a[1].(ad.ConstVector))
	case "Matrix.Set":
		r.(ad.Matrix).Set(a[0].(ad.ConstMatrix))
	case "Matrix.Equals":
		r.(ad.ConstMatrix).Equals(a[0].(ad.ConstMatrix), 1e-8)
		a[0].(ad.ConstMatrix).Equals(r.(ad.ConstMatrix), 1e-8)
	case "Matrix.JointIterator":
		walkJoint(r.(ad.Matrix).JointIterator(a[0].(ad.ConstMatrix)))
	default:
		// concrete-typed (capital letter) methods through reflection; if the operand types
		// do not fit the signature the case is not applicable
		if op == strings.ToUpper(op) {
			if _, ok := callM(r, op, a...); !ok {
				panic(notApplicable{})
			}
			return
		}
		// scalar <- scalar operations, "S." prefix
		if !strings.HasPrefix(op, "S.") {
			panic("unknown op " + op)
		}
		c := r.(ad.Scalar)
		x := a[0].(ad.ConstScalar)
		var y ad.ConstScalar
		if len(a) > 1 {
			y = a[1].(ad.ConstScalar)
		}
		t := ad.NullScalar(c.Type())
		switch op[2:] {
		case "Set":
			c.Set(x)
		case "Min":
			c.Min(x, y)
		case "Max":
			c.Max(x, y)
		case "Abs":
			c.Abs(x)
		case "Neg":
			c.Neg(x)
		case "Add":
			c.Add(x, y)
		case "Sub":
			c.Sub(x, y)
		case "Mul":
			c.Mul(x, y)
		case "Div":
			c.Div(x, y)
		case "LogAdd":
			c.LogAdd(x, y, t)
		case "LogSub":
			c.LogSub(x, y, t)
		case "Log1pExp":
			c.Log1pExp(x)
		case "Sigmoid":
			c.Sigmoid(x, t)
		case "Pow":
			c.Pow(x, y)
		case "Sqrt":
			c.Sqrt(x)
		case "Sin":
			c.Sin(x)
		case "Sinh":
			c.Sinh(x)
		case "Cos":
			c.Cos(x)
		case "Cosh":
			c.Cosh(x)
		case "Tan":
			c.Tan(x)
		case "Tanh":
			c.Tanh(x)
		case "Exp":
			c.Exp(x)
		case "Log":
			c.Log(x)
		case "Log1p":
			c.Log1p(x)
		case "Logistic":
			c.Logistic(x)
		case "Erf":
			c.Erf(x)
		case "Erfc":
			c.Erfc(x)
		case "LogErfc":
			c.LogErfc(x)
		case "Gamma":
			c.Gamma(x)
		case "Lgamma":
			c.Lgamma(x)
		case "Mlgamma":
			c.Mlgamma(x, 2)
		case "GammaP":
			c.GammaP(1.5, x)
		case "BesselI":
			c.BesselI(1.0, x)
		case "Equals":
			c.Equals(x, 1e-8)
		case "Greater":
			c.Greater(x)
		case "Smaller":
			c.Smaller(x)
		default:
			panic("unknown scalar op " + op)
		}
	}
}

type notApplicable struct{}

func argDesc(d Desc) string { return d.Sto + "/" + d.class() }

// storedEntries counts the explicitly stored entries of an owning sparse container through
// the public API (sparse vector Reduce visits stored entries only). It is NOT part of the
// observable state compared by the oracle (explicit zeros are a representation detail);
// it feeds an informational counter only.
func storedEntries(d Desc, o any) int {
	if d.Sto != "sparse" || d.class() != "owning" {
		return -1
	}
	n := 0
	count := func(r ad.Scalar, x ad.ConstScalar) ad.Scalar { n++; return r }
	if try(func() {
		switch v := o.(type) {
		case ad.Matrix:
			v.AsVector().Reduce(count, ad.NullScalar(ad.Float64Type))
		case ad.Vector:
			v.Reduce(count, ad.NullScalar(ad.Float64Type))
		default:
			n = -1
		}
	}) != "" {
		return -1
	}
	return n
}

var explicitZeroCreated = map[string]int64{}

// refObs: the full observation (element reads AND const-iterator sequence) of a freshly built,
// never operated-on instance of d and of its parent. build is deterministic, so this is what
// an untouched operand looks like; taking it from a second instance keeps the iterator walk
// (which compacts sparse containers) away from the operand before the operation under test.
var refObsCache = map[string][2]string{}

func refObs(d Desc) [2]string {
	k := d.Kind + "|" + d.String()
	if r, ok := refObsCache[k]; ok {
		return r
	}
	w := build(d)
	r := [2]string{obs(w.obj, true), obs(w.parent, true)}
	refObsCache[k] = r
	return r
}

func runRCase(cs RCase) (fails []failure, outcome string) {
	recv := build(cs.Recv).obj
	args := make([]any, len(cs.Args))
	worlds := make([]world, len(cs.Args))
	before := make([][2]string, len(cs.Args))
	for i, d := range cs.Args {
		worlds[i] = build(d)
		if worlds[i].err != "" {
			return nil, "operand-view-unbuildable"
		}
		args[i] = worlds[i].obj
		// element reads only: see obsElems
		before[i] = [2]string{obsElems(worlds[i].obj), obsElems(worlds[i].parent)}
	}
	entries := make([]int, len(cs.Args))
	for i, d := range cs.Args {
		entries[i] = storedEntries(d, worlds[i].obj)
	}
	na := false
	perr := ""
	func() {
		defer func() {
			if r := recover(); r != nil {
				if _, ok := r.(notApplicable); ok {
					na = true
					return
				}
				perr = fmt.Sprint(r)
				if perr == "" {
					perr = "panic"
				}
			}
		}()
		runOp(cs.Op, recv, args)
	}()
	if na {
		return nil, "n/a"
	}
	outcome = "unchanged"
	if perr != "" {
		outcome = "op-panic"
	}
	for i, d := range cs.Args {
		if e := storedEntries(d, worlds[i].obj); e >= 0 && entries[i] >= 0 && e != entries[i] {
			explicitZeroCreated[cs.Op+"|operand-"+string(rune('a'+i))]++
		}
		a0, a1 := obsElems(worlds[i].obj), obsElems(worlds[i].parent)
		if a0 == before[i][0] && a1 == before[i][1] {
			// then the full observation against an untouched instance
			before[i] = refObs(d)
			a0, a1 = obs(worlds[i].obj, true), obs(worlds[i].parent, true)
		}
		if a0 != before[i][0] || a1 != before[i][1] {
			which := string(rune('a' + i))
			key := fmt.Sprintf("readonly|%s|recv=%s|modified=%s:%s/%s", cs.Op, cs.Recv.Sto, which, d.Kind, argDesc(d))
			what := fmt.Sprintf("%s with receiver %v changed its read-only operand %s = %v: before %s (parent %s), after %s (parent %s)",
				cs.Op, cs.Recv, which, d, before[i][0], before[i][1], a0, a1)
			if perr != "" {
				what += " (call panicked: " + perr + ")"
			}
			fails = append(fails, failure{key, what})
			outcome = "fail"
		}
	}
	return fails, outcome
}

// enumRCases enumerates all read-only operand cases
func enumRCases(thorough bool, emit func(RCase)) {
	for _, typ := range typeNames {
		recvVec := func(sto string, n int) Desc {
			return Desc{Kind: "vector", Sto: sto, Typ: typ, N: n, Mask: bits(n) & 0b110}
		}
		recvMat := func(sto string, r, c int) Desc {
			return Desc{Kind: "matrix", Sto: sto, Typ: typ, R: r, C: c, Mask: bits(r*c) & 0b011011}
		}
		scal := Desc{Kind: "scalar", Sto: "-", Typ: typ, Val: 2}
		for _, rsto := range []string{"dense", "sparse"} {
			for _, n := range []int{2, 3} {
				if n == 3 && !thorough {
					continue
				}
				vcs := vecConfigs(typ, n, thorough)
				// operands of another element type as well (derivatives must survive)
				other := "Real64"
				if typ == "Real64" {
					other = "Float32"
				}
				vcx := append(append([]Desc{}, vcs...), vecConfigs(other, n, false)...)
				for _, a := range vcx {
					for _, b := range vcs {
						for _, op := range vecBin {
							emit(RCase{Op: op, Recv: recvVec(rsto, n), Args: []Desc{a, b}})
						}
					}
					for _, op := range vecSca {
						emit(RCase{Op: op, Recv: recvVec(rsto, n), Args: []Desc{a, scal}})
					}
					for _, op := range []string{"Vector.Set", "Vector.Equals", "Vector.AppendVector", "Vector.JointIterator"} {
						emit(RCase{Op: op, Recv: recvVec(rsto, n), Args: []Desc{a}})
					}
				}
				for _, m := range []int{2, 3} {
					if m == 3 && !thorough {
						continue
					}
					for _, A := range matConfigs(typ, n, m, thorough) {
						for _, b := range vecConfigs(typ, m, false) {
							emit(RCase{Op: "MdotV", Recv: recvVec(rsto, n), Args: []Desc{A, b}})
							emit(RCase{Op: "MDOTV", Recv: recvVec(rsto, n), Args: []Desc{A, b}})
						}
						for _, a := range vecConfigs(typ, n, false) {
							emit(RCase{Op: "VdotM", Recv: recvVec(rsto, m), Args: []Desc{a, A}})
							emit(RCase{Op: "VDOTM", Recv: recvVec(rsto, m), Args: []Desc{a, A}})
						}
					}
				}
			}
			for _, sc := range scalarConfigs(thorough) {
				emit(RCase{Op: "Vector.AppendScalar", Recv: recvVec(rsto, 2), Args: []Desc{sc}})
			}
			// matrices
			shapes := [][2]int{{2, 2}, {1, 2}}
			if thorough {
				shapes = append(shapes, [2]int{2, 3}, [2]int{2, 1})
			}
			for _, sh := range shapes {
				r, c := sh[0], sh[1]
				mcs := matConfigs(typ, r, c, thorough)
				for _, a := range mcs {
					for _, b := range mcs {
						for _, op := range matBin {
							emit(RCase{Op: op, Recv: recvMat(rsto, r, c), Args: []Desc{a, b}})
						}
					}
					for _, op := range matSca {
						emit(RCase{Op: op, Recv: recvMat(rsto, r, c), Args: []Desc{a, scal}})
					}
					for _, op := range []string{"Matrix.Set", "Matrix.Equals", "Matrix.JointIterator"} {
						emit(RCase{Op: op, Recv: recvMat(rsto, r, c), Args: []Desc{a}})
					}
					// a (r x c) . b (c x r) -> r x r
					for _, b := range matConfigs(typ, c, r, false) {
						emit(RCase{Op: "MdotM", Recv: recvMat(rsto, r, r), Args: []Desc{a, b}})
						emit(RCase{Op: "MDOTM", Recv: recvMat(rsto, r, r), Args: []Desc{a, b}})
					}
				}
				for _, a := range vecConfigs(typ, r, false) {
					for _, b := range vecConfigs(typ, c, false) {
						emit(RCase{Op: "Outer", Recv: recvMat(rsto, r, c), Args: []Desc{a, b}})
						emit(RCase{Op: "OUTER", Recv: recvMat(rsto, r, c), Args: []Desc{a, b}})
					}
				}
			}
		}
		// scalar reductions
		for _, a := range vecConfigs(typ, 2, thorough) {
			for _, op := range []string{"Vmean", "Vnorm", "SmoothMax", "LogSmoothMax"} {
				emit(RCase{Op: op, Recv: scal, Args: []Desc{a}})
			}
			for _, b := range vecConfigs(typ, 2, false) {
				emit(RCase{Op: "VdotV", Recv: scal, Args: []Desc{a, b}})
			}
		}
		for _, A := range matConfigs(typ, 2, 2, thorough) {
			emit(RCase{Op: "Mnorm", Recv: scal, Args: []Desc{A}})
			emit(RCase{Op: "Mtrace", Recv: scal, Args: []Desc{A}})
		}
		// operations with a function argument (funcops.go)
		enumFuncRCases(typ, thorough, emit)
		// scalar <- scalar
		scs := scalarConfigs(thorough)
		for _, op := range scalarOps {
			for _, x := range scs {
				if op.arity == 1 {
					emit(RCase{Op: "S." + op.name, Recv: scal, Args: []Desc{x}})
					continue
				}
				for _, y := range scs {
					if !thorough && x.Typ != y.Typ && x.Typ != typ && y.Typ != typ {
						continue
					}
					emit(RCase{Op: "S." + op.name, Recv: scal, Args: []Desc{x, y}})
				}
			}
		}
	}
}
