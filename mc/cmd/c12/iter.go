package main

import (
	"fmt"
	"strings"

	ad "github.com/pbenner/autodiff"
)

// Iterator clones: a clone taken at position k continues exactly like the original and
// walking either of them does not move the other.

type ICase struct {
	D    Desc   `json:"object"`
	Kind string `json:"iterator"` // Iterator | ConstIterator | JointIterator | ...
	Via  string `json:"clone"`    // interface clone method or the concrete Clone
	K    int    `json:"position"`
	Key  string `json:"key"`
}

// itA adapts the eight iterator interfaces
type itA struct {
	ok    func() bool
	next  func()
	pos   func() string
	clone func(via string) *itA
}

func sc(s ad.ConstScalar) string {
	if s == nil {
		return "nil"
	}
	return fmt.Sprint(s.GetFloat64())
}

func reflClone(x any) any {
	if out, ok := callM(x, "Clone"); ok {
		return out[0].Interface()
	}
	return nil
}

func adapt(x any) *itA {
	switch it := x.(type) {
	case ad.VectorJointIterator:
		return &itA{it.Ok, it.Next, func() string { a, b := it.GetConst(); return fmt.Sprint(it.Index(), sc(a), sc(b)) },
			func(via string) *itA {
				switch via {
				case "CloneJointIterator":
					return adapt(it.CloneJointIterator())
				case "CloneConstJointIterator":
					if c, ok := x.(ad.VectorConstJointIterator); ok {
						return adapt(c.CloneConstJointIterator())
					}
				case "Clone":
					return adapt(reflClone(x))
				}
				return nil
			}}
	case ad.VectorConstJointIterator:
		return &itA{it.Ok, it.Next, func() string { a, b := it.GetConst(); return fmt.Sprint(it.Index(), sc(a), sc(b)) },
			func(via string) *itA {
				switch via {
				case "CloneConstJointIterator":
					return adapt(it.CloneConstJointIterator())
				case "Clone":
					return adapt(reflClone(x))
				}
				return nil
			}}
	case ad.VectorMagicIterator:
		return &itA{it.Ok, it.Next, func() string { return fmt.Sprint(it.Index(), sc(it.GetConst())) },
			func(via string) *itA {
				switch via {
				case "CloneMagicIterator":
					return adapt(it.CloneMagicIterator())
				case "CloneIterator":
					if c, ok := x.(ad.VectorIterator); ok {
						return adapt(c.CloneIterator())
					}
				case "CloneConstIterator":
					if c, ok := x.(ad.VectorConstIterator); ok {
						return adapt(c.CloneConstIterator())
					}
				case "Clone":
					return adapt(reflClone(x))
				}
				return nil
			}}
	case ad.VectorIterator:
		return &itA{it.Ok, it.Next, func() string { return fmt.Sprint(it.Index(), sc(it.GetConst())) },
			func(via string) *itA {
				switch via {
				case "CloneIterator":
					return adapt(it.CloneIterator())
				case "CloneConstIterator":
					if c, ok := x.(ad.VectorConstIterator); ok {
						return adapt(c.CloneConstIterator())
					}
				case "Clone":
					return adapt(reflClone(x))
				}
				return nil
			}}
	case ad.VectorConstIterator:
		return &itA{it.Ok, it.Next, func() string { return fmt.Sprint(it.Index(), sc(it.GetConst())) },
			func(via string) *itA {
				switch via {
				case "CloneConstIterator":
					return adapt(it.CloneConstIterator())
				case "Clone":
					return adapt(reflClone(x))
				}
				return nil
			}}
	case ad.MatrixJointIterator:
		return &itA{it.Ok, it.Next, func() string { a, b := it.GetConst(); i, j := it.Index(); return fmt.Sprint(i, j, sc(a), sc(b)) },
			func(via string) *itA {
				switch via {
				case "CloneJointIterator":
					return adapt(it.CloneJointIterator())
				case "CloneConstJointIterator":
					if c, ok := x.(ad.MatrixConstJointIterator); ok {
						return adapt(c.CloneConstJointIterator())
					}
				case "Clone":
					return adapt(reflClone(x))
				}
				return nil
			}}
	case ad.MatrixConstJointIterator:
		return &itA{it.Ok, it.Next, func() string { a, b := it.GetConst(); i, j := it.Index(); return fmt.Sprint(i, j, sc(a), sc(b)) },
			func(via string) *itA {
				switch via {
				case "CloneConstJointIterator":
					return adapt(it.CloneConstJointIterator())
				case "Clone":
					return adapt(reflClone(x))
				}
				return nil
			}}
	case ad.MatrixMagicIterator:
		return &itA{it.Ok, it.Next, func() string { i, j := it.Index(); return fmt.Sprint(i, j, sc(it.GetConst())) },
			func(via string) *itA {
				switch via {
				case "CloneMagicIterator":
					return adapt(it.CloneMagicIterator())
				case "CloneIterator":
					if c, ok := x.(ad.MatrixIterator); ok {
						return adapt(c.CloneIterator())
					}
				case "CloneConstIterator":
					if c, ok := x.(ad.MatrixConstIterator); ok {
						return adapt(c.CloneConstIterator())
					}
				case "Clone":
					return adapt(reflClone(x))
				}
				return nil
			}}
	case ad.MatrixIterator:
		return &itA{it.Ok, it.Next, func() string { i, j := it.Index(); return fmt.Sprint(i, j, sc(it.GetConst())) },
			func(via string) *itA {
				switch via {
				case "CloneIterator":
					return adapt(it.CloneIterator())
				case "CloneConstIterator":
					if c, ok := x.(ad.MatrixConstIterator); ok {
						return adapt(c.CloneConstIterator())
					}
				case "Clone":
					return adapt(reflClone(x))
				}
				return nil
			}}
	case ad.MatrixConstIterator:
		return &itA{it.Ok, it.Next, func() string { i, j := it.Index(); return fmt.Sprint(i, j, sc(it.GetConst())) },
			func(via string) *itA {
				switch via {
				case "CloneConstIterator":
					return adapt(it.CloneConstIterator())
				case "Clone":
					return adapt(reflClone(x))
				}
				return nil
			}}
	}
	return nil
}

var iterKinds = []string{"Iterator", "ConstIterator", "IteratorFrom", "JointIterator", "ConstJointIterator", "MagicIterator"}
var iterVias = []string{"CloneIterator", "CloneConstIterator", "CloneJointIterator", "CloneConstJointIterator", "CloneMagicIterator", "Clone"}

func makeIter(o any, kind string) any {
	switch v := o.(type) {
	case ad.Vector:
		other := opVec(v.ElementType(), v.Dim(), 1)
		if v.Dim() > 0 {
			other.At(0).Reset()
		}
		switch kind {
		case "Iterator":
			return v.Iterator()
		case "ConstIterator":
			return v.ConstIterator()
		case "IteratorFrom":
			return v.IteratorFrom(v.Dim() / 2)
		case "JointIterator":
			return v.JointIterator(other)
		case "ConstJointIterator":
			return v.ConstJointIterator(other)
		case "MagicIterator":
			if m, ok := o.(ad.MagicVector); ok {
				return m.MagicIterator()
			}
		}
	case ad.Matrix:
		n, m := v.Dims()
		other := opMat(v.ElementType(), n, m, 1)
		if n > 0 && m > 0 {
			other.At(0, 0).Reset()
		}
		switch kind {
		case "Iterator":
			return v.Iterator()
		case "ConstIterator":
			return v.ConstIterator()
		case "IteratorFrom":
			return v.IteratorFrom(n/2, 0)
		case "JointIterator":
			return v.JointIterator(other)
		case "MagicIterator":
			if mm, ok := o.(ad.MagicMatrix); ok {
				return mm.MagicIterator()
			}
		}
	}
	return nil
}

const walkBound = 24

func walk(it *itA) (seq []string) {
	for k := 0; it.ok(); k++ {
		if k > walkBound {
			return append(seq, "NONTERM")
		}
		seq = append(seq, it.pos())
		it.next()
	}
	return seq
}

func runICase(cs ICase) (fails []failure, outcome string) {
	d := cs.D
	mk := func() (*itA, int) {
		w := build(d)
		x := makeIter(w.obj, cs.Kind)
		if x == nil {
			return nil, 0
		}
		it := adapt(x)
		if it == nil {
			return nil, 0
		}
		k := 0
		for ; k < cs.K && it.ok(); k++ {
			it.next()
		}
		return it, k
	}
	key := func(what string) string {
		return fmt.Sprintf("iter-clone|%s|%s|%s|%s|%s|%s", d.Kind, d.Sto, viewClass(d), cs.Kind, cs.Via, what)
	}
	var out []failure
	perr := try(func() {
		// reference: what the original yields from position K on
		ref, k := mk()
		if ref == nil || k < cs.K {
			outcome = "n/a"
			return
		}
		want := walk(ref)
		// (1) walking the clone: same sequence, original does not move
		it, _ := mk()
		c := it.clone(cs.Via)
		if c == nil {
			outcome = "n/a"
			return
		}
		okBefore := it.ok()
		posBefore := ""
		if okBefore {
			posBefore = it.pos()
		}
		got := walk(c)
		if strings.Join(got, ";") != strings.Join(want, ";") {
			out = append(out, failure{key("sequence"), fmt.Sprintf("%s of %s of %v at position %d yields %v, the original yields %v", cs.Via, cs.Kind, d, cs.K, got, want)})
		}
		if it.ok() != okBefore || (okBefore && it.pos() != posBefore) {
			out = append(out, failure{key("moves-original"), fmt.Sprintf("walking the %s of %s of %v (position %d) moved the original", cs.Via, cs.Kind, d, cs.K)})
		} else if rest := walk(it); strings.Join(rest, ";") != strings.Join(want, ";") {
			out = append(out, failure{key("disturbs-original"), fmt.Sprintf("after walking the %s of %s of %v (position %d) the original yields %v instead of %v", cs.Via, cs.Kind, d, cs.K, rest, want)})
		}
		// (2) walking the original does not move the clone
		it2, _ := mk()
		c2 := it2.clone(cs.Via)
		walk(it2)
		if got := walk(c2); strings.Join(got, ";") != strings.Join(want, ";") {
			out = append(out, failure{key("clone-follows-original"), fmt.Sprintf("after walking the original, the %s of %s of %v (position %d) yields %v instead of %v", cs.Via, cs.Kind, d, cs.K, got, want)})
		}
		if outcome == "" {
			outcome = fmt.Sprintf("ok:len=%d", len(want))
		}
	})
	if perr != "" {
		if d.class() == "owning" {
			return []failure{{key("panic"), fmt.Sprintf("%s/%s of %v at position %d panics: %s", cs.Kind, cs.Via, d, cs.K, perr)}}, "fail"
		}
		return nil, "panic-on-view"
	}
	if len(out) > 0 {
		return out, "fail"
	}
	return nil, outcome
}
