// C12: copies are independent and read-only inputs are left unchanged.
//
// Explicit-state exploration of small containers (dense/sparse vectors n<=3 with all zero
// patterns and all slices; dense/sparse matrices <=2x3 with all view states reachable by
// Slice/T to fixpoint; scalars of all 16 types with order 0/1/2 content; iterators). For
// every state every copy constructor is taken, observational equality is checked, then
// every mutation of the alphabet is applied to one side (thorough: every ordered pair on
// every side combination for the Clone family) and the other side must be observably
// unchanged. Read-only operands of every container/scalar operation are snapshotted
// before and compared after the call. interleave.go: callback interleaving of operations on
// copy and source (state shared only DURING an operation); twocall.go: two-call histories of
// the algorithm entry points sharing one caller-supplied InSitu object. derived.go: derived
// observations (vectorisation, transpose, sub-views, serialisation, iterators from a cell,
// operand roles) of every (source, copy) pair; selfread.go: pure reads leave every object
// state unchanged (snapshots through element reads only, zero-valued cells carrying
// derivatives only). iterhist.go: iterator clones after container mutations between advancing and
// cloning (and the AVL tree iterator itself); funcops.go: operations with a function argument
// (Jacobian, Hessian, MapSet, Reduce) over a lattice of operand derivative states. optslice.go: the
// caller's option slice handed over as Run(x, opts...) is unchanged up to its capacity and a second
// call with the same slice gives the same result.
package main

import (
	"encoding/json"
	"fmt"
	"hash/fnv"
	"os"
	"runtime"
	"strings"

	ad "github.com/pbenner/autodiff"
	"verif/mc/vf"
)

type Case struct {
	Kind  string     `json:"check"` // indep | readonly | iter | algo | append | interleave | twocall
	Indep *IndepCase `json:"indep,omitempty"`
	R     *RCase     `json:"readonly,omitempty"`
	I     *ICase     `json:"iter,omitempty"`
	A     *ACase     `json:"algo,omitempty"`
	X     *XCase     `json:"interleave,omitempty"`
	T     *TCase     `json:"twocall,omitempty"`
	S     *SCase     `json:"selfread,omitempty"`
	Dv    *DCase     `json:"derived,omitempty"`
	IH    *IHCase    `json:"iterhist,omitempty"`
	AV    *AVCase    `json:"avliter,omitempty"`
	OS    *OCase     `json:"optslice,omitempty"`
	Di    *DistCase  `json:"dist,omitempty"`
	Key   string     `json:"key"`
}

type hkey struct {
	rows, cols, ro, rm, co, cm int
	tr                         bool
	t1, t2                     int
	shared                     bool
	oi, oj                     int
	mtr                        bool
}

// matrixStates: all view paths of an RxC base, BFS to fixpoint over Slice (all bounds) and
// T; distinct by implementation header + model window (as in C10)
func matrixStates(sto, typ string, R, C int) [][]Step {
	type st struct {
		path               []Step
		v                  ad.Matrix
		oi, oj, rows, cols int
		tr                 bool
	}
	base := newMat(sto, typ, R, C)
	for k := 0; k < R*C; k++ {
		base.At(k/C, k%C).SetFloat64(float64(k + 1))
	}
	defer runtime.KeepAlive(base) // its storage address is compared below: keep it from being reused
	bs := ad.VerifHeader(base).Storage
	key := func(s *st) hkey {
		h := ad.VerifHeader(s.v)
		return hkey{h.Rows, h.Cols, h.RowOffset, h.RowMax, h.ColOffset, h.ColMax, h.Transposed, h.Tmp1, h.Tmp2, h.Storage == bs, s.oi, s.oj, s.tr}
	}
	s0 := &st{v: base, rows: R, cols: C}
	seen := map[hkey]bool{key(s0): true}
	out := [][]Step{nil}
	frontier := []*st{s0}
	for len(frontier) > 0 {
		var next []*st
		for _, s := range frontier {
			var ts []Step
			ts = append(ts, Step{Op: "T"})
			for r0 := 0; r0 <= s.rows; r0++ {
				for r1 := r0; r1 <= s.rows; r1++ {
					for c0 := 0; c0 <= s.cols; c0++ {
						for c1 := c0; c1 <= s.cols; c1++ {
							ts = append(ts, Step{Op: "S", A: [4]int{r0, r1, c0, c1}})
						}
					}
				}
			}
			for _, t := range ts {
				n := &st{oi: s.oi, oj: s.oj, tr: s.tr, rows: s.rows, cols: s.cols}
				if try(func() {
					if t.Op == "T" {
						n.v = s.v.T()
					} else {
						n.v = s.v.Slice(t.A[0], t.A[1], t.A[2], t.A[3])
					}
				}) != "" {
					continue // a failing view constructor is C10's subject
				}
				if t.Op == "T" {
					n.tr = !s.tr
					n.rows, n.cols = s.cols, s.rows
				} else {
					if s.tr {
						n.oi, n.oj = s.oi+t.A[2], s.oj+t.A[0]
					} else {
						n.oi, n.oj = s.oi+t.A[0], s.oj+t.A[2]
					}
					n.rows, n.cols = t.A[1]-t.A[0], t.A[3]-t.A[2]
				}
				k := key(n)
				if seen[k] {
					continue
				}
				seen[k] = true
				n.path = append(append([]Step{}, s.path...), t)
				out = append(out, n.path)
				next = append(next, n)
			}
		}
		frontier = next
	}
	return out
}

func enumDescs(thorough bool, emit func(Desc)) {
	orders := func(typ string) []int {
		if isReal(typ) {
			return []int{0, 1, 2}
		}
		return []int{0}
	}
	// scalars
	for _, t := range typeNames {
		for _, o := range orders(t) {
			emit(Desc{Kind: "scalar", Sto: "-", Typ: t, Val: 3, Order: o})
		}
		emit(Desc{Kind: "scalar", Sto: "-", Typ: t, Val: 0})
		if isReal(t) {
			for dz := 1; dz <= 3; dz++ {
				emit(Desc{Kind: "scalar", Sto: "-", Typ: t, Val: 0, Dz: dz})
			}
		}
	}
	for _, t := range constTypeNames {
		emit(Desc{Kind: "scalar", Sto: "-", Typ: t, Val: 3})
	}
	// vectors: all lengths <= 3, all zero patterns, all slices
	for _, sto := range []string{"dense", "sparse"} {
		for _, typ := range typeNames {
			for n := 0; n <= 3; n++ {
				for mask := 0; mask < 1<<n; mask++ {
					for _, o := range orders(typ) {
						if o > 0 && mask != bits(n) && mask != bits(n)&0b101 {
							continue
						}
						emit(Desc{Kind: "vector", Sto: sto, Typ: typ, N: n, Mask: mask, Order: o})
						for i := 0; i <= n; i++ {
							for j := i; j <= n; j++ {
								if i == 0 && j == n && n > 0 && !thorough {
									continue
								}
								emit(Desc{Kind: "vector", Sto: sto, Typ: typ, N: n, Mask: mask, Order: o, Sl: []int{i, j}})
							}
						}
					}
					// zero-valued cells that carry derivative information only
					if !isReal(typ) || mask == bits(n) {
						continue
					}
					if !thorough && mask != 0 && mask != bits(n)&0b101 && mask != bits(n)&0b010 {
						continue
					}
					for dz := 1; dz <= 3; dz++ {
						emit(Desc{Kind: "vector", Sto: sto, Typ: typ, N: n, Mask: mask, Dz: dz})
						for i := 0; i <= n; i++ {
							for j := i + 1; j <= n; j++ {
								if i == 0 && j == n && !thorough {
									continue
								}
								emit(Desc{Kind: "vector", Sto: sto, Typ: typ, N: n, Mask: mask, Dz: dz, Sl: []int{i, j}})
							}
						}
					}
				}
			}
		}
	}
	// matrices: all view states of bases <= 2x3
	shapes := [][2]int{{1, 1}, {1, 2}, {2, 1}, {2, 2}, {1, 3}, {2, 3}}
	if thorough {
		shapes = append(shapes, [2]int{3, 1}, [2]int{3, 2})
	}
	for _, sto := range []string{"dense", "sparse"} {
		for _, typ := range typeNames {
			for _, sh := range shapes {
				R, C := sh[0], sh[1]
				paths := matrixStates(sto, typ, R, C)
				full := bits(R * C)
				for _, p := range paths {
					for _, mo := range [][2]int{{full, 0}, {full & 0b011101, 0}, {full, 1}, {full, 2}} {
						if mo[1] > 0 && !isReal(typ) {
							continue
						}
						if mo[0] != full && R*C == 1 {
							continue
						}
						if mo[1] > 0 && len(p) > 1 && !thorough {
							continue // derivative content on nested views: thorough only
						}
						emit(Desc{Kind: "matrix", Sto: sto, Typ: typ, R: R, C: C, Mask: mo[0], Order: mo[1], Path: p})
					}
					// zero-valued cells that carry derivative information only
					if isReal(typ) && (len(p) <= 1 || thorough) {
						masks := []int{full & 0b011101, 0}
						if !thorough {
							// quick: one zero pattern; non-empty views only
							masks = masks[:1]
							if R*C == 1 {
								masks = []int{0}
							}
							if len(p) == 1 && p[0].Op == "S" && (p[0].A[0] == p[0].A[1] || p[0].A[2] == p[0].A[3]) {
								masks = nil
							}
						}
						for _, mask := range masks {
							if mask == full {
								continue
							}
							for dz := 1; dz <= 3; dz++ {
								emit(Desc{Kind: "matrix", Sto: sto, Typ: typ, R: R, C: C, Mask: mask, Dz: dz, Path: p})
							}
						}
					}
				}
			}
		}
	}
}

// pairScope bounds the objects on which every ORDERED PAIR of mutations is applied
// (thorough): vectors with the full / alternating zero pattern, unsliced or sliced at one
// end; matrices <= 2x2 (and 1x3) that are owning or one view step away from their base.
func pairScope(d Desc) bool {
	switch d.Kind {
	case "scalar":
		return true
	case "vector":
		if d.Mask != bits(d.N) && d.Mask != bits(d.N)&0b101 {
			return false
		}
		if d.Sl == nil {
			return true
		}
		return (d.Sl[0] == 1 && d.Sl[1] == d.N) || (d.Sl[0] == 0 && d.Sl[1] == d.N-1)
	case "matrix":
		return len(d.Path) <= 1 && d.R*d.C <= 4 && d.Mask == bits(d.R*d.C)
	}
	return false
}

func isEmpty(d Desc) bool {
	w := build(d)
	switch v := w.obj.(type) {
	case ad.ConstVector:
		return v.Dim() == 0
	case ad.ConstMatrix:
		n, m := v.Dims()
		return n == 0 || m == 0
	}
	return false
}

type runner struct {
	c        *vf.Ctx
	idx      int64
	outcomes map[string]int64
}

func (r *runner) report(cs Case, rank int64, fails []failure, outcome string) {
	r.c.Eval(1)
	r.outcomes[cs.Kind+":"+outcome]++
	for _, f := range fails {
		cs.Key = f.key
		r.c.Violate(f.key, f.what, rank, cs)
	}
}

func descRank(d Desc) int64 {
	return int64(len(d.Path))*100000 + int64(d.N+d.R*d.C)*1000 + int64(d.Order)*100 + int64(len(d.Sl))*10 + int64(d.Dz)
}

func run(c *vf.Ctx) {
	r := &runner{c: c, outcomes: map[string]int64{}}
	defer func() {
		for k, v := range r.outcomes {
			c.Count("outcome:"+k, v)
			c.Outcome(k)
		}
		for k, v := range explicitZeroCreated {
			c.Count("info:stored-entry-count-of-readonly-sparse-operand-changed:"+k, v)
		}
	}()
	thorough := c.Thorough()
	nontrivial := int64(0)
	// development aid: VERIF_C12_PARTS=twocall,interleave runs only the named parts (the
	// evidence then says exhaustive:false)
	only := os.Getenv("VERIF_C12_PARTS")
	want := func(part string) bool {
		if only == "" {
			return true
		}
		c.Cap("VERIF_C12_PARTS=" + only)
		return strings.Contains(","+only+",", ","+part+",")
	}

	// ---- copy independence
	nStates, nTrans := int64(0), int64(0)
	defer func() {
		if c.Shard == 0 {
			c.States(nStates)
		}
		c.Trans(nTrans)
		c.Traces(nTrans)
	}()
	enumDescs(thorough, func(d Desc) {
		if !want("indep") {
			return
		}
		nStates++
		cts := ctors(d, thorough)
		for ci := range cts {
			ct := &cts[ci]
			r.idx++
			if !c.Mine(r.idx) {
				continue
			}
			c.Guard("indep|"+d.Kind+"|"+ct.name, descRank(d), d)
			cs := Case{Kind: "indep", Indep: &IndepCase{D: d, Ctor: ct.name}}
			fails, out := runIndepFast(d, ct, nil)
			r.report(cs, descRank(d), fails, out)
			if r.idx%40009 == 0 {
				c.Sample(map[string]any{"check": "indep", "object": d.String(), "ctor": ct.name, "outcome": out})
			}
			if len(fails) > 0 || out != "equal" {
				continue
			}
			// mutation lists for both sides
			w := build(d)
			var cp any
			if try(func() { cp = ct.f(w.obj) }) != "" || cp == nil {
				continue
			}
			mS, mC := mutations(w.obj, len(d.Path) == 0), mutations(cp, len(d.Path) == 0)
			lists := map[string][]mutation{"src": mS, "copy": mC}
			sawIndependent := false
			for _, side := range []string{"src", "copy"} {
				L := lists[side]
				for mi := range L {
					mu := &L[mi]
					cs := Case{Kind: "indep", Indep: &IndepCase{D: d, Ctor: ct.name, Muts: []string{mu.name}, Sides: []string{side}}}
					fails, out := runIndepFast(d, ct, []mutStep{{side, mu}})
					r.report(cs, descRank(d)+1, fails, out)
					nTrans++
					if out == "independent" {
						sawIndependent = true
					}
				}
			}
			if sawIndependent {
				nontrivial++
			}
			// thorough: every ordered pair of mutations on every side combination, for the
			// constructors that promise a full deep copy
			if thorough && ct.full && !isEmpty(d) && d.Order != 1 && pairScope(d) {
				for _, s1 := range []string{"src", "copy"} {
					for _, s2 := range []string{"src", "copy"} {
						for i1 := range lists[s1] {
							for i2 := range lists[s2] {
								m1, m2 := &lists[s1][i1], &lists[s2][i2]
								cs := Case{Kind: "indep", Indep: &IndepCase{D: d, Ctor: ct.name, Muts: []string{m1.name, m2.name}, Sides: []string{s1, s2}}}
								fails, out := runIndepFast(d, ct, []mutStep{{s1, m1}, {s2, m2}})
								r.report(cs, descRank(d)+2, fails, out)
								nTrans += 2
							}
						}
					}
				}
			}
		}
	})

	// ---- dense slice, append on the slice, read the parent (classified, see report)
	if c.Shard == 0 && want("indep") {
		appendProbe(r)
	}

	// ---- derived observations of every (source, copy) pair
	defer cleanupDerived()
	enumDescs(thorough, func(d Desc) {
		if !want("derived") {
			return
		}
		// (the cost of a state varies by orders of magnitude with its shape and the enumeration
		// is periodic: spread the states over the shards by a hash of the descriptor)
		h := fnv.New32a()
		h.Write([]byte(d.Kind + d.String()))
		if !c.Mine(int64(h.Sum32())) {
			return
		}
		if w := build(d); w.err != "" {
			return
		}
		var src [2]map[string]string
		for _, ct := range ctors(d, thorough) {
			k := 0
			if ct.full {
				k = 1
			}
			if src[k] == nil {
				src[k] = derivedMap(d, ct.full)
			}
			cs := DCase{D: d, Ctor: ct.name}
			c.Guard("derived|"+ct.name, descRank(d), cs)
			fails, out := runDCase(cs, src[k])
			r.report(Case{Kind: "derived", Dv: &cs}, descRank(d), fails, out)
			if out == "equal" {
				nontrivial++
			}
		}
	})

	// ---- pure reads of every object state
	enumSCases(thorough, func(cs SCase) {
		if !want("selfread") {
			return
		}
		r.idx++
		if !c.Mine(r.idx) {
			return
		}
		c.Guard("selfread|"+cs.Read, descRank(cs.D), cs)
		fails, out := runSCase(cs)
		cc := cs
		r.report(Case{Kind: "selfread", S: &cc}, descRank(cs.D), fails, out)
		if out == "unchanged" {
			nontrivial++
		}
	})

	// ---- read-only operands
	funcOps := map[string]int64{}
	defer func() {
		for k, v := range funcOps {
			c.Count("readonly:function-argument-op:"+k, v)
		}
	}()
	enumRCases(thorough, func(cs RCase) {
		if !want("readonly") {
			return
		}
		r.idx++
		if !c.Mine(r.idx) {
			return
		}
		c.Guard("readonly|"+cs.Op, 0, cs)
		fails, out := runRCase(cs)
		if out == "n/a" {
			return
		}
		rk := int64(len(cs.Args))
		for _, a := range cs.Args {
			rk += descRank(a)
		}
		cc := cs
		r.report(Case{Kind: "readonly", R: &cc}, rk, fails, out)
		if strings.Contains(cs.Op, "/f=") || strings.HasSuffix(cs.Op, ".Reduce") {
			funcOps[cs.Op+":"+out]++
		}
		if r.idx%20011 == 0 {
			c.Sample(map[string]any{"check": "readonly", "op": cs.Op, "receiver": cs.Recv.String(), "operands": fmt.Sprint(cs.Args), "outcome": out})
		}
		if out == "unchanged" {
			nontrivial++
		}
	})

	// ---- iterator clones
	enumDescs(false, func(d Desc) {
		if d.Kind == "scalar" || d.Order > 0 || d.Dz > 0 || !want("iter") {
			return
		}
		if d.Kind == "matrix" && (len(d.Path) > 1 || d.Mask != bits(d.R*d.C)) && !thorough {
			return // iterator clones on nested views / zero patterns of matrices: thorough only
		}
		for _, kind := range iterKinds {
			for _, via := range iterVias {
				for k := 0; k <= 3; k++ {
					r.idx++
					if !c.Mine(r.idx) {
						continue
					}
					cs := ICase{D: d, Kind: kind, Via: via, K: k}
					c.Guard("iter|"+kind, descRank(d)+int64(k), cs)
					fails, out := runICase(cs)
					if out == "n/a" {
						continue
					}
					r.report(Case{Kind: "iter", I: &cs}, descRank(d)+int64(k), fails, out)
					if strings.HasPrefix(out, "ok:len=") && out != "ok:len=0" {
						nontrivial++
					}
				}
			}
		}
	})

	// ---- iterator clones after a history: container mutations between advancing and cloning
	nIHStates, nIHCases := int64(0), int64(0)
	ihBy := map[string]int64{}
	defer func() {
		for k, v := range ihBy {
			c.Count("iterhist:cases:"+k, v)
		}
	}()
	ihDescs(thorough, func(d Desc) {
		if !want("iterhist") {
			return
		}
		nIHStates++
		enumIHUnits(d, thorough, func(u IHUnit) {
			r.idx++
			if !c.Mine(r.idx) {
				return
			}
			c.Guard("iterhist|"+u.Kind, descRank(d)+int64(u.K), IHCase{D: u.D, Other: u.Other, Kind: u.Kind, K: u.K})
			if !ihReachable(u.D, u.Other, u.Kind, u.K) {
				return
			}
			for _, ms := range u.Muts {
				cs := IHCase{D: u.D, Other: u.Other, Kind: u.Kind, K: u.K, Muts: ms}
				ref, perr := ihReference(cs)
				if perr != "" || ref == nil {
					ref = nil // let the case runner meet (and classify) the panic itself
				}
				for _, via := range u.Vias {
					for _, when := range u.Whens {
						cc := cs
						cc.Via, cc.When = via, when
						fails, out := runIHCaseRef(cc, ref)
						if out == "n/a" {
							continue
						}
						nIHCases++
						ihBy[d.Kind+":"+d.Sto+":"+viewClass(d)]++
						r.report(Case{Kind: "iterhist", IH: &cc}, descRank(d)+int64(10*len(ms)+u.K), fails, out)
						if out == "ok" {
							nontrivial++
						}
						if nIHCases%20011 == 0 {
							c.Sample(map[string]any{"check": "iterhist", "object": d.String(), "iterator": u.Kind, "clone": via, "position": u.K, "mutations": fmt.Sprint(ms), "when": when, "outcome": out})
						}
					}
				}
			}
		})
	})
	if c.Shard == 0 {
		c.Count("iterhist:containers", nIHStates)
	}
	// ---- the AVL tree iterator itself (it underlies every sparse iterator)
	if want("iterhist") {
		var trees int64
		enumAVCases(thorough, func(cs AVCase) {
			r.idx++
			if !c.Mine(r.idx) {
				return
			}
			if r.idx%1024 == 0 {
				c.Guard("iterhist|avl", int64(100*len(cs.Keys)), cs)
			}
			fails, out := runAVCase(cs)
			if out == "n/a" {
				return
			}
			cc := cs
			r.report(Case{Kind: "avliter", AV: &cc}, int64(100*len(cs.Keys)+10*len(cs.Muts)+cs.K), fails, out)
			if out == "ok" {
				nontrivial++
			}
		}, &trees)
		if c.Shard == 0 {
			c.Count("iterhist:avl-trees", trees)
		}
	}

	// ---- representative algorithm entry points
	enumACases(thorough, func(cs ACase) {
		if !want("algo") {
			return
		}
		r.idx++
		if !c.Mine(r.idx) {
			return
		}
		c.Guard("algo|"+cs.Algo, int64(cs.In), cs)
		fails, out := runAlgo(cs)
		cc := cs
		r.report(Case{Kind: "algo", A: &cc}, int64(cs.Dst*100+cs.In*10+cs.Opt), fails, out)
		if out == "unchanged" {
			nontrivial++
		}
	})

	// ---- two-call histories sharing one InSitu object
	enumTCases(thorough, func(cs TCase) {
		if !want("twocall") {
			return
		}
		r.idx++
		if !c.Mine(r.idx) {
			return
		}
		c.Guard("twocall|"+cs.Algo, int64(cs.In1), cs)
		fails, out := runTCase(cs)
		cc := cs
		r.report(Case{Kind: "twocall", T: &cc}, int64((cs.In1+cs.In2)*100+cs.Opt1*10+cs.Opt2+cs.Flags), fails, out)
		if strings.HasPrefix(out, "ok") {
			nontrivial++
		}
		if r.idx%1009 == 0 {
			c.Sample(map[string]any{"check": "twocall", "algorithm": cs.Algo, "type": cs.Typ, "buffers": cs.Mode, "flags": cs.Flags, "inputs": []int{cs.In1, cs.In2}, "options": []int{cs.Opt1, cs.Opt2}, "outcome": out})
		}
	})

	// ---- the caller's option slice: Run(x, opts...) with a slice the caller keeps
	enumOCases(thorough, func(cs OCase) {
		if !want("optslice") {
			return
		}
		r.idx++
		if !c.Mine(r.idx) {
			return
		}
		c.Guard("optslice|"+cs.Algo, int64(cs.In), cs)
		fails, out := runOCase(cs)
		if out == "n/a" {
			return
		}
		cc := cs
		r.report(Case{Kind: "optslice", OS: &cc}, int64(cs.In*10000+cs.Opt*100+cs.Order*10+cs.Spare), fails, out)
		if out == "ok" {
			nontrivial++
		}
		if r.idx%499 == 0 {
			c.Sample(map[string]any{"check": "optslice", "entry_point": cs.Algo, "type": cs.Typ, "input": cs.In, "option_set": cs.Opt, "arrangement": cs.Order, "spare_capacity": cs.Spare, "outcome": out})
		}
	})

	// ---- parametrised objects: scalar distributions and the caller's parameter objects (dist.go)
	di := 0
	enumDistCases(func(cs DistCase) {
		if !want("dist") {
			return
		}
		r.idx++
		di++
		if !c.Mine(r.idx) {
			return
		}
		fails, out := runDistCase(cs)
		cc := cs
		r.report(Case{Kind: "dist", Di: &cc}, int64(di), fails, out)
		if out == "ok" {
			nontrivial++
		}
	})

	// ---- callback interleaving: O2 on one side fired inside every interposable call of O1 on the other
	if want("interleave") {
		nontrivial += exploreInterleave(r, thorough)
	}
	c.Nontrivial(nontrivial)
}

// appendProbe: a dense vector slice is a Go slice with spare capacity; AppendScalar /
// AppendVector on it may write into the parent beyond the view. The parent is not an
// operand of the call and the caller created the alias, so this is recorded as an outcome
// class, not as a violation (see the report).
func appendProbe(r *runner) {
	for _, sto := range []string{"dense", "sparse"} {
		for _, typ := range typeNames {
			for _, op := range []string{"AppendScalar", "AppendVector"} {
				d := Desc{Kind: "vector", Sto: sto, Typ: typ, N: 3, Mask: 0b111, Sl: []int{0, 2}}
				w := build(d)
				before := obs(w.parent, true)
				sBefore := obs(w.obj, true)
				T := scalarType(typ)
				try(func() {
					if op == "AppendScalar" {
						w.obj.(ad.Vector).AppendScalar(ad.NewScalar(T, 9))
					} else {
						w.obj.(ad.Vector).AppendVector(opVec(T, 1, 0))
					}
				})
				out := "parent-unchanged"
				if obs(w.parent, true) != before {
					out = "parent-overwritten-beyond-slice"
				}
				if obs(w.obj, true) != sBefore {
					out += "+receiver-changed"
				}
				r.c.Eval(1)
				r.outcomes["append:"+sto+":"+op+":"+out]++
			}
		}
	}
}

func main() {
	vf.Main(vf.Spec{
		ID:    "C12",
		Level: "model_checking",
		Rule: "explicit-state enumeration of containers (dense/sparse vectors n<=3: every zero pattern, every Slice(i,j); dense/sparse matrices <=2x3: every view state reachable by Slice/T to fixpoint, keyed by implementation header + model window; " +
			"scalars of all 16 types with order 0/1/2 content) x every copy constructor (Clone*, Clone{Vector,Matrix,Scalar}, CloneConst*, CloneMagic*, AsDense*/AsSparse*/AsSparseConst* to other element types and storage classes) x every single mutation of the mutation alphabet on either side " +
			"(thorough: every ordered pair on every side combination for the deep-copy constructors); iterator clones at every position; read-only operand snapshots around every vector/matrix/scalar operation with owning/slice/transposed dense/sparse operands; " +
			"callback interleaving: for (source, copy) pairs of vectors n<=3 / matrices 2x2 (owning, transposed, sliced; all 9 element types, both storage classes) x copy constructors with a mutable result (quick: Clone family and same-type As*, thorough: all) x receiver side x every operation O1 of {MdotM(w,w), MdotM(w,recv), MdotM(recv,w), MaddM, MmulM, MsubS, Set, Outer, Map, MapSet, Reduce | VaddV, VmulV, VsubS, MdotV, VdotM, Set, Map, MapSet, Reduce} whose container operands are counting ConstMatrix/ConstVector wrappers x every operation O2 of the mutation alphabet on the other side x EVERY call index k of the wrappers / callbacks: O2 is fired inside the k-th call; " +
			"two-call histories sharing one InSitu object for qrAlgorithm, svd, eigensystem, cholesky, matrixInverse, determinant, hessenbergReduction, householder{Tri,Bi}diagonalization, backSubstitution, gramSchmidt, newton: every ordered pair of option sets x InSitu flag combination x buffers initially nil / caller-allocated x every ordered pair of different inputs of equal dimension x {Float64, Real64}; " +
			"content lattice of Real-typed objects includes zero-valued cells that carry derivatives only (value 0 with a gradient; value 0, zero gradient, Hessian non-zero on the diagonal only / off the diagonal only) in the independence, pure-read and read-only-operand parts, snapshots before an operation are taken through element reads only (no iterator walk); " +
			"derived observations of every (object state, copy constructor) pair: AsVector/AsConstVector multiset, T, T.T, T.AsVector, every Slice/ConstSlice window (contents, transpose, vectorisation), rows/columns/diagonal, JSON and Export/Import round trips, String/Table, iterators started at every cell, joint iterators, clone of the copy, and the results of 10 operations with the object as operand, copy against source; " +
			"pure reads (selfread): ~35 read operations (iterators from every cell, printing, JSON, Equals, const views, reductions, conversions, operand roles) on every object state must leave object and parent unchanged; " +
			"algorithm inputs: every package under algorithm/ with a container input (22 entry points incl. msqrt, msqrtInv, gramSchmidt, hessenbergReduction, householder*, givensRotation, backSubstitution, blahut, saga x 5 variants, adam x 2); two-call histories additionally with 7 inadmissible first inputs (singular, indefinite, non-finite) for the direct methods; " +
			"iterator clones after a history (iterhist): containers = sparse vectors n<=4 (Float64/Real64: n<=5; thorough: n<=5, Float64/Real64/Int16 n<=6) and dense vectors n<=3 (thorough 4) with EVERY zero pattern, sparse ones filled in ascending, descending and (>=5 entries) middle-out order (right-heavy / left-heavy / balanced index trees), slices; matrices 2x2 (sparse also 1x3; sparse Float64/Real64 also 2x3 with 4 or 6 entries; thorough: all of 1x2..2x3, every pattern), owning, and T and Slice views (quick: <=4 cells, three zero patterns; thorough: every shape, every pattern up to 4 cells, three patterns of 2x3); all 9 element types; x iterator kind {Iterator, ConstIterator, IteratorFrom, JointIterator, ConstJointIterator (second operand dense and sparse), MagicIterator} x every position K the iterator can be advanced to x every single mutation {write a value to position p (absent: new entry), write zero to p, write zero to p and purge by a full const-iterator walk, Swap(p,q), SwapRows, SwapColumns; all p,q} of the container / the object owning its storage / the second operand (thorough: every ordered pair on owning containers with <=4 cells, Float64/Real64) x every clone method of the kind, the mutation placed between advancing and cloning (thorough: also between cloning and walking); reference = the never-cloned source iterator after the same history in an identically built instance; " +
			"the AVL tree iterator itself: every distinct tree (shape, balance, keys) over <=5 keys of {0..5} (thorough <=6 of {0..6}) x Iterator / IteratorFrom(every key) / SafeIterator x every position x every single Insert(absent)/Delete(present) and every ordered pair of them (trees <=4 keys; thorough: all) x mutation before / after Clone(); " +
			"operations with a FUNCTION argument in the read-only-operand part: Jacobian(f,x) and Hessian(f,x) with receivers of all 9 element types, both storage classes, owning and transposed, n=1..3, x f in {builds a new result, returns (an element of) its argument, returns an object the caller holds (also snapshotted)} x operands x of {Real64, Real32} x {dense, sparse} whose derivative state is: order 0 (full / alternating pattern), order 1 and order 2 content with non-trivial entries over 1, 2 and 3 variables, Variables(1) / Variables(2) already called by the caller, zero cells carrying derivatives only, slices of a longer vector with derivative-carrying neighbours; MapSet whose callback returns a scalar the caller holds; Reduce over every operand configuration; optimizers with an objective callback (rprop, bfgs, newton x 3, gradientDescent, adam) with Real64 start vectors of order 0, order 1 over 3 variables, order 2 over 1 variable and order 2 over dim variables; snapshots compare value, order, N, every derivative and every Hessian entry; " +
			"parametrised objects (dist): 13 scalar distribution families with all-scalar constructors x {Float64, Real64} x 3 parameter points x {owned vector, slice of a longer vector}: constructor scalars / SetParameters vector overwritten by the caller afterwards, earlier argument vector unchanged by later calls, CloneScalarPdf independence under SetParameters, LogPdf evaluation point unchanged - differential against an object fed private copies; " +
			"the caller's option slice (optslice): every entry point under algorithm/ taking `args ...interface{}` (27: matrixInverse, determinant, cholesky, qrAlgorithm, svd, eigensystem, hessenbergReduction, householder{Bi,Tri}diagonalization, backSubstitution, gramSchmidt, gaussJordan, msqrt, msqrtInv, blahut.Run/RunNaive, rprop.Run/RunGradient, bfgs, newton.RunRoot/RunCrit/RunMin, gradientDescent, adam.Run/RunGradient, saga, lineSearch) called as Run(x, opts...) with a slice the caller keeps x every option set of the algorithm-input and two-call parts extended by the *InSitu object and by the options forwarded to the nested algorithm (gaussJordan.Submatrix through matrixInverse, qrAlgorithm.Epsilon through eigensystem) x every rotation of the option list and of its reversal (all permutations up to 3 options) x spare capacity 0 / 4 (thorough: 0 / 1 / 4; filled with sentinels) x {Float64, Real64} x every input; the slice is compared up to its capacity (dynamic type, scalar content, identity of pointers / functions / backing arrays, scalar fields behind non-InSitu pointers) after each of two calls, and the second call with the same slice on an identically built input must end like the first and return the same results; " +
			"a case is non-trivial if the mutation changed its target (indep), the call returned (readonly/selfread/algo/twocall), the slice held at least one option and both calls returned (optslice), at least one derived observation was comparable and all agreed (derived), the iterator had elements left (iter), the mutation changed the container and the source iterator still had elements left afterwards (iterhist), or O2 was fired inside O1 and changed the other side (interleave)",
		Assume: []string{
			"observable state = public read API (dims, every element value/order/N/derivatives/Hessian, const-iterator sequence); explicit zero entries of sparse containers are not observable; an element with value 0 and no non-zero derivative is the same observable value whatever order/N it is allocated with (sparse containers may drop it)",
			"AsVector/AsConstVector promise all elements in unspecified order: compared as multisets; derived observations a source itself cannot deliver (panic) and operations a const container type does not implement are not compared",
			"gaussJordan and the Apply* helpers of householder/givensRotation work in their arguments by definition; lineSearch has no container input: not in the inputs-unchanged part",
			"two-call histories: a second call on an admissible input that fails only because an earlier call with the same InSitu object failed or had an inadmissible input is a violation (the caller's buffers are work space); other loud-only-with/without-InSitu differences stay an outcome class",
			"As-conversions to another element type promise values only; same-type As and the Clone family promise derivatives too",
			"a view constructor or conversion that panics on a sliced/transposed source is counted (outcome ctor-panic-on-view), the addressing of views is C10's subject",
			"AppendScalar/AppendVector on a dense slice writing into the parent's spare capacity is Go slice semantics on an alias the caller created: classified as an outcome, not a violation",
			"algorithm inputs: representative set only (C04-C07/C15/C16 check their own inputs)",
			"interleaving: one logical thread of control; the interleaving points are the calls the receiver's operation makes into its operands and callbacks (an operation that type-switches to a concrete fast path makes none and is counted as not-interposable); state shared by a view and its parent (T()/Slice share the scratch vectors by construction) is not in scope",
			"iterator clones after a history: what an iterator yields after its container was mutated under it is NOT specified here (C11/C19); only 'the clone does what its source does' is demanded. Histories after which the source itself panics or does not terminate (joint iterators whose current entry was deleted or swapped away under them) are an outcome class (source-fails-after-history), the clone is then required to fail the same way",
			"a callback's result is an operand of the call that invoked the callback: an object the caller holds and returns from f (Jacobian, Hessian, MapSet) must be unchanged; the accumulator of Reduce is the call's result, not a read-only operand; optimizers that panic or fail on a start vector carrying foreign derivatives (bfgs) are an outcome class, their input must be unchanged all the same",
			"option slice: Go hands `opts...` to the callee without copying; the slice (backing array up to its capacity) is an object of the caller that no in-situ option covers, so any write to it is a violation. An *InSitu object inside the slice is work space (only its identity is compared), the results of the first call are snapshotted before the second",
			"InSitu: no doc comment defines result ownership; the result objects are the exported buffer fields, so first-call results that change during the second call are an outcome class (results-alias-buffers), not a violation; with InitializeH=false the caller (harness) fills H itself before each call; a call that fails loudly (error/panic) only with or only without the InSitu object is an outcome class",
		},
		Run: run,
		Replay: func(c *vf.Ctx, raw json.RawMessage) {
			var cs Case
			if err := json.Unmarshal(raw, &cs); err != nil {
				c.HarnessError(err.Error())
				return
			}
			var fails []failure
			switch cs.Kind {
			case "indep":
				fails, _ = runIndep(*cs.Indep)
			case "readonly":
				fails, _ = runRCase(*cs.R)
			case "iter":
				fails, _ = runICase(*cs.I)
			case "algo":
				fails, _ = runAlgo(*cs.A)
			case "interleave":
				fails, _ = runXCase(*cs.X)
			case "twocall":
				fails, _ = runTCase(*cs.T)
			case "selfread":
				fails, _ = runSCase(*cs.S)
			case "derived":
				fails, _ = runDCase(*cs.Dv, nil)
			case "iterhist":
				fails, _ = runIHCase(*cs.IH)
			case "avliter":
				fails, _ = runAVCase(*cs.AV)
			case "optslice":
				fails, _ = runOCase(*cs.OS)
			case "dist":
				fails, _ = runDistCase(*cs.Di)
			}
			for _, f := range fails {
				if f.key == cs.Key {
					c.Violate(f.key, f.what, 0, cs)
					return
				}
			}
		},
		SoftLimit: nil,
	})
	_ = fmt.Sprint
}
