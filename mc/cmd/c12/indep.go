package main

import (
	"fmt"
	"strings"

	ad "github.com/pbenner/autodiff"
)

// ---- copy constructors -----------------------------------------------------------------

type ctor struct {
	name string
	full bool // the copy must equal the source including derivatives (Clone family, same-type As)
	f    func(o any) any
}

var asConstVec = map[string]func(ad.ConstVector) ad.ConstVector{
	"ConstFloat64": func(v ad.ConstVector) ad.ConstVector { return ad.AsSparseConstFloat64Vector(v) },
	"ConstFloat32": func(v ad.ConstVector) ad.ConstVector { return ad.AsSparseConstFloat32Vector(v) },
	"ConstInt8":    func(v ad.ConstVector) ad.ConstVector { return ad.AsSparseConstInt8Vector(v) },
	"ConstInt16":   func(v ad.ConstVector) ad.ConstVector { return ad.AsSparseConstInt16Vector(v) },
	"ConstInt32":   func(v ad.ConstVector) ad.ConstVector { return ad.AsSparseConstInt32Vector(v) },
	"ConstInt64":   func(v ad.ConstVector) ad.ConstVector { return ad.AsSparseConstInt64Vector(v) },
	"ConstInt":     func(v ad.ConstVector) ad.ConstVector { return ad.AsSparseConstIntVector(v) },
}

// asTargets: element types an As-conversion is taken to
func asTargets(d Desc, thorough bool) []string {
	if thorough {
		return typeNames
	}
	// quick: the same type, the two Real types, one float, one int; matrix view states:
	// the same type, one Real, one int
	set := []string{d.Typ}
	cand := []string{"Real64", "Real32", "Float32", "Int16"}
	if d.Kind == "matrix" && len(d.Path) > 0 {
		cand = []string{"Real32", "Int16"}
	}
	for _, t := range cand {
		if t != d.Typ {
			set = append(set, t)
		}
	}
	return set
}

func ctors(d Desc, thorough bool) []ctor {
	var L []ctor
	reflClone := func(name string) ctor {
		return ctor{name, true, func(o any) any {
			if out, ok := callM(o, name); ok {
				return out[0].Interface()
			}
			return nil
		}}
	}
	switch d.Kind {
	case "scalar":
		L = append(L, reflClone("Clone"), reflClone("CloneConstScalar"))
		if !strings.HasPrefix(d.Typ, "Const") {
			L = append(L, reflClone("CloneScalar"))
		}
		if isReal(d.Typ) {
			L = append(L, reflClone("CloneMagicScalar"))
		}
	case "vector":
		L = append(L, reflClone("Clone"), reflClone("CloneVector"), reflClone("CloneConstVector"))
		if isReal(d.Typ) {
			L = append(L, reflClone("CloneMagicVector"))
		}
		for _, t := range asTargets(d, thorough) {
			t := t
			L = append(L, ctor{"AsDenseVector:" + t, t == d.Typ && d.Sto == "dense", func(o any) any { return ad.AsDenseVector(scalarType(t), o.(ad.ConstVector)) }})
			L = append(L, ctor{"AsSparseVector:" + t, t == d.Typ && d.Sto == "sparse", func(o any) any { return ad.AsSparseVector(scalarType(t), o.(ad.ConstVector)) }})
			if isReal(t) {
				L = append(L, ctor{"AsDenseMagicVector:" + t, t == d.Typ && d.Sto == "dense", func(o any) any { return ad.AsDenseMagicVector(scalarType(t), o.(ad.ConstVector)) }})
				L = append(L, ctor{"AsSparseMagicVector:" + t, t == d.Typ && d.Sto == "sparse", func(o any) any { return ad.AsSparseMagicVector(scalarType(t), o.(ad.ConstVector)) }})
			}
		}
		for _, t := range constTypeNames {
			t := t
			if !thorough && t != "ConstFloat64" && t != "ConstInt16" {
				continue
			}
			L = append(L, ctor{"AsSparseConstVector:" + t, false, func(o any) any { return asConstVec[t](o.(ad.ConstVector)) }})
		}
	case "matrix":
		L = append(L, reflClone("Clone"), reflClone("CloneMatrix"), reflClone("CloneConstMatrix"))
		if isReal(d.Typ) {
			L = append(L, reflClone("CloneMagicMatrix"))
		}
		for _, t := range asTargets(d, thorough) {
			t := t
			L = append(L, ctor{"AsDenseMatrix:" + t, t == d.Typ && d.Sto == "dense", func(o any) any { return ad.AsDenseMatrix(scalarType(t), o.(ad.ConstMatrix)) }})
			L = append(L, ctor{"AsSparseMatrix:" + t, t == d.Typ && d.Sto == "sparse", func(o any) any { return ad.AsSparseMatrix(scalarType(t), o.(ad.ConstMatrix)) }})
			if isReal(t) {
				L = append(L, ctor{"AsDenseMagicMatrix:" + t, t == d.Typ && d.Sto == "dense", func(o any) any { return ad.AsDenseMagicMatrix(scalarType(t), o.(ad.ConstMatrix)) }})
				L = append(L, ctor{"AsSparseMagicMatrix:" + t, t == d.Typ && d.Sto == "sparse", func(o any) any { return ad.AsSparseMagicMatrix(scalarType(t), o.(ad.ConstMatrix)) }})
			}
		}
	}
	return L
}

// ---- mutation alphabet -------------------------------------------------------------------

type mutation struct {
	name string
	f    func(o any)
}

func typOf(o any) ad.ScalarType {
	switch v := o.(type) {
	case ad.ConstVector:
		return v.ElementType()
	case ad.ConstMatrix:
		return v.ElementType()
	case ad.ConstScalar:
		return v.Type()
	}
	panic("typOf")
}

func realScalar(T ad.ScalarType, v float64) ad.Scalar {
	s := ad.NewScalar(T, v)
	setDerivs(s, 2, 2, 5)
	return s
}

func scalarMutations(o any) []mutation {
	s, ok := o.(ad.Scalar)
	if !ok {
		return nil // const scalars are immutable values
	}
	T := s.Type()
	L := []mutation{
		{"SetFloat64", func(o any) { o.(ad.Scalar).SetFloat64(9) }},
		{"SetInt", func(o any) { o.(ad.Scalar).SetInt(8) }},
		{"Reset", func(o any) { o.(ad.Scalar).Reset() }},
		{"Set", func(o any) { o.(ad.Scalar).Set(realScalar(ad.Real64Type, 7)) }},
		{"Add", func(o any) { x := o.(ad.Scalar); x.Add(x, realScalar(T, 3)) }},
		{"Mul", func(o any) { x := o.(ad.Scalar); x.Mul(x, realScalar(T, 3)) }},
		{"Neg", func(o any) { x := o.(ad.Scalar); x.Neg(x) }},
		{"Sub", func(o any) { x := o.(ad.Scalar); x.Sub(realScalar(T, 3), x) }},
	}
	if _, ok := o.(ad.MagicScalar); ok {
		L = append(L,
			mutation{"SetDerivative", func(o any) {
				x := o.(ad.MagicScalar)
				if x.GetOrder() >= 1 && x.GetN() > 0 {
					x.SetDerivative(0, 42)
				}
			}},
			mutation{"SetHessian", func(o any) {
				x := o.(ad.MagicScalar)
				if x.GetOrder() >= 2 && x.GetN() > 1 {
					x.SetHessian(1, 0, 43)
				}
			}},
			mutation{"SetVariable", func(o any) { o.(ad.MagicScalar).SetVariable(1, 2, 2) }},
			mutation{"Alloc", func(o any) { o.(ad.MagicScalar).Alloc(3, 1) }},
			mutation{"ResetDerivatives", func(o any) { o.(ad.MagicScalar).ResetDerivatives() }},
		)
	}
	return L
}

func opVec(T ad.ScalarType, n, seed int) ad.Vector {
	v := ad.NullDenseVector(T, n)
	for i := 0; i < n; i++ {
		v.At(i).SetFloat64(float64(1 + (i+seed)%3))
	}
	return v
}

func opMat(T ad.ScalarType, r, c, seed int) ad.Matrix {
	m := ad.NullDenseMatrix(T, r, c)
	for i := 0; i < r; i++ {
		for j := 0; j < c; j++ {
			m.At(i, j).SetFloat64(float64(1 + (2*i+j+seed)%3))
		}
	}
	return m
}

func vectorMutations(o any) []mutation {
	v0 := o.(ad.Vector)
	n := v0.Dim()
	T := v0.ElementType()
	var L []mutation
	add := func(name string, f func(v ad.Vector)) {
		L = append(L, mutation{name, func(o any) { f(o.(ad.Vector)) }})
	}
	for i := 0; i < n; i++ {
		i := i
		add(fmt.Sprintf("At(%d).SetFloat64", i), func(v ad.Vector) { v.At(i).SetFloat64(9) })
		add(fmt.Sprintf("At(%d).Reset", i), func(v ad.Vector) { v.At(i).Reset() })
		add(fmt.Sprintf("At(%d).Set", i), func(v ad.Vector) { v.At(i).Set(realScalar(ad.Real64Type, 7)) })
		add(fmt.Sprintf("At(%d).Add", i), func(v ad.Vector) { s := v.At(i); s.Add(s, ad.NewScalar(T, 1)) })
	}
	add("Set", func(v ad.Vector) { v.Set(opVec(T, v.Dim(), 0)) })
	add("Reset", func(v ad.Vector) { v.Reset() })
	if n >= 2 {
		add("Swap", func(v ad.Vector) { v.Swap(0, v.Dim()-1) })
		add("Permute", func(v ad.Vector) {
			pi := make([]int, v.Dim())
			for i := range pi {
				pi[i] = (i + 1) % len(pi)
			}
			v.Permute(pi)
		})
		add("ReverseOrder", func(v ad.Vector) { v.ReverseOrder() })
		add("Sort", func(v ad.Vector) { v.Sort(false) })
		add("SortReverse", func(v ad.Vector) { v.Sort(true) })
	}
	add("VaddV", func(v ad.Vector) { v.VaddV(v, opVec(T, v.Dim(), 1)) })
	add("VsubV", func(v ad.Vector) { v.VsubV(opVec(T, v.Dim(), 1), v) })
	add("VmulV", func(v ad.Vector) { v.VmulV(v, opVec(T, v.Dim(), 1)) })
	add("VaddS", func(v ad.Vector) { v.VaddS(v, ad.NewScalar(T, 2)) })
	add("VmulS", func(v ad.Vector) { v.VmulS(v, ad.NewScalar(T, 3)) })
	add("VdivS", func(v ad.Vector) { v.VdivS(v, ad.NewScalar(T, 2)) })
	add("MdotV", func(v ad.Vector) { v.MdotV(opMat(T, v.Dim(), v.Dim(), 0), opVec(T, v.Dim(), 1)) })
	add("VdotM", func(v ad.Vector) { v.VdotM(opVec(T, v.Dim(), 1), opMat(T, v.Dim(), v.Dim(), 0)) })
	add("AppendScalar+write", func(v ad.Vector) {
		r := v.AppendScalar(ad.NewScalar(T, 5))
		for i := 0; i < r.Dim(); i++ {
			r.At(i).SetFloat64(8)
		}
	})
	add("AppendVector+write", func(v ad.Vector) {
		r := v.AppendVector(opVec(T, 2, 0))
		for i := 0; i < r.Dim(); i++ {
			r.At(i).SetFloat64(8)
		}
	})
	add("Map", func(v ad.Vector) { v.Map(func(s ad.Scalar) { s.SetFloat64(s.GetFloat64() + 1) }) })
	add("MapSet", func(v ad.Vector) {
		v.MapSet(func(s ad.ConstScalar) ad.Scalar { return ad.NewScalar(T, s.GetFloat64()+1) })
	})
	add("Iterator.Get.Set", func(v ad.Vector) {
		k := 0
		for it := v.Iterator(); it.Ok() && k < 8; it.Next() {
			it.Get().SetFloat64(6)
			k++
		}
	})
	if n >= 1 {
		add("Slice.Reset", func(v ad.Vector) { v.Slice(0, (v.Dim()+1)/2).Reset() })
		add("Slice.At.Set", func(v ad.Vector) { v.Slice(v.Dim()-1, v.Dim()).At(0).SetFloat64(4) })
		add("AsMatrix.At.Set", func(v ad.Vector) { v.AsMatrix(v.Dim(), 1).At(0, 0).SetFloat64(4) })
	}
	if _, ok := o.(ad.MagicVector); ok {
		addm := func(name string, f func(v ad.MagicVector)) {
			L = append(L, mutation{name, func(o any) { f(o.(ad.MagicVector)) }})
		}
		addm("Variables(1)", func(v ad.MagicVector) { v.Variables(1) })
		addm("Variables(2)", func(v ad.MagicVector) { v.Variables(2) })
		addm("ResetDerivatives", func(v ad.MagicVector) { v.ResetDerivatives() })
		for i := 0; i < n; i++ {
			i := i
			addm(fmt.Sprintf("MagicAt(%d).SetDerivative", i), func(v ad.MagicVector) {
				x := v.MagicAt(i)
				if x.GetOrder() >= 1 && x.GetN() > 0 {
					x.SetDerivative(0, 42)
				}
			})
			addm(fmt.Sprintf("MagicAt(%d).SetHessian", i), func(v ad.MagicVector) {
				x := v.MagicAt(i)
				if x.GetOrder() >= 2 && x.GetN() > 1 {
					x.SetHessian(1, 0, 43)
				}
			})
			addm(fmt.Sprintf("MagicAt(%d).SetVariable", i), func(v ad.MagicVector) { v.MagicAt(i).SetVariable(0, 2, 2) })
		}
		addm("AppendMagicScalar+write", func(v ad.MagicVector) {
			r := v.AppendMagicScalar(realScalar(T, 5).(ad.MagicScalar))
			for i := 0; i < r.Dim(); i++ {
				r.At(i).SetFloat64(8)
			}
		})
	}
	return L
}

func matrixMutations(o any, owning bool) []mutation {
	m0 := o.(ad.Matrix)
	n, m := m0.Dims()
	T := m0.ElementType()
	var L []mutation
	add := func(name string, f func(v ad.Matrix)) {
		L = append(L, mutation{name, func(o any) { f(o.(ad.Matrix)) }})
	}
	for i := 0; i < n; i++ {
		for j := 0; j < m; j++ {
			i, j := i, j
			add(fmt.Sprintf("At(%d,%d).SetFloat64", i, j), func(v ad.Matrix) { v.At(i, j).SetFloat64(9) })
			add(fmt.Sprintf("At(%d,%d).Reset", i, j), func(v ad.Matrix) { v.At(i, j).Reset() })
			add(fmt.Sprintf("At(%d,%d).Set", i, j), func(v ad.Matrix) { v.At(i, j).Set(realScalar(ad.Real64Type, 7)) })
		}
	}
	dims := func(v ad.Matrix) (int, int) { return v.Dims() }
	add("Set", func(v ad.Matrix) { a, b := dims(v); v.Set(opMat(T, a, b, 0)) })
	add("Reset", func(v ad.Matrix) { v.Reset() })
	add("SetIdentity", func(v ad.Matrix) { v.SetIdentity() })
	if n > 0 && m > 0 {
		add("Swap", func(v ad.Matrix) { a, b := dims(v); v.Swap(0, 0, a-1, b-1) })
	}
	if owning {
		// Tip() permutes the whole backing store; on a slice its cycle walk need not even
		// terminate (rows does not divide len(values)), so it is a mutation of owning
		// matrices only
		add("Tip", func(v ad.Matrix) { v.Tip() })
	}
	if n == m && n >= 2 {
		add("SwapRows", func(v ad.Matrix) { a, _ := dims(v); v.SwapRows(0, a-1) })
		add("SwapColumns", func(v ad.Matrix) { a, _ := dims(v); v.SwapColumns(0, a-1) })
		rot := func(k int) []int {
			pi := make([]int, k)
			for i := range pi {
				pi[i] = (i + 1) % k
			}
			return pi
		}
		add("PermuteRows", func(v ad.Matrix) { a, _ := dims(v); v.PermuteRows(rot(a)) })
		add("PermuteColumns", func(v ad.Matrix) { a, _ := dims(v); v.PermuteColumns(rot(a)) })
		add("SymmetricPermutation", func(v ad.Matrix) { a, _ := dims(v); v.SymmetricPermutation(rot(a)) })
	}
	add("MaddM", func(v ad.Matrix) { a, b := dims(v); v.MaddM(v, opMat(T, a, b, 1)) })
	add("MsubM", func(v ad.Matrix) { a, b := dims(v); v.MsubM(opMat(T, a, b, 1), v) })
	add("MmulM", func(v ad.Matrix) { a, b := dims(v); v.MmulM(v, opMat(T, a, b, 1)) })
	add("MaddS", func(v ad.Matrix) { v.MaddS(v, ad.NewScalar(T, 2)) })
	add("MmulS", func(v ad.Matrix) { v.MmulS(v, ad.NewScalar(T, 3)) })
	add("MdivS", func(v ad.Matrix) { v.MdivS(v, ad.NewScalar(T, 2)) })
	add("MdotM", func(v ad.Matrix) { a, b := dims(v); v.MdotM(opMat(T, a, 2, 0), opMat(T, 2, b, 1)) })
	add("Outer", func(v ad.Matrix) { a, b := dims(v); v.Outer(opVec(T, a, 0), opVec(T, b, 1)) })
	add("Map", func(v ad.Matrix) { v.Map(func(s ad.Scalar) { s.SetFloat64(s.GetFloat64() + 1) }) })
	add("MapSet", func(v ad.Matrix) {
		v.MapSet(func(s ad.ConstScalar) ad.Scalar { return ad.NewScalar(T, s.GetFloat64()+1) })
	})
	add("Iterator.Get.Set", func(v ad.Matrix) {
		k := 0
		for it := v.Iterator(); it.Ok() && k < 16; it.Next() {
			it.Get().SetFloat64(6)
			k++
		}
	})
	if n > 0 && m > 0 {
		add("Slice.Reset", func(v ad.Matrix) { a, b := dims(v); v.Slice(0, (a+1)/2, 0, b).Reset() })
		add("Slice.At.Set", func(v ad.Matrix) { a, b := dims(v); v.Slice(a-1, a, b-1, b).At(0, 0).SetFloat64(4) })
		add("T.At.Set", func(v ad.Matrix) { v.T().At(0, 0).SetFloat64(4) })
		add("AsVector.At.Set", func(v ad.Matrix) {
			x := v.AsVector()
			for i := 0; i < x.Dim(); i++ {
				x.At(i).SetFloat64(3)
			}
		})
		add("Row.write", func(v ad.Matrix) { x := v.Row(0); x.At(0).SetFloat64(3) })
	}
	if _, ok := o.(ad.MagicMatrix); ok {
		addm := func(name string, f func(v ad.MagicMatrix)) {
			L = append(L, mutation{name, func(o any) { f(o.(ad.MagicMatrix)) }})
		}
		addm("Variables(1)", func(v ad.MagicMatrix) { v.Variables(1) })
		addm("Variables(2)", func(v ad.MagicMatrix) { v.Variables(2) })
		addm("ResetDerivatives", func(v ad.MagicMatrix) { v.ResetDerivatives() })
		if n > 0 && m > 0 {
			addm("MagicAt.SetDerivative", func(v ad.MagicMatrix) {
				x := v.MagicAt(0, 0)
				if x.GetOrder() >= 1 && x.GetN() > 0 {
					x.SetDerivative(0, 42)
				}
			})
			addm("MagicAt.SetHessian", func(v ad.MagicMatrix) {
				x := v.MagicAt(0, 0)
				if x.GetOrder() >= 2 && x.GetN() > 1 {
					x.SetHessian(1, 0, 43)
				}
			})
			addm("MagicAt.SetVariable", func(v ad.MagicMatrix) { a, b := v.Dims(); v.MagicAt(a-1, b-1).SetVariable(0, 2, 2) })
			// matrix-vector products of Real matrices run through the scratch vectors
			addm("MdotV-scratch", func(v ad.MagicMatrix) {
				a, b := v.Dims()
				r := ad.NullDenseVector(T, a)
				r.MdotV(v, opVec(T, b, 0))
				v.MagicAt(0, 0).SetFloat64(r.Float64At(0))
			})
		}
	}
	return L
}

func mutations(o any, owning bool) []mutation {
	switch o.(type) {
	case ad.Matrix:
		return matrixMutations(o, owning)
	case ad.Vector:
		return vectorMutations(o)
	case ad.ConstScalar:
		return scalarMutations(o)
	}
	return nil
}

func findMutation(o any, owning bool, name string) *mutation {
	for _, m := range mutations(o, owning) {
		if m.name == name {
			m := m
			return &m
		}
	}
	return nil
}

// ---- one independence case ------------------------------------------------------------

// IndepCase: take copy `Ctor` of object `D`; apply mutations Muts[k] to side Sides[k]
// ("src" | "copy"); after each, the side not touched must be observably unchanged (for
// "copy": also the parent that owns the source's storage).
type IndepCase struct {
	D     Desc     `json:"object"`
	Ctor  string   `json:"ctor"`
	Muts  []string `json:"mutations"`
	Sides []string `json:"sides"`
	Key   string   `json:"key"`
}

type failure struct{ key, what string }

func mutBase(name string) string {
	if i := strings.IndexAny(name, "(:"); i >= 0 {
		j := strings.Index(name, ")")
		if j > i {
			return name[:i] + name[j+1:]
		}
		return name[:i]
	}
	return name
}

func ctorBase(name string) string {
	if i := strings.Index(name, ":"); i >= 0 {
		return name[:i]
	}
	return name
}

// ctorFamily folds the constructors that share one implementation: the Clone family
// (Clone, CloneVector, CloneConstVector, CloneMagicVector, ...) and the As conversions by
// target storage class
func ctorFamily(name string) string {
	b := ctorBase(name)
	switch {
	case strings.HasPrefix(b, "Clone"):
		return "Clone*"
	case strings.HasPrefix(b, "AsSparseConst"):
		return "AsSparseConst*"
	case strings.HasPrefix(b, "AsDense"):
		return "AsDense*"
	case strings.HasPrefix(b, "AsSparse"):
		return "AsSparse*"
	}
	return b
}

func viewClass(d Desc) string {
	switch d.class() {
	case "owning", "scalar":
		return d.class()
	}
	return "view"
}

// whatChanged names the part of an observation that differs
func whatChanged(before, after string) string {
	cut := func(s string) string {
		if i := strings.Index(s, " it:"); i >= 0 {
			return s[:i]
		}
		return s
	}
	stripDerivs := func(s string) string {
		var sb strings.Builder
		depth := 0
		for _, r := range s {
			switch {
			case r == '{':
				depth++
			case r == '}':
				depth--
			case depth == 0:
				sb.WriteRune(r)
			}
		}
		return sb.String()
	}
	if stripDerivs(cut(before)) != stripDerivs(cut(after)) {
		return "values"
	}
	if cut(before) != cut(after) {
		return "derivatives"
	}
	return "iterator-sequence"
}

type mutStep struct {
	side string
	mu   *mutation
}

// runIndep resolves the names of a case (replay path) and executes it
func runIndep(cs IndepCase) (fails []failure, outcome string) {
	d := cs.D
	var ct *ctor
	for _, c := range ctors(d, true) {
		if c.name == cs.Ctor {
			c := c
			ct = &c
		}
	}
	if ct == nil {
		return nil, "no-ctor"
	}
	// mutation lists depend on the kind/dims/type of the side they are applied to
	w := build(d)
	var cp any
	if perr := try(func() { cp = ct.f(w.obj) }); perr != "" || cp == nil {
		return runIndepFast(d, ct, nil)
	}
	var seq []mutStep
	for k, mn := range cs.Muts {
		target := w.obj
		if cs.Sides[k] == "copy" {
			target = cp
		}
		mu := findMutation(target, len(d.Path) == 0, mn)
		if mu == nil {
			return nil, "mutation-not-applicable"
		}
		seq = append(seq, mutStep{cs.Sides[k], mu})
	}
	return runIndepFast(d, ct, seq)
}

// runIndepFast executes one case. outcome describes what happened (for vacuity statistics).
func runIndepFast(d Desc, ct *ctor, seq []mutStep) (fails []failure, outcome string) {
	w := build(d)
	var cp any
	isView := d.Sl != nil || len(d.Path) > 0
	// before the constructor runs the source is observed through element reads only (obsElems:
	// no iterator walk, which would compact a sparse source before it is copied); the full
	// observation it is compared with afterwards is that of an untouched second instance
	// (checked once per (object, constructor): in the case without mutations)
	ctorChecks := len(seq) == 0
	var elemsBefore, parentElemsBefore, srcBefore, parentBefore string
	if ctorChecks {
		elemsBefore = obsElems(w.obj)
		if isView {
			parentElemsBefore = obsElems(w.parent)
		}
		ref := refObs(d)
		srcBefore, parentBefore = ref[0], ref[1]
	}
	if perr := try(func() { cp = ct.f(w.obj) }); perr != "" {
		if d.class() == "owning" || d.class() == "scalar" {
			return []failure{{fmt.Sprintf("ctor-panic|%s|%s|%s", d.Kind, d.Sto, ctorFamily(ct.name)), fmt.Sprintf("%s of %v panics: %s", ct.name, d, perr)}}, "ctor-panic"
		}
		return nil, "ctor-panic-on-view" // addressing of views is C10's subject
	}
	if cp == nil {
		return nil, "no-ctor"
	}
	keyPfx := func(kind string) string {
		return fmt.Sprintf("%s|%s|%s|%s|%s", kind, d.Kind, d.Sto, viewClass(d), ctorFamily(ct.name))
	}
	// the constructor must not change its source
	if !ctorChecks {
		// nothing
	} else if s := obsElems(w.obj); s != elemsBefore {
		return []failure{{keyPfx("ctor-modifies-source"), fmt.Sprintf("%s changed its source %v: before %s, after %s", ct.name, d, elemsBefore, s)}}, "fail"
	}
	if s := ""; ctorChecks && isView && func() bool { s = obsElems(w.parent); return s != parentElemsBefore }() {
		return []failure{{keyPfx("ctor-modifies-parent"), fmt.Sprintf("%s changed the parent of its source %v: before %s, after %s", ct.name, d, parentElemsBefore, s)}}, "fail"
	}
	// a deep copy has the elements of its source, also the zero-valued ones that carry
	// derivatives only (compared before any iterator has walked either side)
	if ct.full && len(seq) == 0 {
		if s := obsElems(cp); s != elemsBefore && !strings.Contains(elemsBefore, "PANIC") {
			return []failure{{keyPfx("not-equal"), fmt.Sprintf("%s of %v is not equal to its source: source %s, copy %s", ct.name, d, elemsBefore, s)}}, "fail"
		}
	}
	if !ctorChecks {
		// nothing
	} else if s := obs(w.obj, true); s != srcBefore {
		return []failure{{keyPfx("ctor-modifies-source"), fmt.Sprintf("%s changed its source %v: before %s, after %s", ct.name, d, srcBefore, s)}}, "fail"
	}
	if s := ""; ctorChecks && isView && func() bool { s = obs(w.parent, true); return s != parentBefore }() {
		return []failure{{keyPfx("ctor-modifies-parent"), fmt.Sprintf("%s changed the parent of its source %v: before %s, after %s", ct.name, d, parentBefore, s)}}, "fail"
	}
	// observational equality
	if len(seq) == 0 {
		var a, b string
		if ct.full {
			a, b = obs(w.obj, true), obs(cp, true)
		} else {
			a, b = obsValues(w.obj), obsValues(cp)
		}
		if a != b {
			if strings.Contains(a, "PANIC") {
				return nil, "source-unreadable"
			}
			return []failure{{keyPfx("not-equal"), fmt.Sprintf("%s of %v is not equal to its source: source %s, copy %s", ct.name, d, a, b)}}, "fail"
		}
		return nil, "equal"
	}
	// mutations
	changedAny := false
	names := func(k int) string {
		var sb strings.Builder
		for i := 0; i <= k; i++ {
			fmt.Fprintf(&sb, " %s@%s", seq[i].mu.name, seq[i].side)
		}
		return sb.String()
	}
	for k, st := range seq {
		target, other := w.obj, cp
		if st.side == "copy" {
			target, other = cp, w.obj
		}
		otherBefore := obs(other, true)
		parBefore := ""
		if isView && st.side == "copy" {
			parBefore = obs(w.parent, true)
		}
		targetBefore := obs(target, true)
		perr := try(func() { st.mu.f(target) })
		if obs(target, true) != targetBefore {
			changedAny = true
		}
		if s := obs(other, true); s != otherBefore {
			what := fmt.Sprintf("%s of %v; then%s", ct.name, d, names(k))
			if perr != "" {
				what += " (mutation panicked: " + perr + ")"
			}
			key := keyPfx("shared") + "|" + whatChanged(otherBefore, s)
			return []failure{{key, fmt.Sprintf("%s: the other side changed from %s to %s", what, otherBefore, s)}}, "fail"
		}
		if isView && st.side == "copy" {
			if s := obs(w.parent, true); s != parBefore {
				key := keyPfx("shared-parent") + "|" + whatChanged(parBefore, s)
				return []failure{{key, fmt.Sprintf("%s of %v; then%s: the PARENT of the source changed from %s to %s", ct.name, d, names(k), parBefore, s)}}, "fail"
			}
		}
	}
	if changedAny {
		return nil, "independent"
	}
	return nil, "mutation-no-effect"
}
