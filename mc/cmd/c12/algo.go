package main

import (
	"fmt"

	ad "github.com/pbenner/autodiff"
	"github.com/pbenner/autodiff/algorithm/bfgs"
	"github.com/pbenner/autodiff/algorithm/cholesky"
	"github.com/pbenner/autodiff/algorithm/determinant"
	"github.com/pbenner/autodiff/algorithm/eigensystem"
	"github.com/pbenner/autodiff/algorithm/gradientDescent"
	"github.com/pbenner/autodiff/algorithm/matrixInverse"
	"github.com/pbenner/autodiff/algorithm/newton"
	"github.com/pbenner/autodiff/algorithm/qrAlgorithm"
	"github.com/pbenner/autodiff/algorithm/rprop"
	"github.com/pbenner/autodiff/algorithm/svd"
)

// Representative algorithm entry points: the caller's input (matrix / start point) must be
// observably unchanged unless an InSitu option is passed (none is passed here).

type ACase struct {
	Algo string `json:"algorithm"`
	Opt  int    `json:"option_set"`
	Typ  string `json:"type"`
	In   int    `json:"input"`
	View string `json:"view"` // owning | T | slice
	Key  string `json:"key"`
}

// symmetric positive definite inputs with small integer entries
var algoMats = [][][]float64{
	{{3, 1}, {1, 2}}, // ({{2,1},{1,2}} makes qrAlgorithm.Run spin forever: a C20 matter, avoided here)
	{{4, 1}, {1, 3}},
	{{2, 0}, {0, 5}},
	{{4, 1, 0}, {1, 3, 1}, {0, 1, 2}},
	{{2, 1, 1}, {1, 3, 0}, {1, 0, 4}},
}

var algoX0 = [][]float64{{1, 2}, {-1, 0.5}, {3, -2}}

func algoMatrix(typ string, k int, view string) (m ad.Matrix, parent ad.Matrix) {
	a := algoMats[k]
	n := len(a)
	T := scalarType(typ)
	switch view {
	case "owning":
		m = ad.NullDenseMatrix(T, n, n)
		parent = m
		for i := 0; i < n; i++ {
			for j := 0; j < n; j++ {
				m.At(i, j).SetFloat64(a[i][j])
			}
		}
	case "T":
		parent = ad.NullDenseMatrix(T, n, n)
		for i := 0; i < n; i++ {
			for j := 0; j < n; j++ {
				parent.At(j, i).SetFloat64(a[i][j])
			}
		}
		m = parent.T()
	case "slice":
		parent = ad.NullDenseMatrix(T, n+1, n+1)
		for i := 0; i <= n; i++ {
			for j := 0; j <= n; j++ {
				parent.At(i, j).SetFloat64(7)
			}
		}
		for i := 0; i < n; i++ {
			for j := 0; j < n; j++ {
				parent.At(i+1, j+1).SetFloat64(a[i][j])
			}
		}
		m = parent.Slice(1, n+1, 1, n+1)
	}
	return
}

func algoVector(typ string, k int, view string) (x ad.Vector, parent ad.Vector) {
	a := algoX0[k]
	T := scalarType(typ)
	if view == "slice" {
		parent = ad.NullDenseVector(T, len(a)+1)
		parent.At(0).SetFloat64(7)
		for i, v := range a {
			parent.At(i + 1).SetFloat64(v)
		}
		return parent.Slice(1, len(a)+1), parent
	}
	x = ad.NullDenseVector(T, len(a))
	for i, v := range a {
		x.At(i).SetFloat64(v)
	}
	return x, x
}

var algoNames = []string{"matrixInverse", "determinant", "cholesky", "qrAlgorithm", "svd", "eigensystem", "rprop", "bfgs", "newton", "gradientDescent"}

func algoIsOptimizer(a string) bool {
	return a == "rprop" || a == "bfgs" || a == "newton" || a == "gradientDescent"
}

func algoOptCount(a string) int {
	switch a {
	case "matrixInverse":
		return 2
	case "determinant":
		return 3
	case "cholesky":
		return 3
	case "qrAlgorithm":
		return 4
	case "svd":
		return 4
	case "eigensystem":
		return 3
	case "newton":
		return 3
	}
	return 1
}

// f(x) = (x0-1)^2 + 2 (x1+1)^2 + x0 x1 / 2 : smooth, convex
func objective(x ad.ConstVector) (ad.MagicScalar, error) {
	t1 := ad.NullReal64()
	t2 := ad.NullReal64()
	t1.Sub(x.ConstAt(0), ad.ConstFloat64(1))
	t1.Mul(t1, t1)
	t2.Add(x.ConstAt(1), ad.ConstFloat64(1))
	t2.Mul(t2, t2)
	t2.Mul(t2, ad.ConstFloat64(2))
	t1.Add(t1, t2)
	t2.Mul(x.ConstAt(0), x.ConstAt(1))
	t2.Mul(t2, ad.ConstFloat64(0.5))
	t1.Add(t1, t2)
	return t1, nil
}

func gradientAsRoot(x ad.ConstVector) (ad.MagicVector, error) {
	// gradient of the objective, as a root finding problem
	y := ad.NullDenseReal64Vector(2)
	t := ad.NullReal64()
	// 2(x0-1) + x1/2
	t.Sub(x.ConstAt(0), ad.ConstFloat64(1))
	t.Mul(t, ad.ConstFloat64(2))
	y.At(0).Mul(x.ConstAt(1), ad.ConstFloat64(0.5))
	y.At(0).Add(y.At(0), t)
	// 4(x1+1) + x0/2
	t.Add(x.ConstAt(1), ad.ConstFloat64(1))
	t.Mul(t, ad.ConstFloat64(4))
	y.At(1).Mul(x.ConstAt(0), ad.ConstFloat64(0.5))
	y.At(1).Add(y.At(1), t)
	return y, nil
}

func runAlgo(cs ACase) (fails []failure, outcome string) {
	var in, parent any
	if algoIsOptimizer(cs.Algo) {
		x, p := algoVector(cs.Typ, cs.In, cs.View)
		in, parent = x, p
	} else {
		m, p := algoMatrix(cs.Typ, cs.In, cs.View)
		in, parent = m, p
	}
	b0, b1 := obs(in, true), obs(parent, true)
	var err error
	perr := try(func() {
		switch cs.Algo {
		case "matrixInverse":
			if cs.Opt == 0 {
				_, err = matrixInverse.Run(in.(ad.Matrix))
			} else {
				_, err = matrixInverse.Run(in.(ad.Matrix), matrixInverse.PositiveDefinite{Value: true})
			}
		case "determinant":
			switch cs.Opt {
			case 0:
				_, err = determinant.Run(in.(ad.Matrix))
			case 1:
				_, err = determinant.Run(in.(ad.Matrix), determinant.PositiveDefinite{Value: true})
			default:
				_, err = determinant.Run(in.(ad.Matrix), determinant.PositiveDefinite{Value: true}, determinant.LogScale{Value: true})
			}
		case "cholesky":
			switch cs.Opt {
			case 0:
				_, _, err = cholesky.Run(in.(ad.Matrix))
			case 1:
				_, _, err = cholesky.Run(in.(ad.Matrix), cholesky.LDL{Value: true})
			default:
				_, _, err = cholesky.Run(in.(ad.Matrix), cholesky.LDL{Value: true}, cholesky.ForcePD{Value: true})
			}
		case "qrAlgorithm":
			_, _, err = qrAlgorithm.Run(in.(ad.Matrix), qrAlgorithm.ComputeU{Value: cs.Opt&1 != 0}, qrAlgorithm.Symmetric{Value: cs.Opt&2 != 0}, qrAlgorithm.Epsilon{Value: 1e-10})
		case "svd":
			_, _, _, err = svd.Run(in.(ad.Matrix), svd.ComputeU{Value: cs.Opt&1 != 0}, svd.ComputeV{Value: cs.Opt&2 != 0})
		case "eigensystem":
			switch cs.Opt {
			case 0:
				_, _, err = eigensystem.Run(in.(ad.Matrix), qrAlgorithm.Epsilon{Value: 1e-10})
			case 1:
				_, _, err = eigensystem.Run(in.(ad.Matrix), eigensystem.ComputeEigenvectors{Value: false}, qrAlgorithm.Epsilon{Value: 1e-10})
			default:
				_, _, err = eigensystem.Run(in.(ad.Matrix), eigensystem.Symmetric{Value: true}, qrAlgorithm.Epsilon{Value: 1e-10})
			}
		case "rprop":
			_, err = rprop.Run(objective, in.(ad.Vector), 0.01, []float64{1.2, 0.5}, rprop.Epsilon{Value: 1e-6}, rprop.MaxIterations{Value: 200})
		case "bfgs":
			_, err = bfgs.Run(objective, in.(ad.Vector), bfgs.Epsilon{Value: 1e-6}, bfgs.MaxIterations{Value: 50})
		case "newton":
			switch cs.Opt {
			case 0:
				_, err = newton.RunRoot(gradientAsRoot, in.(ad.Vector), newton.Epsilon{Value: 1e-8}, newton.MaxIterations{Value: 50})
			case 1:
				_, err = newton.RunCrit(objective, in.(ad.Vector), newton.Epsilon{Value: 1e-8}, newton.MaxIterations{Value: 50})
			default:
				_, err = newton.RunMin(objective, in.(ad.Vector), newton.Epsilon{Value: 1e-8}, newton.MaxIterations{Value: 50})
			}
		case "gradientDescent":
			_, err = gradientDescent.Run(objective, in.(ad.Vector), 0.05, gradientDescent.Epsilon{Value: 1e-4})
		}
	})
	outcome = "unchanged"
	if perr != "" {
		outcome = "panic"
	} else if err != nil {
		outcome = "error"
	}
	a0, a1 := obs(in, true), obs(parent, true)
	if a0 != b0 || a1 != b1 {
		what := "input"
		if a0 == b0 {
			what = "parent-of-input"
		}
		key := fmt.Sprintf("algo-input|%s|%s|%s", cs.Algo, cs.View, what)
		msg := fmt.Sprintf("%s (option set %d, %s, input %d as %s view) changed its input: before %s / parent %s, after %s / parent %s",
			cs.Algo, cs.Opt, cs.Typ, cs.In, cs.View, b0, b1, a0, a1)
		if perr != "" {
			msg += " (panicked: " + perr + ")"
		}
		return []failure{{key, msg}}, "fail"
	}
	return nil, outcome
}

func enumACases(thorough bool, emit func(ACase)) {
	for _, a := range algoNames {
		for opt := 0; opt < algoOptCount(a); opt++ {
			for _, typ := range []string{"Float64", "Real64"} {
				if algoIsOptimizer(a) {
					for k := range algoX0 {
						for _, view := range []string{"owning", "slice"} {
							emit(ACase{Algo: a, Opt: opt, Typ: typ, In: k, View: view})
						}
					}
				} else {
					for k := range algoMats {
						for _, view := range []string{"owning", "T", "slice"} {
							emit(ACase{Algo: a, Opt: opt, Typ: typ, In: k, View: view})
						}
					}
				}
			}
		}
	}
}
