package main

import (
	"fmt"
	"math"

	ad "github.com/pbenner/autodiff"
	"github.com/pbenner/autodiff/algorithm/adam"
	"github.com/pbenner/autodiff/algorithm/backSubstitution"
	"github.com/pbenner/autodiff/algorithm/bfgs"
	"github.com/pbenner/autodiff/algorithm/blahut"
	"github.com/pbenner/autodiff/algorithm/cholesky"
	"github.com/pbenner/autodiff/algorithm/determinant"
	"github.com/pbenner/autodiff/algorithm/eigensystem"
	"github.com/pbenner/autodiff/algorithm/givensRotation"
	"github.com/pbenner/autodiff/algorithm/gradientDescent"
	"github.com/pbenner/autodiff/algorithm/gramSchmidt"
	"github.com/pbenner/autodiff/algorithm/hessenbergReduction"
	"github.com/pbenner/autodiff/algorithm/householder"
	"github.com/pbenner/autodiff/algorithm/householderBidiagonalization"
	"github.com/pbenner/autodiff/algorithm/householderTridiagonalization"
	"github.com/pbenner/autodiff/algorithm/matrixInverse"
	"github.com/pbenner/autodiff/algorithm/msqrt"
	"github.com/pbenner/autodiff/algorithm/msqrtInv"
	"github.com/pbenner/autodiff/algorithm/newton"
	"github.com/pbenner/autodiff/algorithm/qrAlgorithm"
	"github.com/pbenner/autodiff/algorithm/rprop"
	"github.com/pbenner/autodiff/algorithm/saga"
	"github.com/pbenner/autodiff/algorithm/svd"
)

// Algorithm entry points: the caller's input (matrix / start point / further operands) must
// be observably unchanged unless an InSitu option is passed (none is passed here). Every
// package under algorithm/ is covered except gaussJordan and the Apply* helpers of
// householder / givensRotation (they work in their arguments by definition) and lineSearch
// (no container input).

type ACase struct {
	Algo string `json:"algorithm"`
	Opt  int    `json:"option_set"`
	Typ  string `json:"type"`
	In   int    `json:"input"`
	View string `json:"view"` // owning | T | slice
	// Dst: derivative state of the start vector of the entry points that take a FUNCTION argument and
	// differentiate it at (a copy of) the start vector (Real64 only): 0 plain values | 1 first order
	// content over 3 variables | 2 second order content over 1 variable | 3 second order content over
	// as many variables as elements (values other than the ones Variables() would set)
	Dst int    `json:"deriv_state,omitempty"`
	Key string `json:"key"`
}

// algoTakesFunction: entry points with an objective / gradient callback and a start vector
func algoTakesFunction(a string) bool {
	switch a {
	case "rprop", "bfgs", "newton", "gradientDescent", "adam":
		return true
	}
	return false
}

func algoDerivState(x ad.Vector, dst int) {
	for i := 0; i < x.Dim(); i++ {
		switch dst {
		case 1:
			setDerivs(x.At(i), 1, 3, i)
		case 2:
			setDerivs(x.At(i), 2, 1, i)
		case 3:
			setDerivs(x.At(i), 2, x.Dim(), i)
		}
	}
}

// symmetric positive definite inputs with small integer entries
var algoMats = [][][]float64{
	{{3, 1}, {1, 2}}, // ({{2,1},{1,2}} makes qrAlgorithm.Run spin forever: a C20 matter, avoided here)
	{{4, 1}, {1, 3}},
	{{2, 0}, {0, 5}},
	{{4, 1, 0}, {1, 3, 1}, {0, 1, 2}},
	{{2, 1, 1}, {1, 3, 0}, {1, 0, 4}},
}

// inadmissible inputs, used as the FIRST input of two-call histories only (twocall.go): a call
// that fails must not poison the caller's InSitu object. Indices continue those of algoMats.
var nan = math.NaN()
var algoBadMats = [][][]float64{
	{{1, 1}, {1, 1}},                    // two identical rows
	{{0, 0}, {1, 2}},                    // zero row (also a zero pivot for back substitution)
	{{1, 2}, {2, 1}},                    // symmetric, indefinite
	{{nan, 1}, {1, 2}},                  // non-finite entry
	{{1, 1, 0}, {1, 1, 0}, {0, 0, 1}},   // singular
	{{1, 2, 0}, {2, 1, 0}, {0, 0, -1}},  // symmetric, indefinite
	{{2, 1, 0}, {1, nan, 1}, {0, 1, 2}}, // non-finite entry
}

func algoMatData(k int) [][]float64 {
	if k < len(algoMats) {
		return algoMats[k]
	}
	return algoBadMats[k-len(algoMats)]
}

var algoX0 = [][]float64{{1, 2}, {-1, 0.5}, {3, -2}}

func algoMatrix(typ string, k int, view string) (m ad.Matrix, parent ad.Matrix) {
	a := algoMatData(k)
	n := len(a)
	T := scalarType(typ)
	switch view {
	case "owning":
		m = ad.NullDenseMatrix(T, n, n)
		parent = m
		for i := 0; i < n; i++ {
			for j := 0; j < n; j++ {
				m.At(i, j).SetFloat64(a[i][j])
			}
		}
	case "T":
		parent = ad.NullDenseMatrix(T, n, n)
		for i := 0; i < n; i++ {
			for j := 0; j < n; j++ {
				parent.At(j, i).SetFloat64(a[i][j])
			}
		}
		m = parent.T()
	case "slice":
		parent = ad.NullDenseMatrix(T, n+1, n+1)
		for i := 0; i <= n; i++ {
			for j := 0; j <= n; j++ {
				parent.At(i, j).SetFloat64(7)
			}
		}
		for i := 0; i < n; i++ {
			for j := 0; j < n; j++ {
				parent.At(i+1, j+1).SetFloat64(a[i][j])
			}
		}
		m = parent.Slice(1, n+1, 1, n+1)
	}
	return
}

func algoVector(typ string, k int, view string) (x ad.Vector, parent ad.Vector) {
	a := algoX0[k]
	T := scalarType(typ)
	if view == "slice" {
		parent = ad.NullDenseVector(T, len(a)+1)
		parent.At(0).SetFloat64(7)
		for i, v := range a {
			parent.At(i + 1).SetFloat64(v)
		}
		return parent.Slice(1, len(a)+1), parent
	}
	x = ad.NullDenseVector(T, len(a))
	for i, v := range a {
		x.At(i).SetFloat64(v)
	}
	return x, x
}

var algoNames = []string{"matrixInverse", "determinant", "cholesky", "qrAlgorithm", "svd", "eigensystem", "rprop", "bfgs", "newton", "gradientDescent",
	"msqrt", "msqrtInv", "gramSchmidt", "hessenbergReduction", "householderBidiagonalization", "householderTridiagonalization", "backSubstitution",
	"householder", "givensRotation", "blahut", "saga", "adam"}

// algoIsOptimizer: the primary input is a vector (start point / operand vector)
func algoIsOptimizer(a string) bool {
	switch a {
	case "rprop", "bfgs", "newton", "gradientDescent", "householder", "saga", "adam":
		return true
	}
	return false
}

// least squares data of the saga objective: f_i(x) = (d_i.x - t_i)^2 / 2
var sagaData = [][]float64{{1, 0}, {0, 1}, {1, 1}, {1, -1}}
var sagaTarget = []float64{1, 2, 3, -1}

func sagaObjective(variant int) interface{} {
	res := func(i int, x ad.DenseFloat64Vector) float64 {
		return sagaData[i][0]*x[0] + sagaData[i][1]*x[1] - sagaTarget[i]
	}
	dense := func(i int, w float64) ad.DenseFloat64Vector {
		return ad.NewDenseFloat64Vector([]float64{w * sagaData[i][0], w * sagaData[i][1]})
	}
	sparse := func(i int, w float64) ad.SparseConstFloat64Vector {
		var idx []int
		var val []float64
		for j, v := range sagaData[i] {
			if v != 0 {
				idx = append(idx, j)
				val = append(val, w*v)
			}
		}
		return ad.NewSparseConstFloat64Vector(idx, val, 2)
	}
	switch variant {
	case 0:
		return saga.Objective1Dense(func(i int, x ad.DenseFloat64Vector) (float64, float64, ad.DenseFloat64Vector, error) {
			r := res(i, x)
			return r * r / 2, r, dense(i, 1), nil
		})
	case 1:
		return saga.Objective2Dense(func(i int, x ad.DenseFloat64Vector) (float64, ad.DenseFloat64Vector, error) {
			r := res(i, x)
			return r * r / 2, dense(i, r), nil
		})
	case 2, 4:
		return saga.Objective1Sparse(func(i int, x ad.DenseFloat64Vector) (float64, float64, ad.SparseConstFloat64Vector, error) {
			r := res(i, x)
			return r * r / 2, r, sparse(i, 1), nil
		})
	}
	return saga.Objective2Sparse(func(i int, x ad.DenseFloat64Vector) (float64, ad.SparseConstFloat64Vector, error) {
		r := res(i, x)
		return r * r / 2, sparse(i, r), nil
	})
}

// gradient of `objective` for adam.RunGradient
func objectiveGradient(x, g ad.DenseFloat64Vector) error {
	g[0] = 2*(x[0]-1) + x[1]/2
	g[1] = 4*(x[1]+1) + x[0]/2
	return nil
}

// a second input object of a call, in the same view class as the first
func algoSecondVector(typ string, n, seed int, view string) (x ad.Vector, parent ad.Vector) {
	T := scalarType(typ)
	if view == "slice" {
		parent = ad.NullDenseVector(T, n+1)
		parent.At(0).SetFloat64(7)
		for i := 0; i < n; i++ {
			parent.At(i + 1).SetFloat64(float64(i + 1 + seed))
		}
		return parent.Slice(1, n+1), parent
	}
	x = ad.NullDenseVector(T, n)
	for i := 0; i < n; i++ {
		x.At(i).SetFloat64(float64(i + 1 + seed))
	}
	return x, x
}

func algoOptCount(a string) int {
	switch a {
	case "matrixInverse":
		return 2
	case "determinant":
		return 3
	case "cholesky":
		return 3
	case "qrAlgorithm":
		return 4
	case "svd":
		return 4
	case "eigensystem":
		return 3
	case "newton":
		return 3
	case "hessenbergReduction", "householderBidiagonalization":
		return 4
	case "householderTridiagonalization", "adam", "blahut":
		return 2
	case "saga":
		return 8
	}
	return 1
}

// f(x) = (x0-1)^2 + 2 (x1+1)^2 + x0 x1 / 2 : smooth, convex
func objective(x ad.ConstVector) (ad.MagicScalar, error) {
	t1 := ad.NullReal64()
	t2 := ad.NullReal64()
	t1.Sub(x.ConstAt(0), ad.ConstFloat64(1))
	t1.Mul(t1, t1)
	t2.Add(x.ConstAt(1), ad.ConstFloat64(1))
	t2.Mul(t2, t2)
	t2.Mul(t2, ad.ConstFloat64(2))
	t1.Add(t1, t2)
	t2.Mul(x.ConstAt(0), x.ConstAt(1))
	t2.Mul(t2, ad.ConstFloat64(0.5))
	t1.Add(t1, t2)
	return t1, nil
}

func gradientAsRoot(x ad.ConstVector) (ad.MagicVector, error) {
	// gradient of the objective, as a root finding problem
	y := ad.NullDenseReal64Vector(2)
	t := ad.NullReal64()
	// 2(x0-1) + x1/2
	t.Sub(x.ConstAt(0), ad.ConstFloat64(1))
	t.Mul(t, ad.ConstFloat64(2))
	y.At(0).Mul(x.ConstAt(1), ad.ConstFloat64(0.5))
	y.At(0).Add(y.At(0), t)
	// 4(x1+1) + x0/2
	t.Add(x.ConstAt(1), ad.ConstFloat64(1))
	t.Mul(t, ad.ConstFloat64(4))
	y.At(1).Mul(x.ConstAt(0), ad.ConstFloat64(0.5))
	y.At(1).Add(y.At(1), t)
	return y, nil
}

func runAlgo(cs ACase) (fails []failure, outcome string) {
	var in, parent any
	if algoIsOptimizer(cs.Algo) {
		x, p := algoVector(cs.Typ, cs.In, cs.View)
		algoDerivState(p, cs.Dst)
		in, parent = x, p
	} else {
		m, p := algoMatrix(cs.Typ, cs.In, cs.View)
		in, parent = m, p
	}
	// further input objects of the call (operand vectors, scalars)
	var extra []any
	switch cs.Algo {
	case "backSubstitution":
		triu(in.(ad.Matrix))
		n, _ := in.(ad.Matrix).Dims()
		b, bp := algoSecondVector(cs.Typ, n, cs.In, map[string]string{"owning": "owning", "T": "owning", "slice": "slice"}[cs.View])
		extra = []any{b, bp}
	case "givensRotation":
		extra = []any{ad.NewScalar(scalarType(cs.Typ), 3), ad.NewScalar(scalarType(cs.Typ), -4)}
	case "blahut":
		// a channel matrix (rows sum to one) in the requested view, and the input distribution
		ch := in.(ad.Matrix)
		n, _ := ch.Dims()
		for i := 0; i < n; i++ {
			for j := 0; j < n; j++ {
				if i == j {
					ch.At(i, j).SetFloat64(0.75 - 0.25*float64(n-2))
				} else {
					ch.At(i, j).SetFloat64(0.25)
				}
			}
		}
		p, pp := algoSecondVector(cs.Typ, n, 0, map[string]string{"owning": "owning", "T": "owning", "slice": "slice"}[cs.View])
		for i := 0; i < n; i++ {
			p.At(i).SetFloat64(1 / float64(n))
		}
		extra = []any{p, pp}
	}
	b0, b1 := obs(in, true), obs(parent, true)
	bx := make([]string, len(extra))
	for i, x := range extra {
		bx[i] = obs(x, true)
	}
	var err error
	na := false
	var optObj interface{ GetLambda() float64 }
	optChanged := ""
	perr := try(func() {
		switch cs.Algo {
		case "matrixInverse":
			if cs.Opt == 0 {
				_, err = matrixInverse.Run(in.(ad.Matrix))
			} else {
				_, err = matrixInverse.Run(in.(ad.Matrix), matrixInverse.PositiveDefinite{Value: true})
			}
		case "determinant":
			switch cs.Opt {
			case 0:
				_, err = determinant.Run(in.(ad.Matrix))
			case 1:
				_, err = determinant.Run(in.(ad.Matrix), determinant.PositiveDefinite{Value: true})
			default:
				_, err = determinant.Run(in.(ad.Matrix), determinant.PositiveDefinite{Value: true}, determinant.LogScale{Value: true})
			}
		case "cholesky":
			switch cs.Opt {
			case 0:
				_, _, err = cholesky.Run(in.(ad.Matrix))
			case 1:
				_, _, err = cholesky.Run(in.(ad.Matrix), cholesky.LDL{Value: true})
			default:
				_, _, err = cholesky.Run(in.(ad.Matrix), cholesky.LDL{Value: true}, cholesky.ForcePD{Value: true})
			}
		case "qrAlgorithm":
			_, _, err = qrAlgorithm.Run(in.(ad.Matrix), qrAlgorithm.ComputeU{Value: cs.Opt&1 != 0}, qrAlgorithm.Symmetric{Value: cs.Opt&2 != 0}, qrAlgorithm.Epsilon{Value: 1e-10})
		case "svd":
			_, _, _, err = svd.Run(in.(ad.Matrix), svd.ComputeU{Value: cs.Opt&1 != 0}, svd.ComputeV{Value: cs.Opt&2 != 0})
		case "eigensystem":
			switch cs.Opt {
			case 0:
				_, _, err = eigensystem.Run(in.(ad.Matrix), qrAlgorithm.Epsilon{Value: 1e-10})
			case 1:
				_, _, err = eigensystem.Run(in.(ad.Matrix), eigensystem.ComputeEigenvectors{Value: false}, qrAlgorithm.Epsilon{Value: 1e-10})
			default:
				_, _, err = eigensystem.Run(in.(ad.Matrix), eigensystem.Symmetric{Value: true}, qrAlgorithm.Epsilon{Value: 1e-10})
			}
		case "rprop":
			_, err = rprop.Run(objective, in.(ad.Vector), 0.01, []float64{1.2, 0.5}, rprop.Epsilon{Value: 1e-6}, rprop.MaxIterations{Value: 200})
		case "bfgs":
			_, err = bfgs.Run(objective, in.(ad.Vector), bfgs.Epsilon{Value: 1e-6}, bfgs.MaxIterations{Value: 50})
		case "newton":
			switch cs.Opt {
			case 0:
				_, err = newton.RunRoot(gradientAsRoot, in.(ad.Vector), newton.Epsilon{Value: 1e-8}, newton.MaxIterations{Value: 50})
			case 1:
				_, err = newton.RunCrit(objective, in.(ad.Vector), newton.Epsilon{Value: 1e-8}, newton.MaxIterations{Value: 50})
			default:
				_, err = newton.RunMin(objective, in.(ad.Vector), newton.Epsilon{Value: 1e-8}, newton.MaxIterations{Value: 50})
			}
		case "gradientDescent":
			_, err = gradientDescent.Run(objective, in.(ad.Vector), 0.05, gradientDescent.Epsilon{Value: 1e-4})
		case "msqrt":
			_, err = msqrt.Run(in.(ad.Matrix))
		case "msqrtInv":
			_, err = msqrtInv.Run(in.(ad.Matrix))
		case "gramSchmidt":
			_, _, err = gramSchmidt.Run(in.(ad.Matrix))
		case "hessenbergReduction":
			_, _, err = hessenbergReduction.Run(in.(ad.Matrix), hessenbergReduction.ComputeU{Value: cs.Opt&1 != 0}, hessenbergReduction.SetZero{Value: cs.Opt&2 != 0})
		case "householderBidiagonalization":
			_, _, _, err = householderBidiagonalization.Run(in.(ad.Matrix), householderBidiagonalization.ComputeU{Value: cs.Opt&1 != 0}, householderBidiagonalization.ComputeV{Value: cs.Opt&2 != 0})
		case "householderTridiagonalization":
			_, _, err = householderTridiagonalization.Run(in.(ad.Matrix), householderTridiagonalization.ComputeU{Value: cs.Opt&1 != 0})
		case "backSubstitution":
			_, err = backSubstitution.Run(in.(ad.Matrix), extra[0].(ad.Vector))
		case "householder":
			T := scalarType(cs.Typ)
			x := in.(ad.Vector)
			householder.Run(x, ad.NullScalar(T), ad.NullDenseVector(T, x.Dim()), ad.NullScalar(T), ad.NullScalar(T), ad.NullScalar(T))
		case "givensRotation":
			T := scalarType(cs.Typ)
			givensRotation.Run(extra[0].(ad.Scalar), extra[1].(ad.Scalar), ad.NullScalar(T), ad.NullScalar(T))
		case "blahut":
			if cs.Opt == 0 {
				blahut.Run(in.(ad.Matrix), extra[0].(ad.Vector), 5)
			} else {
				blahut.Run(in.(ad.Matrix), extra[0].(ad.Vector), 5, blahut.Lambda{Value: 0.5})
			}
		case "saga":
			args := []interface{}{saga.Epsilon{Value: 1e-6}, saga.Gamma{Value: 0.1}, saga.Seed{Value: 1}, saga.MaxIterations{Value: 20}}
			switch cs.Opt {
			case 1:
				args = append(args, saga.L1Regularization{Value: 0.125})
			case 2:
				args = append(args, saga.TikhonovRegularization{Value: 0.125})
			case 3:
				args = append(args, saga.L2Regularization{Value: 0.125})
			case 4:
				optObj = &saga.JitUpdateL1{Lambda: 0.125}
				args = append(args, saga.JitUpdate{Value: optObj.(saga.JitUpdateType)})
			case 5:
				optObj = &saga.ProximalOperatorL1{Lambda: 0.125}
				args = append(args, saga.ProximalOperator{Value: optObj.(saga.ProximalOperatorType)})
			case 6:
				optObj = &saga.ProximalOperatorL2{Lambda: 0.125}
				args = append(args, saga.ProximalOperator{Value: optObj.(saga.ProximalOperatorType)})
			case 7:
				optObj = &saga.ProximalOperatorTi{Lambda: 0.125}
				args = append(args, saga.ProximalOperator{Value: optObj.(saga.ProximalOperatorType)})
			}
			variant := cs.Opt
			if variant > 4 {
				variant -= 5 // dense 1, dense 2, sparse 1 objectives for the explicit proximal operators
			}
			_, _, err = saga.Run(sagaObjective(variant), len(sagaData), in.(ad.Vector), args...)
			if optObj != nil {
				// the caller's regularisation object is an input object of the call as well
				if l := optObj.GetLambda(); l != 0.125 {
					optChanged = fmt.Sprintf("Lambda 0.125 before the call, %v after", l)
				}
			}
		case "adam":
			if cs.Opt == 0 {
				_, err = adam.Run(objective, in.(ad.Vector), adam.MaxIterations{Value: 30}, adam.StepSize{Value: 0.05})
			} else {
				x := in.(ad.Vector)
				if _, ok := x.(ad.DenseFloat64Vector); !ok {
					na = true // the gradient variant takes a DenseFloat64Vector only
					return
				}
				_, err = adam.RunGradient(adam.DenseGradientF(objectiveGradient), x, adam.MaxIterations{Value: 30})
			}
		}
	})
	if na {
		return nil, "n/a"
	}
	if optChanged != "" {
		return []failure{{fmt.Sprintf("algo-input|%s|option-object", cs.Algo), fmt.Sprintf("%s (option set %d, %s) changed the option object the caller passed: %s", cs.Algo, cs.Opt, cs.Typ, optChanged)}}, "fail"
	}
	for i, x := range extra {
		if s := obs(x, true); s != bx[i] {
			key := fmt.Sprintf("algo-input|%s|%s|operand-%d", cs.Algo, cs.View, i/2+1)
			if cs.Algo == "givensRotation" {
				key = fmt.Sprintf("algo-input|%s|%s|operand-%d", cs.Algo, cs.View, i+1)
			}
			return []failure{{key, fmt.Sprintf("%s (option set %d, %s, input %d, %s views) changed a further input object: before %s, after %s", cs.Algo, cs.Opt, cs.Typ, cs.In, cs.View, bx[i], s)}}, "fail"
		}
	}
	outcome = "unchanged"
	if perr != "" {
		outcome = "panic"
	} else if err != nil {
		outcome = "error"
	}
	a0, a1 := obs(in, true), obs(parent, true)
	if a0 != b0 || a1 != b1 {
		what := "input"
		if a0 == b0 {
			what = "parent-of-input"
		}
		key := fmt.Sprintf("algo-input|%s|%s|%s", cs.Algo, cs.View, what)
		msg := fmt.Sprintf("%s (option set %d, %s, input %d as %s view, derivative state %d) changed its input: before %s / parent %s, after %s / parent %s",
			cs.Algo, cs.Opt, cs.Typ, cs.In, cs.View, cs.Dst, b0, b1, a0, a1)
		if perr != "" {
			msg += " (panicked: " + perr + ")"
		}
		return []failure{{key, msg}}, "fail"
	}
	return nil, outcome
}

func enumACases(thorough bool, emit func(ACase)) {
	for _, a := range algoNames {
		for opt := 0; opt < algoOptCount(a); opt++ {
			for _, typ := range []string{"Float64", "Real64"} {
				if algoIsOptimizer(a) {
					for k := range algoX0 {
						for _, view := range []string{"owning", "slice"} {
							emit(ACase{Algo: a, Opt: opt, Typ: typ, In: k, View: view})
							if typ == "Real64" && algoTakesFunction(a) {
								for dst := 1; dst <= 3; dst++ {
									emit(ACase{Algo: a, Opt: opt, Typ: typ, In: k, View: view, Dst: dst})
								}
							}
						}
					}
				} else {
					for k := range algoMats {
						if a == "givensRotation" && k > 0 {
							continue // scalar inputs only
						}
						for _, view := range []string{"owning", "T", "slice"} {
							if a == "givensRotation" && view != "owning" {
								continue
							}
							emit(ACase{Algo: a, Opt: opt, Typ: typ, In: k, View: view})
						}
					}
				}
			}
		}
	}
}
