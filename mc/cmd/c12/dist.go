package main

// Fifth seeding round (seed C12-12): parametrised objects. A scalar distribution is built from
// the caller's scalars and re-parametrised from the caller's vector (normal.go is one of the
// anchors of the property); the caller keeps those objects and goes on writing to them - every
// estimator of the library overwrites its parameter vector in the next iteration. Enumerated
// for every scalar distribution family with an all-scalar constructor x {Float64, Real64} x two
// parameter points x {owned vector, slice of a longer vector}:
//   ctor        the constructor's arguments are overwritten afterwards
//   set         the vector handed to SetParameters is overwritten afterwards (slice: through
//               the parent)
//   set-ro      that vector is unchanged after a later SetParameters / LogPdf on the object
//   clone       CloneScalarPdf, then SetParameters on either side: the other side is unchanged
//   logpdf-ro   the evaluation point is unchanged by LogPdf
// Oracle: differential - the object must be observably equal (GetParameters element-wise,
// LogPdf at the family's evaluation points, error texts) to an object that went through the
// same calls with private copies of the arguments that nobody wrote to.

import (
	"fmt"
	"math"

	ad "github.com/pbenner/autodiff"
	st "github.com/pbenner/autodiff/statistics"
	sd "github.com/pbenner/autodiff/statistics/scalarDistribution"
)

type DistCase struct {
	Family string `json:"family"`
	Typ    string `json:"type"`
	Point  int    `json:"parameter_point"`
	Vec    string `json:"vector_kind"` // owned | slice
	Step   string `json:"history"`
}

type distFam struct {
	name   string
	points [][]float64 // three parameter points
	xs     []float64
	mk     func(a []ad.Scalar) (st.ScalarPdf, error)
	extra  []float64 // further entries of the parameter VECTOR that are not constructor scalars (beta: the log-scale flag)
}

func distFams() []distFam {
	return []distFam{
		{"normal", [][]float64{{1, 2}, {-0.5, 0.75}, {3, 1.5}}, []float64{0.5, -2}, func(a []ad.Scalar) (st.ScalarPdf, error) { return sd.NewNormalDistribution(a[0], a[1]) }, nil},
		{"cauchy", [][]float64{{1, 2}, {-0.5, 0.75}, {3, 1.5}}, []float64{0.5, -2}, func(a []ad.Scalar) (st.ScalarPdf, error) { return sd.NewCauchyDistribution(a[0], a[1]) }, nil},
		{"laplace", [][]float64{{1, 2}, {-0.5, 0.75}, {3, 1.5}}, []float64{0.5, -2}, func(a []ad.Scalar) (st.ScalarPdf, error) { return sd.NewLaplaceDistribution(a[0], a[1]) }, nil},
		{"gamma", [][]float64{{2, 3}, {0.5, 1.5}, {4, 0.25}}, []float64{0.5, 3}, func(a []ad.Scalar) (st.ScalarPdf, error) { return sd.NewGammaDistribution(a[0], a[1]) }, nil},
		{"exponential", [][]float64{{2}, {0.5}, {3}}, []float64{0.5, 3}, func(a []ad.Scalar) (st.ScalarPdf, error) { return sd.NewExponentialDistribution(a[0]) }, nil},
		{"generalized-gamma", [][]float64{{1, 3, 2}, {2, 3, 2}, {0.5, 1.5, 0.75}}, []float64{0.5, 3}, func(a []ad.Scalar) (st.ScalarPdf, error) {
			return sd.NewGeneralizedGammaDistribution(a[0], a[1], a[2])
		}, nil},
		{"gev", [][]float64{{0, 1, 0.5}, {1, 2, 0.25}, {-1, 0.5, 0.75}}, []float64{0.5, 2}, func(a []ad.Scalar) (st.ScalarPdf, error) { return sd.NewGevDistribution(a[0], a[1], a[2]) }, nil},
		{"gpareto", [][]float64{{0, 1, 0.5}, {0.25, 2, 0.25}, {-1, 0.5, 0.75}}, []float64{0.5, 2}, func(a []ad.Scalar) (st.ScalarPdf, error) { return sd.NewGParetoDistribution(a[0], a[1], a[2]) }, nil},
		{"pareto", [][]float64{{1, 2}, {0.5, 3}, {0.25, 1.5}}, []float64{1.5, 4}, func(a []ad.Scalar) (st.ScalarPdf, error) { return sd.NewParetoDistribution(a[0], a[1]) }, nil},
		{"poisson", [][]float64{{2}, {0.5}, {3}}, []float64{0, 3}, func(a []ad.Scalar) (st.ScalarPdf, error) { return sd.NewPoissonDistribution(a[0]) }, nil},
		{"geometric", [][]float64{{0.25}, {0.5}, {0.75}}, []float64{0, 3}, func(a []ad.Scalar) (st.ScalarPdf, error) { return sd.NewGeometricDistribution(a[0]) }, nil},
		{"negative-binomial", [][]float64{{2, 0.25}, {3, 0.5}, {1.5, 0.75}}, []float64{0, 3}, func(a []ad.Scalar) (st.ScalarPdf, error) {
			return sd.NewNegativeBinomialDistribution(a[0], a[1])
		}, nil},
		{"beta", [][]float64{{2, 3}, {0.5, 1.5}, {4, 0.75}}, []float64{0.25, 0.75}, func(a []ad.Scalar) (st.ScalarPdf, error) { return sd.NewBetaDistribution(a[0], a[1], false) }, []float64{0}},
	}
}

func distType(t string) ad.ScalarType {
	if t == "Real64" {
		return ad.Real64Type
	}
	return ad.Float64Type
}

func distScalars(t ad.ScalarType, v []float64) []ad.Scalar {
	r := make([]ad.Scalar, len(v))
	for i := range v {
		r[i] = ad.NewScalar(t, v[i])
	}
	return r
}

// distVec returns the vector handed to the library and the object the caller writes to later
// (the vector itself, or the longer vector it is a slice of, with the offset of the slice)
func distVec(t ad.ScalarType, v []float64, kind string) (ad.Vector, ad.Vector, int) {
	if kind == "slice" {
		p := ad.NullDenseVector(t, len(v)+3)
		for i := 0; i < p.Dim(); i++ {
			p.At(i).SetFloat64(-77)
		}
		for i := range v {
			p.At(i + 2).SetFloat64(v[i])
		}
		return p.Slice(2, 2+len(v)), p, 2
	}
	p := ad.NullDenseVector(t, len(v))
	for i := range v {
		p.At(i).SetFloat64(v[i])
	}
	return p, p, 0
}

func distObserve(f distFam, t ad.ScalarType, d st.ScalarPdf) (s string) {
	defer func() {
		if e := recover(); e != nil {
			s += fmt.Sprintf(" PANIC(%v)", e)
		}
	}()
	p := d.GetParameters()
	s = "params=["
	for i := 0; i < p.Dim(); i++ {
		s += fmt.Sprintf("%x ", math.Float64bits(p.ConstAt(i).GetFloat64()))
	}
	s += "]"
	for _, x := range f.xs {
		r := ad.NullScalar(t)
		err := d.LogPdf(r, ad.ConstFloat64(x))
		s += fmt.Sprintf(" logpdf(%v)=%x err=%v", x, math.Float64bits(r.GetFloat64()), err)
	}
	return s
}

func vecBits(v ad.ConstVector) string {
	s := ""
	for i := 0; i < v.Dim(); i++ {
		s += fmt.Sprintf("%x ", math.Float64bits(v.ConstAt(i).GetFloat64()))
	}
	return s
}

func enumDistCases(f func(DistCase)) {
	for _, fam := range distFams() {
		for _, t := range []string{"Float64", "Real64"} {
			for pt := 0; pt < 3; pt++ {
				f(DistCase{fam.name, t, pt, "owned", "ctor"})
				f(DistCase{fam.name, t, pt, "owned", "logpdf-ro"})
				for _, vk := range []string{"owned", "slice"} {
					for _, step := range []string{"set", "set-ro", "clone"} {
						f(DistCase{fam.name, t, pt, vk, step})
					}
				}
			}
		}
	}
}

func runDistCase(cs DistCase) (fails []failure, out string) {
	var fam distFam
	for _, g := range distFams() {
		if g.name == cs.Family {
			fam = g
		}
	}
	t := distType(cs.Typ)
	key := func(what string) string { return "dist|" + cs.Family + "|" + cs.Step + "|" + what }
	defer func() {
		if e := recover(); e != nil {
			fails = append(fails, failure{key("panic"), fmt.Sprint(e)})
			out = "panic"
		}
	}()
	p1 := fam.points[cs.Point]
	p2 := append(append([]float64{}, fam.points[(cs.Point+1)%3]...), fam.extra...)
	p3 := append(append([]float64{}, fam.points[(cs.Point+2)%3]...), fam.extra...)
	mk := func(v []float64) (st.ScalarPdf, []ad.Scalar) {
		a := distScalars(t, v)
		d, err := fam.mk(a)
		if err != nil {
			panic("harness: constructor rejected " + fmt.Sprint(v) + ": " + err.Error())
		}
		return d, a
	}
	overwrite := func(w ad.Vector) {
		for i := 0; i < w.Dim(); i++ {
			w.At(i).SetFloat64(w.ConstAt(i).GetFloat64()*3 + 11)
		}
	}
	switch cs.Step {
	case "ctor":
		d, a := mk(p1)
		ref, _ := mk(p1)
		for _, s := range a {
			s.SetFloat64(s.GetFloat64()*3 + 11)
		}
		if g, w := distObserve(fam, t, d), distObserve(fam, t, ref); g != w {
			fails = append(fails, failure{key("argument-written-later|distribution-changed"), "constructor arguments overwritten by the caller afterwards: " + g + " ; untouched copy: " + w})
		}
	case "logpdf-ro":
		d, _ := mk(p1)
		for _, x := range fam.xs {
			xs := ad.NewScalar(t, x)
			r := ad.NullScalar(t)
			_ = d.LogPdf(r, xs)
			if math.Float64bits(xs.GetFloat64()) != math.Float64bits(x) {
				fails = append(fails, failure{key("evaluation-point-modified"), fmt.Sprintf("LogPdf changed its argument %v to %v", x, xs.GetFloat64())})
			}
		}
	case "set":
		d, _ := mk(p1)
		ref, _ := mk(p1)
		v, w, _ := distVec(t, p2, cs.Vec)
		vr, _, _ := distVec(t, p2, cs.Vec)
		e1, e2 := d.SetParameters(v), ref.SetParameters(vr)
		if fmt.Sprint(e1) != fmt.Sprint(e2) {
			panic("harness: identical SetParameters calls differ")
		}
		overwrite(w)
		if g, x := distObserve(fam, t, d), distObserve(fam, t, ref); g != x {
			fails = append(fails, failure{key("argument-written-later|distribution-changed|vector=" + cs.Vec), "vector handed to SetParameters overwritten by the caller afterwards: " + g + " ; untouched copy: " + x})
		}
	case "set-ro":
		d, _ := mk(p1)
		v, w, _ := distVec(t, p2, cs.Vec)
		_ = d.SetParameters(v)
		before := vecBits(w)
		v3, _, _ := distVec(t, p3, "owned")
		_ = d.SetParameters(v3)
		_ = distObserve(fam, t, d)
		if after := vecBits(w); after != before {
			fails = append(fails, failure{key("argument-changed-by-later-call|vector=" + cs.Vec), "vector handed to an earlier SetParameters changed during a later SetParameters/LogPdf: " + before + " -> " + after})
		}
	case "clone":
		d, _ := mk(p1)
		ref, _ := mk(p1)
		c := d.CloneScalarPdf()
		v, _, _ := distVec(t, p2, cs.Vec)
		_ = c.SetParameters(v)
		if g, x := distObserve(fam, t, d), distObserve(fam, t, ref); g != x {
			fails = append(fails, failure{key("source-changed-by-SetParameters-on-clone"), g + " ; expected " + x})
		}
		cref, _ := mk(p1)
		vr, _, _ := distVec(t, p2, cs.Vec)
		_ = cref.SetParameters(vr)
		v3, _, _ := distVec(t, p3, "owned")
		_ = d.SetParameters(v3)
		if g, x := distObserve(fam, t, c), distObserve(fam, t, cref); g != x {
			fails = append(fails, failure{key("clone-changed-by-SetParameters-on-source"), g + " ; expected " + x})
		}
	}
	if len(fails) > 0 {
		return fails, "fail"
	}
	return nil, "ok"
}
