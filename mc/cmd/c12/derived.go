package main

import (
	"encoding/json"
	"fmt"
	"os"
	"path/filepath"
	"reflect"
	"sort"
	"strings"

	ad "github.com/pbenner/autodiff"
)

// Derived observations of a (source, copy) pair. "A clone is observably equal to its source
// (elements, derivatives, dimensions, VIEW SHAPE)": elements, dimensions and the iterator
// sequence do not depend on every field of a view header (storage extents, offsets, strides,
// transposition flag), but everything DERIVED from the object does: its vectorisation, its
// transpose, its sub-views, its serialisations, its iterators started at a cell, and the
// results of operations that take it as an operand. For every (object state, copy
// constructor) pair the same list of derived observations is taken from the copy and from an
// (independently built) source and compared name by name.

type nv struct{ name, val string }

var derivedScratch string

func derivedFile(name string) string {
	if derivedScratch == "" {
		// a memory file system if there is one (re-creating a file a hundred thousand times
		// on a disk mounted with discard costs seconds of wall time), else the check's scratch
		// directory; removed at the end of the run
		base := "/dev/shm"
		if st, err := os.Stat(base); err != nil || !st.IsDir() {
			base = os.Getenv("VERIF_SCRATCH")
		}
		if base == "" {
			base = os.TempDir()
		}
		d, err := os.MkdirTemp(base, "verif-c12-")
		if err != nil {
			d, err = os.MkdirTemp(os.Getenv("VERIF_SCRATCH"), "c12-")
		}
		if err != nil {
			panic(err)
		}
		derivedScratch = d
	}
	return filepath.Join(derivedScratch, name)
}

func cleanupDerived() {
	if derivedScratch != "" {
		os.RemoveAll(derivedScratch)
	}
}

// sortedElems: AsVector promises all elements in unspecified order
func sortedElems(x ad.ConstVector, derivs bool) string {
	n := x.Dim()
	el := make([]string, n)
	for i := 0; i < n; i++ {
		var sb strings.Builder
		s := x.ConstAt(i)
		if derivs && isNull(s) {
			sb.WriteByte('0')
		} else {
			obsScalarTo(&sb, s, derivs)
		}
		el[i] = sb.String()
	}
	sort.Strings(el)
	return fmt.Sprintf("n=%d {%s}", n, strings.Join(el, " "))
}

type seqIter interface {
	Ok() bool
	Next()
}

func vecSeq(it seqIter, get func() (int, ad.ConstScalar)) string {
	var sb strings.Builder
	for k := 0; it.Ok(); it.Next() {
		if k > 16 {
			sb.WriteString("NONTERM")
			break
		}
		i, s := get()
		fmt.Fprintf(&sb, "%d:", i)
		obsScalarTo(&sb, s, false)
		sb.WriteByte(' ')
		k++
	}
	return sb.String()
}

func matSeq(it seqIter, get func() (int, int, ad.ConstScalar)) string {
	var sb strings.Builder
	for k := 0; it.Ok(); it.Next() {
		if k > 32 {
			sb.WriteString("NONTERM")
			break
		}
		i, j, s := get()
		fmt.Fprintf(&sb, "%d,%d:", i, j)
		obsScalarTo(&sb, s, false)
		sb.WriteByte(' ')
		k++
	}
	return sb.String()
}

// jsonRoundTrip: MarshalJSON, UnmarshalJSON into a new object of the same dynamic type
func jsonRoundTrip(o any) (any, string) {
	m, ok := o.(json.Marshaler)
	if !ok {
		return nil, "no-marshaler"
	}
	b, err := m.MarshalJSON()
	if err != nil {
		return nil, "marshal-error"
	}
	t := reflect.TypeOf(o)
	var z reflect.Value
	if t.Kind() == reflect.Ptr {
		z = reflect.New(t.Elem())
	} else {
		z = reflect.New(t)
	}
	u, ok := z.Interface().(json.Unmarshaler)
	if !ok {
		return nil, "no-unmarshaler"
	}
	if err := u.UnmarshalJSON(b); err != nil {
		return nil, "unmarshal-error: " + err.Error()
	}
	if t.Kind() == reflect.Ptr {
		return z.Interface(), ""
	}
	return z.Elem().Interface(), ""
}

// derived lists the derived observations of o. full: the copy promises derivatives and the
// same type and storage class (everything is compared, including printed forms and iterator
// sequences); otherwise values only and only what does not depend on the storage class.
// T is the element type of the receivers of the arithmetic (the source's).
func derived(o any, full bool, T ad.ScalarType) (L []nv) {
	ob := func(x any) string {
		if full {
			return obs(x, true)
		}
		return obsValues(x)
	}
	add := func(name string, f func() string) {
		val := ""
		if perr := try(func() { val = f() }); perr != "" {
			val = "PANIC"
			if strings.Contains(perr, "not implemented") {
				val = "NOT-IMPLEMENTED"
			}
		}
		L = append(L, nv{name, val})
	}
	rt := func(x any) string {
		z, e := jsonRoundTrip(x)
		if e != "" {
			return e
		}
		return ob(z)
	}
	switch v := o.(type) {
	case ad.ConstVector:
		n := v.Dim()
		for i := 0; i <= n; i++ {
			for j := i + 1; j <= n; j++ {
				i, j := i, j
				add(fmt.Sprintf("ConstSlice(%d,%d)", i, j), func() string { return ob(v.ConstSlice(i, j)) })
			}
		}
		if n > 0 {
			add("AsConstMatrix(n,1)", func() string { return ob(v.AsConstMatrix(n, 1)) })
			add("AsConstMatrix(1,n)", func() string { return ob(v.AsConstMatrix(1, n)) })
		}
		add("JSON-roundtrip", func() string { return rt(v) })
		add("VaddV:a", func() string { return ob(ad.NullDenseVector(T, n).VaddV(v, opVec(T, n, 1))) })
		add("VmulV:b/sparse", func() string { return ob(ad.NullSparseVector(T, n).VmulV(opVec(T, n, 1), v)) })
		add("VdotV", func() string { return ob(ad.NullScalar(T).VdotV(v, opVec(T, n, 2))) })
		add("MdotV:b", func() string { return ob(ad.NullDenseVector(T, 2).MdotV(opMat(T, 2, n, 0), v)) })
		add("VdotM:a", func() string { return ob(ad.NullDenseVector(T, 2).VdotM(v, opMat(T, n, 2, 1))) })
		add("Outer:a", func() string { return ob(ad.NullDenseMatrix(T, n, 2).Outer(v, opVec(T, 2, 0))) })
		add("Set:a", func() string { z := ad.NullSparseVector(T, n); z.Set(v); return ob(z) })
		add("AsDenseVector", func() string { return ob(ad.AsDenseVector(T, v)) })
		add("AsSparseVector", func() string { return ob(ad.AsSparseVector(T, v)) })
		if full {
			add("String", func() string { return fmt.Sprint(v) })
			add("Table", func() string { return v.Table() })
			for i := 0; i < n; i++ {
				i := i
				add(fmt.Sprintf("ConstIteratorFrom(%d)", i), func() string {
					it := v.ConstIteratorFrom(i)
					return vecSeq(it, func() (int, ad.ConstScalar) { return it.Index(), it.GetConst() })
				})
			}
			add("ConstJointIterator", func() string {
				var sb strings.Builder
				k := 0
				for it := v.ConstJointIterator(opVec(T, n, 0)); it.Ok() && k < 16; it.Next() {
					a, b := it.GetConst()
					fmt.Fprintf(&sb, "%d:", it.Index())
					obsScalarTo(&sb, a, false)
					sb.WriteByte('/')
					obsScalarTo(&sb, b, false)
					sb.WriteByte(' ')
					k++
				}
				return sb.String()
			})
		}
		m, ok := o.(ad.Vector)
		if !ok {
			return L
		}
		for i := 0; i <= n; i++ {
			for j := i + 1; j <= n; j++ {
				i, j := i, j
				add(fmt.Sprintf("Slice(%d,%d)", i, j), func() string { return ob(m.Slice(i, j)) })
			}
		}
		if n > 0 {
			add("AsMatrix(n,1)", func() string { return ob(m.AsMatrix(n, 1)) })
			add("AsMatrix(1,n).T", func() string { return ob(m.AsMatrix(1, n).T()) })
		}
		add("CloneVector", func() string { return ob(m.CloneVector()) })
		if full {
			add("Iterator", func() string {
				it := m.Iterator()
				return vecSeq(it, func() (int, ad.ConstScalar) { return it.Index(), it.GetConst() })
			})
			for i := 0; i < n; i++ {
				i := i
				add(fmt.Sprintf("IteratorFrom(%d)", i), func() string {
					it := m.IteratorFrom(i)
					return vecSeq(it, func() (int, ad.ConstScalar) { return it.Index(), it.GetConst() })
				})
			}
			add("Export-Import", func() string {
				fn := derivedFile("v.table")
				if err := m.Export(fn); err != nil {
					return "export-error"
				}
				z := reflect.New(reflect.TypeOf(o))
				if reflect.TypeOf(o).Kind() == reflect.Ptr {
					z = reflect.New(reflect.TypeOf(o).Elem())
				}
				out, ok := callM(z.Interface(), "Import", fn)
				if !ok {
					return "no-import"
				}
				if !out[0].IsNil() {
					return "import-error"
				}
				if reflect.TypeOf(o).Kind() == reflect.Ptr {
					return obsValues(z.Interface())
				}
				return obsValues(z.Elem().Interface())
			})
		}
	case ad.ConstMatrix:
		r, c := v.Dims()
		type win [4]int
		var wins []win
		for r0 := 0; r0 <= r; r0++ {
			for r1 := r0 + 1; r1 <= r; r1++ {
				for c0 := 0; c0 <= c; c0++ {
					for c1 := c0 + 1; c1 <= c; c1++ {
						wins = append(wins, win{r0, r1, c0, c1})
					}
				}
			}
		}
		add("AsConstVector", func() string { return sortedElems(v.AsConstVector(), full) })
		for _, w := range wins {
			w := w
			add(fmt.Sprintf("ConstSlice(%d,%d,%d,%d)", w[0], w[1], w[2], w[3]), func() string { return ob(v.ConstSlice(w[0], w[1], w[2], w[3])) })
			add(fmt.Sprintf("ConstSlice(%d,%d,%d,%d).AsConstVector", w[0], w[1], w[2], w[3]), func() string {
				return sortedElems(v.ConstSlice(w[0], w[1], w[2], w[3]).AsConstVector(), full)
			})
		}
		// (rows and columns of an empty matrix: C10's subject)
		for i := 0; i < r && c > 0; i++ {
			i := i
			add(fmt.Sprintf("ConstRow(%d)", i), func() string { return ob(v.ConstRow(i)) })
		}
		for j := 0; j < c && r > 0; j++ {
			j := j
			add(fmt.Sprintf("ConstCol(%d)", j), func() string { return ob(v.ConstCol(j)) })
		}
		if r > 0 && c > 0 {
			add("ConstDiag", func() string { return ob(v.ConstDiag()) })
		}
		add("JSON-roundtrip", func() string { return rt(v) })
		if r > 0 && c > 0 {
			add("MaddM:a", func() string { return ob(ad.NullDenseMatrix(T, r, c).MaddM(v, opMat(T, r, c, 1))) })
			add("MmulM:b/sparse", func() string { return ob(ad.NullSparseMatrix(T, r, c).MmulM(opMat(T, r, c, 1), v)) })
			add("MdotM:a", func() string { return ob(ad.NullDenseMatrix(T, r, 2).MdotM(v, opMat(T, c, 2, 0))) })
			add("MdotM:b/sparse", func() string { return ob(ad.NullSparseMatrix(T, 2, c).MdotM(opMat(T, 2, r, 0), v)) })
			add("MdotV:a", func() string { return ob(ad.NullDenseVector(T, r).MdotV(v, opVec(T, c, 0))) })
			add("VdotM:b", func() string { return ob(ad.NullDenseVector(T, c).VdotM(opVec(T, r, 0), v)) })
			add("Mtrace", func() string { return ob(ad.NullScalar(T).Mtrace(v)) })
			add("Set:a", func() string { z := ad.NullSparseMatrix(T, r, c); z.Set(v); return ob(z) })
			add("AsDenseMatrix", func() string { return ob(ad.AsDenseMatrix(T, v)) })
			add("AsSparseMatrix", func() string { return ob(ad.AsSparseMatrix(T, v)) })
		}
		if full {
			add("String", func() string { return fmt.Sprint(v) })
			add("Table", func() string { return v.Table() })
			for i := 0; i < r; i++ {
				for j := 0; j < c; j++ {
					i, j := i, j
					add(fmt.Sprintf("ConstIteratorFrom(%d,%d)", i, j), func() string {
						it := v.ConstIteratorFrom(i, j)
						return matSeq(it, func() (int, int, ad.ConstScalar) { a, b := it.Index(); return a, b, it.GetConst() })
					})
				}
			}
		}
		m, ok := o.(ad.Matrix)
		if !ok {
			return L
		}
		add("AsVector", func() string { return sortedElems(m.AsVector(), full) })
		add("T", func() string { return ob(m.T()) })
		add("T.T", func() string { return ob(m.T().T()) })
		add("T.AsVector", func() string { return sortedElems(m.T().AsVector(), full) })
		add("T.JSON-roundtrip", func() string { return rt(m.T()) })
		add("CloneMatrix", func() string { return ob(m.CloneMatrix()) })
		add("CloneMatrix.T", func() string { return ob(m.CloneMatrix().T()) })
		add("CloneMatrix.AsVector", func() string { return sortedElems(m.CloneMatrix().AsVector(), full) })
		for _, w := range wins {
			w := w
			add(fmt.Sprintf("Slice(%d,%d,%d,%d)", w[0], w[1], w[2], w[3]), func() string { return ob(m.Slice(w[0], w[1], w[2], w[3])) })
			add(fmt.Sprintf("Slice(%d,%d,%d,%d).T", w[0], w[1], w[2], w[3]), func() string { return ob(m.Slice(w[0], w[1], w[2], w[3]).T()) })
			add(fmt.Sprintf("Slice(%d,%d,%d,%d).AsVector", w[0], w[1], w[2], w[3]), func() string {
				return sortedElems(m.Slice(w[0], w[1], w[2], w[3]).AsVector(), full)
			})
		}
		for i := 0; i < r && c > 0; i++ {
			i := i
			add(fmt.Sprintf("Row(%d)", i), func() string { return ob(m.Row(i)) })
		}
		for j := 0; j < c && r > 0; j++ {
			j := j
			add(fmt.Sprintf("Col(%d)", j), func() string { return ob(m.Col(j)) })
		}
		if r > 0 && c > 0 {
			add("Diag", func() string { return ob(m.Diag()) })
		}
		if full {
			add("Iterator", func() string {
				it := m.Iterator()
				return matSeq(it, func() (int, int, ad.ConstScalar) { a, b := it.Index(); return a, b, it.GetConst() })
			})
			for i := 0; i < r; i++ {
				for j := 0; j < c; j++ {
					i, j := i, j
					add(fmt.Sprintf("IteratorFrom(%d,%d)", i, j), func() string {
						it := m.IteratorFrom(i, j)
						return matSeq(it, func() (int, int, ad.ConstScalar) { a, b := it.Index(); return a, b, it.GetConst() })
					})
				}
			}
			add("JointIterator", func() string {
				var sb strings.Builder
				k := 0
				for it := m.JointIterator(opMat(T, r, c, 0)); it.Ok() && k < 32; it.Next() {
					a, b := it.GetConst()
					i, j := it.Index()
					fmt.Fprintf(&sb, "%d,%d:", i, j)
					obsScalarTo(&sb, a, false)
					sb.WriteByte('/')
					obsScalarTo(&sb, b, false)
					sb.WriteByte(' ')
					k++
				}
				return sb.String()
			})
			add("Export-Import", func() string {
				fn := derivedFile("m.table")
				if err := m.Export(fn); err != nil {
					return "export-error"
				}
				z := reflect.New(reflect.TypeOf(o).Elem())
				out, ok := callM(z.Interface(), "Import", fn)
				if !ok {
					return "no-import"
				}
				if !out[0].IsNil() {
					return "import-error"
				}
				return obsValues(z.Interface())
			})
		}
	case ad.ConstScalar:
		add("JSON-roundtrip", func() string { return rt(v) })
		add("Add:a", func() string { return ob(ad.NullScalar(T).Add(v, ad.NewScalar(T, 1))) })
		add("Mul:b", func() string { return ob(ad.NullScalar(T).Mul(ad.NewScalar(T, 3), v)) })
		if full {
			add("String", func() string { return fmt.Sprint(v) })
			add("Mul:a/Real64", func() string { return ob(ad.NullReal64().Mul(v, v)) })
		}
	}
	return L
}

// DCase: derived observations of the copy `Ctor` of `D` against those of the source
type DCase struct {
	D    Desc   `json:"object"`
	Ctor string `json:"ctor"`
	Key  string `json:"key"`
}

func derivedName(name string) string {
	// structural part of an observation name: drop the indices
	var sb strings.Builder
	depth := 0
	for _, r := range name {
		switch {
		case r == '(':
			depth++
		case r == ')':
			depth--
		case depth == 0:
			sb.WriteRune(r)
		}
	}
	return sb.String()
}

func runDCase(cs DCase, srcObs map[string]string) (fails []failure, outcome string) {
	d := cs.D
	var ct *ctor
	for _, c := range ctors(d, true) {
		if c.name == cs.Ctor {
			c := c
			ct = &c
		}
	}
	if ct == nil {
		return nil, "no-ctor"
	}
	w := build(d)
	if w.err != "" {
		return nil, "view-unbuildable"
	}
	T := typOf(w.obj)
	if srcObs == nil {
		srcObs = derivedMap(d, ct.full)
	}
	var cp any
	if perr := try(func() { cp = ct.f(w.obj) }); perr != "" || cp == nil {
		return nil, "no-copy" // reported by the independence part
	}
	n, differ := 0, 0
	seen := map[string]bool{}
	for _, x := range derived(cp, ct.full, T) {
		want, ok := srcObs[x.name]
		if !ok {
			continue
		}
		n++
		if want == x.val || strings.Contains(want, "PANIC") {
			continue // a derived observation the source itself cannot deliver is C10's subject
		}
		if x.val == "NOT-IMPLEMENTED" || x.val == "no-unmarshaler" || want == "NOT-IMPLEMENTED" || want == "no-unmarshaler" {
			n--
			continue // the type of one side does not offer the operation (const containers)
		}
		differ++
		key := fmt.Sprintf("not-equal-derived|%s|%s|%s|%s|%s", d.Kind, d.Sto, viewClass(d), ctorFamily(ct.name), derivedName(x.name))
		if seen[key] {
			continue
		}
		seen[key] = true
		fails = append(fails, failure{key, fmt.Sprintf("%s of %v: %s of the copy is %s, of the source %s", ct.name, d, x.name, x.val, want)})
	}
	switch {
	case differ > 0:
		return fails, "fail"
	case n == 0:
		return nil, "nothing-comparable"
	}
	return nil, "equal"
}

// derivedMap: the derived observations of a freshly built source
func derivedMap(d Desc, full bool) map[string]string {
	w := build(d)
	m := map[string]string{}
	for _, x := range derived(w.obj, full, typOf(w.obj)) {
		m[x.name] = x.val
	}
	return m
}
