package main

import (
	"fmt"
	"math"
	"reflect"
	"strings"

	ad "github.com/pbenner/autodiff"
	"github.com/pbenner/autodiff/algorithm/adam"
	"github.com/pbenner/autodiff/algorithm/backSubstitution"
	"github.com/pbenner/autodiff/algorithm/bfgs"
	"github.com/pbenner/autodiff/algorithm/blahut"
	"github.com/pbenner/autodiff/algorithm/cholesky"
	"github.com/pbenner/autodiff/algorithm/determinant"
	"github.com/pbenner/autodiff/algorithm/eigensystem"
	"github.com/pbenner/autodiff/algorithm/gaussJordan"
	"github.com/pbenner/autodiff/algorithm/gradientDescent"
	"github.com/pbenner/autodiff/algorithm/gramSchmidt"
	"github.com/pbenner/autodiff/algorithm/hessenbergReduction"
	"github.com/pbenner/autodiff/algorithm/householderBidiagonalization"
	"github.com/pbenner/autodiff/algorithm/householderTridiagonalization"
	"github.com/pbenner/autodiff/algorithm/lineSearch"
	"github.com/pbenner/autodiff/algorithm/matrixInverse"
	"github.com/pbenner/autodiff/algorithm/msqrt"
	"github.com/pbenner/autodiff/algorithm/msqrtInv"
	"github.com/pbenner/autodiff/algorithm/newton"
	"github.com/pbenner/autodiff/algorithm/qrAlgorithm"
	"github.com/pbenner/autodiff/algorithm/rprop"
	"github.com/pbenner/autodiff/algorithm/saga"
	"github.com/pbenner/autodiff/algorithm/svd"
)

// The caller's OPTION SLICE is an object of the caller as well. Every entry point under
// algorithm/ takes its options as `args ...interface{}`; a caller that keeps its options in a
// slice and calls `Run(x, opts...)` hands the library that very slice (same backing array,
// same spare capacity) - with literal options the compiler builds a fresh slice per call and
// nothing the library does to `args` is observable. Entry points that split their options into
// consumed and forwarded ones (matrixInverse -> gaussJordan, eigensystem -> qrAlgorithm,
// newton.Run* -> run_root / run_min) or add internal options to the forwarded list are where a
// filter-in-place or an append reaches the caller.
//
// For every entry point x every option set (the ones of the algorithm-input and two-call parts,
// plus the InSitu object and the options forwarded to the nested algorithm as further set
// members) x every rotation of the option list and of its reversal (every cyclic neighbourhood
// in both directions; all permutations up to 3 options) x spare capacity {0, 4} (thorough {0, 1, 4})
// of the caller's slice x element type x input:
//   - after the call the caller's slice, inspected up to its CAPACITY (the spare region holds
//     sentinels), is element-wise identical: same dynamic type, same value, same pointer for
//     pointer-typed options (*InSitu, regularisation objects), same function / backing array
//     for options holding a func / slice, and unchanged scalar fields behind pointers that are
//     not InSitu objects;
//   - a second call with the same slice on an identically built input ends the same way and
//     returns the same results as the first.

type OCase struct {
	Algo  string `json:"entry_point"`
	Opt   int    `json:"option_set"`
	Typ   string `json:"type"`
	In    int    `json:"input"`
	Order int    `json:"arrangement"` // index into optArrangements(number of options)
	Spare int    `json:"spare_capacity"`
	Key   string `json:"key"`
}

type osAlgo struct {
	name  string
	nOpts int
	vec   bool     // inputs are the start vectors algoX0 (otherwise the matrices algoMats)
	typs  []string // nil: Float64, Real64
	// opts builds the option objects of one option set (fresh objects on every call)
	opts func(opt int, T ad.ScalarType, n int) []interface{}
	// input builds fresh input objects of the call
	input func(typ string, k, opt int) []any
	// run calls the entry point with the caller's slice: Run(x, opts...)
	run func(in []any, opts []interface{}) ([]any, error)
}

type optSentinel struct{ I int }

func osMatInput(typ string, k, opt int) []any { return tcMatInput(typ, k, opt) }

func osVecInput(typ string, k, opt int) []any {
	x, _ := algoVector(typ, k, "owning")
	return []any{x}
}

func submatrixOpt(n int) gaussJordan.Submatrix {
	s := make([]bool, n)
	for i := 0; i < n-1; i++ {
		s[i] = true
	}
	return gaussJordan.Submatrix{Value: s}
}

func lineObjective(x ad.ConstScalar) (ad.MagicScalar, error) {
	// (x-1)^2 + x^4/4: descends at 0
	t1 := ad.NullReal64()
	t2 := ad.NullReal64()
	t1.Sub(x, ad.ConstFloat64(1))
	t1.Mul(t1, t1)
	t2.Mul(x, x)
	t2.Mul(t2, t2)
	t2.Mul(t2, ad.ConstFloat64(0.25))
	t1.Add(t1, t2)
	return t1, nil
}

func blahutInput(typ string, k, opt int) []any {
	ch, _ := algoMatrix(typ, k, "owning")
	n, _ := ch.Dims()
	for i := 0; i < n; i++ {
		for j := 0; j < n; j++ {
			if i == j {
				ch.At(i, j).SetFloat64(0.75 - 0.25*float64(n-2))
			} else {
				ch.At(i, j).SetFloat64(0.25)
			}
		}
	}
	p := ad.NullDenseVector(scalarType(typ), n)
	for i := 0; i < n; i++ {
		p.At(i).SetFloat64(1 / float64(n))
	}
	return []any{ch, p}
}

func newtonOpts(opt int, T ad.ScalarType, n int) []interface{} {
	o := []interface{}{newton.Epsilon{Value: 1e-8}, newton.MaxIterations{Value: 50},
		newton.HessianModification{Value: []string{"None", "LDL", "Eigenvalue"}[opt%3]}}
	if opt >= 3 {
		o = append(o, &newton.InSitu{})
	}
	return o
}

var osAlgos = []osAlgo{
	{
		// option set: {-, PositiveDefinite, UpperTriangular} x {-, *InSitu} x {-, gaussJordan.Submatrix (forwarded)}
		name: "matrixInverse.Run", nOpts: 12, input: func(typ string, k, opt int) []any {
			m, _ := algoMatrix(typ, k, "owning")
			if opt%3 == 2 {
				triu(m)
			}
			return []any{m}
		},
		opts: func(opt int, T ad.ScalarType, n int) []interface{} {
			var o []interface{}
			switch opt % 3 {
			case 1:
				o = append(o, matrixInverse.PositiveDefinite{Value: true})
			case 2:
				o = append(o, matrixInverse.UpperTriangular{Value: true})
			}
			if (opt/3)&1 != 0 {
				o = append(o, &matrixInverse.InSitu{})
			}
			if (opt/3)&2 != 0 {
				o = append(o, submatrixOpt(n))
			}
			return o
		},
		run: func(in []any, opts []interface{}) ([]any, error) {
			x, err := matrixInverse.Run(in[0].(ad.Matrix), opts...)
			return res(x), err
		},
	},
	{
		name: "determinant.Run", nOpts: 6, input: osMatInput,
		opts: func(opt int, T ad.ScalarType, n int) []interface{} {
			var o []interface{}
			if opt%3 >= 1 {
				o = append(o, determinant.PositiveDefinite{Value: true})
			}
			if opt%3 >= 2 {
				o = append(o, determinant.LogScale{Value: true})
			}
			if opt >= 3 {
				o = append(o, &determinant.InSitu{})
			}
			return o
		},
		run: func(in []any, opts []interface{}) ([]any, error) {
			d, err := determinant.Run(in[0].(ad.Matrix), opts...)
			return res(d), err
		},
	},
	{
		name: "cholesky.Run", nOpts: 6, input: osMatInput,
		opts: func(opt int, T ad.ScalarType, n int) []interface{} {
			var o []interface{}
			if opt%3 >= 1 {
				o = append(o, cholesky.LDL{Value: true})
			}
			if opt%3 >= 2 {
				o = append(o, cholesky.ForcePD{Value: true})
			}
			if opt >= 3 {
				o = append(o, &cholesky.InSitu{})
			}
			return o
		},
		run: func(in []any, opts []interface{}) ([]any, error) {
			l, d, err := cholesky.Run(in[0].(ad.Matrix), opts...)
			return res(l, d), err
		},
	},
	{
		name: "qrAlgorithm.Run", nOpts: 8, input: osMatInput,
		opts: func(opt int, T ad.ScalarType, n int) []interface{} {
			o := []interface{}{qrAlgorithm.ComputeU{Value: opt&1 != 0}, qrAlgorithm.Symmetric{Value: opt&2 != 0}, qrAlgorithm.Epsilon{Value: 1e-10}}
			if opt&4 != 0 {
				o = append(o, &qrAlgorithm.InSitu{InitializeH: true, InitializeU: true})
			}
			return o
		},
		run: func(in []any, opts []interface{}) ([]any, error) {
			h, u, err := qrAlgorithm.Run(in[0].(ad.Matrix), opts...)
			return res(h, u), err
		},
	},
	{
		name: "svd.Run", nOpts: 8, input: osMatInput,
		opts: func(opt int, T ad.ScalarType, n int) []interface{} {
			o := []interface{}{svd.ComputeU{Value: opt&1 != 0}, svd.ComputeV{Value: opt&2 != 0}}
			if opt&4 != 0 {
				o = append(o, &svd.InSitu{})
			}
			return o
		},
		run: func(in []any, opts []interface{}) ([]any, error) {
			h, u, v, err := svd.Run(in[0].(ad.Matrix), opts...)
			return res(h, u, v), err
		},
	},
	{
		// qrAlgorithm.Epsilon is forwarded to the nested qrAlgorithm
		// option set: {ComputeEigenvectors x Symmetric, neither (forwarded options only)} x {-, *InSitu}
		name: "eigensystem.Run", nOpts: 10, input: osMatInput,
		opts: func(opt int, T ad.ScalarType, n int) []interface{} {
			var o []interface{}
			if opt%5 < 4 {
				o = append(o, eigensystem.ComputeEigenvectors{Value: opt%5&1 != 0}, eigensystem.Symmetric{Value: opt%5&2 != 0})
			}
			o = append(o, qrAlgorithm.Epsilon{Value: 1e-10})
			if opt >= 5 {
				o = append(o, &eigensystem.InSitu{})
			}
			return o
		},
		run: func(in []any, opts []interface{}) ([]any, error) {
			e, v, err := eigensystem.Run(in[0].(ad.Matrix), opts...)
			return res(e, v), err
		},
	},
	{
		name: "hessenbergReduction.Run", nOpts: 8, input: osMatInput,
		opts: func(opt int, T ad.ScalarType, n int) []interface{} {
			o := []interface{}{hessenbergReduction.ComputeU{Value: opt&1 != 0}, hessenbergReduction.SetZero{Value: opt&2 != 0}}
			if opt&4 != 0 {
				o = append(o, &hessenbergReduction.InSitu{})
			}
			return o
		},
		run: func(in []any, opts []interface{}) ([]any, error) {
			h, u, err := hessenbergReduction.Run(in[0].(ad.Matrix), opts...)
			return res(h, u), err
		},
	},
	{
		name: "householderBidiagonalization.Run", nOpts: 8, input: osMatInput,
		opts: func(opt int, T ad.ScalarType, n int) []interface{} {
			o := []interface{}{householderBidiagonalization.ComputeU{Value: opt&1 != 0}, householderBidiagonalization.ComputeV{Value: opt&2 != 0}}
			if opt&4 != 0 {
				o = append(o, &householderBidiagonalization.InSitu{})
			}
			return o
		},
		run: func(in []any, opts []interface{}) ([]any, error) {
			a, u, v, err := householderBidiagonalization.Run(in[0].(ad.Matrix), opts...)
			return res(a, u, v), err
		},
	},
	{
		name: "householderTridiagonalization.Run", nOpts: 4, input: osMatInput,
		opts: func(opt int, T ad.ScalarType, n int) []interface{} {
			o := []interface{}{householderTridiagonalization.ComputeU{Value: opt&1 != 0}}
			if opt&2 != 0 {
				o = append(o, &householderTridiagonalization.InSitu{})
			}
			return o
		},
		run: func(in []any, opts []interface{}) ([]any, error) {
			a, u, err := householderTridiagonalization.Run(in[0].(ad.Matrix), opts...)
			return res(a, u), err
		},
	},
	{
		name: "backSubstitution.Run", nOpts: 2,
		input: func(typ string, k, opt int) []any { return findTcAlgo("backSubstitution").input(typ, k, opt) },
		opts: func(opt int, T ad.ScalarType, n int) []interface{} {
			if opt == 1 {
				return []interface{}{&backSubstitution.InSitu{}}
			}
			return nil
		},
		run: func(in []any, opts []interface{}) ([]any, error) {
			x, err := backSubstitution.Run(in[0].(ad.Matrix), in[1].(ad.Vector), opts...)
			return res(x), err
		},
	},
	{
		// InSitu is passed by value and holds the two result matrices
		name: "gramSchmidt.Run", nOpts: 2, input: osMatInput,
		opts: func(opt int, T ad.ScalarType, n int) []interface{} {
			if opt == 1 {
				return []interface{}{gramSchmidt.InSitu{Q: dm(T, n), R: dm(T, n)}}
			}
			return nil
		},
		run: func(in []any, opts []interface{}) ([]any, error) {
			q, r, err := gramSchmidt.Run(in[0].(ad.Matrix), opts...)
			return res(q, r), err
		},
	},
	{
		// works in its arguments: a, x and b are observed as the results
		name: "gaussJordan.Run", nOpts: 4,
		input: func(typ string, k, opt int) []any {
			m, _ := algoMatrix(typ, k, "owning")
			if opt&1 != 0 {
				triu(m)
			}
			n, _ := m.Dims()
			T := scalarType(typ)
			x := dm(T, n)
			x.SetIdentity()
			b := ad.NullDenseVector(T, n)
			for i := 0; i < n; i++ {
				b.At(i).SetFloat64(1)
			}
			return []any{m, x, b}
		},
		opts: func(opt int, T ad.ScalarType, n int) []interface{} {
			var o []interface{}
			if opt&1 != 0 {
				o = append(o, gaussJordan.UpperTriangular{Value: true})
			}
			if opt&2 != 0 {
				o = append(o, submatrixOpt(n))
			}
			return o
		},
		run: func(in []any, opts []interface{}) ([]any, error) {
			err := gaussJordan.Run(in[0].(ad.Matrix), in[1].(ad.Matrix), in[2].(ad.Vector), opts...)
			return res(in[0], in[1], in[2]), err
		},
	},
	{
		name: "msqrt.Run", nOpts: 1, input: osMatInput,
		opts: func(opt int, T ad.ScalarType, n int) []interface{} { return nil },
		run: func(in []any, opts []interface{}) ([]any, error) {
			x, err := msqrt.Run(in[0].(ad.Matrix), opts...)
			return res(x), err
		},
	},
	{
		name: "msqrtInv.Run", nOpts: 1, input: osMatInput,
		opts: func(opt int, T ad.ScalarType, n int) []interface{} { return nil },
		run: func(in []any, opts []interface{}) ([]any, error) {
			x, err := msqrtInv.Run(in[0].(ad.Matrix), opts...)
			return res(x), err
		},
	},
	{
		name: "blahut.Run", nOpts: 2, input: blahutInput,
		opts: func(opt int, T ad.ScalarType, n int) []interface{} {
			if opt == 1 {
				return []interface{}{blahut.Lambda{Value: 0.5}}
			}
			return nil
		},
		run: func(in []any, opts []interface{}) ([]any, error) {
			p := blahut.Run(in[0].(ad.Matrix), in[1].(ad.Vector), 5, opts...)
			return res(p), nil
		},
	},
	{
		name: "blahut.RunNaive", nOpts: 2, typs: []string{"Float64"}, input: blahutInput,
		opts: func(opt int, T ad.ScalarType, n int) []interface{} {
			if opt == 1 {
				return []interface{}{blahut.Lambda{Value: 0.5}}
			}
			return nil
		},
		run: func(in []any, opts []interface{}) ([]any, error) {
			m := in[0].(ad.Matrix)
			n, _ := m.Dims()
			ch := make([][]float64, n)
			pi := make([]float64, n)
			for i := 0; i < n; i++ {
				pi[i] = in[1].(ad.Vector).ConstAt(i).GetFloat64()
				for j := 0; j < n; j++ {
					ch[i] = append(ch[i], m.ConstAt(i, j).GetFloat64())
				}
			}
			p := blahut.RunNaive(ch, pi, 5, opts...)
			return res(ad.NewDenseFloat64Vector(p)), nil
		},
	},
	{
		name: "rprop.Run", nOpts: 2, vec: true, input: osVecInput,
		opts: func(opt int, T ad.ScalarType, n int) []interface{} {
			o := []interface{}{rprop.Epsilon{Value: 1e-6}}
			if opt == 1 {
				o = append(o, rprop.MaxIterations{Value: 200})
			}
			return o
		},
		run: func(in []any, opts []interface{}) ([]any, error) {
			x, err := rprop.Run(objective, in[0].(ad.Vector), 0.01, []float64{1.2, 0.5}, opts...)
			return res(x), err
		},
	},
	{
		name: "rprop.RunGradient", nOpts: 2, vec: true, typs: []string{"Float64"}, input: osVecInput,
		opts: func(opt int, T ad.ScalarType, n int) []interface{} {
			o := []interface{}{rprop.Epsilon{Value: 1e-6}}
			if opt == 1 {
				o = append(o, rprop.MaxIterations{Value: 200})
			}
			return o
		},
		run: func(in []any, opts []interface{}) ([]any, error) {
			x, err := rprop.RunGradient(rprop.DenseGradientF(objectiveGradient), in[0].(ad.Vector), 0.01, []float64{1.2, 0.5}, opts...)
			return res(x), err
		},
	},
	{
		name: "bfgs.Run", nOpts: 2, vec: true, input: osVecInput,
		opts: func(opt int, T ad.ScalarType, n int) []interface{} {
			o := []interface{}{bfgs.Epsilon{Value: 1e-6}}
			if opt == 1 {
				o = append(o, bfgs.MaxIterations{Value: 50})
			}
			return o
		},
		run: func(in []any, opts []interface{}) ([]any, error) {
			x, err := bfgs.Run(objective, in[0].(ad.Vector), opts...)
			return res(x), err
		},
	},
	{
		// option set: HessianModification {None, LDL, Eigenvalue} x {-, *InSitu}
		name: "newton.RunRoot", nOpts: 6, vec: true, input: osVecInput, opts: newtonOpts,
		run: func(in []any, opts []interface{}) ([]any, error) {
			x, err := newton.RunRoot(gradientAsRoot, in[0].(ad.Vector), opts...)
			return res(x), err
		},
	},
	{
		name: "newton.RunCrit", nOpts: 6, vec: true, input: osVecInput, opts: newtonOpts,
		run: func(in []any, opts []interface{}) ([]any, error) {
			x, err := newton.RunCrit(objective, in[0].(ad.Vector), opts...)
			return res(x), err
		},
	},
	{
		name: "newton.RunMin", nOpts: 6, vec: true, input: osVecInput, opts: newtonOpts,
		run: func(in []any, opts []interface{}) ([]any, error) {
			x, err := newton.RunMin(objective, in[0].(ad.Vector), opts...)
			return res(x), err
		},
	},
	{
		name: "gradientDescent.Run", nOpts: 2, vec: true, input: osVecInput,
		opts: func(opt int, T ad.ScalarType, n int) []interface{} {
			if opt == 1 {
				return []interface{}{gradientDescent.Epsilon{Value: 1e-4}}
			}
			return nil
		},
		run: func(in []any, opts []interface{}) ([]any, error) {
			x, err := gradientDescent.Run(objective, in[0].(ad.Vector), 0.05, opts...)
			return res(x), err
		},
	},
	{
		name: "adam.Run", nOpts: 2, vec: true, input: osVecInput,
		opts: func(opt int, T ad.ScalarType, n int) []interface{} {
			o := []interface{}{adam.MaxIterations{Value: 30}}
			if opt == 1 {
				o = append(o, adam.StepSize{Value: 0.05})
			}
			return o
		},
		run: func(in []any, opts []interface{}) ([]any, error) {
			x, err := adam.Run(objective, in[0].(ad.Vector), opts...)
			return res(x), err
		},
	},
	{
		name: "adam.RunGradient", nOpts: 2, vec: true, typs: []string{"Float64"}, input: osVecInput,
		opts: func(opt int, T ad.ScalarType, n int) []interface{} {
			o := []interface{}{adam.MaxIterations{Value: 30}}
			if opt == 1 {
				o = append(o, adam.Epsilon{Value: 1e-8})
			}
			return o
		},
		run: func(in []any, opts []interface{}) ([]any, error) {
			x, err := adam.RunGradient(adam.DenseGradientF(objectiveGradient), in[0].(ad.Vector), opts...)
			return res(x), err
		},
	},
	{
		// option set: the 8 regularisation variants of the algorithm-input part x {-, *InSitu}
		name: "saga.Run", nOpts: 16, vec: true, input: osVecInput,
		opts: func(opt int, T ad.ScalarType, n int) []interface{} {
			o := []interface{}{saga.Epsilon{Value: 1e-6}, saga.Gamma{Value: 0.1}, saga.Seed{Value: 1}, saga.MaxIterations{Value: 20}}
			switch opt % 8 {
			case 1:
				o = append(o, saga.L1Regularization{Value: 0.125})
			case 2:
				o = append(o, saga.TikhonovRegularization{Value: 0.125})
			case 3:
				o = append(o, saga.L2Regularization{Value: 0.125})
			case 4:
				o = append(o, saga.JitUpdate{Value: &saga.JitUpdateL1{Lambda: 0.125}})
			case 5:
				o = append(o, saga.ProximalOperator{Value: &saga.ProximalOperatorL1{Lambda: 0.125}})
			case 6:
				o = append(o, saga.ProximalOperator{Value: &saga.ProximalOperatorL2{Lambda: 0.125}})
			case 7:
				o = append(o, saga.ProximalOperator{Value: &saga.ProximalOperatorTi{Lambda: 0.125}})
			}
			if opt >= 8 {
				o = append(o, &saga.InSitu{})
			}
			return o
		},
		run: func(in []any, opts []interface{}) ([]any, error) {
			// the objective variant is chosen by the regularisation option, wherever it stands
			variant := 0
			for _, o := range opts {
				switch o.(type) {
				case saga.L1Regularization:
					variant = 1
				case saga.TikhonovRegularization:
					variant = 2
				case saga.L2Regularization:
					variant = 3
				case saga.JitUpdate:
					variant = 4
				case saga.ProximalOperator:
					switch o.(saga.ProximalOperator).Value.(type) {
					case *saga.ProximalOperatorL1:
						variant = 0
					case *saga.ProximalOperatorL2:
						variant = 1
					default:
						variant = 2
					}
				}
			}
			x, _, err := saga.Run(sagaObjective(variant), len(sagaData), in[0].(ad.Vector), opts...)
			return res(x), err
		},
	},
	{
		// no container input; the options are the only caller-held object
		name: "lineSearch.Run", nOpts: 2, vec: true,
		input: func(typ string, k, opt int) []any { return nil },
		opts: func(opt int, T ad.ScalarType, n int) []interface{} {
			if opt == 1 {
				return []interface{}{lineSearch.Parameters{Alpha1: 1.0, MaxEval: 20}}
			}
			return nil
		},
		run: nil, // called in osCall (needs the element type)
	},
}

func findOsAlgo(name string) *osAlgo {
	for i := range osAlgos {
		if osAlgos[i].name == name {
			return &osAlgos[i]
		}
	}
	return nil
}

// optArrangements: every rotation of (0..k-1) and of its reversal, duplicates removed, the
// identity first. k <= 3: all permutations.
func optArrangements(k int) [][]int {
	if k == 0 {
		return [][]int{{}}
	}
	var out [][]int
	seen := map[string]bool{}
	for _, rev := range []bool{false, true} {
		for r := 0; r < k; r++ {
			p := make([]int, k)
			for i := range p {
				j := (i + r) % k
				if rev {
					j = k - 1 - j
				}
				p[i] = j
			}
			s := fmt.Sprint(p)
			if !seen[s] {
				seen[s] = true
				out = append(out, p)
			}
		}
	}
	return out
}

// optRenderer renders what a caller can tell about one option value: dynamic type, scalar
// content, identity of pointers / functions / backing arrays (numbered in order of first
// appearance, so the text is stable across runs).
type optRenderer struct {
	ids map[uintptr]int
}

func (r *optRenderer) id(p uintptr) string {
	if p == 0 {
		return "nil"
	}
	n, ok := r.ids[p]
	if !ok {
		n = len(r.ids) + 1
		r.ids[p] = n
	}
	return fmt.Sprintf("#%d", n)
}

func (r *optRenderer) render(x interface{}) string {
	if x == nil {
		return "<nil>"
	}
	var sb strings.Builder
	v := reflect.ValueOf(x)
	sb.WriteString(v.Type().String())
	sb.WriteString(":")
	r.rec(&sb, v, 0)
	return sb.String()
}

func (r *optRenderer) rec(sb *strings.Builder, v reflect.Value, depth int) {
	if depth > 4 {
		sb.WriteString("...")
		return
	}
	switch v.Kind() {
	case reflect.Invalid:
		sb.WriteString("<invalid>")
	case reflect.Bool:
		fmt.Fprint(sb, v.Bool())
	case reflect.Int, reflect.Int8, reflect.Int16, reflect.Int32, reflect.Int64:
		fmt.Fprint(sb, v.Int())
	case reflect.Uint, reflect.Uint8, reflect.Uint16, reflect.Uint32, reflect.Uint64, reflect.Uintptr:
		fmt.Fprint(sb, v.Uint())
	case reflect.Float32, reflect.Float64:
		fmt.Fprintf(sb, "%v/%x", v.Float(), math.Float64bits(v.Float()))
	case reflect.String:
		fmt.Fprintf(sb, "%q", v.String())
	case reflect.Func, reflect.Map, reflect.Chan, reflect.UnsafePointer:
		sb.WriteString(v.Kind().String() + r.id(v.Pointer()))
	case reflect.Interface:
		if v.IsNil() {
			sb.WriteString("<nil>")
			return
		}
		sb.WriteString(v.Elem().Type().String() + ":")
		r.rec(sb, v.Elem(), depth+1)
	case reflect.Ptr:
		sb.WriteString("ptr" + r.id(v.Pointer()))
		if v.IsNil() || v.Elem().Kind() != reflect.Struct || strings.HasSuffix(v.Elem().Type().Name(), "InSitu") {
			return // an InSitu object is work space: only its identity counts
		}
		// scalar fields behind a pointer the caller handed over (regularisation constants, ...)
		e := v.Elem()
		sb.WriteString("{")
		for i := 0; i < e.NumField(); i++ {
			switch e.Field(i).Kind() {
			case reflect.Bool, reflect.Int, reflect.Int64, reflect.Float64, reflect.Float32, reflect.String:
				if e.Type().Field(i).PkgPath == "" {
					sb.WriteString(e.Type().Field(i).Name + "=")
					r.rec(sb, e.Field(i), depth+1)
					sb.WriteString(";")
				}
			}
		}
		sb.WriteString("}")
	case reflect.Slice:
		fmt.Fprintf(sb, "slice%s[%d]", r.id(v.Pointer()), v.Len())
		switch v.Type().Elem().Kind() {
		case reflect.Bool, reflect.Int, reflect.Float64, reflect.String:
			sb.WriteString("{")
			for i := 0; i < v.Len(); i++ {
				r.rec(sb, v.Index(i), depth+1)
				sb.WriteString(",")
			}
			sb.WriteString("}")
		}
	case reflect.Array:
		sb.WriteString("[")
		for i := 0; i < v.Len(); i++ {
			r.rec(sb, v.Index(i), depth+1)
			sb.WriteString(",")
		}
		sb.WriteString("]")
	case reflect.Struct:
		sb.WriteString("{")
		for i := 0; i < v.NumField(); i++ {
			sb.WriteString(v.Type().Field(i).Name + "=")
			r.rec(sb, v.Field(i), depth+1)
			sb.WriteString(";")
		}
		sb.WriteString("}")
	default:
		sb.WriteString(v.Kind().String())
	}
}

func (r *optRenderer) renderAll(xs []interface{}) []string {
	out := make([]string, len(xs))
	for i, x := range xs {
		out[i] = r.render(x)
	}
	return out
}

func osDim(a *osAlgo, k int) int {
	if a.vec {
		return len(algoX0[k])
	}
	return matDim(k)
}

func osCall(a *osAlgo, typ string, in []any, opts []interface{}) (o callOut) {
	var rs []any
	var err error
	perr := try(func() {
		if a.name == "lineSearch.Run" {
			var s ad.Scalar
			s, err = lineSearch.Run(lineObjective, scalarType(typ), opts...)
			rs = res(s)
			return
		}
		rs, err = a.run(in, opts)
	})
	switch {
	case perr != "":
		o.err = "panic: " + perr
	case err != nil:
		o.err = "error: " + err.Error()
	default:
		o.objs = rs
		o.res = obsList(rs)
	}
	return o
}

func runOCase(cs OCase) (fails []failure, outcome string) {
	a := findOsAlgo(cs.Algo)
	if a == nil {
		return nil, "no-algorithm"
	}
	T := scalarType(cs.Typ)
	base := a.opts(cs.Opt, T, osDim(a, cs.In))
	k := len(base)
	arrs := optArrangements(k)
	if cs.Order >= len(arrs) {
		return nil, "n/a"
	}
	// the caller's slice: k options, spare capacity filled with sentinels
	full := make([]interface{}, k, k+cs.Spare)
	for i, j := range arrs[cs.Order] {
		full[i] = base[j]
	}
	whole := full[:cap(full)]
	for i := k; i < len(whole); i++ {
		whole[i] = optSentinel{I: i}
	}
	rd := &optRenderer{ids: map[uintptr]int{}}
	before := rd.renderAll(whole)
	descr := func() string {
		return fmt.Sprintf("%s (%s, input %d) called as Run(x, opts...) with the caller's slice opts = %v (len %d, cap %d)",
			cs.Algo, cs.Typ, cs.In, before[:k], k, k+cs.Spare)
	}
	key := func(what string) string { return fmt.Sprintf("optslice|%s|%s", cs.Algo, what) }
	check := func(call int) {
		after := rd.renderAll(full[:cap(full)])
		for i := range after {
			if after[i] != before[i] {
				where := "caller-option-slice-changed|within-length"
				if i >= k {
					where = "caller-option-slice-changed|spare-capacity"
				}
				fails = append(fails, failure{key(where), fmt.Sprintf("%s: after call %d element %d of the caller's slice is %s (whole backing array before: %v, after: %v)",
					descr(), call, i, after[i], before, after)})
				return
			}
		}
	}
	c1 := osCall(a, cs.Typ, a.input(cs.Typ, cs.In, cs.Opt), full[:k])
	check(1)
	changed := len(fails) > 0
	// second call with the very same slice, on an identically built input
	c2 := osCall(a, cs.Typ, a.input(cs.Typ, cs.In, cs.Opt), full[:k])
	if !changed {
		check(2)
	}
	if c1.err != c2.err || c1.res != c2.res {
		show := func(o callOut) string {
			if o.err != "" {
				return "{" + o.err + "}"
			}
			return o.res
		}
		fails = append(fails, failure{key("second-call-with-same-slice-differs"),
			fmt.Sprintf("%s: call 1 ended with %s, call 2 with the same slice and an identically built input with %s", descr(), show(c1), show(c2))})
	}
	switch {
	case len(fails) > 0:
		return fails, "fail"
	case c1.err != "":
		return nil, "loud-failure(error/panic):" + cs.Algo
	case k == 0:
		return nil, "ok(no-options)"
	}
	return nil, "ok"
}

func enumOCases(thorough bool, emit func(OCase)) {
	spares := []int{0, 4}
	if thorough {
		spares = []int{0, 1, 4}
	}
	for ai := range osAlgos {
		a := &osAlgos[ai]
		typs := a.typs
		if typs == nil {
			typs = []string{"Float64", "Real64"}
		}
		nIn := len(algoMats)
		if a.vec {
			nIn = len(algoX0)
		}
		if a.name == "lineSearch.Run" {
			nIn = 1
		}
		for opt := 0; opt < a.nOpts; opt++ {
			for _, typ := range typs {
				for in := 0; in < nIn; in++ {
					k := len(a.opts(opt, scalarType(typ), osDim(a, in)))
					for ord := range optArrangements(k) {
						for _, spare := range spares {
							emit(OCase{Algo: a.name, Opt: opt, Typ: typ, In: in, Order: ord, Spare: spare})
						}
					}
				}
			}
		}
	}
}
