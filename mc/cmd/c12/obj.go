package main

import (
	"fmt"
	"reflect"
	"strconv"
	"strings"

	ad "github.com/pbenner/autodiff"
)

// ---- element types -----------------------------------------------------------------

var typeNames = []string{"Float64", "Real64", "Int8", "Float32", "Real32", "Int16", "Int32", "Int64", "Int"}
var constTypeNames = []string{"ConstFloat64", "ConstFloat32", "ConstInt8", "ConstInt16", "ConstInt32", "ConstInt64", "ConstInt"}

func scalarType(name string) ad.ScalarType {
	switch name {
	case "Int8":
		return ad.Int8Type
	case "Int16":
		return ad.Int16Type
	case "Int32":
		return ad.Int32Type
	case "Int64":
		return ad.Int64Type
	case "Int":
		return ad.IntType
	case "Float32":
		return ad.Float32Type
	case "Float64":
		return ad.Float64Type
	case "Real32":
		return ad.Real32Type
	case "Real64":
		return ad.Real64Type
	}
	panic("unknown element type " + name)
}

func isReal(typ string) bool { return strings.HasPrefix(typ, "Real") }

func newConstScalar(typ string, v float64) ad.ConstScalar {
	switch typ {
	case "ConstFloat64":
		return ad.NewConstFloat64(v)
	case "ConstFloat32":
		return ad.NewConstFloat32(float32(v))
	case "ConstInt8":
		return ad.NewConstInt8(int8(v))
	case "ConstInt16":
		return ad.NewConstInt16(int16(v))
	case "ConstInt32":
		return ad.NewConstInt32(int32(v))
	case "ConstInt64":
		return ad.NewConstInt64(int64(v))
	case "ConstInt":
		return ad.NewConstInt(int(v))
	}
	panic("unknown const type " + typ)
}

// ---- descriptors ----------------------------------------------------------------------

type Step struct {
	Op string `json:"op"` // S Slice, T T()
	A  [4]int `json:"a"`
}

func (s Step) String() string {
	if s.Op == "T" {
		return "T"
	}
	return fmt.Sprintf("S(%d,%d,%d,%d)", s.A[0], s.A[1], s.A[2], s.A[3])
}

// Desc describes one object under test; it is rebuilt from the descriptor for every case.
type Desc struct {
	Kind  string  `json:"kind"`    // vector | matrix | scalar
	Sto   string  `json:"storage"` // dense | sparse | - (scalar)
	Typ   string  `json:"type"`
	N     int     `json:"n,omitempty"`     // vector length
	R     int     `json:"rows,omitempty"`  // matrix base rows
	C     int     `json:"cols,omitempty"`  // matrix base cols
	Mask  int     `json:"mask"`            // bit k set: element k of the base is nonzero (k+1)
	Order int     `json:"order,omitempty"` // Real types: derivative order of the content
	Sl    []int   `json:"slice,omitempty"` // vector: Slice(i,j) of the base
	Path  []Step  `json:"path,omitempty"`  // matrix: view path
	Val   float64 `json:"value,omitempty"` // scalar value
	// Dz: content of the ZERO-valued cells (those not in Mask; scalars: Val must be 0) of Real-typed
	// objects: 0 plain zero | 1 value 0 with a non-zero gradient | 2 value 0, zero gradient, Hessian
	// non-zero on the diagonal only | 3 value 0, zero gradient, Hessian non-zero off the diagonal only
	Dz int `json:"zero_cells,omitempty"`
	// DN: number of variables the derivative content of order Order is allocated over (0: 2)
	DN int `json:"deriv_n,omitempty"`
	// Vars: after filling, Variables(Vars) is called on the whole (Real-typed) container: the state an
	// operation that differentiates with respect to its operand would set itself
	Vars int `json:"variables,omitempty"`
	// Ord: order in which the non-zero cells are written (it determines the shape of the index tree of a
	// sparse container): 0 ascending | 1 descending | 2 middle-out
	Ord int `json:"fill_order,omitempty"`
}

func (d Desc) dn() int {
	if d.DN == 0 {
		return 2
	}
	return d.DN
}

// fillOrder: the positions 0..n-1 in the order in which build writes them
func fillOrder(n, ord int) []int {
	L := make([]int, 0, n)
	switch ord {
	case 1:
		for k := n - 1; k >= 0; k-- {
			L = append(L, k)
		}
	case 2:
		for lo, hi := (n-1)/2, (n-1)/2+1; lo >= 0 || hi < n; lo, hi = lo-1, hi+1 {
			if lo >= 0 {
				L = append(L, lo)
			}
			if hi < n {
				L = append(L, hi)
			}
		}
	default:
		for k := 0; k < n; k++ {
			L = append(L, k)
		}
	}
	return L
}

func (d Desc) extraStr() string {
	s := ""
	if d.DN != 0 {
		s += fmt.Sprintf(" deriv-n=%d", d.DN)
	}
	if d.Vars != 0 {
		s += fmt.Sprintf(" Variables(%d)", d.Vars)
	}
	if d.Ord != 0 {
		s += " fill=" + []string{"", "descending", "middle-out"}[d.Ord]
	}
	return s
}

// setDerivOnly gives a zero-valued Real scalar derivative-only content of kind dz
func setDerivOnly(s ad.Scalar, dz, seed int) {
	m, ok := s.(ad.MagicScalar)
	if !ok || dz == 0 {
		return
	}
	switch dz {
	case 1:
		m.Alloc(2, 1)
		m.SetDerivative(seed%2, float64(seed+1))
	case 2:
		m.Alloc(2, 2)
		m.SetHessian(0, 0, 2)
		m.SetHessian(1, 1, float64(seed+3))
	case 3:
		m.Alloc(2, 2)
		m.SetHessian(0, 1, float64(seed+2))
		m.SetHessian(1, 0, float64(seed+2))
	}
}

func dzStr(dz int) string {
	if dz == 0 {
		return ""
	}
	return " zero-cells=" + []string{"", "gradient-only", "hessian-diagonal-only", "hessian-offdiagonal-only"}[dz]
}

func (d Desc) String() string {
	switch d.Kind {
	case "scalar":
		return fmt.Sprintf("%s(%v,order=%d)%s%s", d.Typ, d.Val, d.Order, dzStr(d.Dz), d.extraStr())
	case "vector":
		s := fmt.Sprintf("%s %s vector n=%d mask=%b order=%d%s%s", d.Sto, d.Typ, d.N, d.Mask, d.Order, dzStr(d.Dz), d.extraStr())
		if d.Sl != nil {
			s += fmt.Sprintf(".Slice(%d,%d)", d.Sl[0], d.Sl[1])
		}
		return s
	}
	ps := []string{}
	for _, s := range d.Path {
		ps = append(ps, s.String())
	}
	return fmt.Sprintf("%s %s %dx%d mask=%b order=%d%s%s base.%s", d.Sto, d.Typ, d.R, d.C, d.Mask, d.Order, dzStr(d.Dz), d.extraStr(), strings.Join(ps, "."))
}

func (d Desc) class() string {
	switch d.Kind {
	case "scalar":
		return "scalar"
	case "vector":
		if d.Sl != nil {
			return "slice"
		}
		return "owning"
	}
	nT, nS := 0, 0
	for _, s := range d.Path {
		if s.Op == "T" {
			nT++
		} else {
			nS++
		}
	}
	switch {
	case nT == 0 && nS == 0:
		return "owning"
	case nT == 0:
		return "slice"
	case nS == 0:
		return "T"
	}
	return "T-slice"
}

// give a Real scalar order-k content that differs per element
func setDerivs(s ad.Scalar, order, n, seed int) {
	if order == 0 {
		return
	}
	m, ok := s.(ad.MagicScalar)
	if !ok {
		return
	}
	m.Alloc(n, order)
	for k := 0; k < n; k++ {
		m.SetDerivative(k, float64(seed+k+1))
		if order >= 2 {
			for l := 0; l < n; l++ {
				m.SetHessian(k, l, float64(seed+k+2*l+1))
			}
		}
	}
}

// world: the object under test and the object that owns its storage (== obj if not a view)
type world struct {
	obj    any
	parent any
	err    string // a view step of the descriptor panicked (C10's subject)
}

func newVec(sto, typ string, n int) ad.Vector {
	if sto == "dense" {
		return ad.NullDenseVector(scalarType(typ), n)
	}
	return ad.NullSparseVector(scalarType(typ), n)
}

func newMat(sto, typ string, r, c int) ad.Matrix {
	if sto == "dense" {
		return ad.NullDenseMatrix(scalarType(typ), r, c)
	}
	return ad.NullSparseMatrix(scalarType(typ), r, c)
}

func build(d Desc) (w world) {
	switch d.Kind {
	case "scalar":
		if strings.HasPrefix(d.Typ, "Const") {
			w.obj = newConstScalar(d.Typ, d.Val)
		} else {
			s := ad.NewScalar(scalarType(d.Typ), d.Val)
			setDerivs(s, d.Order, d.dn(), 0)
			if d.Val == 0 {
				setDerivOnly(s, d.Dz, 0)
			}
			w.obj = s
		}
		w.parent = w.obj
	case "vector":
		v := newVec(d.Sto, d.Typ, d.N)
		for _, k := range fillOrder(d.N, d.Ord) {
			if d.Mask&(1<<k) != 0 {
				s := v.At(k)
				s.SetFloat64(float64(k + 1))
				setDerivs(s, d.Order, d.dn(), k)
			} else if d.Dz > 0 {
				setDerivOnly(v.At(k), d.Dz, k)
			}
		}
		if mv, ok := v.(ad.MagicVector); ok && d.Vars > 0 {
			mv.Variables(d.Vars)
		}
		w.parent = v
		w.obj = v
		if d.Sl != nil {
			w.obj = v.Slice(d.Sl[0], d.Sl[1])
		}
	case "matrix":
		m := newMat(d.Sto, d.Typ, d.R, d.C)
		for _, k := range fillOrder(d.R*d.C, d.Ord) {
			if d.Mask&(1<<k) != 0 {
				s := m.At(k/d.C, k%d.C)
				s.SetFloat64(float64(k + 1))
				setDerivs(s, d.Order, d.dn(), k)
			} else if d.Dz > 0 {
				setDerivOnly(m.At(k/d.C, k%d.C), d.Dz, k)
			}
		}
		if mm, ok := m.(ad.MagicMatrix); ok && d.Vars > 0 {
			mm.Variables(d.Vars)
		}
		w.parent = m
		v := ad.Matrix(m)
		w.err = try(func() {
			for _, s := range d.Path {
				if s.Op == "T" {
					v = v.T()
				} else {
					v = v.Slice(s.A[0], s.A[1], s.A[2], s.A[3])
				}
			}
		})
		w.obj = v
	}
	return w
}

// ---- observable state --------------------------------------------------------------------

func fstr(sb *strings.Builder, f float64) {
	var buf [32]byte
	sb.Write(strconv.AppendFloat(buf[:0], f, 'g', -1, 64))
}

func obsScalarTo(sb *strings.Builder, s ad.ConstScalar, derivs bool) {
	if s == nil {
		sb.WriteString("nil")
		return
	}
	fstr(sb, s.GetFloat64())
	if !derivs {
		return
	}
	o, n := s.GetOrder(), s.GetN()
	if o == 0 && n == 0 {
		return
	}
	sb.WriteString("{o")
	sb.WriteString(strconv.Itoa(o))
	sb.WriteString(" n")
	sb.WriteString(strconv.Itoa(n))
	if o >= 1 {
		for k := 0; k < n; k++ {
			sb.WriteByte(' ')
			fstr(sb, s.GetDerivative(k))
		}
		if o >= 2 {
			sb.WriteString(" H")
			for k := 0; k < n; k++ {
				for l := 0; l < n; l++ {
					sb.WriteByte(' ')
					fstr(sb, s.GetHessian(k, l))
				}
			}
		}
	}
	sb.WriteByte('}')
}

// obs returns the full observable state of a scalar / vector / matrix through the public
// read API: dimensions, every element (value, order, N, derivatives, Hessian) and the
// sequence the const iterator yields. A panic while observing becomes part of the
// observation. derivs=false restricts to values (comparisons across element types).
func obs(o any, derivs bool) (out string) {
	var sb strings.Builder
	defer func() {
		if r := recover(); r != nil {
			out = sb.String() + " OBS-PANIC"
		}
	}()
	switch v := o.(type) {
	case ad.ConstVector:
		n := v.Dim()
		// the const iterator of a sparse container prunes stored zero entries (and with them
		// their order/N): walk it FIRST so that the element reads below see the pruned, stable
		// state and observing is idempotent
		var its strings.Builder
		func() {
			defer func() {
				if r := recover(); r != nil {
					its.WriteString("IT-PANIC")
				}
			}()
			k := 0
			for it := v.ConstIterator(); it.Ok(); it.Next() {
				if k > n+2 {
					its.WriteString("NONTERM")
					break
				}
				its.WriteString(strconv.Itoa(it.Index()))
				its.WriteByte(':')
				obsScalarTo(&its, it.GetConst(), false)
				its.WriteByte(' ')
				k++
			}
		}()
		sb.WriteString("n=")
		sb.WriteString(strconv.Itoa(n))
		sb.WriteString(" [")
		for i := 0; i < n; i++ {
			if i > 0 {
				sb.WriteByte(' ')
			}
			obsScalarTo(&sb, v.ConstAt(i), derivs)
			if f := v.Float64At(i); f != v.ConstAt(i).GetFloat64() {
				sb.WriteString("!Float64At=")
				fstr(&sb, f)
			}
		}
		sb.WriteString("] it:")
		sb.WriteString(its.String())
	case ad.ConstMatrix:
		n, m := v.Dims()
		var its strings.Builder
		func() {
			defer func() {
				if r := recover(); r != nil {
					its.WriteString("IT-PANIC")
				}
			}()
			k := 0
			for it := v.ConstIterator(); it.Ok(); it.Next() {
				if k > n*m+8 {
					its.WriteString("NONTERM")
					break
				}
				i, j := it.Index()
				its.WriteString(strconv.Itoa(i))
				its.WriteByte(',')
				its.WriteString(strconv.Itoa(j))
				its.WriteByte(':')
				obsScalarTo(&its, it.GetConst(), false)
				its.WriteByte(' ')
				k++
			}
		}()
		sb.WriteString(strconv.Itoa(n))
		sb.WriteByte('x')
		sb.WriteString(strconv.Itoa(m))
		sb.WriteString(" [")
		for i := 0; i < n; i++ {
			for j := 0; j < m; j++ {
				sb.WriteByte(' ')
				func() {
					defer func() {
						if r := recover(); r != nil {
							sb.WriteString("PANIC")
						}
					}()
					obsScalarTo(&sb, v.ConstAt(i, j), derivs)
				}()
			}
			sb.WriteByte(';')
		}
		sb.WriteString("] it:")
		sb.WriteString(its.String())
	case ad.ConstScalar:
		obsScalarTo(&sb, v, derivs)
	default:
		fmt.Fprintf(&sb, "?%T", o)
	}
	return sb.String()
}

// isNull: value 0 and no non-zero derivative of any order. Such an element is the same
// observable value whatever order/N it is allocated with (a sparse container may drop it)
func isNull(s ad.ConstScalar) bool {
	if s.GetFloat64() != 0 {
		return false
	}
	o, n := s.GetOrder(), s.GetN()
	for k := 0; o >= 1 && k < n; k++ {
		if s.GetDerivative(k) != 0 {
			return false
		}
		for l := 0; o >= 2 && l < n; l++ {
			if s.GetHessian(k, l) != 0 {
				return false
			}
		}
	}
	return true
}

// obsElems observes a container through its element reads ONLY (dimensions; value, order, N,
// gradient and Hessian of every element, also of zero-valued ones; null elements normalised
// to "0"). Unlike obs it never walks an iterator: the sparse iterators compact the container
// they traverse, so obs is not a neutral way of taking a snapshot BEFORE an operation.
func obsElems(o any) (out string) {
	var sb strings.Builder
	defer func() {
		if r := recover(); r != nil {
			out = sb.String() + " OBS-PANIC"
		}
	}()
	one := func(s ad.ConstScalar) {
		if s != nil && isNull(s) {
			sb.WriteByte('0')
			return
		}
		obsScalarTo(&sb, s, true)
	}
	switch v := o.(type) {
	case ad.ConstVector:
		n := v.Dim()
		sb.WriteString("n=")
		sb.WriteString(strconv.Itoa(n))
		sb.WriteString(" [")
		for i := 0; i < n; i++ {
			if i > 0 {
				sb.WriteByte(' ')
			}
			one(v.ConstAt(i))
		}
		sb.WriteByte(']')
	case ad.ConstMatrix:
		n, m := v.Dims()
		sb.WriteString(strconv.Itoa(n))
		sb.WriteByte('x')
		sb.WriteString(strconv.Itoa(m))
		sb.WriteString(" [")
		for i := 0; i < n; i++ {
			for j := 0; j < m; j++ {
				sb.WriteByte(' ')
				one(v.ConstAt(i, j))
			}
			sb.WriteByte(';')
		}
		sb.WriteByte(']')
	case ad.ConstScalar:
		one(v)
	default:
		fmt.Fprintf(&sb, "?%T", o)
	}
	return sb.String()
}

// values only, without the iterator part (used to compare across storage classes, where
// the element reads are the common denominator)
func obsValues(o any) (out string) {
	s := obs(o, false)
	if i := strings.Index(s, " it:"); i >= 0 {
		return s[:i]
	}
	return s
}

// ---- reflection helper -------------------------------------------------------------------

func callM(recv any, name string, args ...any) (out []reflect.Value, ok bool) {
	m := reflect.ValueOf(recv).MethodByName(name)
	if !m.IsValid() {
		return nil, false
	}
	mt := m.Type()
	if mt.NumIn() != len(args) || mt.IsVariadic() {
		return nil, false
	}
	in := make([]reflect.Value, len(args))
	for i, a := range args {
		in[i] = reflect.ValueOf(a)
		if !in[i].IsValid() || !in[i].Type().AssignableTo(mt.In(i)) {
			return nil, false
		}
	}
	return m.Call(in), true
}

func try(f func()) (perr string) {
	defer func() {
		if r := recover(); r != nil {
			perr = fmt.Sprint(r)
			if perr == "" {
				perr = "panic"
			}
		}
	}()
	f()
	return ""
}

func perms(n int) [][]int {
	var out [][]int
	var rec func(cur []int, used int)
	rec = func(cur []int, used int) {
		if len(cur) == n {
			out = append(out, append([]int{}, cur...))
			return
		}
		for k := 0; k < n; k++ {
			if used&(1<<k) == 0 {
				rec(append(cur, k), used|1<<k)
			}
		}
	}
	rec(nil, 0)
	return out
}
