package main

import (
	"fmt"

	ad "github.com/pbenner/autodiff"
)

// Pure reads leave the object they read unchanged. The snapshot before and after the read is
// taken through element reads only (obsElems): walking an iterator is itself one of the reads
// under test, because the sparse iterators compact the container they traverse (dropping an
// entry is only invisible if the entry really is null: value 0, all derivatives 0). Run on
// every object state of the independence part, including the zero-valued cells that carry
// derivative information only.

type SCase struct {
	D    Desc   `json:"object"`
	Read string `json:"read"`
	Key  string `json:"key"`
}

type readOp struct {
	name string
	f    func(o any)
}

func walkV(it interface {
	Ok() bool
	Next()
}) {
	for k := 0; it.Ok() && k < 64; k++ {
		it.Next()
	}
}

func noopReduce(r ad.Scalar, x ad.ConstScalar) ad.Scalar { return r }

func readOps(o any) []readOp {
	var L []readOp
	switch v0 := o.(type) {
	case ad.ConstVector:
		n := v0.Dim()
		add := func(name string, f func(v ad.ConstVector)) {
			L = append(L, readOp{name, func(o any) { f(o.(ad.ConstVector)) }})
		}
		add("ConstIterator", func(v ad.ConstVector) { walkV(v.ConstIterator()) })
		for i := 0; i < n; i++ {
			i := i
			add(fmt.Sprintf("ConstIteratorFrom(%d)", i), func(v ad.ConstVector) { walkV(v.ConstIteratorFrom(i)) })
		}
		add("ConstJointIterator", func(v ad.ConstVector) { walkV(v.ConstJointIterator(opVec(v.ElementType(), v.Dim(), 0))) })
		add("ConstJointIterator:b", func(v ad.ConstVector) { walkV(opVec(v.ElementType(), v.Dim(), 0).ConstJointIterator(v)) })
		add("String", func(v ad.ConstVector) { _ = fmt.Sprint(v) })
		add("Table", func(v ad.ConstVector) { _ = v.Table() })
		add("MarshalJSON", func(v ad.ConstVector) { v.MarshalJSON() })
		add("Equals", func(v ad.ConstVector) { v.Equals(opVec(v.ElementType(), v.Dim(), 0), 1e-8) })
		add("Equals:b", func(v ad.ConstVector) { opVec(v.ElementType(), v.Dim(), 0).Equals(v, 1e-8) })
		add("ConstSlice", func(v ad.ConstVector) { walkV(v.ConstSlice(0, v.Dim()).ConstIterator()) })
		add("AsConstMatrix", func(v ad.ConstVector) { walkV(v.AsConstMatrix(1, v.Dim()).ConstIterator()) })
		add("CloneConstVector", func(v ad.ConstVector) { v.CloneConstVector() })
		add("getters", func(v ad.ConstVector) {
			for i := 0; i < v.Dim(); i++ {
				v.Float64At(i)
				v.IntAt(i)
				v.ConstAt(i).GetFloat64()
			}
		})
		if _, ok := o.(ad.Vector); ok {
			addm := func(name string, f func(v ad.Vector)) {
				L = append(L, readOp{name, func(o any) { f(o.(ad.Vector)) }})
			}
			addm("Iterator-walk", func(v ad.Vector) { walkV(v.Iterator()) })
			for i := 0; i < n; i++ {
				i := i
				addm(fmt.Sprintf("IteratorFrom(%d)-walk", i), func(v ad.Vector) { walkV(v.IteratorFrom(i)) })
			}
			addm("JointIterator-walk", func(v ad.Vector) { walkV(v.JointIterator(opVec(v.ElementType(), v.Dim(), 0))) })
			addm("Reduce", func(v ad.Vector) { v.Reduce(noopReduce, ad.NullScalar(v.ElementType())) })
			addm("CloneVector", func(v ad.Vector) { v.CloneVector() })
			addm("Slice-walk", func(v ad.Vector) { walkV(v.Slice(0, v.Dim()).ConstIterator()) })
			addm("AsMatrix-walk", func(v ad.Vector) { walkV(v.AsMatrix(v.Dim(), 1).ConstIterator()) })
			// the vector as the read-only operand of arithmetic
			addm("VaddV:a", func(v ad.Vector) {
				ad.NullDenseVector(v.ElementType(), v.Dim()).VaddV(v, opVec(v.ElementType(), v.Dim(), 1))
			})
			addm("VmulV:b/sparse", func(v ad.Vector) {
				ad.NullSparseVector(v.ElementType(), v.Dim()).VmulV(opVec(v.ElementType(), v.Dim(), 1), v)
			})
			addm("Vnorm", func(v ad.Vector) { ad.NullScalar(v.ElementType()).Vnorm(v) })
			addm("VdotV", func(v ad.Vector) { ad.NullScalar(v.ElementType()).VdotV(v, v) })
			addm("AsDenseVector", func(v ad.Vector) { ad.AsDenseVector(v.ElementType(), v) })
			addm("AsSparseVector", func(v ad.Vector) { ad.AsSparseVector(v.ElementType(), v) })
		}
	case ad.ConstMatrix:
		n, m := v0.Dims()
		add := func(name string, f func(v ad.ConstMatrix)) {
			L = append(L, readOp{name, func(o any) { f(o.(ad.ConstMatrix)) }})
		}
		add("ConstIterator", func(v ad.ConstMatrix) { walkV(v.ConstIterator()) })
		for i := 0; i < n; i++ {
			for j := 0; j < m; j++ {
				i, j := i, j
				add(fmt.Sprintf("ConstIteratorFrom(%d,%d)", i, j), func(v ad.ConstMatrix) { walkV(v.ConstIteratorFrom(i, j)) })
			}
		}
		add("String", func(v ad.ConstMatrix) { _ = fmt.Sprint(v) })
		add("Table", func(v ad.ConstMatrix) { _ = v.Table() })
		add("MarshalJSON", func(v ad.ConstMatrix) { v.MarshalJSON() })
		add("Equals", func(v ad.ConstMatrix) { a, b := v.Dims(); v.Equals(opMat(v.ElementType(), a, b, 0), 1e-8) })
		add("Equals:b", func(v ad.ConstMatrix) { a, b := v.Dims(); opMat(v.ElementType(), a, b, 0).Equals(v, 1e-8) })
		add("IsSymmetric", func(v ad.ConstMatrix) { v.IsSymmetric(1e-8) })
		add("CloneConstMatrix", func(v ad.ConstMatrix) { v.CloneConstMatrix() })
		add("AsConstVector", func(v ad.ConstMatrix) { walkV(v.AsConstVector().ConstIterator()) })
		if n > 0 && m > 0 {
			add("ConstRow", func(v ad.ConstMatrix) { walkV(v.ConstRow(0).ConstIterator()) })
			add("ConstCol", func(v ad.ConstMatrix) { walkV(v.ConstCol(0).ConstIterator()) })
			add("ConstDiag", func(v ad.ConstMatrix) { walkV(v.ConstDiag().ConstIterator()) })
			add("ConstSlice", func(v ad.ConstMatrix) { a, b := v.Dims(); walkV(v.ConstSlice(0, a, 0, b).ConstIterator()) })
		}
		add("getters", func(v ad.ConstMatrix) {
			a, b := v.Dims()
			for i := 0; i < a; i++ {
				for j := 0; j < b; j++ {
					v.Float64At(i, j)
					v.IntAt(i, j)
					v.ConstAt(i, j).GetFloat64()
				}
			}
		})
		if _, ok := o.(ad.Matrix); ok {
			addm := func(name string, f func(v ad.Matrix)) {
				L = append(L, readOp{name, func(o any) { f(o.(ad.Matrix)) }})
			}
			addm("Iterator-walk", func(v ad.Matrix) { walkV(v.Iterator()) })
			for i := 0; i < n; i++ {
				for j := 0; j < m; j++ {
					i, j := i, j
					addm(fmt.Sprintf("IteratorFrom(%d,%d)-walk", i, j), func(v ad.Matrix) { walkV(v.IteratorFrom(i, j)) })
				}
			}
			addm("JointIterator-walk", func(v ad.Matrix) { a, b := v.Dims(); walkV(v.JointIterator(opMat(v.ElementType(), a, b, 0))) })
			addm("Reduce", func(v ad.Matrix) { v.Reduce(noopReduce, ad.NullScalar(v.ElementType())) })
			addm("CloneMatrix", func(v ad.Matrix) { v.CloneMatrix() })
			addm("T-walk", func(v ad.Matrix) { walkV(v.T().ConstIterator()) })
			addm("AsVector-walk", func(v ad.Matrix) { walkV(v.AsVector().ConstIterator()) })
			if n > 0 && m > 0 {
				addm("Row", func(v ad.Matrix) { v.Row(0) })
				addm("Col", func(v ad.Matrix) { v.Col(0) })
				addm("Diag", func(v ad.Matrix) { v.Diag() })
				addm("MaddM:a", func(v ad.Matrix) {
					a, b := v.Dims()
					ad.NullDenseMatrix(v.ElementType(), a, b).MaddM(v, opMat(v.ElementType(), a, b, 1))
				})
				addm("MmulM:b/sparse", func(v ad.Matrix) {
					a, b := v.Dims()
					ad.NullSparseMatrix(v.ElementType(), a, b).MmulM(opMat(v.ElementType(), a, b, 1), v)
				})
				addm("MdotM:a", func(v ad.Matrix) {
					a, b := v.Dims()
					ad.NullDenseMatrix(v.ElementType(), a, 2).MdotM(v, opMat(v.ElementType(), b, 2, 0))
				})
				addm("MdotV:a", func(v ad.Matrix) {
					a, b := v.Dims()
					ad.NullDenseVector(v.ElementType(), a).MdotV(v, opVec(v.ElementType(), b, 0))
				})
				addm("Mtrace", func(v ad.Matrix) { ad.NullScalar(v.ElementType()).Mtrace(v) })
				addm("AsDenseMatrix", func(v ad.Matrix) { ad.AsDenseMatrix(v.ElementType(), v) })
				addm("AsSparseMatrix", func(v ad.Matrix) { ad.AsSparseMatrix(v.ElementType(), v) })
			}
		}
	case ad.ConstScalar:
		add := func(name string, f func(v ad.ConstScalar)) {
			L = append(L, readOp{name, func(o any) { f(o.(ad.ConstScalar)) }})
		}
		add("String", func(v ad.ConstScalar) { _ = fmt.Sprint(v) })
		add("CloneConstScalar", func(v ad.ConstScalar) { v.CloneConstScalar() })
		add("getters", func(v ad.ConstScalar) { v.GetFloat64(); v.GetInt(); v.GetOrder(); v.GetN() })
		add("Add:a", func(v ad.ConstScalar) { ad.NullScalar(v.Type()).Add(v, v) })
		add("Mul:a/Real64", func(v ad.ConstScalar) { ad.NullReal64().Mul(v, v) })
		add("Equals", func(v ad.ConstScalar) { v.Equals(v, 1e-8) })
	}
	return L
}

func baseRead(name string) string { return mutBase(name) }

func runSCase(cs SCase) (fails []failure, outcome string) {
	w := build(cs.D)
	if w.err != "" {
		return nil, "view-unbuildable"
	}
	var op *readOp
	for _, r := range readOps(w.obj) {
		if r.name == cs.Read {
			r := r
			op = &r
		}
	}
	if op == nil {
		return nil, "n/a"
	}
	b0, b1 := obsElems(w.obj), obsElems(w.parent)
	perr := try(func() { op.f(w.obj) })
	a0, a1 := obsElems(w.obj), obsElems(w.parent)
	if a0 != b0 || a1 != b1 {
		key := fmt.Sprintf("selfread|%s|%s|%s|%s", cs.D.Kind, cs.D.Sto, viewClass(cs.D), baseRead(cs.Read))
		what := fmt.Sprintf("the pure read %s changed the object it read, %v: before %s (parent %s), after %s (parent %s)", cs.Read, cs.D, b0, b1, a0, a1)
		if perr != "" {
			what += " (the read panicked: " + perr + ")"
		}
		return []failure{{key, what}}, "fail"
	}
	if perr != "" {
		return nil, "read-panic:" + baseRead(cs.Read) // addressing of views / printing is C10's and C18's subject
	}
	return nil, "unchanged"
}

func enumSCases(thorough bool, emit func(SCase)) {
	enumDescs(thorough, func(d Desc) {
		if d.Kind == "matrix" && !thorough && len(d.Path) > 2 {
			return
		}
		w := build(d)
		if w.err != "" {
			return
		}
		for _, r := range readOps(w.obj) {
			emit(SCase{D: d, Read: r.name})
		}
	})
}
