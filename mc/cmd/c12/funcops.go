package main

import (
	"strings"

	ad "github.com/pbenner/autodiff"
)

// Operations that take a FUNCTION argument next to their operands (read-only operand check).
//
// Jacobian(f, x) / Hessian(f, x): x is read-only although the operation has to declare the
// elements of (a copy of) x as variables. The operand lattice therefore holds every derivative
// state that is NOT the one the operation sets itself: order 0; order 1 and order 2 content
// with non-trivial entries over 1, 2 and 3 variables (fewer than / as many as / more than the
// dimension); Variables(1) / Variables(2) called by the caller; zero-valued elements carrying
// derivatives only; slices of a longer vector (the parent is compared as well). The snapshot
// compares value, order, N, every derivative and every Hessian entry (obsElems / obs).
//
// The objects a callback hands BACK to the library are operands too: f=held returns an object
// the caller keeps (a vector for Jacobian, a scalar for Hessian and MapSet); it must be
// unchanged after the call. Reduce(f, r) reads the container it is called on.

// f-variants, encoded in the operation name after "/f="
func funcVariant(op string) (base, f string) {
	if i := strings.Index(op, "/f="); i >= 0 {
		return op[:i], op[i+3:]
	}
	return op, ""
}

// runFuncOp executes the function-argument operations; false if op is none of them
func runFuncOp(op string, r any, a []any) bool {
	base, fv := funcVariant(op)
	switch base {
	case "Jacobian":
		x := a[0].(ad.MagicVector)
		f := func(x ad.ConstVector) ad.ConstVector {
			switch fv {
			case "arg":
				return x
			case "held":
				return a[1].(ad.ConstVector)
			}
			m := x.Dim()
			y := ad.NullDenseVector(ad.Real64Type, m)
			for i := 0; i < m; i++ {
				y.At(i).Mul(x.ConstAt(i), x.ConstAt((i+1)%m))
			}
			return y
		}
		r.(ad.Matrix).Jacobian(f, x)
	case "Hessian":
		x := a[0].(ad.MagicVector)
		f := func(x ad.ConstVector) ad.ConstScalar {
			switch fv {
			case "arg":
				return x.ConstAt(0)
			case "held":
				return a[1].(ad.ConstScalar)
			}
			m := x.Dim()
			y := ad.NullReal64()
			t := ad.NullReal64()
			for i := 0; i < m; i++ {
				t.Mul(x.ConstAt(i), x.ConstAt((i+1)%m))
				y.Add(y, t)
			}
			return y
		}
		r.(ad.Matrix).Hessian(f, x)
	case "Vector.MapSet":
		r.(ad.Vector).MapSet(func(ad.ConstScalar) ad.Scalar { return a[0].(ad.Scalar) })
	case "Matrix.MapSet":
		r.(ad.Matrix).MapSet(func(ad.ConstScalar) ad.Scalar { return a[0].(ad.Scalar) })
	case "Vector.Reduce":
		a[0].(ad.ConstVector).Reduce(func(r ad.Scalar, e ad.ConstScalar) ad.Scalar { r.Add(r, e); return r }, r.(ad.Scalar))
	case "Matrix.Reduce":
		a[0].(ad.ConstMatrix).Reduce(func(r ad.Scalar, e ad.ConstScalar) ad.Scalar { r.Add(r, e); return r }, r.(ad.Scalar))
	default:
		return false
	}
	return true
}

// magicVecConfigs: the derivative-state lattice of a Real-typed vector operand of length n
func magicVecConfigs(typ string, n int) []Desc {
	var L []Desc
	full := bits(n)
	alt := full & 0b0101
	if n == 1 {
		alt = 0
	}
	for _, sto := range []string{"dense", "sparse"} {
		v := func(d Desc) {
			d.Kind, d.Sto, d.Typ = "vector", sto, typ
			if d.N == 0 {
				d.N = n
			}
			L = append(L, d)
		}
		v(Desc{Mask: full})
		if n >= 2 {
			v(Desc{Mask: alt})
		}
		for _, o := range []int{1, 2} {
			for dn := 1; dn <= 3; dn++ {
				v(Desc{Mask: full, Order: o, DN: dn})
			}
			v(Desc{Mask: full, Vars: o})
		}
		for dz := 1; dz <= 3; dz++ {
			v(Desc{Mask: alt, Dz: dz})
		}
		// slices of a longer vector whose outside neighbour carries derivatives as well
		v(Desc{N: n + 1, Mask: full<<1 | 1, Sl: []int{1, n + 1}})
		v(Desc{N: n + 1, Mask: full<<1 | 1, Order: 1, DN: 3, Sl: []int{1, n + 1}})
		v(Desc{N: n + 1, Mask: full<<1 | 1, Order: 2, DN: 1, Sl: []int{1, n + 1}})
	}
	return L
}

// a few held objects (what a callback returns and the caller keeps)
func heldVecConfigs(n int) []Desc {
	return []Desc{
		{Kind: "vector", Sto: "dense", Typ: "Real64", N: n, Mask: bits(n)},
		{Kind: "vector", Sto: "dense", Typ: "Real64", N: n, Mask: bits(n), Order: 1, DN: n},
		{Kind: "vector", Sto: "sparse", Typ: "Real64", N: n, Mask: bits(n), Order: 2, DN: n},
		{Kind: "vector", Sto: "dense", Typ: "Real32", N: n + 1, Mask: bits(n + 1), Order: 2, DN: n + 1, Sl: []int{1, n + 1}},
		{Kind: "vector", Sto: "dense", Typ: "Float64", N: n, Mask: bits(n)},
	}
}

func heldScalarConfigs() []Desc {
	var L []Desc
	for _, t := range []string{"Real64", "Real32"} {
		L = append(L, Desc{Kind: "scalar", Sto: "-", Typ: t, Val: 2})
		for _, o := range []int{1, 2} {
			for dn := 1; dn <= 3; dn++ {
				L = append(L, Desc{Kind: "scalar", Sto: "-", Typ: t, Val: 2, Order: o, DN: dn})
			}
		}
		for dz := 1; dz <= 3; dz++ {
			L = append(L, Desc{Kind: "scalar", Sto: "-", Typ: t, Val: 0, Dz: dz})
		}
	}
	L = append(L, Desc{Kind: "scalar", Sto: "-", Typ: "Float64", Val: 2}, Desc{Kind: "scalar", Sto: "-", Typ: "Int16", Val: 2})
	return L
}

// enumFuncRCases: the function-argument operations for receivers of element type typ
func enumFuncRCases(typ string, thorough bool, emit func(RCase)) {
	for _, rsto := range []string{"dense", "sparse"} {
		for n := 1; n <= 3; n++ {
			recvs := []Desc{
				{Kind: "matrix", Sto: rsto, Typ: typ, R: n, C: n, Mask: bits(n*n) & 0b110110011},
				{Kind: "matrix", Sto: rsto, Typ: typ, R: n, C: n, Mask: bits(n*n) & 0b110110011, Path: []Step{{Op: "T"}}},
			}
			for _, recv := range recvs {
				for _, xt := range []string{"Real64", "Real32"} {
					xs := magicVecConfigs(xt, n)
					for _, x := range xs {
						for _, op := range []string{"Jacobian/f=new", "Jacobian/f=arg", "Hessian/f=new", "Hessian/f=arg"} {
							emit(RCase{Op: op, Recv: recv, Args: []Desc{x}})
						}
						// held results: with the plain, the order-1 and the caller-declared operand states
						if x.Sl != nil || x.Dz != 0 || x.DN == 1 || x.DN == 3 {
							continue
						}
						for _, y := range heldVecConfigs(n) {
							emit(RCase{Op: "Jacobian/f=held", Recv: recv, Args: []Desc{x, y}})
						}
						for _, c := range heldScalarConfigs() {
							emit(RCase{Op: "Hessian/f=held", Recv: recv, Args: []Desc{x, c}})
						}
					}
				}
			}
		}
		// MapSet: the scalar the callback returns is read, never written
		for _, c := range append(heldScalarConfigs(), Desc{Kind: "scalar", Sto: "-", Typ: typ, Val: 2}) {
			emit(RCase{Op: "Vector.MapSet/f=held", Recv: Desc{Kind: "vector", Sto: rsto, Typ: typ, N: 3, Mask: 0b101}, Args: []Desc{c}})
			emit(RCase{Op: "Matrix.MapSet/f=held", Recv: Desc{Kind: "matrix", Sto: rsto, Typ: typ, R: 2, C: 2, Mask: 0b1011}, Args: []Desc{c}})
			emit(RCase{Op: "Matrix.MapSet/f=held", Recv: Desc{Kind: "matrix", Sto: rsto, Typ: typ, R: 2, C: 2, Mask: 0b1011, Path: []Step{{Op: "T"}}}, Args: []Desc{c}})
		}
	}
	// Reduce reads the container it is called on; the accumulator is the receiver
	scal := Desc{Kind: "scalar", Sto: "-", Typ: typ, Val: 2}
	vcs := vecConfigs(typ, 2, thorough)
	if isReal(typ) {
		vcs = append(vcs, magicVecConfigs(typ, 2)...)
		vcs = append(vcs, magicVecConfigs(typ, 3)...)
	}
	for _, a := range vcs {
		emit(RCase{Op: "Vector.Reduce", Recv: scal, Args: []Desc{a}})
	}
	for _, A := range matConfigs(typ, 2, 2, thorough) {
		emit(RCase{Op: "Matrix.Reduce", Recv: scal, Args: []Desc{A}})
	}
}
