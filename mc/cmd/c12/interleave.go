package main

import (
	"fmt"
	"reflect"
	"strings"

	ad "github.com/pbenner/autodiff"
)

// Callback interleaving: state shared between a copy and its source that is live only
// DURING an operation (scratch vectors, parked rows, iterators, temporaries) cannot be seen
// by any sequence of completed operations. It shows when an operation O1 with one side as
// receiver is in the middle of its work while an operation O2 with the other side as
// receiver runs. That schedule is forced here on one logical thread of control: every
// container operand of O1 is a harness-defined wrapper (it implements ConstMatrix /
// ConstVector by delegation to a real container and counts every call made to it, to the
// iterators it hands out and to the sub-views it hands out); O1 is first run undisturbed to
// count the calls K, then re-run K times with O2 fired inside the k-th call, for every k.
// Operations with a callback argument (Map, MapSet, Reduce) are interposed at every
// invocation of the callback. Oracle: the receiver ends in exactly the state of the
// undisturbed O1, and the other side in exactly the state of O2 applied alone.

// ---- access probe ---------------------------------------------------------------------------

type probe struct {
	n     int    // calls so far
	at    int    // fire the hook inside the at-th call (1-based); 0 = never
	hook  func() // runs O2 on the other side
	fired bool
}

func (p *probe) tick() {
	p.n++
	if p.n == p.at && !p.fired {
		p.fired = true
		p.hook()
	}
}

// ---- ConstVector wrapper (no embedding: the compiler checks that every method is here) -----

type wVector struct {
	v ad.ConstVector
	p *probe
}

func wrapV(v ad.ConstVector, p *probe) ad.ConstVector { return wVector{v, p} }

func (w wVector) ElementType() ad.ScalarType { w.p.tick(); return w.v.ElementType() }
func (w wVector) Reduce(f func(ad.Scalar, ad.ConstScalar) ad.Scalar, r ad.Scalar) ad.Scalar {
	w.p.tick()
	return w.v.Reduce(f, r)
}
func (w wVector) String() string { w.p.tick(); return w.v.String() }
func (w wVector) CloneConstVector() ad.ConstVector {
	w.p.tick()
	return wVector{w.v.CloneConstVector(), w.p}
}
func (w wVector) Dim() int                                { w.p.tick(); return w.v.Dim() }
func (w wVector) Equals(b ad.ConstVector, e float64) bool { w.p.tick(); return w.v.Equals(b, e) }
func (w wVector) Table() string                           { w.p.tick(); return w.v.Table() }
func (w wVector) Int8At(i int) int8                       { w.p.tick(); return w.v.Int8At(i) }
func (w wVector) Int16At(i int) int16                     { w.p.tick(); return w.v.Int16At(i) }
func (w wVector) Int32At(i int) int32                     { w.p.tick(); return w.v.Int32At(i) }
func (w wVector) Int64At(i int) int64                     { w.p.tick(); return w.v.Int64At(i) }
func (w wVector) IntAt(i int) int                         { w.p.tick(); return w.v.IntAt(i) }
func (w wVector) Float32At(i int) float32                 { w.p.tick(); return w.v.Float32At(i) }
func (w wVector) Float64At(i int) float64                 { w.p.tick(); return w.v.Float64At(i) }
func (w wVector) ConstAt(i int) ad.ConstScalar            { w.p.tick(); return w.v.ConstAt(i) }
func (w wVector) ConstSlice(i, j int) ad.ConstVector {
	w.p.tick()
	return wVector{w.v.ConstSlice(i, j), w.p}
}
func (w wVector) ConstIterator() ad.VectorConstIterator {
	w.p.tick()
	return wVecIt{w.v.ConstIterator(), w.p}
}
func (w wVector) AsConstMatrix(n, m int) ad.ConstMatrix {
	w.p.tick()
	return wrapM(w.v.AsConstMatrix(n, m), w.p)
}
func (w wVector) MarshalJSON() ([]byte, error) { w.p.tick(); return w.v.MarshalJSON() }
func (w wVector) ConstIteratorFrom(i int) ad.VectorConstIterator {
	w.p.tick()
	return wVecIt{w.v.ConstIteratorFrom(i), w.p}
}
func (w wVector) ConstJointIterator(b ad.ConstVector) ad.VectorConstJointIterator {
	w.p.tick()
	return wVecJIt{w.v.ConstJointIterator(b), w.p}
}

type wVecIt struct {
	it ad.VectorConstIterator
	p  *probe
}

func (w wVecIt) CloneConstIterator() ad.VectorConstIterator {
	w.p.tick()
	return wVecIt{w.it.CloneConstIterator(), w.p}
}
func (w wVecIt) GetConst() ad.ConstScalar { w.p.tick(); return w.it.GetConst() }
func (w wVecIt) Ok() bool                 { w.p.tick(); return w.it.Ok() }
func (w wVecIt) Next()                    { w.p.tick(); w.it.Next() }
func (w wVecIt) Index() int               { w.p.tick(); return w.it.Index() }

type wVecJIt struct {
	it ad.VectorConstJointIterator
	p  *probe
}

func (w wVecJIt) CloneConstJointIterator() ad.VectorConstJointIterator {
	w.p.tick()
	return wVecJIt{w.it.CloneConstJointIterator(), w.p}
}
func (w wVecJIt) GetConst() (ad.ConstScalar, ad.ConstScalar) { w.p.tick(); return w.it.GetConst() }
func (w wVecJIt) Ok() bool                                   { w.p.tick(); return w.it.Ok() }
func (w wVecJIt) Next()                                      { w.p.tick(); w.it.Next() }
func (w wVecJIt) Index() int                                 { w.p.tick(); return w.it.Index() }

// ---- ConstMatrix wrapper ------------------------------------------------------------------------
//
// ConstMatrix has one unexported method (storageLocation), so a type of another package can
// implement it only by embedding a ConstMatrix. wMatrixPub implements every exported method by
// delegation (at embedding depth 1); the real container is embedded one level deeper and
// supplies the unexported method only. selfCheckWrappers verifies with reflection that no
// exported method of the interface is missing from wMatrixPub (it would silently be promoted
// from the real container and escape the probe).

type wMatrixPub struct {
	m ad.ConstMatrix
	p *probe
}

type wPriv struct{ ad.ConstMatrix }

type wMatrix struct {
	wMatrixPub
	wPriv
}

func wrapM(m ad.ConstMatrix, p *probe) ad.ConstMatrix {
	return wMatrix{wMatrixPub{m, p}, wPriv{m}}
}

func (w wMatrixPub) ElementType() ad.ScalarType { w.p.tick(); return w.m.ElementType() }
func (w wMatrixPub) Reduce(f func(ad.Scalar, ad.ConstScalar) ad.Scalar, r ad.Scalar) ad.Scalar {
	w.p.tick()
	return w.m.Reduce(f, r)
}
func (w wMatrixPub) String() string { w.p.tick(); return w.m.String() }
func (w wMatrixPub) CloneConstMatrix() ad.ConstMatrix {
	w.p.tick()
	return wrapM(w.m.CloneConstMatrix(), w.p)
}
func (w wMatrixPub) Dims() (int, int)                        { w.p.tick(); return w.m.Dims() }
func (w wMatrixPub) Equals(b ad.ConstMatrix, e float64) bool { w.p.tick(); return w.m.Equals(b, e) }
func (w wMatrixPub) Table() string                           { w.p.tick(); return w.m.Table() }
func (w wMatrixPub) Int8At(i, j int) int8                    { w.p.tick(); return w.m.Int8At(i, j) }
func (w wMatrixPub) Int16At(i, j int) int16                  { w.p.tick(); return w.m.Int16At(i, j) }
func (w wMatrixPub) Int32At(i, j int) int32                  { w.p.tick(); return w.m.Int32At(i, j) }
func (w wMatrixPub) Int64At(i, j int) int64                  { w.p.tick(); return w.m.Int64At(i, j) }
func (w wMatrixPub) IntAt(i, j int) int                      { w.p.tick(); return w.m.IntAt(i, j) }
func (w wMatrixPub) Float32At(i, j int) float32              { w.p.tick(); return w.m.Float32At(i, j) }
func (w wMatrixPub) Float64At(i, j int) float64              { w.p.tick(); return w.m.Float64At(i, j) }
func (w wMatrixPub) ConstAt(i, j int) ad.ConstScalar         { w.p.tick(); return w.m.ConstAt(i, j) }
func (w wMatrixPub) ConstSlice(a, b, c, d int) ad.ConstMatrix {
	w.p.tick()
	return wrapM(w.m.ConstSlice(a, b, c, d), w.p)
}
func (w wMatrixPub) ConstRow(i int) ad.ConstVector { w.p.tick(); return wVector{w.m.ConstRow(i), w.p} }
func (w wMatrixPub) ConstCol(j int) ad.ConstVector { w.p.tick(); return wVector{w.m.ConstCol(j), w.p} }
func (w wMatrixPub) ConstDiag() ad.ConstVector     { w.p.tick(); return wVector{w.m.ConstDiag(), w.p} }
func (w wMatrixPub) AsConstVector() ad.ConstVector {
	w.p.tick()
	return wVector{w.m.AsConstVector(), w.p}
}
func (w wMatrixPub) IsSymmetric(e float64) bool   { w.p.tick(); return w.m.IsSymmetric(e) }
func (w wMatrixPub) MarshalJSON() ([]byte, error) { w.p.tick(); return w.m.MarshalJSON() }
func (w wMatrixPub) ConstIterator() ad.MatrixConstIterator {
	w.p.tick()
	return wMatIt{w.m.ConstIterator(), w.p}
}
func (w wMatrixPub) ConstIteratorFrom(i, j int) ad.MatrixConstIterator {
	w.p.tick()
	return wMatIt{w.m.ConstIteratorFrom(i, j), w.p}
}

type wMatIt struct {
	it ad.MatrixConstIterator
	p  *probe
}

func (w wMatIt) CloneConstIterator() ad.MatrixConstIterator {
	w.p.tick()
	return wMatIt{w.it.CloneConstIterator(), w.p}
}
func (w wMatIt) GetConst() ad.ConstScalar { w.p.tick(); return w.it.GetConst() }
func (w wMatIt) Ok() bool                 { w.p.tick(); return w.it.Ok() }
func (w wMatIt) Next()                    { w.p.tick(); w.it.Next() }
func (w wMatIt) Index() (int, int)        { w.p.tick(); return w.it.Index() }

var _ ad.ConstVector = wVector{}
var _ ad.ConstMatrix = wMatrix{}

// selfCheckWrappers: every exported method of ConstMatrix must be implemented by wMatrixPub
// itself, and a call of each access method must tick the probe. Returns "" if all is well.
func selfCheckWrappers() string {
	it := reflect.TypeOf((*ad.ConstMatrix)(nil)).Elem()
	pt := reflect.TypeOf(wMatrixPub{})
	for i := 0; i < it.NumMethod(); i++ {
		m := it.Method(i)
		if m.PkgPath != "" {
			continue // unexported
		}
		if _, ok := pt.MethodByName(m.Name); !ok {
			return "ConstMatrix wrapper does not interpose the exported method " + m.Name
		}
	}
	p := &probe{}
	M := wrapM(opMat(ad.Float64Type, 2, 2, 0), p)
	M.Dims()
	M.ConstAt(0, 1)
	M.Float64At(1, 1)
	for it := M.ConstIterator(); it.Ok(); it.Next() {
		it.GetConst()
	}
	M.ConstRow(0).ConstAt(1)
	// 3 reads, ConstIterator, 5 Ok + 4 Next + 4 GetConst, ConstRow, ConstAt on the row
	if p.n != 3+1+13+2 {
		return fmt.Sprintf("ConstMatrix wrapper counted %d calls instead of %d", p.n, 3+1+13+2)
	}
	p = &probe{}
	V := wrapV(opVec(ad.Float64Type, 2, 0), p)
	V.Dim()
	V.ConstAt(1)
	for it := V.ConstIterator(); it.Ok(); it.Next() {
		it.Index()
	}
	// Dim, ConstAt, ConstIterator, 3 Ok + 2 Next + 2 Index
	if p.n != 2+1+7 {
		return fmt.Sprintf("ConstVector wrapper counted %d calls instead of %d", p.n, 2+1+7)
	}
	return ""
}

// ---- O1: operations of the receiver with wrapped operands / interposed callbacks -------------

type o1op struct {
	name string
	// f runs the operation on receiver x; all wrapped operands and callbacks tick p. The
	// returned string is appended to the observation of the receiver (results that are not
	// stored in the receiver, e.g. of Reduce).
	f func(x any, p *probe) string
}

func o1Base(name string) string {
	if i := strings.Index(name, "("); i >= 0 {
		return name[:i]
	}
	return name
}

func o1List(x any) []o1op {
	var L []o1op
	switch x0 := x.(type) {
	case ad.Matrix:
		T := x0.ElementType()
		add := func(name string, f func(x ad.Matrix, p *probe)) {
			L = append(L, o1op{name, func(x any, p *probe) string { f(x.(ad.Matrix), p); return "" }})
		}
		// matrix products park result rows/columns in scratch space: all three aliasing
		// variants (the receiver as right factor selects the other scratch vector)
		add("MdotM(w,w)", func(x ad.Matrix, p *probe) {
			n, m := x.Dims()
			x.MdotM(wrapM(opMat(T, n, 2, 0), p), wrapM(opMat(T, 2, m, 1), p))
		})
		add("MdotM(w,recv)", func(x ad.Matrix, p *probe) {
			n, _ := x.Dims()
			x.MdotM(wrapM(opMat(T, n, n, 0), p), x)
		})
		add("MdotM(recv,w)", func(x ad.Matrix, p *probe) {
			_, m := x.Dims()
			x.MdotM(x, wrapM(opMat(T, m, m, 1), p))
		})
		add("MaddM(w,w)", func(x ad.Matrix, p *probe) {
			n, m := x.Dims()
			x.MaddM(wrapM(opMat(T, n, m, 0), p), wrapM(opMat(T, n, m, 1), p))
		})
		add("MmulM(w,recv)", func(x ad.Matrix, p *probe) {
			n, m := x.Dims()
			x.MmulM(wrapM(opMat(T, n, m, 0), p), x)
		})
		add("MsubS(w,s)", func(x ad.Matrix, p *probe) {
			n, m := x.Dims()
			x.MsubS(wrapM(opMat(T, n, m, 0), p), ad.NewScalar(T, 2))
		})
		add("Set(w)", func(x ad.Matrix, p *probe) {
			n, m := x.Dims()
			x.Set(wrapM(opMat(T, n, m, 2), p))
		})
		add("Outer(w,w)", func(x ad.Matrix, p *probe) {
			n, m := x.Dims()
			x.Outer(wrapV(opVec(T, n, 0), p), wrapV(opVec(T, m, 1), p))
		})
		add("Map(f)", func(x ad.Matrix, p *probe) {
			x.Map(func(s ad.Scalar) { p.tick(); s.SetFloat64(s.GetFloat64() + 1) })
		})
		add("MapSet(f)", func(x ad.Matrix, p *probe) {
			x.MapSet(func(s ad.ConstScalar) ad.Scalar { p.tick(); return ad.NewScalar(T, s.GetFloat64()+2) })
		})
		L = append(L, o1op{"Reduce(f)", func(x any, p *probe) string {
			r := x.(ad.Matrix).Reduce(func(r ad.Scalar, s ad.ConstScalar) ad.Scalar { p.tick(); r.Add(r, s); return r }, ad.NullScalar(T))
			return " reduce=" + obs(r, false)
		}})
	case ad.Vector:
		T := x0.ElementType()
		add := func(name string, f func(x ad.Vector, p *probe)) {
			L = append(L, o1op{name, func(x any, p *probe) string { f(x.(ad.Vector), p); return "" }})
		}
		add("VaddV(w,w)", func(x ad.Vector, p *probe) {
			n := x.Dim()
			x.VaddV(wrapV(opVec(T, n, 0), p), wrapV(opVec(T, n, 1), p))
		})
		add("VmulV(w,recv)", func(x ad.Vector, p *probe) { x.VmulV(wrapV(opVec(T, x.Dim(), 0), p), x) })
		add("VsubS(w,s)", func(x ad.Vector, p *probe) { x.VsubS(wrapV(opVec(T, x.Dim(), 0), p), ad.NewScalar(T, 2)) })
		add("MdotV(w,w)", func(x ad.Vector, p *probe) {
			x.MdotV(wrapM(opMat(T, x.Dim(), 2, 0), p), wrapV(opVec(T, 2, 1), p))
		})
		add("VdotM(w,w)", func(x ad.Vector, p *probe) {
			x.VdotM(wrapV(opVec(T, 2, 1), p), wrapM(opMat(T, 2, x.Dim(), 0), p))
		})
		add("Set(w)", func(x ad.Vector, p *probe) { x.Set(wrapV(opVec(T, x.Dim(), 2), p)) })
		add("Map(f)", func(x ad.Vector, p *probe) {
			x.Map(func(s ad.Scalar) { p.tick(); s.SetFloat64(s.GetFloat64() + 1) })
		})
		add("MapSet(f)", func(x ad.Vector, p *probe) {
			x.MapSet(func(s ad.ConstScalar) ad.Scalar { p.tick(); return ad.NewScalar(T, s.GetFloat64()+2) })
		})
		L = append(L, o1op{"Reduce(f)", func(x any, p *probe) string {
			r := x.(ad.Vector).Reduce(func(r ad.Scalar, s ad.ConstScalar) ad.Scalar { p.tick(); r.Add(r, s); return r }, ad.NullScalar(T))
			return " reduce=" + obs(r, false)
		}})
	}
	return L
}

func findO1(x any, name string) *o1op {
	for _, o := range o1List(x) {
		if o.name == name {
			o := o
			return &o
		}
	}
	return nil
}

// ---- O2: the mutation alphabet plus the products that use the receiver's scratch space ----------

// quickO2 is the O2 alphabet of the quick tier: every whole-container operation of the
// mutation alphabet and one representative of each per-cell family (thorough: everything).
var quickO2 = map[string]bool{
	"At(0).SetFloat64": true, "At(0).Set": true, "At(0,0).SetFloat64": true, "At(0,0).Set": true,
	"Set": true, "Reset": true, "SetIdentity": true, "Tip": true, "Permute": true, "Sort": true, "ReverseOrder": true,
	"PermuteRows": true, "SymmetricPermutation": true,
	"VaddV": true, "VmulS": true, "MdotV": true, "VdotM": true,
	"MaddM": true, "MmulS": true, "MdotM": true, "MdotM(a,self)": true, "MdotM(self,b)": true, "Outer": true,
	"Map": true, "MapSet": true, "Iterator.Get.Set": true, "T.At.Set": true, "AsVector.At.Set": true, "Row.write": true,
	"AsMatrix.At.Set": true, "AppendVector+write": true,
	"Variables(1)": true, "MdotV-scratch": true,
}

// o2List: the mutation alphabet of the copy-independence check plus the two products with
// the receiver as a factor (they use the other scratch vector)
func o2List(o any, owning, thorough bool) []mutation {
	L := mutations(o, owning)
	if m0, ok := o.(ad.Matrix); ok {
		T := m0.ElementType()
		L = append(L,
			mutation{"MdotM(a,self)", func(o any) { v := o.(ad.Matrix); a, _ := v.Dims(); v.MdotM(opMat(T, a, a, 0), v) }},
			mutation{"MdotM(self,b)", func(o any) { v := o.(ad.Matrix); _, b := v.Dims(); v.MdotM(v, opMat(T, b, b, 1)) }},
		)
	}
	if thorough {
		return L
	}
	var Q []mutation
	for _, m := range L {
		if quickO2[m.name] {
			Q = append(Q, m)
		}
	}
	return Q
}

// ---- enumeration ----------------------------------------------------------------------------------

// interleaveDescs: the (source) objects of the interleaving exploration
func interleaveDescs(thorough bool, emit func(Desc)) {
	for _, sto := range []string{"dense", "sparse"} {
		for _, typ := range typeNames {
			// vectors
			emit(Desc{Kind: "vector", Sto: sto, Typ: typ, N: 2, Mask: 0b11})
			emit(Desc{Kind: "vector", Sto: sto, Typ: typ, N: 3, Mask: 0b111, Sl: []int{1, 3}})
			if thorough {
				emit(Desc{Kind: "vector", Sto: sto, Typ: typ, N: 3, Mask: 0b101})
				if isReal(typ) {
					emit(Desc{Kind: "vector", Sto: sto, Typ: typ, N: 2, Mask: 0b11, Order: 2})
				}
			}
			// matrices: owning, transposed view (T swaps the two scratch vectors), slice
			emit(Desc{Kind: "matrix", Sto: sto, Typ: typ, R: 2, C: 2, Mask: 0b1111})
			emit(Desc{Kind: "matrix", Sto: sto, Typ: typ, R: 2, C: 2, Mask: 0b1111, Path: []Step{{Op: "T"}}})
			emit(Desc{Kind: "matrix", Sto: sto, Typ: typ, R: 2, C: 3, Mask: 0b111111, Path: []Step{{Op: "S", A: [4]int{0, 2, 1, 3}}}})
			if thorough {
				emit(Desc{Kind: "matrix", Sto: sto, Typ: typ, R: 2, C: 3, Mask: 0b111111})
				emit(Desc{Kind: "matrix", Sto: sto, Typ: typ, R: 3, C: 3, Mask: 0b101111101})
				emit(Desc{Kind: "matrix", Sto: sto, Typ: typ, R: 3, C: 2, Mask: 0b111111, Path: []Step{{Op: "T"}, {Op: "S", A: [4]int{0, 2, 1, 3}}}})
				if isReal(typ) {
					emit(Desc{Kind: "matrix", Sto: sto, Typ: typ, R: 2, C: 2, Mask: 0b1111, Order: 1})
				}
			}
		}
	}
}

// interleaveCtors: the copy constructors whose result is a mutable container. State that
// is live during an operation is typed by the element type, so the quick tier takes the
// Clone family and the As-conversions to the SAME element type (both storage classes);
// thorough takes every constructor.
func interleaveCtors(d Desc, thorough bool) []ctor {
	var L []ctor
	for _, ct := range ctors(d, true) {
		if i := strings.Index(ct.name, ":"); i >= 0 && !thorough && ct.name[i+1:] != d.Typ {
			continue
		}
		if strings.HasPrefix(ct.name, "AsSparseConst") {
			continue // immutable result: cannot be a receiver
		}
		L = append(L, ct)
	}
	return L
}

// XCase: one interleaved run (replay artefact)
type XCase struct {
	D    Desc   `json:"object"`
	Ctor string `json:"ctor"`
	Recv string `json:"receiver"` // copy | src : the side that is the receiver of O1
	O1   string `json:"o1"`
	O2   string `json:"o2"`
	K    int    `json:"at_access"`
	Key  string `json:"key"`
}

type xpair struct {
	d        Desc
	ct       *ctor
	thorough bool
}

// mk builds a fresh (source, copy) pair and returns (receiver, other) for the given side
func (x *xpair) mk(recvSide string) (recv, other any, ok bool) {
	w := build(x.d)
	if w.err != "" {
		return nil, nil, false
	}
	var cp any
	if try(func() { cp = x.ct.f(w.obj) }) != "" || cp == nil {
		return nil, nil, false
	}
	if recvSide == "copy" {
		return cp, w.obj, true
	}
	return w.obj, cp, true
}

func mutableContainer(o any) bool {
	switch o.(type) {
	case ad.Matrix, ad.Vector:
		return true
	}
	return false
}

// undisturbed runs O1 alone: number of interposable calls K, final receiver observation
func (x *xpair) undisturbed(side string, o1 *o1op) (K int, recvObs string, perr string, ok bool) {
	recv, _, ok := x.mk(side)
	if !ok {
		return 0, "", "", false
	}
	p := &probe{}
	extra := ""
	perr = try(func() { extra = o1.f(recv, p) })
	return p.n, obs(recv, true) + extra, perr, true
}

// alone runs O2 alone on the other side. Nothing is observed before the operation: walking
// the const iterator of a sparse container prunes its stored zero entries (see obs), and
// the disturbed run does not observe before O2 either.
func (x *xpair) alone(side string, o2 *mutation) (otherObs string, changed bool, ok bool) {
	_, other, ok := x.mk(side)
	if !ok {
		return "", false, false
	}
	try(func() { o2.f(other) })
	otherObs = obs(other, true)
	_, pristine, _ := x.mk(side)
	return otherObs, otherObs != obs(pristine, true), true
}

// disturbed runs O1 with O2 fired inside the k-th interposable call
func (x *xpair) disturbed(side string, o1 *o1op, o2 *mutation, k int) (recvObs, otherObs, perr string, fired, ok bool) {
	recv, other, ok := x.mk(side)
	if !ok {
		return "", "", "", false, false
	}
	p := &probe{at: k}
	p.hook = func() { try(func() { o2.f(other) }) }
	extra := ""
	perr = try(func() { extra = o1.f(recv, p) })
	return obs(recv, true) + extra, obs(other, true), perr, p.fired, true
}

func xKey(d Desc, ct *ctor, o1 string, what string) string {
	return fmt.Sprintf("interleave|%s|%s|%s|O1=%s|%s", d.Kind, d.Sto, ctorFamily(ct.name), o1Base(o1), what)
}

// check compares one disturbed run with the expectations
func (x *xpair) check(side string, o1 *o1op, o2 *mutation, k int, wantRecv, wantOther, wantPerr string) (fails []failure, outcome string) {
	gotRecv, gotOther, perr, fired, ok := x.disturbed(side, o1, o2, k)
	if !ok {
		return nil, "pair-unbuildable"
	}
	if !fired {
		return nil, "access-not-reached"
	}
	descr := func() string {
		return fmt.Sprintf("%s of %v; %s.%s with %s fired on the %s inside interposed call %d",
			x.ct.name, x.d, side, o1.name, o2.name, map[string]string{"copy": "source", "src": "copy"}[side], k)
	}
	if perr != wantPerr {
		fails = append(fails, failure{xKey(x.d, x.ct, o1.name, "receiver-op-panics"),
			fmt.Sprintf("%s: the receiver's operation ended with %q (undisturbed: %q)", descr(), perr, wantPerr)})
	} else if gotRecv != wantRecv {
		fails = append(fails, failure{xKey(x.d, x.ct, o1.name, "receiver-result-corrupted"),
			fmt.Sprintf("%s: the receiver ended as %s, undisturbed %s", descr(), gotRecv, wantRecv)})
	}
	if gotOther != wantOther {
		fails = append(fails, failure{xKey(x.d, x.ct, o1.name, "other-side-corrupted"),
			fmt.Sprintf("%s: the other side ended as %s, with %s alone %s", descr(), gotOther, o2.name, wantOther)})
	}
	if len(fails) > 0 {
		return fails, "fail"
	}
	return nil, "ok"
}

// runXCase: replay path
func runXCase(cs XCase) (fails []failure, outcome string) {
	var ct *ctor
	for _, c := range ctors(cs.D, true) {
		if c.name == cs.Ctor {
			c := c
			ct = &c
		}
	}
	if ct == nil {
		return nil, "no-ctor"
	}
	x := &xpair{d: cs.D, ct: ct, thorough: true}
	recv, other, ok := x.mk(cs.Recv)
	if !ok || !mutableContainer(recv) || !mutableContainer(other) {
		return nil, "pair-unbuildable"
	}
	o1 := findO1(recv, cs.O1)
	var o2 *mutation
	for _, m := range o2List(other, len(cs.D.Path) == 0, true) {
		if m.name == cs.O2 {
			m := m
			o2 = &m
		}
	}
	if o1 == nil || o2 == nil {
		return nil, "op-not-applicable"
	}
	_, wantRecv, wantPerr, _ := x.undisturbed(cs.Recv, o1)
	wantOther, _, _ := x.alone(cs.Recv, o2)
	return x.check(cs.Recv, o1, o2, cs.K, wantRecv, wantOther, wantPerr)
}

// exploreInterleave enumerates (source, copy) x receiver side x O1 x O2 x every access index
func exploreInterleave(r *runner, thorough bool) (nontrivial int64) {
	c := r.c
	if c.Shard == 0 {
		if msg := selfCheckWrappers(); msg != "" {
			c.HarnessError(msg)
			return 0
		}
	}
	counts := map[string]int64{}
	defer func() {
		for k, v := range counts {
			c.Count("interleave:"+k, v)
		}
	}()
	interleaveDescs(thorough, func(d Desc) {
		cts := interleaveCtors(d, thorough)
		for ci := range cts {
			ct := &cts[ci]
			for _, side := range []string{"copy", "src"} {
				r.idx++
				if !c.Mine(r.idx) {
					continue
				}
				x := &xpair{d: d, ct: ct, thorough: thorough}
				recv, other, ok := x.mk(side)
				if !ok || !mutableContainer(recv) || !mutableContainer(other) {
					counts["pairs-skipped(ctor fails on view / immutable copy)"]++
					continue
				}
				counts["pairs(source,copy,receiver-side)"]++
				c.Guard("interleave|"+d.Kind+"|"+ct.name, descRank(d), d)
				o1s := o1List(recv)
				o2s := o2List(other, len(d.Path) == 0, thorough)
				// expectations for O2 alone (twice: an operation whose result depends on map
				// iteration order is not usable as an oracle)
				type exp2 struct {
					obs     string
					changed bool
					usable  bool
				}
				e2 := make([]exp2, len(o2s))
				for i := range o2s {
					a, ch, ok1 := x.alone(side, &o2s[i])
					b, _, ok2 := x.alone(side, &o2s[i])
					e2[i] = exp2{a, ch, ok1 && ok2 && a == b}
					if !e2[i].usable {
						counts["o2-not-deterministic-skipped"]++
					}
				}
				for oi := range o1s {
					o1 := &o1s[oi]
					K, wantRecv, wantPerr, _ := x.undisturbed(side, o1)
					K2, wantRecv2, wantPerr2, _ := x.undisturbed(side, o1)
					if K != K2 || wantRecv != wantRecv2 || wantPerr != wantPerr2 {
						counts["o1-not-deterministic-skipped"]++
						continue
					}
					if wantPerr != "" {
						// e.g. sparse MdotM refuses a factor that is the receiver
						rsto := "dense"
						if strings.Contains(fmt.Sprintf("%T", recv), "Sparse") {
							rsto = "sparse"
						}
						counts["o1-panics-undisturbed|receiver="+rsto+"|"+o1.name]++
						continue
					}
					if K == 0 {
						counts[fmt.Sprintf("not-interposable|%T|%s", recv, o1.name)]++
						continue
					}
					counts["o1-explored"]++
					counts["interposed-calls"] += int64(K)
					for i := range o2s {
						if !e2[i].usable {
							continue
						}
						for k := 1; k <= K; k++ {
							fails, out := x.check(side, o1, &o2s[i], k, wantRecv, e2[i].obs, wantPerr)
							if out == "ok" && !e2[i].changed {
								out = "ok(o2-without-effect)"
							}
							if out == "ok" {
								nontrivial++
							}
							cs := XCase{D: d, Ctor: ct.name, Recv: side, O1: o1.name, O2: o2s[i].name, K: k}
							r.report(Case{Kind: "interleave", X: &cs}, descRank(d)+int64(k), fails, out)
							if out == "ok" && k == K && (r.idx+int64(oi)+int64(i))%997 == 0 {
								c.Sample(map[string]any{"check": "interleave", "object": d.String(), "ctor": ct.name, "receiver": side, "o1": o1.name, "o2": o2s[i].name, "interposed_calls": K})
							}
						}
					}
				}
			}
		}
	})
	return nontrivial
}
