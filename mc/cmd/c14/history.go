package main

// Mutator histories: an object brought to parameters theta by ANY sequence of exported
// mutators must behave like a freshly constructed object with theta.
//
// Mutators are discovered by reflection on the method set of every distribution type the
// harness has a family for (plus every type in the three Pdf registries): all exported
// methods named Set* and ImportConfig. Argument suppliers:
//   SetParameters(Vector)                    GetParameters() of a FRESH object at a target lattice
//                                            point of the same shape (copied, the callee may modify it)
//   ImportConfig(ConfigDistribution, type)   ExportConfig() of a fresh object at any target lattice
//                                            point of the family, through JSON
//   family.setters[name]                     scalar / index-set arguments from the family's own
//                                            parameter lattice (SetN, SetStartStates, SetFinalStates)
// Mutators without a supplier are listed in the evidence counters, never skipped silently.
//
// Histories: every start point of the valid lattice x every (mutator, argument) (length 1,
// arguments from the whole lattice); every start point of a bounded sub-lattice x every pair
// of (mutator, argument) with targets from that sub-lattice (length 2). After each history the
// object is compared with a FRESH object built by the constructor at the modelled final
// parameters: GetParameters, LogPdf on the probe points, total mass (discrete families),
// ExportConfig. The fresh object itself is validated against the textbook reference by the
// points / normalisation clauses.

import (
	"bytes"
	"encoding/json"
	"fmt"
	"math"
	"reflect"
	"sort"
	"strings"

	. "github.com/pbenner/autodiff"
	st "github.com/pbenner/autodiff/statistics"
	md "github.com/pbenner/autodiff/statistics/matrixDistribution"
	vd "github.com/pbenner/autodiff/statistics/vectorDistribution"
)

// Step is one mutator call of a history (replayable).
type Step struct {
	M string `json:"mutator"`
	T *Dist  `json:"target,omitempty"`   // SetParameters / ImportConfig: the lattice point whose fresh object supplies the argument
	A *F     `json:"argument,omitempty"` // scalar-argument setters
}

// setter: argument supplier and model of a Set* method other than SetParameters.
type setter struct {
	args  func(th bool) []float64              // argument alphabet, encoded as float64
	apply func(d Dist, a float64) (Dist, bool) // modelled resulting instance; false: the call is not admissible in this state
	conv  func(d Dist, a float64) any          // the Go value handed to the method
	show  func(d Dist, a float64) string       // for messages
}

// keySeq: the part of a history that goes into the violation key: the mutator of a one-step
// history, "..>last mutator" for longer ones (the whole sequence is in the message and the case).
func keySeq(steps []Step) string {
	if len(steps) <= 1 {
		return seqOf(steps)
	}
	return "..>" + steps[len(steps)-1].M
}

func seqOf(steps []Step) string {
	n := make([]string, len(steps))
	for i, s := range steps {
		n[i] = s.M
	}
	return strings.Join(n, ">")
}

func (s Step) describe(f *family, cur Dist) string {
	switch {
	case s.T != nil:
		return fmt.Sprintf("%s(<of a fresh %s>)", s.M, *s.T)
	case s.A != nil:
		if sp, ok := f.setters[s.M]; ok && sp.show != nil {
			return fmt.Sprintf("%s(%s)", s.M, sp.show(cur, float64(*s.A)))
		}
		return fmt.Sprintf("%s(%v)", s.M, float64(*s.A))
	}
	return s.M + "()"
}

/* discovery
 * -------------------------------------------------------------------------- */

type mutInfo struct {
	name, sig string
	mode      string // target-params | target-config | setter | unsupplied
}

func isMutatorName(n string) bool {
	if n == "ImportConfig" {
		return true
	}
	return len(n) > 3 && strings.HasPrefix(n, "Set") && n[3] >= 'A' && n[3] <= 'Z'
}

var (
	vectorIface = reflect.TypeOf((*Vector)(nil)).Elem()
	configType  = reflect.TypeOf(st.ConfigDistribution{})
	stypeType   = reflect.TypeOf((*ScalarType)(nil)).Elem()
	errorIface  = reflect.TypeOf((*error)(nil)).Elem()
)

func mutatorsOfType(t reflect.Type, setters map[string]setter) []mutInfo {
	out := []mutInfo{}
	for i := 0; i < t.NumMethod(); i++ {
		m := t.Method(i)
		if !isMutatorName(m.Name) {
			continue
		}
		mt := m.Type // func(recv, args...) results
		ins := []string{}
		for j := 1; j < mt.NumIn(); j++ {
			ins = append(ins, mt.In(j).String())
		}
		outs := []string{}
		for j := 0; j < mt.NumOut(); j++ {
			outs = append(outs, mt.Out(j).String())
		}
		mi := mutInfo{name: m.Name, sig: "(" + strings.Join(ins, ", ") + ") " + strings.Join(outs, ", "), mode: "unsupplied"}
		retErr := mt.NumOut() == 1 && mt.Out(0) == errorIface
		switch {
		case m.Name == "SetParameters" && mt.NumIn() == 2 && mt.In(1) == vectorIface && retErr:
			mi.mode = "target-params"
		case m.Name == "ImportConfig" && mt.NumIn() == 3 && mt.In(1) == configType && mt.In(2) == stypeType && retErr:
			mi.mode = "target-config"
		default:
			if sp, ok := setters[m.Name]; ok && mt.NumIn() == 2 && (mt.NumOut() == 0 || retErr) && sp.conv != nil {
				mi.mode = "setter"
			}
		}
		out = append(out, mi)
	}
	sort.Slice(out, func(i, j int) bool { return out[i].name < out[j].name })
	return out
}

// countMutators records the discovery result once (shard 0).
func (rp *reporter) countMutators() {
	c := rp.c
	seen := map[reflect.Type]bool{}
	for _, name := range famOrder {
		f := fams[name]
		t := reflect.TypeOf(f.fresh())
		if seen[t] {
			continue
		}
		seen[t] = true
		c.Count("history: distribution types inspected by reflection", 1)
		for _, m := range mutatorsOfType(t, f.setters) {
			c.Count("history: exported mutators discovered", 1)
			if m.mode == "unsupplied" {
				c.Count(fmt.Sprintf("history: mutator NOT driven (no argument supplier): %s.%s%s", t, m.name, m.sig), 1)
			} else {
				c.Count("history: exported mutators driven", 1)
				c.Count(fmt.Sprintf("history: driven: %s.%s", t, m.name), 1)
			}
		}
	}
	// registered types the harness has no family for
	reg := map[string]any{}
	for k, v := range st.ScalarPdfRegistry {
		reg[k] = v
	}
	for k, v := range st.VectorPdfRegistry {
		reg[k] = v
	}
	for k, v := range st.MatrixPdfRegistry {
		reg[k] = v
	}
	// exported distribution types of the three packages that are in no registry
	reg["(not registered) vectorDistribution.LogisticRegression"] = new(vd.LogisticRegression)
	reg["(not registered) matrixDistribution.Chmm"] = new(md.Chmm)
	names := []string{}
	for k := range reg {
		names = append(names, k)
	}
	sort.Strings(names)
	for _, k := range names {
		t := reflect.TypeOf(reg[k])
		if seen[t] {
			continue
		}
		seen[t] = true
		ms := []string{}
		for _, m := range mutatorsOfType(t, nil) {
			ms = append(ms, m.name)
		}
		c.Count(fmt.Sprintf("history: distribution type without a family in this harness, mutators NOT driven: %s (%q): %s", t, k, strings.Join(ms, ",")), 1)
	}
}

/* shapes
 * -------------------------------------------------------------------------- */

// sameShape: SetParameters can move an object at a to the parameters of b (equal
// structure, structural constants equal, equal lengths of the parameter vectors).
func sameShape(a, b Dist) bool {
	if a.Fam != b.Fam || len(a.P) != len(b.P) || len(a.Sub) != len(b.Sub) {
		return false
	}
	f := fams[a.Fam]
	if f.pNotParam && fmt.Sprint(a.P) != fmt.Sprint(b.P) {
		return false
	}
	if f.compat != nil && !f.compat(a, b) {
		return false
	}
	for i := range a.Sub {
		if !sameShape(a.Sub[i], b.Sub[i]) {
			return false
		}
	}
	return true
}

// subLattice: at most k lattice points at evenly spaced indices (the first one included).
func subLattice(l []Dist, k int) []Dist {
	if len(l) <= k {
		return l
	}
	out := []Dist{}
	last := -1
	for i := 0; i < k; i++ {
		j := i * (len(l) - 1) / (k - 1)
		if j != last {
			out = append(out, l[j])
		}
		last = j
	}
	return out
}

// withAlts: the targets of a wrapper family are its lattice points and, for each of them, the
// instance whose WRAPPED distributions sit at other lattice points of their own families
// (altOf), so that a mutator has to move the inner parameters as well.
func withAlts(l []Dist, th bool) []Dist {
	out := append([]Dist{}, l...)
	seen := map[string]bool{}
	for _, d := range l {
		seen[d.String()] = true
	}
	for _, d := range l {
		if len(d.Sub) == 0 {
			continue
		}
		a := altOf(d, th)
		if !seen[a.String()] {
			seen[a.String()] = true
			out = append(out, a)
		}
	}
	return out
}

/* running one history
 * -------------------------------------------------------------------------- */

func callMutator(obj any, name string, args ...any) (err error, pan string) {
	defer func() {
		if r := recover(); r != nil {
			pan = fmt.Sprint(r)
			if len(pan) > 160 {
				pan = pan[:160]
			}
		}
	}()
	m := reflect.ValueOf(obj).MethodByName(name)
	in := make([]reflect.Value, len(args))
	for i, a := range args {
		in[i] = reflect.ValueOf(a)
	}
	res := m.Call(in)
	if len(res) == 1 && !res[0].IsNil() {
		err = res[0].Interface().(error)
	}
	return
}

// configOf: ExportConfig through JSON (as a file on disk would carry it)
func configOf(obj any) (cfg st.ConfigDistribution, js []byte, fail string) {
	defer func() {
		if r := recover(); r != nil {
			fail = "panic: " + fmt.Sprint(r)
		}
	}()
	c0 := obj.(st.ConfigurableDistribution).ExportConfig()
	var buf bytes.Buffer
	if err := c0.WriteJson(&buf); err != nil {
		return cfg, nil, "not JSON-serialisable: " + err.Error()
	}
	js = append([]byte{}, buf.Bytes()...)
	if err := cfg.ReadJson(&buf); err != nil {
		return cfg, nil, "JSON not readable: " + err.Error()
	}
	return cfg, js, ""
}

// jsonClose compares two decoded JSON trees; numbers within tol (relative), the index sets
// StartStates / FinalStates as sets (they are exported by ranging over a map).
func jsonClose(a, b any, tol float64, asSet bool) bool {
	switch x := a.(type) {
	case map[string]any:
		y, ok := b.(map[string]any)
		if !ok || len(x) != len(y) {
			return false
		}
		for k, v := range x {
			w, ok := y[k]
			if !ok || !jsonClose(v, w, tol, k == "StartStates" || k == "FinalStates") {
				return false
			}
		}
		return true
	case []any:
		y, ok := b.([]any)
		if !ok || len(x) != len(y) {
			return false
		}
		if asSet {
			num := func(l []any) []float64 {
				r := []float64{}
				for _, v := range l {
					if n, ok := v.(float64); ok {
						r = append(r, n)
					}
				}
				sort.Float64s(r)
				return r
			}
			p, q := num(x), num(y)
			if len(p) != len(x) || len(q) != len(y) {
				return false
			}
			for i := range p {
				if p[i] != q[i] {
					return false
				}
			}
			return true
		}
		for i := range x {
			if !jsonClose(x[i], y[i], tol, false) {
				return false
			}
		}
		return true
	case float64:
		y, ok := b.(float64)
		return ok && (x == y || math.Abs(x-y) <= tol*(1+math.Abs(y)))
	}
	return reflect.DeepEqual(a, b)
}

type massRes struct {
	lib, ref float64
	n        int
	bad      string // first unevaluable point
	refOK    bool
}

// massOf sums exp(LogPdf) over the support of a discrete scalar family (as normScalar does).
func (rp *reporter) massOf(f *family, d Dist, h string, obj any) massRes {
	sp := f.sup(d)
	r := massRes{}
	lo := 0.0
	if !math.IsInf(sp.lo, 0) {
		lo = sp.lo
	}
	for k := 0; k < 200000; k++ {
		x := lo + float64(k)
		if sp.kmax >= 0 && x > sp.hi {
			r.refOK = true
			break
		}
		ref := f.ref(d, x)
		ev := evalPdf(obj, f, d, h, []float64{x}, false)
		r.n++
		r.ref += math.Exp(ref.v)
		if !ev.ok() || math.IsNaN(ev.v) {
			if r.bad == "" {
				r.bad = fmt.Sprintf("LogPdf(%v) = %s", x, ev)
			}
		} else {
			r.lib += math.Exp(ev.v)
		}
		if 1-r.ref < 1e-12 && ref.v < -30 {
			r.refOK = true
			break
		}
	}
	rp.c.Eval(int64(r.n))
	r.refOK = r.refOK && math.Abs(r.ref-1) <= 1e-11
	return r
}

type histEnv struct {
	f      *family
	h      string
	t      ScalarType
	muts   []mutInfo
	fresh  map[string]*freshObj // by Dist string
	rank   int64
	nextID int64
}

type freshObj struct {
	d      Dist
	obj    any
	params []float64
	cfg    st.ConfigDistribution
	cfgJS  []byte
	cfgBad string
	probes [][]float64
	vals   []evalOut
	mass   *massRes
}

func (rp *reporter) freshOf(env *histEnv, d Dist) *freshObj {
	k := d.String()
	if fo, ok := env.fresh[k]; ok {
		return fo
	}
	fo := &freshObj{d: d}
	env.fresh[k] = fo
	b := safeBuild(func() (any, error) { return env.f.build(d, env.t) })
	if b.obj == nil || b.err != nil || b.pan != "" {
		return fo // reported by the points clause (ctor-rejects-valid)
	}
	fo.obj = b.obj
	p, pan := paramsOf(b.obj)
	if pan != "" {
		fo.obj = nil // reported by the roundtrip clause (get-panic)
		return fo
	}
	fo.params = p
	fo.cfg, fo.cfgJS, fo.cfgBad = configOf(b.obj)
	fo.probes = probePoints(env.f, d, rp.th)
	fo.vals = make([]evalOut, len(fo.probes))
	for i, x := range fo.probes {
		fo.vals[i] = evalPdf(b.obj, env.f, d, env.h, x, false)
	}
	rp.c.Eval(int64(len(fo.probes)))
	return fo
}

// applyStep performs one mutator call on obj (modelled state cur); returns the modelled next state.
// skip != "": the step is not applicable in this state (counted, no verdict).
func (rp *reporter) applyStep(env *histEnv, obj any, cur Dist, s Step) (next Dist, skip string, err error, pan string) {
	f := env.f
	switch {
	case s.M == "SetParameters":
		if s.T == nil || !sameShape(cur, *s.T) {
			return cur, "target of another shape", nil, ""
		}
		fo := rp.freshOf(env, *s.T)
		if fo.obj == nil || len(fo.params) == 0 {
			return cur, "no parameter vector", nil, ""
		}
		err, pan = callMutator(obj, "SetParameters", vecOf(env.t, append([]float64{}, fo.params...)))
		return *s.T, "", err, pan
	case s.M == "ImportConfig":
		if s.T == nil {
			return cur, "no target", nil, ""
		}
		fo := rp.freshOf(env, *s.T)
		if fo.obj == nil {
			return cur, "target cannot be built", nil, ""
		}
		if fo.cfgBad != "" {
			return cur, "target config not JSON-representable", nil, ""
		}
		var cfg st.ConfigDistribution
		if e := cfg.ReadJson(bytes.NewReader(fo.cfgJS)); e != nil { // a private copy of the tree
			return cur, "target config not JSON-representable", nil, ""
		}
		err, pan = callMutator(obj, "ImportConfig", cfg, env.t)
		return *s.T, "", err, pan
	}
	sp, ok := f.setters[s.M]
	if !ok || s.A == nil {
		return cur, "no supplier", nil, ""
	}
	nx, ok := sp.apply(cur, float64(*s.A))
	if !ok {
		return cur, "not admissible in this state", nil, ""
	}
	err, pan = callMutator(obj, s.M, sp.conv(cur, float64(*s.A)))
	return nx, "", err, pan
}

// runHistory executes one history from d0 and compares with the fresh object at the modelled end.
func (rp *reporter) runHistory(env *histEnv, d0 Dist, steps []Step, rank int64) {
	c := rp.c
	f, h := env.f, env.h
	seq := keySeq(steps)
	cs := Case{Dist: d0, Holder: h, Clause: "history", History: steps}
	b := safeBuild(func() (any, error) { return f.build(d0, env.t) })
	c.Eval(1)
	if b.obj == nil || b.err != nil || b.pan != "" {
		return
	}
	obj := b.obj
	cur := d0
	desc := []string{}
	changed := true
	for _, s := range steps {
		ds := s.describe(f, cur)
		nx, skip, err, pan := rp.applyStep(env, obj, cur, s)
		if skip != "" {
			c.Count("history: step not applicable ("+skip+")", 1)
			return
		}
		desc = append(desc, ds)
		if pan != "" {
			rp.violate(hkey(f.name, h, "mutator-panic", seq, ""),
				fmt.Sprintf("%s [%s parameters] then %s: panics: %s", d0, h, strings.Join(desc, " then "), pan), rank, cs)
			return
		}
		if err != nil {
			rp.violate(hkey(f.name, h, "mutator-error", seq, ""),
				fmt.Sprintf("%s [%s parameters] then %s: returns error %q for valid parameters %s", d0, h, strings.Join(desc, " then "), err, nx), rank, cs)
			return
		}
		if nx.String() == cur.String() {
			changed = false
		}
		cur = nx
	}
	fo := rp.freshOf(env, cur)
	if fo.obj == nil {
		c.Count("history: fresh object at the final parameters cannot be built", 1)
		return
	}
	what := fmt.Sprintf("%s [%s parameters] then %s", d0, h, strings.Join(desc, " then "))
	failed := false
	viol := func(kind, msg string) {
		failed = true
		rp.violate(hkey(f.name, h, kind, seq, ""), fmt.Sprintf("%s: %s (fresh object: %s)", what, msg, cur), rank, cs)
	}
	if changed {
		c.Nontrivial(1)
	}
	c.Count(fmt.Sprintf("history: histories of length %d compared with a fresh object", len(steps)), 1)
	// (1) GetParameters
	p, pan := paramsOf(obj)
	if pan != "" {
		viol("params", "GetParameters panics: "+pan)
		return
	}
	if !sameParams(fo.params, p, true) {
		viol("params", fmt.Sprintf("GetParameters() = %v, fresh object %v", p, fo.params))
		return // one finding per history: the first comparison that fails
	}
	// (2) density on the probe points
	tol := 1e-12
	if f.approxRT {
		tol = 1e-10
	}
	for i, x := range fo.probes {
		if !fo.vals[i].ok() {
			continue
		}
		ev := evalPdf(obj, f, cur, h, x, false)
		c.Eval(1)
		want := fo.vals[i].v
		if !(ev.ok() && (sameBits(ev.v, want) || math.Abs(ev.v-want) <= tol*(1+math.Abs(want)))) {
			viol("values", fmt.Sprintf("LogPdf(%v) = %s, fresh object gives %s", x, ev, fo.vals[i]))
			break
		}
	}
	if failed {
		return
	}
	// (3) total mass of the discrete scalar families
	if f.kind == "scalar" {
		if sp := f.sup(cur); sp.discrete && sp.kmax != -2 {
			if fo.mass == nil {
				m := rp.massOf(f, cur, h, fo.obj)
				fo.mass = &m
			}
			if fo.mass.refOK && fo.mass.bad == "" && math.Abs(fo.mass.lib-1) <= 1e-6 {
				m := rp.massOf(f, cur, h, obj)
				if m.bad != "" {
					viol("mass", fmt.Sprintf("the mass function cannot be summed: %s (fresh object sums to %s)", m.bad, fmtF(fo.mass.lib)))
				} else if !(math.Abs(m.lib-1) <= 1e-6) {
					viol("mass", fmt.Sprintf("exp(LogPdf) sums to %s over the support (%d points); fresh object: %s, textbook: %s", fmtF(m.lib), m.n, fmtF(fo.mass.lib), fmtF(fo.mass.ref)))
				}
			}
		}
	}
	if failed {
		return
	}
	// (4) ExportConfig
	if fo.cfgBad == "" {
		_, js, bad := configOf(obj)
		if bad != "" {
			viol("export", "ExportConfig: "+bad)
		} else if !bytes.Equal(js, fo.cfgJS) {
			var ta, tb any
			ea, eb := json.Unmarshal(js, &ta), json.Unmarshal(fo.cfgJS, &tb)
			if ea != nil || eb != nil || !jsonClose(ta, tb, 1e-12, false) {
				viol("export", fmt.Sprintf("ExportConfig() = %s, fresh object exports %s", compact(js), compact(fo.cfgJS)))
			}
		}
	}
}

func compact(js []byte) string {
	var b bytes.Buffer
	if json.Compact(&b, js) != nil {
		return string(js)
	}
	s := b.String()
	if len(s) > 300 {
		s = s[:300] + "..."
	}
	return s
}

func hkey(fam, holder, kind, seq, pclass string) string {
	k := fmt.Sprintf("%s|%s|history:%s|%s", fam, holder, kind, seq)
	if pclass != "" {
		k += "," + pclass
	}
	return k
}

/* enumeration from one start point
 * -------------------------------------------------------------------------- */

// movesFrom lists every (mutator, argument) the harness can supply, targets from tg.
func movesOf(env *histEnv, tg []Dist, th bool) []Step {
	out := []Step{}
	for _, m := range env.muts {
		switch m.mode {
		case "target-params", "target-config":
			for i := range tg {
				t := tg[i]
				out = append(out, Step{M: m.name, T: &t})
			}
		case "setter":
			for _, a := range env.f.setters[m.name].args(th) {
				a := F(a)
				out = append(out, Step{M: m.name, A: &a})
			}
		}
	}
	return out
}

func (rp *reporter) checkHistories(d0 Dist, rank int64, onlyHolder string) {
	c := rp.c
	f := fams[d0.Fam]
	lattice := withAlts(f.valid(rp.th), rp.th)
	k := 8
	if rp.th {
		k = 12
	}
	sub := subLattice(lattice, k)
	inSub := false
	for _, s := range sub {
		if s.String() == d0.String() {
			inSub = true
		}
	}
	for _, h := range holders {
		if onlyHolder != "" && onlyHolder != h {
			continue
		}
		c.Guard(d0.String()+"/"+h+"/history", rank, Case{Dist: d0, Holder: h, Clause: "history"})
		env := &histEnv{f: f, h: h, t: typeOf(h), fresh: map[string]*freshObj{}, rank: rank}
		env.muts = mutatorsOfType(reflect.TypeOf(f.fresh()), f.setters)
		if f.isolateSet {
			// SetParameters of this family once was an unrecoverable recursion: probe in a child process first
			if fatal := runProbe(d0, h); fatal != "" {
				c.Count("history: start point skipped, SetParameters kills the process (reported by the roundtrip clause)", 1)
				continue
			}
		}
		n := int64(0)
		all := movesOf(env, lattice, rp.th)
		for _, s := range all {
			n++
			rp.runHistory(env, d0, []Step{s}, rank+n)
		}
		if !inSub {
			continue
		}
		short := movesOf(env, sub, rp.th)
		for _, s1 := range short {
			for _, s2 := range short {
				n++
				rp.runHistory(env, d0, []Step{s1, s2}, rank+n)
			}
		}
	}
}
