package main

// Caller-owned objects: a distribution must not depend on objects its caller still holds.
//
// "Proper for all valid parameters" and "parameter get/set round-trip" are statements about
// the distribution object, not about the scalars the caller used to describe it: most
// families precompute normalisation constants in the constructor, so a distribution that
// keeps a REFERENCE to a constructor / SetParameters argument silently turns into something
// that is neither the old nor the new density as soon as the caller reuses its scratch
// scalars (the usual way to build the next candidate in an optimisation loop).
//
// Routes by which caller-owned Scalar / Vector / Matrix objects reach a distribution, all
// enumerated for every family x every valid lattice point x holder type:
//   via=ctor                           every Scalar / Vector / Matrix the family's constructor call
//                                      receives. The objects are found generically: every such
//                                      argument of every constructor call in this harness is created
//                                      by argS / vecOf / matOf, which report to a recorder while it
//                                      is active (arguments of NESTED constructor calls are arguments
//                                      of the nested family, which has its own lattice).
//   via=SetParameters                  the parameter vector (GetParameters of a fresh object at the
//                                      lattice point, handed to an object built at ANOTHER point)
//   via=GetParameters                  the vector returned by GetParameters() of a fresh object
//   via=SetParameters>GetParameters    the vector returned by GetParameters() after SetParameters
//   via=<Getter>()                     every other exported zero-argument method (found by reflection)
//                                      whose result type is Scalar, Vector or Matrix
// Exported struct fields (dist.Alpha ...) are obviously live and are not touched. No doc comment in
// /repo/statistics declares GetParameters() a live view, and the library's own callers overwrite
// the returned vector as scratch (scalarEstimator/mixture.go, vectorEstimator/hmm_test.go), so it is
// required to be independent. ImportConfig receives no Scalar / Vector / Matrix (ConfigDistribution
// carries float slices that its accessors always copy) and is not a route. Distributions handed to
// wrapper constructors (log transform, translation, iid, mixtures) are NOT documented to be cloned and
// are held in exported fields: whether they are shared is recorded as an outcome class, never a verdict.
//
// Holder types: arguments of the SAME scalar type as the distribution (Float64, Real64: the case in
// which ConvertScalar returns its receiver), and mixed: constructor arguments alternating between the
// two types (families with >= 2 such arguments), SetParameters with a vector of the other type.
//
// For each route: build, evaluate the observables twice (LogPdf on the probe points; Cdf and LogCdf
// where offered; GetParameters), MUTATE THE CALLER'S OBJECT, evaluate again; everything must be
// bit-identical (same object, same inputs, deterministic code). Mutation alphabet per object, always
// through the public element accessors (s.SetFloat64, v.At(i).SetFloat64, m.At(i,j).SetFloat64):
//   set-valid  the value of the same argument at another lattice point of the family
//   set-other  0 (or -1 where the value is 0)
//   reset      Reset()
// each element on its own (vectors, matrices), all elements together, and all objects of the call
// together. Every mutation starts from a freshly built object. A difference is only reported when a
// control run (no mutation) is stable and the difference reproduces.

import (
	"fmt"
	"math"
	"reflect"
	"sort"
	"strings"

	. "github.com/pbenner/autodiff"
	st "github.com/pbenner/autodiff/statistics"
)

var aliasClause = map[string]bool{"alias": true}

/* argument recorder
 * -------------------------------------------------------------------------- */

type argObj struct {
	kind   string // Scalar | Vector | Matrix
	s      Scalar
	v      Vector
	m      Matrix
	cols   int
	handed []float64 // the values the object was created with
}

type nestedObj struct {
	obj any
	d   Dist
}

type argRec struct {
	depth  int  // > 0 inside the constructor call of a nested instance
	mixed  bool // alternate the scalar type of the recorded arguments
	own    []*argObj
	nested []nestedObj
	sub    int
}

var arec *argRec // each worker is single-threaded

func otherType(t ScalarType) ScalarType {
	if t == Real64Type {
		return Float64Type
	}
	return Real64Type
}

func typeName(t ScalarType) string {
	if t == Real64Type {
		return "Real64"
	}
	return "Float64"
}

func recType(t ScalarType) ScalarType {
	if arec == nil || !arec.mixed || arec.depth > 0 {
		return t
	}
	if len(arec.own)%2 == 1 {
		return otherType(t)
	}
	return t
}

func recordArg(a *argObj) {
	if arec == nil {
		return
	}
	if arec.depth > 0 {
		arec.sub++
		return
	}
	arec.own = append(arec.own, a)
}

/* mutable objects and the mutation alphabet
 * -------------------------------------------------------------------------- */

type target struct {
	label string
	n     int
	get   func(i int) float64
	set   func(i int, x float64)
	reset func()
	alt   []float64 // values of the same object at another lattice point (may be nil)
}

func scalarTarget(label string, s Scalar, alt []float64) *target {
	return &target{label: label, n: 1, alt: alt,
		get:   func(int) float64 { return s.GetFloat64() },
		set:   func(_ int, x float64) { s.SetFloat64(x) },
		reset: func() { s.Reset() }}
}

func vectorTarget(label string, v Vector, alt []float64) *target {
	return &target{label: label, n: v.Dim(), alt: alt,
		get:   func(i int) float64 { return v.ConstAt(i).GetFloat64() },
		set:   func(i int, x float64) { v.At(i).SetFloat64(x) },
		reset: func() { v.Reset() }}
}

func elementTarget(label string, v Vector, i int, alt []float64) *target {
	var a []float64
	if i < len(alt) {
		a = alt[i : i+1]
	}
	return &target{label: label, n: 1, alt: a,
		get:   func(int) float64 { return v.ConstAt(i).GetFloat64() },
		set:   func(_ int, x float64) { v.At(i).SetFloat64(x) },
		reset: func() { v.At(i).Reset() }}
}

func matrixTarget(label string, m Matrix, alt []float64) *target {
	r, c := m.Dims()
	return &target{label: label, n: r * c, alt: alt,
		get:   func(i int) float64 { return m.ConstAt(i/c, i%c).GetFloat64() },
		set:   func(i int, x float64) { m.At(i/c, i%c).SetFloat64(x) },
		reset: func() { m.Reset() }}
}

func (a *argObj) target(label string, alt []float64) *target {
	switch a.kind {
	case "Scalar":
		return scalarTarget(label, a.s, alt)
	case "Vector":
		return vectorTarget(label, a.v, alt)
	}
	return matrixTarget(label, a.m, alt)
}

// targetOfValue: the object returned by a getter.
func targetOfValue(label string, v any, alt []float64) *target {
	switch x := v.(type) {
	case Matrix:
		if x == nil || reflect.ValueOf(x).Kind() == reflect.Ptr && reflect.ValueOf(x).IsNil() {
			return nil
		}
		return matrixTarget(label, x, alt)
	case Vector:
		if x == nil {
			return nil
		}
		return vectorTarget(label, x, alt)
	case Scalar:
		if x == nil || reflect.ValueOf(x).Kind() == reflect.Ptr && reflect.ValueOf(x).IsNil() {
			return nil
		}
		return scalarTarget(label, x, alt)
	}
	return nil
}

type mutSel struct {
	kind string // set-valid | set-other | reset
	elem int    // -1: every element
}

var wholeMuts = []mutSel{{"set-valid", -1}, {"set-other", -1}, {"reset", -1}}

func mutsOf(n int) []mutSel {
	if n == 0 {
		return nil
	}
	if n == 1 {
		return wholeMuts
	}
	out := []mutSel{}
	for i := 0; i < n; i++ {
		out = append(out, mutSel{"set-valid", i}, mutSel{"set-other", i})
	}
	return append(out, wholeMuts...)
}

// apply performs the mutation on the caller's object; changed: the object really has other contents now.
func (t *target) apply(m mutSel) (changed bool, desc string) {
	before := make([]float64, t.n)
	for i := range before {
		before[i] = t.get(i)
	}
	if m.kind == "reset" {
		t.reset()
	} else {
		for i := 0; i < t.n; i++ {
			if m.elem >= 0 && m.elem != i {
				continue
			}
			x := 0.0
			if m.kind == "set-valid" {
				x = before[i] + 1
				if math.IsInf(before[i], 0) || math.IsNaN(before[i]) {
					x = 0.5
				}
				if i < len(t.alt) && !sameBits(t.alt[i], before[i]) && !math.IsNaN(t.alt[i]) {
					x = t.alt[i]
				}
			} else if before[i] == 0 {
				x = -1
			}
			t.set(i, x)
		}
	}
	after := make([]float64, t.n)
	for i := range after {
		after[i] = t.get(i)
		if !sameBits(after[i], before[i]) {
			changed = true
		}
	}
	what := m.kind
	if m.elem >= 0 {
		what += fmt.Sprintf(" element %d", m.elem)
	}
	return changed, fmt.Sprintf("%s %s: %v -> %v", t.label, what, before, after)
}

/* observables
 * -------------------------------------------------------------------------- */

type aliasSess struct {
	obj      any
	h        string // scalar type of the object: type of the evaluation arguments
	d        Dist   // the parameters the object stands for (probe points, dimensions)
	targets  []*target
	nested   []nestedObj
	modified string // the call itself changed the contents of an argument (informational)
}

type obsv struct {
	pdf, cdf []evalOut
	par      []float64
	ppan     string
}

func holderOf(obj any, dflt string) (h string) {
	h = dflt
	defer func() { recover() }()
	if b, ok := obj.(interface{ ScalarType() ScalarType }); ok {
		switch b.ScalarType() {
		case Real64Type:
			h = "Real64"
		case Float64Type:
			h = "Float64"
		}
	}
	return
}

func observe(f *family, s *aliasSess, probes [][]float64) obsv {
	o := obsv{}
	for _, x := range probes {
		o.pdf = append(o.pdf, evalPdf(s.obj, f, s.d, s.h, x, false))
	}
	if f.kind == "scalar" && hasCdf(s.obj) {
		for _, x := range probes {
			o.cdf = append(o.cdf, evalCdf(s.obj, s.h, x[0], false, false), evalCdf(s.obj, s.h, x[0], true, false))
		}
	}
	o.par, o.ppan = paramsOf(s.obj)
	return o
}

func (o obsv) size() int { return len(o.pdf) + len(o.cdf) + 1 }

func (o obsv) hasFinite() bool {
	for _, e := range o.pdf {
		if e.ok() && !math.IsNaN(e.v) && !math.IsInf(e.v, 0) {
			return true
		}
	}
	return false
}

func sameEval(a, b evalOut) bool {
	if a.pan != b.pan || (a.err == nil) != (b.err == nil) {
		return false
	}
	if a.err != nil {
		return a.err.Error() == b.err.Error()
	}
	return a.pan != "" || sameBits(a.v, b.v)
}

// diff: observable -> first difference (empty: identical)
func (o obsv) diff(p obsv, probes [][]float64) map[string]string {
	out := map[string]string{}
	for i := range o.pdf {
		if i >= len(p.pdf) || !sameEval(o.pdf[i], p.pdf[i]) {
			out["logpdf"] = fmt.Sprintf("LogPdf(%v) = %s, before the caller touched its object: %s", probes[i], p.pdf[i], o.pdf[i])
			break
		}
	}
	if len(o.cdf) != len(p.cdf) {
		out["cdf"] = "Cdf is not offered any more"
	} else {
		for i := range o.cdf {
			if !sameEval(o.cdf[i], p.cdf[i]) {
				name := "Cdf"
				if i%2 == 1 {
					name = "LogCdf"
				}
				out["cdf"] = fmt.Sprintf("%s(%v) = %s, before: %s", name, probes[i/2], p.cdf[i], o.cdf[i])
				break
			}
		}
	}
	if o.ppan != p.ppan || !sameParams(o.par, p.par, false) {
		out["params"] = fmt.Sprintf("GetParameters() = %v %s, before: %v %s", p.par, p.ppan, o.par, o.ppan)
	}
	return out
}

func obsNames(m map[string]string) []string {
	n := []string{}
	for k := range m {
		n = append(n, k)
	}
	sort.Strings(n)
	return n
}

/* one route
 * -------------------------------------------------------------------------- */

type aliasRoute struct {
	f     *family
	d0    Dist // the lattice point of the task (replay case)
	via   string
	mode  string
	setup func() (*aliasSess, string) // a fresh object and the caller-owned objects of this route; or the reason why there is none
}

func routeText(via, label string) string {
	switch {
	case via == "ctor" && label == "all":
		return "the distribution still references the objects its constructor was called with (all of them changed together)"
	case via == "ctor":
		return "the distribution still references constructor argument " + label + " (k-th Scalar/Vector/Matrix argument of the call)"
	case via == "SetParameters":
		return "the distribution still references the vector that was handed to SetParameters (" + label + ")"
	}
	if via == "SetParameters>GetParameters" {
		return "the vector returned by GetParameters() after a SetParameters call is a live view of the distribution's state"
	}
	return "the object returned by " + strings.TrimSuffix(via, "()") + "() is a live view of the distribution's state"
}

func aliasKey(fam, via, arg string, obs []string, mode string) string {
	return fmt.Sprintf("alias|family=%s|via=%s|arg=%s|obs=%s|holder=%s", fam, via, arg, strings.Join(obs, "+"), mode)
}

func (rp *reporter) runAliasRoute(r aliasRoute, rank *int64) (s0 *aliasSess, found bool) {
	c := rp.c
	f := r.f
	tag := "alias|" + f.name + "|via=" + r.via
	s0, skip := r.setup()
	if skip != "" {
		c.Count("alias: route not applicable ("+skip+")", 1)
		c.Outcome(tag + "|not applicable: " + skip)
		return nil, false
	}
	c.Count("alias: routes enumerated (lattice point x holder x route)", 1)
	c.Count("alias: routes via="+r.via, 1)
	if s0.modified != "" {
		c.Count("alias: the call changes the contents of its own argument (informational): "+f.name+" via="+r.via, 1)
		c.Outcome(tag + "|the call itself overwrites its argument")
	}
	if len(s0.targets) == 0 {
		c.Outcome(tag + "|no caller-owned Scalar/Vector/Matrix")
		return s0, false
	}
	probes := probePoints(f, s0.d, rp.th)
	base := observe(f, s0, probes)
	c.Eval(int64(base.size()))
	if again := observe(f, s0, probes); len(base.diff(again, probes)) != 0 {
		c.Count("alias: observables not deterministic (route skipped)", 1)
		c.Outcome(tag + "|skipped: observables not deterministic")
		return s0, false
	}
	finite := base.hasFinite()
	if !finite {
		c.Outcome(tag + "|no finite LogPdf on the probe points")
	}
	cs := Case{Dist: r.d0, Holder: r.mode, Clause: "alias", Via: r.via}
	what := fmt.Sprintf("%s [%s]", s0.d, r.mode)
	// one object (or all of them): every mutation on a fresh object; one finding with the union of the observables that moved
	run := func(label string, sel func(s *aliasSess) []*target, muts []mutSel) bool {
		moved := map[string]string{}
		for _, m := range muts {
			s, skip := r.setup()
			if skip != "" {
				c.Count("alias: object could not be rebuilt (mutation skipped)", 1)
				continue
			}
			b := observe(f, s, probes)
			if len(base.diff(b, probes)) != 0 {
				c.Count("alias: rebuilt object differs from the first one (mutation skipped)", 1)
				continue
			}
			changed := false
			descs := []string{}
			for _, t := range sel(s) {
				ch, ds := t.apply(m)
				changed = changed || ch
				descs = append(descs, ds)
			}
			a := observe(f, s, probes)
			c.Eval(int64(a.size()))
			c.Count("alias: caller-side mutations applied", 1)
			if changed {
				c.Count("alias: mutations that changed the caller's object", 1)
				if finite {
					c.Nontrivial(1)
				}
			}
			df := b.diff(a, probes)
			if len(df) == 0 {
				continue
			}
			// control: without the mutation nothing moves, with it the same observables move again
			ctl, skip := r.setup()
			ok := skip == ""
			if ok {
				c1, c2 := observe(f, ctl, probes), observe(f, ctl, probes)
				ok = len(base.diff(c1, probes)) == 0 && len(c1.diff(c2, probes)) == 0
				if ok {
					for _, t := range sel(ctl) {
						t.apply(m)
					}
					c3 := observe(f, ctl, probes)
					ok = strings.Join(obsNames(c2.diff(c3, probes)), "+") == strings.Join(obsNames(df), "+")
				}
			}
			if !ok {
				c.Count("alias: difference did not reproduce in the control run (no verdict)", 1)
				continue
			}
			for k, v := range df {
				if _, seen := moved[k]; !seen {
					moved[k] = fmt.Sprintf("after the caller changed it (%s): %s", strings.Join(descs, "; "), v)
				}
			}
		}
		if len(moved) == 0 {
			return false
		}
		names := obsNames(moved)
		msgs := []string{}
		for _, k := range names {
			msgs = append(msgs, moved[k])
		}
		cs := cs
		cs.Arg = label
		*rank++
		rp.violate(aliasKey(f.name, r.via, label, names, r.mode),
			fmt.Sprintf("%s: %s: %s", what, routeText(r.via, label), strings.Join(msgs, " | ")), *rank, cs)
		return true
	}
	for ti, t := range s0.targets {
		ti := ti
		if run(t.label, func(s *aliasSess) []*target {
			if ti < len(s.targets) {
				return s.targets[ti : ti+1]
			}
			return nil
		}, mutsOf(t.n)) {
			found = true
		}
	}
	if len(s0.targets) > 1 && !found {
		// all objects of the call together (reported only when no single object is enough)
		found = run("all", func(s *aliasSess) []*target { return s.targets }, wholeMuts)
	}
	if found {
		c.Outcome(tag + "|DEPENDS on the caller's object")
	} else {
		c.Outcome(tag + "|independent")
	}
	return s0, found
}

/* the routes of one lattice point
 * -------------------------------------------------------------------------- */

// ctorArgNames: "k(name)": k-th Scalar/Vector/Matrix argument of the constructor call; the name is the
// family's parameter name when the recorded value is that parameter, else the kind of the object.
func ctorArgNames(f *family, d Dist, own []*argObj) []string {
	named := f.kind == "scalar" && len(d.Sub) == 0 && len(own) <= len(f.pnames) && len(own) <= len(d.P)
	for k, a := range own {
		if a.kind != "Scalar" || !named || !sameBits(a.handed[0], d.p(k)) {
			named = false
		}
	}
	out := make([]string, len(own))
	for k, a := range own {
		if named {
			out[k] = fmt.Sprintf("%d(%s)", k, f.pnames[k])
		} else {
			out[k] = fmt.Sprintf("%d(%s)", k, a.kind)
		}
	}
	return out
}

func recordedBuild(f *family, d Dist, t ScalarType, mixed bool) (built, *argRec) {
	arec = &argRec{mixed: mixed}
	b := safeBuild(func() (any, error) { return f.build(d, t) })
	r := arec
	arec = nil
	return b, r
}

func (a *argObj) current() []float64 {
	t := a.target("", nil)
	v := make([]float64, t.n)
	for i := range v {
		v[i] = t.get(i)
	}
	return v
}

func getParamsVector(obj any) (v Vector, pan string) {
	defer func() {
		if r := recover(); r != nil {
			pan = fmt.Sprint(r)
		}
	}()
	return obj.(st.BasicDistribution).GetParameters(), ""
}

// gettersOf: exported zero-argument methods with a single Scalar / Vector / Matrix result.
var (
	scalarIface = reflect.TypeOf((*Scalar)(nil)).Elem()
	matrixIface = reflect.TypeOf((*Matrix)(nil)).Elem()
)

func gettersOf(t reflect.Type) []string {
	out := []string{}
	for i := 0; i < t.NumMethod(); i++ {
		m := t.Method(i)
		if m.Name == "GetParameters" || strings.HasPrefix(m.Name, "Clone") || m.Type.NumIn() != 1 || m.Type.NumOut() != 1 {
			continue
		}
		o := m.Type.Out(0)
		if o.Implements(scalarIface) || o.Implements(vectorIface) || o.Implements(matrixIface) {
			out = append(out, m.Name)
		}
	}
	sort.Strings(out)
	return out
}

func callGetter(obj any, name string) (v any, pan string) {
	defer func() {
		if r := recover(); r != nil {
			pan = fmt.Sprint(r)
		}
	}()
	res := reflect.ValueOf(obj).MethodByName(name).Call(nil)
	if len(res) != 1 || (res[0].Kind() == reflect.Interface || res[0].Kind() == reflect.Ptr) && res[0].IsNil() {
		return nil, ""
	}
	return res[0].Interface(), ""
}

// countAliasDiscovery records the reflection result once (shard 0).
func (rp *reporter) countAliasDiscovery() {
	seen := map[reflect.Type]bool{}
	for _, name := range famOrder {
		f := fams[name]
		t := reflect.TypeOf(f.fresh())
		if seen[t] {
			continue
		}
		seen[t] = true
		for _, g := range gettersOf(t) {
			rp.c.Count(fmt.Sprintf("alias: getter with a Scalar/Vector/Matrix result discovered: %s.%s()", t, g), 1)
		}
	}
}

func (rp *reporter) checkAlias(d Dist, rank int64) {
	c := rp.c
	f := fams[d.Fam]
	n := rank
	alt := altOf(d, rp.th)
	c.Count("alias: lattice points", 1)
	for _, h := range holders {
		t := typeOf(h)
		c.Guard(d.String()+"/"+h+"/alias", rank, Case{Dist: d, Holder: h, Clause: "alias"})

		/* constructor arguments */
		_, altRec := recordedBuild(f, alt, t, false)
		ctor := func(mixed bool) func() (*aliasSess, string) {
			return func() (*aliasSess, string) {
				b, r := recordedBuild(f, d, t, mixed)
				if b.obj == nil || b.err != nil || b.pan != "" {
					return nil, "the constructor refuses these arguments"
				}
				s := &aliasSess{obj: b.obj, d: d, nested: r.nested}
				s.h = holderOf(b.obj, h)
				names := ctorArgNames(f, d, r.own)
				for k, a := range r.own {
					var av []float64
					if k < len(altRec.own) && altRec.own[k].kind == a.kind && len(altRec.own[k].handed) == len(a.handed) {
						av = altRec.own[k].handed
					}
					if !sameParams(a.handed, a.current(), false) {
						s.modified = names[k]
					}
					s.targets = append(s.targets, a.target(names[k], av))
				}
				return s, ""
			}
		}
		// (the mixed-type variant of a route is enumerated where the same-type variant is silent: one defect, one set of keys)
		s0, hit := rp.runAliasRoute(aliasRoute{f: f, d0: d, via: "ctor", mode: h, setup: ctor(false)}, &n)
		if s0 != nil && len(s0.targets) >= 2 && !hit {
			rp.runAliasRoute(aliasRoute{f: f, d0: d, via: "ctor", mode: h + "+" + typeName(otherType(t)), setup: ctor(true)}, &n)
		}
		// distributions handed to a wrapper constructor: informational
		if s0 != nil {
			for i := range s0.nested {
				rp.nestedInfo(f, ctor(false), i, t)
			}
		}

		/* SetParameters / GetParameters */
		fresh := safeBuild(func() (any, error) { return f.build(d, t) })
		if fresh.obj == nil || fresh.err != nil || fresh.pan != "" {
			c.Count("alias: lattice point cannot be built (reported by the points clause)", 1)
			continue
		}
		P, ppan := paramsOf(fresh.obj)
		var altP []float64
		if a := safeBuild(func() (any, error) { return f.build(alt, t) }); a.obj != nil && a.err == nil && a.pan == "" {
			if q, pan := paramsOf(a.obj); pan == "" && len(q) == len(P) {
				altP = q
			}
		}
		setOK := ppan == "" && len(P) > 0
		if setOK && f.isolateSet {
			if fatal := runProbe(d, h); fatal != "" {
				c.Count("alias: SetParameters kills the process (reported by the roundtrip clause)", 1)
				setOK = false
			}
		}
		set := func(vt ScalarType, thenGet bool) func() (*aliasSess, string) {
			return func() (*aliasSess, string) {
				b := safeBuild(func() (any, error) { return f.build(alt, t) })
				if b.obj == nil || b.err != nil || b.pan != "" {
					return nil, "the start object cannot be built"
				}
				p := vecOf(vt, append([]float64{}, P...))
				if err, pan := callMutator(b.obj, "SetParameters", p); err != nil || pan != "" {
					return nil, "SetParameters fails (reported by the roundtrip / history clauses)"
				}
				s := &aliasSess{obj: b.obj, d: d}
				s.h = holderOf(b.obj, h)
				if thenGet {
					g, pan := getParamsVector(b.obj)
					if pan != "" || g == nil {
						return nil, "GetParameters returns nothing"
					}
					s.targets = []*target{vectorTarget("result", g, altP)}
					return s, ""
				}
				for i := range P {
					if !sameBits(P[i], p.ConstAt(i).GetFloat64()) {
						s.modified = "parameters"
					}
				}
				if f.kind == "scalar" && len(d.Sub) == 0 {
					for i := range P {
						l := fmt.Sprintf("parameters[%d]", i)
						if i < len(f.pnames) {
							l = fmt.Sprintf("parameters[%d:%s]", i, f.pnames[i])
						}
						s.targets = append(s.targets, elementTarget(l, p, i, altP))
					}
				} else {
					s.targets = []*target{vectorTarget("parameters", p, altP)}
				}
				return s, ""
			}
		}
		getter := func(name string) func() (*aliasSess, string) {
			return func() (*aliasSess, string) {
				b := safeBuild(func() (any, error) { return f.build(d, t) })
				if b.obj == nil || b.err != nil || b.pan != "" {
					return nil, "the object cannot be built"
				}
				s := &aliasSess{obj: b.obj, d: d}
				s.h = holderOf(b.obj, h)
				var tg *target
				if name == "GetParameters" {
					g, pan := getParamsVector(b.obj)
					if pan != "" || g == nil {
						return nil, "GetParameters returns nothing"
					}
					tg = vectorTarget("result", g, altP)
				} else {
					v, pan := callGetter(b.obj, name)
					if pan != "" {
						return nil, "the getter panics"
					}
					if tg = targetOfValue("result", v, nil); tg == nil {
						return nil, "the getter returns nothing"
					}
				}
				s.targets = []*target{tg}
				return s, ""
			}
		}
		_, hitGet := rp.runAliasRoute(aliasRoute{f: f, d0: d, via: "GetParameters", mode: h, setup: getter("GetParameters")}, &n)
		for _, g := range gettersOf(reflect.TypeOf(fresh.obj)) {
			rp.runAliasRoute(aliasRoute{f: f, d0: d, via: g + "()", mode: h, setup: getter(g)}, &n)
		}
		if !setOK {
			c.Count("alias: route not applicable (no parameter vector)", 1)
			continue
		}
		// a variant is enumerated where the simpler variant of the same route is silent (one defect, one set of keys):
		// vector of the other scalar type after the same type; GetParameters after SetParameters after both on their own
		o := otherType(t)
		_, hitSet := rp.runAliasRoute(aliasRoute{f: f, d0: d, via: "SetParameters", mode: h, setup: set(t, false)}, &n)
		if !hitSet {
			rp.runAliasRoute(aliasRoute{f: f, d0: d, via: "SetParameters", mode: h + "<-" + typeName(o), setup: set(o, false)}, &n)
		}
		if !hitSet && !hitGet {
			_, hit := rp.runAliasRoute(aliasRoute{f: f, d0: d, via: "SetParameters>GetParameters", mode: h, setup: set(t, true)}, &n)
			if !hit {
				rp.runAliasRoute(aliasRoute{f: f, d0: d, via: "SetParameters>GetParameters", mode: h + "<-" + typeName(o), setup: set(o, true)}, &n)
			}
		}
	}
}

// nestedInfo: does the wrapper share the distribution object it was given? (outcome class only)
func (rp *reporter) nestedInfo(f *family, setup func() (*aliasSess, string), i int, t ScalarType) {
	c := rp.c
	s, skip := setup()
	if skip != "" || i >= len(s.nested) {
		return
	}
	nd := s.nested[i]
	a := safeBuild(func() (any, error) { return buildAny(altOf(nd.d, rp.th), t) })
	if a.obj == nil || a.err != nil || a.pan != "" {
		return
	}
	q, pan := paramsOf(a.obj)
	if pan != "" || len(q) == 0 {
		return
	}
	probes := probePoints(f, s.d, rp.th)
	b := observe(f, s, probes)
	if err, pan := callMutator(nd.obj, "SetParameters", vecOf(t, q)); err != nil || pan != "" {
		return
	}
	after := observe(f, s, probes)
	c.Eval(int64(after.size()))
	if len(b.diff(after, probes)) != 0 {
		c.Outcome("alias|" + f.name + "|distribution handed to the constructor: SHARED with the caller (exported field, not documented to be cloned: no verdict)")
		c.Count("alias: wrapper shares the distribution object handed to its constructor (informational, no verdict): "+f.name, 1)
	} else {
		c.Outcome("alias|" + f.name + "|distribution handed to the constructor: cloned or unchanged")
		c.Count("alias: wrapper does not move when the distribution object handed to its constructor is changed (informational): "+f.name, 1)
	}
}
