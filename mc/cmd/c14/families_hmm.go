package main

// vectorDistribution.Hmm (shares generic.Hmm with the matrix / constrained / hierarchical
// variants): included for the mutator histories (SetStartStates, SetFinalStates,
// SetParameters, ImportConfig) with an independent brute-force path-sum reference.
//
// Instance: P = [startmask, finalmask, pi_0..pi_{m-1}, tr_00..tr_{m-1,m-1}] (bit i of a mask =
// state i; 0 = no restriction), Sub = the m emission distributions (identity state map).
// Semantics as the library defines it (and C15 checks it): pi restricted to the start states
// and renormalised; the LAST transition restricted to the final states with rows renormalised.

import (
	"fmt"
	"math"

	. "github.com/pbenner/autodiff"
	st "github.com/pbenner/autodiff/statistics"
	vd "github.com/pbenner/autodiff/statistics/vectorDistribution"
)

func maskStates(mask, m int) []int {
	r := []int{}
	for i := 0; i < m; i++ {
		if mask&(1<<i) != 0 {
			r = append(r, i)
		}
	}
	return r
}

type hmmParts struct {
	m            int
	start, final int
	pi           []float64
	tr           [][]float64
}

func hmmSplit(d Dist) hmmParts {
	m := len(d.Sub)
	h := hmmParts{m: m, start: int(d.p(0)), final: int(d.p(1))}
	h.pi = f64s(d.P[2 : 2+m])
	for i := 0; i < m; i++ {
		h.tr = append(h.tr, f64s(d.P[2+m+i*m:2+m+(i+1)*m]))
	}
	return h
}

func hmmJoin(d Dist, h hmmParts) Dist {
	p := []float64{float64(h.start), float64(h.final)}
	p = append(p, h.pi...)
	for _, r := range h.tr {
		p = append(p, r...)
	}
	return Dist{Fam: d.Fam, P: fs(p...), Sub: d.Sub}
}

// restricted start distribution (false: no mass on the start states)
func hmmPi(h hmmParts) ([]float64, bool) {
	pi := make([]float64, h.m)
	s := 0.0
	for i := range pi {
		if h.start == 0 || h.start&(1<<i) != 0 {
			pi[i] = h.pi[i]
		}
		s += pi[i]
	}
	if !(s > 0) {
		return nil, false
	}
	for i := range pi {
		pi[i] /= s
	}
	return pi, true
}

func init() {
	C3a := D("categorical", 0.5, 0.25, 0.25)
	C3b := D("categorical", 0.25, 0.25, 0.5)
	C3c := D("categorical", 0.125, 0.75, 0.125)
	setMask := func(which int) setter {
		return setter{
			args: func(th bool) []float64 { return vv(1, 2, 3, 5, 6) },
			apply: func(d Dist, a float64) (Dist, bool) {
				h := hmmSplit(d)
				mask := int(a)
				if mask >= 1<<h.m {
					return d, false
				}
				if which == 0 {
					// the call restricts the CURRENT (already restricted) initial distribution
					cur, ok := hmmPi(h)
					if !ok {
						return d, false
					}
					h.pi, h.start = cur, mask
					pi, ok := hmmPi(h)
					if !ok {
						return d, false // no mass left on the new start states: the semantics is not defined
					}
					h.pi = pi
				} else {
					h.final = mask
				}
				return hmmJoin(d, h), true
			},
			conv: func(d Dist, a float64) any { return maskStates(int(a), len(d.Sub)) },
			show: func(d Dist, a float64) string { return fmt.Sprint(maskStates(int(a), len(d.Sub))) },
		}
	}
	reg(&family{name: "vhmm", kind: "vector", approxRT: true, anyLen: true,
		only: map[string]bool{"points": true, "roundtrip": true, "holder": true, "history": true, "alias": true, "storage": true},
		build: func(d Dist, t ScalarType) (any, error) {
			h := hmmSplit(d)
			ed := make([]st.ScalarPdf, h.m)
			for i := range d.Sub {
				in, err := buildScalar(d.Sub[i], t)
				if err != nil {
					return nil, fmt.Errorf("harness: inner: %v", err)
				}
				ed[i] = in
			}
			tr := []float64{}
			for _, r := range h.tr {
				tr = append(tr, r...)
			}
			o, err := vd.NewHmm(vecOf(t, h.pi), matOf(t, tr, h.m, h.m), nil, ed)
			if err != nil {
				return nil, err
			}
			if h.start != 0 {
				if err := o.SetStartStates(maskStates(h.start, h.m)); err != nil {
					return nil, err
				}
			}
			if h.final != 0 {
				if err := o.SetFinalStates(maskStates(h.final, h.m)); err != nil {
					return nil, err
				}
			}
			return o, nil
		},
		fresh: func() any { return new(vd.Hmm) },
		dims:  func(d Dist) (int, int) { return 2, 1 },
		refV: func(d Dist, x []float64) rv {
			h := hmmSplit(d)
			pi, ok := hmmPi(h)
			if !ok {
				return rv{nan, 0}
			}
			n := len(x)
			e := make([][]float64, n)
			for k := range x {
				e[k] = make([]float64, h.m)
				for i := 0; i < h.m; i++ {
					e[k][i] = math.Exp(fams[d.Sub[i].Fam].ref(d.Sub[i], x[k]).v)
				}
			}
			tf := make([][]float64, h.m)
			for i := range tf {
				tf[i] = make([]float64, h.m)
				s := 0.0
				for j := 0; j < h.m; j++ {
					if h.final == 0 || h.final&(1<<j) != 0 {
						tf[i][j] = h.tr[i][j]
					}
					s += tf[i][j]
				}
				if !(s > 0) {
					return rv{nan, 0}
				}
				for j := range tf[i] {
					tf[i][j] /= s
				}
			}
			np := 1
			for k := 0; k < n; k++ {
				np *= h.m
			}
			sum := 0.0
			y := make([]int, n)
			for p := 0; p < np; p++ {
				q := p
				for k := 0; k < n; k++ {
					y[k] = q % h.m
					q /= h.m
				}
				pr := pi[y[0]] * e[0][y[0]]
				for k := 1; k < n; k++ {
					t := h.tr
					if k == n-1 {
						t = tf
					}
					pr *= t[y[k-1]][y[k]] * e[k][y[k]]
				}
				sum += pr
			}
			v := math.Log(sum)
			return rv{v, math.Abs(v) + float64(n)}
		},
		ptsV: func(d Dist, th bool) [][]float64 {
			// all sequences of length 1..3 over the 3 symbols
			out := [][]float64{}
			for n := 1; n <= 3; n++ {
				np := 1
				for k := 0; k < n; k++ {
					np *= 3
				}
				for p := 0; p < np; p++ {
					x := make([]float64, n)
					q := p
					for k := 0; k < n; k++ {
						x[k] = float64(q % 3)
						q /= 3
					}
					out = append(out, x)
				}
			}
			return out
		},
		pclass: func(d Dist) string {
			if d.p(0) == 0 && d.p(1) == 0 {
				return "unrestricted"
			}
			return "restricted"
		},
		// SetParameters keeps the start / final state sets of the object
		compat:  func(a, b Dist) bool { return a.p(0) == b.p(0) && a.p(1) == b.p(1) },
		setters: map[string]setter{"SetStartStates": setMask(0), "SetFinalStates": setMask(1)},
		valid: func(th bool) []Dist {
			r := []Dist{}
			pis := [][]float64{{0.5, 0.5}, {0.25, 0.75}}
			trs := [][]float64{{0.5, 0.5, 0.25, 0.75}, {0.75, 0.25, 0.5, 0.5}}
			masks := [][]float64{{0, 0}, {1, 0}, {0, 2}, {2, 1}, {3, 3}}
			for _, mk := range masks {
				for _, pi := range pis {
					for _, tr := range trs {
						p := append(append(append([]float64{}, mk...), pi...), tr...)
						r = append(r, W("vhmm", p, C3a, C3b))
					}
				}
			}
			// three states
			for _, mk := range [][]float64{{0, 0}, {5, 0}, {0, 6}, {3, 5}} {
				p := append(append([]float64{}, mk...), 0.25, 0.25, 0.5, 0.5, 0.25, 0.25, 0.25, 0.5, 0.25, 0.125, 0.125, 0.75)
				r = append(r, W("vhmm", p, C3a, C3b, C3c))
			}
			return r
		},
		invalid: func() []inval { return nil },
	})
}
