// C14: probability distributions are proper and consistent.
//
// Bounded-exhaustive enumeration (no sampling): for every family registered in
// scalarDistribution / vectorDistribution / matrixDistribution a finite product lattice of
// valid parameters, a finite lattice of invalid parameters for the constructor, and a
// finite set of evaluation points (support interior grid, support boundary ±{0, 1 ulp,
// 1e-9, 1e-3}, far outside, ±Inf, non-integers for discrete families); parameters held in
// Float64 and in Real64 scalars. Oracles: textbook log-density written independently under
// the parametrisation named by the constructor; exactly -Inf outside the support;
// normalisation (exhaustive sum / fixed Gauss-Legendre node set, gated on the reference);
// CDF clauses; constructor rejection; Clone / Get-SetParameters / Export-ImportConfig round
// trips; equality between the two holder types; mutator histories (history.go): every exported
// Set* / ImportConfig method found by reflection, histories of length 1 and 2 with arguments
// from the family's lattice, the object compared with a fresh one at the final parameters;
// independence from caller-owned objects (alias.go): constructor / SetParameters arguments and
// getter results are mutated by the caller, the distribution must not move; independence from the
// storage of the evaluation point (storage.go): every container / element type / view that holds
// the same point - zero coordinates included - must give the same log-density.
package main

import (
	"encoding/json"
	"fmt"
	"os"
	"reflect"
	"time"

	"verif/mc/vf"
)

type task struct {
	fam     string
	d       Dist
	iv      *inval
	clauses map[string]bool
	holder  string // "" = both
}

var mainClauses = map[string]bool{"points": true, "cdf": true, "roundtrip": true, "holder": true}
var normClause = map[string]bool{"norm": true}
var histClause = map[string]bool{"history": true}

func tasks(th bool) []task {
	ts := []task{}
	for _, name := range famOrder {
		f := fams[name]
		for _, d := range f.valid(th) {
			// the normalisation node sets dominate the cost: one task per holder type
			mc := mainClauses
			if f.only != nil {
				mc = map[string]bool{}
				for k := range mainClauses {
					mc[k] = f.only[k]
				}
			}
			ts = append(ts, task{fam: name, d: d, clauses: mc})
			if f.only == nil || f.only["norm"] {
				for _, h := range holders {
					ts = append(ts, task{fam: name, d: d, clauses: normClause, holder: h})
				}
			}
			// mutator histories starting at d
			if f.only == nil || f.only["history"] {
				ts = append(ts, task{fam: name, d: d, clauses: histClause})
			}
			// caller-owned objects (alias.go)
			if f.only == nil || f.only["alias"] {
				ts = append(ts, task{fam: name, d: d, clauses: aliasClause})
			}
			// storage of the evaluation point (storage.go)
			if f.only == nil || f.only["storage"] {
				ts = append(ts, task{fam: name, d: d, clauses: storageClause})
			}
		}
		if f.invalid != nil {
			for _, iv := range f.invalid() {
				iv := iv
				ts = append(ts, task{fam: name, d: iv.d, iv: &iv})
			}
		}
	}
	return ts
}

func run(c *vf.Ctx) {
	rp := &reporter{c: c, th: c.Thorough()}
	ts := tasks(rp.th)
	if c.Shard == 0 {
		c.Count("families", int64(len(famOrder)))
		nv, ni, nh := 0, 0, 0
		for _, t := range ts {
			if t.iv != nil {
				ni++
			} else if t.clauses["history"] {
				nh++
			} else if t.clauses["alias"] || t.clauses["storage"] {
				continue
			} else if t.holder == "" {
				nv++
			}
		}
		c.Count("valid parameter points", int64(nv))
		c.Count("invalid constructor points", int64(ni))
		c.Count("history: start points", int64(nh))
		rp.countMutators()
		rp.countAliasDiscovery()
	}
	for i, t := range ts {
		if !c.Mine(int64(i)) {
			continue
		}
		if c.Expired() {
			c.Cap("soft deadline")
			return
		}
		rank := int64(i) * 1000000
		f := fams[t.fam]
		if t.iv != nil {
			rp.checkCtor(f, *t.iv, rank)
			continue
		}
		if t.clauses["history"] {
			rp.checkHistories(t.d, rank, t.holder)
			continue
		}
		if t.clauses["alias"] {
			rp.checkAlias(t.d, rank)
			continue
		}
		if t.clauses["storage"] {
			rp.checkStorage(t.d, rank)
			continue
		}
		rp.checkInstance(t.d, rank, t.clauses, t.holder)
	}
}

func replay(c *vf.Ctx, raw json.RawMessage) {
	var cs Case
	if err := json.Unmarshal(raw, &cs); err != nil {
		c.HarnessError("replay: " + err.Error())
		return
	}
	f := fams[cs.Dist.Fam]
	if f == nil {
		c.HarnessError("replay: unknown family " + cs.Dist.Fam)
		return
	}
	rp := &reporter{c: c, th: c.Thorough(), only: cs.Key}
	if cs.Clause == "ctor" {
		for _, iv := range f.invalid() {
			if iv.class == cs.Class {
				rp.checkCtor(f, iv, 0)
			}
		}
		return
	}
	if cs.Clause == "history" {
		env := &histEnv{f: f, h: cs.Holder, t: typeOf(cs.Holder), fresh: map[string]*freshObj{}}
		env.muts = mutatorsOfType(reflect.TypeOf(f.fresh()), f.setters)
		rp.runHistory(env, cs.Dist, cs.History, 0)
		fmt.Printf("replayed history %s holder=%s: %s\n", cs.Dist, cs.Holder, seqOf(cs.History))
		return
	}
	if cs.Clause == "alias" {
		rp.checkAlias(cs.Dist, 0)
		fmt.Printf("replayed caller-object independence of %s (reported key: %s)\n", cs.Dist, cs.Key)
		return
	}
	if cs.Clause == "storage" {
		rp.checkStorage(cs.Dist, 0)
		fmt.Printf("replayed storage independence of the evaluation point for %s (reported key: %s, first failing point %v held as %s)\n", cs.Dist, cs.Key, f64s(cs.X), cs.Form)
		return
	}
	cl := map[string]bool{cs.Clause: true}
	h := cs.Holder
	if cs.Clause == "holder" {
		cl["points"] = true
		h = ""
	}
	rp.checkInstance(cs.Dist, 0, cl, h)
	fmt.Printf("replayed %s holder=%s clause=%s\n", cs.Dist, cs.Holder, cs.Clause)
}

func main() {
	if p := os.Getenv("VERIF_C14_PROBE"); p != "" {
		probeMain(p) // child process: one SetParameters call that may die with an unrecoverable stack overflow
		return
	}
	vf.Main(vf.Spec{
		ID:    "C14",
		Level: "exploration",
		Rule: "exhaustive product: family x valid parameter lattice x holder type {Float64, Real64} x evaluation point set (interior grid, boundary ±{0,1ulp,1e-9,1e-3}, far outside, ±Inf, non-integers) " +
			"+ family x invalid constructor lattice; a case is non-trivial when the independent textbook reference decides it (value compared within a conditioning-derived tolerance, exact -Inf outside the support, " +
			"a normalisation sum whose reference quadrature on the same fixed node set is itself 1 within 1e-8, a CDF point where LogCdf/Cdf returned values, a round trip that reached the comparison); each case is enumerated once. " +
			"Mutator histories: for every family, every exported method named Set* or ImportConfig of its type (found by reflection; those without an argument supplier are listed in the counters) x every start point of the valid lattice x every argument from the lattice (length 1), " +
			"and every start point x every ordered pair of (mutator, argument) over a sub-lattice of <=8 (thorough 12) evenly spaced lattice points (length 2); after each history GetParameters, LogPdf on the probe points, the total mass (discrete families) and ExportConfig must equal those of an object built by the constructor at the modelled final parameters; a history is non-trivial when every step changes the modelled parameters. " +
			"Caller-owned objects (alias.go): family x valid lattice point x holder {Float64, Real64, mixed} x route {every Scalar/Vector/Matrix argument of the constructor call, the vector given to SetParameters, the vector returned by GetParameters (fresh object / after SetParameters), every other zero-argument getter with a Scalar/Vector/Matrix result (reflection)} " +
			"x object x mutation {set-valid: value at another lattice point, set-other: 0 or -1, Reset()} x {each element, all elements, all objects of the call}; LogPdf on the probe points, Cdf/LogCdf and GetParameters must be bit-identical before and after; non-trivial when the mutation really changed the caller's object and a probe point has a finite LogPdf. " +
			"Storage of the evaluation point (storage.go): family x valid lattice point x holder x point x storage; points: (vector / matrix families) every zero pattern - all subsets of the coordinates (symmetric pairs for the inverse Wishart arguments) set to 0 - of the first 3 (thorough 8) lattice points without a zero coordinate per argument length, plus the family's whole point lattice when it has <= 128 (thorough 10000) points, (scalar families) the whole evaluation point set; " +
			"storages: vectors {dense, sparse with zeros absent, sparse with zeros stored explicitly, SparseConst with zeros absent / stored explicitly} x element type {Float64, Real64, Float32, Real32, Int; thorough all 9; SparseConst Float64, Float32, Int; thorough all 7} x {whole container, Slice(1,n+1) of a longer one}; matrices {dense, sparse zeros absent / explicit} x element type x {whole, T() of the transposed container, inner Slice of a bordered container, both}; normal inverse Wishart: vector and matrix argument in the same container and type; scalars: the 9 scalar types and the 7 Const types; an element type takes part where it represents every coordinate exactly; " +
			"LogPdf must agree with the result for the canonical storage of the other clauses (dense of the holder type / ConstFloat64 / Real64): same value bitwise or within 1e-10(1+|v|), a refusal only where the canonical storage refuses or gives -Inf, no runtime panic; evaluations run storage-major on one object (the canonical storage at every point, then storage by storage every point), so consecutive calls see different points; every (point, storage) other than the canonical one that really holds the point (Dim/ConstAt verified through the public API) is a distinct non-trivial case",
		Assume: []string{
			"storage of the evaluation point: LogPdf accepts a ConstVector / ConstMatrix / ConstScalar, so every container and element type that holds the point exactly is a legitimate way to hand it over; the value may differ in the last bits between containers (another route through the linear algebra), hence the 1e-10 relative band next to bitwise equality; an error or deliberate panic and -Inf are both accepted treatments of a point outside the support",
			"textbook parametrisation is the one named by constructor argument names, struct comments and repository tests (sigma = standard deviation / scale, gamma(shape, rate), negative binomial p^k (1-p)^r, beta log-scale: argument log(theta), density w.r.t. theta)",
			"geometric: p(1-p)^k on k = 0,1,2,... (no doc/test names the convention)",
			"an error return or a deliberate panic is accepted as refusal for points outside the support and for invalid constructor arguments; runtime panics are not",
			"value at a boundary point of a continuous support may be the formula limit or -Inf",
			"normalisation tolerance 1e-6; quadrature node set fixed per (support, tier), gated on the reference side only",
			"mutator histories: SetParameters is given GetParameters() of a fresh object of the same shape (same structural constants, same start/final state sets for the HMM); SetStartStates restricts the CURRENT initial distribution (calls that leave it without mass are not enumerated); comparison with the fresh object within 1e-12 (1e-10 where parameters are stored transformed)",
			"caller-owned objects: no doc comment declares GetParameters() (or any other getter) a live view and the library's own callers overwrite its result as scratch, so it must be independent; exported struct fields are live by nature and are not touched; distributions handed to wrapper constructors are not documented to be cloned: sharing is recorded as an outcome class, not a violation; ImportConfig receives no Scalar/Vector/Matrix",
			"vectorDistribution.Hmm stands for the six HMM types that embed generic.Hmm (matrix, constrained, hierarchical, shape): their mutators are listed as not driven",
		},
		Run:       run,
		Replay:    replay,
		SoftLimit: map[string]time.Duration{"quick": 105 * time.Second, "thorough": 14 * time.Minute},
	})
}
