package main

import (
	"bytes"
	"encoding/json"
	"fmt"
	"math"
	"os"
	"os/exec"
	"runtime"
	"runtime/debug"
	"sort"
	"strings"

	. "github.com/pbenner/autodiff"
	st "github.com/pbenner/autodiff/statistics"
	md "github.com/pbenner/autodiff/statistics/matrixDistribution"

	"verif/mc/vf"
)

var holders = []string{"Float64", "Real64"}

func typeOf(h string) ScalarType {
	if h == "Real64" {
		return Real64Type
	}
	return Float64Type
}

// Case is the replay artefact: one (instance, holder, clause) group; Key selects the finding.
type Case struct {
	Dist   Dist   `json:"distribution"`
	Holder string `json:"holder"`
	Clause string `json:"clause"` // points | norm | cdf | roundtrip | ctor | holder
	Key    string `json:"key"`
	X      []F    `json:"x,omitempty"`
	Lib    string `json:"library_value,omitempty"`
	Ref    string `json:"reference_value,omitempty"`
	Class  string `json:"invalid_class,omitempty"`
	// clause "history": the mutator calls applied to a fresh object at Dist
	History []Step `json:"history,omitempty"`
	// clause "alias" (alias.go): the route by which caller-owned objects reach the distribution, and the object mutated afterwards
	Via string `json:"via,omitempty"`
	Arg string `json:"mutated_object,omitempty"`
	// clause "storage" (storage.go): the storage of the evaluation point X that disagrees with the canonical one
	Form string `json:"storage_form,omitempty"`
}

type reporter struct {
	c    *vf.Ctx
	th   bool
	only string // replay: report this key only
}

func (rp *reporter) violate(key, what string, rank int64, cs Case) {
	if rp.only != "" && rp.only != key {
		return
	}
	cs.Key = key
	rp.c.Violate(key, what, rank, cs)
}

// coarse region class used in keys (the exact point is in the message and the replay case)
func coarse(region string) string {
	switch region {
	case "interior", "inside-near-lower", "inside-near-upper", "support-point":
		return "inside"
	case "at-lower-bound", "at-upper-bound":
		return "at-bound"
	case "below-near", "below-far":
		return "below-support"
	case "above-near", "above-far":
		return "above-support"
	case "x=+Inf", "x=-Inf":
		return "infinite-x"
	}
	return region
}

func key(fam, holder, clause, kind, pclass, region string) string {
	rg := coarse(region)
	if pclass != "" {
		if rg != "" {
			rg = pclass + "," + rg
		} else {
			rg = pclass
		}
	}
	return fmt.Sprintf("%s|%s|%s:%s|%s", fam, holder, clause, kind, rg)
}

// ---- evaluation of the real library ------------------------------------------------------------

type evalOut struct {
	v, dx float64 // value, derivative w.r.t. x (activated Real64 argument only)
	err   error
	pan   string
	rtErr bool // the panic was a runtime error (index out of range, nil dereference), not a deliberate panic(...)
}

func (e evalOut) ok() bool { return e.err == nil && e.pan == "" }
func (e evalOut) String() string {
	switch {
	case e.pan != "":
		return "panic: " + e.pan
	case e.err != nil:
		return "error: " + e.err.Error()
	}
	return fmtF(e.v)
}

func guard(out *evalOut) {
	if r := recover(); r != nil {
		out.pan = fmt.Sprint(r)
		if len(out.pan) > 160 {
			out.pan = out.pan[:160]
		}
		_, out.rtErr = r.(runtime.Error)
	}
}

const sentinel = 0.7320508 // initial content of the result scalar: a LogPdf must not read it

func newResult(h string) Scalar {
	if h == "Real64" {
		return NewReal64(sentinel)
	}
	r := NewFloat64(sentinel)
	return &r
}

func scalarArg(h string, x float64, activate bool) ConstScalar {
	if h == "Real64" {
		v := NewReal64(x)
		if activate {
			Variables(1, v)
		}
		return v
	}
	return ConstFloat64(x)
}

func vectorArg(h string, x []float64) Vector {
	if h == "Real64" {
		return NewDenseReal64Vector(append([]float64{}, x...))
	}
	return NewDenseFloat64Vector(append([]float64{}, x...))
}

func matrixArg(h string, x []float64, n, m int) Matrix {
	if h == "Real64" {
		return NewDenseReal64Matrix(append([]float64{}, x...), n, m)
	}
	return NewDenseFloat64Matrix(append([]float64{}, x...), n, m)
}

func finish(out *evalOut, r Scalar, activate bool, h string) {
	out.v = r.GetFloat64()
	if activate && h == "Real64" && r.GetOrder() >= 1 && r.GetN() >= 1 {
		out.dx = r.GetDerivative(0)
	} else {
		out.dx = math.NaN()
	}
}

// evalPdf calls LogPdf of the instance at x (x has one entry for scalar families).
func evalPdf(obj any, f *family, d Dist, h string, x []float64, activate bool) (out evalOut) {
	defer guard(&out)
	r := newResult(h)
	switch f.kind {
	case "scalar":
		out.err = obj.(st.ScalarPdf).LogPdf(r, scalarArg(h, x[0], activate))
	case "vector":
		out.err = obj.(st.VectorPdf).LogPdf(r, vectorArg(h, x))
	case "matrix":
		n, m := f.dims(d)
		if n*m != len(x) { // wrong-dimension probe: one column more / less
			m = len(x) / n
		}
		out.err = obj.(st.MatrixPdf).LogPdf(r, matrixArg(h, x, n, m))
	case "niw":
		p, _ := f.dims(d)
		out.err = obj.(*md.NormalIWishartDistribution).LogPdf(r, vectorArg(h, x[:p]), matrixArg(h, x[p:], p, p))
	}
	if out.err == nil {
		finish(&out, r, activate, h)
	}
	return
}

type cdfS interface {
	LogCdf(Scalar, ConstScalar) error
	Cdf(Scalar, ConstScalar) error
}
type cdfV interface { // LaplaceDistribution takes a Vector
	LogCdf(Scalar, Vector) error
	Cdf(Scalar, Vector) error
}

func hasCdf(obj any) bool {
	if _, ok := obj.(cdfS); ok {
		return true
	}
	_, ok := obj.(cdfV)
	return ok
}

func evalCdf(obj any, h string, x float64, log, activate bool) (out evalOut) {
	defer guard(&out)
	r := newResult(h)
	switch o := obj.(type) {
	case cdfS:
		a := scalarArg(h, x, activate)
		if log {
			out.err = o.LogCdf(r, a)
		} else {
			out.err = o.Cdf(r, a)
		}
	case cdfV:
		var v Vector
		if h == "Real64" {
			e := NewReal64(x)
			if activate {
				Variables(1, e)
			}
			v = NullDenseVector(Real64Type, 1)
			v.At(0).Set(e)
		} else {
			v = NewDenseFloat64Vector([]float64{x})
		}
		if log {
			out.err = o.LogCdf(r, v)
		} else {
			out.err = o.Cdf(r, v)
		}
	}
	if out.err == nil {
		finish(&out, r, activate, h)
	}
	return
}

type built struct {
	obj any
	err error
	pan string
}

func safeBuild(mk func() (any, error)) (b built) {
	defer func() {
		if r := recover(); r != nil {
			b.pan = fmt.Sprint(r)
			if len(b.pan) > 160 {
				b.pan = b.pan[:160]
			}
			b.obj = nil
		}
	}()
	b.obj, b.err = mk()
	return
}

// ---- evaluation points --------------------------------------------------------------------------

type pt struct {
	x      float64
	region string
	fuzzy  bool // within rounding distance of a bound that is not exactly representable: only NaN is decided
}

func isOutside(region string) bool {
	switch region {
	case "below-near", "below-far", "above-near", "above-far", "x=+Inf", "x=-Inf", "non-integer", "off-support":
		return true
	}
	return false
}

func regionOf(sp support, x float64) (string, bool) {
	if math.IsInf(x, 1) {
		return "x=+Inf", false
	}
	if math.IsInf(x, -1) {
		return "x=-Inf", false
	}
	if sp.kmax == -2 { // delta
		if x == sp.lo {
			return "support-point", false
		}
		return "off-support", false
	}
	if sp.discrete {
		switch {
		case !isInt(x):
			return "non-integer", false
		case x < sp.lo:
			return "below-far", false
		case x > sp.hi:
			return "above-far", false
		}
		return "interior", false
	}
	near := func(b float64) (float64, float64) { // distance in units of the bound's scale, rounding distance
		m := math.Max(math.Abs(b), sp.s)
		return math.Abs(x-b) / m, 64 * 2.3e-16 * m
	}
	fz := false
	if !math.IsInf(sp.lo, 0) {
		d, e := near(sp.lo)
		if !sp.loExact && math.Abs(x-sp.lo) <= e {
			fz = true
		}
		switch {
		case x == sp.lo:
			return "at-lower-bound", fz
		case x < sp.lo && d <= 1.0001e-3:
			return "below-near", fz
		case x < sp.lo:
			return "below-far", fz
		case d <= 1.0001e-3:
			return "inside-near-lower", fz
		}
	}
	if !math.IsInf(sp.hi, 0) {
		d, e := near(sp.hi)
		if !sp.hiExact && math.Abs(x-sp.hi) <= e {
			fz = true
		}
		switch {
		case x == sp.hi:
			return "at-upper-bound", fz
		case x > sp.hi && d <= 1.0001e-3:
			return "above-near", fz
		case x > sp.hi:
			return "above-far", fz
		case d <= 1.0001e-3:
			return "inside-near-upper", fz
		}
	}
	return "interior", fz
}

func pointsFor(f *family, d Dist, sp support, th bool) []pt {
	var xs []float64
	switch {
	case f.pts != nil:
		xs = f.pts(d, th)
	case sp.discrete:
		xs = discPoints(sp, th)
	default:
		xs = contPoints(sp, th)
	}
	seen := map[float64]bool{}
	out := []pt{}
	for _, x := range xs {
		if math.IsNaN(x) || seen[x] {
			continue
		}
		seen[x] = true
		rg, fz := regionOf(sp, x)
		out = append(out, pt{x, rg, fz})
	}
	return out
}

func contPoints(sp support, th bool) []float64 {
	N := 48
	if th {
		N = 240
	}
	xs := []float64{sp.c}
	loF, hiF := !math.IsInf(sp.lo, 0), !math.IsInf(sp.hi, 0)
	lin := func(i int, a, b float64) float64 { return a + (b-a)*float64(i)/float64(N) }
	switch {
	case !loF && !hiF:
		for i := 0; i <= N; i++ {
			e := math.Pow(10, lin(i, -6, 3))
			xs = append(xs, sp.c+sp.s*e, sp.c-sp.s*e)
		}
		for i := -N / 2; i <= N/2; i++ {
			xs = append(xs, sp.c+sp.s*8*float64(i)/float64(N))
		}
	case loF && !hiF:
		for i := 0; i <= N; i++ {
			xs = append(xs, sp.lo+(sp.c-sp.lo)*math.Pow(10, lin(i, -12, 6)))
		}
		for i := 1; i <= N/2; i++ {
			xs = append(xs, sp.c+sp.s*6*float64(i)/float64(N))
		}
	case !loF && hiF:
		for i := 0; i <= N; i++ {
			xs = append(xs, sp.hi-(sp.hi-sp.c)*math.Pow(10, lin(i, -12, 6)))
		}
		for i := 1; i <= N/2; i++ {
			xs = append(xs, sp.c-sp.s*6*float64(i)/float64(N))
		}
	default:
		w := sp.hi - sp.lo
		for i := 0; i <= N/2; i++ {
			u := math.Pow(10, lin(2*i, -12, math.Log10(0.5)))
			xs = append(xs, sp.lo+w*u, sp.hi-w*u)
		}
		for i := 1; i < N/2; i++ {
			xs = append(xs, sp.lo+w*float64(i)/float64(N/2))
		}
	}
	for side, b := range []float64{sp.lo, sp.hi} {
		if math.IsInf(b, 0) {
			continue
		}
		m := math.Max(math.Abs(b), sp.s)
		xs = append(xs, b, b+1e-9*m, b-1e-9*m, b+1e-3*m, b-1e-3*m)
		if (side == 0 && sp.loExact) || (side == 1 && sp.hiExact) {
			xs = append(xs, ulpUp(b), ulpDown(b))
		}
		sg := -1.0
		if side == 1 {
			sg = 1
		}
		xs = append(xs, b+sg*m, b+sg*10*m, b+sg*1e6*m, sg*1e300)
	}
	// (±1e300 is used as an OUTSIDE point only: inside an unbounded support it tests overflow of
	// intermediates, i.e. special-function range, which is not this property)
	if !hiF {
		xs = append(xs, sp.c+sp.s*1e6)
	}
	if !loF {
		xs = append(xs, sp.c-sp.s*1e6)
	}
	xs = append(xs, pinf, ninf)
	return xs
}

func discPoints(sp support, th bool) []float64 {
	K := 40
	if th {
		K = 400
	}
	xs := []float64{}
	for k := 0; k <= K && (sp.kmax < 0 || k <= sp.kmax); k++ {
		xs = append(xs, float64(k))
	}
	m := math.Floor(sp.c)
	w := math.Ceil(sp.s)
	for j := -4.0; j <= 4; j++ {
		if v := m + j*w; v >= 0 && (sp.kmax < 0 || v <= float64(sp.kmax)) {
			xs = append(xs, v)
		}
	}
	if sp.kmax >= 0 {
		n := float64(sp.kmax)
		xs = append(xs, n, n-1, n+1, n+2, n+10, 2*n+5, n+0.5, 1e6, 1e15)
	} else {
		xs = append(xs, 1e3, 1e6, 1e15)
	}
	xs = append(xs, -1, -2, -10, -1e6, 0.5, 1.5, -0.5, 1e-9, 1-1e-9, 2.0000000001, 1e6+0.5, pinf, ninf)
	out := xs[:0]
	for _, x := range xs {
		if x < 0 && isInt(x) || x >= 0 || !isInt(x) {
			out = append(out, x)
		}
	}
	return out
}

// ---- density / support clause -----------------------------------------------------------------------

type verdict struct {
	clause, kind string // "" = fine
	decided      bool   // the reference decided the point (not gated)
	tol          float64
}

func classifyValue(v float64) string {
	switch {
	case math.IsNaN(v):
		return "NaN"
	case math.IsInf(v, 1):
		return "+Inf"
	case math.IsInf(v, -1):
		return "-Inf"
	}
	return "finite"
}

// judge decides one evaluation against the reference value r. delta is the change of the
// reference under a 1e-10 relative perturbation of x (conditioning, reference side only).
func judge(p pt, ev evalOut, r rv, delta float64) verdict {
	out := isOutside(p.region)
	clause := "density"
	if out {
		clause = "support"
	}
	atBound := p.region == "at-lower-bound" || p.region == "at-upper-bound"
	if ev.pan != "" {
		if out && !ev.rtErr {
			return verdict{decided: true} // deliberate loud refusal of a point outside the support
		}
		if ev.rtErr {
			return verdict{clause, "runtime-panic", true, 0}
		}
		return verdict{clause, "panic", true, 0}
	}
	if ev.err != nil {
		if out || atBound || p.fuzzy || math.IsInf(r.v, -1) {
			return verdict{decided: true} // loud refusal where the density is zero
		}
		return verdict{clause, "error", true, 0}
	}
	v := ev.v
	if math.IsNaN(v) {
		return verdict{clause, "NaN", true, 0}
	}
	if p.fuzzy {
		return verdict{}
	}
	switch {
	case math.IsNaN(r.v):
		return verdict{} // reference undefined here: gated
	case math.IsInf(r.v, -1):
		if math.IsInf(v, -1) {
			return verdict{decided: true}
		}
		return verdict{clause, classifyValue(v), true, 0}
	case math.IsInf(r.v, 1):
		if math.IsInf(v, 1) || (atBound && math.IsInf(v, -1)) {
			return verdict{decided: true}
		}
		return verdict{clause, "not+Inf", true, 0}
	}
	// finite reference
	if atBound && math.IsInf(v, -1) {
		return verdict{decided: true} // value on a boundary point is a convention
	}
	if math.IsInf(delta, 0) || math.IsNaN(delta) {
		// the reference changes class within 1e-10 of x: only the class of the value is decided
		if math.IsInf(v, 1) {
			return verdict{clause, "+Inf", true, 0}
		}
		return verdict{}
	}
	tol := 1e-9*r.s + 1e-3*delta + 1e-12
	if math.IsInf(v, 0) {
		return verdict{clause, classifyValue(v), true, tol}
	}
	if math.Abs(v-r.v) > tol {
		return verdict{clause, "mismatch", true, tol}
	}
	return verdict{decided: true, tol: tol}
}

func refDelta(f *family, d Dist, sp support, x float64, r rv) float64 {
	if sp.discrete || math.IsInf(r.v, 0) || math.IsNaN(r.v) {
		return 0
	}
	dl := 1e-10 * math.Max(math.Max(math.Abs(x), math.Abs(sp.c)), sp.s)
	a, b := f.ref(d, x+dl).v, f.ref(d, x-dl).v
	return math.Max(math.Abs(a-r.v), math.Abs(b-r.v))
}

// ---- one scalar instance --------------------------------------------------------------------------------

type rec struct {
	ev evalOut
	r  rv
	ok bool // evaluated to a value
}

func (rp *reporter) checkScalar(f *family, d Dist, h string, obj any, rank int64, clauses map[string]bool, vals map[float64]evalOut) {
	c := rp.c
	sp := f.sup(d)
	pc := ""
	if f.pclass != nil {
		pc = f.pclass(d)
	}
	pts := pointsFor(f, d, sp, rp.th)
	if clauses["points"] {
		for i, p := range pts {
			ev := evalPdf(obj, f, d, h, []float64{p.x}, h == "Real64")
			r := f.ref(d, p.x)
			dl := refDelta(f, d, sp, p.x, r)
			vd := judge(p, ev, r, dl)
			c.Eval(1)
			if vd.decided {
				c.Nontrivial(1)
			}
			if vals != nil && ev.ok() {
				vals[p.x] = ev
			}
			c.Outcome(fmt.Sprintf("%s|%s|%s", f.name, p.region, outcomeOf(ev)))
			if i == 5 && (rank/1000000)%29 == 0 {
				c.Sample(map[string]any{"distribution": d.String(), "holder": h, "x": F(p.x), "region": p.region, "library_logpdf": ev.String(), "textbook_logpdf": fmtF(r.v), "tolerance": vd.tol})
			}
			if vd.kind != "" {
				rp.violate(key(f.name, h, vd.clause, vd.kind, pc, p.region),
					fmt.Sprintf("%s [%s parameters] LogPdf(x=%s): library %s, textbook %s (tolerance %.3g)", d, h, fmtF(p.x), ev, fmtF(r.v), vd.tol),
					rank+int64(i), Case{Dist: d, Holder: h, Clause: "points", X: fs(p.x), Lib: ev.String(), Ref: fmtF(r.v)})
			}
		}
	}
	if clauses["norm"] {
		rp.normScalar(f, d, h, obj, sp, pc, rank)
	}
	if clauses["cdf"] {
		rp.cdfScalar(f, d, h, obj, sp, pc, pts, rank)
	}
}

func outcomeOf(ev evalOut) string {
	switch {
	case ev.pan != "":
		return "panic"
	case ev.err != nil:
		return "error"
	}
	return classifyValue(ev.v)
}

// normalisation: discrete sum / fixed Gauss-Legendre node set
func (rp *reporter) normScalar(f *family, d Dist, h string, obj any, sp support, pc string, rank int64) {
	c := rp.c
	var libSum, refSum float64
	var bad evalOut
	var badX float64
	nbad := 0
	n := 0
	if sp.discrete {
		lo := 0.0
		if sp.kmax == -2 {
			lo = sp.lo
		}
		for k := 0; k < 5000000; k++ {
			x := lo + float64(k)
			if sp.kmax == -2 && k > 0 {
				break
			}
			if sp.kmax >= 0 && k > sp.kmax {
				break
			}
			rp.beat(n, d, h)
			r := f.ref(d, x)
			ev := evalPdf(obj, f, d, h, []float64{x}, false)
			n++
			refSum += math.Exp(r.v)
			if !ev.ok() || math.IsNaN(ev.v) {
				if nbad == 0 {
					bad, badX = ev, x
				}
				nbad++
			} else {
				libSum += math.Exp(ev.v)
			}
			if 1-refSum < 1e-12 && r.v < -30 {
				break
			}
		}
	} else {
		ns := nodes1(sp, q1(rp.th))
		for _, nd := range ns {
			rp.beat(n, d, h)
			r := f.ref(d, nd.x)
			ev := evalPdf(obj, f, d, h, []float64{nd.x}, false)
			n++
			jac := 1.0
			if f.normJac != nil {
				jac = f.normJac(nd.x)
			}
			refSum += nd.w * jac * math.Exp(r.v)
			if !ev.ok() || math.IsNaN(ev.v) {
				if r.v < -745 && (ev.err != nil || (ev.pan != "" && !ev.rtErr)) {
					continue // refusal where the textbook density underflows to 0: contributes nothing
				}
				if nbad == 0 {
					bad, badX = ev, nd.x
				}
				nbad++
			} else {
				libSum += nd.w * jac * math.Exp(ev.v)
			}
		}
	}
	c.Eval(int64(n))
	gate := 1e-8
	if sp.discrete {
		gate = 1e-11
	}
	if !(math.Abs(refSum-1) <= gate) {
		c.Count("normalisation gated (fixed node set does not resolve the reference density)", 1)
		c.Count("gated: "+f.name, 1)
		c.Outcome(f.name + "|norm|gated")
		return
	}
	c.Nontrivial(1)
	c.Count("normalisation decided", 1)
	c.Count("normalisation nodes", int64(n))
	cs := Case{Dist: d, Holder: h, Clause: "norm"}
	if nbad > 0 {
		c.Outcome(f.name + "|norm|unevaluable")
		rp.violate(key(f.name, h, "normalisation", "unevaluable", pc, ""),
			fmt.Sprintf("%s [%s parameters]: LogPdf is %s at x=%s inside the support (%d of %d nodes): mass cannot be 1", d, h, bad, fmtF(badX), nbad, n), rank, cs)
		return
	}
	if !(math.Abs(libSum-1) <= 1e-6) {
		c.Outcome(f.name + "|norm|bad")
		cs.Lib, cs.Ref = fmtF(libSum), fmtF(refSum)
		rp.violate(key(f.name, h, "normalisation", "mass", pc, ""),
			fmt.Sprintf("%s [%s parameters]: total mass of exp(LogPdf) over the support is %s (textbook density on the same %d nodes: %s)", d, h, fmtF(libSum), n, fmtF(refSum)), rank, cs)
		return
	}
	c.Outcome(f.name + "|norm|ok")
}

// CDF clauses
func (rp *reporter) cdfScalar(f *family, d Dist, h string, obj any, sp support, pc string, pts []pt, rank int64) {
	c := rp.c
	if !hasCdf(obj) {
		if f.cdf != nil {
			c.HarnessError(fmt.Sprintf("family %s: reference cdf given but the library offers none", f.name))
		}
		return
	}
	if f.cdf == nil {
		if fams[f.name].ref != nil && f.name != "logtransform" && f.name != "translation" && f.name != "mixture" {
			c.HarnessError(fmt.Sprintf("family %s offers LogCdf/Cdf but the harness has no reference cdf", f.name))
		}
		return
	}
	act := h == "Real64"
	ps := []pt{}
	for _, p := range pts {
		if !math.IsInf(p.x, 0) {
			ps = append(ps, p)
		}
	}
	sort.Slice(ps, func(i, j int) bool { return ps[i].x < ps[j].x })
	type cv struct {
		p    pt
		l, v evalOut
		rl   float64 // reference log-cdf
		good bool
	}
	cvs := make([]cv, len(ps))
	viol := func(clause, kind, region, what string, i int, x float64, lib, ref string) {
		rp.violate(key(f.name, h, clause, kind, pc, region), fmt.Sprintf("%s [%s parameters] %s", d, h, what), rank+int64(i),
			Case{Dist: d, Holder: h, Clause: "cdf", X: fs(x), Lib: lib, Ref: ref})
	}
	for i, p := range ps {
		e := cv{p: p, rl: f.cdf(d, p.x)}
		e.l = evalCdf(obj, h, p.x, true, act)
		e.v = evalCdf(obj, h, p.x, false, act)
		c.Eval(2)
		cvs[i] = e
		for _, ev := range []evalOut{e.l, e.v} {
			if ev.pan != "" && !ev.rtErr {
				c.Outcome(f.name + "|cdf|deliberate-panic")
				continue // documented loud refusal (e.g. "try using MagicLogCdf()")
			}
			if ev.pan != "" {
				viol("cdf-ends", "runtime-panic", p.region, fmt.Sprintf("LogCdf/Cdf(x=%s): %s", fmtF(p.x), ev), i, p.x, ev.String(), fmtF(e.rl))
			} else if ev.err != nil {
				viol("cdf-ends", "error", p.region, fmt.Sprintf("LogCdf/Cdf(x=%s): %s", fmtF(p.x), ev), i, p.x, ev.String(), fmtF(e.rl))
			} else if math.IsNaN(ev.v) && !p.fuzzy {
				viol("cdf-ends", "NaN", p.region, fmt.Sprintf("LogCdf/Cdf(x=%s) is NaN, textbook log-cdf %s", fmtF(p.x), fmtF(e.rl)), i, p.x, "NaN", fmtF(e.rl))
			}
		}
		if !e.l.ok() || !e.v.ok() || math.IsNaN(e.l.v) || math.IsNaN(e.v.v) || p.fuzzy {
			continue
		}
		cvs[i].good = true
		c.Nontrivial(1)
		L, C := e.l.v, e.v.v
		// LogCdf = log Cdf
		if math.Abs(math.Exp(L)-C) > 1e-12*(1+math.Abs(C)) {
			viol("cdf-logcdf", "mismatch", p.region, fmt.Sprintf("x=%s: exp(LogCdf)=%s but Cdf=%s", fmtF(p.x), fmtF(math.Exp(L)), fmtF(C)), i, p.x, fmtF(L), fmtF(math.Log(C)))
		}
		// ends of the support
		rc := math.Exp(e.rl)
		switch {
		case math.IsInf(e.rl, -1) && isOutside(p.region):
			if C != 0 {
				viol("cdf-ends", "limit", p.region, fmt.Sprintf("x=%s is below the support but Cdf=%s (LogCdf=%s)", fmtF(p.x), fmtF(C), fmtF(L)), i, p.x, fmtF(C), "0")
			}
		case e.rl == 0 && isOutside(p.region):
			if math.Abs(C-1) > 1e-12 {
				viol("cdf-ends", "limit", p.region, fmt.Sprintf("x=%s is above the support but Cdf=%s (LogCdf=%s)", fmtF(p.x), fmtF(C), fmtF(L)), i, p.x, fmtF(C), "1")
			}
		case rc >= 1-1e-12:
			if !(C >= 1-1e-9 && C <= 1+1e-12) {
				viol("cdf-ends", "limit", p.region, fmt.Sprintf("x=%s: Cdf=%s, textbook %s (cdf must tend to 1)", fmtF(p.x), fmtF(C), fmtF(rc)), i, p.x, fmtF(C), fmtF(rc))
			}
		case rc <= 1e-12:
			if !(C <= 1e-9 && C >= 0) {
				viol("cdf-ends", "limit", p.region, fmt.Sprintf("x=%s: Cdf=%s, textbook %s (cdf must tend to 0)", fmtF(p.x), fmtF(C), fmtF(rc)), i, p.x, fmtF(C), fmtF(rc))
			}
		}
		if C < -1e-15 || C > 1+1e-12 {
			viol("cdf-ends", "limit", p.region, fmt.Sprintf("x=%s: Cdf=%s", fmtF(p.x), fmtF(C)), i, p.x, fmtF(C), fmtF(rc))
		}
		// AD derivative (activated Real64 argument)
		nearB := false
		for _, b := range []float64{sp.lo, sp.hi} {
			if !math.IsInf(b, 0) && math.Abs(p.x-b) < 1e-12*math.Max(math.Abs(b), sp.s) {
				nearB = true
			}
		}
		if act && !sp.discrete && !isOutside(p.region) && !nearB {
			rpdf := f.ref(d, p.x)
			want := math.Exp(rpdf.v - e.rl)
			dl := 1e-10 * math.Max(math.Max(math.Abs(p.x), math.Abs(sp.c)), sp.s)
			w2 := math.Exp(f.ref(d, p.x+dl).v - f.cdf(d, p.x+dl))
			w3 := math.Exp(f.ref(d, p.x-dl).v - f.cdf(d, p.x-dl))
			cond := math.Max(math.Abs(w2-want), math.Abs(w3-want))
			// the reference quotient is formed by subtracting logs: decided only where that loses nothing
			if want > 1e-280 && want < 1e280 && !math.IsNaN(cond) && !math.IsInf(cond, 0) && rc < 1-1e-9 && math.Abs(rpdf.v) < 1e8 && math.Abs(e.rl) < 1e8 {
				tol := 1e-6*want + 1e-3*cond
				c.Nontrivial(1)
				if !(math.Abs(e.l.dx-want) <= tol) {
					viol("cdf-derivative", "ad", p.region, fmt.Sprintf("x=%s: d/dx LogCdf = %s by AD, but exp(LogPdf-LogCdf) = %s (textbook)", fmtF(p.x), fmtF(e.l.dx), fmtF(want)), i, p.x, fmtF(e.l.dx), fmtF(want))
				}
			}
			wantC := math.Exp(rpdf.v)
			if wantC > 1e-280 && wantC < 1e280 && !math.IsInf(dl, 0) {
				c2 := math.Max(math.Abs(math.Exp(f.ref(d, p.x+dl).v)-wantC), math.Abs(math.Exp(f.ref(d, p.x-dl).v)-wantC))
				if !math.IsNaN(c2) && !math.IsInf(c2, 0) {
					tol := 1e-6*wantC + 1e-3*c2
					c.Nontrivial(1)
					if !(math.Abs(e.v.dx-wantC) <= tol) {
						viol("cdf-derivative", "ad", p.region, fmt.Sprintf("x=%s: d/dx Cdf = %s by AD, but the textbook density is %s", fmtF(p.x), fmtF(e.v.dx), fmtF(wantC)), i, p.x, fmtF(e.v.dx), fmtF(wantC))
					}
				}
			}
		}
		// finite difference of Cdf against the finite difference of the textbook cdf (same step: truncation cancels)
		if !act && !sp.discrete && p.region == "interior" {
			hh := 1e-5 * sp.s
			if !math.IsInf(sp.lo, 0) {
				hh = math.Min(hh, 0.25*(p.x-sp.lo))
			}
			if !math.IsInf(sp.hi, 0) {
				hh = math.Min(hh, 0.25*(sp.hi-p.x))
			}
			xa, xb := p.x-hh, p.x+hh
			if hh > 1e-9*math.Abs(p.x) && xa < xb {
				a, b := evalCdf(obj, h, xa, false, false), evalCdf(obj, h, xb, false, false)
				c.Eval(2)
				if a.ok() && b.ok() {
					fdLib := (b.v - a.v) / (xb - xa)
					fdRef := (math.Exp(f.cdf(d, xb)) - math.Exp(f.cdf(d, xa))) / (xb - xa)
					tol := 1e-5*math.Abs(fdRef) + 1e-10/(xb-xa)
					c.Nontrivial(1)
					if !(math.Abs(fdLib-fdRef) <= tol) {
						viol("cdf-derivative", "finite-difference", p.region, fmt.Sprintf("x=%s: (Cdf(x+h)-Cdf(x-h))/2h = %s, textbook cdf gives %s (h=%.3g)", fmtF(p.x), fmtF(fdLib), fmtF(fdRef), hh), i, p.x, fmtF(fdLib), fmtF(fdRef))
					}
				}
			}
		}
	}
	// monotone over the sorted grid; discrete: increments equal the mass function
	prev := -1
	for i := range cvs {
		if !cvs[i].good {
			continue
		}
		if prev >= 0 {
			a, b := cvs[prev], cvs[i]
			if b.l.v < a.l.v-1e-12*(1+math.Abs(a.l.v)) || b.v.v < a.v.v-1e-13 {
				viol("cdf-monotone", "decreasing", b.p.region, fmt.Sprintf("Cdf(%s)=%s > Cdf(%s)=%s (LogCdf %s > %s)", fmtF(a.p.x), fmtF(a.v.v), fmtF(b.p.x), fmtF(b.v.v), fmtF(a.l.v), fmtF(b.l.v)), i, b.p.x, fmtF(b.v.v), fmtF(a.v.v))
			}
			if sp.discrete && isInt(a.p.x) && b.p.x == a.p.x+1 && b.p.region == "interior" {
				want := math.Exp(f.ref(d, b.p.x).v)
				if math.Abs((b.v.v-a.v.v)-want) > 1e-12 {
					viol("cdf-derivative", "increment", b.p.region, fmt.Sprintf("Cdf(%s)-Cdf(%s) = %s but the mass at %s is %s", fmtF(b.p.x), fmtF(a.p.x), fmtF(b.v.v-a.v.v), fmtF(b.p.x), fmtF(want)), i, b.p.x, fmtF(b.v.v-a.v.v), fmtF(want))
				}
			}
		}
		prev = i
	}
}

// beat tells the supervisor's hang watchdog that a long node-set enumeration is alive.
func (rp *reporter) beat(i int, d Dist, h string) {
	if i%20000 == 0 {
		rp.c.Guard(d.String()+"/"+h+"/normalisation", 0, Case{Dist: d, Holder: h, Clause: "norm"})
	}
}

// ---- vector / matrix instances ------------------------------------------------------------------------

func (rp *reporter) checkMulti(f *family, d Dist, h string, obj any, rank int64, clauses map[string]bool, vals map[string]evalOut) {
	c := rp.c
	pc := ""
	if f.pclass != nil {
		pc = f.pclass(d)
	}
	if clauses["points"] {
		pts := f.ptsV(d, rp.th)
		for i, x := range pts {
			ev := evalPdf(obj, f, d, h, x, false)
			r := f.refV(d, x)
			c.Eval(1)
			region := "interior"
			if math.IsInf(r.v, -1) {
				region = "off-support"
			}
			p := pt{region: region}
			tolExtra := 1e-8*r.s + 1e-10
			vd := judge(p, ev, rv{r.v, r.s}, tolExtra*1e3)
			if vd.decided {
				c.Nontrivial(1)
			}
			if vals != nil && ev.ok() {
				vals[fmt.Sprint(x)] = ev
			}
			c.Outcome(fmt.Sprintf("%s|%s|%s", f.name, region, outcomeOf(ev)))
			if vd.kind != "" {
				rp.violate(key(f.name, h, vd.clause, vd.kind, pc, region),
					fmt.Sprintf("%s [%s parameters] LogPdf(x=%v): library %s, textbook %s (tolerance %.3g)", d, h, x, ev, fmtF(r.v), vd.tol),
					rank+int64(i), Case{Dist: d, Holder: h, Clause: "points", X: fs(x...), Lib: ev.String(), Ref: fmtF(r.v)})
			}
		}
		// wrong dimension: must be refused loudly
		if len(pts) > 0 && f.kind != "niw" && !f.anyLen && !(f.name == "scalariid" && d.p(0) == -1) {
			n, m := f.dims(d)
			var x []float64
			if f.kind == "vector" {
				x = make([]float64, n+1)
			} else {
				x = make([]float64, n*(m+1))
			}
			for i := range x {
				x[i] = 0.5
			}
			ev := evalPdf(obj, f, d, h, x, false)
			c.Eval(1)
			c.Nontrivial(1)
			c.Outcome(fmt.Sprintf("%s|wrong-dimension|%s", f.name, outcomeOf(ev)))
			if ev.ok() {
				rp.violate(key(f.name, h, "support", "wrong-dimension-accepted", pc, "off-support"),
					fmt.Sprintf("%s [%s parameters] LogPdf of an argument with %d entries (distribution has %dx%d) returned %s without error", d, h, len(x), n, m, ev),
					rank, Case{Dist: d, Holder: h, Clause: "points", X: fs(x...), Lib: ev.String()})
			}
		}
	}
	if clauses["norm"] && f.nodesV != nil {
		pts, ws := f.nodesV(d, rp.th)
		if len(pts) > 0 {
			var libSum, refSum float64
			nbad := 0
			var bad evalOut
			var badX []float64
			for i, x := range pts {
				rp.beat(i, d, h)
				r := f.refV(d, x)
				refSum += ws[i] * math.Exp(r.v)
			}
			c.Eval(int64(len(pts)))
			if !(math.Abs(refSum-1) <= 1e-7) {
				c.Count("normalisation gated (fixed node set does not resolve the reference density)", 1)
				c.Count("gated: "+f.name, 1)
				c.Outcome(f.name + "|norm|gated")
			} else {
				for i, x := range pts {
					rp.beat(i, d, h)
					ev := evalPdf(obj, f, d, h, x, false)
					if !ev.ok() || math.IsNaN(ev.v) {
						if f.refV(d, x).v < -745 && (ev.err != nil || (ev.pan != "" && !ev.rtErr)) {
							continue // loud refusal of a node where the textbook density underflows to 0 (edge of the support)
						}
						if nbad == 0 {
							bad, badX = ev, x
						}
						nbad++
						continue
					}
					libSum += ws[i] * math.Exp(ev.v)
				}
				c.Nontrivial(1)
				c.Count("normalisation decided", 1)
				c.Count("normalisation nodes", int64(len(pts)))
				cs := Case{Dist: d, Holder: h, Clause: "norm"}
				if nbad > 0 {
					rp.violate(key(f.name, h, "normalisation", "unevaluable", pc, ""),
						fmt.Sprintf("%s [%s parameters]: LogPdf is %s at x=%v inside the support (%d of %d nodes)", d, h, bad, badX, nbad, len(pts)), rank, cs)
				} else if !(math.Abs(libSum-1) <= 1e-6) {
					cs.Lib, cs.Ref = fmtF(libSum), fmtF(refSum)
					rp.violate(key(f.name, h, "normalisation", "mass", pc, ""),
						fmt.Sprintf("%s [%s parameters]: total mass of exp(LogPdf) is %s (textbook density on the same %d nodes: %s)", d, h, fmtF(libSum), len(pts), fmtF(refSum)), rank, cs)
				} else {
					c.Outcome(f.name + "|norm|ok")
				}
			}
		}
	}
}

// ---- round trips ------------------------------------------------------------------------------------------

func paramsOf(obj any) (p []float64, pan string) {
	defer func() {
		if r := recover(); r != nil {
			pan = fmt.Sprint(r)
		}
	}()
	v := obj.(st.BasicDistribution).GetParameters()
	if v == nil {
		return []float64{}, ""
	}
	p = make([]float64, v.Dim())
	for i := range p {
		p[i] = v.ConstAt(i).GetFloat64()
	}
	return
}

func cloneOf(obj any) (c any, pan string) {
	defer func() {
		if r := recover(); r != nil {
			pan = fmt.Sprint(r)
		}
	}()
	switch o := obj.(type) {
	case st.ScalarPdf:
		return o.CloneScalarPdf(), ""
	case st.VectorPdf:
		return o.CloneVectorPdf(), ""
	case st.MatrixPdf:
		return o.CloneMatrixPdf(), ""
	case *md.NormalIWishartDistribution:
		return o.Clone(), ""
	}
	return nil, "harness: no clone method"
}

func sameBits(a, b float64) bool {
	return math.Float64bits(a) == math.Float64bits(b) || (math.IsNaN(a) && math.IsNaN(b))
}

func sameParams(a, b []float64, approx bool) bool {
	if len(a) != len(b) {
		return false
	}
	for i := range a {
		if sameBits(a[i], b[i]) {
			continue
		}
		if approx && math.Abs(a[i]-b[i]) <= 1e-12*(1+math.Abs(a[i])) {
			continue
		}
		return false
	}
	return true
}

// probe points (inside the support) used to compare two objects
func probePoints(f *family, d Dist, th bool) [][]float64 {
	out := [][]float64{}
	if f.kind == "scalar" {
		sp := f.sup(d)
		for _, p := range pointsFor(f, d, sp, false) {
			if (p.region == "interior" || p.region == "support-point") && !math.IsInf(f.ref(d, p.x).v, 0) {
				out = append(out, []float64{p.x})
			}
		}
		if len(out) > 12 {
			st := len(out) / 6
			o2 := [][]float64{}
			for i := 0; i < len(out); i += st {
				o2 = append(o2, out[i])
			}
			out = o2
		}
		return out
	}
	for _, x := range f.ptsV(d, false) {
		if r := f.refV(d, x); !math.IsInf(r.v, 0) && !math.IsNaN(r.v) {
			out = append(out, x)
		}
		if len(out) >= 6 {
			break
		}
	}
	return out
}

// setProbe performs GetParameters -> SetParameters on a second object; used in-process and,
// for families flagged isolateSet, first in a child process (a runaway recursion is a fatal
// error in Go: it cannot be recovered and would take the whole shard down).
func setProbe(f *family, d, alt Dist, h string) (obj any, p0 []float64, err error, pan string) {
	t := typeOf(h)
	src := safeBuild(func() (any, error) { return f.build(d, t) })
	b := safeBuild(func() (any, error) { return f.build(alt, t) })
	if src.obj == nil || b.obj == nil || src.err != nil || b.err != nil {
		return nil, nil, nil, "harness: cannot build"
	}
	p0, pan = paramsOf(src.obj)
	if pan != "" || len(p0) == 0 {
		return nil, p0, nil, pan
	}
	func() {
		defer func() {
			if r := recover(); r != nil {
				pan = fmt.Sprint(r)
			}
		}()
		err = b.obj.(st.BasicDistribution).SetParameters(vecOf(t, append([]float64{}, p0...)))
	}()
	return b.obj, p0, err, pan
}

func probeMain(arg string) {
	debug.SetMaxStack(32 << 20)
	var cs Case
	if err := json.Unmarshal([]byte(arg), &cs); err != nil {
		fmt.Println("harness:", err)
		os.Exit(3)
	}
	f := fams[cs.Dist.Fam]
	_, _, err, pan := setProbe(f, cs.Dist, altOf(cs.Dist, false), cs.Holder)
	fmt.Printf("probe finished err=%v panic=%q\n", err, pan)
}

// runProbe returns "" when the child survived, else the first line of its fatal error.
func runProbe(d Dist, h string) string {
	self, err := os.Executable()
	if err != nil {
		return ""
	}
	b, _ := json.Marshal(Case{Dist: d, Holder: h})
	cmd := exec.Command(self)
	cmd.Env = append(os.Environ(), "VERIF_C14_PROBE="+string(b))
	out, err := cmd.CombinedOutput()
	if err == nil {
		return ""
	}
	for _, ln := range strings.Split(string(out), "\n") {
		if strings.HasPrefix(ln, "fatal error:") || strings.HasPrefix(ln, "runtime: goroutine stack exceeds") {
			return ln
		}
	}
	return "child process died: " + err.Error()
}

func (rp *reporter) checkRoundtrip(f *family, d Dist, h string, obj any, rank int64) {
	c := rp.c
	t := typeOf(h)
	pc := ""
	if f.pclass != nil {
		pc = f.pclass(d)
	}
	probes := probePoints(f, d, rp.th)
	base := make([]evalOut, len(probes))
	for i, x := range probes {
		base[i] = evalPdf(obj, f, d, h, x, false)
	}
	c.Eval(int64(len(probes)))
	viol := func(kind, what string) {
		rp.violate(key(f.name, h, "roundtrip", kind, pc, ""), fmt.Sprintf("%s [%s parameters]: %s", d, h, what), rank, Case{Dist: d, Holder: h, Clause: "roundtrip"})
	}
	sameValues := func(o any, label string) {
		for i, x := range probes {
			if !base[i].ok() {
				continue
			}
			ev := evalPdf(o, f, d, h, x, false)
			c.Eval(1)
			good := ev.ok() && (sameBits(ev.v, base[i].v) || (f.approxRT && math.Abs(ev.v-base[i].v) <= 1e-10*(1+math.Abs(base[i].v))))
			c.Nontrivial(1)
			if !good {
				viol(label+"-values", fmt.Sprintf("after %s, LogPdf(%v) = %s, original object gives %s", label, x, ev, base[i]))
				return
			}
		}
	}
	p0, pan := paramsOf(obj)
	if pan != "" {
		viol("get-panic", "GetParameters panics: "+pan)
		return
	}
	// (1) Clone
	if cl, pan := cloneOf(obj); pan != "" {
		viol("clone-panic", "Clone panics: "+pan)
	} else if cl == nil {
		viol("clone-nil", "Clone returned nil")
	} else {
		p1, pan := paramsOf(cl)
		c.Nontrivial(1)
		if pan != "" {
			viol("clone-params", "GetParameters of the clone panics: "+pan)
		} else if !sameParams(p0, p1, f.approxRT) {
			viol("clone-params", fmt.Sprintf("clone has parameters %v, original %v", p1, p0))
		}
		sameValues(cl, "clone")
	}
	// (2) GetParameters -> SetParameters on an object of the same family built from OTHER parameters
	alt := altOf(d, rp.th)
	fatal := ""
	if f.isolateSet && len(p0) > 0 {
		c.Guard(d.String()+"/"+h+"/set-probe", rank, Case{Dist: d, Holder: h, Clause: "roundtrip"})
		fatal = runProbe(d, h)
	}
	if fatal != "" {
		c.Nontrivial(1)
		viol("set-fatal", fmt.Sprintf("SetParameters(GetParameters()) kills the process (not recoverable): %s", fatal))
	} else if len(p0) > 0 {
		o2, _, err, pan := setProbe(f, d, alt, h)
		c.Nontrivial(1)
		switch {
		case pan != "":
			viol("set-panic", fmt.Sprintf("SetParameters(GetParameters()=%v) panics: %s", p0, pan))
		case err != nil:
			viol("set-error", fmt.Sprintf("SetParameters(GetParameters()=%v) fails: %v", p0, err))
		default:
			p2, pan := paramsOf(o2)
			if pan != "" || !sameParams(p0, p2, f.approxRT) {
				viol("set-params", fmt.Sprintf("SetParameters(%v) on %s gives GetParameters()=%v %s", p0, alt, p2, pan))
			}
			sameValues(o2, "set")
		}
	}
	// (3) ExportConfig -> JSON -> ImportConfig
	finite := true
	for _, v := range p0 {
		if math.IsNaN(v) || math.IsInf(v, 0) {
			finite = false
		}
	}
	if !finite {
		c.Outcome(f.name + "|export|non-finite parameters (not JSON-representable)")
		return
	}
	var cfg2 st.ConfigDistribution
	pan = ""
	var jerr error
	func() {
		defer func() {
			if r := recover(); r != nil {
				pan = fmt.Sprint(r)
			}
		}()
		cfg := obj.(st.ConfigurableDistribution).ExportConfig()
		var buf bytes.Buffer
		if jerr = cfg.WriteJson(&buf); jerr == nil {
			jerr = cfg2.ReadJson(&buf)
		}
	}()
	if pan != "" {
		viol("export-panic", "ExportConfig panics: "+pan)
		return
	}
	if jerr != nil {
		viol("export-json", "ExportConfig is not JSON-serialisable: "+jerr.Error())
		return
	}
	o3 := f.fresh()
	var ierr error
	func() {
		defer func() {
			if r := recover(); r != nil {
				pan = fmt.Sprint(r)
			}
		}()
		ierr = o3.(st.ConfigurableDistribution).ImportConfig(cfg2, t)
	}()
	c.Nontrivial(1)
	switch {
	case pan != "":
		viol("import-panic", "ImportConfig(ExportConfig()) panics: "+pan)
	case ierr != nil:
		viol("import-error", fmt.Sprintf("ImportConfig(ExportConfig()) fails: %v (config %+v)", ierr, cfg2))
	default:
		p3, pan := paramsOf(o3)
		if pan != "" || !sameParams(p0, p3, f.approxRT) {
			viol("import-params", fmt.Sprintf("ImportConfig(ExportConfig()) has parameters %v, original %v %s", p3, p0, pan))
		}
		sameValues(o3, "import")
	}
	// (4) the exported name resolves through the registry (ImportScalarPdfConfig & co.)
	var rerr error
	pan = ""
	func() {
		defer func() {
			if r := recover(); r != nil {
				pan = fmt.Sprint(r)
			}
		}()
		switch f.kind {
		case "scalar":
			_, rerr = st.ImportScalarPdfConfig(cfg2, t)
		case "vector":
			_, rerr = st.ImportVectorPdfConfig(cfg2, t)
		case "matrix":
			_, rerr = st.ImportMatrixPdfConfig(cfg2, t)
		}
	}()
	if f.kind != "niw" {
		c.Nontrivial(1)
		if pan != "" {
			viol("registry-panic", fmt.Sprintf("Import*PdfConfig(ExportConfig()) panics: %s", pan))
		} else if rerr != nil && ierr == nil {
			viol("registry-error", fmt.Sprintf("Import*PdfConfig(ExportConfig()) fails although ImportConfig works: %v", rerr))
		}
	}
}

// altOf returns another valid instance of the same shape whose GetParameters vector has the
// same length: the object SetParameters is applied to starts from DIFFERENT parameters.
func altOf(d Dist, th bool) Dist {
	f := fams[d.Fam]
	pc := ""
	if f.pclass != nil {
		pc = f.pclass(d)
	}
	if len(d.Sub) > 0 {
		a := Dist{Fam: d.Fam, P: d.P, Sub: make([]Dist, len(d.Sub))}
		for i := range d.Sub {
			a.Sub[i] = altOf(d.Sub[i], th)
		}
		if !f.pNotParam {
			for _, o := range f.valid(th) {
				if len(o.P) == len(d.P) && fmt.Sprint(o.P) != fmt.Sprint(d.P) && (f.compat == nil || f.compat(d, o)) {
					a.P = o.P
					break
				}
			}
		}
		return a
	}
	for _, o := range f.valid(th) {
		if len(o.P) == len(d.P) && fmt.Sprint(o.P) != fmt.Sprint(d.P) && (f.pclass == nil || f.pclass(o) == pc) && (f.compat == nil || f.compat(d, o)) {
			return o
		}
	}
	return d
}

// ---- one instance, all clauses ------------------------------------------------------------------------------

func (rp *reporter) checkInstance(d Dist, rank int64, clauses map[string]bool, onlyHolder string) {
	c := rp.c
	f := fams[d.Fam]
	pc := ""
	if f.pclass != nil {
		pc = f.pclass(d)
	}
	valsS := map[string]map[float64]evalOut{}
	valsM := map[string]map[string]evalOut{}
	for _, h := range holders {
		if onlyHolder != "" && onlyHolder != h && !clauses["holder"] {
			continue
		}
		c.Guard(d.String()+"/"+h, rank, Case{Dist: d, Holder: h})
		b := safeBuild(func() (any, error) { return f.build(d, typeOf(h)) })
		c.Eval(1)
		if b.obj == nil || b.err != nil || b.pan != "" {
			if !clauses["points"] {
				continue // reported by the task that owns the point clauses
			}
			c.Nontrivial(1)
			rp.violate(key(f.name, h, "ctor-rejects-valid", "error", pc, ""),
				fmt.Sprintf("constructor of %s [%s parameters] fails on textbook-valid parameters: err=%v panic=%q", d, h, b.err, b.pan), rank, Case{Dist: d, Holder: h, Clause: "points"})
			continue
		}
		if f.kind == "scalar" {
			valsS[h] = map[float64]evalOut{}
			rp.checkScalar(f, d, h, b.obj, rank, clauses, valsS[h])
		} else {
			valsM[h] = map[string]evalOut{}
			rp.checkMulti(f, d, h, b.obj, rank, clauses, valsM[h])
		}
		if clauses["roundtrip"] {
			rp.checkRoundtrip(f, d, h, b.obj, rank)
		}
	}
	if !clauses["holder"] || !clauses["points"] {
		return
	}
	// Float64- and Real64-held parameters give equal values
	cmp := func(xs string, x []float64, a, b evalOut, scale float64, region string) {
		c.Nontrivial(1)
		if sameBits(a.v, b.v) || math.Abs(a.v-b.v) <= 1e-12*(1+scale) {
			return
		}
		rp.violate(key(f.name, "Float64≠Real64", "holder-equal", "mismatch", pc, region),
			fmt.Sprintf("%s LogPdf(x=%s): %s with Float64 parameters, %s with Real64 parameters", d, xs, a, b), rank,
			Case{Dist: d, Holder: "both", Clause: "holder", X: fs(x...), Lib: a.String(), Ref: b.String()})
	}
	if f.kind == "scalar" {
		sp := f.sup(d)
		xs := []float64{}
		for x := range valsS["Float64"] {
			xs = append(xs, x)
		}
		sort.Float64s(xs)
		for _, x := range xs {
			if b, ok := valsS["Real64"][x]; ok {
				rg, _ := regionOf(sp, x)
				r := f.ref(d, x)
				cmp(fmtF(x), []float64{x}, valsS["Float64"][x], b, math.Abs(r.s)+math.Abs(valsS["Float64"][x].v), rg)
			}
		}
	} else {
		for _, x := range f.ptsV(d, rp.th) {
			k := fmt.Sprint(x)
			a, ok1 := valsM["Float64"][k]
			b, ok2 := valsM["Real64"][k]
			if ok1 && ok2 {
				cmp(k, x, a, b, math.Abs(a.v), "")
			}
		}
	}
}

func (rp *reporter) checkCtor(f *family, iv inval, rank int64) {
	c := rp.c
	for _, h := range holders {
		t := typeOf(h)
		mk := func() (any, error) { return f.build(iv.d, t) }
		if iv.mk != nil {
			mk = func() (any, error) { return iv.mk(t) }
		}
		b := safeBuild(mk)
		c.Eval(1)
		c.Nontrivial(1)
		switch {
		case b.pan != "":
			c.Outcome(f.name + "|ctor|panic")
		case b.err != nil:
			c.Outcome(f.name + "|ctor|error")
		default:
			c.Outcome(f.name + "|ctor|accepted")
			rp.violate(key(f.name, h, "ctor-accepts-invalid", "accepted", "", iv.class),
				fmt.Sprintf("constructor of %s [%s parameters] accepts invalid parameters (%s): no error returned", iv.d, h, iv.class), rank,
				Case{Dist: iv.d, Holder: h, Clause: "ctor", Class: iv.class})
		}
	}
}
