package main

// Storage of the evaluation point: a density is a function of the POINT, not of the container
// that holds it.
//
// LogPdf of the vector and matrix families takes a ConstVector / ConstMatrix (the normal inverse
// Wishart a Vector and a Matrix), LogPdf of the scalar families a ConstScalar. The same point can
// be handed over in many storages; sparse containers iterate over stored entries only, views
// carry offsets and a transposition flag, element types convert on access. The textbook formula
// does not know about any of this, so every storage of the same point must give the same
// log-density - in particular points with zero coordinates, which a sparse container does not
// store at all.
//
// Per family x valid lattice point x holder type {Float64, Real64}:
//   points   vector / matrix families: the zero closure of the first K points of the family's
//            evaluation lattice (ptsV) without a zero coordinate, per argument length (K = 3,
//            thorough 8): every subset of the coordinate groups replaced by 0 (a group is one
//            coordinate; for the symmetric matrix arguments of the inverse Wishart families the
//            pair (i,j),(j,i); all subsets up to 10 groups, beyond that subsets of size <= 2 and
//            their complements), i.e. every zero pattern from "no zero" to "all zero"; plus the
//            whole lattice ptsV when it has at most 128 (thorough 10000) points.
//            scalar families: every point of the family's evaluation point set.
//   storages vectors: container {dense, sparse with the zero coordinates absent, sparse with the
//            zero coordinates stored explicitly, SparseConst<T>Vector with zeros absent / stored
//            explicitly (UnsafeSparseConst<T>Vector)} x element type {Float64, Real64, Float32,
//            Real32, Int; thorough also Int8..Int64} (SparseConst: Float64, Float32, Int; thorough
//            all 7) x view {the whole container, Slice(1,n+1) of a container of length n+2 whose
//            first and last element are 7}.
//            matrices: container {dense, sparse zeros absent, sparse zeros explicit} x element type
//            x view {whole, T() of the container built transposed, Slice(1,n+1,1,m+1) of an
//            (n+2)x(m+2) container with a border of 7, T().Slice of the transposed bordered one}.
//            normal inverse Wishart (Vector, Matrix): the same container / element type / zeros for
//            both arguments; views whole+whole, slice+submatrix, whole+transposed,
//            slice+transposed-submatrix.
//            scalars: NewScalar(t, x) for the 9 scalar types and the 7 Const<T> types.
//            An element type takes part only where it represents every coordinate exactly
//            (integers for Int*, float32-representable values for Float32 / Real32).
//   oracle   the result with the canonical storage of the other clauses (dense vector / matrix
//            of the holder type; ConstFloat64 / Real64 scalar): same value (bit-identical, or
//            within 1e-10 (1+|v|): a different container may take another, equally valid, route
//            through the linear algebra), a loud refusal (error, deliberate panic) only where the
//            canonical storage also refuses or gives -Inf, never a runtime panic. The canonical
//            storage itself is judged against the textbook by the point clauses.
//   Before a storage is used, Dim()/Dims() and ConstAt over all indices are compared with the point
//   (public API); a container that does not hold the point is counted and not judged (that is
//   C03's subject, not this one's).

import (
	"fmt"
	"math"
	"sort"
	"strings"

	. "github.com/pbenner/autodiff"
	st "github.com/pbenner/autodiff/statistics"
	md "github.com/pbenner/autodiff/statistics/matrixDistribution"
)

var storageClause = map[string]bool{"storage": true}

const stoPad = 7.0 // content of the elements around a view: representable in every element type

type elemT struct {
	name string
	t    ScalarType
	fits func(v float64) bool
}

func fitsAny(v float64) bool { return !math.IsNaN(v) }
func fitsF32(v float64) bool { return !math.IsNaN(v) && float64(float32(v)) == v }
func fitsInt(bits uint) func(v float64) bool {
	lim := math.Ldexp(1, int(bits-1))
	if bits > 53 {
		lim = math.Ldexp(1, 53)
	}
	return func(v float64) bool { return isInt(v) && v >= -lim && v < lim && !(v == 0 && math.Signbit(v)) }
}

var elemTypes = []elemT{
	{"Float64", Float64Type, fitsAny},
	{"Real64", Real64Type, fitsAny},
	{"Float32", Float32Type, fitsF32},
	{"Real32", Real32Type, fitsF32},
	{"Int", IntType, fitsInt(64)},
	// thorough (containers); always (scalars)
	{"Int8", Int8Type, fitsInt(8)},
	{"Int16", Int16Type, fitsInt(16)},
	{"Int32", Int32Type, fitsInt(32)},
	{"Int64", Int64Type, fitsInt(64)},
}

func containerElems(th bool) []elemT {
	if th {
		return elemTypes
	}
	return elemTypes[:5]
}

// ---- Const<T> scalars and SparseConst<T>Vector -------------------------------------------------------

type constT struct {
	name   string
	fits   func(v float64) bool
	scalar func(v float64) ConstScalar
	vector func(x []float64, explicit bool) ConstVector
}

type number interface {
	~int | ~int8 | ~int16 | ~int32 | ~int64 | ~float32 | ~float64
}

func scv[T number, V ConstVector](nw, unsafe func([]int, []T, int) V) func(x []float64, explicit bool) ConstVector {
	return func(x []float64, explicit bool) ConstVector {
		idx := []int{}
		val := []T{}
		for i, v := range x {
			if v != 0 || explicit {
				idx = append(idx, i)
				val = append(val, T(v))
			}
		}
		if explicit {
			return unsafe(idx, val, len(x)) // keeps the lists as given (sorted): zeros stay stored
		}
		return nw(idx, val, len(x))
	}
}

var constTypes = []constT{
	{"Float64", fitsAny, func(v float64) ConstScalar { return ConstFloat64(v) }, scv(NewSparseConstFloat64Vector, UnsafeSparseConstFloat64Vector)},
	{"Float32", fitsF32, func(v float64) ConstScalar { return ConstFloat32(v) }, scv(NewSparseConstFloat32Vector, UnsafeSparseConstFloat32Vector)},
	{"Int", fitsInt(64), func(v float64) ConstScalar { return ConstInt(v) }, scv(NewSparseConstIntVector, UnsafeSparseConstIntVector)},
	// thorough (containers); always (scalars)
	{"Int8", fitsInt(8), func(v float64) ConstScalar { return ConstInt8(v) }, scv(NewSparseConstInt8Vector, UnsafeSparseConstInt8Vector)},
	{"Int16", fitsInt(16), func(v float64) ConstScalar { return ConstInt16(v) }, scv(NewSparseConstInt16Vector, UnsafeSparseConstInt16Vector)},
	{"Int32", fitsInt(32), func(v float64) ConstScalar { return ConstInt32(v) }, scv(NewSparseConstInt32Vector, UnsafeSparseConstInt32Vector)},
	{"Int64", fitsInt(64), func(v float64) ConstScalar { return ConstInt64(v) }, scv(NewSparseConstInt64Vector, UnsafeSparseConstInt64Vector)},
}

func containerConsts(th bool) []constT {
	if th {
		return constTypes
	}
	return constTypes[:3]
}

// ---- storage forms -------------------------------------------------------------------------------------

type form struct {
	container string // dense | sparse | sparseconst | scalar | const-scalar
	zeros     string // "" | zeros-absent | zeros-explicit
	view      string // whole | slice-of-longer | transposed | submatrix | transposed-submatrix | (niw) a+b
	elem      string
}

func (fm form) class() string {
	s := fm.container
	if fm.zeros != "" {
		s += "+" + fm.zeros
	}
	if fm.view != "" && fm.view != "whole" {
		s += "+" + fm.view
	}
	return s
}

func (fm form) String() string { return fm.class() + "/" + fm.elem }

func allFit(fits func(float64) bool, x []float64) bool {
	for _, v := range x {
		if !fits(v) {
			return false
		}
	}
	return true
}

func hasZero(x []float64) bool {
	for _, v := range x {
		if v == 0 {
			return true
		}
	}
	return false
}

// vecIn builds the vector x in a dense or sparse container of element type t.
func vecIn(t ScalarType, container, zeros, view string, x []float64) Vector {
	data, lo := x, 0
	if view == "slice-of-longer" {
		data = append(append([]float64{stoPad}, x...), stoPad)
		lo = 1
	}
	var v Vector
	if container == "dense" {
		v = NullDenseVector(t, len(data))
	} else {
		v = NullSparseVector(t, len(data))
	}
	for i, e := range data {
		if container == "dense" || e != 0 || zeros == "zeros-explicit" {
			v.At(i).SetFloat64(e) // sparse: At creates the entry, a zero stays stored
		}
	}
	if lo > 0 {
		return v.Slice(lo, lo+len(x))
	}
	return v
}

func constVecIn(ct constT, zeros, view string, x []float64) ConstVector {
	if view == "slice-of-longer" {
		data := append(append([]float64{stoPad}, x...), stoPad)
		return ct.vector(data, zeros == "zeros-explicit").ConstSlice(1, 1+len(x))
	}
	return ct.vector(x, zeros == "zeros-explicit")
}

// matIn builds the n x m matrix x (row-major) in a dense or sparse container of element type t.
func matIn(t ScalarType, container, zeros, view string, x []float64, n, m int) Matrix {
	tr := view == "transposed" || view == "transposed-submatrix"
	b := 0
	if view == "submatrix" || view == "transposed-submatrix" {
		b = 1
	}
	pr, pc := n+2*b, m+2*b
	if tr {
		pr, pc = m+2*b, n+2*b
	}
	var p Matrix
	if container == "dense" {
		p = NullDenseMatrix(t, pr, pc)
	} else {
		p = NullSparseMatrix(t, pr, pc)
	}
	for a := 0; a < pr; a++ {
		for c := 0; c < pc; c++ {
			e := stoPad
			if a >= b && a < pr-b && c >= b && c < pc-b {
				i, j := a-b, c-b
				if tr {
					i, j = j, i
				}
				e = x[i*m+j]
			}
			if container == "dense" || e != 0 || zeros == "zeros-explicit" {
				p.At(a, c).SetFloat64(e)
			}
		}
	}
	if tr {
		p = p.T()
	}
	if b > 0 {
		p = p.Slice(1, n+1, 1, m+1)
	}
	return p
}

func holdsVec(v ConstVector, x []float64) (ok bool) {
	defer func() {
		if recover() != nil {
			ok = false
		}
	}()
	if v.Dim() != len(x) {
		return false
	}
	for i := range x {
		if !sameBits(v.ConstAt(i).GetFloat64(), x[i]) {
			return false
		}
	}
	return true
}

func holdsMat(a ConstMatrix, x []float64, n, m int) (ok bool) {
	defer func() {
		if recover() != nil {
			ok = false
		}
	}()
	if r, c := a.Dims(); r != n || c != m {
		return false
	}
	for i := 0; i < n; i++ {
		for j := 0; j < m; j++ {
			if !sameBits(a.ConstAt(i, j).GetFloat64(), x[i*m+j]) {
				return false
			}
		}
	}
	return true
}

// ---- evaluation points -----------------------------------------------------------------------------------

// stoPoints: zero closure of the first K full points per argument length, plus the lattice when small.
func stoPoints(f *family, d Dist, th bool) [][]float64 {
	K, small := 3, 128
	if th {
		K, small = 8, 10000
	}
	pts := f.ptsV(d, th)
	seen := map[string]bool{}
	out := [][]float64{}
	add := func(x []float64) {
		k := fmt.Sprint(x)
		if !seen[k] {
			seen[k] = true
			out = append(out, x)
		}
	}
	base := [][]float64{}
	taken := map[int]int{}
	for _, x := range pts { // points without a zero coordinate
		if len(x) == 0 || taken[len(x)] >= K || hasZero(x) {
			continue
		}
		taken[len(x)]++
		base = append(base, x)
	}
	served := map[int]bool{}
	for n := range taken {
		served[n] = true
	}
	for _, x := range pts { // an argument length without such a point: the first K points
		if len(x) == 0 || served[len(x)] || taken[len(x)] >= K {
			continue
		}
		taken[len(x)]++
		base = append(base, x)
	}
	for _, x := range base {
		var groups [][]int
		if f.zeroGroups != nil {
			groups = f.zeroGroups(d, len(x))
		} else {
			for i := range x {
				groups = append(groups, []int{i})
			}
		}
		g := len(groups)
		zero := func(mask uint) {
			y := append([]float64{}, x...)
			for k := 0; k < g; k++ {
				if mask&(1<<uint(k)) != 0 {
					for _, i := range groups[k] {
						y[i] = 0
					}
				}
			}
			add(y)
		}
		if g <= 10 {
			for mask := uint(0); mask < 1<<uint(g); mask++ {
				zero(mask)
			}
		} else {
			full := uint(1)<<uint(g) - 1
			zero(0)
			zero(full)
			for a := 0; a < g; a++ {
				zero(1 << uint(a))
				zero(full &^ (1 << uint(a)))
				for b := a + 1; b < g; b++ {
					zero(1<<uint(a) | 1<<uint(b))
					zero(full &^ (1<<uint(a) | 1<<uint(b)))
				}
			}
		}
	}
	if len(pts) <= small {
		for _, x := range pts {
			if len(x) > 0 {
				add(x)
			}
		}
	}
	return out
}

// ---- judgement ----------------------------------------------------------------------------------------------

func refused(e evalOut) bool { return e.err != nil || (e.pan != "" && !e.rtErr) }

// judgeStorage compares the evaluation with another storage (ev) with the canonical one (base).
func judgeStorage(base, ev evalOut) (kind string, bit bool) {
	switch {
	case ev.pan != "" && ev.rtErr:
		return "runtime-panic", false
	case refused(base):
		if refused(ev) || (ev.ok() && math.IsInf(ev.v, -1)) {
			return "", false
		}
		return "value-where-canonical-storage-refuses", false
	case refused(ev):
		if math.IsInf(base.v, -1) {
			return "", false
		}
		return "refused", false
	}
	if sameBits(base.v, ev.v) {
		return "", true
	}
	if math.Abs(base.v-ev.v) <= 1e-10*(1+math.Abs(base.v)) {
		return "", false
	}
	return "mismatch", false
}

type stoSets struct{ elems, views map[string]bool }

func newStoSets() *stoSets { return &stoSets{map[string]bool{}, map[string]bool{}} }

type stoFail struct {
	what string
	rank int64
	cs   Case
	pts  map[int64]*stoSets // per failing point: the element types and views that fail
}

// stoAgg collects the failures of one (instance, holder): one key per (kind, point class, container);
// views and element types are folded into the key: "all" when at every failing point every view /
// element type that was run at that point fails (or every one run anywhere fails somewhere), else
// the list of those that fail somewhere.
type stoAgg struct {
	fails map[string]*stoFail           // key prefix + container -> failure
	ran   map[string]map[int64]*stoSets // container -> point -> what was run
	order []string
}

func newStoAgg() *stoAgg {
	return &stoAgg{fails: map[string]*stoFail{}, ran: map[string]map[int64]*stoSets{}}
}

func (fm form) cont() string {
	if fm.zeros != "" {
		return fm.container + "+" + fm.zeros
	}
	return fm.container
}

func (fm form) viewName() string {
	if fm.view == "" {
		return "whole"
	}
	return fm.view
}

func (a *stoAgg) run(fm form, pt int64) {
	c := fm.cont()
	if a.ran[c] == nil {
		a.ran[c] = map[int64]*stoSets{}
	}
	if a.ran[c][pt] == nil {
		a.ran[c][pt] = newStoSets()
	}
	a.ran[c][pt].elems[fm.elem] = true
	a.ran[c][pt].views[fm.viewName()] = true
}

func (a *stoAgg) fail(prefix string, fm form, what string, pt int64, cs Case) {
	k := prefix + "\x00" + fm.cont()
	e := a.fails[k]
	if e == nil {
		e = &stoFail{what: what, rank: pt, cs: cs, pts: map[int64]*stoSets{}}
		a.fails[k] = e
		a.order = append(a.order, k)
	}
	if e.pts[pt] == nil {
		e.pts[pt] = newStoSets()
	}
	e.pts[pt].elems[fm.elem] = true
	e.pts[pt].views[fm.viewName()] = true
}

func (a *stoAgg) flush(rp *reporter) {
	for _, k := range a.order {
		e := a.fails[k]
		parts := strings.SplitN(k, "\x00", 2)
		// "all": at every failing point everything that was run there fails, or everything that
		// was run anywhere fails somewhere
		allE, allV := true, true
		ue, uv := map[string]bool{}, map[string]bool{}
		for pt, f := range e.pts {
			r := a.ran[parts[1]][pt]
			allE = allE && len(f.elems) >= len(r.elems)
			allV = allV && len(f.views) >= len(r.views)
			for n := range f.elems {
				ue[n] = true
			}
			for n := range f.views {
				uv[n] = true
			}
		}
		re, rv := map[string]bool{}, map[string]bool{}
		for _, r := range a.ran[parts[1]] {
			for n := range r.elems {
				re[n] = true
			}
			for n := range r.views {
				rv[n] = true
			}
		}
		allE = allE || len(ue) >= len(re)
		allV = allV || len(uv) >= len(rv)
		fold := func(all bool, u map[string]bool) string {
			if all {
				return "all"
			}
			l := []string{}
			for n := range u {
				l = append(l, n)
			}
			sort.Strings(l)
			return strings.Join(l, "+")
		}
		key := parts[0] + "|" + parts[1]
		if !strings.HasSuffix(parts[1], "scalar") {
			key += "|view=" + fold(allV, uv)
		}
		key += "|elem=" + fold(allE, ue)
		rp.violate(key, e.what, e.rank, e.cs)
	}
}

// ---- the clause ---------------------------------------------------------------------------------------------

func evalCall(h string, call func(r Scalar) error) (out evalOut) {
	defer guard(&out)
	r := newResult(h)
	out.err = call(r)
	if out.err == nil {
		finish(&out, r, false, h)
	}
	return
}

func (rp *reporter) checkStorage(d Dist, rank int64) {
	c := rp.c
	f := fams[d.Fam]
	pc := ""
	if f.pclass != nil {
		pc = f.pclass(d)
	}
	for _, h := range holders {
		c.Guard(d.String()+"/"+h+"/storage", rank, Case{Dist: d, Holder: h, Clause: "storage"})
		b := safeBuild(func() (any, error) { return f.build(d, typeOf(h)) })
		if b.obj == nil || b.err != nil || b.pan != "" {
			continue // reported by the task that owns the point clauses
		}
		agg := newStoAgg()
		if f.kind == "scalar" {
			rp.storageScalar(f, d, h, b.obj, pc, rank, agg)
		} else {
			rp.storageMulti(f, d, h, b.obj, pc, rank, agg)
		}
		agg.flush(rp)
	}
}

// one evaluation with another storage, judged against the canonical one
func (rp *reporter) storageCase(f *family, d Dist, h, pc, region string, x []float64, base evalOut, fm form, call func(r Scalar) error, rank int64, agg *stoAgg) {
	c := rp.c
	ev := evalCall(h, call)
	c.Eval(1)
	c.Nontrivial(1)
	agg.run(fm, rank)
	c.Count("storage: cases, "+f.kind+" argument held as "+fm.cont(), 1)
	kind, bit := judgeStorage(base, ev)
	switch {
	case kind != "":
		c.Outcome(fmt.Sprintf("%s|storage|%s|%s", f.name, fm.class(), kind))
	case bit:
		c.Count("storage: same result, bit-identical", 1)
	case refused(ev) || refused(base):
		c.Count("storage: refused like the canonical storage (or -Inf there)", 1)
	default:
		c.Count("storage: same result within 1e-10 (1+|v|), not bit-identical", 1)
		c.Outcome(fmt.Sprintf("%s|storage|%s|within-tolerance", f.name, fm.class()))
	}
	if kind == "" {
		return
	}
	xs := fmt.Sprint(x)
	if f.kind == "scalar" {
		xs = fmtF(x[0])
	}
	agg.fail(key(f.name, h, "storage", kind, pc, region), fm,
		fmt.Sprintf("%s [%s parameters] LogPdf(x=%s): %s when the point is held as %s, %s as %s", d, h, xs, ev, fm, base, canonical(f, h)),
		rank, Case{Dist: d, Holder: h, Clause: "storage", X: fs(x...), Lib: ev.String(), Ref: base.String(), Form: fm.String()})
}

func canonical(f *family, h string) string {
	if f.kind == "scalar" {
		if h == "Real64" {
			return "scalar/Real64"
		}
		return "const-scalar/Float64"
	}
	return "dense/" + h
}

// The evaluations are ordered storage-major: first the canonical storage at every point, then, storage
// by storage, every point. Consecutive calls on the object therefore see DIFFERENT points, and a routine
// that skips a coordinate (and so reads what the previous call left in a scratch vector) cannot hide
// behind a preceding evaluation of the same point.

type stoPoint struct {
	x      []float64
	base   evalOut
	skip   bool // canonical storage panics
	region string
	rk     int64
}

func (rp *reporter) storageBases(f *family, d Dist, h string, obj any, xs [][]float64, regions []string, rank int64) []stoPoint {
	c := rp.c
	out := make([]stoPoint, len(xs))
	for i, x := range xs {
		base := evalPdf(obj, f, d, h, x, false)
		c.Eval(1)
		out[i] = stoPoint{x: x, base: base, region: regions[i], rk: rank + int64(i)}
		if base.pan != "" && base.rtErr {
			c.Count("storage: canonical storage panics (judged by the point clauses)", 1)
			out[i].skip = true
		}
	}
	return out
}

func (rp *reporter) storageScalar(f *family, d Dist, h string, obj any, pc string, rank int64, agg *stoAgg) {
	sp := f.sup(d)
	pdf := obj.(st.ScalarPdf)
	xs, regions := [][]float64{}, []string{}
	for _, p := range pointsFor(f, d, sp, rp.th) {
		xs = append(xs, []float64{p.x})
		regions = append(regions, coarse(p.region))
	}
	pts := rp.storageBases(f, d, h, obj, xs, regions, rank)
	for _, et := range elemTypes {
		if et.name == "Real64" && h == "Real64" {
			continue // the canonical storage
		}
		for _, p := range pts {
			if p.skip || !et.fits(p.x[0]) {
				continue
			}
			a := NewScalar(et.t, p.x[0])
			rp.storageCase(f, d, h, pc, p.region+",scalar", p.x, p.base, form{container: "scalar", elem: et.name},
				func(r Scalar) error { return pdf.LogPdf(r, a) }, p.rk, agg)
		}
	}
	for _, ct := range constTypes {
		if ct.name == "Float64" && h == "Float64" {
			continue // the canonical storage
		}
		for _, p := range pts {
			if p.skip || !ct.fits(p.x[0]) {
				continue
			}
			a := ct.scalar(p.x[0])
			rp.storageCase(f, d, h, pc, p.region+",const-scalar", p.x, p.base, form{container: "const-scalar", elem: ct.name},
				func(r Scalar) error { return pdf.LogPdf(r, a) }, p.rk, agg)
		}
	}
}

var vecViews = []string{"whole", "slice-of-longer"}
var matViews = []string{"whole", "transposed", "submatrix", "transposed-submatrix"}
var niwViews = [][2]string{{"whole", "whole"}, {"slice-of-longer", "submatrix"}, {"whole", "transposed"}, {"slice-of-longer", "transposed-submatrix"}}
var sparseZeros = []string{"zeros-absent", "zeros-explicit"}

func (rp *reporter) storageMulti(f *family, d Dist, h string, obj any, pc string, rank int64, agg *stoAgg) {
	c := rp.c
	elems := containerElems(rp.th)
	consts := containerConsts(rp.th)
	xs := stoPoints(f, d, rp.th)
	regions := make([]string, len(xs))
	for i, x := range xs {
		if hasZero(x) {
			regions[i] = "x-with-zero"
			c.Count("storage: points with a zero coordinate", 1)
		} else {
			regions[i] = "x-without-zero"
			c.Count("storage: points without a zero coordinate", 1)
		}
	}
	pts := rp.storageBases(f, d, h, obj, xs, regions, rank)
	notHeld := func(fm form) {
		c.Count("storage: container does not hold the point after construction (not judged): "+fm.String(), 1)
	}
	containers := [][2]string{{"dense", ""}, {"sparse", "zeros-absent"}, {"sparse", "zeros-explicit"}}
	// applicable: the storage is distinct from others of the enumeration and can hold the point
	applicable := func(p stoPoint, fits func(float64) bool, zeros string) bool {
		if p.skip || !allFit(fits, p.x) {
			return false
		}
		return zeros != "zeros-explicit" || p.region == "x-with-zero" // no zero coordinate: the same container as zeros-absent
	}
	switch f.kind {
	case "vector":
		pdf := obj.(st.VectorPdf)
		for _, cz := range containers {
			for _, view := range vecViews {
				for _, et := range elems {
					if cz[0] == "dense" && view == "whole" && et.name == h {
						continue // the canonical storage
					}
					fm := form{container: cz[0], zeros: cz[1], view: view, elem: et.name}
					for _, p := range pts {
						if !applicable(p, et.fits, cz[1]) {
							continue
						}
						v := safeVec(func() ConstVector { return vecIn(et.t, cz[0], cz[1], view, p.x) })
						if v == nil || !holdsVec(v, p.x) {
							notHeld(fm)
							continue
						}
						rp.storageCase(f, d, h, pc, p.region, p.x, p.base, fm, func(r Scalar) error { return pdf.LogPdf(r, v) }, p.rk, agg)
					}
				}
			}
		}
		for _, z := range sparseZeros {
			for _, view := range vecViews {
				for _, ct := range consts {
					fm := form{container: "sparseconst", zeros: z, view: view, elem: ct.name}
					for _, p := range pts {
						if !applicable(p, ct.fits, z) {
							continue
						}
						v := safeVec(func() ConstVector { return constVecIn(ct, z, view, p.x) })
						if v == nil || !holdsVec(v, p.x) {
							notHeld(fm)
							continue
						}
						rp.storageCase(f, d, h, pc, p.region, p.x, p.base, fm, func(r Scalar) error { return pdf.LogPdf(r, v) }, p.rk, agg)
					}
				}
			}
		}
	case "matrix":
		pdf := obj.(st.MatrixPdf)
		n, m := f.dims(d)
		for _, cz := range containers {
			for _, view := range matViews {
				for _, et := range elems {
					if cz[0] == "dense" && view == "whole" && et.name == h {
						continue
					}
					fm := form{container: cz[0], zeros: cz[1], view: view, elem: et.name}
					for _, p := range pts {
						if !applicable(p, et.fits, cz[1]) || len(p.x) != n*m {
							continue
						}
						a := safeMat(func() Matrix { return matIn(et.t, cz[0], cz[1], view, p.x, n, m) })
						if a == nil || !holdsMat(a, p.x, n, m) {
							notHeld(fm)
							continue
						}
						rp.storageCase(f, d, h, pc, p.region, p.x, p.base, fm, func(r Scalar) error { return pdf.LogPdf(r, a) }, p.rk, agg)
					}
				}
			}
		}
	case "niw":
		pdf := obj.(*md.NormalIWishartDistribution)
		q, _ := f.dims(d)
		for _, cz := range containers {
			for _, vw := range niwViews {
				for _, et := range elems {
					if cz[0] == "dense" && vw[1] == "whole" && et.name == h {
						continue
					}
					fm := form{container: cz[0], zeros: cz[1], view: vw[0] + "+" + vw[1], elem: et.name}
					if vw[1] == "whole" {
						fm.view = "whole"
					}
					for _, p := range pts {
						if !applicable(p, et.fits, cz[1]) || len(p.x) != q+q*q {
							continue
						}
						v := safeVec(func() ConstVector { return vecIn(et.t, cz[0], cz[1], vw[0], p.x[:q]) })
						a := safeMat(func() Matrix { return matIn(et.t, cz[0], cz[1], vw[1], p.x[q:], q, q) })
						if v == nil || a == nil || !holdsVec(v, p.x[:q]) || !holdsMat(a, p.x[q:], q, q) {
							notHeld(fm)
							continue
						}
						rp.storageCase(f, d, h, pc, p.region, p.x, p.base, fm, func(r Scalar) error { return pdf.LogPdf(r, v.(Vector), a) }, p.rk, agg)
					}
				}
			}
		}
	}
}

func safeVec(mk func() ConstVector) (v ConstVector) {
	defer func() {
		if recover() != nil {
			v = nil
		}
	}()
	return mk()
}

func safeMat(mk func() Matrix) (a Matrix) {
	defer func() {
		if recover() != nil {
			a = nil
		}
	}()
	return mk()
}
