package main

import (
	"fmt"
	"math"

	. "github.com/pbenner/autodiff"
	st "github.com/pbenner/autodiff/statistics"
	md "github.com/pbenner/autodiff/statistics/matrixDistribution"
	sd "github.com/pbenner/autodiff/statistics/scalarDistribution"
	vd "github.com/pbenner/autodiff/statistics/vectorDistribution"
)

func buildAny(d Dist, t ScalarType) (any, error) {
	f := fams[d.Fam]
	if f == nil {
		return nil, fmt.Errorf("harness: unknown family %q", d.Fam)
	}
	// a nested instance: its constructor arguments are not arguments of the outer constructor
	if arec != nil {
		arec.depth++
	}
	o, err := f.build(d, t)
	if arec != nil {
		arec.depth--
		if arec.depth == 0 && err == nil && o != nil {
			arec.nested = append(arec.nested, nestedObj{obj: o, d: d})
		}
	}
	return o, err
}

func buildScalar(d Dist, t ScalarType) (st.ScalarPdf, error) {
	o, err := buildAny(d, t)
	if err != nil {
		return nil, err
	}
	return o.(st.ScalarPdf), nil
}

func buildVector(d Dist, t ScalarType) (st.VectorPdf, error) {
	o, err := buildAny(d, t)
	if err != nil {
		return nil, err
	}
	return o.(st.VectorPdf), nil
}

func D(fam string, p ...float64) Dist { return Dist{Fam: fam, P: fs(p...)} }
func W(fam string, p []float64, sub ...Dist) Dist {
	return Dist{Fam: fam, P: fs(p...), Sub: sub}
}

// vecOf / matOf / argS build the Scalar, Vector and Matrix arguments of every constructor call of
// the harness; while an argument recorder is active (alias.go) the objects are remembered.
func vecOf(t ScalarType, v []float64) Vector {
	r := AsDenseVector(recType(t), NewDenseFloat64Vector(v))
	recordArg(&argObj{kind: "Vector", v: r, cols: 1, handed: append([]float64{}, v...)})
	return r
}
func matOf(t ScalarType, v []float64, n, m int) Matrix {
	r := AsDenseMatrix(recType(t), NewDenseFloat64Matrix(v, n, m))
	recordArg(&argObj{kind: "Matrix", m: r, cols: m, handed: append([]float64{}, v...)})
	return r
}
func argS(t ScalarType, v float64) Scalar {
	r := NewScalar(recType(t), v)
	recordArg(&argObj{kind: "Scalar", s: r, cols: 1, handed: []float64{v}})
	return r
}

// ---- small dense helpers for the reference side (d <= 2) ------------------------

// spd returns log|S| and S^-1 for a symmetric positive definite d x d matrix (row-major), d in {1,2}.
func spd(s []float64, d int) (logdet float64, inv []float64, ok bool) {
	if d == 1 {
		if !(s[0] > 0) {
			return 0, nil, false
		}
		return math.Log(s[0]), []float64{1 / s[0]}, true
	}
	a, b, c, e := s[0], s[1], s[2], s[3]
	det := a*e - b*c
	if b != c || !(a > 0) || !(det > 0) {
		return 0, nil, false
	}
	return math.Log(det), []float64{e / det, -b / det, -c / det, a / det}, true
}

func quadForm(inv []float64, y []float64) float64 {
	d := len(y)
	q := 0.0
	for i := 0; i < d; i++ {
		for j := 0; j < d; j++ {
			q += y[i] * inv[i*d+j] * y[j]
		}
	}
	return q
}

// lower Cholesky factor of a d x d SPD matrix, d <= 2
func chol(s []float64, d int) []float64 {
	if d == 1 {
		return []float64{math.Sqrt(s[0])}
	}
	l11 := math.Sqrt(s[0])
	l21 := s[2] / l11
	l22 := math.Sqrt(s[3] - l21*l21)
	return []float64{l11, 0, l21, l22}
}

func mvnRef(mu, sigma, x []float64) rv {
	d := len(mu)
	ld, inv, ok := spd(sigma, d)
	if !ok {
		return rv{nan, 0}
	}
	y := make([]float64, d)
	for i := range y {
		y[i] = x[i] - mu[i]
		if math.IsInf(x[i], 0) {
			return outside()
		}
	}
	a := acc{}
	a.add(-0.5 * float64(d) * math.Log(2*math.Pi))
	a.add(-0.5 * ld)
	a.add(-0.5 * quadForm(inv, y))
	return a.rv()
}

func lmvgamma(a float64, p int) float64 {
	r := float64(p*(p-1)) / 4 * math.Log(math.Pi)
	for j := 1; j <= p; j++ {
		r += lgamma(a + float64(1-j)/2)
	}
	return r
}

func iwRef(nu float64, s, x []float64, p int) rv {
	lds, _, ok := spd(s, p)
	if !ok {
		return rv{nan, 0}
	}
	ldx, xinv, ok := spd(x, p)
	if !ok {
		return outside()
	}
	tr := 0.0
	for i := 0; i < p; i++ {
		for j := 0; j < p; j++ {
			tr += s[i*p+j] * xinv[j*p+i]
		}
	}
	a := acc{}
	a.add(nu / 2 * lds)
	a.add(-nu * float64(p) / 2 * math.Log(2))
	a.add(-lmvgamma(nu/2, p))
	a.add(-(nu + float64(p) + 1) / 2 * ldx)
	a.add(-tr / 2)
	return a.rv()
}

// dimension d from a parameter count n = a*d + d*d + extra
func dimFrom(n, a, extra int) int {
	for d := 1; d <= 4; d++ {
		if a*d+d*d+extra == n {
			return d
		}
	}
	return -1
}

// small absolute point sets for d-dimensional arguments
func gridV(d int, vals []float64) [][]float64 {
	out := [][]float64{}
	if d == 1 {
		for _, v := range vals {
			out = append(out, []float64{v})
		}
		return out
	}
	for _, a := range vals {
		for _, b := range vals {
			out = append(out, []float64{a, b})
		}
	}
	return out
}

// fixed 2-D / 1-D node sets for elliptical families: x = mu + L z
func ellipticNodes(mu, sigma []float64, th bool) ([][]float64, []float64) {
	d := len(mu)
	L := chol(sigma, d)
	q := q2(th)
	n1 := nodes1(support{lo: ninf, hi: pinf, c: 0, s: 1}, q)
	pts := [][]float64{}
	ws := []float64{}
	if d == 1 {
		for _, a := range n1 {
			pts = append(pts, []float64{mu[0] + L[0]*a.x})
			ws = append(ws, a.w*L[0])
		}
		return pts, ws
	}
	det := L[0] * L[3]
	for _, a := range n1 {
		for _, b := range n1 {
			pts = append(pts, []float64{mu[0] + L[0]*a.x, mu[1] + L[2]*a.x + L[3]*b.x})
			ws = append(ws, a.w*b.w*det)
		}
	}
	return pts, ws
}

func q1(th bool) qres {
	if th {
		return qres{Y: 690, h: 0.5, n: 10}
	}
	return qres{Y: 690, h: 1, n: 12}
}
func q2(th bool) qres {
	if th {
		return qres{Y: 30, h: 0.5, n: 8}
	}
	return qres{Y: 20, h: 1, n: 8}
}
func q3(th bool) qres {
	if th {
		return qres{Y: 20, h: 1, n: 6}
	}
	return qres{Y: 16, h: 2, n: 6}
}

// a few representative scalar points of a scalar instance (for product families)
func fewPoints(d Dist) []float64 {
	f := fams[d.Fam]
	sp := f.sup(d)
	if sp.discrete {
		return []float64{0, 1, 3, -1, 0.5}
	}
	r := []float64{sp.c, sp.c + sp.s, sp.c - 0.5*sp.s, sp.c + 10*sp.s}
	if !math.IsInf(sp.lo, -1) {
		r = append(r, sp.lo-sp.s)
	} else {
		r = append(r, sp.c-20*sp.s)
	}
	return r
}

func init() {
	S := argS // constructor arguments are created through the argument recorder (alias.go)
	N01 := D("normal", 0, 1)
	N32 := D("normal", 3, 0.5)
	G21 := D("gamma", 2, 1)
	E2 := D("exponential", 2)
	C01 := D("cauchy", 0, 1)
	P3 := D("poisson", 3)
	B5 := D("binomial", 0.25, 5)
	subRef := func(d Dist, x float64) rv { return fams[d.Fam].ref(d, x) }
	subSup := func(d Dist) support { return fams[d.Fam].sup(d) }

	// ---- pdf log transform(pseudocount c; inner): density of Y with log(Y+c) ~ inner ------------
	reg(&family{name: "logtransform", pNotParam: true, pnames: []string{"pseudocount"},
		build: func(d Dist, t ScalarType) (any, error) {
			in, err := buildScalar(d.Sub[0], t)
			if err != nil {
				return nil, fmt.Errorf("harness: inner: %v", err)
			}
			return wrap(sd.NewPdfLogTransform(in, d.p(0)))
		},
		fresh: func() any { return new(sd.PdfLogTransform) },
		ref: func(d Dist, x float64) rv {
			if !(x+d.p(0) > 0) || math.IsInf(x, 0) {
				return outside()
			}
			y := math.Log(x + d.p(0))
			r := subRef(d.Sub[0], y)
			if math.IsInf(r.v, -1) {
				return outside()
			}
			return rv{r.v - y, r.s + math.Abs(y)}
		},
		sup: func(d Dist) support {
			in := subSup(d.Sub[0])
			c := d.p(0)
			sp := support{lo: math.Exp(in.lo) - c, hi: math.Exp(in.hi) - c, kmax: -1}
			sp.c = math.Exp(in.c) - c
			sp.s = math.Exp(in.c) * math.Expm1(math.Min(in.s, 3))
			sp.loExact = math.IsInf(in.lo, -1) // lo = -c exactly
			sp.hiExact = math.IsInf(in.hi, 1)
			return sp
		},
		pclass: func(d Dist) string {
			switch c := d.p(0); {
			case c == 0:
				return "c=0"
			case c > 0:
				return "c>0"
			}
			return "c<0"
		},
		valid: func(th bool) []Dist {
			r := []Dist{}
			for _, c := range pick(th, vv(0, 1), vv(0, 1, 0.5, -0.5)) {
				for _, in := range []Dist{N01, D("normal", 2, 3), G21} {
					r = append(r, W("logtransform", vv(c), in))
				}
			}
			return r
		},
		invalid: func() []inval {
			return nil
		},
	})

	// ---- pdf translation(c; inner): LogPdf(x) = inner(x + c), i.e. Y = X - c -----------------------
	reg(&family{name: "translation", pNotParam: true, pnames: []string{"c"},
		build: func(d Dist, t ScalarType) (any, error) {
			in, err := buildScalar(d.Sub[0], t)
			if err != nil {
				return nil, fmt.Errorf("harness: inner: %v", err)
			}
			return wrap(sd.NewPdfTranslation(in, d.p(0)))
		},
		fresh: func() any { return new(sd.PdfTranslation) },
		ref: func(d Dist, x float64) rv {
			if math.IsInf(x, 0) {
				return outside()
			}
			return subRef(d.Sub[0], x+d.p(0))
		},
		sup: func(d Dist) support {
			in := subSup(d.Sub[0])
			c := d.p(0)
			sp := in
			sp.lo, sp.hi, sp.c = in.lo-c, in.hi-c, in.c-c
			if c != 0 {
				sp.loExact = math.IsInf(in.lo, -1)
				sp.hiExact = math.IsInf(in.hi, 1)
			}
			if in.discrete && !isInt(c) {
				sp.discrete = false // not on the integer lattice: use the continuous point set, no summation
			}
			return sp
		},
		valid: func(th bool) []Dist {
			r := []Dist{}
			for _, c := range pick(th, vv(0, 1, -2.5), vv(0, 1, -2.5, 100)) {
				for _, in := range []Dist{N01, G21, E2, D("beta", 2, 3)} {
					r = append(r, W("translation", vv(c), in))
				}
			}
			for _, c := range vv(0, 2, -3) {
				r = append(r, W("translation", vv(c), P3))
			}
			return r
		},
		invalid: func() []inval {
			return nil
		},
	})

	// ---- mixture(weights; components): weights are normalised by the constructor ---------------------
	reg(&family{name: "mixture", pnames: []string{"w0", "w1", "w2"},
		build: func(d Dist, t ScalarType) (any, error) {
			ed := make([]st.ScalarPdf, len(d.Sub))
			for i := range d.Sub {
				in, err := buildScalar(d.Sub[i], t)
				if err != nil {
					return nil, fmt.Errorf("harness: inner: %v", err)
				}
				ed[i] = in
			}
			return wrap(sd.NewMixture(vecOf(t, f64s(d.P)), ed))
		},
		fresh: func() any { return new(sd.Mixture) },
		ref: func(d Dist, x float64) rv {
			tot := 0.0
			for i := range d.P {
				tot += d.p(i)
			}
			terms := []float64{}
			s := 0.0
			for i := range d.Sub {
				if d.p(i) == 0 {
					continue
				}
				r := subRef(d.Sub[i], x)
				terms = append(terms, math.Log(d.p(i)/tot)+r.v)
				if !math.IsInf(r.s, 0) && !math.IsInf(r.v, 0) {
					s = math.Max(s, r.s+math.Abs(math.Log(d.p(i)/tot)))
				}
			}
			v := logsumexp(terms)
			return rv{v, s + math.Abs(v)}
		},
		sup: func(d Dist) support {
			sp := subSup(d.Sub[0])
			for i := 1; i < len(d.Sub); i++ {
				o := subSup(d.Sub[i])
				if o.lo < sp.lo {
					sp.lo, sp.loExact = o.lo, o.loExact
				}
				if o.hi > sp.hi {
					sp.hi, sp.hiExact = o.hi, o.hiExact
				}
				sp.s = math.Max(sp.s, o.s)
				if o.kmax < 0 || (sp.kmax >= 0 && o.kmax > sp.kmax) {
					sp.kmax = o.kmax
				}
				sp.discrete = sp.discrete && o.discrete
			}
			return sp
		},
		approxRT: true,
		valid: func(th bool) []Dist {
			r := []Dist{
				W("mixture", vv(1), N01),
				W("mixture", vv(0.5, 0.5), N01, N32),
				W("mixture", vv(1, 3), N01, N32),
				W("mixture", vv(0.25, 0.75), G21, E2),
				W("mixture", vv(0.25, 0, 0.75), N01, C01, N32),
				W("mixture", vv(0.5, 0.5), P3, B5),
			}
			if th {
				r = append(r, W("mixture", vv(0.5, 0.25, 0.25), N01, G21, C01), W("mixture", vv(2, 2), P3, D("poisson", 30)),
					W("mixture", vv(1e-6, 1), N01, N32))
			}
			return r
		},
		invalid: func() []inval {
			return []inval{
				{d: W("mixture", vv(-0.5, 1.5), N01, N32), class: "weight<0"},
				{d: W("mixture", vv(nan, 1), N01, N32), class: "weight=NaN"},
				{d: W("mixture", vv(0, 0), N01, N32), class: "weights-all-zero"},
				{d: W("mixture", vv(0.5, 0.5), N01), class: "wrong-dimension"},
			}
		},
	})

	// =================== vector families ==============================================================
	absGrid := func(th bool) []float64 { return pick(th, vv(0, 0.5, -1, 3, -10), vv(0, 0.5, -1, 3, -10, 1e3, -1e-8)) }
	covs1 := [][]float64{{1}, {0.25}, {4}}
	covs2 := [][]float64{{1, 0, 0, 1}, {1, 0.5, 0.5, 1}, {2, -0.5, -0.5, 0.25}, {4, 1.5, 1.5, 1}}
	mus := func(d int, th bool) [][]float64 {
		if d == 1 {
			return [][]float64{{0}, {-1.5}}
		}
		if th {
			return [][]float64{{0, 0}, {1, -2}, {100, 0.5}}
		}
		return [][]float64{{0, 0}, {1, -2}}
	}
	cat := func(v ...[]float64) []float64 {
		r := []float64{}
		for _, x := range v {
			r = append(r, x...)
		}
		return r
	}
	badCov2 := map[string][]float64{"sigma-indefinite": {1, 2, 2, 1}, "sigma-singular": {1, 1, 1, 1}, "sigma-zero": {0, 0, 0, 0}, "sigma-negative": {-1, 0, 0, -1}, "sigma=NaN": {nan, 0, 0, 1}}
	badOrder := []string{"sigma-indefinite", "sigma-singular", "sigma-zero", "sigma-negative", "sigma=NaN"}

	// ---- vector normal(mu, Sigma): P = mu ++ Sigma (row-major) -----------------------------------------
	reg(&family{name: "vnormal", kind: "vector",
		build: func(d Dist, t ScalarType) (any, error) {
			n := dimFrom(len(d.P), 1, 0)
			p := f64s(d.P)
			return wrap(vd.NewNormalDistribution(vecOf(t, p[:n]), matOf(t, p[n:], n, n)))
		},
		fresh: func() any { return new(vd.NormalDistribution) },
		dims:  func(d Dist) (int, int) { return dimFrom(len(d.P), 1, 0), 1 },
		refV: func(d Dist, x []float64) rv {
			n := dimFrom(len(d.P), 1, 0)
			p := f64s(d.P)
			return mvnRef(p[:n], p[n:], x)
		},
		ptsV: func(d Dist, th bool) [][]float64 { return gridV(dimFrom(len(d.P), 1, 0), absGrid(th)) },
		nodesV: func(d Dist, th bool) ([][]float64, []float64) {
			n := dimFrom(len(d.P), 1, 0)
			p := f64s(d.P)
			return ellipticNodes(p[:n], p[n:], th)
		},
		pclass: func(d Dist) string { return fmt.Sprintf("d=%d", dimFrom(len(d.P), 1, 0)) },
		valid: func(th bool) []Dist {
			r := []Dist{}
			for _, m := range mus(1, th) {
				for _, c := range covs1 {
					r = append(r, D("vnormal", cat(m, c)...))
				}
			}
			for _, m := range mus(2, th) {
				for _, c := range covs2 {
					r = append(r, D("vnormal", cat(m, c)...))
				}
			}
			return r
		},
		invalid: func() []inval {
			r := []inval{}
			for _, k := range badOrder {
				r = append(r, inval{d: D("vnormal", cat(vv(0, 0), badCov2[k])...), class: k})
			}
			r = append(r, inval{d: D("vnormal", 0, 0, 1), class: "wrong-dimension", mk: func(t ScalarType) (any, error) {
				return wrap(vd.NewNormalDistribution(vecOf(t, vv(0, 0)), matOf(t, vv(1), 1, 1)))
			}})
			r = append(r, inval{d: D("vnormal", 0, 0, 1, 0, 0, 1, 0, 0), class: "sigma-not-square", mk: func(t ScalarType) (any, error) {
				return wrap(vd.NewNormalDistribution(vecOf(t, vv(0, 0)), matOf(t, vv(1, 0, 0, 1, 0, 0), 2, 3)))
			}})
			return r
		},
	})

	// ---- vector t(nu, mu, Sigma): P = [nu] ++ mu ++ Sigma -------------------------------------------------
	reg(&family{name: "vt", kind: "vector",
		build: func(d Dist, t ScalarType) (any, error) {
			n := dimFrom(len(d.P), 1, 1)
			p := f64s(d.P)
			return wrap(vd.NewTDistribution(S(t, p[0]), vecOf(t, p[1:1+n]), matOf(t, p[1+n:], n, n)))
		},
		fresh: func() any { return new(vd.TDistribution) },
		dims:  func(d Dist) (int, int) { return dimFrom(len(d.P), 1, 1), 1 },
		refV: func(d Dist, x []float64) rv {
			n := dimFrom(len(d.P), 1, 1)
			p := f64s(d.P)
			nu, mu, sg := p[0], p[1:1+n], p[1+n:]
			ld, inv, ok := spd(sg, n)
			if !ok {
				return rv{nan, 0}
			}
			y := make([]float64, n)
			for i := range y {
				y[i] = x[i] - mu[i]
				if math.IsInf(x[i], 0) {
					return outside()
				}
			}
			a := acc{}
			a.add(lgamma((nu + float64(n)) / 2))
			a.add(-lgamma(nu / 2))
			a.add(-float64(n) / 2 * math.Log(nu*math.Pi))
			a.add(-0.5 * ld)
			a.add(-(nu + float64(n)) / 2 * math.Log1p(quadForm(inv, y)/nu))
			return a.rv()
		},
		ptsV: func(d Dist, th bool) [][]float64 { return gridV(dimFrom(len(d.P), 1, 1), absGrid(th)) },
		nodesV: func(d Dist, th bool) ([][]float64, []float64) {
			n := dimFrom(len(d.P), 1, 1)
			p := f64s(d.P)
			return ellipticNodes(p[1:1+n], p[1+n:], th)
		},
		pclass: func(d Dist) string { return fmt.Sprintf("d=%d", dimFrom(len(d.P), 1, 1)) },
		valid: func(th bool) []Dist {
			r := []Dist{}
			for _, nu := range pick(th, vv(3, 1), vv(3, 1, 0.5, 30)) {
				for _, m := range mus(1, th) {
					for _, c := range covs1[:2] {
						r = append(r, D("vt", cat(vv(nu), m, c)...))
					}
				}
				for _, m := range mus(2, th)[:2] {
					for ci, c := range covs2[:3] {
						if !th && ci > 0 && m[0] != 0 {
							continue
						}
						r = append(r, D("vt", cat(vv(nu), m, c)...))
					}
				}
			}
			return r
		},
		invalid: func() []inval {
			r := []inval{}
			for _, k := range badOrder {
				r = append(r, inval{d: D("vt", cat(vv(3, 0, 0), badCov2[k])...), class: k})
			}
			r = append(r, inval{d: D("vt", 0, 0, 0, 1, 0, 0, 1), class: "nu=0"}, inval{d: D("vt", -1, 0, 0, 1, 0, 0, 1), class: "nu<0"},
				inval{d: D("vt", nan, 0, 0, 1, 0, 0, 1), class: "nu=NaN"})
			r = append(r, inval{d: D("vt", 3, 0, 0, 1), class: "wrong-dimension", mk: func(t ScalarType) (any, error) {
				return wrap(vd.NewTDistribution(S(t, 3), vecOf(t, vv(0, 0)), matOf(t, vv(1), 1, 1)))
			}})
			return r
		},
	})

	// ---- skew normal(xi, Omega, alpha, scale), Azzalini & Dalla Valle (cited in the source):
	//      2 phi_d(x - xi; w Omega w) Phi(alpha' w^-1 (x - xi)), w = diag(scale) -------------------------------
	snSplit := func(d Dist) (n int, xi, om, al, sc []float64) {
		n = dimFrom(len(d.P), 3, 0)
		p := f64s(d.P)
		return n, p[:n], p[n : n+n*n], p[n+n*n : 2*n+n*n], p[2*n+n*n:]
	}
	snKappa := func(n int, om, sc []float64) []float64 {
		k := make([]float64, n*n)
		for i := 0; i < n; i++ {
			for j := 0; j < n; j++ {
				k[i*n+j] = sc[i] * sc[j] * om[i*n+j]
			}
		}
		return k
	}
	reg(&family{name: "vskewnormal", kind: "vector",
		build: func(d Dist, t ScalarType) (any, error) {
			n, xi, om, al, sc := snSplit(d)
			return wrap(vd.NewSkewNormalDistribution(vecOf(t, xi), matOf(t, om, n, n), vecOf(t, al), vecOf(t, sc)))
		},
		fresh: func() any { return new(vd.SkewNormalDistribution) },
		dims:  func(d Dist) (int, int) { return dimFrom(len(d.P), 3, 0), 1 },
		refV: func(d Dist, x []float64) rv {
			n, xi, om, al, sc := snSplit(d)
			r := mvnRef(xi, snKappa(n, om, sc), x)
			if math.IsInf(r.v, -1) || math.IsNaN(r.v) {
				return r
			}
			t := 0.0
			for i := 0; i < n; i++ {
				t += al[i] * (x[i] - xi[i]) / sc[i]
			}
			lp := logPhi(t)
			return rv{r.v + math.Ln2 + lp, r.s + math.Ln2 + math.Abs(lp)}
		},
		ptsV: func(d Dist, th bool) [][]float64 { return gridV(dimFrom(len(d.P), 3, 0), absGrid(th)) },
		nodesV: func(d Dist, th bool) ([][]float64, []float64) {
			n, xi, om, _, sc := snSplit(d)
			return ellipticNodes(xi, snKappa(n, om, sc), th)
		},
		pclass: func(d Dist) string { return fmt.Sprintf("d=%d", dimFrom(len(d.P), 3, 0)) },
		valid: func(th bool) []Dist {
			r := []Dist{}
			for _, al := range pick(th, vv(0, 2), vv(0, 2, -5)) {
				for _, sc := range vv(1, 0.5) {
					r = append(r, D("vskewnormal", 0, 1, al, sc), D("vskewnormal", -1.5, 1, al, sc))
				}
			}
			for ai, al := range [][]float64{{0, 0}, {2, -1}, {-3, 4}} {
				for oi, om := range [][]float64{{1, 0, 0, 1}, {1, 0.5, 0.5, 1}} {
					for si, sc := range [][]float64{{1, 1}, {0.5, 2}} {
						if !th && (ai+oi+si)%2 == 1 {
							continue
						}
						r = append(r, D("vskewnormal", cat(vv(1, -2), om, al, sc)...))
					}
				}
			}
			return r
		},
		invalid: func() []inval {
			r := []inval{}
			for _, k := range badOrder {
				r = append(r, inval{d: D("vskewnormal", cat(vv(0, 0), badCov2[k], vv(1, 1), vv(1, 1))...), class: "omega" + k[5:]})
			}
			r = append(r, inval{d: D("vskewnormal", 0, 1, 1, 0), class: "scale=0"}, inval{d: D("vskewnormal", 0, 1, 1, -1), class: "scale<0"},
				inval{d: D("vskewnormal", 0, 1, 1, nan), class: "scale=NaN"})
			r = append(r, inval{d: D("vskewnormal", 0, 0, 1, 1, 1), class: "wrong-dimension", mk: func(t ScalarType) (any, error) {
				return wrap(vd.NewSkewNormalDistribution(vecOf(t, vv(0, 0)), matOf(t, vv(1, 0, 0, 1), 2, 2), vecOf(t, vv(1)), vecOf(t, vv(1, 1))))
			}})
			return r
		},
	})

	// ---- product wrappers ------------------------------------------------------------------------------------
	prodRef := func(subs []Dist, x []float64) rv {
		a := acc{}
		for i, s := range subs {
			r := subRef(s, x[i])
			a.v += r.v
			a.s += r.s
		}
		return a.rv()
	}
	prodPts := func(subs []Dist) [][]float64 {
		out := [][]float64{{}}
		for _, s := range subs {
			nx := [][]float64{}
			for _, o := range out {
				for _, p := range fewPoints(s) {
					nx = append(nx, append(append([]float64{}, o...), p))
				}
			}
			out = nx
		}
		return out
	}
	prodNodes := func(subs []Dist, th bool) ([][]float64, []float64) {
		if len(subs) > 2 || len(subs) == 0 {
			return nil, nil
		}
		sets := [][]node{}
		for _, s := range subs {
			sp := subSup(s)
			if sp.discrete {
				ns := []node{}
				for k := 0; k <= 400 && (sp.kmax < 0 || k <= sp.kmax); k++ {
					ns = append(ns, node{float64(k), 1})
				}
				sets = append(sets, ns)
			} else {
				q := q2(th)
				if len(subs) == 1 {
					q = q1(th)
				}
				sets = append(sets, nodes1(sp, q))
			}
		}
		pts, ws := [][]float64{}, []float64{}
		if len(sets) == 1 {
			for _, a := range sets[0] {
				pts = append(pts, []float64{a.x})
				ws = append(ws, a.w)
			}
			return pts, ws
		}
		for _, a := range sets[0] {
			for _, b := range sets[1] {
				pts = append(pts, []float64{a.x, b.x})
				ws = append(ws, a.w*b.w)
			}
		}
		return pts, ws
	}
	rep := func(d Dist, n int) []Dist {
		r := make([]Dist, n)
		for i := range r {
			r[i] = d
		}
		return r
	}
	// scalar iid(inner, n): n = -1 means "any length" (the LogPdf dimension test spells this out)
	iidN := func(d Dist, xlen int) int {
		n := int(d.p(0))
		if n == -1 {
			return xlen
		}
		return n
	}
	reg(&family{name: "scalariid", pNotParam: true, kind: "vector", pnames: []string{"n"},
		build: func(d Dist, t ScalarType) (any, error) {
			in, err := buildScalar(d.Sub[0], t)
			if err != nil {
				return nil, fmt.Errorf("harness: inner: %v", err)
			}
			return wrap(vd.NewScalarIid(in, int(d.p(0))))
		},
		fresh: func() any { return new(vd.ScalarIid) },
		dims: func(d Dist) (int, int) {
			if int(d.p(0)) == -1 {
				return 2, 1
			}
			return int(d.p(0)), 1
		},
		refV: func(d Dist, x []float64) rv { return prodRef(rep(d.Sub[0], iidN(d, len(x))), x) },
		ptsV: func(d Dist, th bool) [][]float64 {
			n, _ := fams["scalariid"].dims(d)
			return prodPts(rep(d.Sub[0], n))
		},
		nodesV: func(d Dist, th bool) ([][]float64, []float64) {
			n, _ := fams["scalariid"].dims(d)
			return prodNodes(rep(d.Sub[0], n), th)
		},
		pclass: func(d Dist) string {
			if d.p(0) == -1 {
				return "n=-1"
			}
			return ""
		},
		valid: func(th bool) []Dist {
			r := []Dist{}
			for _, in := range []Dist{N01, G21, P3} {
				for _, n := range vv(1, 2, 3, 0, -1) {
					r = append(r, W("scalariid", vv(n), in))
				}
			}
			return r
		},
		invalid: func() []inval {
			return []inval{{d: W("scalariid", vv(-2), N01), class: "n<-1"}}
		},
	})
	reg(&family{name: "scalarid", kind: "vector",
		build: func(d Dist, t ScalarType) (any, error) {
			ins := []st.ScalarPdf{}
			for _, s := range d.Sub {
				in, err := buildScalar(s, t)
				if err != nil {
					return nil, fmt.Errorf("harness: inner: %v", err)
				}
				ins = append(ins, in)
			}
			return wrap(vd.NewScalarId(ins...))
		},
		fresh:  func() any { return new(vd.ScalarId) },
		dims:   func(d Dist) (int, int) { return len(d.Sub), 1 },
		refV:   func(d Dist, x []float64) rv { return prodRef(d.Sub, x) },
		ptsV:   func(d Dist, th bool) [][]float64 { return prodPts(d.Sub) },
		nodesV: func(d Dist, th bool) ([][]float64, []float64) { return prodNodes(d.Sub, th) },
		valid: func(th bool) []Dist {
			return []Dist{W("scalarid", nil, N01), W("scalarid", nil, N01, G21), W("scalarid", nil, E2, N32), W("scalarid", nil, P3, N01), W("scalarid", nil, N01, N32, G21)}
		},
		invalid: func() []inval { return nil },
	})
	// vector iid / vector id (vectorDistribution): argument is the concatenation
	V1 := D("vnormal", 0, 1)
	V2 := D("vnormal", 1, -2, 1, 0.5, 0.5, 1)
	vdim := func(d Dist) int { n, _ := fams[d.Fam].dims(d); return n }
	vprodRef := func(subs []Dist, x []float64) rv {
		a := acc{}
		j := 0
		for _, s := range subs {
			m := vdim(s)
			r := fams[s.Fam].refV(s, x[j:j+m])
			a.v += r.v
			a.s += r.s
			j += m
		}
		return a.rv()
	}
	vprodPts := func(subs []Dist) [][]float64 {
		out := [][]float64{{}}
		for _, s := range subs {
			nx := [][]float64{}
			for _, o := range out {
				for _, p := range gridV(vdim(s), vv(0, 0.5, -3)) {
					nx = append(nx, append(append([]float64{}, o...), p...))
				}
			}
			out = nx
		}
		return out
	}
	reg(&family{name: "vectoriid", pNotParam: true, kind: "vector", pnames: []string{"n"},
		build: func(d Dist, t ScalarType) (any, error) {
			in, err := buildVector(d.Sub[0], t)
			if err != nil {
				return nil, fmt.Errorf("harness: inner: %v", err)
			}
			return wrap(vd.NewVectorIid(in, int(d.p(0))))
		},
		fresh: func() any { return new(vd.VectorIid) },
		dims:  func(d Dist) (int, int) { return int(d.p(0)), 1 },
		refV:  func(d Dist, x []float64) rv { return vprodRef(rep(d.Sub[0], len(x)/vdim(d.Sub[0])), x) },
		ptsV:  func(d Dist, th bool) [][]float64 { return vprodPts(rep(d.Sub[0], int(d.p(0))/vdim(d.Sub[0]))) },
		valid: func(th bool) []Dist {
			return []Dist{W("vectoriid", vv(1), V1), W("vectoriid", vv(2), V1), W("vectoriid", vv(2), V2), W("vectoriid", vv(4), V2), W("vectoriid", vv(0), V2)}
		},
		invalid: func() []inval {
			return []inval{{d: W("vectoriid", vv(3), V2), class: "n-not-multiple"}, {d: W("vectoriid", vv(-2), V2), class: "n<0"}}
		},
	})
	reg(&family{name: "vectorid", kind: "vector",
		build: func(d Dist, t ScalarType) (any, error) {
			ins := []st.VectorPdf{}
			for _, s := range d.Sub {
				in, err := buildVector(s, t)
				if err != nil {
					return nil, fmt.Errorf("harness: inner: %v", err)
				}
				ins = append(ins, in)
			}
			return wrap(vd.NewVectorId(ins...))
		},
		fresh: func() any { return new(vd.VectorId) },
		dims: func(d Dist) (int, int) {
			n := 0
			for _, s := range d.Sub {
				n += vdim(s)
			}
			return n, 1
		},
		refV: func(d Dist, x []float64) rv { return vprodRef(d.Sub, x) },
		ptsV: func(d Dist, th bool) [][]float64 { return vprodPts(d.Sub) },
		valid: func(th bool) []Dist {
			return []Dist{W("vectorid", nil, V1), W("vectorid", nil, V1, V2), W("vectorid", nil, V2, V2), W("vectorid", nil, V2, W("scalariid", vv(2), G21))}
		},
		invalid: func() []inval { return nil },
	})

	// ---- vector mixture(weights; vector components of equal dimension) --------------------------------------
	reg(&family{name: "vmixture", kind: "vector", pnames: []string{"w0", "w1", "w2"}, approxRT: true, isolateSet: true,
		build: func(d Dist, t ScalarType) (any, error) {
			ins := []st.VectorPdf{}
			for _, s := range d.Sub {
				in, err := buildVector(s, t)
				if err != nil {
					return nil, fmt.Errorf("harness: inner: %v", err)
				}
				ins = append(ins, in)
			}
			return wrap(vd.NewMixture(vecOf(t, f64s(d.P)), ins))
		},
		fresh: func() any { return new(vd.Mixture) },
		dims:  func(d Dist) (int, int) { return vdim(d.Sub[0]), 1 },
		refV: func(d Dist, x []float64) rv {
			tot := 0.0
			for i := range d.P {
				tot += d.p(i)
			}
			terms := []float64{}
			s := 0.0
			for i, c := range d.Sub {
				if d.p(i) == 0 {
					continue
				}
				r := fams[c.Fam].refV(c, x)
				terms = append(terms, math.Log(d.p(i)/tot)+r.v)
				if !math.IsInf(r.v, 0) {
					s = math.Max(s, r.s+math.Abs(math.Log(d.p(i)/tot)))
				}
			}
			v := logsumexp(terms)
			return rv{v, s + math.Abs(v)}
		},
		ptsV: func(d Dist, th bool) [][]float64 { return gridV(vdim(d.Sub[0]), absGrid(th)) },
		nodesV: func(d Dist, th bool) ([][]float64, []float64) {
			if vdim(d.Sub[0]) != 1 {
				return nil, nil
			}
			// 1-D: graded around the first component's centre; the reference gate decides whether this resolves the mixture
			c0 := d.Sub[0]
			pts, ws := [][]float64{}, []float64{}
			for _, n := range nodes1(support{lo: ninf, hi: pinf, c: c0.p(0), s: math.Sqrt(c0.p(1))}, q1(th)) {
				pts = append(pts, []float64{n.x})
				ws = append(ws, n.w)
			}
			return pts, ws
		},
		valid: func(th bool) []Dist {
			V1b := D("vnormal", 3, 0.25)
			V2b := D("vnormal", 0, 0, 2, -0.5, -0.5, 0.25)
			return []Dist{W("vmixture", vv(1), V1), W("vmixture", vv(0.5, 0.5), V1, V1b), W("vmixture", vv(1, 3), V1, V1b), W("vmixture", vv(0.25, 0.75), V2, V2b),
				W("vmixture", vv(0.25, 0, 0.75), V2, V2b, V2)}
		},
		invalid: func() []inval {
			return []inval{
				{d: W("vmixture", vv(-0.5, 1.5), V1, V1), class: "weight<0"},
				{d: W("vmixture", vv(0.5, 0.5), V1), class: "wrong-dimension"},
				{d: W("vmixture", vv(0.5, 0.5), V1, V2), class: "components-of-different-dimension"},
			}
		},
	})

	// =================== matrix families ================================================================
	// matrix vector-iid(inner, n): n rows, each ~ inner;  matrix vector-id(rows...)
	reg(&family{name: "m-vectoriid", pNotParam: true, kind: "matrix", pnames: []string{"n"},
		build: func(d Dist, t ScalarType) (any, error) {
			in, err := buildVector(d.Sub[0], t)
			if err != nil {
				return nil, fmt.Errorf("harness: inner: %v", err)
			}
			return wrap(md.NewVectorIid(in, int(d.p(0))))
		},
		fresh: func() any { return new(md.VectorIid) },
		dims:  func(d Dist) (int, int) { return int(d.p(0)), vdim(d.Sub[0]) },
		refV:  func(d Dist, x []float64) rv { return vprodRef(rep(d.Sub[0], int(d.p(0))), x) },
		ptsV:  func(d Dist, th bool) [][]float64 { return vprodPts(rep(d.Sub[0], int(d.p(0)))) },
		valid: func(th bool) []Dist {
			return []Dist{W("m-vectoriid", vv(1), V1), W("m-vectoriid", vv(3), V1), W("m-vectoriid", vv(2), V2), W("m-vectoriid", vv(4), V2), W("m-vectoriid", vv(3), V2)}
		},
		invalid: func() []inval {
			return []inval{{d: W("m-vectoriid", vv(-2), V2), class: "n<0"}}
		},
	})
	reg(&family{name: "m-vectorid", kind: "matrix",
		build: func(d Dist, t ScalarType) (any, error) {
			ins := []st.VectorPdf{}
			for _, s := range d.Sub {
				in, err := buildVector(s, t)
				if err != nil {
					return nil, fmt.Errorf("harness: inner: %v", err)
				}
				ins = append(ins, in)
			}
			return wrap(md.NewVectorId(ins...))
		},
		fresh: func() any { return new(md.VectorId) },
		dims:  func(d Dist) (int, int) { return len(d.Sub), vdim(d.Sub[0]) },
		refV:  func(d Dist, x []float64) rv { return vprodRef(d.Sub, x) },
		ptsV:  func(d Dist, th bool) [][]float64 { return vprodPts(d.Sub) },
		valid: func(th bool) []Dist {
			return []Dist{W("m-vectorid", nil, V2), W("m-vectorid", nil, V2, D("vnormal", 0, 0, 1, 0, 0, 1)), W("m-vectorid", nil, V1, D("vnormal", 2, 4), V1)}
		},
		invalid: func() []inval {
			return []inval{{d: W("m-vectorid", nil, V1, V2), class: "rows-of-different-dimension"}}
		},
	})

	// ---- matrix mixture(weights; matrix components of equal shape) -----------------------------------------------
	mdims := func(d Dist) (int, int) { return fams[d.Fam].dims(d) }
	M22 := W("m-vectoriid", vv(2), V2)
	M22b := W("m-vectorid", nil, V2, D("vnormal", 0, 0, 1, 0, 0, 1))
	reg(&family{name: "m-mixture", kind: "matrix", pnames: []string{"w0", "w1", "w2"}, approxRT: true, isolateSet: true,
		build: func(d Dist, t ScalarType) (any, error) {
			ins := []st.MatrixPdf{}
			for _, s := range d.Sub {
				in, err := buildAny(s, t)
				if err != nil {
					return nil, fmt.Errorf("harness: inner: %v", err)
				}
				ins = append(ins, in.(st.MatrixPdf))
			}
			return wrap(md.NewMixture(vecOf(t, f64s(d.P)), ins))
		},
		fresh: func() any { return new(md.Mixture) },
		dims:  func(d Dist) (int, int) { return mdims(d.Sub[0]) },
		refV: func(d Dist, x []float64) rv {
			tot := 0.0
			for i := range d.P {
				tot += d.p(i)
			}
			terms := []float64{}
			s := 0.0
			for i, c := range d.Sub {
				if d.p(i) == 0 {
					continue
				}
				r := fams[c.Fam].refV(c, x)
				terms = append(terms, math.Log(d.p(i)/tot)+r.v)
				if !math.IsInf(r.v, 0) {
					s = math.Max(s, r.s+math.Abs(math.Log(d.p(i)/tot)))
				}
			}
			v := logsumexp(terms)
			return rv{v, s + math.Abs(v)}
		},
		ptsV: func(d Dist, th bool) [][]float64 { return fams[d.Sub[0].Fam].ptsV(d.Sub[0], th) },
		valid: func(th bool) []Dist {
			return []Dist{W("m-mixture", vv(1), M22), W("m-mixture", vv(0.5, 0.5), M22, M22b), W("m-mixture", vv(1, 3), M22b, M22), W("m-mixture", vv(0.25, 0, 0.75), M22, M22b, M22)}
		},
		invalid: func() []inval {
			return []inval{
				{d: W("m-mixture", vv(-0.5, 1.5), M22, M22b), class: "weight<0"},
				{d: W("m-mixture", vv(0.5, 0.5), M22), class: "wrong-dimension"},
			}
		},
	})

	// ---- inverse Wishart(nu, S): P = [nu] ++ S; valid for nu > p-1 -----------------------------------------
	iwPts := func(p int, th bool) [][]float64 {
		if p == 1 {
			return gridV(1, vv(1, 0.5, 4, 1e-3, 100, 0, -1))
		}
		r := [][]float64{{1, 0, 0, 1}, {2, -0.3, -0.3, 4}, {0.5, 0.25, 0.25, 0.5}, {10, 3, 3, 1}, {1e-3, 0, 0, 1e-3},
			// not positive definite: outside the support
			{1, 2, 2, 1}, {1, 1, 1, 1}, {0, 0, 0, 0}, {-1, 0, 0, -1}, {1, 0, 0, -1}}
		return r
	}
	iwNodes := func(nu float64, s []float64, p int, th bool) ([][]float64, []float64) {
		q := q3(th)
		if p == 1 {
			q = q1(th)
			ns := nodes1(support{lo: 0, hi: pinf, c: s[0] / (nu + 2), s: s[0] / (nu + 2)}, q)
			pts, ws := [][]float64{}, []float64{}
			for _, a := range ns {
				pts = append(pts, []float64{a.x})
				ws = append(ws, a.w)
			}
			return pts, ws
		}
		// X = [[a, r sqrt(ab)], [., b]], a,b in (0,inf), r in (-1,1); dX = sqrt(ab) da db dr
		na := graded(nil, 0, +1, s[0]/(nu+3), -7, q.Y, q)
		nb := graded(nil, 0, +1, s[3]/(nu+3), -7, q.Y, q)
		nr := []node{}
		for _, w := range graded(nil, 0, +1, 1, -q.Y, 3, q) { // w = artanh|r|
			t := math.Tanh(w.x)
			nr = append(nr, node{t, w.w * (1 - t*t)}, node{-t, w.w * (1 - t*t)})
		}
		pts, ws := [][]float64{}, []float64{}
		for _, a := range na {
			for _, b := range nb {
				g := math.Sqrt(a.x * b.x)
				for _, r := range nr {
					c := r.x * g
					pts = append(pts, []float64{a.x, c, c, b.x})
					ws = append(ws, a.w*b.w*r.w*g)
				}
			}
		}
		return pts, ws
	}
	// zero closure of a symmetric p x p argument starting at offset o: (i,j) and (j,i) together
	symGroups := func(o, p int) [][]int {
		g := [][]int{}
		for i := 0; i < p; i++ {
			for j := i; j < p; j++ {
				if i == j {
					g = append(g, []int{o + i*p + j})
				} else {
					g = append(g, []int{o + i*p + j, o + j*p + i})
				}
			}
		}
		return g
	}
	reg(&family{name: "iwishart", kind: "matrix",
		zeroGroups: func(d Dist, n int) [][]int { return symGroups(0, dimFrom(len(d.P), 0, 1)) },
		build: func(d Dist, t ScalarType) (any, error) {
			p := dimFrom(len(d.P), 0, 1)
			v := f64s(d.P)
			return wrap(md.NewInverseWishartDistribution(S(t, v[0]), matOf(t, v[1:], p, p)))
		},
		fresh: func() any { return new(md.InverseWishartDistribution) },
		dims:  func(d Dist) (int, int) { p := dimFrom(len(d.P), 0, 1); return p, p },
		refV: func(d Dist, x []float64) rv {
			p := dimFrom(len(d.P), 0, 1)
			v := f64s(d.P)
			return iwRef(v[0], v[1:], x, p)
		},
		ptsV: func(d Dist, th bool) [][]float64 { return iwPts(dimFrom(len(d.P), 0, 1), th) },
		nodesV: func(d Dist, th bool) ([][]float64, []float64) {
			p := dimFrom(len(d.P), 0, 1)
			v := f64s(d.P)
			if p == 2 && !th && !(v[0] == 5 && v[2] == 0) {
				return nil, nil // quick: the 3-D node set is enumerated for one parameter point only
			}
			return iwNodes(v[0], v[1:], p, th)
		},
		pclass: func(d Dist) string {
			p := dimFrom(len(d.P), 0, 1)
			if p == 2 && d.p(2) != 0 {
				return "p=2,S-offdiagonal"
			}
			return fmt.Sprintf("p=%d", p)
		},
		valid: func(th bool) []Dist {
			r := []Dist{}
			for _, nu := range pick(th, vv(3, 1), vv(3, 1, 0.5, 10)) {
				for _, s := range vv(1, 4) {
					r = append(r, D("iwishart", nu, s))
				}
			}
			for _, nu := range pick(th, vv(5, 3), vv(5, 3, 10)) {
				for _, s := range [][]float64{{1, 0, 0, 1}, {1, 0.3, 0.3, 1}, {2, -0.5, -0.5, 0.25}} {
					r = append(r, D("iwishart", cat(vv(nu), s)...))
				}
			}
			return r
		},
		invalid: func() []inval {
			r := []inval{}
			for _, k := range badOrder {
				r = append(r, inval{d: D("iwishart", cat(vv(3), badCov2[k])...), class: "S" + k[5:]})
			}
			r = append(r, inval{d: D("iwishart", 1, 1, 0, 0, 1), class: "nu=p-1"}, inval{d: D("iwishart", 0, 1, 0, 0, 1), class: "nu=0"},
				inval{d: D("iwishart", -1, 1, 0, 0, 1), class: "nu<0"}, inval{d: D("iwishart", nan, 1, 0, 0, 1), class: "nu=NaN"})
			r = append(r, inval{d: D("iwishart", 3, 1, 0, 0, 1, 0, 0), class: "S-not-square", mk: func(t ScalarType) (any, error) {
				return wrap(md.NewInverseWishartDistribution(S(t, 3), matOf(t, vv(1, 0, 0, 1, 0, 0), 2, 3)))
			}})
			return r
		},
	})

	// ---- normal inverse Wishart(kappa, nu, mu0, Lambda): N(mu | mu0, Sigma/kappa) IW(Sigma | nu, Lambda);
	//      argument = mu ++ Sigma; P = [kappa, nu] ++ mu0 ++ Lambda -----------------------------------------------
	niwSplit := func(d Dist) (p int, ka, nu float64, mu, la []float64) {
		p = dimFrom(len(d.P), 1, 2)
		v := f64s(d.P)
		return p, v[0], v[1], v[2 : 2+p], v[2+p:]
	}
	reg(&family{name: "niwishart", kind: "niw",
		zeroGroups: func(d Dist, n int) [][]int {
			p := dimFrom(len(d.P), 1, 2)
			g := [][]int{}
			for i := 0; i < p; i++ {
				g = append(g, []int{i})
			}
			return append(g, symGroups(p, p)...)
		},
		build: func(d Dist, t ScalarType) (any, error) {
			p, ka, nu, mu, la := niwSplit(d)
			return wrap(md.NewNormalIWishartDistribution(S(t, ka), S(t, nu), vecOf(t, mu), matOf(t, la, p, p)))
		},
		fresh: func() any { return new(md.NormalIWishartDistribution) },
		dims:  func(d Dist) (int, int) { p, _, _, _, _ := niwSplit(d); return p, p },
		refV: func(d Dist, x []float64) rv {
			p, ka, nu, mu, la := niwSplit(d)
			m, sg := x[:p], x[p:]
			w := iwRef(nu, la, sg, p)
			if math.IsInf(w.v, -1) || math.IsNaN(w.v) {
				return w
			}
			sk := make([]float64, len(sg))
			for i := range sg {
				sk[i] = sg[i] / ka
			}
			n := mvnRef(mu, sk, m)
			return rv{n.v + w.v, n.s + w.s}
		},
		ptsV: func(d Dist, th bool) [][]float64 {
			p, _, _, _, _ := niwSplit(d)
			r := [][]float64{}
			for _, m := range gridV(p, vv(0, 0.5, -3)) {
				for _, s := range iwPts(p, th) {
					r = append(r, cat(m, s))
				}
			}
			return r
		},
		nodesV: func(d Dist, th bool) ([][]float64, []float64) {
			p, ka, nu, mu, la := niwSplit(d)
			if p != 1 {
				return nil, nil // 5-D: not enumerated (density oracle only)
			}
			q := q2(th)
			q.h = 1 // each LogPdf builds a vector normal (Cholesky inverse): keep the 2-D node set moderate
			nsig := nodes1(support{lo: 0, hi: pinf, c: la[0] / (nu + 2), s: la[0] / (nu + 2)}, qres{Y: 2*q.Y - 24, h: q.h, n: q.n})
			nz := nodes1(support{lo: ninf, hi: pinf, c: 0, s: 1}, q)
			pts, ws := [][]float64{}, []float64{}
			for _, a := range nsig {
				sc := math.Sqrt(a.x / ka)
				for _, z := range nz {
					pts = append(pts, []float64{mu[0] + sc*z.x, a.x})
					ws = append(ws, a.w*z.w*sc)
				}
			}
			return pts, ws
		},
		pclass: func(d Dist) string {
			p, _, _, _, la := niwSplit(d)
			if p == 2 && la[1] != 0 {
				return "p=2,Lambda-offdiagonal"
			}
			return fmt.Sprintf("p=%d", p)
		},
		valid: func(th bool) []Dist {
			r := []Dist{}
			for _, ka := range pick(th, vv(1, 4), vv(1, 0.5, 4)) {
				for _, nu := range pick(th, vv(3), vv(3, 10)) {
					r = append(r, D("niwishart", ka, nu, 0, 1), D("niwishart", ka, nu, -1.5, 4))
				}
			}
			for _, ka := range vv(1, 4) {
				for _, s := range [][]float64{{1, 0, 0, 1}, {1, 0.3, 0.3, 1}} {
					r = append(r, D("niwishart", cat(vv(ka, 4, 1, -2), s)...))
				}
			}
			return r
		},
		invalid: func() []inval {
			r := []inval{}
			for _, k := range badOrder {
				r = append(r, inval{d: D("niwishart", cat(vv(1, 3, 0, 0), badCov2[k])...), class: "Lambda" + k[5:]})
			}
			r = append(r, inval{d: D("niwishart", 0, 3, 0, 0, 1, 0, 0, 1), class: "kappa=0"}, inval{d: D("niwishart", -1, 3, 0, 0, 1, 0, 0, 1), class: "kappa<0"},
				inval{d: D("niwishart", nan, 3, 0, 0, 1, 0, 0, 1), class: "kappa=NaN"}, inval{d: D("niwishart", 1, 0, 0, 0, 1, 0, 0, 1), class: "nu=0"},
				inval{d: D("niwishart", 1, nan, 0, 0, 1, 0, 0, 1), class: "nu=NaN"})
			r = append(r, inval{d: D("niwishart", 1, 3, 0, 1, 0, 0, 1), class: "wrong-dimension", mk: func(t ScalarType) (any, error) {
				return wrap(md.NewNormalIWishartDistribution(S(t, 1), S(t, 3), vecOf(t, vv(0)), matOf(t, vv(1, 0, 0, 1), 2, 2)))
			}})
			return r
		},
	})
}
