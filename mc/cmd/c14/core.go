package main

import (
	"encoding/json"
	"fmt"
	"math"
	"strconv"
	"strings"
)

// F is a float64 that survives JSON even when it is NaN or infinite.
type F float64

func (f F) MarshalJSON() ([]byte, error) {
	v := float64(f)
	if math.IsNaN(v) || math.IsInf(v, 0) {
		return json.Marshal(fmt.Sprint(v))
	}
	return []byte(strconv.FormatFloat(v, 'g', -1, 64)), nil
}

func (f *F) UnmarshalJSON(b []byte) error {
	s := strings.Trim(string(b), `"`)
	v, err := strconv.ParseFloat(s, 64)
	if err != nil {
		return err
	}
	*f = F(v)
	return nil
}

func fs(v ...float64) []F {
	r := make([]F, len(v))
	for i := range v {
		r[i] = F(v[i])
	}
	return r
}

func f64s(v []F) []float64 {
	r := make([]float64, len(v))
	for i := range v {
		r[i] = float64(v[i])
	}
	return r
}

// Dist is one fully specified distribution instance: family, parameter vector,
// and (for wrappers) the wrapped instances. It is the replayable description.
type Dist struct {
	Fam string `json:"family"`
	P   []F    `json:"params,omitempty"`
	Sub []Dist `json:"sub,omitempty"`
}

func (d Dist) p(i int) float64 { return float64(d.P[i]) }

func (d Dist) String() string {
	var sb strings.Builder
	sb.WriteString(d.Fam)
	sb.WriteString("(")
	f := fams[d.Fam]
	for i, v := range d.P {
		if i > 0 {
			sb.WriteString(", ")
		}
		if f != nil && i < len(f.pnames) {
			sb.WriteString(f.pnames[i] + "=")
		}
		fmt.Fprintf(&sb, "%v", float64(v))
	}
	for i, s := range d.Sub {
		if i > 0 || len(d.P) > 0 {
			sb.WriteString("; ")
		}
		sb.WriteString(s.String())
	}
	sb.WriteString(")")
	return sb.String()
}

// rv is a reference value: the textbook log-density v and the sum of the
// magnitudes of the terms it is built from (scale of the rounding error).
type rv struct{ v, s float64 }

type acc struct{ v, s float64 }

func (a *acc) add(t float64) { a.v += t; a.s += math.Abs(t) }
func (a *acc) rv() rv        { return rv{a.v, a.s} }

var ninf = math.Inf(-1)
var pinf = math.Inf(1)

func outside() rv { return rv{ninf, 0} }

// xlogy = a*log(y) with the convention 0*log(0) = 0.
func xlogy(a, y float64) float64 {
	if a == 0 {
		return 0
	}
	return a * math.Log(y)
}

// support describes the support of a scalar family for one parameter point.
type support struct {
	lo, hi           float64 // may be infinite
	discrete         bool
	loExact, hiExact bool    // bound is a given parameter (or exactly representable), so ±1 ulp is decidable
	c, s             float64 // a point strictly inside the support and a typical length scale
	kmax             int     // discrete: largest support point if finite (binomial n), else -1
}

func ulpUp(x float64) float64   { return math.Nextafter(x, pinf) }
func ulpDown(x float64) float64 { return math.Nextafter(x, ninf) }

// ---- Gauss-Legendre -------------------------------------------------------

type glRule struct{ x, w []float64 } // on [-1,1]

var glCache = map[int]glRule{}

func gl(n int) glRule {
	if r, ok := glCache[n]; ok {
		return r
	}
	x := make([]float64, n)
	w := make([]float64, n)
	for i := 0; i < (n+1)/2; i++ {
		z := math.Cos(math.Pi * (float64(i) + 0.75) / (float64(n) + 0.5))
		var pp float64
		for it := 0; it < 100; it++ {
			p1, p2 := 1.0, 0.0
			for j := 0; j < n; j++ {
				p3 := p2
				p2 = p1
				p1 = ((2*float64(j)+1)*z*p2 - float64(j)*p3) / float64(j+1)
			}
			pp = float64(n) * (z*p1 - p2) / (z*z - 1)
			z1 := z
			z = z1 - p1/pp
			if math.Abs(z-z1) < 1e-16 {
				break
			}
		}
		x[i], x[n-1-i] = -z, z
		w[i] = 2 / ((1 - z*z) * pp * pp)
		w[n-1-i] = w[i]
	}
	r := glRule{x, w}
	glCache[n] = r
	return r
}

// node of a fixed quadrature node set in x-coordinates (weight includes the Jacobian).
type node struct{ x, w float64 }

// qres: resolution of the fixed node set.
type qres struct {
	Y float64 // log-range: pieces are graded as a ± L*exp(y), y in [-Y, Y] (half-lines) or [-Y, 0] (intervals)
	h float64 // panel width in y
	n int     // Gauss-Legendre nodes per panel
}

// graded appends nodes for x = a + dir*L*exp(y), y in [y0,y1].
func graded(ns []node, a, dir, L, y0, y1 float64, q qres) []node {
	r := gl(q.n)
	np := int(math.Ceil((y1 - y0) / q.h))
	hh := (y1 - y0) / float64(np)
	for k := 0; k < np; k++ {
		m := y0 + (float64(k)+0.5)*hh
		for i := range r.x {
			y := m + 0.5*hh*r.x[i]
			e := L * math.Exp(y)
			x := a + dir*e
			if x == a || math.IsInf(x, 0) || e == 0 {
				continue // not resolvable in float64; the reference-side gate sees the same loss
			}
			ns = append(ns, node{x, 0.5 * hh * r.w[i] * e})
		}
	}
	return ns
}

// interval: both ends graded towards the midpoint.
func gradedInterval(ns []node, a, b float64, q qres) []node {
	w := (b - a) / 2
	n0 := len(ns)
	ns = graded(ns, a, +1, w, -q.Y, 0, q)
	ns = graded(ns, b, -1, w, -q.Y, 0, q)
	// drop nodes that rounded onto the far end
	out := ns[:n0]
	for _, nd := range ns[n0:] {
		if nd.x <= a || nd.x >= b {
			continue
		}
		out = append(out, nd)
	}
	return out
}

// nodes1 builds the fixed node set for a continuous scalar support.
func nodes1(sp support, q qres) []node {
	var ns []node
	ymax := math.Min(q.Y, 700-math.Log(math.Max(sp.s, 1)))
	if math.IsInf(sp.hi, 1) {
		ns = graded(ns, sp.c, +1, sp.s, -q.Y, ymax, q)
	} else {
		ns = gradedInterval(ns, sp.c, sp.hi, q)
	}
	if math.IsInf(sp.lo, -1) {
		ns = graded(ns, sp.c, -1, sp.s, -q.Y, ymax, q)
	} else {
		ns = gradedInterval(ns, sp.lo, sp.c, q)
	}
	return ns
}

// ---- special functions for the reference side --------------------------------

func lgamma(x float64) float64 { v, _ := math.Lgamma(x); return v }

// logGammaPQ returns log P(a,x) and log Q(a,x) (regularised incomplete gamma), a>0.
func logGammaPQ(a, x float64) (float64, float64) {
	if x <= 0 {
		return ninf, 0
	}
	if math.IsInf(x, 1) {
		return 0, ninf
	}
	pre := a*math.Log(x) - x - lgamma(a)
	if x < a+1 {
		// series for P
		ap, sum, del := a, 1/a, 1/a
		for i := 0; i < 100000; i++ {
			ap++
			del *= x / ap
			sum += del
			if math.Abs(del) < math.Abs(sum)*1e-17 {
				break
			}
		}
		lp := pre + math.Log(sum)
		if lp > 0 {
			lp = 0
		}
		return lp, log1mexp(lp)
	}
	// continued fraction for Q (modified Lentz)
	const tiny = 1e-300
	b := x + 1 - a
	c := 1 / tiny
	d := 1 / b
	h := d
	for i := 1; i < 100000; i++ {
		an := -float64(i) * (float64(i) - a)
		b += 2
		d = an*d + b
		if math.Abs(d) < tiny {
			d = tiny
		}
		c = b + an/c
		if math.Abs(c) < tiny {
			c = tiny
		}
		d = 1 / d
		del := d * c
		h *= del
		if math.Abs(del-1) < 1e-16 {
			break
		}
	}
	lq := pre + math.Log(h)
	if lq > 0 {
		lq = 0
	}
	return log1mexp(lq), lq
}

// log(1 - exp(a)), a <= 0
func log1mexp(a float64) float64 {
	if a >= 0 {
		return ninf
	}
	if a > -math.Ln2 {
		return math.Log(-math.Expm1(a))
	}
	return math.Log1p(-math.Exp(a))
}

// log of the standard normal cdf
func logPhi(z float64) float64 {
	if z > 0 {
		return math.Log1p(-0.5 * math.Erfc(z/math.Sqrt2))
	}
	if z > -30 {
		return math.Log(0.5 * math.Erfc(-z/math.Sqrt2))
	}
	// asymptotic series
	z2 := z * z
	s := 1 - 1/z2 + 3/(z2*z2) - 15/(z2*z2*z2) + 105/(z2*z2*z2*z2)
	return -0.5*z2 - math.Log(-z) - 0.5*math.Log(2*math.Pi) + math.Log(s)
}

func logsumexp(v []float64) float64 {
	m := ninf
	for _, x := range v {
		if x > m {
			m = x
		}
	}
	if math.IsInf(m, 0) {
		return m
	}
	s := 0.0
	for _, x := range v {
		s += math.Exp(x - m)
	}
	return m + math.Log(s)
}

func isInt(x float64) bool { return math.Floor(x) == x && !math.IsInf(x, 0) }

func fmtF(v float64) string { return strconv.FormatFloat(v, 'g', -1, 64) }
