package main

import (
	"math"
	"math/big"

	. "github.com/pbenner/autodiff"
	st "github.com/pbenner/autodiff/statistics"
	sd "github.com/pbenner/autodiff/statistics/scalarDistribution"
)

type inval struct {
	d     Dist
	class string
	mk    func(t ScalarType) (any, error) // overrides the family builder (wrong-dimension cases)
}

// family: everything the harness knows about one distribution family. The
// reference side (ref, cdf, sup) is written from the textbook definition under the
// parametrisation NAMED by the constructor / its comments / the repository tests,
// never from the LogPdf body.
type family struct {
	name    string
	pnames  []string
	kind    string // scalar | vector | matrix | niw
	build   func(d Dist, t ScalarType) (any, error)
	fresh   func() any // empty object for ImportConfig
	ref     func(d Dist, x float64) rv
	cdf     func(d Dist, x float64) float64 // textbook log-cdf; nil when the family offers none
	sup     func(d Dist) support
	pclass  func(d Dist) string // parameter-region class for keys
	valid   func(th bool) []Dist
	invalid func() []inval
	// parameters are stored transformed (log p ...): round trips are compared to 1e-12, not bitwise
	approxRT bool
	// P is structural (n, pseudocount, shift), not part of GetParameters
	pNotParam bool
	// SetParameters is first tried in a child process (unrecoverable recursion in the unchanged library)
	isolateSet bool
	// x is not the natural variable (beta log-scale): weight of the normalisation integrand
	normJac func(x float64) float64
	pts     func(d Dist, th bool) []float64 // replaces the generic point set
	// vector / matrix families
	dims   func(d Dist) (int, int)
	refV   func(d Dist, x []float64) rv
	ptsV   func(d Dist, th bool) [][]float64
	nodesV func(d Dist, th bool) ([][]float64, []float64)
	// mutator histories (history.go): suppliers for Set* methods other than SetParameters; extra
	// condition for SetParameters between two lattice points; argument of any length (no
	// wrong-dimension probe); clauses run for this family (nil = all)
	setters map[string]setter
	compat  func(a, b Dist) bool
	anyLen  bool
	only    map[string]bool
	// storage of the evaluation point (storage.go): coordinates that are set to zero together
	// (symmetric matrix arguments); nil = every coordinate on its own
	zeroGroups func(d Dist, n int) [][]int
}

var fams = map[string]*family{}
var famOrder []string

func reg(f *family) {
	if f.kind == "" {
		f.kind = "scalar"
	}
	fams[f.name] = f
	famOrder = append(famOrder, f.name)
}

func wrap[T any](p *T, err error) (any, error) {
	if err != nil {
		return nil, err
	}
	return p, nil
}

func pick(th bool, q, t []float64) []float64 {
	if th {
		return t
	}
	return q
}

// product lattice, lexicographic, lists ordered simplest-first
func product(fam string, lists ...[]float64) []Dist {
	out := []Dist{}
	idx := make([]int, len(lists))
	for {
		p := make([]F, len(lists))
		for i := range lists {
			p[i] = F(lists[i][idx[i]])
		}
		out = append(out, Dist{Fam: fam, P: p})
		k := len(lists) - 1
		for k >= 0 {
			idx[k]++
			if idx[k] < len(lists[k]) {
				break
			}
			idx[k] = 0
			k--
		}
		if k < 0 {
			break
		}
	}
	return out
}

func invs(fam string, rows ...any) []inval {
	out := []inval{}
	for i := 0; i+1 < len(rows); i += 2 {
		out = append(out, inval{d: Dist{Fam: fam, P: fs(rows[i+1].([]float64)...)}, class: rows[i].(string)})
	}
	return out
}

var nan = math.NaN()

func vv(v ...float64) []float64 { return v }

// exact value of mu - sigma/xi (and whether it is representable)
func exactBound(mu, sigma, xi float64) (float64, bool) {
	a, b, c := new(big.Rat), new(big.Rat), new(big.Rat)
	a.SetFloat64(mu)
	b.SetFloat64(sigma)
	c.SetFloat64(xi)
	b.Quo(b, c)
	a.Sub(a, b)
	return a.Float64()
}

var locs = [][]float64{{0, -1.5, 3}, {0, -1.5, 3, 100}}
var scales = [][]float64{{1, 0.5, 4}, {1, 0.5, 4, 0.125, 32}}
var shapes = [][]float64{{1, 0.5, 2, 5}, {1, 0.5, 2, 0.1, 5, 20}}

func lst(l [][]float64, th bool) []float64 {
	if th {
		return l[1]
	}
	return l[0]
}

func init() {
	S := argS // constructor arguments are created through the argument recorder (alias.go)
	cont := func(lo, hi float64, c, s float64) support {
		return support{lo: lo, hi: hi, c: c, s: s, loExact: true, hiExact: true, kmax: -1}
	}

	// ---- normal(mu, sigma): sigma is the standard deviation ------------------
	reg(&family{name: "normal", pnames: []string{"mu", "sigma"},
		build: func(d Dist, t ScalarType) (any, error) {
			return wrap(sd.NewNormalDistribution(S(t, d.p(0)), S(t, d.p(1))))
		},
		fresh: func() any { return new(sd.NormalDistribution) },
		ref: func(d Dist, x float64) rv {
			if math.IsInf(x, 0) {
				return outside()
			}
			z := (x - d.p(0)) / d.p(1)
			a := acc{}
			a.add(-0.5 * math.Log(2*math.Pi))
			a.add(-math.Log(d.p(1)))
			a.add(-0.5 * z * z)
			return a.rv()
		},
		cdf:   func(d Dist, x float64) float64 { return logPhi((x - d.p(0)) / d.p(1)) },
		sup:   func(d Dist) support { return cont(ninf, pinf, d.p(0), d.p(1)) },
		valid: func(th bool) []Dist { return product("normal", lst(locs, th), lst(scales, th)) },
		invalid: func() []inval {
			return invs("normal", "sigma=0", vv(0, 0), "sigma<0", vv(0, -1), "sigma=NaN", vv(0, nan))
		},
	})

	// ---- laplace(mu, sigma): sigma is the scale b ------------------------------
	reg(&family{name: "laplace", pnames: []string{"mu", "sigma"},
		build: func(d Dist, t ScalarType) (any, error) {
			return wrap(sd.NewLaplaceDistribution(S(t, d.p(0)), S(t, d.p(1))))
		},
		fresh: func() any { return new(sd.LaplaceDistribution) },
		ref: func(d Dist, x float64) rv {
			if math.IsInf(x, 0) {
				return outside()
			}
			a := acc{}
			a.add(-math.Log(2))
			a.add(-math.Log(d.p(1)))
			a.add(-math.Abs(x-d.p(0)) / d.p(1))
			return a.rv()
		},
		cdf: func(d Dist, x float64) float64 {
			z := (x - d.p(0)) / d.p(1)
			if z < 0 {
				return -math.Ln2 + z
			}
			return math.Log1p(-0.5 * math.Exp(-z))
		},
		sup:   func(d Dist) support { return cont(ninf, pinf, d.p(0), d.p(1)) },
		valid: func(th bool) []Dist { return product("laplace", lst(locs, th), lst(scales, th)) },
		invalid: func() []inval {
			return invs("laplace", "sigma=0", vv(0, 0), "sigma<0", vv(0, -1), "sigma=NaN", vv(0, nan))
		},
	})

	// ---- cauchy(mu, sigma): sigma is the scale gamma -----------------------------
	reg(&family{name: "cauchy", pnames: []string{"mu", "sigma"},
		build: func(d Dist, t ScalarType) (any, error) {
			return wrap(sd.NewCauchyDistribution(S(t, d.p(0)), S(t, d.p(1))))
		},
		fresh: func() any { return new(sd.CauchyDistribution) },
		ref: func(d Dist, x float64) rv {
			if math.IsInf(x, 0) {
				return outside()
			}
			z := (x - d.p(0)) / d.p(1)
			a := acc{}
			a.add(-math.Log(math.Pi))
			a.add(-math.Log(d.p(1)))
			if math.Abs(z) > 1e150 {
				a.add(-2 * math.Log(math.Abs(z)))
			} else {
				a.add(-math.Log1p(z * z))
			}
			return a.rv()
		},
		sup:   func(d Dist) support { return cont(ninf, pinf, d.p(0), d.p(1)) },
		valid: func(th bool) []Dist { return product("cauchy", lst(locs, th), lst(scales, th)) },
		invalid: func() []inval {
			return invs("cauchy", "sigma=0", vv(0, 0), "sigma<0", vv(0, -1), "sigma=NaN", vv(0, nan))
		},
	})

	// ---- pareto(lambda scale, kappa shape): kappa lambda^kappa / x^(kappa+1), x >= lambda
	reg(&family{name: "pareto", pnames: []string{"lambda", "kappa"},
		build: func(d Dist, t ScalarType) (any, error) {
			return wrap(sd.NewParetoDistribution(S(t, d.p(0)), S(t, d.p(1))))
		},
		fresh: func() any { return new(sd.ParetoDistribution) },
		ref: func(d Dist, x float64) rv {
			l, k := d.p(0), d.p(1)
			if x < l || math.IsInf(x, 0) {
				return outside()
			}
			a := acc{}
			a.add(math.Log(k))
			a.add(k * math.Log(l))
			a.add(-(k + 1) * math.Log(x))
			return a.rv()
		},
		cdf: func(d Dist, x float64) float64 {
			l, k := d.p(0), d.p(1)
			if x < l {
				return ninf
			}
			return math.Log1p(-math.Exp(k * (math.Log(l) - math.Log(x))))
		},
		sup: func(d Dist) support {
			l, k := d.p(0), d.p(1)
			return cont(l, pinf, l*(1+math.Min(1, 1/k)), l*math.Min(1, 1/k))
		},
		valid: func(th bool) []Dist {
			return product("pareto", pick(th, vv(1, 0.5, 4), vv(1, 0.5, 4, 10)), lst(shapes, th))
		},
		invalid: func() []inval {
			return invs("pareto", "lambda=0", vv(0, 1), "lambda<0", vv(-1, 1), "kappa=0", vv(1, 0), "kappa<0", vv(1, -1), "lambda=NaN", vv(nan, 1), "kappa=NaN", vv(1, nan))
		},
	})

	// ---- generalized pareto(mu, sigma, xi) ---------------------------------------
	gpHi := func(d Dist) (float64, bool) {
		if d.p(2) < 0 {
			return exactBound(d.p(0), d.p(1), d.p(2))
		}
		return pinf, true
	}
	xiClass := func(d Dist) string {
		switch xi := d.p(2); {
		case xi < 0:
			return "xi<0"
		case xi == 0:
			return "xi=0"
		}
		return "xi>0"
	}
	reg(&family{name: "gpareto", pnames: []string{"mu", "sigma", "xi"},
		build: func(d Dist, t ScalarType) (any, error) {
			return wrap(sd.NewGParetoDistribution(S(t, d.p(0)), S(t, d.p(1)), S(t, d.p(2))))
		},
		fresh: func() any { return new(sd.GParetoDistribution) },
		ref: func(d Dist, x float64) rv {
			mu, sg, xi := d.p(0), d.p(1), d.p(2)
			hi, _ := gpHi(d)
			if x < mu || x > hi || math.IsInf(x, 0) {
				return outside()
			}
			z := (x - mu) / sg
			a := acc{}
			a.add(-math.Log(sg))
			if xi == 0 {
				a.add(-z)
			} else {
				a.add(xlogyp(-(1/xi + 1), xi*z))
			}
			return a.rv()
		},
		cdf: func(d Dist, x float64) float64 {
			mu, sg, xi := d.p(0), d.p(1), d.p(2)
			hi, _ := gpHi(d)
			if x < mu {
				return ninf
			}
			if x >= hi {
				return 0
			}
			z := (x - mu) / sg
			if xi == 0 {
				return log1mexp(-z)
			}
			return log1mexp(-math.Log1p(xi*z) / xi)
		},
		sup: func(d Dist) support {
			hi, ex := gpHi(d)
			sp := cont(d.p(0), hi, d.p(0)+d.p(1)/2, d.p(1))
			sp.hiExact = ex
			return sp
		},
		pclass: xiClass,
		valid: func(th bool) []Dist {
			return product("gpareto", pick(th, vv(0, 2), vv(0, -1, 2)), pick(th, vv(1, 0.5), vv(1, 0.5, 4)), pick(th, vv(0, 0.5, -0.5, 0.1), vv(0, 0.5, -0.5, 0.1, -0.1, -0.25, 1, -1)))
		},
		invalid: func() []inval {
			return invs("gpareto", "sigma=0", vv(0, 0, 0.5), "sigma<0", vv(0, -1, 0.5), "sigma=NaN", vv(0, nan, 0.5))
		},
	})

	// ---- gev(mu, sigma, xi) --------------------------------------------------------
	gevBounds := func(d Dist) (lo, hi float64, loE, hiE bool) {
		lo, hi, loE, hiE = ninf, pinf, true, true
		if d.p(2) > 0 {
			lo, loE = exactBound(d.p(0), d.p(1), d.p(2))
		} else if d.p(2) < 0 {
			hi, hiE = exactBound(d.p(0), d.p(1), d.p(2))
		}
		return
	}
	reg(&family{name: "gev", pnames: []string{"mu", "sigma", "xi"},
		build: func(d Dist, t ScalarType) (any, error) {
			return wrap(sd.NewGevDistribution(S(t, d.p(0)), S(t, d.p(1)), S(t, d.p(2))))
		},
		fresh: func() any { return new(sd.GevDistribution) },
		ref: func(d Dist, x float64) rv {
			mu, sg, xi := d.p(0), d.p(1), d.p(2)
			lo, hi, _, _ := gevBounds(d)
			if x <= lo || x >= hi || math.IsInf(x, 0) {
				return outside()
			}
			z := (x - mu) / sg
			a := acc{}
			a.add(-math.Log(sg))
			if xi == 0 {
				a.add(-z)
				a.add(-math.Exp(-z))
			} else {
				l := math.Log1p(xi * z)
				a.add(-(1 + 1/xi) * l)
				a.add(-math.Exp(-l / xi))
			}
			return a.rv()
		},
		cdf: func(d Dist, x float64) float64 {
			mu, sg, xi := d.p(0), d.p(1), d.p(2)
			lo, hi, _, _ := gevBounds(d)
			if x <= lo {
				return ninf
			}
			if x >= hi {
				return 0
			}
			z := (x - mu) / sg
			if xi == 0 {
				return -math.Exp(-z)
			}
			return -math.Exp(-math.Log1p(xi*z) / xi)
		},
		sup: func(d Dist) support {
			lo, hi, loE, hiE := gevBounds(d)
			sp := cont(lo, hi, d.p(0), d.p(1))
			sp.loExact, sp.hiExact = loE, hiE
			return sp
		},
		pclass: xiClass,
		valid: func(th bool) []Dist {
			return product("gev", pick(th, vv(0, 2), vv(0, -1, 2)), pick(th, vv(1, 0.5), vv(1, 0.5, 4)), pick(th, vv(0, 0.5, -0.5, 0.1), vv(0, 0.5, -0.5, 0.1, -0.1, -0.25, 1)))
		},
		invalid: func() []inval {
			return invs("gev", "sigma=0", vv(0, 0, 0.5), "sigma<0", vv(0, -1, 0.5), "sigma=NaN", vv(0, nan, 0.5))
		},
	})

	// ---- gamma(alpha shape, beta rate) ---------------------------------------------
	gammaRef := func(al, be, x float64) rv {
		if x < 0 || math.IsInf(x, 0) {
			return outside()
		}
		a := acc{}
		a.add(al * math.Log(be))
		a.add(-lgamma(al))
		a.add(xlogy(al-1, x))
		a.add(-be * x)
		return a.rv()
	}
	reg(&family{name: "gamma", pnames: []string{"alpha", "beta"},
		build: func(d Dist, t ScalarType) (any, error) {
			return wrap(sd.NewGammaDistribution(S(t, d.p(0)), S(t, d.p(1))))
		},
		fresh: func() any { return new(sd.GammaDistribution) },
		ref:   func(d Dist, x float64) rv { return gammaRef(d.p(0), d.p(1), x) },
		cdf: func(d Dist, x float64) float64 {
			lp, _ := logGammaPQ(d.p(0), d.p(1)*x)
			return lp
		},
		sup: func(d Dist) support {
			return cont(0, pinf, d.p(0)/d.p(1), math.Sqrt(d.p(0))/d.p(1))
		},
		pclass: func(d Dist) string {
			if d.p(0) < 1 {
				return "alpha<1"
			}
			return ""
		},
		valid: func(th bool) []Dist { return product("gamma", lst(shapes, th), lst(scales, th)) },
		invalid: func() []inval {
			return invs("gamma", "alpha=0", vv(0, 1), "alpha<0", vv(-1, 1), "beta=0", vv(1, 0), "beta<0", vv(1, -1), "alpha=NaN", vv(nan, 1), "beta=NaN", vv(1, nan))
		},
	})

	// ---- chi-squared(k) ---------------------------------------------------------------
	reg(&family{name: "chisquared", pnames: []string{"k"},
		build: func(d Dist, t ScalarType) (any, error) {
			return wrap(sd.NewChiSquaredDistribution(t, d.p(0)))
		},
		fresh: func() any { return new(sd.ChiSquaredDistribution) },
		ref:   func(d Dist, x float64) rv { return gammaRef(d.p(0)/2, 0.5, x) },
		cdf: func(d Dist, x float64) float64 {
			lp, _ := logGammaPQ(d.p(0)/2, x/2)
			return lp
		},
		sup: func(d Dist) support { return cont(0, pinf, d.p(0), math.Sqrt(2*d.p(0))) },
		pclass: func(d Dist) string {
			if d.p(0) < 2 {
				return "k<2"
			}
			return ""
		},
		valid: func(th bool) []Dist {
			return product("chisquared", pick(th, vv(2, 1, 3, 5), vv(2, 1, 3, 0.5, 5, 10, 40)))
		},
		invalid: func() []inval {
			return invs("chisquared", "k=0", vv(0), "k<0", vv(-1), "k=NaN", vv(nan))
		},
	})

	// ---- exponential(lambda rate) -----------------------------------------------------
	reg(&family{name: "exponential", pnames: []string{"lambda"},
		build: func(d Dist, t ScalarType) (any, error) {
			return wrap(sd.NewExponentialDistribution(S(t, d.p(0))))
		},
		fresh: func() any { return new(sd.ExponentialDistribution) },
		ref:   func(d Dist, x float64) rv { return gammaRef(1, d.p(0), x) },
		cdf: func(d Dist, x float64) float64 {
			if x <= 0 {
				return ninf
			}
			return log1mexp(-d.p(0) * x)
		},
		sup:   func(d Dist) support { return cont(0, pinf, 1/d.p(0), 1/d.p(0)) },
		valid: func(th bool) []Dist { return product("exponential", lst(scales, th)) },
		invalid: func() []inval {
			return invs("exponential", "lambda=0", vv(0), "lambda<0", vv(-1), "lambda=NaN", vv(nan))
		},
	})

	// ---- generalized gamma(a scale, d, p): p/a^d x^(d-1) exp(-(x/a)^p) / Gamma(d/p) ----
	reg(&family{name: "gengamma", pnames: []string{"a", "d", "p"},
		build: func(d Dist, t ScalarType) (any, error) {
			return wrap(sd.NewGeneralizedGammaDistribution(S(t, d.p(0)), S(t, d.p(1)), S(t, d.p(2))))
		},
		fresh: func() any { return new(sd.GeneralizedGammaDistribution) },
		ref: func(dd Dist, x float64) rv {
			a, d, p := dd.p(0), dd.p(1), dd.p(2)
			if x < 0 || math.IsInf(x, 0) {
				return outside()
			}
			ac := acc{}
			ac.add(math.Log(p))
			ac.add(-d * math.Log(a))
			ac.add(-lgamma(d / p))
			ac.add(xlogy(d-1, x))
			ac.add(-math.Pow(x/a, p))
			return ac.rv()
		},
		sup: func(dd Dist) support {
			a, d, p := dd.p(0), dd.p(1), dd.p(2)
			c := a * math.Pow(d/p, 1/p)
			return cont(0, pinf, c, c)
		},
		valid: func(th bool) []Dist {
			return product("gengamma", pick(th, vv(1, 2), vv(1, 0.5, 4)), pick(th, vv(1, 0.5, 3), vv(1, 0.5, 2, 5, 0.1)), pick(th, vv(1, 2, 0.5), vv(1, 2, 0.5, 3)))
		},
		invalid: func() []inval {
			return invs("gengamma", "a=0", vv(0, 1, 1), "a<0", vv(-1, 1, 1), "d=0", vv(1, 0, 1), "d<0", vv(1, -1, 1), "p=0", vv(1, 1, 0), "p<0", vv(1, 1, -1),
				"a=NaN", vv(nan, 1, 1), "d=NaN", vv(1, nan, 1), "p=NaN", vv(1, 1, nan))
		},
	})

	// ---- power law(alpha, xmin): (alpha-1)/xmin (x/xmin)^-alpha, x >= xmin, alpha > 1 ----
	reg(&family{name: "powerlaw", pnames: []string{"alpha", "xmin"},
		build: func(d Dist, t ScalarType) (any, error) {
			return wrap(sd.NewPowerLawDistribution(S(t, d.p(0)), S(t, d.p(1))))
		},
		fresh: func() any { return new(sd.PowerLawDistribution) },
		ref: func(d Dist, x float64) rv {
			al, xm := d.p(0), d.p(1)
			if x < xm || math.IsInf(x, 0) {
				return outside()
			}
			a := acc{}
			a.add(math.Log(al - 1))
			a.add(-math.Log(xm))
			a.add(-al * (math.Log(x) - math.Log(xm)))
			return a.rv()
		},
		cdf: func(d Dist, x float64) float64 {
			al, xm := d.p(0), d.p(1)
			if x < xm {
				return ninf
			}
			return log1mexp((1 - al) * (math.Log(x) - math.Log(xm)))
		},
		sup: func(d Dist) support {
			al, xm := d.p(0), d.p(1)
			w := math.Min(1, 1/(al-1))
			return cont(xm, pinf, xm*(1+w), xm*w)
		},
		valid: func(th bool) []Dist {
			return product("powerlaw", pick(th, vv(2, 1.5, 5), vv(2, 1.5, 3, 1.125, 5)), pick(th, vv(1, 0.5, 4), vv(1, 0.5, 4, 10)))
		},
		invalid: func() []inval {
			return invs("powerlaw", "alpha=0", vv(0, 1), "alpha<0", vv(-1, 1), "alpha=1", vv(1, 1), "alpha<1", vv(0.5, 1),
				"xmin=0", vv(2, 0), "xmin<0", vv(2, -1), "alpha=NaN", vv(nan, 1), "xmin=NaN", vv(2, nan))
		},
	})

	// ---- beta(alpha, beta), argument theta; and log-scale mode (argument log theta, density w.r.t. theta,
	//      as pinned by beta_test.go TestBeta2/TestBeta3) ------------------------------------------------
	betaRef := func(al, be, th float64, l1m float64) rv {
		// l1m = log(1-theta)
		a := acc{}
		a.add(lgamma(al + be))
		a.add(-lgamma(al))
		a.add(-lgamma(be))
		a.add(xlogy(al-1, th))
		if be != 1 {
			a.add((be - 1) * l1m)
		}
		return a.rv()
	}
	betaInv := func(name string, ls float64) func() []inval {
		return func() []inval {
			r := invs(name, "alpha=0", vv(0, 1), "alpha<0", vv(-1, 1), "beta=0", vv(1, 0), "beta<0", vv(1, -1), "alpha=NaN", vv(nan, 1), "beta=NaN", vv(1, nan))
			return r
		}
	}
	reg(&family{name: "beta", pnames: []string{"alpha", "beta"},
		build: func(d Dist, t ScalarType) (any, error) {
			return wrap(sd.NewBetaDistribution(S(t, d.p(0)), S(t, d.p(1)), false))
		},
		fresh: func() any { return new(sd.BetaDistribution) },
		ref: func(d Dist, x float64) rv {
			if x < 0 || x > 1 {
				return outside()
			}
			return betaRef(d.p(0), d.p(1), x, math.Log1p(-x))
		},
		sup: func(d Dist) support {
			return cont(0, 1, d.p(0)/(d.p(0)+d.p(1)), 0.25)
		},
		valid:   func(th bool) []Dist { return product("beta", lst(shapes, th), lst(shapes, th)) },
		invalid: betaInv("beta", 0),
	})
	reg(&family{name: "beta-logscale", pnames: []string{"alpha", "beta"},
		build: func(d Dist, t ScalarType) (any, error) {
			return wrap(sd.NewBetaDistribution(S(t, d.p(0)), S(t, d.p(1)), true))
		},
		fresh: func() any { return new(sd.BetaDistribution) },
		ref: func(d Dist, x float64) rv {
			if x > 0 || math.IsInf(x, 1) {
				return outside()
			}
			al, be := d.p(0), d.p(1)
			a := acc{}
			a.add(lgamma(al + be))
			a.add(-lgamma(al))
			a.add(-lgamma(be))
			if al != 1 {
				a.add((al - 1) * x)
			}
			if be != 1 {
				a.add((be - 1) * log1mexp(x))
			}
			return a.rv()
		},
		sup: func(d Dist) support {
			return cont(ninf, 0, math.Log(d.p(0)/(d.p(0)+d.p(1))), 1)
		},
		normJac: math.Exp,
		pclass: func(d Dist) string {
			if d.p(1) < 1 {
				return "beta<1"
			}
			return ""
		},
		valid:   func(th bool) []Dist { return product("beta-logscale", lst(shapes, th), lst(shapes, th)) },
		invalid: betaInv("beta-logscale", 1),
	})

	// ---- discrete families -------------------------------------------------------------------
	disc := func(kmax int, c, s float64) support {
		hi := pinf
		if kmax >= 0 {
			hi = float64(kmax)
		}
		return support{lo: 0, hi: hi, discrete: true, loExact: true, hiExact: true, c: c, s: s, kmax: kmax}
	}
	degenerate := func(i int) func(d Dist) string {
		return func(d Dist) string {
			if d.p(i) == 0 || d.p(i) == 1 {
				return "degenerate"
			}
			return ""
		}
	}
	// binomial(theta, n): C(n,k) theta^k (1-theta)^(n-k)
	reg(&family{name: "binomial", pnames: []string{"theta", "n"},
		build: func(d Dist, t ScalarType) (any, error) {
			return wrap(sd.NewBinomialDistribution(S(t, d.p(0)), int(d.p(1))))
		},
		fresh: func() any { return new(sd.BinomialDistribution) },
		ref: func(d Dist, x float64) rv {
			th, n := d.p(0), d.p(1)
			if x < 0 || x > n || !isInt(x) {
				return outside()
			}
			a := acc{}
			a.add(lgamma(n + 1))
			a.add(-lgamma(x + 1))
			a.add(-lgamma(n - x + 1))
			a.add(xlogy(x, th))
			a.add(xlogy(n-x, 1-th))
			return a.rv()
		},
		sup: func(d Dist) support {
			th, n := d.p(0), d.p(1)
			return disc(int(n), n*th, math.Sqrt(n*th*(1-th))+1)
		},
		pclass:   degenerate(0),
		approxRT: true,
		// SetN(int): n from the family's own lattice; theta is kept
		setters: map[string]setter{"SetN": {
			args:  func(th bool) []float64 { return pick(th, vv(1, 0, 5, 40), vv(1, 0, 2, 5, 40, 1000)) },
			apply: func(d Dist, a float64) (Dist, bool) { return Dist{Fam: d.Fam, P: fs(d.p(0), a)}, true },
			conv:  func(d Dist, a float64) any { return int(a) },
		}},
		valid: func(th bool) []Dist {
			return product("binomial", pick(th, vv(0.5, 0.125, 0, 1), vv(0.5, 0.125, 0.9, 0.001, 0, 1)), pick(th, vv(1, 0, 5, 40), vv(1, 0, 2, 5, 40, 1000)))
		},
		invalid: func() []inval {
			return invs("binomial", "theta<0", vv(-0.5, 3), "theta>1", vv(1.5, 3), "n<0", vv(0.5, -1), "theta=NaN", vv(nan, 3))
		},
	})
	// negative binomial(r, p): Gamma(r+k)/(k! Gamma(r)) p^k (1-p)^r   (source comment + negativeBinomial_test.go)
	reg(&family{name: "negbinomial", pnames: []string{"r", "p"},
		build: func(d Dist, t ScalarType) (any, error) {
			return wrap(sd.NewNegativeBinomialDistribution(S(t, d.p(0)), S(t, d.p(1))))
		},
		fresh: func() any { return new(sd.NegativeBinomialDistribution) },
		ref: func(d Dist, x float64) rv {
			r, p := d.p(0), d.p(1)
			if x < 0 || !isInt(x) {
				return outside()
			}
			a := acc{}
			a.add(lgamma(r + x))
			a.add(-lgamma(x + 1))
			a.add(-lgamma(r))
			a.add(xlogy(x, p))
			a.add(r * math.Log1p(-p))
			return a.rv()
		},
		sup: func(d Dist) support {
			r, p := d.p(0), d.p(1)
			return disc(-1, r*p/(1-p), math.Sqrt(r*p)/(1-p)+1)
		},
		pclass: degenerate(1),
		valid: func(th bool) []Dist {
			return product("negbinomial", pick(th, vv(1, 3, 0.5), vv(1, 3, 0.5, 0.1, 20)), pick(th, vv(0.5, 0.125, 0.9, 0), vv(0.5, 0.125, 0.9, 0.99, 0.001, 0)))
		},
		invalid: func() []inval {
			return invs("negbinomial", "r=0", vv(0, 0.5), "r<0", vv(-1, 0.5), "p<0", vv(1, -0.5), "p>1", vv(1, 1.5), "p=1", vv(1, 1), "r=NaN", vv(nan, 0.5), "p=NaN", vv(1, nan))
		},
	})
	// poisson(lambda)
	reg(&family{name: "poisson", pnames: []string{"lambda"},
		build: func(d Dist, t ScalarType) (any, error) {
			return wrap(sd.NewPoissonDistribution(S(t, d.p(0))))
		},
		fresh: func() any { return new(sd.PoissonDistribution) },
		ref: func(d Dist, x float64) rv {
			l := d.p(0)
			if x < 0 || !isInt(x) {
				return outside()
			}
			a := acc{}
			a.add(xlogy(x, l))
			a.add(-l)
			a.add(-lgamma(x + 1))
			return a.rv()
		},
		sup: func(d Dist) support { return disc(-1, d.p(0), math.Sqrt(d.p(0))+1) },
		valid: func(th bool) []Dist {
			return product("poisson", pick(th, vv(1, 0.5, 5, 30), vv(1, 0.5, 5, 0.01, 30, 200)))
		},
		invalid: func() []inval {
			return invs("poisson", "lambda=0", vv(0), "lambda<0", vv(-1), "lambda=NaN", vv(nan))
		},
	})
	// geometric(p): number of failures before the first success, p (1-p)^k, k = 0,1,2,...
	// (no doc comment, no test; of the two textbook conventions this is the one whose mass
	// function the family can satisfy at all; the other one is reported in the final report)
	reg(&family{name: "geometric", pnames: []string{"p"},
		build: func(d Dist, t ScalarType) (any, error) {
			return wrap(sd.NewGeometricDistribution(S(t, d.p(0))))
		},
		fresh: func() any { return new(sd.GeometricDistribution) },
		ref: func(d Dist, x float64) rv {
			p := d.p(0)
			if x < 0 || !isInt(x) {
				return outside()
			}
			a := acc{}
			a.add(math.Log(p))
			a.add(xlogy(x, 1-p))
			return a.rv()
		},
		sup:    func(d Dist) support { return disc(-1, (1-d.p(0))/d.p(0), math.Sqrt(1-d.p(0))/d.p(0)+1) },
		pclass: degenerate(0),
		valid: func(th bool) []Dist {
			return product("geometric", pick(th, vv(0.5, 0.125, 0.9, 1), vv(0.5, 0.125, 0.9, 0.01, 1)))
		},
		invalid: func() []inval {
			return invs("geometric", "p=0", vv(0), "p<0", vv(-0.5), "p>1", vv(1.5), "p=NaN", vv(nan))
		},
	})
	// categorical(theta_0..theta_{K-1}): P(k) = theta_k
	reg(&family{name: "categorical", pnames: []string{"theta0", "theta1", "theta2", "theta3"},
		build: func(d Dist, t ScalarType) (any, error) {
			return wrap(sd.NewCategoricalDistribution(vecOf(t, f64s(d.P))))
		},
		fresh: func() any { return new(sd.CategoricalDistribution) },
		ref: func(d Dist, x float64) rv {
			if x < 0 || x > float64(len(d.P)-1) || !isInt(x) {
				return outside()
			}
			v := math.Log(d.p(int(x)))
			return rv{v, math.Abs(v)}
		},
		cdf: func(d Dist, x float64) float64 {
			if x < 0 {
				return ninf
			}
			s := 0.0
			for i := 0; i < len(d.P) && float64(i) <= x; i++ {
				s += d.p(i)
			}
			if x >= float64(len(d.P)-1) {
				return 0
			}
			return math.Log(s)
		},
		sup: func(d Dist) support { return disc(len(d.P)-1, 0, 1) },
		pclass: func(d Dist) string {
			for i := range d.P {
				if d.p(i) == 0 {
					return "zero-entry"
				}
			}
			return ""
		},
		approxRT: true,
		valid: func(th bool) []Dist {
			r := []Dist{}
			for _, p := range [][]float64{{1}, {0.5, 0.5}, {0.25, 0.75}, {0.25, 0.25, 0.5}, {0, 1}, {0.125, 0, 0.875}, {0.25, 0.25, 0.25, 0.25}} {
				r = append(r, Dist{Fam: "categorical", P: fs(p...)})
			}
			return r
		},
		invalid: func() []inval {
			return invs("categorical", "empty", vv(), "theta<0", vv(-0.5, 1.5), "theta=NaN", vv(nan, 0.5))
		},
	})
	// delta(x0): point mass at x0
	reg(&family{name: "delta", pnames: []string{"x0"},
		build: func(d Dist, t ScalarType) (any, error) { return wrap(sd.NewDeltaDistribution(S(t, d.p(0)))) },
		fresh: func() any { return new(sd.DeltaDistribution) },
		ref: func(d Dist, x float64) rv {
			if x == d.p(0) {
				return rv{0, 0}
			}
			return outside()
		},
		sup: func(d Dist) support {
			return support{lo: d.p(0), hi: d.p(0), discrete: true, loExact: true, hiExact: true, c: d.p(0), s: 1, kmax: -2}
		},
		pts: func(d Dist, th bool) []float64 {
			x := d.p(0)
			return []float64{x, ulpUp(x), ulpDown(x), x + 1, x - 1, x + 1e-9, x - 1e-9, -x + 0.5, 0, 1e300, -1e300, pinf, ninf}
		},
		valid:   func(th bool) []Dist { return product("delta", vv(0, 1, -2.5, 1e-3)) },
		invalid: func() []inval { return nil },
	})

	_ = st.NewScalarPdf
}

// a*log1p(y) with 0*log(0) = 0
func xlogyp(a, y float64) float64 {
	if a == 0 {
		return 0
	}
	return a * math.Log1p(y)
}
