// instrument: copies every non-test Go file under <repo>/algorithm/** to <out>, with a
// verifrt.Tick() call prepended to the body of every for/range loop, and prints
// "<original path>\t<instrumented copy>" lines for the go build overlay. The copies are
// generated from the CURRENT tree at check time, so edits to /repo (including new loops)
// are instrumented too.
package main

import (
	"bytes"
	"fmt"
	"go/ast"
	"go/parser"
	"go/printer"
	"go/token"
	"os"
	"path/filepath"
	"strings"
)

func main() {
	repo, out := os.Args[1], os.Args[2]
	root := filepath.Join(repo, "algorithm")
	n := 0
	err := filepath.Walk(root, func(p string, info os.FileInfo, err error) error {
		if err != nil {
			return err
		}
		if info.IsDir() || !strings.HasSuffix(p, ".go") || strings.HasSuffix(p, "_test.go") {
			return nil
		}
		fset := token.NewFileSet()
		f, err := parser.ParseFile(fset, p, nil, parser.ParseComments)
		if err != nil {
			return err
		}
		loops := 0
		tick := func() ast.Stmt {
			return &ast.ExprStmt{X: &ast.CallExpr{Fun: &ast.SelectorExpr{X: ast.NewIdent("verifrt__"), Sel: ast.NewIdent("Tick")}}}
		}
		ast.Inspect(f, func(nd ast.Node) bool {
			switch s := nd.(type) {
			case *ast.ForStmt:
				s.Body.List = append([]ast.Stmt{tick()}, s.Body.List...)
				loops++
			case *ast.RangeStmt:
				s.Body.List = append([]ast.Stmt{tick()}, s.Body.List...)
				loops++
			}
			return true
		})
		if loops == 0 {
			return nil
		}
		var buf bytes.Buffer
		if err := printer.Fprint(&buf, fset, f); err != nil {
			return err
		}
		src := buf.String()
		// insert the import right after the package clause
		idx := strings.Index(src, "\npackage ")
		if strings.HasPrefix(src, "package ") {
			idx = -1
		}
		start := idx + 1
		eol := strings.Index(src[start:], "\n")
		if eol < 0 {
			return fmt.Errorf("%s: no package clause", p)
		}
		pos := start + eol + 1
		src = src[:pos] + "import verifrt__ \"github.com/pbenner/autodiff/zz_verifrt\"\n" + src[pos:]
		rel, _ := filepath.Rel(repo, p)
		dst := filepath.Join(out, strings.ReplaceAll(rel, string(filepath.Separator), "__"))
		if err := os.WriteFile(dst, []byte(src), 0o644); err != nil {
			return err
		}
		fmt.Printf("%s\t%s\n", p, dst)
		n++
		return nil
	})
	if err != nil {
		fmt.Fprintln(os.Stderr, "instrument:", err)
		os.Exit(1)
	}
	if n == 0 {
		fmt.Fprintln(os.Stderr, "instrument: nothing instrumented")
		os.Exit(1)
	}
}
