package main

import (
	"fmt"
	"math"
	"os"
	"path/filepath"
	"reflect"
	"strings"

	ad "github.com/pbenner/autodiff"
)

// ---- configuration of one explored state --------------------------------------

// Step is one view-forming operation.
//
//	S  Slice(a0,a1,a2,a3)   CS ConstSlice   MS MagicSlice (Real types)
//	T  T()                  MT MagicT (Real types)
type Step struct {
	Op string `json:"op"`
	A  [4]int `json:"a"`
}

func (s Step) String() string {
	if s.Op == "T" || s.Op == "MT" {
		return s.Op
	}
	return fmt.Sprintf("%s(%d,%d,%d,%d)", s.Op, s.A[0], s.A[1], s.A[2], s.A[3])
}

type Cfg struct {
	Sto     string `json:"storage"` // dense | sparse
	Typ     string `json:"type"`    // Int8 ... Real64
	R       int    `json:"rows"`
	C       int    `json:"cols"`
	Content string `json:"content"` // distinct | sym | zp:<mask>
	Path    []Step `json:"path"`
}

func (c Cfg) String() string {
	ps := []string{}
	for _, s := range c.Path {
		ps = append(ps, s.String())
	}
	return fmt.Sprintf("%s %s %dx%d %s base.%s", c.Sto, c.Typ, c.R, c.C, c.Content, strings.Join(ps, "."))
}

var typeNames = []string{"Float64", "Real64", "Int8", "Float32", "Real32", "Int16", "Int32", "Int64", "Int"}

func scalarType(name string) ad.ScalarType {
	switch name {
	case "Int8":
		return ad.Int8Type
	case "Int16":
		return ad.Int16Type
	case "Int32":
		return ad.Int32Type
	case "Int64":
		return ad.Int64Type
	case "Int":
		return ad.IntType
	case "Float32":
		return ad.Float32Type
	case "Float64":
		return ad.Float64Type
	case "Real32":
		return ad.Real32Type
	case "Real64":
		return ad.Real64Type
	}
	panic("unknown element type " + name)
}

func isReal(typ string) bool { return strings.HasPrefix(typ, "Real") }

func newMat(sto, typ string, r, c int) ad.Matrix {
	if sto == "dense" {
		return ad.NullDenseMatrix(scalarType(typ), r, c)
	}
	return ad.NullSparseMatrix(scalarType(typ), r, c)
}

func otherSto(sto string) string {
	if sto == "dense" {
		return "sparse"
	}
	return "dense"
}

// fill writes the nonzero entries of content into a fresh matrix (zeros are never
// written, so that a sparse matrix holds exactly the nonzero pattern).
func fill(m ad.Matrix, content [][]float64) {
	for i := range content {
		for j := range content[i] {
			if content[i][j] != 0 {
				m.At(i, j).SetFloat64(content[i][j])
			}
		}
	}
}

func matFrom(sto, typ string, content [][]float64, r, c int) ad.Matrix {
	m := newMat(sto, typ, r, c)
	fill(m, content)
	return m
}

func baseContent(cfg Cfg) [][]float64 {
	v := make([][]float64, cfg.R)
	for i := range v {
		v[i] = make([]float64, cfg.C)
		for j := range v[i] {
			k := i*cfg.C + j
			switch {
			case cfg.Content == "distinct":
				v[i][j] = float64(k + 1)
			case cfg.Content == "sym":
				a, b := i, j
				if a > b {
					a, b = b, a
				}
				v[i][j] = float64(1 + b*(b+1)/2 + a)
			case strings.HasPrefix(cfg.Content, "zp:"):
				var mask int
				fmt.Sscanf(cfg.Content[3:], "%d", &mask)
				if mask&(1<<k) != 0 {
					v[i][j] = float64(k + 1)
				}
			default:
				panic("unknown content " + cfg.Content)
			}
		}
	}
	return v
}

// ---- reference model ------------------------------------------------------------

type cellRef struct{ I, J int }

// model: the view denotes, for each of its cells, one cell of the ROOT object. The root
// is the base matrix, or - after a copying T() (sparse storage) - the result of that T().
type model struct {
	rows, cols int
	den        [][]cellRef // view cell -> root cell
	gden       [][]cellRef // view cell -> cell of the ORIGINAL base (state key, classes)
	root       [][]float64 // content of the root object
	rootR      int
	rootC      int
	nT, nS     int  // number of T / slice steps in the path
	copied     bool // a copying T() happened (root != base)
	// ancestors: objects left behind by a copying T(); each with the content they had and,
	// per cell, the root cell holding the (partially shared) copy, if any
	anc []ancestor
}

type ancestor struct {
	content [][]float64
	toRoot  [][]*cellRef
}

func identityDen(r, c int) [][]cellRef {
	d := make([][]cellRef, r)
	for i := range d {
		d[i] = make([]cellRef, c)
		for j := range d[i] {
			d[i][j] = cellRef{i, j}
		}
	}
	return d
}

func newModel(content [][]float64, r, c int) *model {
	return &model{rows: r, cols: c, den: identityDen(r, c), gden: identityDen(r, c), root: content, rootR: r, rootC: c}
}

func (m *model) viewContent() [][]float64 {
	v := make([][]float64, m.rows)
	for i := range v {
		v[i] = make([]float64, m.cols)
		for j := range v[i] {
			d := m.den[i][j]
			v[i][j] = m.root[d.I][d.J]
		}
	}
	return v
}

func sliceDen(d [][]cellRef, a [4]int) [][]cellRef {
	r := make([][]cellRef, a[1]-a[0])
	for i := range r {
		r[i] = append([]cellRef{}, d[a[0]+i][a[2]:a[3]]...)
	}
	return r
}

func transDen(d [][]cellRef, rows, cols int) [][]cellRef {
	r := make([][]cellRef, cols)
	for j := range r {
		r[j] = make([]cellRef, rows)
		for i := range r[j] {
			r[j][i] = d[i][j]
		}
	}
	return r
}

// apply a step to the model; copying tells whether T() is a (partially sharing) copy
func (m *model) step(s Step, copyingT bool) {
	switch s.Op {
	case "S", "CS", "MS":
		m.den = sliceDen(m.den, s.A)
		m.gden = sliceDen(m.gden, s.A)
		m.rows, m.cols = s.A[1]-s.A[0], s.A[3]-s.A[2]
		m.nS++
	case "T", "MT":
		m.nT++
		if !copyingT {
			m.den = transDen(m.den, m.rows, m.cols)
			m.gden = transDen(m.gden, m.rows, m.cols)
			m.rows, m.cols = m.cols, m.rows
			return
		}
		// the new object becomes the root; the old root is an ancestor
		vc := m.viewContent()
		a := ancestor{content: m.root, toRoot: make([][]*cellRef, m.rootR)}
		for i := range a.toRoot {
			a.toRoot[i] = make([]*cellRef, m.rootC)
		}
		for i := 0; i < m.rows; i++ {
			for j := 0; j < m.cols; j++ {
				d := m.den[i][j]
				a.toRoot[d.I][d.J] = &cellRef{j, i}
			}
		}
		// earlier ancestors: compose their mapping
		for k := range m.anc {
			old := m.anc[k].toRoot
			for i := range old {
				for j := range old[i] {
					if old[i][j] != nil {
						old[i][j] = a.toRoot[old[i][j].I][old[i][j].J]
					}
				}
			}
		}
		m.anc = append(m.anc, a)
		nr := make([][]float64, m.cols)
		for j := range nr {
			nr[j] = make([]float64, m.rows)
			for i := range nr[j] {
				nr[j][i] = vc[i][j]
			}
		}
		m.gden = transDen(m.gden, m.rows, m.cols)
		m.rows, m.cols = m.cols, m.rows
		m.root, m.rootR, m.rootC = nr, m.rows, m.cols
		m.den = identityDen(m.rows, m.cols)
		m.copied = true
	}
}

// ---- world: the real objects built by replaying the path --------------------------

type world struct {
	cfg   Cfg
	m     *model
	base  ad.Matrix
	chain []ad.Matrix // chain[0] = base, chain[k] = result of step k
	roots []ad.Matrix // ancestors (same order as m.anc), then the current root as last element
	view  ad.Matrix
}

func copyingT(sto string) bool { return sto == "sparse" }

func applyStep(v ad.Matrix, s Step) ad.Matrix {
	switch s.Op {
	case "S":
		return v.Slice(s.A[0], s.A[1], s.A[2], s.A[3])
	case "CS":
		return v.ConstSlice(s.A[0], s.A[1], s.A[2], s.A[3]).(ad.Matrix)
	case "MS":
		return v.(ad.MagicMatrix).MagicSlice(s.A[0], s.A[1], s.A[2], s.A[3])
	case "T":
		return v.T()
	case "MT":
		return v.(ad.MagicMatrix).MagicT()
	}
	panic("unknown step " + s.Op)
}

// build replays cfg; a panic inside a step is returned as error string (with the index of
// the failing step)
func build(cfg Cfg) (w *world, failStep int, perr string) {
	return buildWith(cfg, baseContent(cfg))
}

// buildWith is build with an explicitly given base content (operand views, operands.go)
func buildWith(cfg Cfg, content [][]float64) (w *world, failStep int, perr string) {
	w = &world{cfg: cfg, m: newModel(content, cfg.R, cfg.C)}
	w.base = matFrom(cfg.Sto, cfg.Typ, content, cfg.R, cfg.C)
	w.chain = []ad.Matrix{w.base}
	w.roots = []ad.Matrix{w.base}
	w.view = w.base
	failStep = -1
	for k, s := range cfg.Path {
		var nv ad.Matrix
		func() {
			defer func() {
				if r := recover(); r != nil {
					perr = fmt.Sprint(r)
					failStep = k
				}
			}()
			nv = applyStep(w.view, s)
		}()
		if failStep >= 0 {
			return w, failStep, perr
		}
		cp := copyingT(cfg.Sto) && (s.Op == "T" || s.Op == "MT")
		w.m.step(s, cp)
		w.view = nv
		w.chain = append(w.chain, nv)
		if cp {
			w.roots = append(w.roots, nv)
		}
	}
	return w, -1, ""
}

func (w *world) root() ad.Matrix { return w.roots[len(w.roots)-1] }

// view class for violation keys
func (w *world) class() string {
	m := w.m
	if m.rows == 0 || m.cols == 0 {
		if m.nT > 0 {
			return "T-empty"
		}
		return "empty"
	}
	proper := m.rows*m.cols < w.cfg.R*w.cfg.C
	t := ""
	if m.nT > 0 {
		if copyingT(w.cfg.Sto) {
			t = "Tcopy"
		} else if m.nT%2 == 1 {
			t = "T"
		} else {
			t = "TT"
		}
	}
	s := ""
	if proper {
		s = "slice"
	}
	switch {
	case t == "" && s == "":
		return "full"
	case t == "":
		return s
	case s == "":
		return t
	}
	return t + "-" + s
}

// ---- observations ---------------------------------------------------------------

type cell struct {
	V float64
	P bool // reading the cell panicked
}

func (a cell) eq(b cell) bool {
	if a.P || b.P {
		return a.P == b.P
	}
	return math.Float64bits(a.V) == math.Float64bits(b.V) || (a.V != a.V && b.V != b.V)
}

func (a cell) String() string {
	if a.P {
		return "PANIC"
	}
	return fmt.Sprint(a.V)
}

type snapT struct {
	R, C int
	V    []cell
	Err  string
}

func readCell(m ad.ConstMatrix, i, j int) (c cell) {
	defer func() {
		if r := recover(); r != nil {
			c = cell{P: true}
		}
	}()
	return cell{V: m.Float64At(i, j)}
}

func snap(m ad.ConstMatrix) (s snapT) {
	defer func() {
		if r := recover(); r != nil {
			s.Err = fmt.Sprint(r)
		}
	}()
	s.R, s.C = m.Dims()
	s.V = make([]cell, 0, s.R*s.C)
	for i := 0; i < s.R; i++ {
		for j := 0; j < s.C; j++ {
			s.V = append(s.V, readCell(m, i, j))
		}
	}
	return s
}

func (s snapT) at(i, j int) cell { return s.V[i*s.C+j] }

func (s snapT) eq(o snapT) bool {
	if s.R != o.R || s.C != o.C || s.Err != o.Err || len(s.V) != len(o.V) {
		return false
	}
	for k := range s.V {
		if !s.V[k].eq(o.V[k]) {
			return false
		}
	}
	return true
}

func (s snapT) String() string {
	if s.Err != "" {
		return "snapshot-panic(" + s.Err + ")"
	}
	var sb strings.Builder
	fmt.Fprintf(&sb, "%dx%d[", s.R, s.C)
	for i := 0; i < s.R; i++ {
		if i > 0 {
			sb.WriteString("; ")
		}
		for j := 0; j < s.C; j++ {
			if j > 0 {
				sb.WriteString(" ")
			}
			sb.WriteString(s.at(i, j).String())
		}
	}
	sb.WriteString("]")
	return sb.String()
}

func snapOfContent(v [][]float64, r, c int) snapT {
	s := snapT{R: r, C: c}
	for i := 0; i < r; i++ {
		for j := 0; j < c; j++ {
			s.V = append(s.V, cell{V: v[i][j]})
		}
	}
	return s
}

// res is what one scenario observed
type res struct {
	F     []float64
	S     []string
	Panic string
}

func (r *res) f(x ...float64) { r.F = append(r.F, x...) }
func (r *res) s(x ...string)  { r.S = append(r.S, x...) }
func (r *res) b(x bool) {
	if x {
		r.F = append(r.F, 1)
	} else {
		r.F = append(r.F, 0)
	}
}
func (r *res) snap(m ad.ConstMatrix) {
	s := snap(m)
	r.F = append(r.F, float64(s.R), float64(s.C))
	for _, c := range s.V {
		if c.P {
			r.S = append(r.S, "P")
			r.F = append(r.F, 0)
		} else {
			r.F = append(r.F, c.V)
		}
	}
	if s.Err != "" {
		r.S = append(r.S, "snap-panic")
	}
}
func (r *res) vec(v ad.ConstVector) {
	n := v.Dim()
	r.F = append(r.F, float64(n))
	for i := 0; i < n; i++ {
		r.F = append(r.F, v.Float64At(i))
	}
}

func (a *res) eq(b *res) bool {
	if (a.Panic != "") != (b.Panic != "") || len(a.F) != len(b.F) || len(a.S) != len(b.S) {
		return false
	}
	for i := range a.F {
		if math.Float64bits(a.F[i]) != math.Float64bits(b.F[i]) && !(a.F[i] != a.F[i] && b.F[i] != b.F[i]) {
			return false
		}
	}
	for i := range a.S {
		if a.S[i] != b.S[i] {
			return false
		}
	}
	return true
}

func (a *res) String() string {
	s := fmt.Sprint(a.F)
	if len(a.S) > 0 {
		s += fmt.Sprintf("%q", a.S)
	}
	if a.Panic != "" {
		s += " PANIC(" + a.Panic + ")"
	}
	if len(s) > 300 {
		s = s[:300] + "..."
	}
	return s
}

// ---- reflection helper for the concrete (capital letter) methods -----------------

// callMiss counts, per method name, the calls that could NOT be made (method missing or an
// argument of the wrong type): reported as counters so that a vacuous scenario is visible
var callMiss = map[string]int64{}

func callM(recv any, name string, args ...any) (out []reflect.Value, ok bool) {
	m := reflect.ValueOf(recv).MethodByName(name)
	if !m.IsValid() {
		callMiss[name]++
		return nil, false
	}
	mt := m.Type()
	if mt.NumIn() != len(args) || mt.IsVariadic() {
		callMiss[name]++
		return nil, false
	}
	in := make([]reflect.Value, len(args))
	for i, a := range args {
		in[i] = reflect.ValueOf(a)
		if !in[i].IsValid() || !in[i].Type().AssignableTo(mt.In(i)) {
			callMiss[name]++
			return nil, false
		}
	}
	return m.Call(in), true
}

// ---- scratch files -----------------------------------------------------------------

var scratchDir string

func scratchFile(name string) string {
	if scratchDir == "" {
		base := os.Getenv("VERIF_SCRATCH")
		if base == "" {
			base = os.TempDir()
		}
		d, err := os.MkdirTemp(base, "c10-")
		if err != nil {
			panic(err)
		}
		scratchDir = d
	}
	return filepath.Join(scratchDir, name)
}

func cleanupScratch() {
	if scratchDir != "" {
		os.RemoveAll(scratchDir)
	}
}
