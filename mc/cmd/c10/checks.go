package main

import (
	"encoding/json"
	"fmt"
	"reflect"
	"sort"
	"strings"

	ad "github.com/pbenner/autodiff"
)

// ---- scenarios: the per-state alphabet ---------------------------------------------

// A scenario is executed twice: on the view (real objects rebuilt by replay) and on an
// independent deep copy holding the same elements (same storage class and element type,
// built cell by cell from the reference model). Both executions must observe the same
// result and leave the object under test in the same state; what the view execution did
// to the root object is compared with the denotation map.
type scenario struct {
	name string
	mut  bool // the scenario legitimately writes into the matrix under test
	run  func(v ad.Matrix, e *env, r *res)
}

type env struct {
	sto, typ string
	T        ad.ScalarType
	thorough bool
	state    Cfg // the explored state (its path is replayed for the "twin" operand, operands.go)
	// plain is set for the execution on the deep copy: every operand that is a VIEW in the
	// execution on the view (operands.go) is then an owning matrix/vector with the same
	// elements, so the reference execution contains no view at all
	plain bool
	made  []*madeOp  // operand views (or their plain counterparts) in order of creation
	vmade []*madeVec // the same for vector slices
}

// opndContent is the content of the auxiliary operands: small positive integers, with
// (zeros) or without zero entries
func opndContent(r, c, seed int, zeros bool) [][]float64 {
	v := make([][]float64, r)
	for i := 0; i < r; i++ {
		v[i] = make([]float64, c)
		for j := 0; j < c; j++ {
			if zeros {
				v[i][j] = float64((i + 2*j + seed) % 3)
			} else {
				v[i][j] = float64(1 + (2*i+3*j+seed)%4)
			}
		}
	}
	return v
}

func (e *env) opnd(sto string, r, c, seed int, zeros bool) ad.Matrix {
	return matFrom(sto, e.typ, opndContent(r, c, seed, zeros), r, c)
}

func (e *env) vecOp(n, seed int) ad.Vector {
	v := ad.NullDenseVector(e.T, n)
	for i := 0; i < n; i++ {
		v.At(i).SetFloat64(float64(1 + (i+seed)%3))
	}
	return v
}

func (e *env) null(r, c int) ad.Matrix { return newMat(e.sto, e.typ, r, c) }

func perms(n int) [][]int {
	if n == 0 {
		return [][]int{{}}
	}
	var out [][]int
	var rec func(cur []int, used int)
	rec = func(cur []int, used int) {
		if len(cur) == n {
			out = append(out, append([]int{}, cur...))
			return
		}
		for k := 0; k < n; k++ {
			if used&(1<<k) == 0 {
				rec(append(cur, k), used|1<<k)
			}
		}
	}
	rec(nil, 0)
	return out
}

const iterBound = 40

type matIter interface {
	Ok() bool
	Next()
	Index() (int, int)
	GetConst() ad.ConstScalar
}

func walkIter(it matIter, r *res) {
	n := 0
	for ; it.Ok(); it.Next() {
		if n > iterBound {
			r.s("NONTERM")
			return
		}
		i, j := it.Index()
		s := it.GetConst()
		if s == nil {
			r.f(float64(i), float64(j))
			r.s("nil")
		} else {
			r.f(float64(i), float64(j), s.GetFloat64())
		}
		n++
	}
	r.f(-1)
}

func sc(name string, mut bool, run func(v ad.Matrix, e *env, r *res)) scenario {
	return scenario{name, mut, run}
}

// which selects the scenario families: "all", or "zero" (the zero-pattern sensitive subset
// used for the zero-pattern bases)
func scenarios(e *env, rows, cols int, hasZero bool, which string) []scenario {
	var L []scenario
	add := func(s scenario) { L = append(L, s) }
	empty := rows == 0 || cols == 0
	full := which == "all"

	// ---- reads
	add(sc("At", false, func(v ad.Matrix, e *env, r *res) {
		n, m := v.Dims()
		r.f(float64(n), float64(m))
		for i := 0; i < n; i++ {
			for j := 0; j < m; j++ {
				r.f(v.ConstAt(i, j).GetFloat64(), v.At(i, j).GetFloat64(), v.Float64At(i, j), float64(v.Float32At(i, j)),
					float64(v.IntAt(i, j)), float64(v.Int8At(i, j)), float64(v.Int16At(i, j)), float64(v.Int32At(i, j)), float64(v.Int64At(i, j)))
			}
		}
		r.s(fmt.Sprint(v.ElementType()))
	}))
	if full {
		add(sc("AT", false, func(v ad.Matrix, e *env, r *res) {
			n, m := v.Dims()
			for i := 0; i < n; i++ {
				for j := 0; j < m; j++ {
					if out, ok := callM(v, "AT", i, j); ok {
						r.f(out[0].Interface().(ad.ConstScalar).GetFloat64())
					}
					if mm, ok := v.(ad.MagicMatrix); ok {
						r.f(mm.MagicAt(i, j).GetFloat64())
					}
				}
			}
		}))
	}
	// ---- rows, columns, diagonals: copies must not write through, const variants read only
	if full && !empty {
		for i := 0; i < rows; i++ {
			i := i
			add(sc("Row", false, func(v ad.Matrix, e *env, r *res) {
				x := v.Row(i)
				r.vec(x)
				for k := 0; k < x.Dim(); k++ {
					x.At(k).SetFloat64(77)
				}
			}))
			add(sc("ROW", false, func(v ad.Matrix, e *env, r *res) {
				if out, ok := callM(v, "ROW", i); ok {
					x := out[0].Interface().(ad.Vector)
					r.vec(x)
					for k := 0; k < x.Dim(); k++ {
						x.At(k).SetFloat64(77)
					}
				}
			}))
			add(sc("ConstRow", false, func(v ad.Matrix, e *env, r *res) { r.vec(v.ConstRow(i)) }))
		}
		for j := 0; j < cols; j++ {
			j := j
			add(sc("Col", false, func(v ad.Matrix, e *env, r *res) {
				x := v.Col(j)
				r.vec(x)
				for k := 0; k < x.Dim(); k++ {
					x.At(k).SetFloat64(77)
				}
			}))
			add(sc("COL", false, func(v ad.Matrix, e *env, r *res) {
				if out, ok := callM(v, "COL", j); ok {
					x := out[0].Interface().(ad.Vector)
					r.vec(x)
					for k := 0; k < x.Dim(); k++ {
						x.At(k).SetFloat64(77)
					}
				}
			}))
			add(sc("ConstCol", false, func(v ad.Matrix, e *env, r *res) { r.vec(v.ConstCol(j)) }))
		}
		add(sc("Diag", false, func(v ad.Matrix, e *env, r *res) {
			x := v.Diag()
			r.vec(x)
			for k := 0; k < x.Dim(); k++ {
				x.At(k).SetFloat64(77)
			}
		}))
		add(sc("DIAG", false, func(v ad.Matrix, e *env, r *res) {
			if out, ok := callM(v, "DIAG"); ok {
				x := out[0].Interface().(ad.Vector)
				r.vec(x)
				for k := 0; k < x.Dim(); k++ {
					x.At(k).SetFloat64(77)
				}
			}
		}))
		add(sc("ConstDiag", false, func(v ad.Matrix, e *env, r *res) { r.vec(v.ConstDiag()) }))
	}
	// ---- reinterpretation as a vector: all elements, order unspecified
	asvec := func(name string, get func(v ad.Matrix) ad.ConstVector) {
		add(sc(name, false, func(v ad.Matrix, e *env, r *res) {
			x := get(v)
			if x == nil {
				return
			}
			n := x.Dim()
			vals := make([]float64, n)
			for i := 0; i < n; i++ {
				vals[i] = x.Float64At(i)
			}
			sort.Float64s(vals)
			r.f(float64(n))
			r.f(vals...)
		}))
	}
	asvec("AsVector", func(v ad.Matrix) ad.ConstVector { return v.AsVector() })
	asvec("AsConstVector", func(v ad.Matrix) ad.ConstVector { return v.AsConstVector() })
	if isReal(e.typ) {
		asvec("AsMagicVector", func(v ad.Matrix) ad.ConstVector { return v.(ad.MagicMatrix).AsMagicVector() })
	}
	// ---- iterators: full sequences
	add(sc("ConstIterator", false, func(v ad.Matrix, e *env, r *res) { walkIter(v.ConstIterator(), r) }))
	add(sc("Iterator", false, func(v ad.Matrix, e *env, r *res) { walkIter(v.Iterator(), r) }))
	if isReal(e.typ) {
		add(sc("MagicIterator", false, func(v ad.Matrix, e *env, r *res) { walkIter(v.(ad.MagicMatrix).MagicIterator(), r) }))
	}
	for i := 0; i < rows; i++ {
		for j := 0; j < cols; j++ {
			i, j := i, j
			add(sc("IteratorFrom", false, func(v ad.Matrix, e *env, r *res) { walkIter(v.IteratorFrom(i, j), r) }))
			add(sc("ConstIteratorFrom", false, func(v ad.Matrix, e *env, r *res) { walkIter(v.ConstIteratorFrom(i, j), r) }))
		}
	}
	for _, x := range []string{"", "/x"} {
		x := x
		osto := e.sto
		if x != "" {
			osto = otherSto(e.sto)
		}
		add(sc("JointIterator:r"+x, false, func(v ad.Matrix, e *env, r *res) {
			n, m := v.Dims()
			b := e.opnd(osto, n, m, 1, true)
			k := 0
			for it := v.JointIterator(b); it.Ok(); it.Next() {
				if k > iterBound {
					r.s("NONTERM")
					return
				}
				i, j := it.Index()
				s1, s2 := it.GetConst()
				r.f(float64(i), float64(j))
				for _, s := range []ad.ConstScalar{s1, s2} {
					if s == nil {
						r.s("nil")
					} else {
						r.f(s.GetFloat64())
					}
				}
				k++
			}
		}))
		add(sc("JointIterator:b"+x, false, func(v ad.Matrix, e *env, r *res) {
			n, m := v.Dims()
			a := e.opnd(osto, n, m, 1, true)
			k := 0
			for it := a.JointIterator(v); it.Ok(); it.Next() {
				if k > iterBound {
					r.s("NONTERM")
					return
				}
				i, j := it.Index()
				s1, s2 := it.GetConst()
				r.f(float64(i), float64(j))
				for _, s := range []ad.ConstScalar{s1, s2} {
					if s == nil {
						r.s("nil")
					} else {
						r.f(s.GetFloat64())
					}
				}
				k++
			}
		}))
	}
	add(sc("Iterator.Get.Set", true, func(v ad.Matrix, e *env, r *res) {
		k := 0
		for it := v.Iterator(); it.Ok(); it.Next() {
			if k > iterBound {
				r.s("NONTERM")
				return
			}
			it.Get().SetFloat64(99)
			k++
		}
	}))

	// ---- writes through the view
	if full {
		for i := 0; i < rows; i++ {
			for j := 0; j < cols; j++ {
				i, j := i, j
				add(sc("At.Set", true, func(v ad.Matrix, e *env, r *res) { v.At(i, j).SetFloat64(99) }))
				add(sc("At.Reset", true, func(v ad.Matrix, e *env, r *res) { v.At(i, j).Reset() }))
			}
		}
	}

	// ---- arithmetic with the view as receiver and as operand
	if !empty {
		type bop struct {
			name string
			f    func(r ad.Matrix, a, b ad.ConstMatrix) ad.Matrix
		}
		bops := []bop{
			{"MaddM", func(r ad.Matrix, a, b ad.ConstMatrix) ad.Matrix { return r.MaddM(a, b) }},
			{"MsubM", func(r ad.Matrix, a, b ad.ConstMatrix) ad.Matrix { return r.MsubM(a, b) }},
			{"MmulM", func(r ad.Matrix, a, b ad.ConstMatrix) ad.Matrix { return r.MmulM(a, b) }},
			{"MdivM", func(r ad.Matrix, a, b ad.ConstMatrix) ad.Matrix { return r.MdivM(a, b) }},
		}
		type sop struct {
			name string
			c    float64
			f    func(r ad.Matrix, a ad.ConstMatrix, b ad.ConstScalar) ad.Matrix
		}
		sops := []sop{
			{"MaddS", 1, func(r ad.Matrix, a ad.ConstMatrix, b ad.ConstScalar) ad.Matrix { return r.MaddS(a, b) }},
			{"MsubS", 1, func(r ad.Matrix, a ad.ConstMatrix, b ad.ConstScalar) ad.Matrix { return r.MsubS(a, b) }},
			{"MmulS", 3, func(r ad.Matrix, a ad.ConstMatrix, b ad.ConstScalar) ad.Matrix { return r.MmulS(a, b) }},
			{"MdivS", 2, func(r ad.Matrix, a ad.ConstMatrix, b ad.ConstScalar) ad.Matrix { return r.MdivS(a, b) }},
		}
		for _, x := range []string{"", "/x"} {
			x := x
			osto := e.sto
			if x != "" {
				osto = otherSto(e.sto)
			}
			for _, op := range bops {
				op := op
				add(sc(op.name+":r"+x, true, func(v ad.Matrix, e *env, r *res) {
					n, m := v.Dims()
					ret := op.f(v, e.opnd(osto, n, m, 1, false), e.opnd(osto, n, m, 2, false))
					r.b(ret == v)
				}))
				// the operand-side results go into a receiver of the OTHER operand's storage
				// class as well as the view's own
				add(sc(op.name+":a"+x, false, func(v ad.Matrix, e *env, r *res) {
					n, m := v.Dims()
					z := newMat(osto, e.typ, n, m)
					op.f(z, v, e.opnd(osto, n, m, 2, false))
					r.snap(z)
				}))
				if op.name != "MdivM" || !hasZero {
					add(sc(op.name+":b"+x, false, func(v ad.Matrix, e *env, r *res) {
						n, m := v.Dims()
						z := newMat(osto, e.typ, n, m)
						op.f(z, e.opnd(osto, n, m, 1, true), v)
						r.snap(z)
					}))
				}
			}
			for _, op := range sops {
				op := op
				add(sc(op.name+":r"+x, true, func(v ad.Matrix, e *env, r *res) {
					n, m := v.Dims()
					op.f(v, e.opnd(osto, n, m, 1, true), ad.NewScalar(e.T, op.c))
				}))
				add(sc(op.name+":a"+x, false, func(v ad.Matrix, e *env, r *res) {
					n, m := v.Dims()
					z := newMat(osto, e.typ, n, m)
					op.f(z, v, ad.NewScalar(e.T, op.c))
					r.snap(z)
				}))
			}
			add(sc("MdotM:r"+x, true, func(v ad.Matrix, e *env, r *res) {
				n, m := v.Dims()
				v.MdotM(e.opnd(osto, n, 2, 1, false), e.opnd(osto, 2, m, 2, true))
			}))
			add(sc("MdotM:a"+x, false, func(v ad.Matrix, e *env, r *res) {
				n, m := v.Dims()
				z := newMat(osto, e.typ, n, 2)
				z.MdotM(v, e.opnd(osto, m, 2, 1, true))
				r.snap(z)
			}))
			add(sc("MdotM:b"+x, false, func(v ad.Matrix, e *env, r *res) {
				n, m := v.Dims()
				z := newMat(osto, e.typ, 2, m)
				z.MdotM(e.opnd(osto, 2, n, 1, true), v)
				r.snap(z)
			}))
			add(sc("Set:r"+x, true, func(v ad.Matrix, e *env, r *res) {
				n, m := v.Dims()
				v.Set(e.opnd(osto, n, m, 1, true))
			}))
			add(sc("Set:a"+x, false, func(v ad.Matrix, e *env, r *res) {
				n, m := v.Dims()
				z := e.opnd(osto, n, m, 2, false)
				z.Set(v)
				r.snap(z)
			}))
			add(sc("Equals:r"+x, false, func(v ad.Matrix, e *env, r *res) {
				n, m := v.Dims()
				same := newMat(osto, e.typ, n, m)
				for i := 0; i < n; i++ {
					for j := 0; j < m; j++ {
						if f := v.Float64At(i, j); f != 0 {
							same.At(i, j).SetFloat64(f)
						}
					}
				}
				r.b(v.Equals(same, 1e-8))
				r.b(same.Equals(v, 1e-8))
				// perturb every single cell in turn
				for i := 0; i < n; i++ {
					for j := 0; j < m; j++ {
						old := same.Float64At(i, j)
						same.At(i, j).SetFloat64(old + 1)
						r.b(v.Equals(same, 1e-8))
						r.b(same.Equals(v, 1e-8))
						same.At(i, j).SetFloat64(old)
					}
				}
			}))
			// conversions read the view through its iterator / element access
			add(sc("AsMatrix:a"+x, false, func(v ad.Matrix, e *env, r *res) {
				if osto == "dense" {
					r.snap(ad.AsDenseMatrix(e.T, v))
				} else {
					r.snap(ad.AsSparseMatrix(e.T, v))
				}
			}))
		}
		if full {
			add(sc("Outer:r", true, func(v ad.Matrix, e *env, r *res) {
				n, m := v.Dims()
				v.Outer(e.vecOp(n, 0), e.vecOp(m, 1))
			}))
			// scalar reductions over a matrix operand
			add(sc("Mnorm:a", false, func(v ad.Matrix, e *env, r *res) {
				s := ad.NullScalar(e.T)
				s.Mnorm(v)
				r.f(s.GetFloat64())
			}))
			add(sc("Mtrace:a", false, func(v ad.Matrix, e *env, r *res) {
				s := ad.NullScalar(e.T)
				s.Mtrace(v)
				r.f(s.GetFloat64())
			}))
			// vector <- matrix . vector
			add(sc("MdotV:a", false, func(v ad.Matrix, e *env, r *res) {
				n, m := v.Dims()
				z := ad.NullDenseVector(e.T, n)
				z.MdotV(v, e.vecOp(m, 0))
				r.vec(z)
			}))
			add(sc("VdotM:b", false, func(v ad.Matrix, e *env, r *res) {
				n, m := v.Dims()
				z := ad.NullDenseVector(e.T, m)
				z.VdotM(e.vecOp(n, 0), v)
				r.vec(z)
			}))
			// concrete-typed methods (dense types)
			type cop struct {
				name  string
				arity int // number of matrix operands
				c     float64
			}
			for _, op := range []cop{{"MADDM", 2, 0}, {"MSUBM", 2, 0}, {"MMULM", 2, 0}, {"MDIVM", 2, 0}, {"MADDS", 1, 1}, {"MSUBS", 1, 1}, {"MMULS", 1, 3}, {"MDIVS", 1, 2}} {
				op := op
				if _, ok := callMProbe(e.null(1, 1), op.name); !ok {
					continue
				}
				args := func(e *env, a, b ad.Matrix) []any {
					if op.arity == 2 {
						return []any{a, b}
					}
					return []any{a, ad.NewScalar(e.T, op.c)}
				}
				add(sc(op.name+":r", true, func(v ad.Matrix, e *env, r *res) {
					n, m := v.Dims()
					callM(v, op.name, args(e, e.opnd(e.sto, n, m, 1, false), e.opnd(e.sto, n, m, 2, false))...)
				}))
				add(sc(op.name+":a", false, func(v ad.Matrix, e *env, r *res) {
					n, m := v.Dims()
					z := e.null(n, m)
					callM(z, op.name, args(e, v, e.opnd(e.sto, n, m, 2, false))...)
					r.snap(z)
				}))
				if op.arity == 2 && (op.name != "MDIVM" || !hasZero) {
					add(sc(op.name+":b", false, func(v ad.Matrix, e *env, r *res) {
						n, m := v.Dims()
						z := e.null(n, m)
						callM(z, op.name, e.opnd(e.sto, n, m, 1, false), v)
						r.snap(z)
					}))
				}
			}
			if _, ok := callMProbe(e.null(1, 1), "MDOTM"); ok {
				add(sc("MDOTM:r", true, func(v ad.Matrix, e *env, r *res) {
					n, m := v.Dims()
					callM(v, "MDOTM", e.opnd(e.sto, n, 2, 1, false), e.opnd(e.sto, 2, m, 2, true))
				}))
				add(sc("MDOTM:a", false, func(v ad.Matrix, e *env, r *res) {
					n, m := v.Dims()
					z := e.null(n, 2)
					callM(z, "MDOTM", v, e.opnd(e.sto, m, 2, 1, true))
					r.snap(z)
				}))
				add(sc("MDOTM:b", false, func(v ad.Matrix, e *env, r *res) {
					n, m := v.Dims()
					z := e.null(2, m)
					callM(z, "MDOTM", e.opnd(e.sto, 2, n, 1, true), v)
					r.snap(z)
				}))
				add(sc("EQUALS", false, func(v ad.Matrix, e *env, r *res) {
					n, m := v.Dims()
					same := e.null(n, m)
					for i := 0; i < n; i++ {
						for j := 0; j < m; j++ {
							same.At(i, j).SetFloat64(v.Float64At(i, j))
						}
					}
					for k := -1; k < n*m; k++ {
						if k >= 0 {
							same.At(k/m, k%m).SetFloat64(same.Float64At(k/m, k%m) + 1)
						}
						if out, ok := callM(v, "EQUALS", same, 1e-8); ok {
							r.b(out[0].Bool())
						}
						if out, ok := callM(same, "EQUALS", v, 1e-8); ok {
							r.b(out[0].Bool())
						}
						if k >= 0 {
							same.At(k/m, k%m).SetFloat64(same.Float64At(k/m, k%m) - 1)
						}
					}
				}))
			}
		}
	}
	add(sc("IsSymmetric", false, func(v ad.Matrix, e *env, r *res) { r.b(v.IsSymmetric(1e-8)) }))

	// ---- the same operations with operands that are views themselves (operands.go)
	if !empty {
		operandScenarios(e, add, !full, hasZero)
	}

	// ---- in-place mutators
	if full {
		for i := 0; i < rows; i++ {
			for j := i + 1; j < rows; j++ {
				i, j := i, j
				add(sc("SwapRows", true, func(v ad.Matrix, e *env, r *res) { r.b(v.SwapRows(i, j) == nil) }))
			}
		}
		for i := 0; i < cols; i++ {
			for j := i + 1; j < cols; j++ {
				i, j := i, j
				add(sc("SwapColumns", true, func(v ad.Matrix, e *env, r *res) { r.b(v.SwapColumns(i, j) == nil) }))
			}
		}
		if !empty {
			add(sc("Swap", true, func(v ad.Matrix, e *env, r *res) {
				n, m := v.Dims()
				v.Swap(0, 0, n-1, m-1)
			}))
			if rows > 1 && cols > 1 {
				add(sc("Swap", true, func(v ad.Matrix, e *env, r *res) { v.Swap(0, 1, 1, 0) }))
			}
		}
		if rows == cols {
			for _, pi := range perms(rows) {
				pi := pi
				add(sc("PermuteRows", true, func(v ad.Matrix, e *env, r *res) { r.b(v.PermuteRows(pi) == nil) }))
				add(sc("PermuteColumns", true, func(v ad.Matrix, e *env, r *res) { r.b(v.PermuteColumns(pi) == nil) }))
				add(sc("SymmetricPermutation", true, func(v ad.Matrix, e *env, r *res) { r.b(v.SymmetricPermutation(pi) == nil) }))
			}
		} else if !empty {
			// non-square: the call must behave as on the copy (an error)
			add(sc("PermuteRows", true, func(v ad.Matrix, e *env, r *res) { r.b(v.PermuteRows(perms(rows)[0]) == nil) }))
			add(sc("PermuteColumns", true, func(v ad.Matrix, e *env, r *res) { r.b(v.PermuteColumns(perms(cols)[0]) == nil) }))
		}
	}
	add(sc("Reset", true, func(v ad.Matrix, e *env, r *res) { v.Reset() }))
	add(sc("SetIdentity", true, func(v ad.Matrix, e *env, r *res) { v.SetIdentity() }))
	if full {
		add(sc("Map", true, func(v ad.Matrix, e *env, r *res) {
			k := 0
			v.Map(func(s ad.Scalar) { k++; s.SetFloat64(s.GetFloat64() + float64(k)) })
			r.f(float64(k))
		}))
		add(sc("MapSet", true, func(v ad.Matrix, e *env, r *res) {
			k := 0
			v.MapSet(func(s ad.ConstScalar) ad.Scalar { k++; return ad.NewScalar(e.T, s.GetFloat64()+float64(k)) })
			r.f(float64(k))
		}))
		add(sc("Reduce", false, func(v ad.Matrix, e *env, r *res) {
			k := 0
			s := v.Reduce(func(acc ad.Scalar, x ad.ConstScalar) ad.Scalar {
				k++
				acc.SetFloat64(acc.GetFloat64()*2 + x.GetFloat64()) // order sensitive, exact
				return acc
			}, ad.NullScalar(ad.Float64Type))
			r.f(float64(k), s.GetFloat64())
		}))
		if isReal(e.typ) {
			add(sc("Variables", true, func(v ad.Matrix, e *env, r *res) {
				err := v.(ad.MagicMatrix).Variables(1)
				r.b(err == nil)
				n, m := v.Dims()
				for i := 0; i < n; i++ {
					for j := 0; j < m; j++ {
						s := v.ConstAt(i, j)
						r.f(float64(s.GetOrder()))
						// which coordinate is the unit derivative at is not compared: the
						// numbering of variables in a view is the library's choice
					}
				}
			}))
			add(sc("ResetDerivatives", true, func(v ad.Matrix, e *env, r *res) {
				v.(ad.MagicMatrix).ResetDerivatives()
			}))
		}
	}

	// ---- printing, export, JSON
	add(sc("String", false, func(v ad.Matrix, e *env, r *res) { r.s(v.String()) }))
	add(sc("Table", false, func(v ad.Matrix, e *env, r *res) { r.s(v.Table()) }))
	add(sc("Export-Import", false, func(v ad.Matrix, e *env, r *res) {
		fn := scratchFile("m.table")
		if err := v.Export(fn); err != nil {
			r.s("export-error")
			return
		}
		z := e.null(1, 1)
		out, ok := callM(z, "Import", fn)
		if !ok {
			r.s("no-import")
			return
		}
		r.b(out[0].IsNil())
		r.snap(z)
	}))
	add(sc("JSON", false, func(v ad.Matrix, e *env, r *res) {
		b, err := v.MarshalJSON()
		r.b(err == nil)
		z := e.null(1, 1)
		err = json.Unmarshal(b, z)
		r.b(err == nil)
		r.snap(z)
	}))

	// ---- clones: equal and independent
	clone := func(name string, get func(v ad.Matrix) ad.Matrix) {
		add(sc(name, false, func(v ad.Matrix, e *env, r *res) {
			c := get(v)
			if c == nil {
				return
			}
			r.snap(c)
			n, m := c.Dims()
			for i := 0; i < n; i++ {
				for j := 0; j < m; j++ {
					c.At(i, j).SetFloat64(55)
				}
			}
		}))
	}
	clone("CloneMatrix", func(v ad.Matrix) ad.Matrix { return v.CloneMatrix() })
	if full {
		clone("CloneConstMatrix", func(v ad.Matrix) ad.Matrix { return v.CloneConstMatrix().(ad.Matrix) })
		clone("Clone", func(v ad.Matrix) ad.Matrix {
			if out, ok := callM(v, "Clone"); ok {
				return out[0].Interface().(ad.Matrix)
			}
			return nil
		})
		if isReal(e.typ) {
			clone("CloneMagicMatrix", func(v ad.Matrix) ad.Matrix { return v.(ad.MagicMatrix).CloneMagicMatrix() })
		}
		// a clone of a view keeps the view header: operate on the clone
		add(sc("Clone.MaddS", false, func(v ad.Matrix, e *env, r *res) {
			c := v.CloneMatrix()
			c.MaddS(c, ad.NewScalar(e.T, 1))
			r.snap(c)
		}))
		add(sc("Clone.Iterator", false, func(v ad.Matrix, e *env, r *res) { walkIter(v.CloneMatrix().ConstIterator(), r) }))
	}
	return L
}

func callMProbe(recv any, name string) (struct{}, bool) {
	return struct{}{}, reflect.ValueOf(recv).MethodByName(name).IsValid()
}

// ---- execution of one scenario on view and copy -----------------------------------------

type failure struct {
	key, what string
}

func exec(s scenario, v ad.Matrix, e *env) (r *res) {
	r = &res{}
	defer func() {
		if p := recover(); p != nil {
			r.Panic = fmt.Sprint(p)
			if r.Panic == "" {
				r.Panic = "panic"
			}
		}
	}()
	s.run(v, e, r)
	return r
}

// runScenario returns the failures of one scenario in the state cfg
func runScenario(cfg Cfg, e *env, s scenario) []failure {
	var fails []failure
	w, fs, perr := build(cfg)
	if fs >= 0 {
		return []failure{{"build|" + cfg.Sto + "|" + cfg.Path[fs].Op, "replaying the path panics: " + perr}}
	}
	cls := w.class()
	fail := func(what, detail string) {
		fails = append(fails, failure{s.name + "|" + cfg.Sto + "|" + cls + "|" + what, fmt.Sprintf("%s on %v: %s", s.name, cfg, detail)})
	}
	m := w.m
	content := m.viewContent()
	ev, ec := *e, *e
	ec.plain = true
	rv := exec(s, w.view, &ev)
	cp := matFrom(cfg.Sto, cfg.Typ, content, m.rows, m.cols)
	rc := exec(s, cp, &ec)
	afterView, afterCopy := snap(w.view), snap(cp)
	reported := false
	if !rv.eq(rc) {
		switch {
		case rv.Panic != "" && rc.Panic == "":
			fail("panic", "panics on the view ("+rv.Panic+") but not on a deep copy with the same elements "+snapOfContent(content, m.rows, m.cols).String())
		case rv.Panic == "" && rc.Panic != "":
			fail("no-panic", "deep copy panics ("+rc.Panic+"), view does not")
		default:
			fail("result", "view gives "+rv.String()+", deep copy "+snapOfContent(content, m.rows, m.cols).String()+" gives "+rc.String())
		}
		reported = true
	}
	if !afterView.eq(afterCopy) {
		if !reported {
			if s.mut {
				fail("state", "view afterwards "+afterView.String()+", deep copy afterwards "+afterCopy.String())
			} else {
				fail("modified", "read-only/copying use changed the view: "+afterView.String()+", deep copy afterwards "+afterCopy.String())
			}
		}
		reported = true
	}
	// what happened to the root object: cells the view denotes follow the copy, all other
	// cells keep their value
	rootCheck(w, afterCopy, reported, "parent", fail)
	// operands that were views themselves (operands.go): each must end like its owning
	// counterpart of the reference execution, and its own parent must have changed in
	// exactly the cells it denotes (not at all, if it was only read)
	checkOperands(&ev, &ec, reported, fail)
	return fails
}

// rootCheck compares the root object of the world w (and the sources of copying T()s)
// with what the view is supposed to have done to it: the cells the view denotes hold what
// the reference object `after` holds, every other cell keeps its value.
func rootCheck(w *world, after snapT, reported bool, who string, fail func(what, detail string)) {
	m := w.m
	root := w.root()
	afterRoot := snap(root)
	if afterRoot.Err != "" || afterRoot.R != m.rootR || afterRoot.C != m.rootC {
		fail("root-dims", who+" changed shape: "+afterRoot.String())
		return
	}
	inv := map[cellRef]cellRef{}
	for i := 0; i < m.rows; i++ {
		for j := 0; j < m.cols; j++ {
			inv[m.den[i][j]] = cellRef{i, j}
		}
	}
	elsewhere, nothrough := "", ""
	for i := 0; i < m.rootR; i++ {
		for j := 0; j < m.rootC; j++ {
			got := afterRoot.at(i, j)
			if vc, ok := inv[cellRef{i, j}]; ok {
				if after.Err == "" && after.R == m.rows && after.C == m.cols {
					if want := after.at(vc.I, vc.J); !got.eq(want) && nothrough == "" {
						nothrough = fmt.Sprintf("%s cell (%d,%d) = %v, denoted by view cell (%d,%d) which should now hold %v", who, i, j, got, vc.I, vc.J, want)
					}
				}
			} else if want := (cell{V: m.root[i][j]}); !got.eq(want) && elsewhere == "" {
				elsewhere = fmt.Sprintf("%s cell (%d,%d) outside the view changed from %v to %v", who, i, j, want, got)
			}
		}
	}
	if elsewhere != "" {
		fail("write-elsewhere", elsewhere+"; "+who+" afterwards "+afterRoot.String())
	}
	if nothrough != "" && !reported {
		fail("no-write-through", nothrough+"; "+who+" afterwards "+afterRoot.String())
	}
	// ancestors left behind by a copying T(): every cell keeps its value or follows the
	// (partially shared) copy
	for k, a := range m.anc {
		as := snap(w.roots[k])
		if as.Err != "" || as.R != len(a.content) {
			fail("ancestor", "object a copying T() was taken from is no longer readable: "+as.String())
			break
		}
		bad := false
		for i := range a.content {
			for j := range a.content[i] {
				got := as.at(i, j)
				if got.eq(cell{V: a.content[i][j]}) {
					continue
				}
				if t := a.toRoot[i][j]; t != nil && got.eq(afterRoot.at(t.I, t.J)) {
					continue
				}
				if !bad {
					fail("ancestor", fmt.Sprintf("source of a copying T(): cell (%d,%d) was %v, now %v: neither unchanged nor the value written through the transposed copy", i, j, a.content[i][j], got))
					bad = true
				}
			}
		}
	}
}

// extra checks that are not differential --------------------------------------------------

// reads against the model itself (the deep copy is checked the same way: self test)
func readsVsModel(cfg Cfg) (fails []failure, harness string) {
	w, fs, perr := build(cfg)
	if fs >= 0 {
		return []failure{{"build|" + cfg.Sto + "|" + cfg.Path[fs].Op, "replaying the path panics: " + perr}}, ""
	}
	m := w.m
	want := snapOfContent(m.viewContent(), m.rows, m.cols)
	got := snap(w.view)
	if !got.eq(want) {
		what := "value"
		if got.R != want.R || got.C != want.C {
			what = "dims"
		} else if got.Err != "" || strings.Contains(got.String(), "PANIC") {
			what = "panic"
		}
		fails = append(fails, failure{"Float64At|" + cfg.Sto + "|" + w.class() + "|" + what,
			fmt.Sprintf("view of %v reads %v, its definition says %v", cfg, got, want)})
	}
	cp := matFrom(cfg.Sto, cfg.Typ, m.viewContent(), m.rows, m.cols)
	if s := snap(cp); !s.eq(want) {
		harness = fmt.Sprintf("deep copy built for %v reads %v, expected %v", cfg, s, want)
	}
	return fails, harness
}

// Tip() on a matrix that owns its whole storage leaves it equal to its former T()
func tipCheck(cfg Cfg, viaClone bool) []failure {
	w, fs, _ := build(cfg)
	if fs >= 0 {
		return nil
	}
	m := w.m
	v := w.view
	name := "Tip"
	if viaClone {
		v = v.CloneMatrix()
		name = "Clone.Tip"
	}
	want := snap(v.T())
	var perr string
	func() {
		defer func() {
			if r := recover(); r != nil {
				perr = fmt.Sprint(r)
			}
		}()
		v.Tip()
	}()
	got := snap(v)
	key := name + "|" + cfg.Sto + "|" + w.class() + "|"
	if perr != "" {
		return []failure{{key + "panic", fmt.Sprintf("%s on %v panics: %s", name, cfg, perr)}}
	}
	wantM := make([][]float64, m.cols)
	vc := m.viewContent()
	for j := range wantM {
		wantM[j] = make([]float64, m.rows)
		for i := range wantM[j] {
			wantM[j][i] = vc[i][j]
		}
	}
	if ws := snapOfContent(wantM, m.cols, m.rows); !want.eq(ws) {
		return nil // T() itself is wrong here: reported by the read checks of the T() state
	}
	if !got.eq(want) {
		return []failure{{key + "result", fmt.Sprintf("%s on %v gives %v, former T() was %v", name, cfg, got, want)}}
	}
	return nil
}

// Tip() on a view that does NOT own its whole storage (any state reached through Slice/T):
// it must either leave the view equal to its former T() and every root cell outside the
// window unchanged, or fail loudly and leave the root unchanged (a window that is not square
// cannot be rearranged inside the parent's storage). The caller sets a Guard: an in-place
// transposition that follows permutation cycles of the WHOLE storage may never return.
func tipViewCheck(cfg Cfg) (fails []failure, outcome string) {
	w, fs, _ := build(cfg)
	if fs >= 0 {
		return nil, ""
	}
	m := w.m
	v := w.view
	want := snap(v.T())
	rootBefore := snap(w.root())
	var perr string
	func() {
		defer func() {
			if r := recover(); r != nil {
				perr = fmt.Sprint(r)
			}
		}()
		v.Tip()
	}()
	key := "Tip(view)|" + cfg.Sto + "|" + w.class() + "|"
	rootAfter := snap(w.root())
	inView := map[cellRef]bool{}
	for i := 0; i < m.rows; i++ {
		for j := 0; j < m.cols; j++ {
			inView[m.den[i][j]] = true
		}
	}
	ownRoot := m.rows*m.cols == m.rootR*m.rootC // the view covers its whole root (e.g. the copy a sparse T() made): Tip reshapes the root itself
	if !ownRoot && (rootAfter.Err != "" || rootAfter.R != m.rootR || rootAfter.C != m.rootC) {
		return []failure{{key + "root-dims", fmt.Sprintf("Tip on %v changed the shape of the root: %s", cfg, rootAfter.String())}}, "fail"
	}
	for i := 0; !ownRoot && i < m.rootR; i++ {
		for j := 0; j < m.rootC; j++ {
			if (perr != "" || !inView[cellRef{i, j}]) && !rootAfter.at(i, j).eq(rootBefore.at(i, j)) {
				what := "write-elsewhere"
				if perr != "" {
					what = "refused-but-root-changed"
				}
				return []failure{{key + what, fmt.Sprintf("Tip on %v (%s): root cell (%d,%d) changed from %v to %v", cfg, perr, i, j, rootBefore.at(i, j), rootAfter.at(i, j))}}, "fail"
			}
		}
	}
	if perr != "" {
		return nil, "refused-loudly"
	}
	if got := snap(v); !got.eq(want) {
		return []failure{{key + "result", fmt.Sprintf("Tip on %v gives %v, former T() was %v", cfg, got, want)}}, "fail"
	}
	return nil, "transposed-in-place"
}

// vector -> matrix reinterpretation: AsMatrix(n,m).At(i,j) is element i*m+j; it is
// compared read-only (whether it is a reference or a copy is not documented). The vector is
// an owning vector, and a slice (off, off+R*C) of a longer one for (off, trailing margin) in
// {(1,0), (0,1), (2,1)}: the matrix made from a slice must read, iterate and transpose like
// the one made from the owning vector, and leave the longer vector alone.
func asMatrixCheck(sto, typ string, R, C int) []failure {
	var fails []failure
	T := scalarType(typ)
	type obs struct {
		s, t snapT
		it   *res
	}
	observe := func(name string, v ad.Vector) (o obs, perr string) {
		defer func() {
			if r := recover(); r != nil {
				perr = fmt.Sprint(r)
			}
		}()
		var m ad.ConstMatrix
		if name == "AsMatrix" {
			m = v.AsMatrix(R, C)
		} else {
			m = v.AsConstMatrix(R, C)
		}
		o.s = snap(m)
		o.it = &res{}
		walkIter(m.ConstIterator(), o.it)
		if mm, ok := m.(ad.Matrix); ok {
			o.t = snap(mm.T())
		}
		return o, ""
	}
	for _, name := range []string{"AsMatrix", "AsConstMatrix"} {
		var ref obs
		refOk := false
		for _, om := range [][2]int{{0, 0}, {1, 0}, {0, 1}, {2, 1}} {
			off, margin := om[0], om[1]
			n := R*C + off + margin
			p := newVec(sto, T, n)
			want := snapT{R: R, C: C}
			pwant := make([]cell, n)
			for k := 0; k < n; k++ {
				x := float64(sentinel0 + k)
				if k >= off && k < off+R*C {
					x = 0
					if q := k - off; q%3 != 2 {
						x = float64(q + 1)
					}
					want.V = append(want.V, cell{V: x})
				}
				if x != 0 {
					p.At(k).SetFloat64(x)
				}
				pwant[k] = cell{V: x}
			}
			v, cls := p, "vector"
			if off+margin > 0 {
				v, cls = p.Slice(off, off+R*C), "vector-slice"
			}
			key := name + "|" + sto + "|" + cls + "|"
			what := fmt.Sprintf("%s(%d,%d) of a %s %s vector", name, R, C, sto, typ)
			if off+margin > 0 {
				what = fmt.Sprintf("%s(%d,%d) of Slice(%d,%d) of a %s %s vector of dimension %d", name, R, C, off, off+R*C, sto, typ, n)
			}
			o, perr := observe(name, v)
			if perr != "" {
				fails = append(fails, failure{key + "panic", what + " panics: " + perr})
				continue
			}
			if !o.s.eq(want) {
				fails = append(fails, failure{key + "value", fmt.Sprintf("%s reads %v, expected %v", what, o.s, want)})
				continue
			}
			if off+margin == 0 {
				ref, refOk = o, true
			} else if refOk {
				if !o.it.eq(ref.it) {
					fails = append(fails, failure{key + "iterator", fmt.Sprintf("%s iterates %v, the matrix made from an owning vector with the same elements %v", what, o.it, ref.it)})
				}
				if !o.t.eq(ref.t) {
					fails = append(fails, failure{key + "T", fmt.Sprintf("%s: T() reads %v, for the matrix made from an owning vector with the same elements %v", what, o.t, ref.t)})
				}
			}
			if ps, perr := vecSnap(p); perr != "" || len(ps) != n {
				fails = append(fails, failure{key + "modified", fmt.Sprintf("%s: the vector is no longer readable (%s)", what, perr)})
			} else {
				for k := range ps {
					if !ps[k].eq(pwant[k]) {
						fails = append(fails, failure{key + "modified", fmt.Sprintf("%s: reading the reinterpretation changed element %d of the vector from %v to %v", what, k, pwant[k], ps[k])})
						break
					}
				}
			}
		}
	}
	return fails
}
