// C10: views and transposes address exactly the elements they denote.
//
// Explicit-state BFS to FIXPOINT over the finite view space of a base matrix: states are
// the views reachable by any composition of Slice/ConstSlice/MagicSlice (all bounds) and
// T/MagicT; canonical state = model denotation (window origin, dims, transposition) +
// implementation header read through the export overlay. In every state the per-state
// alphabet (checks.go) is executed on the view and on an independent deep copy.
package main

import (
	"encoding/json"
	"fmt"
	"os"
	"runtime"
	"runtime/debug"
	"sort"
	"strings"

	ad "github.com/pbenner/autodiff"
	"verif/mc/vf"
)

// canonical state key (comparable)
type skey struct {
	rows, cols, rowOff, rowMax, colOff, colMax int
	transposed                                 bool
	tmp1, tmp2                                 int
	sharesBase                                 bool
	// model side: window origin in base coordinates and transposition parity
	oi, oj int
	tr     bool
}

type bfsState struct {
	path []Step
	view ad.Matrix
	oi   int
	oj   int
	tr   bool
	rows int
	cols int
}

func keyOf(v ad.Matrix, baseStorage uintptr, s *bfsState) (skey, bool) {
	h := ad.VerifHeader(v)
	return skey{h.Rows, h.Cols, h.RowOffset, h.RowMax, h.ColOffset, h.ColMax, h.Transposed, h.Tmp1, h.Tmp2,
		h.Storage == baseStorage, s.oi, s.oj, s.tr}, h.Known
}

func (k skey) String() string {
	return fmt.Sprintf("hdr{%dx%d ro=%d/%d co=%d/%d t=%v tmp=%d,%d shared=%v} den{origin=(%d,%d) %dx%d transposed=%v}",
		k.rows, k.cols, k.rowOff, k.rowMax, k.colOff, k.colMax, k.transposed, k.tmp1, k.tmp2, k.sharesBase, k.oi, k.oj, k.rows, k.cols, k.tr)
}

func transitions(rows, cols int, real bool) []Step {
	var ts []Step
	ts = append(ts, Step{Op: "T"})
	if real {
		ts = append(ts, Step{Op: "MT"})
	}
	kinds := []string{"S", "CS"}
	if real {
		kinds = append(kinds, "MS")
	}
	for _, k := range kinds {
		for r0 := 0; r0 <= rows; r0++ {
			for r1 := r0; r1 <= rows; r1++ {
				for c0 := 0; c0 <= cols; c0++ {
					for c1 := c0; c1 <= cols; c1++ {
						if r0 == 0 && r1 == rows && c0 == 0 && c1 == cols && k != "S" {
							continue // identity slice: once is enough
						}
						ts = append(ts, Step{Op: k, A: [4]int{r0, r1, c0, c1}})
					}
				}
			}
		}
	}
	return ts
}

type Case struct {
	Cfg      Cfg    `json:"state"`
	Which    string `json:"alphabet"`
	Key      string `json:"key"`
	Thorough bool   `json:"thorough,omitempty"` // tier of the operand-view menu (operands.go)
}

var typeIdx = map[string]int{}

// debugging aid: C10_DUMP=1 prints the enumeration order of the states to stderr
var dumpStates = os.Getenv("C10_DUMP") != ""

// executions per scenario name (evidence against vacuity), flushed at the end of Run
var scCount = map[string]int64{}

func rank(cfg Cfg) int64 {
	return int64(len(cfg.Path))*1_000_000 + int64(cfg.R*cfg.C)*10_000 + int64(typeIdx[cfg.Typ])*100 + int64(len(cfg.Content))
}

type explorer struct {
	c      *vf.Ctx
	idx    int64
	states int64
	trans  int64
}

func (x *explorer) report(cfg Cfg, which string, fails []failure) {
	for _, f := range fails {
		x.c.Violate(f.key, f.what, rank(cfg), Case{cfg, which, f.key, x.c.Thorough()})
		x.c.Outcome("fail:" + strings.SplitN(f.key, "|", 2)[0])
	}
}

// perState runs the whole per-state alphabet on cfg and returns all failures
func perState(c *vf.Ctx, cfg Cfg, which string, thorough bool) []failure {
	var fails []failure
	w, fs, perr := build(cfg)
	if fs >= 0 {
		if dumpStates {
			fmt.Fprintf(os.Stderr, "BUILDFAIL %v: %s\n", cfg, perr)
		}
		return []failure{{"build|" + cfg.Sto + "|" + cfg.Path[fs].Op, "replaying the path panics: " + perr}}
	}
	e := &env{sto: cfg.Sto, typ: cfg.Typ, T: scalarType(cfg.Typ), thorough: thorough, state: cfg}
	hasZero := strings.HasPrefix(cfg.Content, "zp:")
	f, herr := readsVsModel(cfg)
	fails = append(fails, f...)
	if herr != "" && c != nil {
		c.HarnessError(herr)
	}
	n := int64(1)
	for _, s := range scenarios(e, w.m.rows, w.m.cols, hasZero, which) {
		if c != nil {
			c.Guard(s.name+"|"+cfg.Sto, rank(cfg), Case{cfg, which, s.name, thorough})
		}
		fails = append(fails, runScenario(cfg, e, s)...)
		scCount[s.name]++
		n++
	}
	if which == "all" {
		if len(cfg.Path) == 0 {
			fails = append(fails, tipCheck(cfg, false)...)
			fails = append(fails, asMatrixCheck(cfg.Sto, cfg.Typ, cfg.R, cfg.C)...)
			n += 9 // Tip, and {AsMatrix, AsConstMatrix} x {owning vector, three slices}
		} else if w.m.rows*w.m.cols == cfg.R*cfg.C && w.m.rows > 0 {
			// a clone of a full-window view owns its whole storage
			fails = append(fails, tipCheck(cfg, true)...)
			n++
		}
		if len(cfg.Path) > 0 && w.m.rows > 0 && w.m.cols > 0 {
			// Tip on the view itself (may not return: Guard)
			if c != nil {
				c.Guard("Tip(view)|"+cfg.Sto, rank(cfg), Case{cfg, which, "Tip(view)", thorough})
			}
			f, oc := tipViewCheck(cfg)
			fails = append(fails, f...)
			if c != nil && oc != "" {
				c.Count("Tip(view):"+cfg.Sto+":"+oc, 1)
			}
			n++
		}
	}
	if c != nil {
		c.Eval(n)
	}
	return fails
}

// explore one base configuration to fixpoint
func (x *explorer) explore(base Cfg, which string) {
	c := x.c
	w0, _, _ := build(base)
	// the base must stay reachable for the whole search: its storage address is compared
	// with the storage of later views (a collected base could have its address reused by a
	// transposed copy, which would change state keys from run to run)
	defer runtime.KeepAlive(w0)
	baseStorage := ad.VerifHeader(w0.base).Storage
	real := isReal(base.Typ)
	s0 := &bfsState{view: w0.base, rows: base.R, cols: base.C}
	k0, known := keyOf(w0.base, baseStorage, s0)
	if !known {
		c.HarnessError("export accessor does not know the header of " + base.String())
		return
	}
	seen := map[skey]bool{k0: true}
	frontier := []*bfsState{s0}
	visit := func(s *bfsState, k skey) {
		x.idx++
		x.states++
		if dumpStates {
			fmt.Fprintf(os.Stderr, "STATE %d %v %v %v\n", x.idx, base, s.path, k)
		}
		if which == "zero" && (s.rows == 0 || s.cols == 0) {
			return // empty windows do not depend on the zero pattern: covered by the distinct bases
		}
		if !c.Mine(x.idx) {
			return
		}
		cfg := base
		cfg.Path = s.path
		fails := perState(c, cfg, which, c.Thorough())
		if dumpStates {
			f2 := perState(nil, cfg, which, c.Thorough())
			ks := func(fs []failure) string {
				m := map[string]bool{}
				for _, f := range fs {
					m[f.key] = true
				}
				l := []string{}
				for k := range m {
					l = append(l, k)
				}
				sort.Strings(l)
				return strings.Join(l, " ")
			}
			if a, b := ks(fails), ks(f2); a != b {
				fmt.Fprintf(os.Stderr, "DIVERGE %v\n  1: %s\n  2: %s\n", cfg, a, b)
			}
		}
		x.report(cfg, which, fails)
		c.Traces(1)
		if len(s.path) > 0 && s.rows > 0 && s.cols > 0 {
			c.Nontrivial(1)
		}
		if len(fails) == 0 {
			c.Outcome(fmt.Sprintf("ok:%s,steps=%d,T=%v", base.Sto, len(s.path), s.tr))
		}
		if x.idx%997 == 0 {
			c.Sample(map[string]any{"state": cfg.String(), "key": k.String()})
		}
	}
	visit(s0, k0)
	depth := 0
	for len(frontier) > 0 {
		var next []*bfsState
		for _, s := range frontier {
			for _, t := range transitions(s.rows, s.cols, real) {
				x.trans++
				n := &bfsState{oi: s.oi, oj: s.oj, tr: s.tr, rows: s.rows, cols: s.cols}
				var perr string
				func() {
					defer func() {
						if r := recover(); r != nil {
							perr = fmt.Sprint(r)
						}
					}()
					n.view = applyStep(s.view, t)
				}()
				n.path = append(append(make([]Step, 0, len(s.path)+1), s.path...), t)
				if perr != "" {
					// the transition itself fails: report once per shard owner of the source
					if c.Mine(x.trans) {
						cfg := base
						cfg.Path = n.path
						src := base
						src.Path = s.path
						cls := "?"
						if ws, fs, _ := build(src); fs < 0 {
							cls = ws.class()
						}
						key := t.Op + "|" + base.Sto + "|" + cls + "|panic"
						c.Violate(key, fmt.Sprintf("%v on %v panics: %s", t, src, perr), rank(cfg), Case{cfg, which, key, c.Thorough()})
						c.Outcome("fail:transition")
					}
					continue
				}
				switch t.Op {
				case "T", "MT":
					n.tr = !s.tr
					n.rows, n.cols = s.cols, s.rows
				default:
					if s.tr {
						n.oi, n.oj = s.oi+t.A[2], s.oj+t.A[0]
					} else {
						n.oi, n.oj = s.oi+t.A[0], s.oj+t.A[2]
					}
					n.rows, n.cols = t.A[1]-t.A[0], t.A[3]-t.A[2]
				}
				k, known := keyOf(n.view, baseStorage, n)
				if !known {
					c.HarnessError("export accessor does not know the header after " + t.String())
					continue
				}
				if seen[k] {
					// The target state is known, but this TRANSITION (this operation applied
					// to this source view) still has to be validated on the implementation:
					// two paths with equal headers may have laid out the private storage
					// differently (a seeded change in sparse T() of a row slice was missed
					// because only the first path into each state was ever executed).
					if c.Mine(x.trans) {
						cfg := base
						cfg.Path = n.path
						f, herr := readsVsModel(cfg)
						if herr != "" {
							c.HarnessError(herr)
						}
						x.report(cfg, which, f)
						c.Eval(1)
						c.Count("transitions_into_known_states_validated", 1)
					}
					continue
				}
				seen[k] = true
				next = append(next, n)
				visit(n, k)
			}
		}
		frontier = next
		depth++
	}
	if c.Shard == 0 {
		c.States(int64(len(seen)))
		c.Trans(x.trans)
		c.Count(fmt.Sprintf("states_%s_%dx%d", base.Sto, base.R, base.C), int64(len(seen)))
		c.Count(fmt.Sprintf("bfs_depth_%s_%dx%d", base.Sto, base.R, base.C), int64(depth))
	}
	x.trans = 0
}

func run(c *vf.Ctx) {
	defer cleanupScratch()
	defer func() {
		for k, v := range scCount {
			c.Count("scenario:"+k, v)
		}
		for k, v := range callMiss {
			c.Count("reflective-call-not-possible:"+k, v)
		}
		c.Count("operand_views_judged_against_owning_counterpart", opPairs)
		c.Count("operand_vector_slices_judged_against_owning_counterpart", vecPairs)
	}()
	x := &explorer{c: c}
	maxR, maxC := 3, 3
	if c.Thorough() {
		maxR, maxC = 4, 4
	}
	for _, sto := range []string{"dense", "sparse"} {
		for ti, typ := range typeNames {
			for R := 1; R <= maxR; R++ {
				for C := 1; C <= maxC; C++ {
					if !c.Thorough() && ti >= 5 && R*C > 6 {
						continue // quick: 3x3 for five element types (both Real, both float, one int)
					}
					if c.Thorough() && ti >= 3 && R*C > 12 {
						continue // thorough: 4x4 for three element types
					}
					x.explore(Cfg{Sto: sto, Typ: typ, R: R, C: C, Content: "distinct"}, "all")
					if R == C && R > 1 && (ti < 2 || c.Thorough()) {
						x.explore(Cfg{Sto: sto, Typ: typ, R: R, C: C, Content: "sym"}, "zero")
					}
				}
			}
			// every zero pattern of a 2x3 and a 3x2 base
			if ti < 2 || c.Thorough() {
				for _, sh := range [][2]int{{2, 3}, {3, 2}} {
					for mask := 0; mask < 64; mask++ {
						x.explore(Cfg{Sto: sto, Typ: typ, R: sh[0], C: sh[1], Content: fmt.Sprintf("zp:%d", mask)}, "zero")
					}
				}
			}
		}
	}
}

func main() {
	// the harness allocates many short-lived small matrices and keeps little alive: a
	// quarter of the CPU time went into garbage collection at the default setting
	debug.SetGCPercent(400)
	for i, t := range typeNames {
		typeIdx[t] = i
	}
	if js := os.Getenv("C10_STATE"); js != "" {
		// debugging aid: print every failure of one state, e.g.
		// C10_STATE='{"storage":"sparse","type":"Float64","rows":2,"cols":3,"content":"zp:5","path":[]}'
		var cfg Cfg
		if err := json.Unmarshal([]byte(js), &cfg); err != nil {
			fmt.Println(err)
			os.Exit(2)
		}
		which := "all"
		if cfg.Content != "distinct" {
			which = "zero"
		}
		for _, f := range perState(nil, cfg, which, os.Getenv("C10_THOROUGH") != "") {
			fmt.Println(f.key, "::", f.what)
		}
		for k, v := range callMiss {
			fmt.Println("reflective call not possible:", k, v)
		}
		cleanupScratch()
		return
	}
	vf.Main(vf.Spec{
		ID:    "C10",
		Level: "model_checking",
		Rule: "explicit-state BFS to fixpoint over all views of a base RxC matrix reachable by compositions of Slice/ConstSlice/MagicSlice (all 0<=r0<=r1<=rows, 0<=c0<=c1<=cols) and T/MagicT, per storage class and element type; " +
			"a state is distinct by (implementation header rows/cols/offsets/maxima/transposed/scratch dims/shares-base-storage, model window origin+dims+transposition); in every state the per-state alphabet " +
			"(reads, Row/Col/Diag, AsVector, iterators, arithmetic as receiver and operand, Equals, permutations, Reset/SetIdentity/Map, printing, export, JSON, clones, Tip) runs on the view and on an independent deep copy; " +
			"every operation that reads a second matrix (Set, MaddM/MsubM/MmulM/MdivM, MaddS/../MdivS, MdotM, Equals, JointIterator and the concrete-typed variants) additionally runs with the auxiliary matrices taken from a fixed menu of VIEW states of independent parents " +
			"(twin = the explored view's own path on another base; T; Slice and T.Slice with offsets (1,2)+margins (1,1) and with zero offsets+margins (1,1); sparse: also Slice.T; thorough: all windows {0,1}x{0,2}x{0,1}x{0,1} of Slice/T.Slice/Slice.T, T.T, the other storage class, and all ordered pairs of unequal kinds for the two operands of element-wise operations), " +
			"in both roles (explored view = receiver with menu views as operands; menu view = receiver with the explored view as operand), Outer/OUTER/MdotV/VdotM with vector operands that are a slice of a longer vector / ConstRow / ConstCol of a matrix view; " +
			"the reference execution replaces every view by an owning deep copy; afterwards each menu view must equal its owning counterpart and its parent may differ only in the cells the view denotes; " +
			"zero-pattern bases: twin and T.Slice only (sparse: Set, element-wise, Equals, JointIterator; dense: Equals, JointIterator); " +
			"non-trivial = state with a non-empty path and a non-empty window",
		Assume: []string{
			"sparse T() is a partially sharing copy (code and C10 statement): writes through it are only required to leave the source either unchanged or updated at the denoted cell",
			"AsVector/AsConstVector element order is unspecified (matrix.go): compared as multisets",
			"the deep copy has the same storage class and element type as the view, so defects that do not depend on the view header cancel (they belong to C03/C11)",
			"export overlay accessors are read-only and used for state keys / class names only",
			"operand views are views of parents that share no storage with the explored view (aliasing between receiver and operands is C08's subject)",
			"the view state of the auxiliary operands is a fixed menu, not the full view space: the product explored is (all view states) x (menu) in both roles, not (all) x (all)",
		},
		Run: run,
		Replay: func(c *vf.Ctx, raw json.RawMessage) {
			defer cleanupScratch()
			var cs Case
			if err := json.Unmarshal(raw, &cs); err != nil {
				c.HarnessError(err.Error())
				return
			}
			fails := perState(nil, cs.Cfg, cs.Which, cs.Thorough)
			// a failing transition is the last step of the path
			if _, fs, perr := build(cs.Cfg); fs >= 0 && fs == len(cs.Cfg.Path)-1 && strings.HasPrefix(cs.Key, cs.Cfg.Path[fs].Op+"|") && strings.HasSuffix(cs.Key, "|panic") {
				fails = append(fails, failure{cs.Key, "transition panics: " + perr})
			}
			for _, f := range fails {
				if f.key == cs.Key {
					c.Violate(f.key, f.what, rank(cs.Cfg), cs)
					return
				}
			}
		},
	})
}
