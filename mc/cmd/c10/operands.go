package main

// Operands that are views themselves.
//
// The per-state alphabet of checks.go combines the explored view (any state of the BFS)
// with auxiliary operands that OWN their storage. Code that handles two cooperating views
// (a fast path taken when receiver and argument have the same layout, ...) is reached only
// if the second matrix/vector is a view too. The scenarios of this file therefore take the
// auxiliary operands from a fixed menu of view states of an independent parent
// (transposed, sliced with non-zero offsets and margins, sliced with zero offsets, transposed
// slice in both construction orders), in both roles:
//
//	explored view = receiver,  menu views  = operands     (S x M)
//	menu view     = receiver,  explored view (+ menu views) = operands   (M x S)
//
// Oracle: the reference execution (env.plain) replaces EVERY view by an owning deep copy
// with the same elements. Afterwards each menu view must read like its owning counterpart,
// and the parent of each menu view must have changed in exactly the cells the view denotes
// (rootCheck, the same code that judges the root of the explored view).

import (
	"fmt"
	"sort"

	ad "github.com/pbenner/autodiff"
)

// ---- the menu -----------------------------------------------------------------------

// opKind is one view state of an operand with respect to its own parent.
//
//	form S : parent.Slice(window)
//	form T : parent.T()
//	form ST: parent.Slice(window).T()
//	form TS: parent.T().Slice(window)
//	form TT: parent.T().T()
//	form = : the "twin": the explored view's own path replayed on an independent base of
//	         the same shape - an operand with exactly the header of the explored view
//
// win = (ro, co, mr, mc): leading row/column offset and trailing row/column margin of the
// window in PARENT coordinates (for ST/TS the n x m operand occupies an m x n window of
// its parent).
type opKind struct {
	form string
	win  [4]int
}

func (k opKind) String() string {
	if k.form == "T" || k.form == "TT" || k.form == "=" {
		return k.form
	}
	return fmt.Sprintf("%s[off=%d,%d margin=%d,%d]", k.form, k.win[0], k.win[1], k.win[2], k.win[3])
}

// opMenu: the operand view states of one tier.
//
// both:     the twin of the explored view (element-wise operations, Set, Equals, joint
//
//	iteration: operands of the explored view's own shape)
//
// quick:    {Slice, T().Slice} x {window with offsets (1,2) and margins (1,1), window with
//
//	zero offsets and margins (1,1)}, plain T(); for sparse storage (T() copies) also
//	Slice().T() of the (1,2,1,1) window (dense: same header as T().Slice)
//
// thorough: every window (ro,co,mr,mc) in {0,1}x{0,2}x{0,1}x{0,1} for each of S, TS and
//
//	(sparse) ST (the all-zero window is T for TS/ST and is left out for S), and TT
func opMenu(e *env) []opKind {
	if !e.thorough {
		L := []opKind{
			{"=", [4]int{}},
			{"T", [4]int{}},
			{"S", [4]int{1, 2, 1, 1}},
			{"S", [4]int{0, 0, 1, 1}},
			{"TS", [4]int{1, 2, 1, 1}},
			{"TS", [4]int{0, 0, 1, 1}},
		}
		if copyingT(e.sto) {
			L = append(L, opKind{"ST", [4]int{1, 2, 1, 1}})
		}
		return L
	}
	L := []opKind{{"=", [4]int{}}, {"T", [4]int{}}, {"TT", [4]int{}}}
	forms := []string{"S", "TS"}
	if copyingT(e.sto) {
		forms = append(forms, "ST")
	}
	for _, form := range forms {
		for ro := 0; ro <= 1; ro++ {
			for co := 0; co <= 2; co += 2 {
				for mr := 0; mr <= 1; mr++ {
					for mc := 0; mc <= 1; mc++ {
						if ro+co+mr+mc == 0 {
							continue
						}
						L = append(L, opKind{form, [4]int{ro, co, mr, mc}})
					}
				}
			}
		}
	}
	return L
}

// mixMenu: the kinds combined pairwise (a of one kind, b of another) in the thorough tier
func mixMenu(e *env) []opKind {
	q := *e
	q.thorough = false
	return opMenu(&q)
}

// the storage classes an operand view is taken from: the explored view's own (where
// same-type fast paths live); thorough: the other one as well
func opStorages(e *env) []string {
	if e.thorough {
		return []string{e.sto, otherSto(e.sto)}
	}
	return []string{e.sto}
}

// opCfg: parent shape and path of an n x m operand view of kind k
func opCfg(k opKind, state Cfg, sto, typ string, n, m int) Cfg {
	ro, co, mr, mc := k.win[0], k.win[1], k.win[2], k.win[3]
	cfg := Cfg{Sto: sto, Typ: typ, Content: "operand"}
	switch k.form {
	case "=":
		cfg.R, cfg.C, cfg.Path = state.R, state.C, state.Path
	case "S":
		cfg.R, cfg.C = n+ro+mr, m+co+mc
		cfg.Path = []Step{{Op: "S", A: [4]int{ro, ro + n, co, co + m}}}
	case "T":
		cfg.R, cfg.C = m, n
		cfg.Path = []Step{{Op: "T"}}
	case "TT":
		cfg.R, cfg.C = n, m
		cfg.Path = []Step{{Op: "T"}, {Op: "T"}}
	case "ST":
		cfg.R, cfg.C = m+ro+mr, n+co+mc
		cfg.Path = []Step{{Op: "S", A: [4]int{ro, ro + m, co, co + n}}, {Op: "T"}}
	case "TS":
		cfg.R, cfg.C = m+ro+mr, n+co+mc
		cfg.Path = []Step{{Op: "T"}, {Op: "S", A: [4]int{co, co + n, ro, ro + m}}}
	default:
		panic("unknown operand view form " + k.form)
	}
	return cfg
}

const sentinel0 = 50 // parent cells outside the operand's window hold 50, 51, ... (fit int8)

// opWorld builds the operand view whose cells hold `content`; the cells of its parent
// that the view does not denote hold distinct sentinel values
func opWorld(k opKind, state Cfg, sto, typ string, content [][]float64, n, m int) *world {
	cfg := opCfg(k, state, sto, typ, n, m)
	// denotation by a dry run of the model
	dm := newModel(nil, cfg.R, cfg.C)
	for _, s := range cfg.Path {
		if s.Op == "T" || s.Op == "MT" {
			dm.den = transDen(dm.den, dm.rows, dm.cols)
			dm.rows, dm.cols = dm.cols, dm.rows
		} else {
			dm.den = sliceDen(dm.den, s.A)
			dm.rows, dm.cols = s.A[1]-s.A[0], s.A[3]-s.A[2]
		}
	}
	if dm.rows != n || dm.cols != m {
		panic(fmt.Sprintf("harness: operand view %v has dims %dx%d, wanted %dx%d", cfg, dm.rows, dm.cols, n, m))
	}
	base := make([][]float64, cfg.R)
	for i := range base {
		base[i] = make([]float64, cfg.C)
		for j := range base[i] {
			base[i][j] = float64(sentinel0 + i*cfg.C + j)
		}
	}
	for i := 0; i < n; i++ {
		for j := 0; j < m; j++ {
			d := dm.den[i][j]
			base[d.I][d.J] = content[i][j]
		}
	}
	w, fs, perr := buildWith(cfg, base)
	if fs >= 0 {
		panic(fmt.Sprintf("forming the operand view %v panics: %s", cfg, perr))
	}
	return w
}

type madeOp struct {
	w    *world // nil for the owning counterpart
	m    ad.Matrix
	kind opKind
}

// view returns an n x m matrix holding content: the view of kind k on the view execution,
// an owning matrix on the reference execution
func (e *env) view(k opKind, sto string, content [][]float64, n, m int) ad.Matrix {
	if e.plain {
		x := matFrom(sto, e.typ, content, n, m)
		e.made = append(e.made, &madeOp{m: x, kind: k})
		return x
	}
	w := opWorld(k, e.state, sto, e.typ, content, n, m)
	e.made = append(e.made, &madeOp{w: w, m: w.view, kind: k})
	return w.view
}

func (e *env) vopnd(k opKind, sto string, n, m, seed int, zeros bool) ad.Matrix {
	return e.view(k, sto, opndContent(n, m, seed, zeros), n, m)
}

// ---- vector operands that are views ---------------------------------------------------

// vector kinds: "slice" = parent.Slice(2, 2+n) of a vector of dimension n+3;
// "row" = ConstRow(0) of a 1 x n matrix view (S, offsets (1,2), margins (1,1));
// "col" = ConstCol(0) of an n x 1 matrix view (T().Slice, same window)
var vecKinds = []string{"slice", "row", "col"}

type madeVec struct {
	parent ad.Vector // nil for the owning counterpart
	v      ad.Vector
	off    int
	n      int
}

func newVec(sto string, T ad.ScalarType, n int) ad.Vector {
	if sto == "dense" {
		return ad.NullDenseVector(T, n)
	}
	return ad.NullSparseVector(T, n)
}

func vecContent(n, seed int) []float64 {
	v := make([]float64, n)
	for i := range v {
		v[i] = float64(1 + (i+seed)%3)
	}
	return v
}

func (e *env) plainVec(sto string, vals []float64) ad.Vector {
	v := newVec(sto, e.T, len(vals))
	for i, x := range vals {
		if x != 0 {
			v.At(i).SetFloat64(x)
		}
	}
	return v
}

// vecSlice returns a (writable) vector holding vals: a slice of a longer vector on the
// view execution
func (e *env) vecSlice(sto string, vals []float64) ad.Vector {
	n := len(vals)
	if e.plain {
		v := e.plainVec(sto, vals)
		e.vmade = append(e.vmade, &madeVec{v: v, n: n})
		return v
	}
	const off, margin = 2, 1
	p := newVec(sto, e.T, n+off+margin)
	for i := 0; i < n+off+margin; i++ {
		x := float64(sentinel0 + i)
		if i >= off && i < off+n {
			x = vals[i-off]
		}
		if x != 0 {
			p.At(i).SetFloat64(x)
		}
	}
	v := p.Slice(off, off+n)
	e.vmade = append(e.vmade, &madeVec{parent: p, v: v, off: off, n: n})
	return v
}

// vecView returns a read-only vector operand of the given kind holding vals
func (e *env) vecView(kind, sto string, vals []float64) ad.ConstVector {
	n := len(vals)
	switch kind {
	case "slice":
		return e.vecSlice(sto, vals)
	case "row":
		m := e.view(opKind{"S", [4]int{1, 2, 1, 1}}, sto, [][]float64{vals}, 1, n)
		if e.plain {
			return e.plainVec(sto, vals)
		}
		return m.ConstRow(0)
	case "col":
		c := make([][]float64, n)
		for i := range c {
			c[i] = []float64{vals[i]}
		}
		m := e.view(opKind{"TS", [4]int{1, 2, 1, 1}}, sto, c, n, 1)
		if e.plain {
			return e.plainVec(sto, vals)
		}
		return m.ConstCol(0)
	}
	panic("unknown vector kind " + kind)
}

// ---- verdict on the operand views -------------------------------------------------------

func vecSnap(v ad.ConstVector) (s []cell, err string) {
	defer func() {
		if r := recover(); r != nil {
			err = fmt.Sprint(r)
		}
	}()
	n := v.Dim()
	for i := 0; i < n; i++ {
		s = append(s, cell{V: v.Float64At(i)})
	}
	return s, ""
}

// evidence: operand views (matrix / vector slice) judged against their owning counterparts
var opPairs, vecPairs int64

func checkOperands(ev, ec *env, reported bool, fail func(what, detail string)) {
	// if one execution stopped early (panic), only the operands both created are compared;
	// the divergence itself has been reported already
	for k := 0; k < len(ev.made) && k < len(ec.made); k++ {
		a, b := ev.made[k], ec.made[k]
		if a.w == nil || b.w != nil {
			panic("harness: operand lists of view and reference execution are not aligned")
		}
		opPairs++
		sa, sb := snap(a.m), snap(b.m)
		who := fmt.Sprintf("operand view #%d %v (%v)", k, a.kind, a.w.cfg)
		if !sa.eq(sb) && !reported {
			fail("opnd-state", who+" afterwards "+sa.String()+", its owning counterpart in the reference execution "+sb.String())
			reported = true
		}
		rootCheck(a.w, sb, reported, "parent of "+who, func(what, detail string) { fail("opnd-"+what, detail) })
	}
	for k := 0; k < len(ev.vmade) && k < len(ec.vmade); k++ {
		a, b := ev.vmade[k], ec.vmade[k]
		if a.parent == nil || b.parent != nil {
			panic("harness: vector operand lists of view and reference execution are not aligned")
		}
		vecPairs++
		sb, eb := vecSnap(b.v)
		sp, ep := vecSnap(a.parent)
		if eb != "" || ep != "" || len(sb) != a.n || len(sp) != a.n+a.off+1 {
			fail("opnd-vector-dims", fmt.Sprintf("vector slice operand #%d: parent %v %s, counterpart %v %s", k, sp, ep, sb, eb))
			continue
		}
		for i := range sp {
			want := cell{V: float64(sentinel0 + i)}
			in := i >= a.off && i < a.off+a.n
			if in {
				want = sb[i-a.off]
			}
			if !sp[i].eq(want) {
				if !in {
					fail("opnd-write-elsewhere", fmt.Sprintf("vector slice operand #%d: parent element %d outside the slice changed from %v to %v", k, i, want, sp[i]))
				} else if !reported {
					fail("opnd-no-write-through", fmt.Sprintf("vector slice operand #%d: parent element %d = %v, counterpart element %d = %v", k, i, sp[i], i-a.off, want))
				}
				break
			}
		}
	}
}

// ---- scenarios ------------------------------------------------------------------------------

type vecIter interface {
	Ok() bool
	Next()
	Index() int
	GetConst() ad.ConstScalar
}

func walkVecIter(it vecIter, r *res) {
	n := 0
	for ; it.Ok(); it.Next() {
		if n > iterBound {
			r.s("NONTERM")
			return
		}
		s := it.GetConst()
		if s == nil {
			r.f(float64(it.Index()))
			r.s("nil")
		} else {
			r.f(float64(it.Index()), s.GetFloat64())
		}
		n++
	}
	r.f(-1)
}

func walkJoint(it ad.MatrixJointIterator, r *res) {
	k := 0
	for ; it.Ok(); it.Next() {
		if k > iterBound {
			r.s("NONTERM")
			return
		}
		i, j := it.Index()
		s1, s2 := it.GetConst()
		r.f(float64(i), float64(j))
		for _, s := range []ad.ConstScalar{s1, s2} {
			if s == nil {
				r.s("nil")
			} else {
				r.f(s.GetFloat64())
			}
		}
		k++
	}
}

// operandScenarios: the part of the per-state alphabet whose auxiliary matrices/vectors are
// views. Scenario names are <op>:<role of the explored view>~<form of the menu views>[/x].
//
// reduced (the zero-pattern bases, whose explored views have absent/zero entries): the twin
// and the transposed slice only; sparse storage: Set, the element-wise operations with two
// matrices, Equals and joint iteration; dense storage: Equals and joint iteration.
func operandScenarios(e *env, add func(scenario), reduced, hasZero bool) {
	type bop struct {
		name string
		f    func(r ad.Matrix, a, b ad.ConstMatrix) ad.Matrix
	}
	bops := []bop{
		{"MaddM", func(r ad.Matrix, a, b ad.ConstMatrix) ad.Matrix { return r.MaddM(a, b) }},
		{"MsubM", func(r ad.Matrix, a, b ad.ConstMatrix) ad.Matrix { return r.MsubM(a, b) }},
		{"MmulM", func(r ad.Matrix, a, b ad.ConstMatrix) ad.Matrix { return r.MmulM(a, b) }},
		{"MdivM", func(r ad.Matrix, a, b ad.ConstMatrix) ad.Matrix { return r.MdivM(a, b) }},
	}
	type sop struct {
		name string
		c    float64
		f    func(r ad.Matrix, a ad.ConstMatrix, b ad.ConstScalar) ad.Matrix
	}
	sops := []sop{
		{"MaddS", 1, func(r ad.Matrix, a ad.ConstMatrix, b ad.ConstScalar) ad.Matrix { return r.MaddS(a, b) }},
		{"MsubS", 1, func(r ad.Matrix, a ad.ConstMatrix, b ad.ConstScalar) ad.Matrix { return r.MsubS(a, b) }},
		{"MmulS", 3, func(r ad.Matrix, a ad.ConstMatrix, b ad.ConstScalar) ad.Matrix { return r.MmulS(a, b) }},
		{"MdivS", 2, func(r ad.Matrix, a ad.ConstMatrix, b ad.ConstScalar) ad.Matrix { return r.MdivS(a, b) }},
	}
	type cop struct {
		name  string
		arity int // number of matrix operands
		c     float64
	}
	cops := []cop{{"MADDM", 2, 0}, {"MSUBM", 2, 0}, {"MMULM", 2, 0}, {"MDIVM", 2, 0}, {"MADDS", 1, 1}, {"MSUBS", 1, 1}, {"MMULS", 1, 3}, {"MDIVS", 1, 2}}

	for _, osto := range opStorages(e) {
		osto := osto
		x := ""
		if osto != e.sto {
			x = "/x"
		}
		for _, k := range opMenu(e) {
			k := k
			tag := "~" + k.form + x
			if reduced && !(k.form == "=" || (k.form == "TS" && k.win == [4]int{1, 2, 1, 1})) {
				continue
			}
			elementwise := !reduced || e.sto == "sparse"
			// ---- Set
			if elementwise {
				add(sc("Set:r"+tag, true, func(v ad.Matrix, e *env, r *res) {
					n, m := v.Dims()
					v.Set(e.vopnd(k, osto, n, m, 1, true))
				}))
				add(sc("Set:a"+tag, false, func(v ad.Matrix, e *env, r *res) {
					n, m := v.Dims()
					z := e.vopnd(k, osto, n, m, 2, false)
					z.Set(v)
					r.snap(z)
				}))
				// ---- element-wise, two matrix operands
				for _, op := range bops {
					op := op
					add(sc(op.name+":r"+tag, true, func(v ad.Matrix, e *env, r *res) {
						n, m := v.Dims()
						ret := op.f(v, e.vopnd(k, osto, n, m, 1, false), e.vopnd(k, osto, n, m, 2, false))
						r.b(ret == v)
					}))
					add(sc(op.name+":a"+tag, false, func(v ad.Matrix, e *env, r *res) {
						n, m := v.Dims()
						z := e.vopnd(k, osto, n, m, 3, true)
						ret := op.f(z, v, e.vopnd(k, osto, n, m, 2, false))
						r.b(ret == z)
						r.snap(z)
					}))
					if op.name == "MdivM" && hasZero {
						continue
					}
					add(sc(op.name+":b"+tag, false, func(v ad.Matrix, e *env, r *res) {
						n, m := v.Dims()
						z := e.vopnd(k, osto, n, m, 3, true)
						op.f(z, e.vopnd(k, osto, n, m, 1, true), v)
						r.snap(z)
					}))
				}
			}
			// ---- element-wise, matrix and scalar
			for _, op := range sops {
				if reduced {
					break
				}
				op := op
				add(sc(op.name+":r"+tag, true, func(v ad.Matrix, e *env, r *res) {
					n, m := v.Dims()
					op.f(v, e.vopnd(k, osto, n, m, 1, true), ad.NewScalar(e.T, op.c))
				}))
				add(sc(op.name+":a"+tag, false, func(v ad.Matrix, e *env, r *res) {
					n, m := v.Dims()
					z := e.vopnd(k, osto, n, m, 3, true)
					op.f(z, v, ad.NewScalar(e.T, op.c))
					r.snap(z)
				}))
			}
			// ---- matrix product (inner/outer dimension 2: non-square operands throughout;
			// not for the twin, whose shape is the explored view's)
			if k.form != "=" && !reduced {
				add(sc("MdotM:r"+tag, true, func(v ad.Matrix, e *env, r *res) {
					n, m := v.Dims()
					v.MdotM(e.vopnd(k, osto, n, 2, 1, false), e.vopnd(k, osto, 2, m, 2, true))
				}))
				add(sc("MdotM:a"+tag, false, func(v ad.Matrix, e *env, r *res) {
					n, m := v.Dims()
					z := e.vopnd(k, osto, n, 2, 3, true)
					z.MdotM(v, e.vopnd(k, osto, m, 2, 1, true))
					r.snap(z)
				}))
				add(sc("MdotM:b"+tag, false, func(v ad.Matrix, e *env, r *res) {
					n, m := v.Dims()
					z := e.vopnd(k, osto, 2, m, 3, true)
					z.MdotM(e.vopnd(k, osto, 2, n, 1, true), v)
					r.snap(z)
				}))
			}
			// ---- Equals against a view with the same elements, every single cell perturbed in turn
			add(sc("Equals"+tag, false, func(v ad.Matrix, e *env, r *res) {
				n, m := v.Dims()
				c := make([][]float64, n)
				for i := range c {
					c[i] = make([]float64, m)
					for j := range c[i] {
						c[i][j] = v.Float64At(i, j)
					}
				}
				same := e.view(k, osto, c, n, m)
				r.b(v.Equals(same, 1e-8))
				r.b(same.Equals(v, 1e-8))
				for i := 0; i < n; i++ {
					for j := 0; j < m; j++ {
						old := same.Float64At(i, j)
						same.At(i, j).SetFloat64(old + 1)
						r.b(v.Equals(same, 1e-8))
						r.b(same.Equals(v, 1e-8))
						same.At(i, j).SetFloat64(old)
					}
				}
			}))
			// ---- joint iteration over two views
			add(sc("JointIterator:r"+tag, false, func(v ad.Matrix, e *env, r *res) {
				n, m := v.Dims()
				walkJoint(v.JointIterator(e.vopnd(k, osto, n, m, 1, true)), r)
			}))
			add(sc("JointIterator:b"+tag, false, func(v ad.Matrix, e *env, r *res) {
				n, m := v.Dims()
				walkJoint(e.vopnd(k, osto, n, m, 1, true).JointIterator(v), r)
			}))
			// ---- concrete-typed methods: all matrices have the explored view's own type
			if osto != e.sto || reduced {
				continue
			}
			for _, op := range cops {
				op := op
				if _, ok := callMProbe(e.null(1, 1), op.name); !ok {
					continue
				}
				args := func(e *env, a, b ad.Matrix) []any {
					if op.arity == 2 {
						return []any{a, b}
					}
					return []any{a, ad.NewScalar(e.T, op.c)}
				}
				second := func(e *env, n, m int) ad.Matrix {
					if op.arity == 2 {
						return e.vopnd(k, osto, n, m, 2, false)
					}
					return nil
				}
				add(sc(op.name+":r"+tag, true, func(v ad.Matrix, e *env, r *res) {
					n, m := v.Dims()
					callM(v, op.name, args(e, e.vopnd(k, osto, n, m, 1, false), second(e, n, m))...)
				}))
				add(sc(op.name+":a"+tag, false, func(v ad.Matrix, e *env, r *res) {
					n, m := v.Dims()
					z := e.vopnd(k, osto, n, m, 3, true)
					callM(z, op.name, args(e, v, second(e, n, m))...)
					r.snap(z)
				}))
				if op.arity == 2 {
					add(sc(op.name+":b"+tag, false, func(v ad.Matrix, e *env, r *res) {
						n, m := v.Dims()
						z := e.vopnd(k, osto, n, m, 3, true)
						callM(z, op.name, e.vopnd(k, osto, n, m, 1, false), v)
						r.snap(z)
					}))
				}
			}
			if _, ok := callMProbe(e.null(1, 1), "MDOTM"); ok && k.form != "=" {
				add(sc("MDOTM:r"+tag, true, func(v ad.Matrix, e *env, r *res) {
					n, m := v.Dims()
					callM(v, "MDOTM", e.vopnd(k, osto, n, 2, 1, false), e.vopnd(k, osto, 2, m, 2, true))
				}))
				add(sc("MDOTM:a"+tag, false, func(v ad.Matrix, e *env, r *res) {
					n, m := v.Dims()
					z := e.vopnd(k, osto, n, 2, 3, true)
					callM(z, "MDOTM", v, e.vopnd(k, osto, m, 2, 1, true))
					r.snap(z)
				}))
				add(sc("MDOTM:b"+tag, false, func(v ad.Matrix, e *env, r *res) {
					n, m := v.Dims()
					z := e.vopnd(k, osto, 2, m, 3, true)
					callM(z, "MDOTM", e.vopnd(k, osto, 2, n, 1, true), v)
					r.snap(z)
				}))
			}
			if _, ok := callMProbe(e.null(1, 1), "EQUALS"); ok {
				add(sc("EQUALS"+tag, false, func(v ad.Matrix, e *env, r *res) {
					n, m := v.Dims()
					c := make([][]float64, n)
					for i := range c {
						c[i] = make([]float64, m)
						for j := range c[i] {
							c[i][j] = v.Float64At(i, j)
						}
					}
					same := e.view(k, osto, c, n, m)
					for q := -1; q < n*m; q++ {
						if q >= 0 {
							same.At(q/m, q%m).SetFloat64(same.Float64At(q/m, q%m) + 1)
						}
						if out, ok := callM(v, "EQUALS", same, 1e-8); ok {
							r.b(out[0].Bool())
						}
						if out, ok := callM(same, "EQUALS", v, 1e-8); ok {
							r.b(out[0].Bool())
						}
						if q >= 0 {
							same.At(q/m, q%m).SetFloat64(same.Float64At(q/m, q%m) - 1)
						}
					}
				}))
			}
		}
		// ---- thorough: the two matrix operands of an element-wise operation in DIFFERENT view
		// states (every ordered pair of the quick menu)
		if e.thorough && !reduced && osto == e.sto {
			for _, ka := range mixMenu(e) {
				for _, kb := range mixMenu(e) {
					ka, kb := ka, kb
					if ka == kb {
						continue
					}
					for _, op := range bops {
						op := op
						add(sc(op.name+":r~"+ka.form+"+"+kb.form, true, func(v ad.Matrix, e *env, r *res) {
							n, m := v.Dims()
							op.f(v, e.vopnd(ka, osto, n, m, 1, false), e.vopnd(kb, osto, n, m, 2, false))
						}))
					}
				}
			}
		}
		// ---- vector operands that are views
		for _, vk := range vecKinds {
			if reduced {
				break
			}
			vk := vk
			tag := "~" + vk + x
			add(sc("Outer:r"+tag, true, func(v ad.Matrix, e *env, r *res) {
				n, m := v.Dims()
				v.Outer(e.vecView(vk, osto, vecContent(n, 0)), e.vecView(vk, osto, vecContent(m, 1)))
			}))
			if _, ok := callMProbe(e.null(1, 1), "OUTER"); ok && osto == e.sto {
				add(sc("OUTER:r"+tag, true, func(v ad.Matrix, e *env, r *res) {
					n, m := v.Dims()
					_, ok := callM(v, "OUTER", e.vecView(vk, osto, vecContent(n, 0)), e.vecView(vk, osto, vecContent(m, 1)))
					r.b(ok)
				}))
			}
			add(sc("MdotV:a"+tag, false, func(v ad.Matrix, e *env, r *res) {
				n, m := v.Dims()
				z := e.vecSlice("dense", make([]float64, n))
				z.MdotV(v, e.vecView(vk, osto, vecContent(m, 0)))
				r.vec(z)
			}))
			add(sc("VdotM:b"+tag, false, func(v ad.Matrix, e *env, r *res) {
				n, m := v.Dims()
				z := e.vecSlice("dense", make([]float64, m))
				z.VdotM(e.vecView(vk, osto, vecContent(n, 0)), v)
				r.vec(z)
			}))
		}
	}
	// ---- the row/column/diagonal vectors of the explored view as operands: their own
	// iterators and vector-level Set read them (r.vec above reads element by element only)
	if reduced {
		return
	}
	use := func(name string, count func(n, m int) int, get func(v ad.Matrix, i int) ad.ConstVector) {
		add(sc(name, false, func(v ad.Matrix, e *env, r *res) {
			n, m := v.Dims()
			for i := 0; i < count(n, m); i++ {
				x := get(v, i)
				walkVecIter(x.ConstIterator(), r)
				for _, sto := range []string{"dense", "sparse"} {
					z := newVec(sto, e.T, x.Dim())
					z.Set(x)
					r.vec(z)
				}
				d := ad.NullDenseVector(e.T, x.Dim())
				d.VaddV(x, x)
				r.vec(d)
			}
		}))
	}
	// AsVector/AsConstVector: element order unspecified, so the values seen by the vector's
	// iterator and by vector-level Set are compared as multisets
	useUnordered := func(name string, get func(v ad.Matrix) ad.ConstVector) {
		add(sc(name, false, func(v ad.Matrix, e *env, r *res) {
			x := get(v)
			var vals []float64
			k := 0
			for it := x.ConstIterator(); it.Ok(); it.Next() {
				if k > iterBound {
					r.s("NONTERM")
					return
				}
				if s := it.GetConst(); s == nil {
					r.s("nil")
				} else {
					vals = append(vals, s.GetFloat64())
				}
				k++
			}
			sort.Float64s(vals)
			r.f(float64(len(vals)))
			r.f(vals...)
			for _, sto := range []string{"dense", "sparse"} {
				z := newVec(sto, e.T, x.Dim())
				z.Set(x)
				zs := make([]float64, z.Dim())
				for i := range zs {
					zs[i] = z.Float64At(i)
				}
				sort.Float64s(zs)
				r.f(zs...)
			}
		}))
	}
	useUnordered("AsConstVector.use", func(v ad.Matrix) ad.ConstVector { return v.AsConstVector() })
	useUnordered("AsVector.use", func(v ad.Matrix) ad.ConstVector { return v.AsVector() })
	use("ConstRow.use", func(n, m int) int { return n }, func(v ad.Matrix, i int) ad.ConstVector { return v.ConstRow(i) })
	use("ConstCol.use", func(n, m int) int { return m }, func(v ad.Matrix, j int) ad.ConstVector { return v.ConstCol(j) })
	use("ConstDiag.use", func(n, m int) int { return 1 }, func(v ad.Matrix, _ int) ad.ConstVector { return v.ConstDiag() })
	use("Row.use", func(n, m int) int { return n }, func(v ad.Matrix, i int) ad.ConstVector { return v.Row(i) })
	use("Col.use", func(n, m int) int { return m }, func(v ad.Matrix, j int) ad.ConstVector { return v.Col(j) })
}
