// Package exact is the exact reference model shared by the C04 and C06 harnesses:
// small integer matrices, fraction-free (Bareiss) determinant and adjugate in int64
// (exact on the lattices used: n<=6, |entries|<=2: every minor is bounded by Hadamard's
// inequality, (sqrt(6)*2)^6 < 2^14, and every Bareiss intermediate is a product of two minors), an independent
// math/big.Rat Gauss-Jordan inverse used as cross-check and for rational solutions,
// Sylvester's criterion, structural singularity, exact partial-pivot simulation.
// It does not import the library under test.
package exact

import (
	"fmt"
	"math"
	"math/big"
	"sort"
	"strings"
)

// Mat is a dense n x n integer matrix, row major.
type Mat struct {
	N int
	V []int64
}

func New(n int) Mat                 { return Mat{n, make([]int64, n*n)} }
func (m Mat) At(i, j int) int64     { return m.V[i*m.N+j] }
func (m Mat) Set(i, j int, v int64) { m.V[i*m.N+j] = v }
func (m Mat) Ints() []int {
	r := make([]int, len(m.V))
	for i, v := range m.V {
		r[i] = int(v)
	}
	return r
}
func FromInts(n int, v []int) Mat {
	m := New(n)
	for i := range v {
		m.V[i] = int64(v[i])
	}
	return m
}
func (m Mat) String() string {
	var sb strings.Builder
	sb.WriteString("[")
	for i := 0; i < m.N; i++ {
		if i > 0 {
			sb.WriteString("; ")
		}
		for j := 0; j < m.N; j++ {
			if j > 0 {
				sb.WriteString(" ")
			}
			fmt.Fprintf(&sb, "%d", m.At(i, j))
		}
	}
	sb.WriteString("]")
	return sb.String()
}

// Sub returns the principal sub-matrix selected by mask and the selected indices.
func (m Mat) Sub(mask []bool) (Mat, []int) {
	idx := []int{}
	for i, b := range mask {
		if b {
			idx = append(idx, i)
		}
	}
	s := New(len(idx))
	for a, i := range idx {
		for b, j := range idx {
			s.Set(a, b, m.At(i, j))
		}
	}
	return s, idx
}

func (m Mat) T() Mat {
	t := New(m.N)
	for i := 0; i < m.N; i++ {
		for j := 0; j < m.N; j++ {
			t.Set(j, i, m.At(i, j))
		}
	}
	return t
}

// Det: Bareiss fraction-free elimination in int64 (all divisions exact).
func (m Mat) Det() int64 {
	n := m.N
	if n == 0 {
		return 1
	}
	a := append([]int64{}, m.V...)
	sign := int64(1)
	prev := int64(1)
	for k := 0; k < n-1; k++ {
		if a[k*n+k] == 0 {
			sw := -1
			for i := k + 1; i < n; i++ {
				if a[i*n+k] != 0 {
					sw = i
					break
				}
			}
			if sw < 0 {
				return 0
			}
			for j := 0; j < n; j++ {
				a[k*n+j], a[sw*n+j] = a[sw*n+j], a[k*n+j]
			}
			sign = -sign
		}
		for i := k + 1; i < n; i++ {
			for j := k + 1; j < n; j++ {
				a[i*n+j] = (a[i*n+j]*a[k*n+k] - a[i*n+k]*a[k*n+j]) / prev
			}
		}
		prev = a[k*n+k]
	}
	return sign * a[n*n-1]
}

func (m Mat) minor(r, c int) Mat {
	s := New(m.N - 1)
	a := 0
	for i := 0; i < m.N; i++ {
		if i == r {
			continue
		}
		b := 0
		for j := 0; j < m.N; j++ {
			if j == c {
				continue
			}
			s.Set(a, b, m.At(i, j))
			b++
		}
		a++
	}
	return s
}

// Cof(i,j) = (-1)^(i+j) det(minor(i,j)) = d det / d A_ij.
func (m Mat) Cof(i, j int) int64 {
	d := m.minor(i, j).Det()
	if (i+j)%2 == 1 {
		d = -d
	}
	return d
}

// Adj: adjugate, Adj = det * A^-1, Adj[i][j] = Cof(j,i).
func (m Mat) Adj() Mat {
	a := New(m.N)
	for i := 0; i < m.N; i++ {
		for j := 0; j < m.N; j++ {
			a.Set(i, j, m.Cof(j, i))
		}
	}
	return a
}

func (m Mat) IsSymmetric() bool {
	for i := 0; i < m.N; i++ {
		for j := 0; j < i; j++ {
			if m.At(i, j) != m.At(j, i) {
				return false
			}
		}
	}
	return true
}

func (m Mat) IsUpper() bool {
	for i := 0; i < m.N; i++ {
		for j := 0; j < i; j++ {
			if m.At(i, j) != 0 {
				return false
			}
		}
	}
	return true
}

// IsSPD: symmetric and all leading principal minors positive (Sylvester).
func (m Mat) IsSPD() bool {
	if !m.IsSymmetric() {
		return false
	}
	mask := make([]bool, m.N)
	for k := 0; k < m.N; k++ {
		mask[k] = true
		s, _ := m.Sub(mask)
		if s.Det() <= 0 {
			return false
		}
	}
	return true
}

// StructSingular: "" or the kind of structural singularity (decided exactly).
func (m Mat) StructSingular() string {
	n := m.N
	for i := 0; i < n; i++ {
		z := true
		for j := 0; j < n; j++ {
			if m.At(i, j) != 0 {
				z = false
			}
		}
		if z {
			return "zero-row"
		}
	}
	for j := 0; j < n; j++ {
		z := true
		for i := 0; i < n; i++ {
			if m.At(i, j) != 0 {
				z = false
			}
		}
		if z {
			return "zero-col"
		}
	}
	for i := 0; i < n; i++ {
		for k := i + 1; k < n; k++ {
			eq := true
			for j := 0; j < n; j++ {
				if m.At(i, j) != m.At(k, j) {
					eq = false
				}
			}
			if eq {
				return "equal-rows"
			}
		}
	}
	return ""
}

func (m Mat) NormInf() float64 {
	mx := 0.0
	for i := 0; i < m.N; i++ {
		s := 0.0
		for j := 0; j < m.N; j++ {
			s += math.Abs(float64(m.At(i, j)))
		}
		if s > mx {
			mx = s
		}
	}
	return mx
}

// Kappa: ||A||_inf * ||A^-1||_inf from the exact inverse adj/det (det != 0).
func Kappa(m, adj Mat, det int64) float64 {
	if m.N == 0 {
		return 1
	}
	k := m.NormInf() * adj.NormInf() / math.Abs(float64(det))
	if k < 1 {
		k = 1
	}
	return k
}

// InvRat: independent inverse by Gauss-Jordan elimination over big.Rat; nil if singular.
func (m Mat) InvRat() [][]*big.Rat {
	n := m.N
	a := make([][]*big.Rat, n)
	for i := range a {
		a[i] = make([]*big.Rat, 2*n)
		for j := 0; j < n; j++ {
			a[i][j] = new(big.Rat).SetInt64(m.At(i, j))
			a[i][n+j] = new(big.Rat)
		}
		a[i][n+i].SetInt64(1)
	}
	for c := 0; c < n; c++ {
		p := -1
		for r := c; r < n; r++ {
			if a[r][c].Sign() != 0 {
				p = r
				break
			}
		}
		if p < 0 {
			return nil
		}
		a[c], a[p] = a[p], a[c]
		inv := new(big.Rat).Inv(a[c][c])
		for j := 0; j < 2*n; j++ {
			a[c][j] = new(big.Rat).Mul(a[c][j], inv)
		}
		for r := 0; r < n; r++ {
			if r == c || a[r][c].Sign() == 0 {
				continue
			}
			f := new(big.Rat).Set(a[r][c])
			for j := 0; j < 2*n; j++ {
				a[r][j] = new(big.Rat).Sub(a[r][j], new(big.Rat).Mul(f, a[c][j]))
			}
		}
	}
	x := make([][]*big.Rat, n)
	for i := range x {
		x[i] = a[i][n:]
	}
	return x
}

// CrossCheck compares adj/det with the big.Rat inverse; "" if consistent.
func (m Mat) CrossCheck() string {
	det := m.Det()
	inv := m.InvRat()
	if (det == 0) != (inv == nil) {
		return fmt.Sprintf("det=%d but rational elimination singular=%v for %v", det, inv == nil, m)
	}
	if det == 0 {
		return ""
	}
	adj := m.Adj()
	for i := 0; i < m.N; i++ {
		for j := 0; j < m.N; j++ {
			if big.NewRat(adj.At(i, j), det).Cmp(inv[i][j]) != 0 {
				return fmt.Sprintf("adj/det != rational inverse at (%d,%d) for %v", i, j, m)
			}
		}
	}
	return ""
}

// PivotPerm simulates elimination with partial pivoting exactly (first strictly larger
// |entry| wins, as in the library) and returns p with p[i] = original row used as i-th pivot.
func (m Mat) PivotPerm() []int {
	n := m.N
	a := make([][]*big.Rat, n)
	for i := range a {
		a[i] = make([]*big.Rat, n)
		for j := range a[i] {
			a[i][j] = new(big.Rat).SetInt64(m.At(i, j))
		}
	}
	p := make([]int, n)
	for i := range p {
		p[i] = i
	}
	abs := func(x *big.Rat) *big.Rat { return new(big.Rat).Abs(x) }
	for i := 0; i < n; i++ {
		mx := i
		for j := i + 1; j < n; j++ {
			if abs(a[p[j]][i]).Cmp(abs(a[p[mx]][i])) > 0 {
				mx = j
			}
		}
		p[i], p[mx] = p[mx], p[i]
		if a[p[i]][i].Sign() == 0 {
			continue
		}
		for j := i + 1; j < n; j++ {
			c := new(big.Rat).Quo(a[p[j]][i], a[p[i]][i])
			for k := i; k < n; k++ {
				a[p[j]][k] = new(big.Rat).Sub(a[p[j]][k], new(big.Rat).Mul(a[p[i]][k], c))
			}
		}
	}
	return p
}

// CycleType of a permutation, e.g. "id", "2", "3", "2+2", "4" (fixed points omitted).
func CycleType(p []int) string {
	seen := make([]bool, len(p))
	var ls []int
	for i := range p {
		if seen[i] {
			continue
		}
		l := 0
		for j := i; !seen[j]; j = p[j] {
			seen[j] = true
			l++
		}
		if l > 1 {
			ls = append(ls, l)
		}
	}
	if len(ls) == 0 {
		return "id"
	}
	sort.Ints(ls)
	s := make([]string, len(ls))
	for i, l := range ls {
		s[i] = fmt.Sprint(l)
	}
	return strings.Join(s, "+")
}

// InterchangeConsistent reports whether applying p as "swap i with p[i] when p[i]>i,
// i ascending" yields the arrangement new[i]=old[p[i]].
func InterchangeConsistent(p []int) bool {
	r := make([]int, len(p))
	for i := range r {
		r[i] = i
	}
	for i := range p {
		if p[i] > i {
			r[i], r[p[i]] = r[p[i]], r[i]
		}
	}
	for i := range p {
		if r[i] != p[i] {
			return false
		}
	}
	return true
}

// Lattice enumerates all n x n matrices over alphabet (simplest first: index 0 of the
// alphabet varies slowest at the last entry). Count = len(alpha)^(n*n).
func LatticeCount(n int, alpha []int64) int64 {
	c := int64(1)
	for i := 0; i < n*n; i++ {
		c *= int64(len(alpha))
	}
	return c
}

func LatticeAt(n int, alpha []int64, idx int64) Mat {
	m := New(n)
	k := int64(len(alpha))
	for e := 0; e < n*n; e++ {
		m.V[e] = alpha[idx%k]
		idx /= k
	}
	return m
}

// Perms returns all permutations of 0..n-1 in lexicographic order.
func Perms(n int) [][]int {
	var res [][]int
	p := make([]int, n)
	used := make([]bool, n)
	var rec func(k int)
	rec = func(k int) {
		if k == n {
			res = append(res, append([]int{}, p...))
			return
		}
		for v := 0; v < n; v++ {
			if !used[v] {
				used[v] = true
				p[k] = v
				rec(k + 1)
				used[v] = false
			}
		}
	}
	rec(0)
	return res
}
