// C04, operands that are VIEWS. "Caller-supplied in-situ buffers" (and the inputs themselves)
// need not be freshly allocated n x n matrices: a caller passes buf.T() because it wants the
// transposed result in buf, a block of a larger work matrix (Slice), a slice of a transposed
// matrix, a sub-range of a longer vector - and some matrices RETURNED by the library are views
// themselves (the positive-definite inverse returns a transposed view of the Cholesky buffer).
// Every routine addresses its operands through the Matrix/Vector interfaces (At, Set,
// PermuteRows, SwapRows, MdotM, T, ...), each generated once per element type with its own
// handling of offsets and of the transposed flag, so the defining equations are checked for
// every routine x option set x PRODUCT of view kinds over all operands the option set uses
// x all four element types, on small complete lattices (the operand kinds of one call are
// independent dimensions: inSitu.A.Set(input) couples the input's kind with the buffer's).
package main

import (
	"fmt"
	"strings"

	"verif/mc/cmd/c04/exact"
	"verif/mc/vf"
)

var matrixKinds = []string{"", "T", "S", "ST"}
var vectorKinds = []string{"", "S"}

type operand struct {
	name   string
	vector bool
}

// viewOperands: the caller-supplied operands a routine touches under an option set, in the
// fixed order used in Case.Views.
func viewOperands(routine, opt string) []operand {
	switch routine {
	case "matrixInverse":
		ops := []operand{{"in", false}}
		if has(opt, "insitu") {
			ops = append(ops, operand{"id", false})
			if !has(opt, "PD") || has(opt, "sub") {
				ops = append(ops, operand{"a", false})
			}
			if has(opt, "PD") {
				ops = append(ops, operand{"L", false})
			}
			ops = append(ops, operand{"b", true})
		}
		return ops
	case "gaussJordan":
		return []operand{{"a", false}, {"x", false}, {"b", true}}
	case "determinant":
		ops := []operand{{"in", false}}
		if has(opt, "insitu") {
			ops = append(ops, operand{"L", false})
		}
		return ops
	case "backSubstitution":
		ops := []operand{{"in", false}}
		if !has(opt, "nilb") {
			ops = append(ops, operand{"b", true})
		}
		if has(opt, "insitu") {
			ops = append(ops, operand{"a", false}, operand{"xv", true})
		}
		return ops
	}
	return nil
}

// viewCombos: every assignment of view kinds to the operands except the all-plain one,
// fewest views first.
func viewCombos(ops []operand) []string {
	type combo struct {
		s string
		k int
	}
	var all []combo
	var rec func(i int, parts []string)
	rec = func(i int, parts []string) {
		if i == len(ops) {
			if len(parts) > 0 {
				all = append(all, combo{strings.Join(parts, ","), len(parts)})
			}
			return
		}
		kinds := matrixKinds
		if ops[i].vector {
			kinds = vectorKinds
		}
		for _, k := range kinds {
			if k == "" {
				rec(i+1, parts)
			} else {
				rec(i+1, append(append([]string{}, parts...), ops[i].name+"="+k))
			}
		}
	}
	rec(0, nil)
	var r []string
	for k := 1; k <= len(ops); k++ {
		for _, c := range all {
			if c.k == k {
				r = append(r, c.s)
			}
		}
	}
	return r
}

var comboCache = map[string][]string{}

func combosFor(routine, opt string) []string {
	k := routine + "|" + opt
	if r, ok := comboCache[k]; ok {
		return r
	}
	r := viewCombos(viewOperands(routine, opt))
	comboCache[k] = r
	return r
}

// viewMasks: the full mask and every mask excluding exactly one index (n>=2).
func viewMasks(n int) [][]bool {
	var r [][]bool
	for _, m := range allMasks(n) {
		if cnt := popcntMask(m); cnt == n || (cnt == n-1 && n >= 2) {
			r = append(r, m)
		}
	}
	return r
}

func popcntMask(m []bool) int {
	c := 0
	for _, b := range m {
		if b {
			c++
		}
	}
	return c
}

// viewCasesFor: every configuration with at least one view operand on matrix m.
func viewCasesFor(m exact.Mat, elems []string) []Case {
	n := m.N
	A := m.Ints()
	rhs := rhsList(n)
	ramp := rhs[len(rhs)-1]
	masks := viewMasks(n)
	upper := m.IsUpper()
	spd := m.IsSPD()
	var cs []Case
	for _, e := range elems {
		add := func(routine, opt string, mask []bool, r []int) {
			for _, vs := range combosFor(routine, opt) {
				cs = append(cs, Case{Routine: routine, N: n, A: A, Elem: e, Opt: opt, Mask: mask, Rhs: r, Views: vs})
			}
		}
		add("determinant", "", nil, nil)
		if spd {
			for _, o := range []string{"PD", "PD+log", "PD+insitu", "PD+log+insitu"} {
				add("determinant", o, nil, nil)
			}
		}
		add("matrixInverse", "", nil, nil)
		add("matrixInverse", "insitu", nil, nil)
		for _, mk := range masks {
			add("matrixInverse", "sub", mk, nil)
			add("matrixInverse", "sub+insitu", mk, nil)
		}
		if upper {
			add("matrixInverse", "UT", nil, nil)
			add("matrixInverse", "UT+insitu", nil, nil)
			for _, mk := range masks {
				add("matrixInverse", "UT+sub", mk, nil)
			}
		}
		if spd {
			add("matrixInverse", "PD", nil, nil)
			add("matrixInverse", "PD+insitu", nil, nil)
			for _, mk := range masks {
				add("matrixInverse", "PD+sub", mk, nil)
				add("matrixInverse", "PD+sub+insitu", mk, nil)
			}
		}
		add("gaussJordan", "", nil, ramp)
		if n > 1 {
			add("gaussJordan", "", nil, rhs[0])
		}
		if upper {
			add("gaussJordan", "UT", nil, ramp)
		}
		for _, mk := range masks {
			add("gaussJordan", "sub", mk, ramp)
			if upper {
				add("gaussJordan", "UT+sub", mk, ramp)
			}
		}
		if upper {
			add("backSubstitution", "", nil, ramp)
			add("backSubstitution", "insitu", nil, ramp)
			add("backSubstitution", "nilb", nil, nil)
			add("backSubstitution", "nilb+insitu", nil, nil)
		}
	}
	return cs
}

// spd3Family: n=3 symmetric, diagonal 2, off-diagonal {0,1,-1} (26 of the 27 are positive
// definite): the positive-definite options at n=3, which the {0,1} lattice only meets at I.
func spd3Family() family {
	return family{"n=3,symmetric,diag=2,off{0,1,-1}", 3, 27, func(i int64) exact.Mat {
		o := digits(i, 3, []int64{0, 1, -1})
		m := exact.New(3)
		k := 0
		for r := 0; r < 3; r++ {
			m.Set(r, r, 2)
			for c := r + 1; c < 3; c++ {
				m.Set(r, c, o[k])
				m.Set(c, r, o[k])
				k++
			}
		}
		return m
	}, always}
}

func exploreViews(c *vf.Ctx) {
	elems := []string{"Float64", "Real64", "Float32", "Real32"}
	var fams []family
	if c.Thorough() {
		fams = []family{latticeFamily(1, []int64{0, 1, -1, 2, -2}, always), latticeFamily(2, []int64{0, 1, -1, 2, -2}, always),
			latticeFamily(3, []int64{0, 1}, always), spd3Family(), rowPermFamily(3, []string{"alternating"}, always),
			rowPermFamily(4, []string{"ones", "bidiagonal", "alternating"}, always), companionFamily(4, []int64{0, 1}),
			spdTridiagonalFamily(4), upperToeplitzFamily(4)}
	} else {
		fams = []family{latticeFamily(1, []int64{0, 1, -1, 2, -2}, always), latticeFamily(2, []int64{0, 1, -1, 2}, always),
			latticeFamily(3, []int64{0, 1}, always), spd3Family()}
	}
	var gidx int64
	for fi, f := range fams {
		for i := int64(0); i < f.count; i++ {
			gidx++
			if !c.Mine(gidx) {
				continue
			}
			m := f.at(i)
			if msg := m.CrossCheck(); msg != "" {
				c.HarnessError("reference self-check: " + msg)
				return
			}
			c.Count("view-matrices:"+f.name, 1)
			for k, cs := range viewCasesFor(m, elems) {
				rank := int64(5e17) + int64(fi)*1e15 + sumAbs(m)*1e12 + i*100000 + int64(k)
				c.Guard("views|"+cs.Routine+"|"+cs.Opt+"|"+cs.Elem, rank, cs)
				v, key, what := judge(cs)
				c.Eval(1)
				if v.nontriv {
					c.Nontrivial(1)
				}
				c.Outcome("views|" + cs.Routine + "|" + cs.Opt + "|" + v.outcome)
				c.Count("views:"+cs.Routine+":"+v.outcome, 1)
				if key != "" {
					c.Violate(key, describe(cs, what), rank, cs)
				}
				if gidx%97 == 0 && k == 1500 {
					c.Sample(cs)
				}
			}
		}
	}
	if c.Shard == 0 {
		for _, ro := range [][2]string{{"matrixInverse", "insitu"}, {"matrixInverse", "PD+sub+insitu"}, {"gaussJordan", ""}, {"determinant", "PD+insitu"}, {"backSubstitution", "insitu"}} {
			c.Count(fmt.Sprintf("view-combinations:%s(%s)", ro[0], ro[1]), int64(len(combosFor(ro[0], ro[1]))))
		}
	}
}
