// C04: linear solves, inverses and determinants satisfy their defining equations.
// Exhaustive small-scope enumeration of integer matrices x options x element types,
// oracle = exact integer/rational reference (package exact).
package main

import (
	"encoding/json"
	"fmt"
	"math"
	"sort"
	"strings"

	ad "github.com/pbenner/autodiff"
	"github.com/pbenner/autodiff/algorithm/backSubstitution"
	"github.com/pbenner/autodiff/algorithm/cholesky"
	"github.com/pbenner/autodiff/algorithm/determinant"
	"github.com/pbenner/autodiff/algorithm/gaussJordan"
	"github.com/pbenner/autodiff/algorithm/matrixInverse"
	verifrt "github.com/pbenner/autodiff/zz_verifrt"

	"verif/mc/cmd/c04/exact"
	"verif/mc/vf"
)

// Case is one (routine, input, option set, element type) configuration; it is the
// replay artefact.
type Case struct {
	Routine string `json:"routine"` // matrixInverse | gaussJordan | determinant | backSubstitution
	N       int    `json:"n"`
	A       []int  `json:"a"`    // row major
	Elem    string `json:"elem"` // Float32 | Float64 | Real32 | Real64
	Opt     string `json:"opt"`  // "+"-joined: PD UT sub insitu log nilb ("" = default)
	Mask    []bool `json:"mask,omitempty"`
	Rhs     []int  `json:"rhs,omitempty"`
	// Views: which caller-supplied operands are VIEWS of a larger storage instead of plain
	// matrices/vectors: comma-separated operand=kind, operands in the fixed order of viewOperands,
	// plain operands omitted. Matrix kinds: T (transposed view of an n x n matrix), S (n x n slice
	// of an (n+2) x (n+3) matrix), ST (slice of the transposed (n+2) x (n+3) matrix); vector kind:
	// S (slice of a vector of length n+3).
	Views string `json:"views,omitempty"`
	// Scale k: the input matrix is A*2^k (scale.go); exact in binary floating point, so the
	// reference is the unscaled exact reference shifted by the scaling law of the routine.
	Scale int `json:"scale,omitempty"`
}

var elemTypes = map[string]ad.ScalarType{
	"Float32": ad.Float32Type, "Float64": ad.Float64Type, "Real32": ad.Real32Type, "Real64": ad.Real64Type,
}

func unitRoundoff(elem string) float64 {
	if strings.HasSuffix(elem, "32") {
		return math.Ldexp(1, -24)
	}
	return math.Ldexp(1, -53)
}

const tolC = 1024.0 // generous constant in front of u*kappa

func has(opt, tok string) bool {
	for _, t := range strings.Split(opt, "+") {
		if t == tok {
			return true
		}
	}
	return false
}

// viewOf returns the view kind of an operand in a Views string ("" = plain).
func viewOf(views, operand string) string {
	if views == "" {
		return ""
	}
	for _, t := range strings.Split(views, ",") {
		if strings.HasPrefix(t, operand+"=") {
			return t[len(operand)+1:]
		}
	}
	return ""
}

// newMatrix allocates an n x n matrix of the given view kind; the storage outside a sliced
// view is filled with finite junk.
func newMatrix(t ad.ScalarType, n int, kind string) ad.Matrix {
	switch kind {
	case "":
		return ad.NullDenseMatrix(t, n, n)
	case "T":
		return ad.NullDenseMatrix(t, n, n).T()
	case "S", "ST":
		big := ad.NullDenseMatrix(t, n+2, n+3)
		for i := 0; i < n+2; i++ {
			for j := 0; j < n+3; j++ {
				big.At(i, j).SetFloat64(-7.5 + 0.5*float64(i) + 2.25*float64(j))
			}
		}
		if kind == "S" {
			return big.Slice(1, n+1, 2, n+2)
		}
		return big.T().Slice(2, n+2, 1, n+1)
	}
	panic("harness: unknown matrix view kind " + kind)
}

func newVector(t ad.ScalarType, n int, kind string) ad.Vector {
	switch kind {
	case "":
		return ad.NullDenseVector(t, n)
	case "S":
		big := ad.NullDenseVector(t, n+3)
		for i := 0; i < n+3; i++ {
			big.At(i).SetFloat64(6.5 - 1.25*float64(i))
		}
		return big.Slice(2, n+2)
	}
	panic("harness: unknown vector view kind " + kind)
}

func buildMatrix(t ad.ScalarType, m exact.Mat) ad.Matrix { return buildMatrixV(t, m, "") }

func buildMatrixV(t ad.ScalarType, m exact.Mat, kind string) ad.Matrix {
	return buildMatrixS(t, m, kind, 0)
}

// buildMatrixS: the matrix m*2^scale (exact: small integers times a power of two inside the
// range of the element type).
func buildMatrixS(t ad.ScalarType, m exact.Mat, kind string, scale int) ad.Matrix {
	r := newMatrix(t, m.N, kind)
	for i := 0; i < m.N; i++ {
		for j := 0; j < m.N; j++ {
			r.At(i, j).SetFloat64(math.Ldexp(float64(m.At(i, j)), scale))
		}
	}
	return r
}

func buildVector(t ad.ScalarType, v []int) ad.Vector { return buildVectorV(t, v, "") }

func buildVectorV(t ad.ScalarType, v []int, kind string) ad.Vector {
	r := newVector(t, len(v), kind)
	for i := range v {
		r.At(i).SetFloat64(float64(v[i]))
	}
	return r
}

// garbage: finite, nonzero, non-symmetric dyadic junk for caller-supplied buffers.
func garbageMatrix(t ad.ScalarType, n int) ad.Matrix { return garbageMatrixV(t, n, "") }

func garbageMatrixV(t ad.ScalarType, n int, kind string) ad.Matrix {
	r := newMatrix(t, n, kind)
	for i := 0; i < n; i++ {
		for j := 0; j < n; j++ {
			r.At(i, j).SetFloat64(1.5 + 0.75*float64(i) - 1.25*float64(j))
		}
	}
	return r
}
func garbageVector(t ad.ScalarType, n int) ad.Vector { return garbageVectorV(t, n, "") }

func garbageVectorV(t ad.ScalarType, n int, kind string) ad.Vector {
	r := newVector(t, n, kind)
	for i := 0; i < n; i++ {
		r.At(i).SetFloat64(-2.5 + 1.75*float64(i))
	}
	return r
}

type callResult struct {
	err    error
	pan    any
	ticked bool
	ticks  int64
}

func (r callResult) loud() bool { return r.err != nil || r.pan != nil }
func (r callResult) label() string {
	switch {
	case r.ticked:
		return "tick-budget"
	case r.pan != nil:
		return "panic"
	case r.err != nil:
		return "error"
	}
	return "returned"
}

// guarded runs f under a deterministic tick budget and recovers library panics.
func guarded(n int, f func() error) (res callResult) {
	budget := int64(200000) * int64((n+1)*(n+1)*(n+1))
	verifrt.Reset(budget)
	defer func() {
		res.ticks = verifrt.Count()
		verifrt.Reset(0)
		if r := recover(); r != nil {
			if _, ok := r.(verifrt.BudgetExceeded); ok {
				res.ticked = true
			}
			res.pan = r
		}
	}()
	res.err = f()
	return
}

type verdict struct {
	outcome string // outcome class for vacuity statistics
	nontriv bool   // the property was really exercised
	bad     string // "" or what is violated (short token)
	what    string // human description
	class   string // structural class of the input
}

func maskClass(mask []bool) string {
	if mask == nil {
		return ""
	}
	cnt, prefix, seenFalse := 0, true, false
	for _, b := range mask {
		if b {
			cnt++
			if seenFalse {
				prefix = false
			}
		} else {
			seenFalse = true
		}
	}
	switch {
	case cnt == 0:
		return "mask=empty"
	case cnt == len(mask):
		return "mask=full"
	case prefix:
		return "mask=prefix"
	}
	return "mask=nonprefix"
}

func allFinite(vs ...float64) bool {
	for _, v := range vs {
		if math.IsNaN(v) || math.IsInf(v, 0) {
			return false
		}
	}
	return true
}

// structural class of a regular input for the key
func regularClass(cs Case, b exact.Mat) string {
	switch {
	case has(cs.Opt, "PD"):
		return "spd"
	case has(cs.Opt, "UT") || cs.Routine == "backSubstitution":
		return "triangular"
	case cs.Routine == "determinant":
		return "regular"
	}
	p := b.PivotPerm()
	ct := exact.CycleType(p)
	if b.N >= 5 && ct != "id" {
		// sizes 5 and 6 (large.go): only the longest cycle, so that one defect does not get a key
		// per partition of n
		parts := strings.Split(ct, "+")
		ct = parts[len(parts)-1]
		if len(parts) > 1 {
			ct += "(longest)"
		}
	}
	s := "pivot-cycles=" + ct
	if !exact.InterchangeConsistent(p) {
		s += ",perm!=interchange-seq"
	}
	return s
}

// checkInverseBlock: X[S,S] must be the inverse of B=A[S,S]; outside the block X must
// still be the identity it was initialised with.
func checkInverseBlock(x func(i, j int) float64, n int, b exact.Mat, idx []int, u float64) (string, string) {
	inS := make([]bool, n)
	for _, i := range idx {
		inS[i] = true
	}
	for i := 0; i < n; i++ {
		for j := 0; j < n; j++ {
			if !allFinite(x(i, j)) {
				return "nonfinite-on-regular", fmt.Sprintf("X[%d,%d]=%v for a regular well-conditioned input", i, j, x(i, j))
			}
			if inS[i] && inS[j] {
				continue
			}
			want := 0.0
			if i == j {
				want = 1
			}
			if x(i, j) != want {
				return "outside-submatrix-modified", fmt.Sprintf("X[%d,%d]=%v outside the selected block (identity expected)", i, j, x(i, j))
			}
		}
	}
	if b.N == 0 {
		return "", ""
	}
	det := b.Det()
	adj := b.Adj()
	tol := tolC * u * exact.Kappa(b, adj, det)
	worst, wi, wj := 0.0, 0, 0
	for r := 0; r < b.N; r++ {
		for cidx := 0; cidx < b.N; cidx++ {
			s := 0.0
			for k := 0; k < b.N; k++ {
				s += float64(b.At(r, k)) * x(idx[k], idx[cidx])
			}
			if r == cidx {
				s -= 1
			}
			if math.Abs(s) > worst {
				worst, wi, wj = math.Abs(s), r, cidx
			}
		}
	}
	if worst > tol {
		return "A*X!=I", fmt.Sprintf("|A*X-I|[%d,%d]=%.3g > tol*kappa=%.3g (exact X[%d,%d]=%d/%d, got %v)", wi, wj, worst, tol, wi, wj, adj.At(wi, wj), det, x(idx[wi], idx[wj]))
	}
	return "", ""
}

func checkSolve(y func(i int) float64, b exact.Mat, idx []int, rhs []int, u float64, eq string) (string, string) {
	det := b.Det()
	adj := b.Adj()
	bn := 1.0
	for _, i := range idx {
		bn = math.Max(bn, math.Abs(float64(rhs[i])))
	}
	tol := tolC * u * exact.Kappa(b, adj, det) * bn
	for r := 0; r < b.N; r++ {
		if !allFinite(y(idx[r])) {
			return "nonfinite-on-regular", fmt.Sprintf("x[%d]=%v for a regular well-conditioned input", idx[r], y(idx[r]))
		}
	}
	for r := 0; r < b.N; r++ {
		s := -float64(rhs[idx[r]])
		for k := 0; k < b.N; k++ {
			s += float64(b.At(r, k)) * y(idx[k])
		}
		if math.Abs(s) > tol {
			// exact solution component for the message
			num := int64(0)
			for k := 0; k < b.N; k++ {
				num += adj.At(r, k) * int64(rhs[idx[k]])
			}
			return eq, fmt.Sprintf("|A*x-b|[%d]=%.3g > tol*kappa=%.3g (exact x[%d]=%d/%d, got %v)", r, math.Abs(s), tol, r, num, det, y(idx[r]))
		}
	}
	return "", ""
}

// runCase executes one configuration against the real library and judges it.
func runCase(cs Case) (v verdict) {
	t, ok := elemTypes[cs.Elem]
	if !ok {
		return verdict{outcome: "bad-case"}
	}
	u := unitRoundoff(cs.Elem)
	M := exact.FromInts(cs.N, cs.A)
	n := cs.N
	vk := func(operand string) string { return viewOf(cs.Views, operand) }
	mask := cs.Mask
	full := make([]bool, n)
	for i := range full {
		full[i] = true
	}
	sel := full
	if has(cs.Opt, "sub") {
		sel = mask
	}
	B, idx := M.Sub(sel)
	sing := ""
	detB := int64(1)
	if B.N > 0 {
		detB = B.Det()
		if detB == 0 {
			sing = B.StructSingular()
			if sing == "" {
				sing = "singular-nonstructural"
			}
		}
	}
	// scaling law of the linear routines: inverse and solution of A*2^k are 2^-k times those of A
	// (inside the selected block; outside it x and b keep their initial values). Multiplying the
	// returned numbers by 2^k is exact in float64.
	inBlock := make([]bool, n)
	for _, i := range idx {
		inBlock[i] = true
	}
	unscaleM := func(X ad.ConstMatrix) func(i, j int) float64 {
		return func(i, j int) float64 {
			v := X.ConstAt(i, j).GetFloat64()
			if cs.Scale != 0 && inBlock[i] && inBlock[j] {
				v = math.Ldexp(v, cs.Scale)
			}
			return v
		}
	}
	unscaleV := func(x ad.ConstVector) func(i int) float64 {
		return func(i int) float64 {
			v := x.ConstAt(i).GetFloat64()
			if cs.Scale != 0 && inBlock[i] {
				v = math.Ldexp(v, cs.Scale)
			}
			return v
		}
	}
	mc := maskClass(cs.Mask)
	withMask := func(s string) string {
		if mc != "" && has(cs.Opt, "sub") {
			return s + "," + mc
		}
		return s
	}

	// judge an inverse/solve style outcome
	judgeLinear := func(res callResult, check func() (string, string)) verdict {
		if res.ticked {
			return verdict{outcome: "tick-budget", nontriv: true, bad: "TICK", what: fmt.Sprintf("tick budget exceeded (%d loop iterations)", res.ticks), class: withMask("any")}
		}
		if sing == "singular-nonstructural" {
			return verdict{outcome: "skip:singular-nonstructural:" + res.label()}
		}
		if sing != "" {
			if res.loud() {
				return verdict{outcome: "singular:" + sing + ":" + res.label(), nontriv: true}
			}
			bad, what := check()
			if bad == "nonfinite-on-regular" {
				return verdict{outcome: "singular:" + sing + ":nonfinite", nontriv: true}
			}
			_ = what
			return verdict{outcome: "singular:" + sing + ":FINITE", nontriv: true, bad: "finite-answer-on-singular",
				what: "structurally singular input (" + sing + ") gave a finite result without error or panic", class: withMask("singular:" + sing)}
		}
		if res.loud() {
			return verdict{outcome: "regular:" + res.label(), nontriv: true, bad: res.label() + "-on-regular",
				what: fmt.Sprintf("regular input rejected: err=%v panic=%v", res.err, res.pan), class: withMask(regularClass(cs, B))}
		}
		bad, what := check()
		if bad != "" {
			return verdict{outcome: "regular:" + bad, nontriv: true, bad: bad, what: what, class: withMask(regularClass(cs, B))}
		}
		return verdict{outcome: "regular:ok", nontriv: true}
	}

	switch cs.Routine {
	case "matrixInverse":
		a := buildMatrixS(t, M, vk("in"), cs.Scale)
		var args []interface{}
		if has(cs.Opt, "PD") {
			args = append(args, matrixInverse.PositiveDefinite{Value: true})
		}
		if has(cs.Opt, "UT") {
			args = append(args, matrixInverse.UpperTriangular{Value: true})
		}
		if has(cs.Opt, "sub") {
			args = append(args, gaussJordan.Submatrix{Value: append([]bool{}, mask...)})
		}
		if has(cs.Opt, "insitu") {
			args = append(args, &matrixInverse.InSitu{
				Id: garbageMatrixV(t, n, vk("id")), A: garbageMatrixV(t, n, vk("a")), B: garbageVectorV(t, n, vk("b")),
				Cholesky: cholesky.InSitu{L: garbageMatrixV(t, n, vk("L")), S: ad.NewScalar(t, 7.25), T: ad.NewScalar(t, -3.5)}})
		}
		var X ad.Matrix
		res := guarded(n, func() error {
			x, err := matrixInverse.Run(a, args...)
			X = x
			return err
		})
		return judgeLinear(res, func() (string, string) {
			if X == nil {
				return "nil-result", "nil matrix returned without error"
			}
			if r, c := X.Dims(); r != n || c != n {
				return "result-dims", fmt.Sprintf("result is %dx%d", r, c)
			}
			return checkInverseBlock(unscaleM(X), n, B, idx, u)
		})

	case "gaussJordan":
		a := buildMatrixS(t, M, vk("a"), cs.Scale)
		x := newMatrix(t, n, vk("x"))
		for i := 0; i < n; i++ {
			for j := 0; j < n; j++ {
				if i == j {
					x.At(i, j).SetFloat64(1)
				} else {
					x.At(i, j).SetFloat64(0)
				}
			}
		}
		b := buildVectorV(t, cs.Rhs, vk("b"))
		var args []interface{}
		if has(cs.Opt, "UT") {
			args = append(args, gaussJordan.UpperTriangular{Value: true})
		}
		if has(cs.Opt, "sub") {
			args = append(args, gaussJordan.Submatrix{Value: append([]bool{}, mask...)})
		}
		res := guarded(n, func() error { return gaussJordan.Run(a, x, b, args...) })
		return judgeLinear(res, func() (string, string) {
			if bad, what := checkInverseBlock(unscaleM(x), n, B, idx, u); bad != "" {
				return bad, what
			}
			inS := make([]bool, n)
			for _, i := range idx {
				inS[i] = true
			}
			for i := 0; i < n; i++ {
				if !inS[i] && b.ConstAt(i).GetFloat64() != float64(cs.Rhs[i]) {
					return "outside-submatrix-modified", fmt.Sprintf("b[%d] outside the selected block changed", i)
				}
			}
			if B.N == 0 {
				return "", ""
			}
			return checkSolve(unscaleV(b), B, idx, cs.Rhs, u, "A*x!=b")
		})

	case "backSubstitution":
		a := buildMatrixS(t, M, vk("in"), cs.Scale)
		var b ad.Vector
		rhs := cs.Rhs
		if has(cs.Opt, "nilb") {
			rhs = make([]int, n)
		} else {
			b = buildVectorV(t, cs.Rhs, vk("b"))
		}
		var args []interface{}
		if has(cs.Opt, "insitu") {
			args = append(args, &backSubstitution.InSitu{A: garbageMatrixV(t, n, vk("a")), X: garbageVectorV(t, n, vk("xv")), T: ad.NewScalar(t, 7.25)})
		}
		var X ad.Vector
		res := guarded(n, func() error {
			x, err := backSubstitution.Run(a, b, args...)
			X = x
			return err
		})
		return judgeLinear(res, func() (string, string) {
			if X == nil {
				return "nil-result", "nil vector returned without error"
			}
			if X.Dim() != n {
				return "result-dims", fmt.Sprintf("result has dim %d", X.Dim())
			}
			return checkSolve(unscaleV(X), B, idx, rhs, u, "R*x!=b")
		})

	case "determinant":
		a := buildMatrixS(t, M, vk("in"), cs.Scale)
		var args []interface{}
		if has(cs.Opt, "PD") {
			args = append(args, determinant.PositiveDefinite{Value: true})
		}
		if has(cs.Opt, "log") {
			args = append(args, determinant.LogScale{Value: true})
		}
		if has(cs.Opt, "insitu") {
			args = append(args, &determinant.InSitu{Cholesky: cholesky.InSitu{L: garbageMatrixV(t, n, vk("L")), S: ad.NewScalar(t, 7.25), T: ad.NewScalar(t, -3.5)}})
		}
		var D ad.Scalar
		res := guarded(n, func() error {
			d, err := determinant.Run(a, args...)
			D = d
			return err
		})
		cls := "regular"
		if detB == 0 {
			cls = "singular"
		}
		if has(cs.Opt, "PD") {
			cls = "spd"
		}
		if res.ticked {
			return verdict{outcome: "tick-budget", nontriv: true, bad: "TICK", what: "tick budget exceeded", class: cls}
		}
		if res.loud() {
			return verdict{outcome: cls + ":" + res.label(), nontriv: true, bad: res.label() + "-on-valid-input",
				what: fmt.Sprintf("determinant rejected a valid input: err=%v panic=%v", res.err, res.pan), class: cls}
		}
		if D == nil {
			return verdict{outcome: cls + ":nil", nontriv: true, bad: "nil-result", what: "nil scalar returned without error", class: cls}
		}
		got := D.GetFloat64()
		// scaling law: det(A*2^k) = 2^(k*n)*det(A), log det(A*2^k) = k*n*log(2) + log det(A)
		shift := cs.Scale * n
		emin, emax := -1022, 1023
		if strings.HasSuffix(cs.Elem, "32") {
			emin, emax = -126, 127
		}
		if detB == 0 {
			// cofactor expansion: absolute tolerance scaled by n! * max|a|^n
			scale := 1.0
			for i := 1; i <= n; i++ {
				scale *= float64(i) * 2
			}
			if shift != 0 {
				// scaled input: the same bound shifted, not below the smallest normal number; not
				// judged when the n-fold products of the expansion leave the range of the element type
				if _, e := math.Frexp(scale); e-1+shift > emax-24 {
					return verdict{outcome: "singular:scaled-products-not-representable"}
				}
				scale = math.Max(math.Ldexp(scale, shift), math.Ldexp(1, emin)/(tolC*u))
			}
			if !(math.Abs(got) <= tolC*u*scale) {
				return verdict{outcome: "singular:wrong", nontriv: true, bad: "det!=ref", what: fmt.Sprintf("det=%v, exact 0", got), class: cls}
			}
			return verdict{outcome: "singular:ok", nontriv: true}
		}
		kap := exact.Kappa(B, B.Adj(), detB)
		if has(cs.Opt, "log") {
			want := math.Log(float64(detB)) + float64(shift)*math.Ln2
			if !(math.Abs(got-want) <= tolC*u*kap*math.Max(1, math.Abs(want))) {
				return verdict{outcome: cls + ":wrong", nontriv: true, bad: "logdet!=log(ref)", what: fmt.Sprintf("logdet=%v, exact log(%d*2^%d)=%v", got, detB, shift, want), class: cls}
			}
		} else {
			want := math.Ldexp(float64(detB), shift)
			if shift != 0 {
				// judged only where the true determinant is a normal number of the element type with a
				// margin of 2^24 on either side (sums of n! products; the square root for the PD route)
				if _, e := math.Frexp(float64(detB)); e-1+shift < emin+24 || e-1+shift > emax-24 {
					return verdict{outcome: cls + ":scaled-determinant-not-representable"}
				}
			}
			if !(math.Abs(got-want) <= tolC*u*kap*math.Abs(want)) {
				return verdict{outcome: cls + ":wrong", nontriv: true, bad: "det!=ref", what: fmt.Sprintf("det=%v, exact %d*2^%d", got, detB, shift), class: cls}
			}
		}
		return verdict{outcome: cls + ":ok", nontriv: true}
	}
	return verdict{outcome: "bad-case"}
}

// elemClass: the code path class selected by the element type. gaussJordan has a
// hand-specialised Float64 path; Cholesky (PositiveDefinite options) has Float32 and
// Float64 paths; everything else runs the generic Scalar-interface code. The concrete
// type is part of the violation text and of the replay case.
func elemClass(cs Case) string {
	switch cs.Routine {
	case "gaussJordan", "matrixInverse":
		if cs.Elem == "Float64" {
			return "Float64-fast"
		}
		if has(cs.Opt, "PD") && cs.Elem == "Float32" {
			return "Float32-fast-cholesky"
		}
	case "determinant":
		if has(cs.Opt, "PD") && (cs.Elem == "Float64" || cs.Elem == "Float32") {
			return cs.Elem + "-fast-cholesky"
		}
	}
	return "generic"
}

func describe(cs Case, what string) string {
	vs := ""
	if cs.Views != "" {
		vs = " views{" + cs.Views + "}"
	}
	if cs.Scale != 0 {
		vs += fmt.Sprintf(" input scaled by 2^%d", cs.Scale)
	}
	return fmt.Sprintf("%s(%s) %s%s on A=%v mask=%v rhs=%v: %s", cs.Routine, cs.Opt, cs.Elem, vs, exact.FromInts(cs.N, cs.A), cs.Mask, cs.Rhs, what)
}

// judge runs a case and derives the violation key ("" = no violation). For a case with view
// operands the key names the operand whose view alone makes the call fail: the same case is
// re-run with plain operands (fails too: not a matter of views, the key of the plain case is
// reported) and with each view operand on its own.
func judge(cs Case) (verdict, string, string) {
	v := runCase(cs)
	if v.bad == "" {
		return v, "", ""
	}
	if cs.Scale != 0 {
		// a violation that also occurs on the unscaled matrix keeps the unscaled key
		unscaled := cs
		unscaled.Scale = 0
		if pv := runCase(unscaled); pv.bad != "" {
			return v, keyOf(unscaled, pv), pv.what + " (also with the unscaled matrix)"
		}
		// the scaling is the structural signature: pivot order and mask class are dropped
		kv := v
		if i := strings.Index(kv.class, ","); i >= 0 {
			kv.class = kv.class[:i]
		}
		if strings.HasPrefix(kv.class, "pivot-cycles") {
			kv.class = "regular"
		}
		if cs.Scale > 0 {
			kv.class += ",scaled-up"
		} else {
			kv.class += ",scaled-down"
		}
		return v, keyOf(cs, kv), v.what + " (with the unscaled matrix the call is correct)"
	}
	if cs.Views == "" {
		return v, keyOf(cs, v), v.what
	}
	plain := cs
	plain.Views = ""
	if pv := runCase(plain); pv.bad != "" {
		return v, keyOf(plain, pv), pv.what + " (also with plain operands)"
	}
	for _, ov := range strings.Split(cs.Views, ",") {
		single := cs
		single.Views = ov
		if sv := runCase(single); sv.bad != "" {
			kv := v
			kv.class = "view:" + ov // the view is the structural signature, whatever the pivot order or mask
			return v, keyOf(cs, kv), v.what + " (with plain operands the call is correct; the view " + ov + " alone makes it fail)"
		}
	}
	kv := v
	kv.class = "view:combination-only"
	return v, keyOf(cs, kv), v.what + " (with plain operands and with each view on its own the call is correct)"
}

func keyOf(cs Case, v verdict) string {
	opt := cs.Opt
	if opt == "" {
		opt = "default"
	}
	if v.bad == "TICK" {
		return "TICK|" + cs.Routine + "|opt=" + opt + "|elem=" + elemClass(cs) + "|" + v.class
	}
	return cs.Routine + "|opt=" + opt + "|elem=" + elemClass(cs) + "|" + v.class + "|" + v.bad
}

// ---- enumeration -------------------------------------------------------------

func rhsList(n int) [][]int {
	var r [][]int
	for k := 0; k < n; k++ {
		e := make([]int, n)
		e[k] = 1
		r = append(r, e)
	}
	ones := make([]int, n)
	ramp := make([]int, n)
	for i := range ones {
		ones[i] = 1
		ramp[i] = i + 1
	}
	if n > 1 {
		r = append(r, ones)
	}
	if n > 1 {
		r = append(r, ramp)
	}
	return r
}

func allMasks(n int) [][]bool {
	var r [][]bool
	// simplest first: more selected rows last, the full mask first
	ms := []int{}
	for m := 0; m < 1<<n; m++ {
		ms = append(ms, m)
	}
	sort.SliceStable(ms, func(a, b int) bool { return popcnt(ms[a]) < popcnt(ms[b]) })
	for _, m := range ms {
		b := make([]bool, n)
		for i := 0; i < n; i++ {
			b[i] = m&(1<<i) != 0
		}
		r = append(r, b)
	}
	return r
}
func popcnt(x int) int {
	c := 0
	for ; x != 0; x &= x - 1 {
		c++
	}
	return c
}

type family struct {
	name  string
	n     int
	count int64
	at    func(i int64) exact.Mat
	// element type policy: full(m) => all four element types, otherwise Float64 (fast
	// path) + Real64 (generic path)
	full func(m exact.Mat) bool
}

func latticeFamily(n int, alpha []int64, full func(exact.Mat) bool) family {
	return family{fmt.Sprintf("n=%d,entries=%v", n, alpha), n, exact.LatticeCount(n, alpha), func(i int64) exact.Mat { return exact.LatticeAt(n, alpha, i) }, full}
}

func small(bound int64) func(exact.Mat) bool {
	return func(m exact.Mat) bool {
		for _, v := range m.V {
			if v > bound || v < -bound {
				return false
			}
		}
		return true
	}
}
func always(exact.Mat) bool { return true }

// n=4 families (thorough): every row permutation of every unit-diagonal upper-triangular
// sign pattern; every symmetric sign pattern.
func permTriFamily() family {
	perms := exact.Perms(4)
	return family{"n=4,rowperm(unit-upper-tri{-1,0,1})", 4, int64(len(perms)) * 729, func(i int64) exact.Mat {
		p := perms[i%int64(len(perms))]
		t := i / int64(len(perms))
		alpha := []int64{0, 1, -1}
		u := exact.New(4)
		for r := 0; r < 4; r++ {
			u.Set(r, r, 1)
			for c := r + 1; c < 4; c++ {
				u.Set(r, c, alpha[t%3])
				t /= 3
			}
		}
		m := exact.New(4)
		for r := 0; r < 4; r++ {
			for c := 0; c < 4; c++ {
				m.Set(r, c, u.At(p[r], c))
			}
		}
		return m
	}, always}
}
func symFamily(n int) family {
	ne := n * (n + 1) / 2
	cnt := int64(1)
	for i := 0; i < ne; i++ {
		cnt *= 3
	}
	return family{fmt.Sprintf("n=%d,symmetric{-1,0,1}", n), n, cnt, func(i int64) exact.Mat {
		alpha := []int64{0, 1, -1}
		m := exact.New(n)
		for r := 0; r < n; r++ {
			for c := r; c < n; c++ {
				m.Set(r, c, alpha[i%3])
				m.Set(c, r, alpha[i%3])
				i /= 3
			}
		}
		return m
	}, always}
}

// casesFor lists every configuration run on matrix m (deterministic order, simplest first).
func casesFor(m exact.Mat, full bool) []Case {
	n := m.N
	A := m.Ints()
	elems := []string{"Float64", "Real64"}
	if full {
		elems = []string{"Float64", "Real64", "Float32", "Real32"}
	}
	rhs := rhsList(n)
	masks := masksFor(n)
	upper := m.IsUpper()
	spd := m.IsSPD()
	var cs []Case
	for _, e := range elems {
		add := func(routine, opt string, mask []bool, r []int) {
			cs = append(cs, Case{Routine: routine, N: n, A: A, Elem: e, Opt: opt, Mask: mask, Rhs: r})
		}
		// determinant
		add("determinant", "", nil, nil)
		if spd {
			for _, o := range []string{"PD", "PD+log", "PD+insitu", "PD+log+insitu"} {
				add("determinant", o, nil, nil)
			}
		}
		// inverse
		add("matrixInverse", "", nil, nil)
		add("matrixInverse", "insitu", nil, nil)
		for _, mk := range masks {
			add("matrixInverse", "sub", mk, nil)
		}
		if full {
			for _, mk := range masks {
				add("matrixInverse", "sub+insitu", mk, nil)
			}
		}
		if upper {
			add("matrixInverse", "UT", nil, nil)
			add("matrixInverse", "UT+insitu", nil, nil)
			for _, mk := range masks {
				add("matrixInverse", "UT+sub", mk, nil)
			}
		}
		if spd {
			add("matrixInverse", "PD", nil, nil)
			add("matrixInverse", "PD+insitu", nil, nil)
			for _, mk := range masks {
				add("matrixInverse", "PD+sub", mk, nil)
			}
		}
		// solve
		for _, r := range rhs {
			add("gaussJordan", "", nil, r)
			if upper {
				add("gaussJordan", "UT", nil, r)
			}
		}
		for _, mk := range masks {
			add("gaussJordan", "sub", mk, rhs[len(rhs)-1])
			if upper {
				add("gaussJordan", "UT+sub", mk, rhs[len(rhs)-1])
			}
		}
		// back substitution
		if upper {
			for _, r := range rhs {
				add("backSubstitution", "", nil, r)
				add("backSubstitution", "insitu", nil, r)
			}
			add("backSubstitution", "nilb", nil, nil)
			add("backSubstitution", "nilb+insitu", nil, nil)
		}
	}
	return cs
}

func sumAbs(m exact.Mat) int64 {
	s := int64(0)
	for _, v := range m.V {
		if v < 0 {
			v = -v
		}
		s += v
	}
	return s
}

func explore(c *vf.Ctx, fams []family) {
	var gidx int64
	for fi, f := range fams {
		for i := int64(0); i < f.count; i++ {
			gidx++
			if !c.Mine(gidx) {
				continue
			}
			m := f.at(i)
			if msg := m.CrossCheck(); msg != "" {
				c.HarnessError("reference self-check: " + msg)
				return
			}
			c.Count("matrices:"+f.name, 1)
			cases := casesFor(m, f.full(m))
			for k, cs := range cases {
				rank := int64(fi)*1e15 + sumAbs(m)*1e12 + i*1000 + int64(k)
				c.Guard(cs.Routine+"|"+cs.Opt+"|"+cs.Elem, rank, cs)
				v, key, what := judge(cs)
				c.Eval(1)
				if v.nontriv {
					c.Nontrivial(1)
				}
				c.Outcome(cs.Routine + "|" + cs.Opt + "|" + v.outcome)
				c.Count("outcome:"+cs.Routine+":"+v.outcome, 1)
				if key != "" {
					c.Violate(key, describe(cs, what), rank, cs)
				}
				if gidx%50021 == 0 && k == 1 {
					c.Sample(cs)
				}
			}
		}
	}
}

func main() {
	vf.Main(vf.Spec{
		ID:    "C04",
		Level: "exploration",
		Rule: "every n x n integer matrix of the stated lattices (n<=3, thorough n<=4) and of the structured families of sizes 5 and 6 (large.go: all n! row permutations of unit upper-triangular templates = every pivot order, companion matrices in four orientations over all coefficient vectors, bordered identities, symmetric positive-definite tridiagonal, unit upper-triangular Toeplitz; thorough also permutation matrices +-1 in one entry; size sweep n=7..9, thorough 10: unit upper-triangular templates under the row permutations identity, every adjacent interchange, (0 n-1), cyclic shift, reversal) x every routine (matrixInverse, gaussJordan solve, determinant, backSubstitution) x every option set whose precondition the matrix satisfies exactly " +
			"(PositiveDefinite only on exactly-SPD, UpperTriangular/backSubstitution only on upper-triangular input; Submatrix over all 2^n masks for n<=4 and over {full, empty, each single exclusion, both alternating masks, leading and trailing half} for n>=5; caller-supplied InSitu buffers pre-filled with finite garbage; LogScale) x element type x right-hand side; " +
			"plus view operands (views.go): on the lattices n=1, n=2 and n=3 over {0,1} (+ the symmetric n=3 matrices with diagonal 2; thorough: + row-permuted triangular, companion, tridiagonal and Toeplitz families of size 4) every routine x option set (masks: full and each single exclusion) x all four element types x every assignment of view kinds {plain, transposed view, slice of a larger matrix, slice of a transposed larger matrix; vectors: plain, slice of a longer vector} to ALL caller-supplied operands the option set uses (input matrix, right-hand side, gaussJordan's a/x/b, InSitu Id/A/B/Cholesky.L, backSubstitution InSitu A/X) with at least one view, judged by the same defining equations; a violation that also occurs with plain operands is reported under the plain key, otherwise under the single view operand that reproduces it; " +
			"plus two-call histories sharing one in-situ object (hist.go): every routine with work buffers x ordered pairs of option sets x first inputs of a lattice containing singular, not-SPD, non-triangular and non-finite matrices x regular admissible second inputs, the second call must equal the same call with fresh buffers (non-trivial when the first call failed or its input was inadmissible), and the input objects of the FIRST call (matrix, right-hand side; all but gaussJordan, whose arguments are its work space) must be bit for bit what the first call left, after the second call on the same in-situ object (caller input retained as persistent state); " +
			"plus recycle histories (hist.go): the matrix RETURNED by a first call (matrixInverse default/UpperTriangular/PositiveDefinite, cholesky L, cholesky LDL D; first inputs: tridiagonal, diagonal 2, off-diagonals {0,1}) is handed to a second call of every routine as each matrix buffer its option set uses (InSitu Id/A/Cholesky.L/D, backSubstitution InSitu.A, gaussJordan a/x) x regular admissible second inputs x all four element types, the second call must equal the same call with fresh buffers and must leave the producer call's input matrix untouched (non-trivial when the first call returned a matrix); " +
			"plus exact power-of-two scalings (scale.go): on the lattices n=1, n=2, n=3 over {0,1} (thorough {0,1,-1}), the symmetric n=3 matrices with diagonal 2 and the positive-definite tridiagonal / upper-triangular Toeplitz families of sizes 5 and 6 (thorough also size 4 and row-permuted triangular templates of sizes 4, 5), every routine x option set x right-hand side x all four element types on A*2^k, k in {+-120, +-400} for the 64-bit and {+-20, +-56} for the 32-bit element types (entries, reciprocals and products of two entries are normal numbers), for the determinant routes also k = +-800 resp. +-100 (the square root of the determinant leaves the range from n=2, 3); reference = exact unscaled reference shifted by the scaling law (det: 2^(kn), log det: + k n log 2, inverse and solutions: 2^-k), same relative tolerances; the plain determinant is judged only where the true value is a normal number of the element type with a margin of 2^24, the log-determinant always; a violation that also occurs unscaled keeps the unscaled key; " +
			"a case is non-trivial when the selected block is exactly regular (defining equation checked against tol*kappa from the exact inverse) or structurally singular (must fail loudly or return non-finite values); exactly singular but not structurally singular blocks are executed but not judged",
		Assume: []string{
			"gaussJordan.Run is called with x = identity (its use as inverse/solve); UpperTriangular is only promised for x0 = I",
			"Submatrix selects the principal block A[S,S]; entries of x and b outside the block must stay untouched (as asserted by the repository's own TestSubmatrixInverse)",
			"tolerance 1024*u*kappa_inf(A)*max(1,|b|_inf), u = 2^-24 for Float32/Real32 and 2^-53 otherwise",
			"in-situ garbage placed by the harness is finite (no NaN/Inf placed in caller buffers); whatever the library itself leaves in the buffers after an earlier (also failed) call is a legitimate buffer state",
			"view operands of one call never share storage with each other (aliasing is C08's subject); the storage of a sliced view outside the view holds finite junk and is not inspected afterwards (C10's subject); operands are filled entry by entry through At(i,j), never through the library's bulk setters",
			"a matrix returned by a routine belongs to the caller and may be passed as any buffer of a later call",
			"scaled inputs: the routines may form products of two entries (a[j,i]*a[i,k] before dividing by the pivot), so the scalings of the linear routines keep such products inside the range of the element type; a singular input's cofactor expansion is not judged when n-fold products leave the range",
			"an input matrix or right-hand side handed to a call remains the caller's object: no later call on the same in-situ object may write to it",
		},
		Run: func(c *vf.Ctx) {
			a5 := []int64{0, 1, -1, 2, -2}
			a4 := []int64{0, 1, -1, 2}
			var fams []family
			if c.Thorough() {
				// n=3 full lattice: all four element types where no entry is -2 (the quick lattice), Float64+Real64 elsewhere
				fams = []family{latticeFamily(1, a5, always), latticeFamily(2, a5, always), latticeFamily(3, a5, func(m exact.Mat) bool {
					for _, v := range m.V {
						if v == -2 {
							return false
						}
					}
					return true
				}), permTriFamily(), symFamily(4)}
			} else {
				// n=3: every right-hand side everywhere; Float64 (fast path) + Real64 (generic path) on the
				// whole lattice, Float32 + Real32 additionally on the {-1,0,1} sub-lattice
				fams = []family{latticeFamily(1, a5, always), latticeFamily(2, a5, always), latticeFamily(3, a4, small(1))}
			}
			fams = append(fams, largeFamilies(c.Thorough())...)
			explore(c, fams)
			exploreViews(c)
			exploreScaled(c)
			exploreHistories(c)
			exploreRecycle(c)
		},
		Replay: func(c *vf.Ctx, raw json.RawMessage) {
			var kind struct {
				Kind string `json:"kind"`
			}
			if err := json.Unmarshal(raw, &kind); err == nil && kind.Kind == "history" {
				var h HCase
				if err := json.Unmarshal(raw, &h); err != nil {
					c.HarnessError(err.Error())
					return
				}
				if v := runHist(h); v.key != "" {
					c.Violate(v.key, v.what, 0, h)
				}
				return
			}
			var cs Case
			if err := json.Unmarshal(raw, &cs); err != nil {
				c.HarnessError(err.Error())
				return
			}
			if _, key, what := judge(cs); key != "" {
				c.Violate(key, describe(cs, what), 0, cs)
			}
		},
	})
}
